"""Reference decoders written from the IMA ADPCM (WAV block layout) and Microsoft ADPCM
definitions, used on 2026-09-29 to confirm that libsndfile's decoders agree on random and
adversarial blocks (design probe, not framework code). `ima_wav_block` and `ms_block` are the
definitions to transcribe into SfModel/Spec/Adpcm.lean. The driver part expects a helper
binary and is kept only to document how the comparison was made."""
import subprocess,sys,os
os.environ['ASAN_OPTIONS']='detect_leaks=0'
STEP=[7,8,9,10,11,12,13,14,16,17,19,21,23,25,28,31,34,37,41,45,50,55,60,66,73,80,88,97,107,118,130,143,157,173,190,209,230,253,279,307,337,371,408,449,494,544,598,658,724,796,876,963,1060,1166,1282,1411,1552,1707,1878,2066,2272,2499,2749,3024,3327,3660,4026,4428,4871,5358,5894,6484,7132,7845,8630,9493,10442,11487,12635,13899,15289,16818,18500,20350,22385,24623,27086,29794,32767]
ADJ=[-1,-1,-1,-1,2,4,6,8,-1,-1,-1,-1,2,4,6,8]
def s16(v): v&=0xffff; return v-65536 if v&0x8000 else v
def ima_wav_block(b,ch,spb):
    pred=[0]*ch; idx=[0]*ch; out=[[ ] for _ in range(ch)]
    for c in range(ch):
        pred[c]=s16(b[4*c]|(b[4*c+1]<<8)); idx[c]=min(88,max(0,b[4*c+2])); out[c].append(pred[c])
    pos=4*ch
    nibs=[[] for _ in range(ch)]
    while pos < len(b):
        for c in range(ch):
            for k in range(4):
                if pos>=len(b): break
                byte=b[pos]; pos+=1; nibs[c].append(byte&15); nibs[c].append(byte>>4)
    for c in range(ch):
        for nb in nibs[c][:spb-1]:
            step=STEP[idx[c]]; diff=step>>3
            if nb&1: diff+=step>>2
            if nb&2: diff+=step>>1
            if nb&4: diff+=step
            if nb&8: diff=-diff
            pred[c]=max(-32768,min(32767,pred[c]+diff)); idx[c]=min(88,max(0,idx[c]+ADJ[nb])); out[c].append(pred[c])
    res=[]
    for i in range(spb):
        for c in range(ch): res.append(out[c][i])
    return res
ADAPT=[230,230,230,230,307,409,512,614,768,614,512,409,307,230,230,230]
COEF=[(256,0),(512,-256),(0,0),(192,64),(240,0),(460,-208),(392,-232)]
def ms_block(b,ch,spb):
    p=0; bp=[]; 
    for c in range(ch): bp.append(b[p]); p+=1
    delta=[]; 
    for c in range(ch): delta.append(s16(b[p]|(b[p+1]<<8))); p+=2
    s1=[]; 
    for c in range(ch): s1.append(s16(b[p]|(b[p+1]<<8))); p+=2
    s2=[]
    for c in range(ch): s2.append(s16(b[p]|(b[p+1]<<8))); p+=2
    out=[]
    for c in range(ch): out.append(s2[c])
    for c in range(ch): out.append(s1[c])
    nibs=[]
    while p<len(b): nibs.append(b[p]>>4); nibs.append(b[p]&15); p+=1
    hist=[[s1[c],s2[c]] for c in range(ch)]
    k=0
    total=spb*ch
    while len(out)<total and k<len(nibs):
        c=(len(out))%ch if ch>1 else 0
        nb=nibs[k]; k+=1
        bpc=bp[c] if bp[c]<7 else 0
        c1,c2=COEF[bpc]
        predict=(hist[c][0]*c1+hist[c][1]*c2)>>8
        sn= nb-16 if nb&8 else nb
        cur=sn*delta[c]+predict
        cur=max(-32768,min(32767,cur))
        old=delta[c]
        delta[c]=s16((ADAPT[nb]*old)>>8)
        if delta[c]<16: delta[c]=16
        dl=old
        hist[c][1]=hist[c][0]; hist[c][0]=cur
        out.append(cur)
    return out
def run(kind,ch,ba,nb,seed,mode):
    o=subprocess.run(['/tmp/probe/adpcmdump',kind,str(ch),str(ba),str(nb),str(seed),str(mode)],capture_output=True,text=True)
    if 'ERROR' in o.stderr: return 'ASAN '+o.stderr[:300]
    L=o.stdout.split('\n')
    if L[0].startswith('OPENFAIL'): return 'openfail '+L[0]
    ms,ch2,ba2,spb,frames=map(int,L[0].split()); data=bytes.fromhex(L[1]); g=int(L[2]); dec=list(map(int,L[3].split()))
    ref=[]
    for i in range(nb):
        blk=data[i*ba:(i+1)*ba]
        r= ms_block(blk,ch,spb) if kind=='ms' else ima_wav_block(blk,ch,spb)
        if r is None: return 'ref-undefined(bpred>=7)'
        ref+=r
    if g!=spb*nb: return f'frames {g} != {spb*nb}'
    if dec!=ref:
        for i,(a,b) in enumerate(zip(dec,ref)):
            if a!=b: return f'mismatch at {i}: lib {a} ref {b}'
        return f'len {len(dec)} vs {len(ref)}'
    return 'ok'
import collections
res=collections.Counter()
for kind in ['ima','ms']:
    for ch in [1,2]:
        for ba in ([36,64,256,260,512,1024] if kind=='ima' else [32,64,256,512,1024]):
            if kind=='ima' and (ba-4*ch)%(4*ch): continue
            for mode in range(4):
                for seed in range(6):
                    r=run(kind,ch,ba,3,seed*7+1,mode)
                    key=(kind,ch,r if r in('ok','ref-undefined(bpred>=7)') else r[:60])
                    res[key]+=1
                    if r not in ('ok','ref-undefined(bpred>=7)') and res[key]<=2: print(kind,ch,ba,mode,seed,r)
for k,v in sorted(res.items()): print(k,v)
