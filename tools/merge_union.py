#!/usr/bin/env python3
"""resolve 'both sides appended' conflicts by keeping both sides (ours first); works on git's default conflict markers"""
import sys, re
for p in sys.argv[1:]:
    s = open(p).read()
    out = re.sub(r"<<<<<<< [^\n]*\n(.*?)(?:\|\|\|\|\|\|\| [^\n]*\n.*?)?=======\n(.*?)>>>>>>> [^\n]*\n", lambda m: m.group(1) + m.group(2), s, flags=re.S)
    open(p, "w").write(out)
    print(p, "resolved" if out != s else "unchanged")
