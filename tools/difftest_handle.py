import sys, random, collections; import os; sys.path.insert(0, os.path.dirname(os.path.dirname(os.path.abspath(__file__))))
from vlib import core, scripts as S
ctx=core.Ctx('C05','quick',int(sys.argv[1]) if len(sys.argv)>1 else 1)
rng=ctx.rng
fmts=S.l1_formats()
N=int(sys.argv[2]) if len(sys.argv)>2 else 300
scripts=[]
for k in range(N):
    fe=fmts[k%len(fmts)]
    scripts.append(("%s-%08x-%d"%(fe[0],fe[1],k), S.gen_rw_script(rng,fe)))
impl=ctx.batch(scripts)
model=S.run_model_parallel(ctx,scripts)
bad=collections.Counter(); shown=0; unm=0
for n,t in scripts:
    i,m=impl[n],model[n]
    if 'unmodelled' in m: unm+=1
    d=S.first_diff(i,m)
    if d is not None:
        bad[n.split('-')[0]]+=1
        if shown<int(sys.argv[3] if len(sys.argv)>3 else 3):
            shown+=1
            sl=t.split('\n')
            print('=====',n,'line',d); print('SCRIPT',sl[d][:150]); print('IMPL ',i[d][:200] if d<len(i) else None); print('MODEL',m[d][:200] if d<len(m) else None)
            print('  context:', [x[:60] for x in sl[max(0,d-6):d]])
print('bad',sum(bad.values()),dict(bad),'unmodelled',unm,'of',N)
