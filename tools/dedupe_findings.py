#!/usr/bin/env python3
"""after a union merge known_findings.jsonl can hold two versions of an entry: keep the fixed one, else the LAST distinct one; print what was dropped"""
import json, collections, os
p = os.path.join(os.path.dirname(os.path.dirname(os.path.abspath(__file__))), "known_findings.jsonl")
ents = [json.loads(l) for l in open(p) if l.strip()]
by = collections.OrderedDict()
for e in ents:
    by.setdefault(e["id"], []).append(e)
out = []
for i, es in by.items():
    uniq = []
    for e in es:
        if e not in uniq:
            uniq.append(e)
    fixed = [e for e in uniq if e.get("status") == "fixed"]
    pick = fixed[-1] if fixed else uniq[-1]
    if len(uniq) > 1:
        print(i, [(e.get("status"), e.get("commit")) for e in uniq], "->", pick.get("status"), pick.get("commit"))
    out.append(pick)
open(p, "w").write("".join(json.dumps(e, ensure_ascii=False) + "\n" for e in out))
print(len(ents), "->", len(out))
