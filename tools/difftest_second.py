#!/usr/bin/env python3
"""development runner for vlib/secondfile.py alone (no Lean stage, no evidence).   tools/difftest_second.py"""
import os, sys, time
HERE = os.path.dirname(os.path.dirname(os.path.abspath(__file__)))
sys.path.insert(0, HERE)
os.chdir(HERE)
from vlib import core, secondfile

ctx = core.Ctx("C15", "quick", 1)
t0 = time.time()
probs, corr, stats = secondfile.campaign(ctx)
for (n, tags, text, sc) in probs[:30]:
    print("PROBLEM", n, ",".join(tags), "|", text[:300])
for c in corr[:10]:
    print("MODEL-DIFF", c[0], "| impl", c[1], "| model", c[2])
print(stats, "wall=%.1fs" % (time.time() - t0))
