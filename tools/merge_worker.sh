#!/bin/sh
# tools/merge_worker.sh <worker-copy>: pull a worker's commits; append-style shared files are union-merged, evidence/MANIFEST keep ours (regenerated afterwards)
cd "$(dirname "$0")/.."
git pull --no-edit "$1" HEAD >/tmp/merge.out 2>&1 && { tail -2 /tmp/merge.out; exit 0; }
for f in $(git diff --name-only --diff-filter=U); do
  case "$f" in
    evidence/*|MANIFEST.json|design-notes/findings.md|design-notes/seeded.md) git checkout --ours -- "$f"; git add "$f"; echo "ours: $f";;
    *) python3 tools/merge_union.py "$f"; if grep -q '^<<<<<<< \|^>>>>>>> ' "$f"; then echo "STILL CONFLICT: $f"; else git add "$f"; fi;;
  esac
done
git diff --name-only --diff-filter=U
