#!/usr/bin/env python3
"""development runner of the C02 label / width campaign alone: tools/difftest_labelcamp.py  (honours SFVERIF_REPO / SFVERIF_CACHE)"""
import os, sys, time
HERE = os.path.dirname(os.path.dirname(os.path.abspath(__file__)))
sys.path.insert(0, HERE)
os.chdir(HERE)
from vlib import core, labelcamp

ctx = core.Ctx("C02", "quick", 1)
t0 = time.time()
findings, stats = labelcamp.campaign(ctx)
for (name, clause, text, replay) in findings[:40]:
    print("FINDING", name, clause, text[:300])
print(dict(stats), "findings=%d wall=%.1fs" % (len(findings), time.time() - t0))
