#!/usr/bin/env python3
"""development runner for vlib/stagecamp.py alone (no Lean stage, no evidence).   tools/difftest_stage.py [tier=quick|thorough] [prop=C05]"""
import os, sys, time
HERE = os.path.dirname(os.path.dirname(os.path.abspath(__file__)))
sys.path.insert(0, HERE)
os.chdir(HERE)
from vlib import core, stagecamp

opts = dict(a.split("=", 1) for a in sys.argv[1:] if "=" in a)
ctx = core.Ctx(opts.get("prop", "C05"), opts.get("tier", "quick"), int(opts.get("seed", 1)))
t0 = time.time()
probs, corr, stats = stagecamp.campaign(ctx, ctx.tier == "quick", only=opts.get("only"))
for (nm, tags, text, sc) in probs[:30]:
    print("PROBLEM", nm, ",".join(tags), "|", text[:300])
for c in corr[:10]:
    print("MODEL-DIFF", c[0], "line", c[1], "| impl", c[2][:140], "| model", c[3][:140])
print(stats, "wall=%.1fs" % (time.time() - t0))
