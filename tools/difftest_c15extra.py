#!/usr/bin/env python3
"""development runner: stage 3 of C15 (K-complete fault enumeration) for the representatives of vlib/c15extra.py alone.   tools/difftest_c15extra.py [seed=N]"""
import os, sys, time, collections
HERE = os.path.dirname(os.path.dirname(os.path.abspath(__file__)))
sys.path.insert(0, HERE)
os.chdir(HERE)
from vlib import core, c15lib as L, c15extra
from vlib.props import c15 as C

opts = dict(a.split("=", 1) for a in sys.argv[1:] if "=" in a)
ctx = core.Ctx("C15", "quick", int(opts.get("seed", 1)))
t0 = time.time()
reps = c15extra.reps(True, ctx.seed)
C.prepare(ctx, reps)
c15extra.after_prepare(reps)
FF = C.fault_free(ctx, reps)
jobs, meta = [], {}
for r in reps:
    for wl in ("w", "r", "rw"):
        if (r.name, wl) not in FF:
            continue
        for pt in L.fault_points(FF[(r.name, wl)]["kinds"]):
            nm = "%s|%s|%d|%d|%d" % (r.name, wl, pt[0], pt[1], int(pt[2]))
            K = len(FF[(r.name, wl)]["kinds"])
            sc = C.with_trace(r.script(wl, pt)).replace("iolog on\n", "iolog on\niolog limit %d\n" % (200 * K + 20000), 1)
            jobs.append((nm, sc)); meta[nm] = (r, wl, pt, sc)
out = ctx.batch(jobs, clean=True, op_timeout=5, retry_timeouts=False)
known = {k["id"]: k for k in ctx.known if k.get("status") == "known"}
st = collections.Counter()
for nm, (r, wl, pt, sc) in meta.items():
    lines = out.get(nm, [])
    probs, info = L.judge(r, wl, sc, lines, FF[(r.name, wl)])
    st["scripts"] += 1
    st["fired"] += 1 if info["fired"] else 0
    for pr in probs:
        kid = C.classify(r, wl, pt, pr, lines, r.dataoffset.get(wl, 0))
        if kid:
            st["kf:" + kid] += 1
            continue
        st["viol:" + pr.cat] += 1
        if st["viol:" + pr.cat] <= 4:
            print("VIOL", nm, pr.cat, pr.text[:200])
print({"%s/%s" % k: len(v["kinds"]) for k, v in FF.items()})
print(dict(st), "wall=%.1fs" % (time.time() - t0))
