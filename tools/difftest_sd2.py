#!/usr/bin/env python3
"""development differ for the SD2 resource-fork model: runs the campaign of vlib/sd2.py alone (no Lean stage, no evidence).
   tools/difftest_sd2.py [seed=N] [tier=quick|thorough]"""
import os, sys, time
HERE = os.path.dirname(os.path.dirname(os.path.abspath(__file__)))
sys.path.insert(0, HERE)
os.chdir(HERE)
from vlib import core, sd2

opts = dict(a.split("=", 1) for a in sys.argv[1:] if "=" in a)
ctx = core.Ctx("C04", opts.get("tier", "quick"), int(opts.get("seed", 1)))
t0 = time.time()
stats = sd2.run(ctx, "C04")
print(dict(stats), ctx.notes.get("sd2"))
for p, no_input in ctx.violations[:6]:
    print("----", p, no_input)
    print("\n".join(l[:300] for l in open(p).read().split("\n")[:14]))
print("wall=%.1fs" % (time.time() - t0))
