"""development differ of the generic handle campaign: tools/difftest_handleg.py [seed] [nscripts] [shown] [container,container…]"""
import sys, os, collections; sys.path.insert(0, os.path.dirname(os.path.dirname(os.path.abspath(__file__))))
from vlib import core, handleg as G
ctx = core.Ctx('C05', 'quick', int(sys.argv[1]) if len(sys.argv) > 1 else 1)
N = int(sys.argv[2]) if len(sys.argv) > 2 else 200
show = int(sys.argv[3]) if len(sys.argv) > 3 else 3
names = sys.argv[4].split(",") if len(sys.argv) > 4 else None
diffs, crashes, stats, per, jobs = G.campaign(ctx, N, names=names)
bad = collections.Counter(d.name.split('-')[0] for d in diffs)
for d in diffs[:show]:
    sl = d.script.split('\n')
    print('=====', d.name, 'line', d.line)
    print('SCRIPT', sl[d.line][:150])
    print('IMPL ', d.impl[:260])
    print('MODEL', (d.model or '')[:260])
    print('  context:', [x[:70] for x in sl[max(0, d.line - 8):d.line]])
print('bad', len(diffs), dict(bad), 'crashes', len(crashes), dict(stats), dict(per))
