#!/usr/bin/env python3
"""tools/coverage.py [--tier quick] [--seed 1] [--parallel 4] [--props C01,C02,…]

Measures WHICH PART OF /repo/src THE CORRESPONDENCE STREAMS EXECUTE: every check of the named tier is run once in a scratch copy of /verif
against a gcov-instrumented ASan build of /repo's working tree (SFVERIF_COVERAGE=1, vlib/build.py), the counters of all harness processes are
merged by libgcov, and the result is written to design-notes/coverage.md (per source file: lines and functions executed; every function the
campaigns never enter) and design-notes/coverage.json.  This is not a verdict of any property: it states how far the tie between model and
code reaches (DESIGN.md §9 "modelled, not verified") and where the next campaign class is needed.  Nothing is written into /repo."""
import argparse, glob, gzip, json, os, shutil, subprocess, sys, time

VERIF = os.path.dirname(os.path.dirname(os.path.abspath(__file__)))
PROPS = ["C%02d" % k for k in range(1, 21)]


def sh(cmd, **kw):
    return subprocess.run(cmd, shell=True, capture_output=True, text=True, errors="replace", **kw)


def main():
    ap = argparse.ArgumentParser()
    ap.add_argument("--tier", default="quick")
    ap.add_argument("--seed", default="1")
    ap.add_argument("--parallel", type=int, default=4)
    ap.add_argument("--props", default=",".join(PROPS))
    ap.add_argument("--scratch", default="/var/tmp/sfverif-covrun")
    ap.add_argument("--keep", action="store_true")
    a = ap.parse_args()
    props = a.props.split(",")
    scratch = a.scratch
    shutil.rmtree(scratch, ignore_errors=True)
    os.makedirs(scratch)
    sh("rsync -a --exclude 'replays/*' %s/ %s/verif/" % (VERIF, scratch))
    cache = scratch + "/cache"
    env = dict(os.environ, SFVERIF_COVERAGE="1", SFVERIF_CACHE=cache, VERIF_SEED=a.seed)
    t0 = time.time()
    # build once (the checks would race for the same lock anyway)
    r = subprocess.run([sys.executable, "-c", "import sys; sys.path.insert(0, %r); from vlib import build; print(build.ensure_harness('asan'))" % (scratch + "/verif")],
                       env=env, capture_output=True, text=True)
    if r.returncode != 0:
        sys.exit("coverage build failed:\n" + r.stdout + r.stderr)
    bdir = os.path.dirname(r.stdout.strip())
    jobs = "\n".join(props)
    p = subprocess.run("xargs -P %d -I{} sh -c 'bin/check {} --tier %s --seed %s > ../{}.log 2>&1; echo \"{} exit=$?\"'" % (a.parallel, a.tier, a.seed),
                       shell=True, cwd=scratch + "/verif", env=env, input=jobs, capture_output=True, text=True)
    runs = dict(l.split(" exit=") for l in p.stdout.split("\n") if " exit=" in l)
    wall = time.time() - t0
    # gcov over every object of the library
    objdir = os.path.join(bdir, "CMakeFiles", "sndfile.dir")
    gcdas = sorted(glob.glob(objdir + "/**/*.gcda", recursive=True))
    out = scratch + "/gcov"
    os.makedirs(out, exist_ok=True)
    files = {}
    for g in gcdas:
        r = sh("gcov --json-format --stdout %s" % g, cwd=out)
        if r.returncode != 0 or not r.stdout.strip():
            continue
        try:
            j = json.loads(r.stdout)
        except ValueError:
            continue
        for f in j.get("files", []):
            name = f["file"]
            if "/src/" not in name and not name.startswith("src/"):
                continue
            rel = "src/" + name.split("/src/", 1)[-1] if "/src/" in name else name
            if not rel.endswith(".c"):
                continue
            d = files.setdefault(rel, {"lines": {}, "funcs": {}})
            for l in f.get("lines", []):
                d["lines"][l["line_number"]] = d["lines"].get(l["line_number"], 0) + l["count"]
            for fn in f.get("functions", []):
                d["funcs"][fn["name"]] = d["funcs"].get(fn["name"], 0) + fn["execution_count"]
    rows, never = [], []
    tl = tc = tf = tfc = 0
    for rel in sorted(files):
        d = files[rel]
        nl, cl = len(d["lines"]), sum(1 for c in d["lines"].values() if c > 0)
        nf, cf = len(d["funcs"]), sum(1 for c in d["funcs"].values() if c > 0)
        tl, tc, tf, tfc = tl + nl, tc + cl, tf + nf, tfc + cf
        rows.append((rel, nl, cl, nf, cf))
        never += [(rel, fn) for fn, c in sorted(d["funcs"].items()) if c == 0]
    head = sh("git -C %s rev-parse --short HEAD" % os.environ.get("SFVERIF_REPO", "/repo")).stdout.strip()
    vhead = sh("git -C %s rev-parse --short HEAD" % VERIF).stdout.strip()
    summary = {"repo_head": head, "verif_head": vhead, "tier": a.tier, "seed": a.seed, "checks": runs, "wall_s": round(wall, 1),
               "lines_total": tl, "lines_executed": tc, "functions_total": tf, "functions_executed": tfc,
               "files": {r[0]: {"lines": r[1], "lines_executed": r[2], "functions": r[3], "functions_executed": r[4]} for r in rows},
               "functions_never_entered": ["%s:%s" % x for x in never]}
    json.dump(summary, open(VERIF + "/design-notes/coverage.json", "w"), indent=1)
    with open(VERIF + "/design-notes/coverage.md", "w") as o:
        o.write("# How much of /repo/src the correspondence streams execute\n\n")
        o.write("Generated by `tools/coverage.py` (tier %s, seed %s; /repo %s, /verif %s): all %d checks run once against a gcov-instrumented ASan build; counters of every\n"
                "harness process merged. This is a measurement of the TIE (which code the model is compared with on every run), not a verdict. Files of codecs that are not\n"
                "compiled into this build (FLAC, Ogg, Opus, MPEG) show 0 lines. Check exits: %s.\n\n" % (a.tier, a.seed, head, vhead, len(runs), " ".join("%s=%s" % kv for kv in sorted(runs.items()))))
        o.write("**Total: %d of %d executable lines (%.1f %%), %d of %d functions (%.1f %%).**\n\n" % (tc, tl, 100.0 * tc / max(tl, 1), tfc, tf, 100.0 * tfc / max(tf, 1)))
        o.write("| file | lines | executed | % | functions | entered |\n|---|---|---|---|---|---|\n")
        for r in rows:
            o.write("| %s | %d | %d | %.0f | %d | %d |\n" % (r[0], r[1], r[2], 100.0 * r[2] / max(r[1], 1), r[3], r[4]))
        o.write("\n## Functions no campaign enters (%d)\n\n" % len(never))
        cur = None
        for rel, fn in never:
            if rel != cur:
                o.write("\n* **%s**: " % rel)
                cur = rel
            o.write("`%s` " % fn)
        o.write("\n")
    print("coverage: %d/%d lines, %d/%d functions; %d never entered; wall %.0fs; checks %s" % (tc, tl, tfc, tf, len(never), wall, runs))
    if not a.keep:
        shutil.rmtree(scratch, ignore_errors=True)


if __name__ == "__main__":
    main()
