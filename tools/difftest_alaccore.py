#!/usr/bin/env python3
"""development differ for the ALAC codec core model: runs the campaign of vlib/alaccore.py alone (no Lean stage, no evidence).
   tools/difftest_alaccore.py [njobs] [seed] [nohostile]"""
import os, sys, time
HERE = os.path.dirname(os.path.dirname(os.path.abspath(__file__)))
sys.path.insert(0, HERE)
os.chdir(HERE)
from vlib import core, alaccore

n = int(sys.argv[1]) if len(sys.argv) > 1 else 40
seed = int(sys.argv[2]) if len(sys.argv) > 2 else 1
ctx = core.Ctx("C01", "quick", seed)
t0 = time.time()
jobs, hjobs, probs, stats, sessions, model = alaccore.campaign(ctx, n, hostile=len(sys.argv) <= 3)
for p in probs[:25]:
    print(p.kind, p.cat, p.job.name, getattr(p.job, "what", ""), "|", p.text[:300])
    if p.impl:
        print("   impl :", p.impl[:200])
        print("   model:", (p.model or "")[:200])
print({k: v for k, v in sorted(stats.items())})
if probs:
    print(alaccore.old_rule_matches(ctx, probs, sessions))
print("problems=%d wall=%.1fs" % (len(probs), time.time() - t0))
