#!/usr/bin/env python3
"""development differ for the CAF/ALAC campaign: runs vlib/alac.py alone (no Lean stage, no evidence) and prints every problem.
   tools/difftest_alac.py [C01|C04|C06|C07] [njobs] [seed]"""
import os, sys, time, json
HERE = os.path.dirname(os.path.dirname(os.path.abspath(__file__)))
sys.path.insert(0, HERE)
os.chdir(HERE)
from vlib import core, alac

prop = sys.argv[1] if len(sys.argv) > 1 else "C01"
n = int(sys.argv[2]) if len(sys.argv) > 2 else 96
seed = int(sys.argv[3]) if len(sys.argv) > 3 else 1
ctx = core.Ctx(prop, "quick", seed)
t0 = time.time()
jobs, hs, probs, stats, pp = alac.campaign(ctx, n, prop)
for p in probs[:25]:
    print(p.kind, p.cat, p.job.name, "line", p.line, "|", p.text[:300])
    if p.impl:
        print("   impl :", p.impl[:200])
        print("   model:", (p.model or "")[:200])
print(json.dumps({k: v for k, v in sorted(stats.items())}))
print("pakt problems", pp[:3])
print("problems=%d wall=%.1fs" % (len(probs), time.time() - t0))
