#!/bin/sh
# tools/runall.sh [tier] [seed] [parallel]: every check on /repo's working tree; logs under /var/tmp/runall-<seed>
T=${1:-quick}; S=${2:-1}; P=${3:-5}
cd "$(dirname "$0")/.."
D=/var/tmp/runall-$S; rm -rf $D; mkdir -p $D
for p in C01 C02 C03 C04 C05 C06 C07 C08 C09 C10 C11 C12 C13 C14 C15 C16 C17 C18 C19 C20; do echo $p; done | \
  xargs -P $P -I{} sh -c "VERIF_SEED=$S bin/check {} --tier $T --seed $S > $D/{}.log 2>&1; echo \"{} exit=\$?\" >> $D/summary.txt"
sort $D/summary.txt | tr '\n' ' '; echo
grep -h "^VIOLATION" $D/*.log | head -40
grep -h "tier=" $D/*.log | awk '{print $1, $NF}' | tr '\n' ' '; echo
