#!/usr/bin/env python3
"""development runner of the C01 pre-command matrix alone: tools/difftest_precmd.py  (honours SFVERIF_REPO / SFVERIF_CACHE)"""
import os, sys, time, collections
HERE = os.path.dirname(os.path.dirname(os.path.abspath(__file__)))
sys.path.insert(0, HERE)
os.chdir(HERE)
from vlib import core, precmd, writecamp as W, abswrite as AW

ctx = core.Ctx("C01", "quick", 1)
t0 = time.time()
jobs = precmd.make_jobs(ctx)
res = precmd.run_jobs(ctx, jobs)
c = collections.Counter()
for r in res:
    for (cat, text, which, line) in r["problems"]:
        c[(r["job"].pre_name, cat)] += 1
        if c[(r["job"].pre_name, cat)] <= 2:
            print("PROBLEM", r["job"].name(0), cat, text[:260])
print(len(jobs), "jobs", dict(c), "wall=%.1fs" % (time.time() - t0), ctx.notes.get("abs_write_predicate", {}).get("lean_python_disagreements"))
