#!/usr/bin/env python3
"""development runner of the block-seek matrix alone: tools/difftest_seekmatrix.py [prop] [seed] [tier]  (honours SFVERIF_REPO / SFVERIF_CACHE)"""
import os, sys, time
HERE = os.path.dirname(os.path.dirname(os.path.abspath(__file__)))
sys.path.insert(0, HERE)
os.chdir(HERE)
from vlib import core, seekmatrix

prop = sys.argv[1] if len(sys.argv) > 1 else "C06"
seed = int(sys.argv[2]) if len(sys.argv) > 2 else 1
tier = sys.argv[3] if len(sys.argv) > 3 else "quick"
ctx = core.Ctx(prop, tier, seed)
t0 = time.time()
findings, stats, tests = seekmatrix.campaign(ctx, prop)
for (name, f, ch, line, tag, cat, text, replay) in findings[:12]:
    print("FINDING", name, cat, text[:400])
print(dict(stats), "tests=%d findings=%d wall=%.1fs" % (len(tests), len(findings), time.time() - t0))
