#!/usr/bin/env python3
"""development runner for vlib/foreignread.py alone (no Lean stage, no evidence).   tools/difftest_foreignread.py [seed=N] [tier=quick|thorough] [prop=C05]"""
import os, sys, time
HERE = os.path.dirname(os.path.dirname(os.path.abspath(__file__)))
sys.path.insert(0, HERE)
os.chdir(HERE)
from vlib import core, foreignread

opts = dict(a.split("=", 1) for a in sys.argv[1:] if "=" in a)
ctx = core.Ctx(opts.get("prop", "C05"), opts.get("tier", "quick"), int(opts.get("seed", 1)))
t0 = time.time()
findings, stats, by_tag, tests = foreignread.campaign(ctx, ctx.prop)
for (name, f, ch, line, tag, cat, text, replay) in findings[:40]:
    print(cat.upper(), name, "line", line, "|", text[:400])
print(dict(stats), "findings=%d" % len(findings), "wall=%.1fs" % (time.time() - t0))
print(by_tag)
