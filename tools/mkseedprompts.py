#!/usr/bin/env python3
"""tools/mkseedprompts.py <round-dir>   write prompt-Cxx.md for a new round of independent seeded regressions and create the worktrees.
The prompt holds ONLY the property text (statement + quantifier) and the sites earlier seed agents already used (file / function names taken
from their own notes) — nothing of /verif's machinery."""
import json, os, re, subprocess, sys, glob
V = os.path.dirname(os.path.dirname(os.path.abspath(__file__)))
rd = sys.argv[1]
os.makedirs(rd, exist_ok=True)
base = open(V + "/design-notes/prompts/seed.md").read()
props = [json.loads(l) for l in open(V + "/properties.jsonl")]
sites = {}
for m in sorted(glob.glob(V + "/seeded/*/meta.json")):
    j = json.load(open(m))
    needs = j.get("needs", "")[:900]
    files = sorted(set(re.findall(r"src/[A-Za-z0-9_/]+\.[ch]", needs)))
    funcs = []
    for f in re.findall(r"`([a-z_0-9]+)\s*\(?\)?`", needs):
        if f not in funcs and "_" in f:
            funcs.append(f)
    sites.setdefault(j["breaks"], []).append("  - %s (%s)" % (", ".join(files) or "?", ", ".join(funcs[:4])))
extra = """

Earlier rounds already produced changes at these sites for this property; choose DIFFERENT functions/files and a different failure mechanism:
%s

This round asks for changes that need something SPECIFIC to manifest, and each of your two changes should be of a different one of these kinds:
a particular interleaving of calls on one or several handles; a crash, short transfer or I/O fault at one particular point; a multi-step sequence
of operations (state left by an earlier call, a second header update, a seek between two writes, re-opening in another mode); an unusual but legal
input (rare container or codec, odd channel count, sizes straddling an internal buffer / block / packet, foreign-but-valid files not written by
libsndfile, extreme but legal field values); or TWO cooperating sites that each look fine alone. Rare containers (SDS, XI, PAF, SVX, NIST, MAT4,
MAT5, VOC, W64, RF64, WAVEX, CAF, SD2, HTK, AVR, MPC2K, IRCAM, PVF, WVE), block codecs (GSM 06.10, G.72x, NMS ADPCM, IMA/MS ADPCM, DWVW, ALAC,
OKI/VOX), read/write mode, header updates, metadata interplay, the less common entry points (sf_read_raw / sf_write_raw, sf_open_fd,
sf_open_virtual, SFC_* commands) and error paths are all fair game. Do not produce a change that ordinary use of a common format would expose at once.
"""
for p in props:
    pid = p["id"]
    wt = "%s/wt-%s" % (rd, pid)
    out = "%s/out-%s" % (rd, pid)
    text = p["statement"] + "\n\nQuantification: " + p["quantifier"]["text"]
    s = base.replace("WORKTREE", wt).replace("OUTDIR", out).replace("PROPERTY_TEXT", text)
    s += extra % "\n".join(sites.get(pid, ["  (none)"]))
    open("%s/prompt-%s.md" % (rd, pid), "w").write(s)
    if not os.path.isdir(wt):
        subprocess.run("git -C /repo worktree add --detach %s HEAD" % wt, shell=True, capture_output=True)
print("ok")
