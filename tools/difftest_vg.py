#!/usr/bin/env python3
"""runs the valgrind class of C03 (vlib/vgcheck.py) alone.   tools/difftest_vg.py [seed=N] [tier=quick|thorough]"""
import os, sys, time
HERE = os.path.dirname(os.path.dirname(os.path.abspath(__file__)))
sys.path.insert(0, HERE)
os.chdir(HERE)
from vlib import core, vgcheck
from vlib.props import c03

opts = dict(a.split("=", 1) for a in sys.argv[1:] if "=" in a)
ctx = core.Ctx("C03", opts.get("tier", "quick"), int(opts.get("seed", 1)))
t0 = time.time()
c03.setup_consts(ctx)
majors, subs = c03.format_tables(ctx)
fmts = c03.writable_formats(ctx, majors, subs)
seeds = c03.make_seeds(ctx, fmts)
fork = bytes.fromhex(ctx.run_model(["sd2"], "rsrc size=2 sr=44100 ch=2 name=%s\n" % b"x".hex()).strip())
print("seeds", len(seeds), "t=%.1f" % (time.time() - t0))
vgcheck.run(ctx, seeds, sd2_fork=fork)
print(ctx.notes.get("valgrind"))
for p, no_input in ctx.violations[:6]:
    print("----", p)
    print("\n".join(l[:200] for l in open(p).read().split("\n")[:16]))
print("wall=%.1fs" % (time.time() - t0))
