#!/usr/bin/env python3
"""development runner of the cross-type campaign alone: tools/difftest_crosstype.py [seed] [tier]  (honours SFVERIF_REPO / SFVERIF_CACHE)"""
import os, sys, collections
HERE = os.path.dirname(os.path.dirname(os.path.abspath(__file__)))
sys.path.insert(0, HERE)
os.chdir(HERE)
from vlib import core, crosstype

seed = int(sys.argv[1]) if len(sys.argv) > 1 else 1
tier = sys.argv[2] if len(sys.argv) > 2 else "quick"
ctx = core.Ctx("C02", tier, seed)
jobs, verdicts, stats, wall = crosstype.run(ctx)
bad = collections.Counter()
for j in jobs:
    if not j.ok:
        print("NOT-RUN", j.name, getattr(j, "why", ""), [l for l in j.wlines if not l.startswith(("ret=", "len="))][:3])
        continue
    for sfx in ("on", "off", "mixfd", "mixdf"):
        v = verdicts.get("%s/%s" % (j.name, sfx), "<no verdict>")
        if not v.startswith("ok"):
            print(j.name, sfx, v[:400])
            bad[j.fmt.codec] += 1
print(stats, "verdicts=%d bad=%s wall=%.1fs" % (len(verdicts), dict(bad), wall))
print("state twins differing:", [(j.name, j.gmix_bad) for j in jobs if getattr(j, "gmix_bad", None)][:6])
