"""Development aid for C19: merged multi-handle RAW/AU/WAV scripts, implementation vs `sfmodel world`.
usage: python3 tools/difftest_world.py [seed] [nscripts] [show]"""
import sys, os, collections
sys.path.insert(0, os.path.dirname(os.path.dirname(os.path.abspath(__file__))))
from vlib import core, scripts as S, worldcamp as WC
from vlib.props import c19

ctx = core.Ctx('C19', 'quick', int(sys.argv[1]) if len(sys.argv) > 1 else 1)
N = int(sys.argv[2]) if len(sys.argv) > 2 else 100
show = int(sys.argv[3]) if len(sys.argv) > 3 else 3
print(c19.measure_constants(ctx))
scripts = c19.gen_l1_merged(ctx, N)
impl = ctx.batch([(n, t) for (n, t, _) in scripts])
model = c19.run_world_model(ctx, [(n, t) for (n, t, _) in scripts])
bad = 0
unm = 0
lines = 0
for n, t, meta in scripts:
    i, m = impl[n], model[n]
    d = c19.first_diff_world(t, i, m)
    unm += sum(1 for x in m if x == "unmodelled")
    lines += len(m)
    if d is not None:
        bad += 1
        if show > 0:
            show -= 1
            sl = t.split("\n")
            print("=====", n, "line", d)
            print("SCRIPT", sl[d][:150])
            print("IMPL ", i[d][:200] if d < len(i) else None)
            print("MODEL", m[d][:200] if d < len(m) else None)
            print("  context:", [x[:70] for x in sl[max(0, d - 8):d]])
print("bad", bad, "of", N, "unmodelled lines", unm, "of", lines)
