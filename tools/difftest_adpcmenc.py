#!/usr/bin/env python3
"""development differ for the IMA / MS ADPCM write-side model: runs the campaign of vlib/adpcmenc.py alone (no Lean stage, no evidence) and prints every
problem.   tools/difftest_adpcmenc.py [C05|C07|C04] [njobs] [seed]"""
import os, sys, time
HERE = os.path.dirname(os.path.dirname(os.path.abspath(__file__)))
sys.path.insert(0, HERE)
os.chdir(HERE)
from vlib import core, adpcmenc

prop = sys.argv[1] if len(sys.argv) > 1 else "C07"
n = int(sys.argv[2]) if len(sys.argv) > 2 else 60
seed = int(sys.argv[3]) if len(sys.argv) > 3 else 1
ctx = core.Ctx(prop, "quick", seed)
t0 = time.time()
jobs, hs, probs, stats = adpcmenc.campaign(ctx, n, prop)
for p in probs[:25]:
    print(p.kind, p.cat, p.job.name, "line", p.line, "|", p.text[:300])
    if p.impl:
        print("   impl :", p.impl[:200])
        print("   model:", (p.model or "")[:200])
print({k: v for k, v in sorted(stats.items())})
print("problems=%d wall=%.1fs" % (len(probs), time.time() - t0))
