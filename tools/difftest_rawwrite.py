#!/usr/bin/env python3
"""development runner for vlib/rawwrite.py alone (no Lean stage, no evidence).   tools/difftest_rawwrite.py [tier=quick|thorough] [prop=C04]"""
import os, sys, time
HERE = os.path.dirname(os.path.dirname(os.path.abspath(__file__)))
sys.path.insert(0, HERE)
os.chdir(HERE)
from vlib import core, rawwrite

opts = dict(a.split("=", 1) for a in sys.argv[1:] if "=" in a)
ctx = core.Ctx(opts.get("prop", "C04"), opts.get("tier", "quick"), int(opts.get("seed", 1)))
t0 = time.time()
found = rawwrite.run(ctx, ctx.prop)
print(ctx.notes.get("raw_write_entry_point"), "found=%s" % found, "wall=%.1fs" % (time.time() - t0))
