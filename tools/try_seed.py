#!/usr/bin/env python3
"""tools/try_seed.py <seed-dir> <n> <id> <props…>
Confirms an independently produced breaking change (compiles, 143 tests pass, demo fails with / passes without), runs the
named checks against it (SFVERIF_REPO=scratch worktree) and records everything under /verif/seeded/<id>/."""
import json, os, shutil, subprocess, sys, time, glob

VERIF = os.path.dirname(os.path.dirname(os.path.abspath(__file__)))
WT = "/tmp/seedchk"
BASE = "/tmp/seedbase"


def sh(cmd, cwd=None, timeout=3600, env=None):
    p = subprocess.run(cmd, shell=True, cwd=cwd, capture_output=True, text=True, timeout=timeout, env=env)
    return p.returncode, p.stdout + p.stderr


def build(dirpath):
    rc, out = sh("cmake -G Ninja -B _build -DENABLE_EXTERNAL_LIBS=OFF -DENABLE_MPEG=OFF >/dev/null && cmake --build _build 2>&1 | tail -3", cwd=dirpath)
    return rc == 0 and os.path.exists(os.path.join(dirpath, "_build", "libsndfile.a")), out


def demo_build(dirpath, src, exe):
    if src.endswith(".sh"):
        return True, ""
    rc, out = sh("gcc -I %s/include -I %s/_build/include %s %s/_build/libsndfile.a -lm -o %s" % (dirpath, dirpath, src, dirpath, exe))
    return rc == 0, out


def main():
    sd, n, sid = sys.argv[1], sys.argv[2], sys.argv[3]
    props = sys.argv[4:]
    patch = os.path.join(sd, "change%s.diff" % n)
    demos = glob.glob(os.path.join(sd, "demo%s.*" % n))
    demo = next((d for d in demos if d.endswith(".c")), demos[0] if demos else None)
    res = {"id": sid, "breaks": props[0] if props else None, "source": patch, "ran": []}
    if not os.path.exists(BASE + "/_build/libsndfile.a"):
        sh("git -C /repo worktree remove --force %s" % BASE)
        sh("git -C /repo worktree add --detach %s HEAD" % BASE)
        ok, out = build(BASE)
        assert ok, out
    sh("git -C /repo worktree remove --force %s" % WT)
    shutil.rmtree(WT, ignore_errors=True)
    rc, out = sh("git -C /repo worktree add --detach %s HEAD" % WT)
    rc, out = sh("git apply %s" % patch, cwd=WT)
    res["applies"] = rc == 0
    if rc != 0:
        print("patch does not apply:", out)
        return res
    ok, out = build(WT)
    res["compiles"] = ok
    rc, out = sh("ctest --test-dir _build -j8 2>&1 | tail -4", cwd=WT)
    res["tests"] = out.strip().split("\n")[0] if out else ""
    res["tests_pass"] = "100% tests passed" in out
    if demo:
        okb, o1 = demo_build(BASE, demo, "/tmp/seed_demo_base")
        okm, o2 = demo_build(WT, demo, "/tmp/seed_demo_mut")
        rb, ob = sh("/tmp/seed_demo_base", cwd="/tmp", timeout=300) if okb else (None, o1)
        rm, om = sh("/tmp/seed_demo_mut", cwd="/tmp", timeout=300) if okm else (None, o2)
        res["demo_baseline_rc"], res["demo_changed_rc"] = rb, rm
        res["demo_confirms"] = rb == 0 and rm not in (0, None)
    out_dir = os.path.join(VERIF, "seeded", sid)
    os.makedirs(out_dir, exist_ok=True)
    shutil.copy(patch, os.path.join(out_dir, "patch.diff"))
    for d in demos:
        shutil.copy(d, os.path.join(out_dir, os.path.basename(d)))
    notes = os.path.join(sd, "notes%s.md" % n)
    if os.path.exists(notes):
        shutil.copy(notes, os.path.join(out_dir, "notes.md"))
    # run the checks against the changed tree (never /repo itself)
    env = dict(os.environ, SFVERIF_REPO=WT)
    caught = {}
    for p in props:
        t0 = time.time()
        rc, out = sh("bin/check %s --tier quick" % p, cwd=VERIF, env=env, timeout=3600)
        v = [l for l in out.split("\n") if l.startswith("VIOLATION")]
        caught[p] = {"exit": rc, "violations": v[:6], "wall_s": round(time.time() - t0, 1)}
        res["ran"].append("SFVERIF_REPO=%s bin/check %s --tier quick" % (WT, p))
        print(p, "exit", rc, len(v), "violation line(s)", v[:2])
    res["checks"] = caught
    res["caught_by"] = [p for p, c in caught.items() if c["exit"] == 1 and c["violations"]]
    res["needs"] = open(notes).read()[:1500] if os.path.exists(notes) else ""
    json.dump(res, open(os.path.join(out_dir, "meta.json"), "w"), indent=1)
    print(json.dumps({k: res[k] for k in ("id", "applies", "compiles", "tests_pass", "demo_confirms", "caught_by") if k in res}))
    sh("git -C /repo worktree remove --force %s" % WT)
    return res


if __name__ == "__main__":
    main()
