#!/usr/bin/env python3
"""after a union merge: keep exactly one [[lean_lib]] name="Driver" stanza (the one with globs)"""
import os
p = os.path.join(os.path.dirname(os.path.dirname(os.path.abspath(__file__))), "lean", "lakefile.toml")
s = open(p).read()
parts = s.split("[[lean_lib]]")
out, seen = [parts[0]], False
for part in parts[1:]:
    if 'name = "Driver"' in part or 'name="Driver"' in part:
        if seen or "globs" not in part:
            rest = part.split("\n\n", 1)
            out[-1] += (rest[1] if len(rest) > 1 else "")
            continue
        seen = True
    out.append(part)
s = "[[lean_lib]]".join(out)
if not seen:
    s += '\n[[lean_lib]]\nname = "Driver"\nglobs = ["Driver.+"]\n'
open(p, "w").write(s)
print(s.count('"Driver"'), "Driver stanza(s)")
