#!/usr/bin/env python3
"""development differ for the group-4 container models: runs the campaign of vlib/small4.py alone (no Lean stage, no evidence)
and prints every disagreement.   tools/difftest_small4.py [container …] [seed=N] [tier=quick|thorough]"""
import json, os, sys, time
HERE = os.path.dirname(os.path.dirname(os.path.abspath(__file__)))
sys.path.insert(0, HERE)
os.chdir(HERE)
from vlib import core, small2, small4

only = [a for a in sys.argv[1:] if "=" not in a]
opts = dict(a.split("=", 1) for a in sys.argv[1:] if "=" in a)
ctx = core.Ctx("C04", opts.get("tier", "quick"), int(opts.get("seed", 1)))
t0 = time.time()
quick = ctx.tier == "quick"
for cont in small4.CONTS:
    if only and cont.name not in only:
        continue
    if hasattr(cont, "difftest"):
        cont.difftest(ctx)
        continue
    fmts = cont.formats(ctx)
    jobs, files, corr, pred, known, wstats = small2.writer_campaign(ctx, cont, fmts, quick)
    for (j, name, script, diffs, reopen) in corr[:8]:
        print("CORR", name, "; ".join(diffs)[:600])
    for (j, name, script, probs, reopen) in pred[:8]:
        print("PRED", name, "; ".join(probs)[:600])
    for (j, name, kf, probs) in known[:8]:
        print("KNOWN", name, kf, "; ".join(probs)[:300])
    bad, rstats = small2.reader_campaign(ctx, cont, files, quick)
    for (tag, m, il, ml) in bad[:30]:
        print("PARSE", tag, "| impl:", il.strip()[:120], "| model:", ml[:120], "| len", len(m))
    print(cont.name, dict(wstats), dict(rstats), "corr=%d pred=%d known=%d parse-bad=%d" % (len(corr), len(pred), len(known), len(bad)))
if not only or "sds" in only:
    small4.run_sds(ctx)
    corr, pred, bad, qbad, stats = ctx._sds_debug
    for (j, name, diffs) in corr[:8]:
        print("CORR", name, "; ".join(diffs)[:600])
    for (j, name, probs) in pred[:8]:
        print("PRED", name, "; ".join(probs)[:600])
    for (tag, m, il, ml) in bad[:30]:
        print("PARSE", tag, "| impl:", il.strip()[:120], "| model:", ml[:120], "| len", len(m))
    print("sds", stats, "corr=%d pred=%d parse-bad=%d qbad=%s" % (len(corr), len(pred), len(bad), qbad[:3]))
print("wall=%.1fs" % (time.time() - t0))
