#!/usr/bin/env python3
"""tools/seed.py confirm <src-dir> <n> <id> <prop>     confirm an independently produced breaking change and file it under seeded/<id>/
   tools/seed.py run <id> [props…]                     run checks (default: the property it breaks) against seeded/<id>/patch.diff
   tools/seed.py matrix                                print the catch matrix of everything under seeded/

Everything happens in scratch directories under /tmp/seedrun-<id>/ (a git worktree of /repo with the patch applied and a private
copy of /verif, so evidence files, generated Lean tables and the Lean build of /verif itself are never touched); both are removed
afterwards. /repo itself is never modified."""
import json, os, shutil, subprocess, sys, time, glob

VERIF = os.path.dirname(os.path.dirname(os.path.abspath(__file__)))
BASE = "/tmp/seedbase"
REPO = os.environ.get("SEED_REPO", "/repo")      # the git repository worktrees are taken from (a private clone when /repo is read-only)


def sh(cmd, cwd=None, timeout=7200, env=None):
    p = subprocess.run(cmd, shell=True, cwd=cwd, capture_output=True, text=True, timeout=timeout, env=env, errors="replace")
    return p.returncode, p.stdout + p.stderr


def build(dirpath, jobs=6):
    rc, out = sh("cmake -G Ninja -B _build -DENABLE_EXTERNAL_LIBS=OFF -DENABLE_MPEG=OFF >/dev/null && cmake --build _build -j%d 2>&1 | tail -3" % jobs, cwd=dirpath)
    return rc == 0 and os.path.exists(os.path.join(dirpath, "_build", "libsndfile.a")), out


def demo_build(dirpath, src, exe):
    if src.endswith(".sh"):
        return True, ""
    rc, out = sh("gcc -I %s/include -I %s/_build/include %s %s/_build/libsndfile.a -lm -o %s" % (dirpath, dirpath, src, dirpath, exe))
    return rc == 0, out


def scratch(sid):
    d = "%s/seedrun-%s" % (os.environ.get("SEED_SCRATCH", "/tmp"), sid)
    sh("git -C %s worktree remove --force %s/repo" % (REPO, d))
    shutil.rmtree(d, ignore_errors=True)
    os.makedirs(d)
    return d


def cleanup(d):
    sh("git -C %s worktree remove --force %s/repo" % (REPO, d))
    shutil.rmtree(d, ignore_errors=True)
    sh("git -C %s " % REPO + "worktree prune")


def ensure_base():
    head = sh("git -C %s " % REPO + "rev-parse HEAD")[1].strip()
    cur = sh("git -C %s rev-parse HEAD" % BASE)[1].strip() if os.path.isdir(BASE) else ""
    if cur != head or not os.path.exists(BASE + "/_build/libsndfile.a"):
        sh("git -C %s " % REPO + "worktree remove --force %s" % BASE)
        shutil.rmtree(BASE, ignore_errors=True)
        sh("git -C %s " % REPO + "worktree add --detach %s HEAD" % BASE)
        ok, out = build(BASE)
        assert ok, out


def confirm(sd, n, sid, prop):
    patch = os.path.join(sd, "change%s.diff" % n)
    demos = glob.glob(os.path.join(sd, "demo%s.*" % n)) + glob.glob(os.path.join(sd, "demo%s_*" % n))
    demo = next((d for d in demos if d.endswith(".c")), demos[0] if demos else None)
    res = {"id": sid, "breaks": prop, "source": patch}
    ensure_base()
    d = scratch(sid)
    wt = d + "/repo"
    sh("git -C %s " % REPO + "worktree add --detach %s HEAD" % wt)
    rc, out = sh("git apply %s" % patch, cwd=wt)
    res["applies"] = rc == 0
    if rc != 0:
        print("patch does not apply:", out)
        cleanup(d)
        return res
    ok, out = build(wt)
    res["compiles"] = ok
    rc, out = sh("ctest --test-dir _build -j6 2>&1 | tail -4", cwd=wt)
    res["tests"] = out.strip().split("\n")[0] if out else ""
    res["tests_pass"] = "100% tests passed" in out
    if demo:
        okb, o1 = demo_build(BASE, demo, d + "/demo_base")
        okm, o2 = demo_build(wt, demo, d + "/demo_mut")
        os.makedirs(d + "/run", exist_ok=True)
        rb, ob = sh(d + "/demo_base", cwd=d + "/run", timeout=300) if okb else (None, o1)
        rm, om = sh(d + "/demo_mut", cwd=d + "/run", timeout=300) if okm else (None, o2)
        res["demo_baseline_rc"], res["demo_changed_rc"] = rb, rm
        res["demo_changed_output"] = (om or "")[-600:]
        res["demo_confirms"] = rb == 0 and rm not in (0, None)
    out_dir = os.path.join(VERIF, "seeded", sid)
    if res.get("tests_pass") and res.get("demo_confirms"):
        os.makedirs(out_dir, exist_ok=True)
        shutil.copy(patch, os.path.join(out_dir, "patch.diff"))
        for dm in demos:
            shutil.copy(dm, os.path.join(out_dir, os.path.basename(dm)))
        notes = os.path.join(sd, "notes%s.md" % n)
        if os.path.exists(notes):
            shutil.copy(notes, os.path.join(out_dir, "notes.md"))
            res["needs"] = open(notes).read()[:1500]
        res["ran"] = ["git apply patch.diff in a scratch worktree; cmake+ninja; ctest (143 tests); demo against baseline and changed library"]
        json.dump(res, open(os.path.join(out_dir, "meta.json"), "w"), indent=1)
    print(json.dumps({k: res.get(k) for k in ("id", "applies", "compiles", "tests_pass", "demo_confirms")}))
    cleanup(d)
    return res


def run(sid, props, tier="quick"):
    sdir = os.path.join(VERIF, "seeded", sid)
    meta = json.load(open(os.path.join(sdir, "meta.json")))
    if not props:
        props = [meta["breaks"]]
    d = scratch(sid)
    wt = d + "/repo"
    sh("git -C %s " % REPO + "worktree add --detach %s HEAD" % wt)
    rc, out = sh("git apply %s" % os.path.join(sdir, "patch.diff"), cwd=wt)
    if rc != 0:
        # /repo has moved since the seed was filed (fix: commits): a three-way apply rebases the hunks that merely shifted
        rc, out = sh("git apply --3way %s && git reset -q" % os.path.join(sdir, "patch.diff"), cwd=wt)
    if rc != 0:
        print("patch does not apply any more:", out)
        cleanup(d)
        return
    vc = d + "/verif"
    sh("cp -a %s %s" % (VERIF, vc))
    shutil.rmtree(vc + "/replays", ignore_errors=True)
    env = dict(os.environ, SFVERIF_REPO=wt, SFVERIF_CACHE=d + "/cache")
    checks = meta.get("checks", {})
    for p in props:
        t0 = time.time()
        rc, out = sh("bin/check %s --tier %s" % (p, tier), cwd=vc, env=env)
        v = [l for l in out.split("\n") if l.startswith("VIOLATION")]
        first = ""
        if v:
            rp = v[0].split("replay=")[1].split()[0]
            try:
                first = open(rp).read()[:1200]
            except OSError:
                pass
        checks[p] = {"exit": rc, "violations": [l.replace(vc, "/verif") for l in v[:6]], "wall_s": round(time.time() - t0, 1), "tier": tier,
                     "first_replay_head": first, "at_verif_commit": sh("git -C %s rev-parse --short HEAD" % VERIF)[1].strip()}
        print(sid, p, "exit", rc, len(v), "violation line(s)", v[:2])
        sys.stdout.flush()
    meta["checks"] = checks
    meta["caught_by"] = sorted(p for p, c in checks.items() if c["exit"] == 1 and c["violations"])
    meta["caught_with_input_by"] = sorted(p for p, c in checks.items() if c["exit"] == 1 and any("no-failing-input-found" not in l for l in c["violations"]))
    meta["ran"] = sorted(set(meta.get("ran", []) + ["SFVERIF_REPO=<scratch worktree with patch> bin/check %s --tier %s" % (p, tier) for p in props]))
    json.dump(meta, open(os.path.join(sdir, "meta.json"), "w"), indent=1)
    cleanup(d)


def matrix():
    for d in sorted(glob.glob(os.path.join(VERIF, "seeded", "*", "meta.json"))):
        m = json.load(open(d))
        print("%-40s breaks=%s caught_by=%s with_input=%s" % (m["id"], m.get("breaks"), ",".join(m.get("caught_by", [])) or "-", ",".join(m.get("caught_with_input_by", [])) or "-"))


if __name__ == "__main__":
    if sys.argv[1] == "confirm":
        confirm(*sys.argv[2:6])
    elif sys.argv[1] == "run":
        tier = "quick"
        args = sys.argv[2:]
        if "--thorough" in args:
            args.remove("--thorough")
            tier = "thorough"
        run(args[0], args[1:], tier)
    elif sys.argv[1] == "matrix":
        matrix()
