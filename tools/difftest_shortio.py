#!/usr/bin/env python3
"""development runner for vlib/shortio.py alone (no Lean stage, no evidence).   tools/difftest_shortio.py [seed=N] [tier=quick|thorough] [prop=C07|C14]"""
import os, sys, time
HERE = os.path.dirname(os.path.dirname(os.path.abspath(__file__)))
sys.path.insert(0, HERE)
os.chdir(HERE)
from vlib import core, shortio

opts = dict(a.split("=", 1) for a in sys.argv[1:] if "=" in a)
ctx = core.Ctx(opts.get("prop", "C07"), opts.get("tier", "quick"), int(opts.get("seed", 1)))
t0 = time.time()
findings, stats, plan = shortio.campaign(ctx, ctx.prop)
for f in findings[:30]:
    print(f["side"], f["cat"].upper(), f["name"], "|", f["text"][:500])
print(dict(stats), "findings=%d" % len(findings), "wall=%.1fs" % (time.time() - t0))
