#!/usr/bin/env python3
"""development differ for the OKI/VOX campaign: runs vlib/voxcamp.py alone (no Lean stage, no evidence) and prints every
disagreement.   tools/difftest_vox.py [seed=N] [tier=quick|thorough] [jobs=N]"""
import os, sys, time
HERE = os.path.dirname(os.path.dirname(os.path.abspath(__file__)))
sys.path.insert(0, HERE)
os.chdir(HERE)
from vlib import core, voxcamp

opts = dict(a.split("=", 1) for a in sys.argv[1:] if "=" in a)
ctx = core.Ctx("C05", opts.get("tier", "quick"), int(opts.get("seed", 1)))
t0 = time.time()
probs, stats, hs, jobs = voxcamp.campaign(ctx, int(opts.get("jobs", 120)))
for p in probs[:40]:
    print(p.kind.upper(), p.cat, p.job.name, "line", p.line, "|", p.text[:300], "| impl:", (p.impl or "")[:160], "| model:", (p.model or "")[:160])
import collections
print("by kind/category:", dict(collections.Counter("%s:%s" % (p.kind, p.cat) for p in probs)))
print(dict(stats), "problems=%d" % len(probs), "wall=%.1fs" % (time.time() - t0))
