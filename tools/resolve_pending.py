#!/usr/bin/env python3
"""replace "commit": "PENDING-<format-patch file name>" in known_findings.jsonl by the hash of the /repo commit with that subject"""
import json, subprocess, re, collections, os
root = os.path.dirname(os.path.dirname(os.path.abspath(__file__)))
p = os.path.join(root, "known_findings.jsonl")
ents = [json.loads(l) for l in open(p) if l.strip()]
ids = collections.Counter(e["id"] for e in ents)
print("duplicate ids:", [i for i, c in ids.items() if c > 1])
log = subprocess.run("git -C /repo log --format='%h %s' 885ebbc..HEAD", shell=True, capture_output=True, text=True).stdout.strip().split("\n")
slug = lambda s: re.sub(r"[^A-Za-z0-9]+", "-", s).strip("-").lower()
subj = {slug(l.split(" ", 1)[1]): l.split(" ", 1)[0] for l in log}
for e in ents:
    c = e.get("commit") or ""
    if c.startswith("PENDING-"):
        key = slug(re.sub(r"^\d+-", "", c[len("PENDING-"):]).replace(".patch", ""))
        m = [h for s, h in subj.items() if s.startswith(key[:40])]
        print(e["id"], c, "->", m)
        if len(m) == 1:
            e["commit"] = m[0]
open(p, "w").write("".join(json.dumps(e, ensure_ascii=False) + "\n" for e in ents))
