/* fdworld: C19 on REAL descriptors -- several handles (sf_open / sf_open_fd close_desc 1 and 0, SD2 with its resource fork, ALAC with its
** spool file, RDWR) next to descriptors the library does not own ("sentinels"), with the process's descriptor table printed after every
** operation.
**
** Script operations (`fdw …`, one transcript line each; every line ends with the descriptor table):
**   fdw begin                         private directory <SFH_SCRATCH>/fdw-<pid>, remembers the descriptors open now (they are left out below)
**                                     -> ok open=<n,n,…>          (what the model starts from: the numbers that are taken)
**   fdw sentinel kN                   the caller opens a file of its own (64 known bytes) and seeks to offset 7 + N   -> ok fd=<n>
**   fdw unsent kN                     … and closes it                                                               -> ok
**   fdw open aN <r|w|rw> fmt=<hex> ch=<n> sr=<n> route=path|fd1|fd0 ext=<e> [name=<base>]
**                                     file aN.<ext> in the private directory (kept between handles of the same slot: write it, close, re-open);
**                                     with name=<base>: file <base>.<ext> in the slot's OWN sub-directory dN/ -- several slots may then use the
**                                     same file name (what the library derives from a name -- the SD2 resource fork `._<base>.<ext>`, anything
**                                     named after psf->file.name -- must still be per handle);
**                                     -> open=ok fd=<psf->file.filedes> rsrc=<psf->rsrc.filedes> | open=NULL err=<n>
**   fdw w aN <frames>                 sf_writef_short of a pattern that depends on the slot and on how much the slot wrote -> ret=<n> err=<n>
**   fdw r aN <frames>                 sf_readf_short                                                                -> ret=<n> err=<n> sum=<fnv>
**   fdw close aN                      sf_close (+ close of the caller's descriptor on route fd0)  -> ret=<n> file=<len>:<fnv>[ rsrc=<len>:<fnv>]
**   fdw end                           removes the directory                                                         -> ok
** Descriptor table: ` | fds=<n>:<who>,…` for every descriptor that was not open at `begin`, <who> found by fstat identity:
**   kN@ok | kN@moved (sentinel, offset as left / changed), aN (audio file of slot N), aN.r (its resource fork `._aN.<ext>`),
**   tmp (a file under TMPDIR), ? (anything else).  A sentinel whose number is no longer open or is some other file: `kN@LOST` is appended.
*/
#include "sfh.h"
#include "sfconfig.h"
#include "common.h"
#include <dirent.h>

#define NSLOT	8
#define MAXFD	256

typedef struct
{	SNDFILE *sf ;
	int userfd, close_desc, ch ;
	long written ;
	char path [300], rpath [300] ;
} FDH ;

typedef struct
{	int fd ;
	dev_t dev ; ino_t ino ;
	off_t off ;
	char path [300] ;
} SENT ;

static FDH hs [NSLOT] ;
static SENT ks [NSLOT] ;
static int base [MAXFD], nbase ;
static char dir [256] ;

static int
list_open (int *out, int max)
{	DIR *d = opendir ("/proc/self/fd") ;
	struct dirent *e ;
	int n = 0, self, k, j ;
	if (d == NULL) return 0 ;
	self = dirfd (d) ;
	while ((e = readdir (d)) != NULL)
	{	int fd ;
		if (e->d_name [0] == '.') continue ;
		fd = atoi (e->d_name) ;
		if (fd == self) continue ;
		if (n < max) out [n ++] = fd ;
		}
	closedir (d) ;
	for (k = 1 ; k < n ; k++)
		for (j = k ; j > 0 && out [j - 1] > out [j] ; j--)
		{	int t = out [j] ; out [j] = out [j - 1] ; out [j - 1] = t ; }
	return n ;
}

static int
is_base (int fd)
{	int k ;
	for (k = 0 ; k < nbase ; k++) if (base [k] == fd) return 1 ;
	return 0 ;
}

static int
same_file (const char *path, const struct stat *st)
{	struct stat s2 ;
	return path [0] && stat (path, &s2) == 0 && s2.st_dev == st->st_dev && s2.st_ino == st->st_ino ;
}

static void
table (void)
{	int fds [MAXFD], n = list_open (fds, MAXFD), k, j, first = 1 ;
	const char *tmp = getenv ("TMPDIR") ;
	printf (" | fds=") ;
	for (k = 0 ; k < n ; k++)
	{	struct stat st ;
		char who [64] = "?" ;
		if (is_base (fds [k]) || fstat (fds [k], &st) != 0) continue ;
		for (j = 0 ; j < NSLOT ; j++)
		{	if (ks [j].fd >= 0 && ks [j].path [0] && st.st_dev == ks [j].dev && st.st_ino == ks [j].ino)
				snprintf (who, sizeof (who), "k%d@%s", j, (fds [k] == ks [j].fd && lseek (fds [k], 0, SEEK_CUR) == ks [j].off) ? "ok" : "moved") ;
			if (same_file (hs [j].path, &st)) snprintf (who, sizeof (who), "a%d", j) ;
			if (same_file (hs [j].rpath, &st)) snprintf (who, sizeof (who), "a%d.r", j) ;
			}
		if (who [0] == '?' && tmp != NULL)
		{	char link [64], target [400] ; ssize_t r ;
			snprintf (link, sizeof (link), "/proc/self/fd/%d", fds [k]) ;
			r = readlink (link, target, sizeof (target) - 1) ;
			target [r > 0 ? r : 0] = 0 ;
			if (!strncmp (target, tmp, strlen (tmp))) snprintf (who, sizeof (who), "tmp") ;
			}
		printf ("%s%d:%s", first ? "" : ",", fds [k], who) ;
		first = 0 ;
		}
	for (j = 0 ; j < NSLOT ; j++)
		if (ks [j].fd >= 0 && ks [j].path [0])
		{	struct stat st ;
			if (fstat (ks [j].fd, &st) != 0 || st.st_dev != ks [j].dev || st.st_ino != ks [j].ino)
			{	printf ("%sk%d@LOST", first ? "" : ",", j) ; first = 0 ; }
			}
	printf ("\n") ;
}

static uint64_t
fnv (const unsigned char *p, size_t n, uint64_t h)
{	size_t k ;
	for (k = 0 ; k < n ; k++) { h ^= p [k] ; h *= 1099511628211ULL ; }
	return h ;
}

static void
file_digest (const char *path, const char *label)
{	FILE *f = fopen (path, "rb") ;
	unsigned char buf [4096] ; size_t r ; long len = 0 ; uint64_t h = 1469598103934665603ULL ;
	if (f == NULL) { printf (" %s=none", label) ; return ; }
	while ((r = fread (buf, 1, sizeof (buf), f)) > 0) { h = fnv (buf, r, h) ; len += (long) r ; }
	fclose (f) ;
	printf (" %s=%ld:%016llx", label, len, (unsigned long long) h) ;
}

static const char *
kvf (char **tok, int ntok, const char *key)
{	size_t kl = strlen (key) ; int k ;
	for (k = 0 ; k < ntok ; k++)
		if (!strncmp (tok [k], key, kl) && tok [k][kl] == '=') return tok [k] + kl + 1 ;
	return NULL ;
}

static int
slot_of (const char *name, char c)
{	int k ;
	if (name [0] != c) return -1 ;
	k = atoi (name + 1) ;
	return (k >= 0 && k < NSLOT) ? k : -1 ;
}

void
op_fdworld (char **tok, int ntok)
{	const char *sub = ntok > 1 ? tok [1] : "" ;
	int k ;
	if (!strcmp (sub, "begin"))
	{	const char *b = getenv ("SFH_SCRATCH") ;
		/* warm up whatever opens descriptors lazily (stdio on /proc, the C library's own files) */
		{	int dummy [MAXFD] ; (void) list_open (dummy, MAXFD) ; }
		snprintf (dir, sizeof (dir), "%s/fdw-%d", b ? b : "/var/tmp", (int) getpid ()) ;
		mkdir (dir, 0700) ;
		/* a private TMPDIR per process: the ALAC spool file is `<TMPDIR>/<rand><rand>-alac.tmp`, opened without O_EXCL, with the generator
		** seeded from the clock -- two harness PROCESSES started in the same microsecond would share one spool file (not a C19 matter:
		** C19 is about handles inside one process) */
		{	static char tmpd [300] ;
			snprintf (tmpd, sizeof (tmpd), "%s/tmp", dir) ;
			mkdir (tmpd, 0700) ;
			setenv ("TMPDIR", tmpd, 1) ;
			}
		for (k = 0 ; k < NSLOT ; k++) { memset (&hs [k], 0, sizeof (hs [k])) ; hs [k].userfd = -1 ; memset (&ks [k], 0, sizeof (ks [k])) ; ks [k].fd = -1 ; }
		nbase = list_open (base, MAXFD) ;
		printf ("ok open=") ;
		for (k = 0 ; k < nbase ; k++) printf ("%s%d", k ? "," : "", base [k]) ;
		table () ;
		return ;
		}
	if (!strcmp (sub, "end"))
	{	char cmd [400] ;
		for (k = 0 ; k < NSLOT ; k++)
		{	if (hs [k].sf) { sf_close (hs [k].sf) ; hs [k].sf = NULL ; }
			if (ks [k].fd >= 0 && ks [k].path [0]) close (ks [k].fd) ;
			}
		snprintf (cmd, sizeof (cmd), "rm -rf '%s'", dir) ;
		if (dir [0] && system (cmd)) { }
		printf ("ok\n") ;
		return ;
		}
	if (!strcmp (sub, "sentinel") && ntok >= 3 && (k = slot_of (tok [2], 'k')) >= 0)
	{	SENT *s = &ks [k] ; struct stat st ; FILE *f ; int j ;
		snprintf (s->path, sizeof (s->path), "%s/k%d.dat", dir, k) ;
		if ((f = fopen (s->path, "wb")) != NULL) { for (j = 0 ; j < 64 ; j++) fputc (0x30 + k, f) ; fclose (f) ; }
		s->fd = open (s->path, O_RDWR) ;
		s->off = lseek (s->fd, 7 + k, SEEK_SET) ;
		fstat (s->fd, &st) ; s->dev = st.st_dev ; s->ino = st.st_ino ;
		printf ("ok fd=%d", s->fd) ;
		table () ;
		return ;
		}
	if (!strcmp (sub, "unsent") && ntok >= 3 && (k = slot_of (tok [2], 'k')) >= 0)
	{	SENT *s = &ks [k] ;
		printf ("ok ret=%d", s->fd >= 0 ? close (s->fd) : -1) ;
		s->fd = -1 ; s->path [0] = 0 ;
		table () ;
		return ;
		}
	if (ntok < 3 || (k = slot_of (tok [2], 'a')) < 0) { printf ("bad-op\n") ; return ; }
	{	FDH *h = &hs [k] ;
		if (!strcmp (sub, "open") && ntok >= 4)
		{	const char *m = tok [3], *v, *route = kvf (tok, ntok, "route"), *ext = kvf (tok, ntok, "ext") ;
			int mode = !strcmp (m, "r") ? SFM_READ : !strcmp (m, "w") ? SFM_WRITE : SFM_RDWR ;
			SF_INFO info ;
			memset (&info, 0, sizeof (info)) ;
			if ((v = kvf (tok, ntok, "fmt")) && mode != SFM_READ) info.format = (int) strtol (v, NULL, 16) ;
			if ((v = kvf (tok, ntok, "ch")) && mode != SFM_READ) info.channels = atoi (v) ;
			if ((v = kvf (tok, ntok, "sr")) && mode != SFM_READ) info.samplerate = atoi (v) ;
			if (route == NULL) route = "path" ;
			if ((v = kvf (tok, ntok, "name")) != NULL)
			{	char sub2 [280] ;
				snprintf (sub2, sizeof (sub2), "%s/d%d", dir, k) ;
				mkdir (sub2, 0700) ;
				snprintf (h->path, sizeof (h->path), "%s/%.40s.%s", sub2, v, ext ? ext : "dat") ;
				snprintf (h->rpath, sizeof (h->rpath), "%s/._%.40s.%s", sub2, v, ext ? ext : "dat") ;
				}
			else
			{	snprintf (h->path, sizeof (h->path), "%s/a%d.%s", dir, k, ext ? ext : "dat") ;
				snprintf (h->rpath, sizeof (h->rpath), "%s/._a%d.%s", dir, k, ext ? ext : "dat") ;
				} ;
			h->userfd = -1 ; h->close_desc = 1 ;
			if (!strcmp (route, "path"))
				h->sf = sf_open (h->path, mode, &info) ;
			else
			{	h->close_desc = strcmp (route, "fd0") != 0 ;
				h->userfd = open (h->path, mode == SFM_READ ? O_RDONLY : mode == SFM_WRITE ? (O_WRONLY | O_CREAT | O_TRUNC) : (O_RDWR | O_CREAT), 0600) ;
				h->sf = sf_open_fd (h->userfd, mode, &info, h->close_desc) ;
				if (h->sf == NULL && !h->close_desc) { close (h->userfd) ; h->userfd = -1 ; }
				}
			h->ch = info.channels > 0 ? info.channels : 1 ;
			if (h->sf == NULL)
				printf ("open=NULL err=%d", sf_error (NULL)) ;
			else
			{	SF_PRIVATE *psf = (SF_PRIVATE *) h->sf ;
				printf ("open=ok fd=%d rsrc=%d frames=%lld", psf->file.filedes, psf->rsrc.filedes, (long long) info.frames) ;
				}
			table () ;
			return ;
			}
		if (!strcmp (sub, "w") && ntok >= 4)
		{	long n = atol (tok [3]), j ; short *buf = malloc ((n * h->ch + 1) * sizeof (short)) ; sf_count_t r ;
			for (j = 0 ; j < n * h->ch ; j++) buf [j] = (short) (((h->written + j) * 2654435761u >> 9) + 257 * k) ;
			r = sf_writef_short (h->sf, buf, n) ;
			if (r > 0) h->written += (long) r * h->ch ;
			printf ("ret=%lld err=%d", (long long) r, sf_error (h->sf)) ;
			free (buf) ;
			table () ;
			return ;
			}
		if (!strcmp (sub, "r") && ntok >= 4)
		{	long n = atol (tok [3]) ; short *buf = calloc (n * h->ch + 1, sizeof (short)) ; sf_count_t r ;
			r = sf_readf_short (h->sf, buf, n) ;
			printf ("ret=%lld err=%d sum=%016llx", (long long) r, sf_error (h->sf),
					(unsigned long long) fnv ((unsigned char *) buf, (size_t) (r > 0 ? r : 0) * h->ch * sizeof (short), 1469598103934665603ULL)) ;
			free (buf) ;
			table () ;
			return ;
			}
		if (!strcmp (sub, "close"))
		{	int r = sf_close (h->sf) ;
			h->sf = NULL ;
			printf ("ret=%d", r) ;
			/* the caller's own descriptor (close_desc = 0): it must still be open now -- uclose=0; -1: sf_close closed it */
			if (h->userfd >= 0 && !h->close_desc) printf (" uclose=%d", close (h->userfd)) ;
			h->userfd = -1 ;
			file_digest (h->path, "file") ;
			if (strstr (h->path, ".sd2")) file_digest (h->rpath, "rsrc") ;
			table () ;
			return ;
			}
		}
	printf ("bad-op\n") ;
}
