/* ledger: C16 instrumentation -- what the library owns, observed from outside and from the private struct.
**
** Script operations (dispatched from sfh.c's run_line, one transcript line each):
**
**   ledger begin                 warm up (stdio buffers, the library's own lazily initialised state), make a private TMPDIR
**                                for this process and make it the working directory, install malloc/free hooks of the ASan runtime, then take the baseline:
**                                live heap blocks/bytes, the descriptor table (/proc/self/fd), the TMPDIR listing.
**   ledger peek hN               owners of handle hN as the private struct shows them (no hook in the library: the harness
**                                is compiled against the tree's own common.h):
**                                  mask=<hex>   bit k set <=> the k-th owner pointer freed by psf_close is non-NULL, in the order
**                                               header.ptr container_data codec_data interleave dither peak_info broadcast_16k cart_16k
**                                               loop_info instrument cues channel_map format_desc strings.storage rchunks.chunks
**                                               wchunks.chunks iterator
**                                  rch=<rchunks.used> wch=<wchunks.used> pay=<non-NULL wchunk payloads> fd=<file.filedes >= 0> rsrc=<rsrc.filedes >= 0>
**                                  cc=<codec_close set> kc=<container_close set> hw=<have_written> vio=<virtual_io>
**                                  blocks=<heap blocks live since begin> bytes=<...> hblocks=<of which the harness's own stores>
**                                  nfd=<descriptors open now that were not open at begin>
**                                hN closed (NULL): `mask=closed blocks=.. bytes=.. hblocks=.. nfd=..`
**   ledger end                   balance=<bytes live since begin, harness stores excluded> blocks=<same in blocks> lsan=<0|1 leak report>
**                                fds=<count>[:fd>target,...] tmp=<count>[:name,...]   (descriptors / TMPDIR entries that were not there at begin)
**   ledger rsrc sN <ext> <hex|trunc:n|rm>    rewrite the resource-fork side file `._sN.<ext>` of the path-route scratch file (SD2)
**   ledger sizes                 sizeof of the blocks the owners point to (evidence only)
**   ledger rsrc sN <ext> load:sK  copy the side file into store sK (to learn what a valid resource fork looks like)
**   ledger tryopen sN <r|w|rw|int> fmt=<hex> ch=<n> sr=<n> route=vio|path|fd1|fd0 [ext=x] [rsrc=sK]
**                                one complete open attempt that owns nothing of sfh.c's handle table and NEVER closes a descriptor the
**                                library was told to close (close_desc = 1), so that a failing sf_open_fd that forgets it is visible:
**                                  open=NULL err=<sf_error (NULL)> msglen=<strlen (sf_strerror (NULL))> fdleft=<descriptor handed over still open>
**                                  open=ok close=<sf_close result> fdleft=<0|1>      (an open that succeeds is closed at once)
**                                rsrc=sK writes store sK as the `._name` resource-fork side file first (SD2)
**
** Nothing here allocates between the baseline and the measurement except the library.
*/
#include "sfh.h"
#include "sfconfig.h"
#include "common.h"
#include <dirent.h>
#include <time.h>

/* gcc has no sanitizer/allocator_interface.h: the prototypes of the runtime are declared by hand. */
size_t __sanitizer_get_current_allocated_bytes (void) ;
int __sanitizer_install_malloc_and_free_hooks (void (*malloc_hook) (const volatile void *, size_t), void (*free_hook) (const volatile void *)) ;
size_t __sanitizer_get_allocated_size (const volatile void *p) ;
int __lsan_do_recoverable_leak_check (void) ;

#define MAX_FDS		256
#define MAX_TMP		64

static volatile long live_blocks, live_bytes ;
static int hooks_on, begun ;
static long base_blocks, base_bytes ;
static size_t base_total ;
static int base_fds [MAX_FDS], n_base_fds ;
static char tmpdir [256], old_cwd [1024] ;
static int base_store_blocks ;
static long base_store_bytes ;

static void
on_malloc (const volatile void *p, size_t n)
{	(void) p ;
	live_blocks ++ ;
	live_bytes += (long) n ;
}

static void
on_free (const volatile void *p)
{	if (p == NULL) return ;
	live_blocks -- ;
	live_bytes -= (long) __sanitizer_get_allocated_size (p) ;
}

static int
list_fds (int *out, int max)
{	DIR *d = opendir ("/proc/self/fd") ;
	struct dirent *e ;
	int n = 0, self ;
	if (d == NULL) return 0 ;
	self = dirfd (d) ;
	while ((e = readdir (d)) != NULL)
	{	int fd ;
		if (e->d_name [0] == '.') continue ;
		fd = atoi (e->d_name) ;
		if (fd == self) continue ;
		if (n < max) out [n ++] = fd ;
		}
	closedir (d) ;
	return n ;
}

static int
fd_is_base (int fd)
{	int k ;
	for (k = 0 ; k < n_base_fds ; k++)
		if (base_fds [k] == fd) return 1 ;
	return 0 ;
}

static void
store_account (int *blocks, long *bytes)
{	int k ;
	*blocks = 0 ; *bytes = 0 ;
	for (k = 0 ; k < MAX_STORES ; k++)
		if (stores [k].buf != NULL)
		{	(*blocks) ++ ;
			*bytes += (long) stores [k].cap ;
			}
	iolog_account (blocks, bytes) ;
}

static void
warm_up (void)
{	/* everything that allocates once per process and keeps it: stdio, the library's error tables, the scratch machinery */
	SF_INFO info ;
	SNDFILE *sf ;
	STORE *s = store_get ("s63") ;
	FILE *f ;
	char path [300] ;
	short zero [8] = { 0 } ;

	memset (&info, 0, sizeof (info)) ;
	info.format = SF_FORMAT_WAV | SF_FORMAT_PCM_16 ; info.channels = 1 ; info.samplerate = 8000 ;
	store_reserve (s, 4096) ;
	s->len = 0 ; s->pos = 0 ;
	sf = sf_open_virtual (&mem_vio, SFM_WRITE, &info, s) ;
	if (sf)
	{	sf_set_string (sf, SF_STR_TITLE, "w") ;
		sf_write_short (sf, zero, 8) ;
		sf_close (sf) ;
		}
	s->pos = 0 ;
	memset (&info, 0, sizeof (info)) ;
	sf = sf_open_virtual (&mem_vio, SFM_READ, &info, s) ;
	if (sf) sf_close (sf) ;
	s->len = 3 ; s->pos = 0 ;
	memset (&info, 0, sizeof (info)) ;
	sf = sf_open_virtual (&mem_vio, SFM_READ, &info, s) ;	/* a failing open: sf_strerror (NULL) tables */
	if (sf) sf_close (sf) ;
	(void) sf_strerror (NULL) ;
	{	time_t t0 = 0 ; struct tm tmv ; tzset () ; (void) localtime_r (&t0, &tmv) ; (void) gmtime_r (&t0, &tmv) ; }	/* glibc keeps the time-zone data (MAT5 and the date strings use localtime) */
	s->len = 0 ;
	snprintf (path, sizeof (path), "%s/warm", tmpdir) ;
	if ((f = fopen (path, "wb+")) != NULL)
	{	fputc (0, f) ; fflush (f) ; fclose (f) ; unlink (path) ;
		}
	{	int dummy [4] ; (void) list_fds (dummy, 4) ; }
}

static SF_PRIVATE *
psf_of (const char *name)
{	return (SF_PRIVATE *) sfh_handle_sf (name) ;
}

static void
ledger_begin (void)
{	const char *base = getenv ("SFH_SCRATCH") ;
	printf ("ok ledger-begin\n") ;
	fflush (stdout) ;
	snprintf (tmpdir, sizeof (tmpdir), "%s/sfh-tmp-%d", base ? base : "/var/tmp", (int) getpid ()) ;
	mkdir (tmpdir, 0700) ;
	setenv ("TMPDIR", tmpdir, 1) ;
	/* the private directory is also the working directory from here on: a file the library creates under a relative name
	** (psf_open_tmpfile's fallback, a resource fork looked up with an empty file name) shows up in the `tmp=` listing */
	if (getcwd (old_cwd, sizeof (old_cwd)) == NULL) old_cwd [0] = 0 ;
	if (chdir (tmpdir) != 0) { }
	warm_up () ;
	if (!hooks_on)
	{	__sanitizer_install_malloc_and_free_hooks (on_malloc, on_free) ;
		hooks_on = 1 ;
		}
	base_blocks = live_blocks ;
	base_bytes = live_bytes ;
	base_total = __sanitizer_get_current_allocated_bytes () ;
	n_base_fds = list_fds (base_fds, MAX_FDS) ;
	store_account (&base_store_blocks, &base_store_bytes) ;
	begun = 1 ;
}

static int
new_fds (int *out, int max)
{	int all [MAX_FDS], n, k, m = 0 ;
	n = list_fds (all, MAX_FDS) ;
	for (k = 0 ; k < n ; k++)
		if (!fd_is_base (all [k]) && m < max)
			out [m ++] = all [k] ;
	return m ;
}

static void
ledger_peek (const char *hname)
{	SF_PRIVATE *psf = psf_of (hname) ;
	int sb, fds [MAX_FDS] ; long sby ;
	unsigned mask = 0, pay = 0 ; uint32_t k ;
	store_account (&sb, &sby) ;
	if (psf == NULL)
	{	printf ("mask=closed blocks=%ld bytes=%ld hblocks=%d nfd=%d\n", live_blocks - base_blocks, live_bytes - base_bytes,
				sb - base_store_blocks, new_fds (fds, MAX_FDS)) ;
		return ;
		}
	if (psf->header.ptr)		mask |= 1u << 0 ;
	if (psf->container_data)	mask |= 1u << 1 ;
	if (psf->codec_data)		mask |= 1u << 2 ;
	if (psf->interleave)		mask |= 1u << 3 ;
	if (psf->dither)			mask |= 1u << 4 ;
	if (psf->peak_info)			mask |= 1u << 5 ;
	if (psf->broadcast_16k)		mask |= 1u << 6 ;
	if (psf->cart_16k)			mask |= 1u << 7 ;
	if (psf->loop_info)			mask |= 1u << 8 ;
	if (psf->instrument)		mask |= 1u << 9 ;
	if (psf->cues)				mask |= 1u << 10 ;
	if (psf->channel_map)		mask |= 1u << 11 ;
	if (psf->format_desc)		mask |= 1u << 12 ;
	if (psf->strings.storage)	mask |= 1u << 13 ;
	if (psf->rchunks.chunks)	mask |= 1u << 14 ;
	if (psf->wchunks.chunks)	mask |= 1u << 15 ;
	if (psf->iterator)			mask |= 1u << 16 ;
	if (psf->wchunks.chunks)
		for (k = 0 ; k < psf->wchunks.used ; k++)
			if (psf->wchunks.chunks [k].data) pay ++ ;
	printf ("mask=%05x rch=%u wch=%u pay=%u fd=%d rsrc=%d cc=%d kc=%d hw=%d vio=%d blocks=%ld bytes=%ld hblocks=%d nfd=%d\n", mask,
			psf->rchunks.used, psf->wchunks.used, pay, psf->virtual_io ? 0 : psf->file.filedes >= 0, psf->rsrc.filedes >= 0,
			psf->codec_close != NULL, psf->container_close != NULL, psf->have_written, psf->virtual_io,
			live_blocks - base_blocks, live_bytes - base_bytes, sb - base_store_blocks, new_fds (fds, MAX_FDS)) ;
}

static void
ledger_end (void)
{	int sb, fds [MAX_FDS], nf, k, ntmp = 0, lsan ;
	long sby, balance, blocks ;
	char names [MAX_TMP][64] ;
	DIR *d ;
	if (!begun) { printf ("bad-op\n") ; return ; }
	store_account (&sb, &sby) ;
	blocks = (live_blocks - base_blocks) - (sb - base_store_blocks) ;
	balance = (live_bytes - base_bytes) - (sby - base_store_bytes) ;
	nf = new_fds (fds, MAX_FDS) ;
	if ((d = opendir (tmpdir)) != NULL)
	{	struct dirent *e ;
		while ((e = readdir (d)) != NULL)
		{	if (!strcmp (e->d_name, ".") || !strcmp (e->d_name, "..")) continue ;
			if (ntmp < MAX_TMP) snprintf (names [ntmp ++], sizeof (names [0]), "%s", e->d_name) ;
			}
		closedir (d) ;
		}
	/* unreachable blocks (needs ASAN_OPTIONS=detect_leaks=1; 0 when the leak checker is off) */
	fflush (stdout) ;
	lsan = __lsan_do_recoverable_leak_check () ;
	printf ("balance=%ld blocks=%ld total=%ld lsan=%d fds=%d", balance, blocks,
			(long) __sanitizer_get_current_allocated_bytes () - (long) base_total - (sby - base_store_bytes), lsan, nf) ;
	for (k = 0 ; k < nf ; k++)
	{	char link [64], target [200] ; ssize_t r ;
		snprintf (link, sizeof (link), "/proc/self/fd/%d", fds [k]) ;
		r = readlink (link, target, sizeof (target) - 1) ;
		target [r > 0 ? r : 0] = 0 ;
		{	char *b = strrchr (target, '/') ; printf ("%c%d>%s", k ? ',' : ':', fds [k], b ? b + 1 : target) ; }
		}
	printf (" tmp=%d", ntmp) ;
	for (k = 0 ; k < ntmp ; k++)
	{	char p [400] ;
		printf ("%c%s", k ? ',' : ':', strstr (names [k], "alac.tmp") ? "*-alac.tmp" : names [k]) ;
		snprintf (p, sizeof (p), "%s/%s", tmpdir, names [k]) ;
		unlink (p) ;
		}
	printf ("\n") ;
	if (old_cwd [0] && chdir (old_cwd) != 0) { }
	rmdir (tmpdir) ;
	begun = 0 ;
}

static void
ledger_rsrc (char **tok, int ntok)
{	/* the scratch file of store sN on the path route is <SFH_SCRATCH|/var/tmp>/sfh-<pid>/sN.<ext> (sfh.c op_open) */
	const char *base = getenv ("SFH_SCRATCH"), *what = ntok > 4 ? tok [4] : "rm" ;
	char path [400] ;
	FILE *f ;
	snprintf (path, sizeof (path), "%s/sfh-%d/._%s.%s", base ? base : "/var/tmp", (int) getpid (), tok [2], tok [3]) ;
	if (!strcmp (what, "rm"))
	{	printf ("ret=%d\n", unlink (path)) ; return ; }
	if (!strncmp (what, "trunc:", 6))
	{	printf ("ret=%d\n", truncate (path, atol (what + 6))) ; return ; }
	if (!strncmp (what, "load:", 5))
	{	STORE *d = store_get (what + 5) ; long n = 0 ;
		if (d == NULL || (f = fopen (path, "rb")) == NULL) { printf ("ret=-1\n") ; return ; }
		fseek (f, 0, SEEK_END) ; n = ftell (f) ; fseek (f, 0, SEEK_SET) ;
		store_reserve (d, n) ;
		if (n > 0 && fread (d->buf, 1, n, f) != (size_t) n) { }
		d->len = n ; d->pos = 0 ;
		fclose (f) ;
		printf ("ret=0 len=%ld\n", n) ;
		return ;
		}
	if (!strncmp (what, "flip:", 5))
	{	/* flip:<offset>:<xor-hex> */
		long off = atol (what + 5) ; int x = 0xff, c ;
		if (strchr (what + 5, ':')) x = (int) strtol (strchr (what + 5, ':') + 1, NULL, 16) ;
		if ((f = fopen (path, "rb+")) == NULL) { printf ("ret=-1\n") ; return ; }
		fseek (f, off, SEEK_SET) ; c = fgetc (f) ;
		if (c != EOF) { fseek (f, off, SEEK_SET) ; fputc (c ^ x, f) ; }
		fclose (f) ;
		printf ("ret=%d\n", c == EOF ? -1 : 0) ;
		return ;
		}
	{	size_t len ; unsigned char *d = unhex (what, &len) ;
		if ((f = fopen (path, "wb")) == NULL) { free (d) ; printf ("ret=-1\n") ; return ; }
		if (len) fwrite (d, 1, len, f) ;
		fclose (f) ; free (d) ;
		printf ("ret=0 len=%ld\n", (long) len) ;
		}
}

static const char *
kvget (char **tok, int ntok, const char *key)
{	size_t kl = strlen (key) ; int k ;
	for (k = 0 ; k < ntok ; k++)
		if (!strncmp (tok [k], key, kl) && tok [k][kl] == '=')
			return tok [k] + kl + 1 ;
	return NULL ;
}

static void
ledger_tryopen (char **tok, int ntok)
{	STORE *s = store_get (tok [2]), *rs = NULL ;
	const char *m = tok [3], *v, *route = kvget (tok, ntok, "route"), *ext = kvget (tok, ntok, "ext"), *base = getenv ("SFH_SCRATCH") ;
	int mode = !strcmp (m, "r") ? SFM_READ : !strcmp (m, "w") ? SFM_WRITE : !strcmp (m, "rw") ? SFM_RDWR : atoi (m) ;
	SF_INFO info ;
	SNDFILE *sf = NULL ;
	char dir [300], path [400], side [400] ;
	int fd = -1, close_desc = 1, fdleft = 0 ;
	FILE *f ;
	if (s == NULL) { printf ("bad-op\n") ; return ; }
	memset (&info, 0, sizeof (info)) ;
	if ((v = kvget (tok, ntok, "fmt"))) info.format = (int) strtol (v, NULL, 16) ;
	if ((v = kvget (tok, ntok, "ch"))) info.channels = atoi (v) ;
	if ((v = kvget (tok, ntok, "sr"))) info.samplerate = atoi (v) ;
	if ((v = kvget (tok, ntok, "rsrc"))) rs = store_get (v) ;
	if (route == NULL) route = "vio" ;
	if (!strcmp (route, "vio"))
	{	if (mode == SFM_WRITE) s->len = 0 ;
		s->pos = 0 ;
		sf = sf_open_virtual (&mem_vio, mode, &info, s) ;
		}
	else
	{	snprintf (dir, sizeof (dir), "%s/sfh-try-%d", base ? base : "/var/tmp", (int) getpid ()) ;
		mkdir (dir, 0700) ;
		snprintf (path, sizeof (path), "%s/%s.%s", dir, tok [2], ext ? ext : "dat") ;
		snprintf (side, sizeof (side), "%s/._%s.%s", dir, tok [2], ext ? ext : "dat") ;
		if (mode != SFM_WRITE && (f = fopen (path, "wb")) != NULL)
		{	if (s->len > 0) fwrite (s->buf, 1, s->len, f) ;
			fclose (f) ;
			}
		if (rs != NULL && (f = fopen (side, "wb")) != NULL)
		{	if (rs->len > 0) fwrite (rs->buf, 1, rs->len, f) ;
			fclose (f) ;
			}
		if (!strcmp (route, "path"))
			sf = sf_open (path, mode, &info) ;
		else
		{	close_desc = strcmp (route, "fd0") != 0 ;
			fd = open (path, mode == SFM_READ ? O_RDONLY : mode == SFM_WRITE ? (O_WRONLY | O_CREAT | O_TRUNC) : (O_RDWR | O_CREAT), 0600) ;
			sf = sf_open_fd (fd, mode, &info, close_desc) ;
			}
		}
	if (sf == NULL)
	{	int e = sf_error (NULL) ;
		const char *msg = sf_strerror (NULL) ;
		if (fd >= 0 && close_desc) fdleft = fcntl (fd, F_GETFD) != -1 ;
		printf ("open=NULL err=%d msglen=%d fdleft=%d\n", e, (int) (msg ? strlen (msg) : 0), fdleft) ;
		}
	else
	{	int r = sf_close (sf) ;
		if (fd >= 0 && close_desc) fdleft = fcntl (fd, F_GETFD) != -1 ;
		printf ("open=ok close=%d fdleft=%d\n", r, fdleft) ;
		}
	if (fd >= 0 && !close_desc) close (fd) ;		/* ours */
	if (strcmp (route, "vio"))
	{	unlink (path) ; unlink (side) ; rmdir (dir) ;
		}
}

/* ledger fsize <bytes|off>: RLIMIT_FSIZE for this process (SIGXFSZ ignored), so that write () on a regular file fails with EFBIG beyond
** <bytes> -- a genuine OS error on the path / descriptor routes and on the codec's temporary file.  `off` restores the limit.
** ledger closefd hN: closes the descriptor handle hN works on behind its back (the caller of sf_open_fd (.., close_desc = 0) closing its own
** descriptor early): every later read / write / seek / close of the library fails with EBADF. */
#include <sys/resource.h>
static struct rlimit fsize_saved ;
static int fsize_have ;

static void
ledger_fsize (char **tok, int ntok)
{	struct rlimit rl ;
	if (ntok < 3) { printf ("bad-op\n") ; return ; }
	if (!fsize_have) { getrlimit (RLIMIT_FSIZE, &fsize_saved) ; fsize_have = 1 ; }
	signal (SIGXFSZ, SIG_IGN) ;
	rl = fsize_saved ;
	if (strcmp (tok [2], "off")) rl.rlim_cur = (rlim_t) atoll (tok [2]) ;
	printf ("ok fsize=%s ret=%d\n", tok [2], setrlimit (RLIMIT_FSIZE, &rl)) ;
}

static void
ledger_closefd (const char *hname)
{	SF_PRIVATE *psf = psf_of (hname) ;
	if (psf == NULL || psf->virtual_io || psf->file.filedes < 0) { printf ("ok closefd=none\n") ; return ; }
	printf ("ok closefd=%d\n", close (psf->file.filedes)) ;
}

void
op_ledger (char **tok, int ntok)
{	if (ntok >= 3 && !strcmp (tok [1], "fsize")) ledger_fsize (tok, ntok) ;
	else if (ntok >= 3 && !strcmp (tok [1], "closefd")) ledger_closefd (tok [2]) ;
	else if (ntok >= 2 && !strcmp (tok [1], "begin")) ledger_begin () ;
	else if (ntok >= 3 && !strcmp (tok [1], "peek")) ledger_peek (tok [2]) ;
	else if (ntok >= 2 && !strcmp (tok [1], "end")) ledger_end () ;
	else if (ntok >= 4 && !strcmp (tok [1], "rsrc")) ledger_rsrc (tok, ntok) ;
	else if (ntok >= 4 && !strcmp (tok [1], "tryopen")) ledger_tryopen (tok, ntok) ;
	else if (ntok >= 2 && !strcmp (tok [1], "sizes"))
		printf ("ok psf=%ld header=%d bext=%ld cart=%ld instrument=%ld loop=%ld iterator=%ld\n", (long) sizeof (SF_PRIVATE), 256,
				(long) sizeof (SF_BROADCAST_INFO_16K), (long) sizeof (SF_CART_INFO_16K), (long) sizeof (SF_INSTRUMENT), (long) sizeof (SF_LOOP_INFO),
				(long) sizeof (SF_CHUNK_ITERATOR)) ;
	else printf ("bad-op\n") ;
}
