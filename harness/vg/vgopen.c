/*
** vgopen: a plain (no sanitizer) client of libsndfile for `valgrind --tool=memcheck` -- C03's "uninitialised value" class, which
** AddressSanitizer cannot see.  Usage: vgopen <file> ...   or   vgopen -l <list file with one path per line>
** For every file: a marker line on stderr (`@@ <index> <path>`, so that valgrind's reports, which go to the same descriptor, can be
** attributed), sf_open (SFM_READ), the SF_INFO and the first bytes of the parse log are consumed in branches (an uninitialised field
** shows as "Conditional jump depends on uninitialised value"), sf_readf_short of up to 64 frames, the ten strings, sf_close.
** One line per file on stdout: `<index> open=ok ch= sr= frames= fmt= sections= seekable= read= sum=` | `<index> open=NULL err=<n>`.
*/
#include <stdio.h>
#include <stdlib.h>
#include <string.h>
#include <sndfile.h>

static unsigned long
consume (const void *p, size_t n)
{	const unsigned char *c = p ; unsigned long h = 1469598103UL ; size_t k ;
	for (k = 0 ; k < n ; k++)
		h = (h ^ c [k]) * 1099511UL ;		/* a value computed from every byte ... */
	return h ;
}

static void
one (long idx, const char *path)
{	SF_INFO info ;
	SNDFILE *sf ;
	static char log [16384] ;
	static short buf [64 * 1024] ;
	unsigned long h = 0 ;
	int k ;
	fflush (stdout) ;
	fprintf (stderr, "@@ %ld %s\n", idx, path) ;
	fflush (stderr) ;
	memset (&info, 0, sizeof (info)) ;
	sf = sf_open (path, SFM_READ, &info) ;
	if (sf == NULL)
	{	int e = sf_error (NULL) ;
		const char *m = sf_strerror (NULL) ;
		h = consume (m, strlen (m)) ;
		sf_command (NULL, SFC_GET_LOG_INFO, log, sizeof (log)) ;
		h ^= consume (log, strlen (log)) ;
		printf ("%ld open=NULL err=%d%s\n", idx, e, (h & 1) ? "" : " ") ;		/* ... and used in a branch */
		return ;
		}
	h = consume (&info.frames, sizeof (info.frames)) ^ consume (&info.samplerate, sizeof (int)) ^ consume (&info.channels, sizeof (int))
		^ consume (&info.format, sizeof (int)) ^ consume (&info.sections, sizeof (int)) ^ consume (&info.seekable, sizeof (int)) ;
	sf_command (sf, SFC_GET_LOG_INFO, log, sizeof (log)) ;
	h ^= consume (log, strlen (log)) ;
	{	sf_count_t want = 64, got = 0 ;
		if (info.channels >= 1 && info.channels <= 1024)
		{	got = sf_readf_short (sf, buf, want) ;
			if (got > 0) h ^= consume (buf, (size_t) got * info.channels * sizeof (short)) ;
			}
		for (k = SF_STR_FIRST ; k <= SF_STR_LAST ; k++)
		{	const char *s = sf_get_string (sf, k) ;
			if (s) h ^= consume (s, strlen (s)) ;
			}
		printf ("%ld open=ok ch=%d sr=%d frames=%lld fmt=%08x sections=%d seekable=%d read=%lld sum=%d\n", idx, info.channels, info.samplerate,
				(long long) info.frames, info.format, info.sections, info.seekable, (long long) got, (int) (h & 1)) ;
		}
	sf_close (sf) ;
}

int
main (int argc, char **argv)
{	long idx = 0 ;
	int k ;
	if (argc >= 3 && !strcmp (argv [1], "-l"))
	{	FILE *f = fopen (argv [2], "r") ;
		char line [4096] ;
		if (f == NULL) return 2 ;
		while (fgets (line, sizeof (line), f))
		{	line [strcspn (line, "\r\n")] = 0 ;
			if (line [0]) one (idx ++, line) ;
			}
		fclose (f) ;
		return 0 ;
		}
	for (k = 1 ; k < argc ; k++)
		one (idx ++, argv [k]) ;
	return 0 ;
}
