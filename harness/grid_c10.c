/* sfh grid c10 — the complete C10 grid against the real library, in-process.
**
**	sfh grid c10 [k/n]            every (major, subtype) pair whose pair index % n == k (default 0/1)
**	sfh grid c10 point <fmt-hex> <channels> <samplerate>     one point (used by replays / shrinking)
**	sfh grid c10 consts           error numbers the model's predicted lines need
**	sfh grid c10 fcheck           sf_format_check for every channel count -1 .. 1026 of every format word
**
** For every point of  majors x subtypes x {FILE,LITTLE,BIG,CPU} x channels x samplerates  one line:
**
**	p fmt=<hex8> ch=<n> sr=<n> chk=<0|1> open=0 err=<n>
**	p fmt=<hex8> ch=<n> sr=<n> chk=<0|1> open=1 w=<a>,<b>,<c>,<d> close=<n> tmp=<n> re=1 rfmt=<hex8> rch=<n> rsr=<n> rfr=<n>
**	p fmt=<hex8> ch=<n> sr=<n> chk=<0|1> open=1 w=<a>,<b>,<c>,<d> close=<n> tmp=<n> re=0 rerr=<n>
**	p fmt=<hex8> ch=<n> sr=<n> chk=<0|1> DIED stage=<open|write|close|reopen> how=<signal N|status N|timeout>
**
** w = return values of sf_writef_short/int/float/double with 3 frames each; tmp = number of files
** the library left behind in its temp directory after sf_close (the ALAC encoder spools there).
** Everything goes through the memory SF_VIRTUAL_IO except SD2, whose resource fork only exists
** beside a real path.  Each (major, subtype) slice runs in a forked child; a crash / sanitizer abort /
** timeout is reported for the point in progress and the slice resumes after it.
** The library's temp directory is a private directory made here and removed at exit; nothing is ever
** assumed about, or left in, the system temp directory.
*/
#include "sfh.h"
#include <sys/mman.h>
#include <dirent.h>

#define N_END	4
#define N_CH	10
#define N_SR	6

static const int endians [N_END] = { 0x00000000, 0x10000000, 0x20000000, 0x30000000 } ;
static const int chans [N_CH] = { 0, 1, 2, 3, 8, 9, 256, 257, 1024, 1025 } ;
static const int rates [N_SR] = { -1, 0, 1, 8000, 44100, 2147483647 } ;

enum { ST_OPEN = 0, ST_WRITE, ST_CLOSE, ST_REOPEN, ST_DONE } ;
static const char *stage_name [] = { "open", "write", "close", "reopen", "done" } ;

typedef struct
{	volatile long point ;	/* index of the point in progress inside the slice */
	volatile int stage ;
	volatile int chk ;
} PROGRESS ;

static PROGRESS *progress ;
static char tmp_dir [256] ;
static STORE gstore ;
static pid_t tmp_owner ;

static int
count_dir (const char *dir)
{	DIR *d = opendir (dir) ; struct dirent *e ; int n = 0 ;
	if (d == NULL) return -1 ;
	while ((e = readdir (d)) != NULL)
		if (strcmp (e->d_name, ".") && strcmp (e->d_name, ".."))
			n ++ ;
	closedir (d) ;
	return n ;
}

static void
empty_dir (const char *dir)
{	DIR *d = opendir (dir) ; struct dirent *e ; char p [600] ;
	if (d == NULL) return ;
	while ((e = readdir (d)) != NULL)
		if (strcmp (e->d_name, ".") && strcmp (e->d_name, ".."))
		{	snprintf (p, sizeof (p), "%s/%s", dir, e->d_name) ;
			unlink (p) ;
			}
	closedir (d) ;
}

static void
tmp_setup (void)
{	const char *base = getenv ("SFH_SCRATCH") ;
	snprintf (tmp_dir, sizeof (tmp_dir), "%s/sfh-c10-XXXXXX", base ? base : "/var/tmp") ;
	if (mkdtemp (tmp_dir) == NULL)
	{	perror ("mkdtemp") ;
		exit (9) ;
		}
	tmp_owner = getpid () ;
	setenv ("TMPDIR", tmp_dir, 1) ;
	/* a library that falls back to the current directory must not litter the caller's */
	if (chdir (tmp_dir)) { }
}

static void
tmp_remove (void)
{	if (!tmp_dir [0] || getpid () != tmp_owner) return ;
	empty_dir (tmp_dir) ;
	if (chdir ("/")) { }
	rmdir (tmp_dir) ;
	tmp_dir [0] = 0 ;
}

static void
on_alarm_c10 (int sig)
{	(void) sig ;
	SFH_EXIT (3) ;
}

/* one point; prints exactly one line (assembled first, so a crash never leaves half a line) */
static void
run_point (int format, int channels, int samplerate)
{	SF_INFO info, rinfo ;
	SNDFILE *sf ;
	char line [600] ; int n = 0 ;
	long long w [4] = { -9, -9, -9, -9 } ;
	int chk, cl, left, is_sd2, items, k ;
	char path [400] ;
	short *sb ; int *ib ; float *fb ; double *db ;

	memset (&info, 0, sizeof (info)) ;
	info.format = format ; info.channels = channels ; info.samplerate = samplerate ;
	progress->stage = ST_OPEN ;
	progress->chk = -1 ;
	chk = sf_format_check (&info) ;
	progress->chk = chk ;
	n += snprintf (line + n, sizeof (line) - n, "p fmt=%08x ch=%d sr=%d chk=%d", (unsigned) format, channels, samplerate, chk) ;

	is_sd2 = ((format & SF_FORMAT_TYPEMASK) == SF_FORMAT_SD2) ;
	snprintf (path, sizeof (path), "%s/point.sd2", tmp_dir) ;
	gstore.len = 0 ; gstore.pos = 0 ;
	alarm (20) ;
	if (is_sd2)
		sf = sf_open (path, SFM_WRITE, &info) ;
	else
		sf = sf_open_virtual (&mem_vio, SFM_WRITE, &info, &gstore) ;
	if (sf == NULL)
	{	printf ("%s open=0 err=%d\n", line, sf_error (NULL)) ;
		alarm (0) ;
		empty_dir (tmp_dir) ;
		return ;
		}
	progress->stage = ST_WRITE ;
	items = 3 * (channels > 0 ? channels : 1) ;
	/* exact-size blocks: the instrumented library trips ASan if it reads past them */
	sb = malloc (items * sizeof (short)) ; ib = malloc (items * sizeof (int)) ;
	fb = malloc (items * sizeof (float)) ; db = malloc (items * sizeof (double)) ;
	for (k = 0 ; k < items ; k++)
	{	int sign = (k & 1) ? -1 : 1 ;
		sb [k] = (short) (sign * 8192) ;
		ib [k] = sign * 0x20000000 ;
		fb [k] = sign * 0.25f ;
		db [k] = sign * 0.25 ;
		}
	w [0] = sf_writef_short (sf, sb, 3) ;
	w [1] = sf_writef_int (sf, ib, 3) ;
	w [2] = sf_writef_float (sf, fb, 3) ;
	w [3] = sf_writef_double (sf, db, 3) ;
	free (sb) ; free (ib) ; free (fb) ; free (db) ;
	progress->stage = ST_CLOSE ;
	cl = sf_close (sf) ;
	left = count_dir (tmp_dir) - (is_sd2 ? 2 : 0) ;	/* SD2: the file and its ._ resource fork are ours */
	n += snprintf (line + n, sizeof (line) - n, " open=1 w=%lld,%lld,%lld,%lld close=%d tmp=%d", w [0], w [1], w [2], w [3], cl, left) ;

	progress->stage = ST_REOPEN ;
	memset (&rinfo, 0, sizeof (rinfo)) ;
	if ((format & SF_FORMAT_TYPEMASK) == SF_FORMAT_RAW)
	{	/* a header-less file can only be read back by telling the library what it is */
		rinfo.format = format ; rinfo.channels = channels ; rinfo.samplerate = samplerate ;
		}
	gstore.pos = 0 ;
	if (is_sd2)
		sf = sf_open (path, SFM_READ, &rinfo) ;
	else
		sf = sf_open_virtual (&mem_vio, SFM_READ, &rinfo, &gstore) ;
	if (sf == NULL)
		printf ("%s re=0 rerr=%d\n", line, sf_error (NULL)) ;
	else
	{	printf ("%s re=1 rfmt=%08x rch=%d rsr=%d rfr=%lld\n", line, (unsigned) rinfo.format, rinfo.channels, rinfo.samplerate, (long long) rinfo.frames) ;
		sf_close (sf) ;
		}
	alarm (0) ;
	progress->stage = ST_DONE ;
	empty_dir (tmp_dir) ;
}

static void
point_of (long idx, int base, int *format, int *channels, int *samplerate)
{	int e = idx / (N_CH * N_SR), c = (idx / N_SR) % N_CH, s = idx % N_SR ;
	*format = base | endians [e] ;
	*channels = chans [c] ;
	*samplerate = rates [s] ;
}

/* all points of one (major | subtype) in forked children, resuming after a death */
static void
run_slice (int base)
{	long total = N_END * N_CH * N_SR, start = 0 ;
	while (start < total)
	{	pid_t pid ; int st = 0 ;
		fflush (stdout) ;
		progress->point = start ; progress->stage = ST_OPEN ; progress->chk = -1 ;
		pid = fork () ;
		if (pid == 0)
		{	long i ; int f, c, s ;
			signal (SIGALRM, on_alarm_c10) ;
			for (i = start ; i < total ; i++)
			{	progress->point = i ;
				point_of (i, base, &f, &c, &s) ;
				run_point (f, c, s) ;
				fflush (stdout) ;
				}
			SFH_EXIT (0) ;
			}
		waitpid (pid, &st, 0) ;
		if (WIFEXITED (st) && WEXITSTATUS (st) == 0)
			break ;
		{	int f, c, s ; char how [64] ;
			point_of (progress->point, base, &f, &c, &s) ;
			if (WIFSIGNALED (st)) snprintf (how, sizeof (how), "signal%d", WTERMSIG (st)) ;
			else if (WEXITSTATUS (st) == 3) snprintf (how, sizeof (how), "timeout") ;
			else snprintf (how, sizeof (how), "status%d", WEXITSTATUS (st)) ;
			printf ("p fmt=%08x ch=%d sr=%d chk=%d DIED stage=%s how=%s\n", (unsigned) f, c, s, progress->chk, stage_name [progress->stage], how) ;
			empty_dir (tmp_dir) ;
			start = progress->point + 1 ;
			}
		}
	fflush (stdout) ;
}

static int
list_of (int cnt_cmd, int get_cmd, int *out, int max)
{	int count = 0, k, n = 0 ; SF_FORMAT_INFO fi ;
	sf_command (NULL, cnt_cmd, &count, sizeof (count)) ;
	for (k = 0 ; k < count && n < max ; k++)
	{	memset (&fi, 0, sizeof (fi)) ; fi.format = k ;
		if (sf_command (NULL, get_cmd, &fi, sizeof (fi)) == 0)
			out [n ++] = fi.format ;
		}
	return n ;
}

/* error numbers are internal (common.h) and may be renumbered; the model's lines quote them, so they
** are read from the library that is running: each is provoked through the public API. */
static int
provoke (int format, int channels, int samplerate)
{	SF_INFO info ; SNDFILE *sf ;
	memset (&info, 0, sizeof (info)) ;
	info.format = format ; info.channels = channels ; info.samplerate = samplerate ;
	gstore.len = 0 ; gstore.pos = 0 ;
	sf = sf_open_virtual (&mem_vio, SFM_WRITE, &info, &gstore) ;
	if (sf != NULL) { sf_close (sf) ; return 0 ; }
	return sf_error (NULL) ;
}

static int
consts (void)
{	printf ("const zero_major %d\n", provoke (SF_FORMAT_PCM_16, 1, 8000)) ;
	printf ("const zero_minor %d\n", provoke (SF_FORMAT_WAV, 1, 8000)) ;
	printf ("const bad_open_format %d\n", provoke (SF_FORMAT_WAV | SF_FORMAT_DPCM_8, 1, 8000)) ;
	printf ("const bad_sf_info %d\n", provoke (SF_FORMAT_WAV | SF_FORMAT_PCM_16, 1, 0)) ;
	return 0 ;
}

/* sf_format_check alone over EVERY channel count -1 .. 1026 (rate 8000): one line per format word,
** a string of 0/1.  No file is opened, so this is cheap enough to be complete. */
static int
fcheck_sweep (void)
{	int majors [128], subs [128], nm, ns, i, j, e, ch ;
	SF_INFO info ;
	nm = list_of (SFC_GET_FORMAT_MAJOR_COUNT, SFC_GET_FORMAT_MAJOR, majors, 128) ;
	ns = list_of (SFC_GET_FORMAT_SUBTYPE_COUNT, SFC_GET_FORMAT_SUBTYPE, subs, 128) ;
	for (i = 0 ; i < nm ; i++)
		for (j = 0 ; j < ns ; j++)
			for (e = 0 ; e < N_END ; e++)
			{	printf ("f fmt=%08x sr=8000 ch=-1..1026 ", (unsigned) (majors [i] | subs [j] | endians [e])) ;
				for (ch = -1 ; ch <= 1026 ; ch++)
				{	memset (&info, 0, sizeof (info)) ;
					info.format = majors [i] | subs [j] | endians [e] ; info.channels = ch ; info.samplerate = 8000 ;
					putchar (sf_format_check (&info) ? '1' : '0') ;
					}
				putchar ('\n') ;
				}
	return 0 ;
}

int
grid_c10 (int argc, char **argv)
{	int majors [128], subs [128], nm, ns, k = 0, n = 1, i, j ;
	long pair = 0 ;

	progress = mmap (NULL, sizeof (PROGRESS), PROT_READ | PROT_WRITE, MAP_SHARED | MAP_ANONYMOUS, -1, 0) ;
	if (progress == MAP_FAILED) { perror ("mmap") ; return 9 ; }
	setvbuf (stdout, NULL, _IOFBF, 1 << 16) ;
	tmp_setup () ;
	atexit (tmp_remove) ;

	if (argc >= 1 && !strcmp (argv [0], "consts"))
		return consts () ;
	if (argc >= 1 && !strcmp (argv [0], "fcheck"))
		return fcheck_sweep () ;
	if (argc >= 4 && !strcmp (argv [0], "point"))
	{	/* one point, forked like the rest so that a death is a line */
		int f = (int) strtoul (argv [1], NULL, 16), c = atoi (argv [2]), s = atoi (argv [3]) ;
		pid_t pid ; int st = 0 ;
		progress->stage = ST_OPEN ; progress->chk = -1 ;
		fflush (stdout) ;
		pid = fork () ;
		if (pid == 0)
		{	signal (SIGALRM, on_alarm_c10) ;
			run_point (f, c, s) ; fflush (stdout) ; SFH_EXIT (0) ;
			}
		waitpid (pid, &st, 0) ;
		if (! (WIFEXITED (st) && WEXITSTATUS (st) == 0))
		{	char how [64] ;
			if (WIFSIGNALED (st)) snprintf (how, sizeof (how), "signal%d", WTERMSIG (st)) ;
			else if (WEXITSTATUS (st) == 3) snprintf (how, sizeof (how), "timeout") ;
			else snprintf (how, sizeof (how), "status%d", WEXITSTATUS (st)) ;
			printf ("p fmt=%08x ch=%d sr=%d chk=%d DIED stage=%s how=%s\n", (unsigned) f, c, s, progress->chk, stage_name [progress->stage], how) ;
			}
		return 0 ;
		}
	if (argc >= 1 && sscanf (argv [0], "%d/%d", &k, &n) != 2)
	{	fprintf (stderr, "sfh grid c10 [k/n] | point <fmt-hex> <ch> <sr> | consts\n") ;
		return 2 ;
		}
	if (n < 1) n = 1 ;
	nm = list_of (SFC_GET_FORMAT_MAJOR_COUNT, SFC_GET_FORMAT_MAJOR, majors, 128) ;
	ns = list_of (SFC_GET_FORMAT_SUBTYPE_COUNT, SFC_GET_FORMAT_SUBTYPE, subs, 128) ;
	printf ("grid majors=%d subtypes=%d endians=%d channels=%d rates=%d slice=%d/%d\n", nm, ns, N_END, N_CH, N_SR, k, n) ;
	for (i = 0 ; i < nm ; i++)
		for (j = 0 ; j < ns ; j++, pair++)
			if (pair % n == k)
				run_slice (majors [i] | subs [j]) ;
	printf ("grid end\n") ;
	fflush (stdout) ;
	return 0 ;
}
