/* static tables obtained from the running library (extraction by execution) */
#include "sfh.h"

static void
put_cstr (const char *s)
{	if (s == NULL) { printf ("null") ; return ; }
	puthex ((const unsigned char *) s, strlen (s)) ;
}

static int
table_errors (int lo, int hi)
{	int k ;
	for (k = lo ; k <= hi ; k++)
	{	const char *m = sf_error_number (k) ;	/* the library itself prints a line for invalid numbers: keep it off ours */
		fflush (stdout) ;
		printf ("%d ", k) ;
		put_cstr (m) ;
		printf ("\n") ;
		}
	return 0 ;
}

static int
table_formats (void)
{	SF_FORMAT_INFO fi ;
	int count, k, r ;
	const int cnt_cmd [3] = { SFC_GET_SIMPLE_FORMAT_COUNT, SFC_GET_FORMAT_MAJOR_COUNT, SFC_GET_FORMAT_SUBTYPE_COUNT } ;
	const int get_cmd [3] = { SFC_GET_SIMPLE_FORMAT, SFC_GET_FORMAT_MAJOR, SFC_GET_FORMAT_SUBTYPE } ;
	const char *nm [3] = { "simple", "major", "subtype" } ;
	int t ;
	for (t = 0 ; t < 3 ; t++)
	{	count = -1 ;
		r = sf_command (NULL, cnt_cmd [t], &count, sizeof (count)) ;
		printf ("%s count=%d ret=%d\n", nm [t], count, r) ;
		for (k = -1 ; k <= count + 1 ; k++)
		{	memset (&fi, 0, sizeof (fi)) ;
			fi.format = k ;
			r = sf_command (NULL, get_cmd [t], &fi, sizeof (fi)) ;
			printf ("%s %d ret=%d fmt=%08x name=", nm [t], k, r, fi.format) ;
			put_cstr (r == 0 ? fi.name : NULL) ;
			printf (" ext=") ;
			put_cstr (r == 0 ? fi.extension : NULL) ;
			printf ("\n") ;
			}
		}
	return 0 ;
}

static int
table_formatinfo (void)
{	/* SFC_GET_FORMAT_INFO for every major and subtype code 0..0xff (x 0x10000 for majors) */
	SF_FORMAT_INFO fi ; int k, r ;
	for (k = 0 ; k <= 0xff ; k++)
	{	memset (&fi, 0, sizeof (fi)) ; fi.format = k << 16 ;
		r = sf_command (NULL, SFC_GET_FORMAT_INFO, &fi, sizeof (fi)) ;
		if (r == 0) { printf ("major %06x name=", k << 16) ; put_cstr (fi.name) ; printf ("\n") ; }
		}
	for (k = 0 ; k <= 0xff ; k++)
	{	memset (&fi, 0, sizeof (fi)) ; fi.format = k ;
		r = sf_command (NULL, SFC_GET_FORMAT_INFO, &fi, sizeof (fi)) ;
		if (r == 0) { printf ("subtype %04x name=", k) ; put_cstr (fi.name) ; printf ("\n") ; }
		}
	return 0 ;
}

int
cmd_table (int argc, char **argv)
{	if (argc < 1) return 2 ;
	if (!strcmp (argv [0], "errors"))
		return table_errors (argc > 1 ? atoi (argv [1]) : -2, argc > 2 ? atoi (argv [2]) : 250) ;
	if (!strcmp (argv [0], "formats"))
		return table_formats () ;
	if (!strcmp (argv [0], "formatinfo"))
		return table_formatinfo () ;
	fprintf (stderr, "sfh table: unknown table %s\n", argv [0]) ;
	return 2 ;
}

int
cmd_grid (int argc, char **argv)
{	if (argc >= 1 && !strcmp (argv [0], "c10"))
		return grid_c10 (argc - 1, argv + 1) ;
	if (argc >= 1 && !strcmp (argv [0], "c17"))
		return grid_c17 (argc - 1, argv + 1) ;
	fprintf (stderr, "sfh grid: unknown grid\n") ;
	return 2 ;
}
