/* sfh ops for C13 (custom chunks):
**
**   chunkdata hN [buflen]          size + data of the chunk the handle's iterator points at.  The data call gets a
**                                  heap block of exactly buflen bytes (default: the reported size, capped at 1 MiB)
**                                  pre-filled with 0xA5, so ASan sees any byte copied past datalen and the
**                                  transcript shows which bytes were touched.
**   chunkall hN <idhex|null> [buflen]   sf_get_chunk_iterator, then chunkdata + sf_next_chunk_iterator until NULL.
**                                  Prints "it=<0|1>", one "c ..." line per visited chunk, then "end n=<visited>".
**                                  Stops after 100000 entries (an iterator that never ends is reported as "end n=-1").
*/
#include "sfh.h"

#define DATA_CAP	(1 << 20)

static void
one_chunk (SF_CHUNK_ITERATOR *it, long want)
{	SF_CHUNK_INFO ci ;
	int r1, r2 ;
	unsigned reported ;
	size_t buflen ;
	memset (&ci, 0, sizeof (ci)) ;
	r1 = sf_get_chunk_size (it, &ci) ;
	reported = ci.datalen ;
	buflen = want >= 0 ? (size_t) want : (reported > DATA_CAP ? 64 : reported) ;
	ci.datalen = (unsigned) buflen ;
	ci.data = malloc (buflen ? buflen : 1) ;
	memset (ci.data, 0xA5, buflen ? buflen : 1) ;
	memset (ci.id, 0, sizeof (ci.id)) ;
	ci.id_size = 0 ;
	r2 = sf_get_chunk_data (it, &ci) ;
	printf ("size_ret=%d size=%u data_ret=%d id=", r1, reported, r2) ;
	puthex ((unsigned char *) ci.id, ci.id_size < sizeof (ci.id) ? ci.id_size : sizeof (ci.id)) ;
	printf (" buflen=%lu data=", (unsigned long) buflen) ;
	puthex (ci.data, buflen) ;
	printf ("\n") ;
	free (ci.data) ;
}

void
op_chunks (char **tok, int ntok)
{	SNDFILE *sf = sfh_handle_sf (tok [1]) ;
	SF_CHUNK_ITERATOR **pit = sfh_handle_it (tok [1]) ;
	if (pit == NULL) { printf ("bad-op\n") ; return ; }
	if (!strcmp (tok [0], "chunkdata"))
	{	if (*pit == NULL) { printf ("it=0\n") ; return ; }
		one_chunk (*pit, ntok > 2 ? atol (tok [2]) : -1) ;
		return ;
		}
	/* chunkall */
	{	SF_CHUNK_ITERATOR *it ;
		long want = ntok > 3 ? atol (tok [3]) : -1 ;
		int n = 0 ;
		if (ntok > 2 && strcmp (tok [2], "null"))
		{	SF_CHUNK_INFO ci ; size_t idlen ; unsigned char *id = unhex (tok [2], &idlen) ;
			memset (&ci, 0, sizeof (ci)) ;
			if (idlen > sizeof (ci.id) - 1) idlen = sizeof (ci.id) - 1 ;
			memcpy (ci.id, id, idlen) ; ci.id_size = idlen ;
			it = sf_get_chunk_iterator (sf, &ci) ;
			free (id) ;
			}
		else
			it = sf_get_chunk_iterator (sf, NULL) ;
		printf ("it=%d err=%d\n", it != NULL, sf_error (sf)) ;
		while (it != NULL)
		{	printf ("c ") ;
			one_chunk (it, want) ;
			n ++ ;
			if (n >= 100000) { n = -1 ; break ; }
			it = sf_next_chunk_iterator (it) ;
			}
		*pit = NULL ;
		printf ("end n=%d\n", n) ;
		}
}
