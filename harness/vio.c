/* memory-backed SF_VIRTUAL_IO with fault injection */
#include "sfh.h"

STORE stores [MAX_STORES] ;
FAULT fault ;

STORE *
store_get (const char *name)
{	int k ;
	if (name [0] != 's')
		return NULL ;
	k = atoi (name + 1) ;
	if (k < 0 || k >= MAX_STORES)
		return NULL ;
	stores [k].in_use = 1 ;
	return &stores [k] ;
}

void
store_reserve (STORE *s, sf_count_t cap)
{	if (cap <= s->cap)
		return ;
	sf_count_t ncap = s->cap ? s->cap : 4096 ;
	while (ncap < cap)
		ncap *= 2 ;
	s->buf = realloc (s->buf, ncap) ;
	if (s->buf == NULL)
	{	fprintf (stderr, "sfh: out of memory\n") ;
		exit (9) ;
		}
	memset (s->buf + s->cap, 0, ncap - s->cap) ;
	s->cap = ncap ;
}

void
store_set (STORE *s, const unsigned char *data, sf_count_t len)
{	store_reserve (s, len) ;
	if (len > 0)
		memcpy (s->buf, data, len) ;
	s->len = len ;
	s->pos = 0 ;
}

static int
fault_now (void)
{	fault.calls ++ ;
	if (fault.at == 0 || fault.kind == FK_NONE)
		return 0 ;
	if (fault.single ? fault.calls == fault.at : fault.calls >= fault.at)
		return 1 ;
	return 0 ;
}

static sf_count_t
vio_len (void *ud)
{	STORE *s = ud ;
	if (fault_now ())
	{	if (fault.kind == FK_LENBIG)
		{	fault.fired ++ ;
			return s->len + 1000 ;
			}
		if (fault.kind == FK_LENSMALL || fault.kind == FK_ALL)
		{	fault.fired ++ ;
			return s->len / 2 ;
			}
		}
	return s->len ;
}

static sf_count_t
vio_seek (sf_count_t offset, int whence, void *ud)
{	STORE *s = ud ;
	sf_count_t np ;
	if (fault_now () && (fault.kind == FK_SEEKFAIL || fault.kind == FK_ALL))
	{	fault.fired ++ ;
		return -1 ;
		}
	switch (whence)
	{	case SEEK_SET : np = offset ; break ;
		case SEEK_CUR : np = s->pos + offset ; break ;
		case SEEK_END : np = s->len + offset ; break ;
		default : return -1 ;
		}
	if (np < 0)
		return -1 ;
	s->pos = np ;
	return s->pos ;
}

static sf_count_t
shorten (sf_count_t count)
{	switch (fault.kind)
	{	case FK_ZERO : case FK_ALL : fault.fired ++ ; return 0 ;
		case FK_SHORT : if (count > 0) { fault.fired ++ ; return count / 2 ; } return count ;
		case FK_SHORT1 : if (count > 0) { fault.fired ++ ; return count - 1 ; } return count ;
		default : return count ;
		}
}

static sf_count_t
vio_read (void *ptr, sf_count_t count, void *ud)
{	STORE *s = ud ;
	if (fault_now ())
		count = shorten (count) ;
	if (count < 0)
		return 0 ;
	if (s->pos >= s->len)
		return 0 ;
	if (s->pos + count > s->len)
		count = s->len - s->pos ;
	memcpy (ptr, s->buf + s->pos, count) ;
	s->pos += count ;
	return count ;
}

static sf_count_t
vio_write (const void *ptr, sf_count_t count, void *ud)
{	STORE *s = ud ;
	if (fault_now ())
		count = shorten (count) ;
	if (count <= 0)
		return 0 ;
	store_reserve (s, s->pos + count) ;
	if (s->pos > s->len)
		memset (s->buf + s->len, 0, s->pos - s->len) ;
	memcpy (s->buf + s->pos, ptr, count) ;
	s->pos += count ;
	if (s->pos > s->len)
		s->len = s->pos ;
	return count ;
}

static sf_count_t
vio_tell (void *ud)
{	STORE *s = ud ;
	if (fault_now () && fault.kind == FK_TELLBAD)
	{	fault.fired ++ ;
		return s->pos + 7 ;
		}
	return s->pos ;
}

SF_VIRTUAL_IO mem_vio = { vio_len, vio_seek, vio_read, vio_write, vio_tell } ;
