/* sfh ops for the public error / sync API no campaign called (round 9 covgap; C09, vlib/c09errapi.py):
**
**   perror hN|null          sf_perror with stderr captured      -> ret=<r> err=<sf_error after> out=<hex of what reached stderr>
**   errstr hN|null <len> [nullbuf]
**                           sf_error_str (sf, buf, len), twice: on a heap block of EXACTLY len bytes (ASan sees a write past it) and on
**                           a block with a 32-byte guard band behind the len bytes (filled 0xA5)
**                                                           -> ret=<r> err=<sf_error after> same=<0|1> buf=<hex of len + 32 bytes>
**   wsync hN|null           sf_write_sync                       -> ret=void err=<sf_error after>
*/
#include "sfh.h"
#include <unistd.h>
#include <fcntl.h>

#define GUARD_BAND 32

static SNDFILE *
sf_of (const char *name)
{	return strcmp (name, "null") ? sfh_handle_sf (name) : NULL ;
}

void
op_errapi (char **tok, int ntok)
{	SNDFILE *sf ;
	if (ntok < 2) { printf ("bad-op\n") ; return ; }
	sf = sf_of (tok [1]) ;
	if (strcmp (tok [1], "null") && sf == NULL) { printf ("bad-op\n") ; return ; }	/* a closed (stale) handle is never used */

	if (!strcmp (tok [0], "wsync"))
	{	sf_write_sync (sf) ;
		printf ("ret=void err=%d\n", sf_error (sf)) ;
		}
	else if (!strcmp (tok [0], "perror"))
	{	int pfd [2], saved, ret ;
		unsigned char out [8192] ; ssize_t n = 0, r ;
		fflush (stderr) ;
		if (pipe (pfd) != 0) { printf ("bad-op\n") ; return ; }
		fcntl (pfd [0], F_SETFL, O_NONBLOCK) ;
		saved = dup (2) ;
		dup2 (pfd [1], 2) ;
		ret = sf_perror (sf) ;
		fflush (stderr) ;
		dup2 (saved, 2) ;
		close (saved) ;
		close (pfd [1]) ;
		while (n < (ssize_t) sizeof (out) && (r = read (pfd [0], out + n, sizeof (out) - n)) > 0) n += r ;
		close (pfd [0]) ;
		printf ("ret=%d err=%d out=", ret, sf_error (sf)) ;
		puthex (out, n) ;
		printf ("\n") ;
		}
	else if (!strcmp (tok [0], "errstr") && ntok >= 3)
	{	long len = atol (tok [2]) ;
		int ret, ret2, same ;
		unsigned char *exact, *banded ;
		if (len < 0 || len > (1 << 20)) { printf ("bad-op\n") ; return ; }
		if (ntok > 3 && !strcmp (tok [3], "nullbuf"))
		{	ret = sf_error_str (sf, NULL, len) ;
			printf ("ret=%d err=%d same=1 buf=null\n", ret, sf_error (sf)) ;
			return ;
			}
		exact = malloc (len ? len : 1) ;
		memset (exact, 0xA5, len ? len : 1) ;
		banded = malloc (len + GUARD_BAND) ;
		memset (banded, 0xA5, len + GUARD_BAND) ;
		/* with len == 0 the exact block is one untouchable byte: hand over its END so that any write is past the block */
		ret = sf_error_str (sf, (char *) (len ? exact : exact + 1), len) ;
		ret2 = sf_error_str (sf, (char *) banded, len) ;
		same = ret == ret2 && (len == 0 ? exact [0] == 0xA5 : !memcmp (exact, banded, len)) ;
		printf ("ret=%d err=%d same=%d buf=", ret, sf_error (sf), same) ;
		puthex (banded, len + GUARD_BAND) ;
		printf ("\n") ;
		free (exact) ;
		free (banded) ;
		}
	else
		printf ("bad-op\n") ;
} /* op_errapi */
