/* sfh ops for the "interleaved non-audio calls do not move the audio position" class (C05 / C06 / C08, vlib/querycamp.py):
**
**   byterate hN           sf_current_byterate           -> ret=<n> err=<sf_error>
**   fdpos hN              the position of the handle's I/O (psf_ftell, the offset the next plain read / write of the codec
**                         would use) -> pos=<n>.  Informational: the verdict is taken from the audio the next call delivers.
*/
#include "sfh.h"
#include "common.h"

void
op_query (char **tok, int ntok)
{	SNDFILE *sf = ntok >= 2 ? sfh_handle_sf (tok [1]) : NULL ;
	if (sf == NULL)
	{	printf ("bad-op\n") ;
		return ;
		} ;
	if (!strcmp (tok [0], "byterate"))
		printf ("ret=%d err=%d\n", sf_current_byterate (sf), sf_error (sf)) ;
	else
		printf ("pos=%lld\n", (long long) psf_ftell ((SF_PRIVATE *) sf)) ;
} /* op_query */
