/* C20 (IEEE serialisers, byte-order helpers): `sfh ieee <routine> [rand <seed> <count>]`
**
** Calls the eight portable routines of float32.c / double64.c and the helpers of sfendian.h directly.  On a
** little-endian IEEE host the public API reaches only float32_le_* / double64_le_* (SFC_TEST_IEEE_FLOAT_REPLACE),
** the *_be_* routines only serialise header fields (PEAK values, sample rates) whose sign is never negative, so the
** full domain of those routines can only be driven from here.  sfendian.h is the tree's own header (-I <repo>/src).
**
** Without `rand`: every stdin line holds fixed-width hex items, one output line of fixed-width hex results per
** input line (same text protocol as `sfmodel ieee <routine>`).
** With `rand`: <count> patterns from a xorshift generator, stratified by exponent field (item i has exponent field
** i mod 256 / i mod 2048, sign and mantissa random, every 16th item has a mantissa of the form 0…0, 1…1, or a single
** bit); printed as alternating lines `in <items>` / `out <results>`, 4096 items per line.
*/
#include "sfh.h"
#include "sfconfig.h"
#include "common.h"
#include "sfendian.h"

typedef struct
{	const char *name ;
	int in_digits ;
	int kind ;
} ROUTINE ;

enum
{	K_F32_BE_READ, K_F32_LE_READ, K_F32_BE_WRITE, K_F32_LE_WRITE,
	K_F64_BE_READ, K_F64_LE_READ, K_F64_BE_WRITE, K_F64_LE_WRITE,
	K_SWAP16, K_SWAP16C, K_SWAP32, K_SWAP32C, K_SWAP64, K_SWAP64C,
	K_PUT_BE16, K_PUT_BE32, K_PUT_BE64,
	K_GET_BE16, K_GET_BE24, K_GET_LE24, K_GET_BE32, K_GET_LE32, K_GET_BE64, K_GET_LE64
} ;

static const ROUTINE routines [] =
{	{ "f32-be-read", 8, K_F32_BE_READ }, { "f32-le-read", 8, K_F32_LE_READ },
	{ "f32-be-write", 8, K_F32_BE_WRITE }, { "f32-le-write", 8, K_F32_LE_WRITE },
	{ "f64-be-read", 16, K_F64_BE_READ }, { "f64-le-read", 16, K_F64_LE_READ },
	{ "f64-be-write", 16, K_F64_BE_WRITE }, { "f64-le-write", 16, K_F64_LE_WRITE },
	{ "swap16", 4, K_SWAP16 }, { "swap16c", 4, K_SWAP16C }, { "swap32", 8, K_SWAP32 }, { "swap32c", 8, K_SWAP32C },
	{ "swap64", 16, K_SWAP64 }, { "swap64c", 16, K_SWAP64C },
	{ "put-be16", 4, K_PUT_BE16 }, { "put-be32", 8, K_PUT_BE32 }, { "put-be64", 16, K_PUT_BE64 },
	{ "get-be16", 4, K_GET_BE16 }, { "get-be24", 6, K_GET_BE24 }, { "get-le24", 6, K_GET_LE24 },
	{ "get-be32", 8, K_GET_BE32 }, { "get-le32", 8, K_GET_LE32 }, { "get-be64", 16, K_GET_BE64 }, { "get-le64", 16, K_GET_LE64 },
	{ NULL, 0, 0 }
} ;

static void
put_u (uint64_t v, int digits)
{	static const char hx [] = "0123456789abcdef" ;
	char buf [17] ; int k ;
	for (k = digits - 1 ; k >= 0 ; k--) { buf [k] = hx [v & 15] ; v >>= 4 ; }
	fwrite (buf, 1, digits, stdout) ;
}

/* one item: `v` holds the item's hex digits as a big-endian number; memory bytes are those digits in order */
static void
one (int kind, uint64_t v)
{	unsigned char b [8], o [8] ;
	int k ;
	switch (kind)
	{	case K_F32_BE_READ : case K_F32_LE_READ :
		{	float f ; uint32_t u ;
			for (k = 0 ; k < 4 ; k++) b [k] = (unsigned char) (v >> (8 * (3 - k))) ;
			f = (kind == K_F32_BE_READ) ? float32_be_read (b) : float32_le_read (b) ;
			memcpy (&u, &f, 4) ; put_u (u, 8) ;
			} break ;
		case K_F32_BE_WRITE : case K_F32_LE_WRITE :
		{	float f ; uint32_t u = (uint32_t) v ;
			memcpy (&f, &u, 4) ; memset (o, 0xA5, sizeof (o)) ;
			if (kind == K_F32_BE_WRITE) float32_be_write (f, o) ; else float32_le_write (f, o) ;
			for (k = 0 ; k < 4 ; k++) put_u (o [k], 2) ;
			} break ;
		case K_F64_BE_READ : case K_F64_LE_READ :
		{	double d ; uint64_t u ;
			for (k = 0 ; k < 8 ; k++) b [k] = (unsigned char) (v >> (8 * (7 - k))) ;
			d = (kind == K_F64_BE_READ) ? double64_be_read (b) : double64_le_read (b) ;
			memcpy (&u, &d, 8) ; put_u (u, 16) ;
			} break ;
		case K_F64_BE_WRITE : case K_F64_LE_WRITE :
		{	double d ; uint64_t u = v ;
			memcpy (&d, &u, 8) ; memset (o, 0xA5, sizeof (o)) ;
			if (kind == K_F64_BE_WRITE) double64_be_write (d, o) ; else double64_le_write (d, o) ;
			for (k = 0 ; k < 8 ; k++) put_u (o [k], 2) ;
			} break ;
		case K_SWAP16 : { short s = (short) (uint16_t) v ; endswap_short_array (&s, 1) ; put_u ((uint16_t) s, 4) ; } break ;
		case K_SWAP16C : { short s = (short) (uint16_t) v, d = 0 ; endswap_short_copy (&d, &s, 1) ; put_u ((uint16_t) d, 4) ; } break ;
		case K_SWAP32 : { int s = (int) (uint32_t) v ; endswap_int_array (&s, 1) ; put_u ((uint32_t) s, 8) ; } break ;
		case K_SWAP32C : { int s = (int) (uint32_t) v, d = 0 ; endswap_int_copy (&d, &s, 1) ; put_u ((uint32_t) d, 8) ; } break ;
		case K_SWAP64 : { int64_t s = (int64_t) v ; endswap_int64_t_array (&s, 1) ; put_u ((uint64_t) s, 16) ; } break ;
		case K_SWAP64C : { int64_t s = (int64_t) v, d = 0 ; endswap_int64_t_copy (&d, &s, 1) ; put_u ((uint64_t) d, 16) ; } break ;
		case K_PUT_BE16 : memset (o, 0xA5, 8) ; psf_put_be16 (o, 0, (int16_t) (uint16_t) v) ; for (k = 0 ; k < 2 ; k++) put_u (o [k], 2) ; break ;
		case K_PUT_BE32 : memset (o, 0xA5, 8) ; psf_put_be32 (o, 0, (int32_t) (uint32_t) v) ; for (k = 0 ; k < 4 ; k++) put_u (o [k], 2) ; break ;
		case K_PUT_BE64 : memset (o, 0xA5, 8) ; psf_put_be64 (o, 0, (int64_t) v) ; for (k = 0 ; k < 8 ; k++) put_u (o [k], 2) ; break ;
		case K_GET_BE16 :
			for (k = 0 ; k < 2 ; k++) b [k] = (unsigned char) (v >> (8 * (1 - k))) ;
			put_u ((uint16_t) psf_get_be16 (b, 0), 4) ; break ;
		case K_GET_BE24 : case K_GET_LE24 :
			for (k = 0 ; k < 3 ; k++) b [k] = (unsigned char) (v >> (8 * (2 - k))) ;
			put_u ((uint32_t) (kind == K_GET_BE24 ? psf_get_be24 (b, 0) : psf_get_le24 (b, 0)), 8) ; break ;
		case K_GET_BE32 : case K_GET_LE32 :
			for (k = 0 ; k < 4 ; k++) b [k] = (unsigned char) (v >> (8 * (3 - k))) ;
			put_u ((uint32_t) (kind == K_GET_BE32 ? psf_get_be32 (b, 0) : psf_get_le32 (b, 0)), 8) ; break ;
		case K_GET_BE64 : case K_GET_LE64 :
			for (k = 0 ; k < 8 ; k++) b [k] = (unsigned char) (v >> (8 * (7 - k))) ;
			put_u ((uint64_t) (kind == K_GET_BE64 ? psf_get_be64 (b, 0) : psf_get_le64 (b, 0)), 16) ; break ;
		}
}

static uint64_t rng_state ;
static uint64_t
rng_next (void)
{	uint64_t x = rng_state ;
	x ^= x << 13 ; x ^= x >> 7 ; x ^= x << 17 ;
	return rng_state = x ;
}

/* pattern i of a stream: exponent field swept, sign and mantissa random; every 16th mantissa structured */
static uint64_t
pattern (const ROUTINE *r, uint64_t i)
{	uint64_t x = rng_next (), m ;
	int fbits, ebits ;
	if (r->kind > K_F64_LE_WRITE)
		return r->in_digits == 16 ? x : x & ((1ULL << (4 * r->in_digits)) - 1) ;
	fbits = (r->in_digits == 8) ? 23 : 52 ;
	ebits = (r->in_digits == 8) ? 8 : 11 ;
	m = x & ((1ULL << fbits) - 1) ;
	if ((i >> ebits) % 16 == 15)
	{	int sel = (x >> 56) & 3, pos = (x >> 58) % fbits ;
		if (sel == 0) m = 0 ;
		else if (sel == 1) m = (1ULL << fbits) - 1 ;
		else if (sel == 2) m = 1ULL << pos ;
		else m = ((1ULL << fbits) - 1) ^ (1ULL << pos) ;
		}
	x = (((x >> 63) & 1) << (fbits + ebits)) | ((i & ((1ULL << ebits) - 1)) << fbits) | m ;
	if (r->kind == K_F32_BE_READ || r->kind == K_F64_BE_READ)
		return x ;			/* item = memory bytes, most significant first */
	if (r->kind == K_F32_LE_READ)
		return (uint64_t) ENDSWAP_32 ((uint32_t) x) ;
	if (r->kind == K_F64_LE_READ)
		return (uint64_t) ENDSWAP_64 (x) ;
	return x ;
}

int
cmd_ieee (int argc, char **argv)
{	const ROUTINE *r ;
	if (argc < 1)
	{	fprintf (stderr, "usage: sfh ieee <routine> [rand <seed> <count>]\n") ; return 2 ; }
	for (r = routines ; r->name ; r++)
		if (!strcmp (r->name, argv [0])) break ;
	if (! r->name)
	{	fprintf (stderr, "sfh ieee: unknown routine %s\n", argv [0]) ; return 2 ; }
	setvbuf (stdout, NULL, _IOFBF, 1 << 16) ;
	if (argc >= 4 && !strcmp (argv [1], "rand"))
	{	uint64_t count = strtoull (argv [3], NULL, 10), i = 0 ;
		static uint64_t items [4096] ;
		rng_state = strtoull (argv [2], NULL, 10) * 0x9E3779B97F4A7C15ULL + 0x1234567 ;
		if (rng_state == 0) rng_state = 1 ;
		while (i < count)
		{	uint64_t n = count - i < 4096 ? count - i : 4096, k ;
			for (k = 0 ; k < n ; k++) items [k] = pattern (r, i + k) ;
			fputs ("in ", stdout) ;
			for (k = 0 ; k < n ; k++) put_u (items [k], r->in_digits) ;
			fputs ("\nout ", stdout) ;
			for (k = 0 ; k < n ; k++) one (r->kind, items [k]) ;
			fputc ('\n', stdout) ;
			i += n ;
			}
		return 0 ;
		}
	{	char *line = NULL ; size_t cap = 0 ; ssize_t len ;
		while ((len = getline (&line, &cap, stdin)) > 0)
		{	ssize_t p = 0 ;
			while (len > 0 && (line [len - 1] == '\n' || line [len - 1] == '\r')) len-- ;
			while (p + r->in_digits <= len)
			{	uint64_t v = 0 ; int k ;
				for (k = 0 ; k < r->in_digits ; k++) v = (v << 4) | (uint64_t) hexval (line [p + k]) ;
				one (r->kind, v) ;
				p += r->in_digits ;
				}
			fputc ('\n', stdout) ;
			}
		free (line) ;
		}
	return 0 ;
}
