/* sfh: runs operation scripts against the real libsndfile and prints a canonical transcript.
**
** One operation per input line, one transcript line per operation.  Sample data travel as hex of
** the exact bit patterns in *host* order (little endian on this platform, each item written as a
** fixed-width big-endian hex number so it is readable: s16 -> 4 digits, s32/f32 -> 8, f64 -> 16).
*/
#include "sfh.h"
#include <time.h>
#include <sys/time.h>

/* ---- pinned clock: PEAK chunk timestamps and date strings become comparable ------------------- */
time_t time (time_t *t)
{	time_t v = 1000000000 ;
	if (t) *t = v ;
	return v ;
}

/* ---- small helpers -------------------------------------------------------------------------- */
int
hexval (int c)
{	if (c >= '0' && c <= '9') return c - '0' ;
	if (c >= 'a' && c <= 'f') return c - 'a' + 10 ;
	if (c >= 'A' && c <= 'F') return c - 'A' + 10 ;
	return -1 ;
}

unsigned char *
unhex (const char *s, size_t *outlen)
{	size_t n = strlen (s) / 2, k ;
	unsigned char *p = malloc (n ? n : 1) ;
	for (k = 0 ; k < n ; k++)
		p [k] = (unsigned char) ((hexval (s [2 * k]) << 4) | hexval (s [2 * k + 1])) ;
	*outlen = n ;
	return p ;
}

void
puthex (const unsigned char *p, size_t n)
{	static const char d [] = "0123456789abcdef" ;
	size_t k ;
	for (k = 0 ; k < n ; k++)
	{	putchar (d [p [k] >> 4]) ;
		putchar (d [p [k] & 15]) ;
		}
}

typedef struct
{	SNDFILE *sf ;
	SF_INFO info ;
	int ch ;			/* channels as seen after open */
	int fd ;			/* descriptor we own (fd routes), or -1 */
	char path [512] ;	/* temp path (path/fd routes): scratch directory + a base name of up to 255 characters */
	STORE *store ;		/* backing store for vio; for path/fd routes: where bytes are copied back on close */
	SF_CHUNK_ITERATOR *it ;
	void **chunk_data ;	/* payloads handed to sf_set_chunk must stay valid until close */
	int n_chunk_data ;
	int stdio_saved ;	/* route stdio (sf_open ("-")): read: 1 + the copy of the harness's own descriptor 0 to put back at close; write: -1; 0 = none */
} HANDLE ;

static HANDLE handles [MAX_HANDLES] ;
static char scratch_dir [200] ;
static int op_timeout = 10 ;

static HANDLE *
handle_get (const char *name)
{	int k ;
	if (name [0] != 'h') return NULL ;
	k = atoi (name + 1) ;
	if (k < 0 || k >= MAX_HANDLES) return NULL ;
	return &handles [k] ;
}

static int
ty_width (const char *ty)
{	if (!strcmp (ty, "s16")) return 2 ;
	if (!strcmp (ty, "s32")) return 4 ;
	if (!strcmp (ty, "f32")) return 4 ;
	if (!strcmp (ty, "f64")) return 8 ;
	return 0 ;
}

/* items are printed as big-endian hex of the host-order value */
static void
put_items (const unsigned char *p, size_t items, int width)
{	size_t k ; int b ;
	static const char d [] = "0123456789abcdef" ;
	for (k = 0 ; k < items ; k++)
		for (b = width - 1 ; b >= 0 ; b--)
		{	unsigned char c = p [k * width + b] ;
			putchar (d [c >> 4]) ;
			putchar (d [c & 15]) ;
			}
}

static unsigned char *
get_items (const char *hex, size_t *items, int width)
{	size_t n = strlen (hex) / (2 * width), k ; int b ;
	unsigned char *p = malloc (n * width ? n * width : 1) ;
	for (k = 0 ; k < n ; k++)
		for (b = width - 1 ; b >= 0 ; b--)
		{	const char *q = hex + (k * width + (width - 1 - b)) * 2 ;
			p [k * width + b] = (unsigned char) ((hexval (q [0]) << 4) | hexval (q [1])) ;
			}
	*items = n ;
	return p ;
}

static const char *
kv (char **tok, int ntok, const char *key)
{	size_t kl = strlen (key) ; int k ;
	for (k = 0 ; k < ntok ; k++)
		if (!strncmp (tok [k], key, kl) && tok [k][kl] == '=')
			return tok [k] + kl + 1 ;
	return NULL ;
}

static void
on_alarm (int sig)
{	static const char msg [] = "\nTIMEOUT\n" ;
	(void) sig ;
	fflush (stdout) ;
	if (write (1, msg, sizeof (msg) - 1) < 0) { }
	SFH_EXIT (3) ;
}

/* The per-operation limit is a limit on CPU time (ITIMER_PROF: user + system time of this process, all threads), so that a loaded machine
** does not turn a slow script into a TIMEOUT; a wall-clock alarm twelve times as long stays behind it for a call that blocks without computing. */
static void
sfh_arm (int seconds)
{	struct itimerval it ;
	memset (&it, 0, sizeof (it)) ;
	it.it_value.tv_sec = seconds ;
	setitimer (ITIMER_PROF, &it, NULL) ;
	alarm (seconds > 0 ? 12 * (unsigned) seconds : 0) ;
}

static void
sfh_sig (void)
{	signal (SIGALRM, on_alarm) ;
	signal (SIGPROF, on_alarm) ;
}

static void
scratch_init (void)
{	const char *base = getenv ("SFH_SCRATCH") ;
	if (scratch_dir [0]) return ;
	snprintf (scratch_dir, sizeof (scratch_dir), "%s/sfh-%d", base ? base : "/var/tmp", (int) getpid ()) ;
	mkdir (scratch_dir, 0700) ;
}

static void
scratch_cleanup (void)
{	char cmd [300] ;
	if (!scratch_dir [0]) return ;
	snprintf (cmd, sizeof (cmd), "rm -rf '%s'", scratch_dir) ;
	if (system (cmd)) { }
	scratch_dir [0] = 0 ;
}

static void
file_to_store (const char *path, STORE *s)
{	FILE *f = fopen (path, "rb") ;
	long n ;
	if (f == NULL) { s->len = 0 ; return ; }
	fseek (f, 0, SEEK_END) ; n = ftell (f) ; fseek (f, 0, SEEK_SET) ;
	store_reserve (s, n) ;
	if (n > 0 && fread (s->buf, 1, n, f) != (size_t) n) { }
	s->len = n ;
	fclose (f) ;
}

static void
store_to_file (const char *path, STORE *s, long lead, long trail)
{	FILE *f = fopen (path, "wb") ;
	long k ;
	for (k = 0 ; k < lead ; k++) fputc (0x5A ^ (k & 0xff), f) ;
	if (s->len > 0) fwrite (s->buf, 1, s->len, f) ;
	for (k = 0 ; k < trail ; k++) fputc (0xC3 ^ (k & 0xff), f) ;
	fclose (f) ;
}

/* ---- the operations ------------------------------------------------------------------------- */

static void
op_open (char **tok, int ntok)
{	HANDLE *h = handle_get (tok [1]) ;
	STORE *s = store_get (tok [2]) ;
	const char *m = tok [3], *v, *route ;
	int mode = !strcmp (m, "r") ? SFM_READ : !strcmp (m, "w") ? SFM_WRITE : !strcmp (m, "rw") ? SFM_RDWR : atoi (m) ;
	if (h == NULL || s == NULL) { printf ("bad-op\n") ; return ; }
	memset (h, 0, sizeof (*h)) ;
	h->fd = -1 ;
	h->store = s ;
	if ((v = kv (tok, ntok, "fmt"))) h->info.format = (int) strtol (v, NULL, 16) ;
	if ((v = kv (tok, ntok, "ch"))) h->info.channels = atoi (v) ;
	if ((v = kv (tok, ntok, "sr"))) h->info.samplerate = atoi (v) ;
	if ((v = kv (tok, ntok, "frames"))) h->info.frames = atoll (v) ;
	if ((v = kv (tok, ntok, "sections"))) h->info.sections = atoi (v) ;
	if ((v = kv (tok, ntok, "seekable"))) h->info.seekable = atoi (v) ;
	route = kv (tok, ntok, "route") ;
	if (route == NULL) route = "vio" ;

	if (!strcmp (route, "vio"))
	{	if (mode == SFM_WRITE) { s->len = 0 ; }
		s->pos = 0 ;
		h->sf = sf_open_virtual (&mem_vio, mode, &h->info, s) ;
		}
	else if (!strcmp (route, "path") || !strncmp (route, "fd", 2))
	{	/* fd, fd0 (close_desc=0), fd1 (close_desc=1), fdemb:<off>:<trail> */
		long lead = 0, trail = 0 ;
		int close_desc = 1, oflags ;
		const char *ext = kv (tok, ntok, "ext") ;
		scratch_init () ;
		snprintf (h->path, sizeof (h->path), "%s/%s.%s", scratch_dir, tok [2], ext ? ext : "dat") ;
		if (!strncmp (route, "fdemb:", 6))
		{	lead = atol (route + 6) ;
			if (strchr (route + 6, ':')) trail = atol (strchr (route + 6, ':') + 1) ;
			}
		if (!strcmp (route, "fd0")) close_desc = 0 ;
		if (mode != SFM_WRITE || lead > 0)
			store_to_file (h->path, s, lead, mode == SFM_WRITE ? 0 : trail) ;
		if (!strcmp (route, "path"))
			h->sf = sf_open (h->path, mode, &h->info) ;
		else
		{	oflags = mode == SFM_READ ? O_RDONLY : mode == SFM_WRITE ? (O_WRONLY | O_CREAT | (lead ? 0 : O_TRUNC)) : (O_RDWR | O_CREAT) ;
			h->fd = open (h->path, oflags, 0600) ;
			if (lead > 0) lseek (h->fd, lead, SEEK_SET) ;
			h->sf = sf_open_fd (h->fd, mode, &h->info, close_desc) ;
			if (close_desc && h->sf != NULL) h->fd = -1 - h->fd ;	/* remember number, library owns it */
			}
		}
	else if (!strcmp (route, "stdio") || (!strcmp (route, "stdiopipe") && mode == SFM_READ))
	{	/* sf_open ("-") = psf_set_stdio: SFM_READ reads descriptor 0, SFM_WRITE writes descriptor 1, SFM_RDWR is refused.  The store is put
		** behind descriptor 0 (a regular file, or a pipe fed by a child) / a scratch file behind descriptor 1; the harness's own streams are
		** moved out of the way first (its transcript goes on through a copy of descriptor 1; script lines are in memory in both modes). */
		const char *ext = kv (tok, ntok, "ext") ;
		int fd = -1 ;
		scratch_init () ;
		snprintf (h->path, sizeof (h->path), "%s/%s.%s", scratch_dir, tok [2], ext ? ext : "dat") ;
		fflush (stdout) ;
		if (mode == SFM_READ || mode == SFM_RDWR)
		{	/* SFM_RDWR is refused by the library; should it ever not be, it must find the scratch file behind descriptor 0, not the harness's input */
			h->stdio_saved = 1 + fcntl (0, F_DUPFD, 100) ;
			if (!strcmp (route, "stdiopipe"))
			{	int pfd [2] ; pid_t pid ;
				if (pipe (pfd) != 0) { printf ("bad-route\n") ; return ; }
				pid = fork () ;
				if (pid == 0)
				{	sf_count_t done = 0 ;
					close (pfd [0]) ;
					signal (SIGPIPE, SIG_DFL) ;
					sfh_arm (0) ;
					while (done < s->len)
					{	ssize_t r = write (pfd [1], s->buf + done, s->len - done) ;
						if (r <= 0) break ;
						done += r ;
						}
					SFH_EXIT (0) ;
					}
				close (pfd [1]) ;
				fd = pfd [0] ;
				h->path [0] = 0 ;
				}
			else
			{	store_to_file (h->path, s, 0, 0) ;
				fd = open (h->path, mode == SFM_READ ? O_RDONLY : O_RDWR) ;
				}
			if (fd != 0) { dup2 (fd, 0) ; close (fd) ; }
			}
		else if (mode == SFM_WRITE)
		{	static int moved ;
			if (!moved)
			{	int hi = fcntl (1, F_DUPFD, 100) ;
				FILE *f = hi >= 0 ? fdopen (hi, "w") : NULL ;
				if (f == NULL) { printf ("bad-route\n") ; return ; }
				setvbuf (f, NULL, _IOFBF, 1 << 16) ;
				stdout = f ;		/* glibc: printf () goes through the variable (as harness/lowfd.c does) */
				moved = 1 ;
				}
			fd = open (h->path, O_WRONLY | O_CREAT | O_TRUNC, 0600) ;
			if (fd != 1) { dup2 (fd, 1) ; close (fd) ; }
			h->stdio_saved = -1 ;		/* write: descriptor 1 is the scratch file until the close */
			}
		h->sf = sf_open ("-", mode, &h->info) ;
		if (h->sf == NULL)
		{	if (mode != SFM_WRITE && h->stdio_saved > 0) { dup2 (h->stdio_saved - 1, 0) ; close (h->stdio_saved - 1) ; h->stdio_saved = 0 ; }
			if (mode == SFM_WRITE) { close (1) ; h->stdio_saved = 0 ; }
			if (h->path [0]) unlink (h->path) ;
			h->path [0] = 0 ;
			}
		}
	else if (!strncmp (route, "pipe", 4) && (route [4] == 0 || route [4] == ':') && mode == SFM_READ)
	{	/* non-seekable input: a child process feeds the store into a pipe; pipe:<n> delivers it n bytes at a time with a pause in
		** between, so that read () on the other end returns short counts */
		int pfd [2] ; pid_t pid ; long piece = route [4] == ':' ? atol (route + 5) : 0 ;
		if (pipe (pfd) != 0) { printf ("bad-route\n") ; return ; }
		fflush (stdout) ;
		pid = fork () ;
		if (pid == 0)
		{	sf_count_t done = 0 ;
			close (pfd [0]) ;
			signal (SIGPIPE, SIG_DFL) ;
			sfh_arm (0) ;
			while (done < s->len)
			{	sf_count_t want = s->len - done ;
				ssize_t r ;
				if (piece > 0 && want > piece) want = piece ;
				r = write (pfd [1], s->buf + done, want) ;
				if (r <= 0) break ;
				done += r ;
				if (piece > 0) usleep (60) ;
				}
			SFH_EXIT (0) ;
			}
		close (pfd [1]) ;
		h->fd = pfd [0] ;
		h->sf = sf_open_fd (h->fd, mode, &h->info, 1) ;
		if (h->sf != NULL) h->fd = -1 ;	/* library owns it */
		}
	else
	{	printf ("bad-route\n") ; return ; }

	h->ch = h->info.channels ;
	if (h->sf == NULL)
	{	int e = sf_error (NULL) ;
		const char *msg = sf_strerror (NULL) ;
		printf ("open=NULL err=%d msglen=%d\n", e, (int) (msg ? strlen (msg) : 0)) ;
		if (h->fd >= 0) { close (h->fd) ; h->fd = -1 ; }
		return ;
		}
	printf ("open=ok err=%d ch=%d sr=%d frames=%lld fmt=%08x sections=%d seekable=%d\n", sf_error (h->sf),
			h->info.channels, h->info.samplerate, (long long) h->info.frames, h->info.format, h->info.sections, h->info.seekable) ;
}

static void
op_write (char **tok, int ntok)
{	HANDLE *h = handle_get (tok [1]) ;
	const char *ty = tok [2], *unit = tok [3] ;
	long long n = atoll (tok [4]), ret = 0 ;
	int w = ty_width (ty) ;
	size_t items = 0 ;
	unsigned char *buf ;
	if (h == NULL || w == 0) { printf ("bad-op\n") ; return ; }
	buf = get_items (ntok > 5 ? tok [5] : "", &items, w) ;
	/* exact-size block: the instrumented library trips ASan if it reads past the supplied region */
	{	unsigned char *exact = malloc (items * w ? items * w : 1) ;
		memcpy (exact, buf, items * w) ;
		free (buf) ;
		buf = exact ;
		}
	if (unit [0] == 'i')
	{	if (!strcmp (ty, "s16")) ret = sf_write_short (h->sf, (short *) buf, n) ;
		else if (!strcmp (ty, "s32")) ret = sf_write_int (h->sf, (int *) buf, n) ;
		else if (!strcmp (ty, "f32")) ret = sf_write_float (h->sf, (float *) buf, n) ;
		else ret = sf_write_double (h->sf, (double *) buf, n) ;
		}
	else
	{	if (!strcmp (ty, "s16")) ret = sf_writef_short (h->sf, (short *) buf, n) ;
		else if (!strcmp (ty, "s32")) ret = sf_writef_int (h->sf, (int *) buf, n) ;
		else if (!strcmp (ty, "f32")) ret = sf_writef_float (h->sf, (float *) buf, n) ;
		else ret = sf_writef_double (h->sf, (double *) buf, n) ;
		}
	printf ("ret=%lld err=%d\n", ret, sf_error (h->sf)) ;
	free (buf) ;
}

static void
op_read (char **tok, int ntok)
{	HANDLE *h = handle_get (tok [1]) ;
	const char *ty = tok [2], *unit = tok [3] ;
	long long n = atoll (tok [4]), ret = 0, items ;
	int w = ty_width (ty), ch ;
	unsigned char *buf ;
	if (h == NULL || w == 0) { printf ("bad-op\n") ; return ; }
	ch = h->ch > 0 ? h->ch : 1 ;
	items = unit [0] == 'i' ? n : n * ch ;
	if (items < 0) items = 0 ;
	buf = malloc (items * w ? items * w : 1) ;
	memset (buf, 0xA5, items * w ? items * w : 1) ;
	if (unit [0] == 'i')
	{	if (!strcmp (ty, "s16")) ret = sf_read_short (h->sf, (short *) buf, n) ;
		else if (!strcmp (ty, "s32")) ret = sf_read_int (h->sf, (int *) buf, n) ;
		else if (!strcmp (ty, "f32")) ret = sf_read_float (h->sf, (float *) buf, n) ;
		else ret = sf_read_double (h->sf, (double *) buf, n) ;
		}
	else
	{	if (!strcmp (ty, "s16")) ret = sf_readf_short (h->sf, (short *) buf, n) ;
		else if (!strcmp (ty, "s32")) ret = sf_readf_int (h->sf, (int *) buf, n) ;
		else if (!strcmp (ty, "f32")) ret = sf_readf_float (h->sf, (float *) buf, n) ;
		else ret = sf_readf_double (h->sf, (double *) buf, n) ;
		}
	printf ("ret=%lld err=%d data=", ret, sf_error (h->sf)) ;
	if (ntok > 5 && tok [5][0] == 'q')
	{	/* quiet: a hash instead of the items (C03 asks for large buffers) */
		uint64_t hsh = 1469598103934665603ULL ; long long k ;
		for (k = 0 ; k < items * w ; k++) { hsh ^= buf [k] ; hsh *= 1099511628211ULL ; }
		printf ("fnv:%016llx", (unsigned long long) hsh) ;
		}
	else
		put_items (buf, items, w) ;
	printf ("\n") ;
	free (buf) ;
}

static void
op_rawio (char **tok, int ntok, int wr)
{	HANDLE *h = handle_get (tok [1]) ;
	long long n = atoll (tok [2]), ret ;
	if (h == NULL) { printf ("bad-op\n") ; return ; }
	if (wr)
	{	size_t len ;
		unsigned char *p = unhex (ntok > 3 ? tok [3] : "", &len) ;
		ret = sf_write_raw (h->sf, p, n) ;
		printf ("ret=%lld err=%d\n", ret, sf_error (h->sf)) ;
		free (p) ;
		}
	else
	{	unsigned char *p = malloc (n > 0 ? n : 1) ;
		memset (p, 0xA5, n > 0 ? n : 1) ;
		ret = sf_read_raw (h->sf, p, n) ;
		printf ("ret=%lld err=%d data=", ret, sf_error (h->sf)) ;
		puthex (p, n > 0 ? n : 0) ;
		printf ("\n") ;
		free (p) ;
		}
}

static void
op_seek (char **tok, int ntok)
{	HANDLE *h = handle_get (tok [1]) ;
	long long off, ret ; int whence ;
	if (h == NULL || ntok < 4) { printf ("bad-op\n") ; return ; }
	off = atoll (tok [2]) ;
	whence = (int) strtol (tok [3], NULL, 0) ;
	ret = sf_seek (h->sf, off, whence) ;
	printf ("ret=%lld err=%d\n", ret, sf_error (h->sf)) ;
}

static void
op_cmd (char **tok, int ntok)
{	/* cmd hN <id-hex> <size> <hex|null|zero> ;  hN may be "null" */
	HANDLE *h = handle_get (tok [1]) ;
	int id = (int) strtol (tok [2], NULL, 16), size = atoi (tok [3]), ret ;
	const char *d = ntok > 4 ? tok [4] : "null" ;
	unsigned char *p = NULL ;
	size_t len = 0 ;
	if (strcmp (d, "null"))
	{	if (!strcmp (d, "zero"))
		{	len = size > 0 ? size : 0 ;
			p = calloc (len ? len : 1, 1) ;
			}
		else
			p = unhex (d, &len) ;
		/* exact-size heap block so that ASan sees any access past it */
		{	unsigned char *q = malloc (len ? len : 1) ;
			memcpy (q, p, len) ;
			free (p) ;
			p = q ;
			}
		}
	ret = sf_command (h ? h->sf : NULL, id, p, size) ;
	printf ("ret=%d err=%d data=", ret, sf_error (h ? h->sf : NULL)) ;
	if (p) puthex (p, len) ; else printf ("null") ;
	printf ("\n") ;
	free (p) ;
}

static void
op_close (char **tok)
{	HANDLE *h = handle_get (tok [1]) ;
	int ret, k ;
	if (h == NULL) { printf ("bad-op\n") ; return ; }
	ret = sf_close (h->sf) ;
	h->sf = NULL ;
	printf ("ret=%d", ret) ;
	if (h->stdio_saved > 0)
	{	/* route stdio, read: the library did not open descriptor 0 -- is it still open?  then the harness's own goes back */
		printf (" fd_open=%d", fcntl (0, F_GETFD) != -1) ;
		dup2 (h->stdio_saved - 1, 0) ;
		close (h->stdio_saved - 1) ;
		h->stdio_saved = 0 ;
		}
	else if (h->stdio_saved < 0)
	{	/* route stdio, write: descriptor 1 (the scratch file) was the process's, not the handle's */
		printf (" fd_open=%d", fcntl (1, F_GETFD) != -1) ;
		close (1) ;
		h->stdio_saved = 0 ;
		}
	if (h->path [0])
	{	/* descriptor hygiene: was the descriptor closed exactly when the library owned it? */
		if (h->fd >= 0)
		{	printf (" fd_open=%d", fcntl (h->fd, F_GETFD) != -1) ;
			close (h->fd) ;
			}
		else if (h->fd < -1)
			printf (" fd_open=%d", fcntl (-1 - h->fd, F_GETFD) != -1) ;
		file_to_store (h->path, h->store) ;
		unlink (h->path) ;
		}
	printf ("\n") ;
	for (k = 0 ; k < h->n_chunk_data ; k++) free (h->chunk_data [k]) ;
	free (h->chunk_data) ;
	memset (h, 0, sizeof (*h)) ;
	h->fd = -1 ;
}

static void
op_info (char **tok)
{	HANDLE *h = handle_get (tok [1]) ;
	SF_INFO cur ;
	int r ;
	memset (&cur, 0, sizeof (cur)) ;
	r = sf_command (h->sf, SFC_GET_CURRENT_SF_INFO, &cur, sizeof (cur)) ;
	printf ("ret=%d ch=%d sr=%d frames=%lld fmt=%08x sections=%d seekable=%d\n", r, cur.channels, cur.samplerate,
			(long long) cur.frames, cur.format, cur.sections, cur.seekable) ;
}

static void
op_dump (char **tok, int ntok)
{	STORE *s = store_get (tok [1]) ;
	if (s == NULL) { printf ("bad-op\n") ; return ; }
	if (ntok > 2 && !strcmp (tok [2], "sum"))
	{	uint64_t hsh = 1469598103934665603ULL ; sf_count_t k ;
		for (k = 0 ; k < s->len ; k++) { hsh ^= s->buf [k] ; hsh *= 1099511628211ULL ; }
		printf ("len=%lld fnv=%016llx\n", (long long) s->len, (unsigned long long) hsh) ;
		return ;
		}
	printf ("len=%lld hex=", (long long) s->len) ;
	puthex (s->buf, s->len) ;
	printf ("\n") ;
}

static void
op_setstr (char **tok, int ntok)
{	HANDLE *h = handle_get (tok [1]) ;
	int ty = (int) strtol (tok [2], NULL, 0), ret ;
	if (ntok > 3 && strcmp (tok [3], "null"))
	{	size_t len ; unsigned char *p = unhex (tok [3], &len) ;
		char *z = malloc (len + 1) ;
		memcpy (z, p, len) ; z [len] = 0 ;
		ret = sf_set_string (h->sf, ty, z) ;
		free (z) ; free (p) ;
		}
	else
		ret = sf_set_string (h->sf, ty, NULL) ;
	printf ("ret=%d err=%d\n", ret, sf_error (h->sf)) ;
}

static void
op_getstr (char **tok)
{	HANDLE *h = handle_get (tok [1]) ;
	int ty = (int) strtol (tok [2], NULL, 0) ;
	const char *s = sf_get_string (h->sf, ty) ;
	printf ("err=%d str=", sf_error (h->sf)) ;
	if (s) puthex ((const unsigned char *) s, strlen (s)) ; else printf ("null") ;
	printf ("\n") ;
}

static void
op_setchunk (char **tok, int ntok)
{	/* setchunk hN <id-hex> <data-hex> */
	HANDLE *h = handle_get (tok [1]) ;
	SF_CHUNK_INFO ci ;
	size_t idlen, dlen ; int ret ;
	unsigned char *id = unhex (tok [2], &idlen), *d = unhex (ntok > 3 ? tok [3] : "", &dlen) ;
	memset (&ci, 0, sizeof (ci)) ;
	if (idlen > sizeof (ci.id) - 1) idlen = sizeof (ci.id) - 1 ;
	memcpy (ci.id, id, idlen) ;
	ci.id_size = idlen ;
	ci.datalen = dlen ;
	ci.data = d ;
	ret = sf_set_chunk (h->sf, &ci) ;
	printf ("ret=%d err=%d\n", ret, sf_error (h->sf)) ;
	h->chunk_data = realloc (h->chunk_data, (h->n_chunk_data + 1) * sizeof (void *)) ;
	h->chunk_data [h->n_chunk_data ++] = d ;
	free (id) ;
}

static void
op_chunkiter (char **tok, int ntok)
{	/* chunkiter hN <id-hex|null> ; chunknext hN ; chunkget hN <buflen|-1 = use reported size> */
	HANDLE *h = handle_get (tok [1]) ;
	if (!strcmp (tok [0], "chunkiter"))
	{	if (ntok > 2 && strcmp (tok [2], "null"))
		{	SF_CHUNK_INFO ci ; size_t idlen ; unsigned char *id = unhex (tok [2], &idlen) ;
			memset (&ci, 0, sizeof (ci)) ;
			if (idlen > sizeof (ci.id) - 1) idlen = sizeof (ci.id) - 1 ;
			memcpy (ci.id, id, idlen) ; ci.id_size = idlen ;
			h->it = sf_get_chunk_iterator (h->sf, &ci) ;
			free (id) ;
			}
		else
			h->it = sf_get_chunk_iterator (h->sf, NULL) ;
		printf ("it=%d err=%d\n", h->it != NULL, sf_error (h->sf)) ;
		}
	else if (!strcmp (tok [0], "chunknext"))
	{	h->it = h->it ? sf_next_chunk_iterator (h->it) : NULL ;
		printf ("it=%d err=%d\n", h->it != NULL, sf_error (h->sf)) ;
		}
	else
	{	SF_CHUNK_INFO ci ; int r1, r2 ; long want = ntok > 2 ? atol (tok [2]) : -1 ;
		memset (&ci, 0, sizeof (ci)) ;
		if (h->it == NULL) { printf ("it=0\n") ; return ; }
		r1 = sf_get_chunk_size (h->it, &ci) ;
		printf ("size_ret=%d id=", r1) ;
		puthex ((unsigned char *) ci.id, ci.id_size < sizeof (ci.id) ? ci.id_size : sizeof (ci.id)) ;
		printf (" datalen=%u", ci.datalen) ;
		fflush (stdout) ;	/* keep the sizes visible if the data call does not return */
		if (want >= 0) ci.datalen = want ;
		else if (ci.datalen > (1u << 20)) ci.datalen = 1u << 20 ;	/* a hostile file may claim 4 GiB; the library copies min (datalen, stored) */
		ci.data = malloc (ci.datalen ? ci.datalen : 1) ;
		memset (ci.data, 0xA5, ci.datalen ? ci.datalen : 1) ;
		r2 = sf_get_chunk_data (h->it, &ci) ;
		printf (" data_ret=%d outlen=%u data=", r2, ci.datalen) ;
		puthex (ci.data, want >= 0 ? (size_t) want : ci.datalen) ;
		printf ("\n") ;
		free (ci.data) ;
		}
}

/* accessors for ops living in other harness files (chunks.c) */
SNDFILE *sfh_handle_sf (const char *name) { HANDLE *h = handle_get (name) ; return h ? h->sf : NULL ; }
SF_CHUNK_ITERATOR **sfh_handle_it (const char *name) { HANDLE *h = handle_get (name) ; return h ? &h->it : NULL ; }

static void
op_fault (char **tok, int ntok)
{	const char *v ;
	memset (&fault, 0, sizeof (fault)) ;
	if ((v = kv (tok, ntok, "at"))) fault.at = atol (v) ;
	if ((v = kv (tok, ntok, "kind"))) fault.kind = atoi (v) ;
	if ((v = kv (tok, ntok, "single"))) fault.single = atoi (v) ;
	printf ("ok\n") ;
}

static int
run_line (char *line)
{	char *tok [64] ; int ntok = 0 ;
	char *p = strtok (line, " \t\r\n") ;
	while (p && ntok < 64) { tok [ntok ++] = p ; p = strtok (NULL, " \t\r\n") ; }
	if (ntok == 0 || tok [0][0] == '#') return 0 ;
	sfh_arm (op_timeout) ;
	if (!strcmp (tok [0], "open") && ntok >= 4) op_open (tok, ntok) ;
	else if (!strcmp (tok [0], "w") && ntok >= 5) op_write (tok, ntok) ;
	else if (!strcmp (tok [0], "r") && ntok >= 5) op_read (tok, ntok) ;
	else if (!strcmp (tok [0], "rraw") && ntok >= 3) op_rawio (tok, ntok, 0) ;
	else if (!strcmp (tok [0], "wraw") && ntok >= 3) op_rawio (tok, ntok, 1) ;
	else if (!strcmp (tok [0], "seek")) op_seek (tok, ntok) ;
	else if (!strcmp (tok [0], "cmd") && ntok >= 4) op_cmd (tok, ntok) ;
	else if (!strcmp (tok [0], "close") && ntok >= 2) op_close (tok) ;
	else if (!strcmp (tok [0], "info") && ntok >= 2) op_info (tok) ;
	else if (!strcmp (tok [0], "dump") && ntok >= 2) op_dump (tok, ntok) ;
	else if (!strcmp (tok [0], "setstr") && ntok >= 3) op_setstr (tok, ntok) ;
	else if (!strcmp (tok [0], "getstr") && ntok >= 3) op_getstr (tok) ;
	else if (!strcmp (tok [0], "setchunk") && ntok >= 3) op_setchunk (tok, ntok) ;
	else if ((!strcmp (tok [0], "chunkiter") || !strcmp (tok [0], "chunknext") || !strcmp (tok [0], "chunkget")) && ntok >= 2) op_chunkiter (tok, ntok) ;
	else if ((!strcmp (tok [0], "chunkdata") || !strcmp (tok [0], "chunkall")) && ntok >= 2) op_chunks (tok, ntok) ;
	else if (!strcmp (tok [0], "fault")) op_fault (tok, ntok) ;
	else if (!strcmp (tok [0], "iolog")) op_iolog (tok, ntok) ;
	else if (!strcmp (tok [0], "ledger")) op_ledger (tok, ntok) ;
	else if (!strcmp (tok [0], "fdw")) op_fdworld (tok, ntok) ;
	else if (!strcmp (tok [0], "lowfd")) op_lowfd (tok, ntok) ;
	else if (!strcmp (tok [0], "fsize")) op_fsize (tok, ntok) ;
	else if (!strcmp (tok [0], "tmpenv")) op_tmpenv (tok, ntok) ;
	else if (!strcmp (tok [0], "shortio")) op_shortio (tok, ntok) ;
	else if (!strcmp (tok [0], "failopen")) op_failopen (tok, ntok) ;
	else if (!strcmp (tok [0], "second")) op_second (tok, ntok) ;
	else if ((!strcmp (tok [0], "getmeta") || !strcmp (tok [0], "setcues")) && ntok >= 2) op_meta (tok, ntok) ;
	else if (!strcmp (tok [0], "cseek")) op_cseek (tok, ntok) ;
	else if (!strcmp (tok [0], "byterate") || !strcmp (tok [0], "fdpos")) op_query (tok, ntok) ;
	else if (!strcmp (tok [0], "perror") || !strcmp (tok [0], "errstr") || !strcmp (tok [0], "wsync")) op_errapi (tok, ntok) ;
	else if (!strcmp (tok [0], "iostat")) printf ("calls=%ld fired=%ld\n", fault.calls, fault.fired) ;
	else if (!strcmp (tok [0], "store") && ntok >= 2)
	{	STORE *s = store_get (tok [1]) ; size_t len ; unsigned char *d = unhex (ntok > 2 ? tok [2] : "", &len) ;
		store_set (s, d, len) ; free (d) ; printf ("len=%lld\n", (long long) s->len) ;
		}
	else if (!strcmp (tok [0], "copy") && ntok >= 3)
	{	STORE *d = store_get (tok [1]), *s = store_get (tok [2]) ;
		store_set (d, s->buf, s->len) ; printf ("len=%lld\n", (long long) d->len) ;
		}
	else if (!strcmp (tok [0], "trunc") && ntok >= 3)
	{	STORE *s = store_get (tok [1]) ; sf_count_t n = atoll (tok [2]) ;
		if (n < s->len) s->len = n ;
		printf ("len=%lld\n", (long long) s->len) ;
		}
	else if (!strcmp (tok [0], "errnum") && ntok >= 2)
	{	const char *m = sf_error_number (atoi (tok [1])) ;
		printf ("msg=") ; if (m) puthex ((const unsigned char *) m, strlen (m)) ; else printf ("null") ; printf ("\n") ;
		}
	else if (!strcmp (tok [0], "strerror") && ntok >= 2)
	{	HANDLE *h = handle_get (tok [1]) ; const char *m = sf_strerror (h ? h->sf : NULL) ;
		printf ("err=%d msglen=%d\n", sf_error (h ? h->sf : NULL), (int) (m ? strlen (m) : -1)) ;
		}
	else if (!strcmp (tok [0], "fcheck") && ntok >= 4)
	{	SF_INFO i ; memset (&i, 0, sizeof (i)) ;
		i.format = (int) strtol (tok [1], NULL, 16) ; i.channels = atoi (tok [2]) ; i.samplerate = atoi (tok [3]) ;
		printf ("ret=%d\n", sf_format_check (&i)) ;
		}
	else
		printf ("bad-op\n") ;
	sfh_arm (0) ;
	fflush (stdout) ;
	return 0 ;
}

int
cmd_script (FILE *in)
{	char *line = NULL ; size_t cap = 0 ;
	char **lines = NULL ; size_t n = 0, k2 ;
	sfh_sig () ;
	/* the whole script first: route stdio puts a sound file behind descriptor 0 while a handle is open */
	while (getline (&line, &cap, in) > 0)
	{	lines = realloc (lines, (n + 1) * sizeof (char *)) ;
		lines [n ++] = strdup (line) ;
		}
	free (line) ;
	for (k2 = 0 ; k2 < n ; k2++)
		run_line (lines [k2]) ;		/* nothing of the harness's own is freed while a `ledger` measurement may be open */
	{	int k ;
		for (k = 0 ; k < MAX_HANDLES ; k++)
			if (handles [k].sf) { sf_close (handles [k].sf) ; handles [k].sf = NULL ; }
		}
	scratch_cleanup () ;
	for (k2 = 0 ; k2 < n ; k2++) free (lines [k2]) ;
	free (lines) ;
	return 0 ;
}

/* batch: scripts separated by lines "== <name>"; each runs in a forked child so that a crash,
** sanitizer abort or timeout is attributed to that script alone. */
static char batch_tmp [300] ;

int
cmd_batch (FILE *in, int timeout_s)
{	char *line = NULL ; size_t cap = 0 ;
	char **lines = NULL ; size_t nlines = 0, k ;
	char name [256] = "" ;
	int more = 1 ;
	op_timeout = timeout_s ;
	setvbuf (stdout, NULL, _IOFBF, 1 << 16) ;
	/* One private TMPDIR per batch process (its children run one at a time): the library's ALAC spool file is
	** `<TMPDIR>/<rand><rand>-alac.tmp`, opened without O_EXCL, the generator seeded from the clock in every forked child -- children
	** of two PARALLEL batch processes that start in the same microsecond would otherwise share one spool file in /tmp. */
	{	const char *b = getenv ("SFH_SCRATCH") ;
		snprintf (batch_tmp, sizeof (batch_tmp), "%s/sfh-tmp-%d", (b && b [0]) ? b : "/var/tmp", (int) getpid ()) ;
		if (mkdir (batch_tmp, 0700) == 0 || errno == EEXIST) setenv ("TMPDIR", batch_tmp, 1) ; else batch_tmp [0] = 0 ;
		}
	while (more)
	{	ssize_t r = getline (&line, &cap, in) ;
		if (r <= 0 || !strncmp (line, "== ", 3))
		{	if (name [0])
			{	pid_t pid ; int st = 0 ;
				printf ("== %s\n", name) ; fflush (stdout) ;
				pid = fork () ;
				if (pid == 0)
				{	sfh_sig () ;
					for (k = 0 ; k < nlines ; k++) run_line (lines [k]) ;
					fflush (stdout) ;
					scratch_cleanup () ;
					SFH_EXIT (0) ;
					}
				waitpid (pid, &st, 0) ;
				if (WIFSIGNALED (st)) printf ("\nCRASH signal=%d\n", WTERMSIG (st)) ;
				else if (WEXITSTATUS (st) == 3) { /* TIMEOUT already printed */ }
				else if (WEXITSTATUS (st) != 0) printf ("\nABORT status=%d\n", WEXITSTATUS (st)) ;
				printf ("== end\n") ; fflush (stdout) ;
				}
			for (k = 0 ; k < nlines ; k++) free (lines [k]) ;
			nlines = 0 ;
			if (r <= 0) { more = 0 ; break ; }
			snprintf (name, sizeof (name), "%s", line + 3) ;
			name [strcspn (name, "\r\n")] = 0 ;
			continue ;
			}
		lines = realloc (lines, (nlines + 1) * sizeof (char *)) ;
		lines [nlines ++] = strdup (line) ;
		}
	free (lines) ; free (line) ;
	if (batch_tmp [0])
	{	char cmd [400] ;
		snprintf (cmd, sizeof (cmd), "rm -rf '%s'", batch_tmp) ;
		if (system (cmd)) { }
		}
	return 0 ;
}

int
main (int argc, char **argv)
{	if (argc < 2)
	{	fprintf (stderr, "usage: sfh script|batch [timeout]|table <name>|grid <name> ...\n") ;
		return 2 ;
		}
	if (!strcmp (argv [1], "script"))
		return cmd_script (stdin) ;
	if (!strcmp (argv [1], "batch"))
		return cmd_batch (stdin, argc > 2 ? atoi (argv [2]) : 10) ;
	if (!strcmp (argv [1], "table"))
		return cmd_table (argc - 2, argv + 2) ;
	if (!strcmp (argv [1], "grid"))
		return cmd_grid (argc - 2, argv + 2) ;
	if (!strcmp (argv [1], "c03consts"))
		return cmd_c03consts () ;
	if (!strcmp (argv [1], "sitesconsts"))
		return cmd_sitesconsts () ;
	if (!strcmp (argv [1], "routes"))
		return cmd_routes () ;
	if (!strcmp (argv [1], "ieee"))
		return cmd_ieee (argc - 2, argv + 2) ;
	fprintf (stderr, "sfh: unknown subcommand %s\n", argv [1]) ;
	return 2 ;
}
