/* C03 per-site bounds models: sizes of the fixed buffers the chunk readers copy into, as THIS tree's headers define them
** (extraction by compilation; rendered as lean/SfModel/Generated/SitesConsts.lean by vlib/c03sites.py on every run). */
#include <stddef.h>
#include "sfh.h"
#include "sfconfig.h"
#include "common.h"

int
cmd_sitesconsts (void)
{	BUF_UNION ubuf ;
	SF_INSTRUMENT inst ;
	SF_CUE_POINT cue ;
#define P(name, x) printf ("%s %ld\n", name, (long) (x))
	P ("bextStruct", sizeof (SF_BROADCAST_INFO_16K)) ;
	P ("bextHistOff", offsetof (SF_BROADCAST_INFO_16K, coding_history)) ;
	P ("bextHistCap", sizeof (((SF_BROADCAST_INFO_16K *) 0)->coding_history)) ;
	P ("cartStruct", sizeof (SF_CART_INFO_16K)) ;
	P ("cartTagOff", offsetof (SF_CART_INFO_16K, tag_text)) ;
	P ("cartTagCap", sizeof (((SF_CART_INFO_16K *) 0)->tag_text)) ;
	P ("scbuf", sizeof (ubuf.scbuf)) ;
	P ("cueName", sizeof (cue.name)) ;
	P ("instLoops", sizeof (inst.loops) / sizeof (inst.loops [0])) ;
	P ("maxChannels", SF_MAX_CHANNELS) ;
#undef P
	return 0 ;
}
