/*
** tmpenv.c — script op `tmpenv missing | file | blocked | restore`  (C16: temporary-file hygiene when the temp directory is unusable)
**
** `ledger begin` makes a private directory, points TMPDIR at it and makes it the working directory; `ledger end` lists what is left
** in it (`tmp=`).  psf_open_tmpfile (the ALAC spool file) has a FALLBACK: when $TMPDIR (or /tmp) fails access (R|W|X), or when the
** fopen inside it fails, the file is created in the current directory -- here the private directory, so a spool file that is not
** removed at sf_close shows in `tmp=`.
**
**   tmpenv missing   TMPDIR = a directory that does not exist                              (access () fails)
**   tmpenv file      TMPDIR = a regular file without execute permission                    (access (X_OK) fails, also for root)
**   tmpenv blocked   TMPDIR = a regular file with mode 0700                                (access () passes for its owner / root, fopen
**                                                                                           of a name below it fails with ENOTDIR)
**   tmpenv restore   TMPDIR = the value it had at the first `tmpenv` op; the helper file is removed
** -> ok tmpenv=<kind>
** The helper file lives next to (not inside) the private directory, so that it never shows in the `tmp=` listing itself.
*/
#include <stdio.h>
#include <stdlib.h>
#include <string.h>
#include <unistd.h>
#include <fcntl.h>
#include <sys/stat.h>
#include "sfh.h"

static char saved [512], helper [512] ;
static int have_saved = 0 ;

/* putenv with static strings: setenv would allocate, and the ledger counts every heap block of the process */
static void
set_tmpdir (const char *value)
{	static char env [2][600] ; static int k = 0 ;
	k ^= 1 ;
	snprintf (env [k], sizeof (env [k]), "TMPDIR=%s", value) ;
	putenv (env [k]) ;
}

void
op_tmpenv (char **tok, int ntok)
{	const char *base = getenv ("SFH_SCRATCH") ;
	const char *cur = getenv ("TMPDIR") ;
	int fd ;

	if (ntok < 2)
	{	printf ("bad-op tmpenv\n") ;
		return ;
		} ;
	if (! have_saved)
	{	snprintf (saved, sizeof (saved), "%s", cur ? cur : "") ;
		snprintf (helper, sizeof (helper), "%s/sfh-tmpenv-%d", base ? base : "/var/tmp", (int) getpid ()) ;
		have_saved = 1 ;
		} ;
	unlink (helper) ;
	if (! strcmp (tok [1], "restore"))
	{	if (saved [0]) set_tmpdir (saved) ; else unsetenv ("TMPDIR") ;
		}
	else if (! strcmp (tok [1], "missing"))
		set_tmpdir (helper) ;		/* just unlinked: does not exist */
	else if (! strcmp (tok [1], "file") || ! strcmp (tok [1], "blocked"))
	{	fd = open (helper, O_WRONLY | O_CREAT | O_TRUNC, tok [1][0] == 'f' ? 0600 : 0700) ;
		if (fd >= 0) close (fd) ;
		chmod (helper, tok [1][0] == 'f' ? 0600 : 0700) ;
		set_tmpdir (helper) ;
		}
	else
	{	printf ("bad-op tmpenv\n") ;
		return ;
		} ;
	printf ("ok tmpenv=%s\n", tok [1]) ;
} /* op_tmpenv */
