/* sfh op for the GSM 06.10 wrapper (C06):
**
**   cseek hN <offset>     calls the codec's own seek function  psf->seek (psf, SFM_READ, offset)  directly and, on
**                         success, stores the result in psf->read_current as sf_seek does.  On a GSM handle sf_seek
**                         itself never gets that far (gsm610_init clears sf.seekable), so this is the only way to
**                         execute gsm610_seek: the op exists to tie the model of that function (Sf.Gsm.seekAsWritten)
**                         to the code, it is not a public-API history.
**                         -> ret=<n> err=<psf->error>
*/
#include "sfh.h"
#include "common.h"

void
op_cseek (char **tok, int ntok)
{	SNDFILE *sf = ntok >= 3 ? sfh_handle_sf (tok [1]) : NULL ;
	SF_PRIVATE *psf = (SF_PRIVATE *) sf ;
	sf_count_t ret ;

	if (psf == NULL || psf->seek == NULL)
	{	printf ("bad-op\n") ;
		return ;
		} ;
	ret = psf->seek (psf, SFM_READ, (sf_count_t) atoll (tok [2])) ;
	if (ret >= 0)
		psf->read_current = ret ;
	printf ("ret=%lld err=%d\n", (long long) ret, psf->error) ;
	psf->error = 0 ;
} /* op_cseek */
