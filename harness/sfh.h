/* sfh: script-driven harness around the real libsndfile (built from /repo's working tree). */
#ifndef SFH_H
#define SFH_H

#include <stdio.h>
#include <stdlib.h>
#include <string.h>
#include <stdint.h>
#include <limits.h>
#include <unistd.h>
#include <errno.h>
#include <signal.h>
#include <fcntl.h>
#include <sys/types.h>
#include <sys/stat.h>
#include <sys/wait.h>

#include <sndfile.h>

#define MAX_STORES	64
#define MAX_HANDLES	16

typedef struct
{	unsigned char *buf ;
	sf_count_t len, cap, pos ;
	int in_use ;
} STORE ;

/* fault kinds, all inside the SF_VIRTUAL_IO callback contract */
enum
{	FK_NONE = 0,
	FK_ZERO,		/* read/write transfer 0 bytes */
	FK_SHORT,		/* read/write transfer about half of what was asked (at least 1 less) */
	FK_SEEKFAIL,	/* seek returns -1 */
	FK_LENBIG,		/* get_filelen answers real + 1000 */
	FK_LENSMALL,	/* get_filelen answers real / 2 */
	FK_TELLBAD,		/* tell answers pos + 7 */
	FK_SHORT1,		/* read/write transfer exactly one byte less than asked */
	FK_ALL			/* every callback fails in its own way: zero transfer, seek -1, len small */
} ;

typedef struct
{	long at ;			/* first failing callback index (1-based); 0 = never */
	int kind ;
	int single ;		/* only callback number 'at' fails */
	long calls ;		/* callbacks so far */
	long fired ;		/* how many answers were altered */
} FAULT ;

extern STORE stores [MAX_STORES] ;
extern FAULT fault ;
extern SF_VIRTUAL_IO mem_vio ;

STORE *store_get (const char *name) ;
void store_set (STORE *s, const unsigned char *data, sf_count_t len) ;
void store_reserve (STORE *s, sf_count_t cap) ;

int hexval (int c) ;
unsigned char *unhex (const char *s, size_t *outlen) ;
void puthex (const unsigned char *p, size_t n) ;

int cmd_table (int argc, char **argv) ;
int cmd_script (FILE *in) ;
int cmd_batch (FILE *in, int timeout_s) ;
int cmd_grid (int argc, char **argv) ;
int grid_c10 (int argc, char **argv) ;

/* chunks.c (C13) */
SNDFILE *sfh_handle_sf (const char *name) ;
SF_CHUNK_ITERATOR **sfh_handle_it (const char *name) ;
void op_chunks (char **tok, int ntok) ;
int grid_c17 (int argc, char **argv) ;
int cmd_c03consts (void) ;
int cmd_sitesconsts (void) ;

/* iolog.c (C15) */
void op_iolog (char **tok, int ntok) ;

/* routes.c (C14) */
int cmd_routes (void) ;
/* gsmx.c (C06, GSM) */
void op_cseek (char **tok, int ntok) ;
void op_query (char **tok, int ntok) ;		/* harness/query.c: byterate, fdpos */
void op_errapi (char **tok, int ntok) ;		/* harness/errapi.c: perror, errstr, wsync */
/* ledger.c (C16) */
void op_ledger (char **tok, int ntok) ;
/* meta.c (C12) */
void op_meta (char **tok, int ntok) ;
/* ieee.c (C20: portable IEEE serialisers, sfendian.h helpers) */
int cmd_ieee (int argc, char **argv) ;

/* fsize.c (C16: RLIMIT_FSIZE, so that writes to real files fail at a chosen moment) */
void op_fsize (char **tok, int ntok) ;
/* tmpenv.c (C16: TMPDIR missing / a file / blocked, so that psf_open_tmpfile takes its fallback) */
void op_tmpenv (char **tok, int ntok) ;
/* shortio.c (C07 / C14: read () / write () interposed -- short transfers and EINTR on real descriptors) */
void op_shortio (char **tok, int ntok) ;

void iolog_account (int *blocks, long *bytes) ;

/* fdworld.c (C19: real descriptors) */
void op_fdworld (char **tok, int ntok) ;

/* lowfd.c (C14 / C19: descriptors 0 / 1 free, so that handles get those numbers) */
void op_lowfd (char **tok, int ntok) ;

/* failopen.c (C09 / C16: one open attempt + "did it change the caller's file") */
void op_failopen (char **tok, int ntok) ;
void op_second (char **tok, int ntok) ;		/* secondfile.c */

/* _exit skips the atexit handlers: a coverage build (tools/coverage.sh) dumps its counters first */
#ifdef SFH_COVERAGE
extern void __gcov_dump (void) ;
#define SFH_EXIT(c) do { __gcov_dump () ; _exit (c) ; } while (0)
#else
#define SFH_EXIT(c) _exit (c)
#endif

#endif
