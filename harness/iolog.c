/* iolog: C15 instrumentation around the memory SF_VIRTUAL_IO of vio.c.
**
** `iolog on` wraps the five callbacks of mem_vio (vio.c is left untouched: the function pointers of the global
** struct are swapped) so that every callback is recorded: kind, request, answer, store position before the call,
** and whether the fault machinery altered the answer.  The moment the first fault fires, the store the handle is
** talking to is copied ("what the I/O layer had accepted when the failure began").
**
**   iolog on                      start recording (also clears the log)
**   iolog limit <n>                after n recorded callbacks the child prints `TIMEOUT callbacks=n last=…` and exits (status 3)
**   iolog dump                    calls=<n> fired=<m> first=<index of first altered answer|0> kinds=<one of LSRWT per callback>
**   iolog trace                   one line: every callback as <kind><request>:<answer>[!]  (! = altered by the fault)
**   iolog verdict sM <lo> <hi>    compares the snapshot with the store now on [lo, min (hi, snapshot length)) (hi = -1: no limit)
**                                 -> snap=<0|1> snaplen=<n> len=<n> changed=<bytes that differ> first=<offset|-1> shrunk=<0|1>
**                                    ranges=<lo-hi,...|-> (maximal runs of changed offsets, inclusive; at most 12, `+` = more)
**   iolog peek hN                 dataoffset=<psf->dataoffset> datalength= blockwidth= (read from the private struct; used only
**                                 on the fault-free run to learn where the header region ends)
*/
#include "sfh.h"
#include "sfconfig.h"
#include "common.h"

typedef struct
{	char kind ;
	long long req, req2, ans, pos ;
	int altered ;
} IOEV ;

static IOEV *evs ;
static long nev, capev ;
static SF_VIRTUAL_IO orig ;
static int wrapped ;
static unsigned char *snap ;
static sf_count_t snaplen = -1 ;
static long first_fired ;
static long ev_limit ;				/* callback budget: a call that makes more callbacks than this is reported like a timeout */
#define STORE_CAP	(16 << 20)		/* the memory store refuses to grow past this (a write beyond it transfers 0 bytes: "disk full") */

static IOEV *
ev_new (char kind, void *ud)
{	STORE *s = ud ;
	IOEV *e ;
	if (ev_limit > 0 && nev >= ev_limit)
	{	long k ;
		fflush (stdout) ;
		printf ("\nTIMEOUT callbacks=%ld last=", nev) ;
		for (k = nev > 12 ? nev - 12 : 0 ; k < nev ; k++)
			printf ("%c%lld@%lld:%lld ", evs [k].kind, evs [k].req, evs [k].pos, evs [k].ans) ;
		printf ("\n") ;
		fflush (stdout) ;
		SFH_EXIT (3) ;
		}
	if (nev == capev)
	{	capev = capev ? 2 * capev : 256 ;
		evs = realloc (evs, capev * sizeof (IOEV)) ;
		if (evs == NULL) exit (9) ;
		}
	e = &evs [nev ++] ;
	memset (e, 0, sizeof (*e)) ;
	e->kind = kind ;
	e->pos = s->pos ;
	return e ;
}

static void
ev_done (long idx, long fired_before, void *ud)
{	STORE *s = ud ;
	if (fault.fired != fired_before)
	{	evs [idx].altered = 1 ;
		if (snaplen < 0)
		{	snaplen = s->len ;
			snap = malloc (snaplen > 0 ? snaplen : 1) ;
			if (snaplen > 0) memcpy (snap, s->buf, snaplen) ;
			first_fired = idx + 1 ;
			}
		}
}

static sf_count_t
w_len (void *ud)
{	long idx = nev, fb = fault.fired ; sf_count_t r ;
	ev_new ('L', ud) ;
	r = orig.get_filelen (ud) ;
	evs [idx].ans = r ;
	ev_done (idx, fb, ud) ;
	return r ;
}

static sf_count_t
w_seek (sf_count_t offset, int whence, void *ud)
{	long idx = nev, fb = fault.fired ; sf_count_t r ;
	IOEV *e = ev_new ('S', ud) ;
	e->req = offset ; e->req2 = whence ;
	r = orig.seek (offset, whence, ud) ;
	evs [idx].ans = r ;
	ev_done (idx, fb, ud) ;
	return r ;
}

static sf_count_t
w_read (void *ptr, sf_count_t count, void *ud)
{	long idx = nev, fb = fault.fired ; sf_count_t r ;
	IOEV *e = ev_new ('R', ud) ;
	e->req = count ;
	r = orig.read (ptr, count, ud) ;
	evs [idx].ans = r ;
	ev_done (idx, fb, ud) ;
	return r ;
}

static sf_count_t
w_write (const void *ptr, sf_count_t count, void *ud)
{	long idx = nev, fb = fault.fired ; sf_count_t r ;
	IOEV *e = ev_new ('W', ud) ;
	e->req = count ;
	if (((STORE *) ud)->pos + count > STORE_CAP)
	{	evs [idx].ans = 0 ;
		return 0 ;
		}
	r = orig.write (ptr, count, ud) ;
	evs [idx].ans = r ;
	ev_done (idx, fb, ud) ;
	return r ;
}

static sf_count_t
w_tell (void *ud)
{	long idx = nev, fb = fault.fired ; sf_count_t r ;
	ev_new ('T', ud) ;
	r = orig.tell (ud) ;
	evs [idx].ans = r ;
	ev_done (idx, fb, ud) ;
	return r ;
}

void
op_iolog (char **tok, int ntok)
{	const char *sub = ntok > 1 ? tok [1] : "" ;
	long k ;
	if (!strcmp (sub, "on"))
	{	if (! wrapped)
		{	orig = mem_vio ;
			mem_vio.get_filelen = w_len ;
			mem_vio.seek = w_seek ;
			mem_vio.read = w_read ;
			mem_vio.write = w_write ;
			mem_vio.tell = w_tell ;
			wrapped = 1 ;
			}
		nev = 0 ;
		free (snap) ; snap = NULL ; snaplen = -1 ; first_fired = 0 ;
		printf ("ok\n") ;
		return ;
		}
	if (!strcmp (sub, "limit") && ntok >= 3)
	{	ev_limit = atol (tok [2]) ;
		printf ("ok\n") ;
		return ;
		}
	if (!strcmp (sub, "dump"))
	{	long fired = 0 ;
		for (k = 0 ; k < nev ; k++) fired += evs [k].altered ;
		printf ("calls=%ld fired=%ld first=%ld kinds=", nev, fired, first_fired) ;
		for (k = 0 ; k < nev ; k++) putchar (evs [k].kind) ;
		printf ("\n") ;
		return ;
		}
	if (!strcmp (sub, "trace"))
	{	printf ("ok trace=") ;
		for (k = 0 ; k < nev ; k++)
		{	IOEV *e = &evs [k] ;
			if (k) putchar (',') ;
			if (e->kind == 'S') printf ("S%lld/%lld@%lld:%lld", e->req, e->req2, e->pos, e->ans) ;
			else if (e->kind == 'R' || e->kind == 'W') printf ("%c%lld@%lld:%lld", e->kind, e->req, e->pos, e->ans) ;
			else printf ("%c@%lld:%lld", e->kind, e->pos, e->ans) ;
			if (e->altered) putchar ('!') ;
			}
		printf ("\n") ;
		return ;
		}
	if (!strcmp (sub, "verdict") && ntok >= 5)
	{	STORE *s = store_get (tok [2]) ;
		long long lo = atoll (tok [3]), hi = atoll (tok [4]), changed = 0, first = -1, p, run_lo = -1, run_hi = -1 ;
		char ranges [400] ; int nranges = 0, rlen = 0 ;
		if (s == NULL) { printf ("bad-op\n") ; return ; }
		if (snaplen < 0)
		{	printf ("ok snap=0 snaplen=0 len=%lld changed=0 first=-1 shrunk=0\n", (long long) s->len) ;
			return ;
			}
		if (hi < 0 || hi > snaplen) hi = snaplen ;
		ranges [0] = 0 ;
		for (p = lo ; p <= hi ; p++)
		{	int differs = p < hi && (p >= s->len || s->buf [p] != snap [p]) ;
			if (differs)
			{	changed ++ ;
				if (first < 0) first = p ;
				if (run_lo < 0) run_lo = p ;
				run_hi = p ;
				}
			else if (run_lo >= 0)
			{	/* maximal runs of changed offsets, at most 12 (`+` = there are more) */
				if (nranges < 12 && rlen < (int) sizeof (ranges) - 48)
					rlen += snprintf (ranges + rlen, sizeof (ranges) - rlen, "%s%lld-%lld", nranges ? "," : "", run_lo, run_hi) ;
				else if (nranges == 12 && rlen < (int) sizeof (ranges) - 2)
					rlen += snprintf (ranges + rlen, sizeof (ranges) - rlen, "+") ;
				nranges ++ ;
				run_lo = -1 ;
				}
			}
		printf ("ok snap=1 snaplen=%lld len=%lld changed=%lld first=%lld shrunk=%d ranges=%s\n", (long long) snaplen, (long long) s->len,
				changed, first, s->len < snaplen, nranges ? ranges : "-") ;
		return ;
		}
	if (!strcmp (sub, "peek") && ntok >= 3)
	{	SF_PRIVATE *psf = (SF_PRIVATE *) sfh_handle_sf (tok [2]) ;
		if (psf == NULL) { printf ("ok dataoffset=-1 datalength=-1 blockwidth=0 bytewidth=0\n") ; return ; }
		printf ("ok dataoffset=%lld datalength=%lld blockwidth=%d bytewidth=%d\n", (long long) psf->dataoffset,
				(long long) psf->datalength, psf->blockwidth, psf->bytewidth) ;
		return ;
		}
	printf ("bad-op\n") ;
}

/* the harness's own allocations made while logging (event array, snapshot of the store at the first fault): reported to ledger.c so that
** a heap balance taken around a logged scenario counts only what the library holds */
void
iolog_account (int *blocks, long *bytes)
{	if (evs != NULL) { (*blocks) ++ ; *bytes += (long) (capev * sizeof (IOEV)) ; }
	if (snap != NULL) { (*blocks) ++ ; *bytes += (long) (snaplen > 0 ? snaplen : 1) ; }
}
