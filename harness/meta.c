/* sfh ops for C12 (metadata round trip):
**
**   getmeta hN        one transcript line with everything the GET calls return on the handle:
**                       meta s1=<hex|null> ... s16=<hex|null>            sf_get_string for types 1..9 and 0x10 (named by their decimal value)
**                            bext=<ret>:<hex>                            SFC_GET_BROADCAST_INFO into a 0xA5-filled SF_BROADCAST_INFO_VAR(32768); the bytes
**                                                                        printed are the fixed part (608) + coding_history_size reported (capped by the buffer)
**                            cart=<ret>:<hex>                            SFC_GET_CART_INFO likewise (fixed part 2052 + tag_text_size)
**                            cuecount=<ret>:<n>                          SFC_GET_CUE_COUNT
**                            cues=<ret>:<count>:<per cue: 6 x 8 hex digits '/' name-hex up to NUL, separated by ','>
**                                                                        SFC_GET_CUE with room for 2600 cues
**                            inst=<ret>:<hex of SF_INSTRUMENT>           SFC_GET_INSTRUMENT
**                            chmap=<ret>:<hex of channels ints>          SFC_GET_CHANNEL_MAP_INFO
**                            err=<sf_error>
**                     The GET buffers are exact-size heap blocks, so ASan sees a copy that runs past them.
**   setcues hN <n> <per cue: indx position fcc chunk_start block_start sample_offset as 8 hex digits each '/' name-hex, separated by ','>
**                     SFC_SET_CUE with an SF_CUES_VAR(n) block of exactly 4 + n * 280 bytes (name zero-filled after the text)
*/
#include "sfh.h"

#define BEXT_FIXED	608		/* offsetof (SF_BROADCAST_INFO, coding_history) */
#define CART_FIXED	2052	/* offsetof (SF_CART_INFO, tag_text) */
#define BIGVAR		32768
#define MAXCUES		2600

typedef SF_BROADCAST_INFO_VAR (BIGVAR) BEXT_BIG ;
typedef SF_CART_INFO_VAR (BIGVAR) CART_BIG ;
typedef SF_CUES_VAR (MAXCUES) CUES_BIG ;

static const int str_types [] = { 1, 2, 3, 4, 5, 6, 7, 8, 9, 16 } ;

static void
put_u32 (uint32_t v)
{	printf ("%08x", v) ;
}

static void
op_getmeta (char **tok)
{	SNDFILE *sf = sfh_handle_sf (tok [1]) ;
	SF_INFO info ;
	int k, ret ;
	printf ("meta") ;
	for (k = 0 ; k < (int) (sizeof (str_types) / sizeof (str_types [0])) ; k++)
	{	const char *s = sf_get_string (sf, str_types [k]) ;
		printf (" s%d=", str_types [k]) ;
		if (s) puthex ((const unsigned char *) s, strlen (s)) ; else printf ("null") ;
		}
	{	BEXT_BIG *b = malloc (sizeof (BEXT_BIG)) ;
		size_t n ;
		memset (b, 0xA5, sizeof (BEXT_BIG)) ;
		ret = sf_command (sf, SFC_GET_BROADCAST_INFO, b, sizeof (BEXT_BIG)) ;
		printf (" bext=%d:", ret) ;
		if (ret)
		{	n = BEXT_FIXED + (size_t) b->coding_history_size ;
			if (n > sizeof (BEXT_BIG)) n = sizeof (BEXT_BIG) ;
			puthex ((unsigned char *) b, n) ;
			}
		free (b) ;
		}
	{	CART_BIG *c = malloc (sizeof (CART_BIG)) ;
		size_t n ;
		memset (c, 0xA5, sizeof (CART_BIG)) ;
		ret = sf_command (sf, SFC_GET_CART_INFO, c, sizeof (CART_BIG)) ;
		printf (" cart=%d:", ret) ;
		if (ret)
		{	n = CART_FIXED + (size_t) c->tag_text_size ;
			if (n > sizeof (CART_BIG)) n = sizeof (CART_BIG) ;
			puthex ((unsigned char *) c, n) ;
			}
		free (c) ;
		}
	{	uint32_t *cnt = malloc (sizeof (uint32_t)) ;
		*cnt = 0xA5A5A5A5u ;
		ret = sf_command (sf, SFC_GET_CUE_COUNT, cnt, sizeof (uint32_t)) ;
		printf (" cuecount=%d:%u", ret, ret ? *cnt : 0) ;
		free (cnt) ;
		}
	{	CUES_BIG *c = malloc (sizeof (CUES_BIG)) ;
		uint32_t i ;
		memset (c, 0xA5, sizeof (CUES_BIG)) ;
		ret = sf_command (sf, SFC_GET_CUE, c, sizeof (CUES_BIG)) ;
		printf (" cues=%d:", ret) ;
		if (ret)
		{	uint32_t n = c->cue_count > MAXCUES ? MAXCUES : c->cue_count ;
			printf ("%u:", c->cue_count) ;
			for (i = 0 ; i < n ; i++)
			{	SF_CUE_POINT *p = &c->cue_points [i] ;
				if (i) putchar (',') ;
				put_u32 ((uint32_t) p->indx) ; put_u32 (p->position) ; put_u32 ((uint32_t) p->fcc_chunk) ;
				put_u32 ((uint32_t) p->chunk_start) ; put_u32 ((uint32_t) p->block_start) ; put_u32 (p->sample_offset) ;
				putchar ('/') ;
				puthex ((unsigned char *) p->name, strnlen (p->name, sizeof (p->name))) ;
				}
			}
		free (c) ;
		}
	{	SF_INSTRUMENT *ins = malloc (sizeof (SF_INSTRUMENT)) ;
		memset (ins, 0xA5, sizeof (SF_INSTRUMENT)) ;
		ret = sf_command (sf, SFC_GET_INSTRUMENT, ins, sizeof (SF_INSTRUMENT)) ;
		printf (" inst=%d:", ret) ;
		if (ret) puthex ((unsigned char *) ins, sizeof (SF_INSTRUMENT)) ;
		free (ins) ;
		}
	memset (&info, 0, sizeof (info)) ;
	sf_command (sf, SFC_GET_CURRENT_SF_INFO, &info, sizeof (info)) ;
	{	int ch = info.channels > 0 && info.channels < 1024 ? info.channels : 1 ;
		int *map = malloc (ch * sizeof (int)) ;
		memset (map, 0xA5, ch * sizeof (int)) ;
		ret = sf_command (sf, SFC_GET_CHANNEL_MAP_INFO, map, ch * sizeof (int)) ;
		printf (" chmap=%d:", ret) ;
		if (ret) puthex ((unsigned char *) map, ch * sizeof (int)) ;
		free (map) ;
		}
	printf (" err=%d\n", sf_error (sf)) ;
}

static uint32_t
hex8 (const char *p)
{	uint32_t v = 0 ; int k ;
	for (k = 0 ; k < 8 ; k++) v = (v << 4) | (uint32_t) (hexval (p [k]) & 15) ;
	return v ;
}

static void
op_setcues (char **tok, int ntok)
{	SNDFILE *sf = sfh_handle_sf (tok [1]) ;
	uint32_t n = (uint32_t) atol (tok [2]), i ;
	size_t size = sizeof (uint32_t) + (size_t) n * sizeof (SF_CUE_POINT) ;
	unsigned char *blk = calloc (size ? size : 1, 1) ;
	const char *p = ntok > 3 ? tok [3] : "" ;
	int ret ;
	memcpy (blk, &n, sizeof (n)) ;
	for (i = 0 ; i < n && strlen (p) >= 49 ; i++)
	{	SF_CUE_POINT *cp = (SF_CUE_POINT *) (blk + sizeof (uint32_t) + (size_t) i * sizeof (SF_CUE_POINT)) ;
		size_t j = 0 ;
		cp->indx = (int32_t) hex8 (p) ; cp->position = hex8 (p + 8) ; cp->fcc_chunk = (int32_t) hex8 (p + 16) ;
		cp->chunk_start = (int32_t) hex8 (p + 24) ; cp->block_start = (int32_t) hex8 (p + 32) ; cp->sample_offset = hex8 (p + 40) ;
		p += 49 ;
		while (hexval (p [0]) >= 0 && hexval (p [1]) >= 0)
		{	if (j < sizeof (cp->name)) cp->name [j ++] = (char) ((hexval (p [0]) << 4) | hexval (p [1])) ;
			p += 2 ;
			}
		if (*p == ',') p ++ ;
		}
	ret = sf_command (sf, SFC_SET_CUE, blk, (int) size) ;
	printf ("ret=%d err=%d\n", ret, sf_error (sf)) ;
	free (blk) ;
}

void
op_meta (char **tok, int ntok)
{	if (!strcmp (tok [0], "getmeta")) op_getmeta (tok) ;
	else if (!strcmp (tok [0], "setcues") && ntok >= 3) op_setcues (tok, ntok) ;
	else printf ("bad-op\n") ;
}
