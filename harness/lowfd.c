/* lowfd: C14 / C19 -- descriptor ownership at LOW descriptor numbers.
**
** A process that closed its standard streams (a daemon, a helper started with `<&- >&-`) gets 0 / 1 from its next open (): a
** descriptor handed to sf_open_fd, or the one sf_open makes itself, then carries the number of "stdin" / "stdout".  Whether sf_close
** closes it must depend on how the handle was opened (do_not_close_descriptor), never on the number.
**
** Script operation (one transcript line):
**   lowfd <n>[,<n>…]     n in {0, 1}: move the harness's own stream out of the way (F_DUPFD to a number >= 100, the stdio stream
**                        re-made on the copy) and close descriptor n, so that n is the lowest free number from here on
**                        -> ok free=<the numbers now free>
** Use it in a `sfh batch` child (the script lines are in memory there; `sfh script` reads them from descriptor 0), BEFORE `fdw begin`
** (harness/fdworld.c remembers the descriptors open at `begin`; the `begin` line tells the model which numbers are taken).
*/
#include "sfh.h"

void
op_lowfd (char **tok, int ntok)
{	const char *p = ntok > 1 ? tok [1] : "" ;
	int freed [4], nfreed = 0, k ;
	fflush (stdout) ;
	while (*p)
	{	int n = atoi (p) ;
		if (n == 0)
		{	int hi = fcntl (0, F_DUPFD, 100) ;
			if (hi >= 0)
			{	/* nothing reads descriptor 0 in a batch child; keep the stream usable all the same */
				FILE *f = fdopen (hi, "r") ;
				if (f != NULL) stdin = f ;
				}
			close (0) ;
			freed [nfreed ++] = 0 ;
			}
		else if (n == 1)
		{	int hi = fcntl (1, F_DUPFD, 100) ;
			FILE *f = hi >= 0 ? fdopen (hi, "w") : NULL ;
			if (f == NULL) { printf ("bad-lowfd\n") ; return ; }
			setvbuf (f, NULL, _IOFBF, 1 << 16) ;
			stdout = f ;			/* glibc: stdout is an ordinary variable; printf () goes through it */
			close (1) ;
			freed [nfreed ++] = 1 ;
			}
		while (*p && *p != ',') p ++ ;
		if (*p == ',') p ++ ;
		if (nfreed >= 4) break ;
		}
	printf ("ok free=") ;
	for (k = 0 ; k < nfreed ; k++) printf ("%s%d", k ? "," : "", freed [k]) ;
	printf ("\n") ;
}
