/*
** secondfile.c — script op `second`  (C15 / C16: genuine OS failures on the SECOND file of a handle)
**
** Two kinds of handle own more than one file: SD2 (the resource fork `._name` next to the data file; sd2_open / sd2_write_rsrc_fork
** work on it with file.filedes and file.savedes SWAPPED, psf_use_rsrc) and the ALAC encoder (a spool file under TMPDIR).  The fault
** campaigns on the virtual-I/O route never see them.  This op makes ONE complete session on real files in a private directory,
**
**   second try sN <r|w|rw> fmt=<hex> ch=<n> sr=<n> ext=<x> side=<kind> [data=<kind>] [frames=<k>]
**
** where `side` decides what the name of the resource fork (`._sN.<x>`) is before the open and `data` what the data file is:
**   none         nothing there (the library creates it)
**   full         a symbolic link to /dev/full: it opens, every write fails with ENOSPC
**   dir          a directory (and `.AppleDouble` is a plain file): every place the fork is looked for fails to open
**   dangling     a symbolic link into a directory that does not exist: open (O_CREAT) fails with ENOENT
**   fsize:<n>    RLIMIT_FSIZE = n for the whole session (SIGXFSZ ignored): writes beyond n bytes fail with EFBIG -- on the fork,
**                the data file and the ALAC spool alike
**   load:sK      (mode r / rw) the fork is store sK
** The session: sf_open; if it succeeds `frames` frames of shorts are written in one sf_writef_short (modes w / rw) or read (mode r),
** then sf_close.  One transcript line:
**   open=NULL err=<sf_error (NULL)> msglen=<n> fds=<descriptors open now that were not open before the op> low=<same|moved> ebadf=<n>
**   open=ok io=<frames transferred> close=<sf_close> fds=<n> low=<same|moved> ebadf=<n>
** `low` compares the lowest free descriptor number before and after; `ebadf` counts close () calls of the library that failed with
** EBADF during the op (a double close; counted by interposing `close`, as shortio.c does for read / write).
*/
#define _GNU_SOURCE
#include "sfh.h"
#include <errno.h>
#include <fcntl.h>
#include <unistd.h>
#include <signal.h>
#include <dlfcn.h>
#include <sys/stat.h>
#include <sys/resource.h>

static int counting, ebadf_count ;

/* the library's close () calls resolve here (static link: first definition wins); the real call is the next definition in link order,
** resolved when the process starts (a constructor: dlsym's own allocations are made before any `ledger begin`) */
typedef int (*close_fn) (int) ;
static close_fn next_close ;

__attribute__ ((constructor)) static void
second_init (void)
{	next_close = (close_fn) dlsym (RTLD_NEXT, "close") ;
}

static int
__close (int fd)
{	if (next_close == NULL)
		next_close = (close_fn) dlsym (RTLD_NEXT, "close") ;
	return next_close (fd) ;
}

int
close (int fd)
{	int r = __close (fd) ;
	if (counting && r != 0 && errno == EBADF)
		ebadf_count ++ ;
	return r ;
}

static int
count_fds (void)
{	int fd, n = 0 ;
	for (fd = 0 ; fd < 256 ; fd++)
		if (fcntl (fd, F_GETFD) != -1 || errno != EBADF)
			n ++ ;
	return n ;
}

static int
lowest_free (void)
{	int fd = dup (0) ;
	if (fd >= 0)
		__close (fd) ;
	return fd ;
}

static const char *
kv (char **tok, int ntok, const char *key)
{	size_t kl = strlen (key) ; int k ;
	for (k = 0 ; k < ntok ; k++)
		if (!strncmp (tok [k], key, kl) && tok [k][kl] == '=')
			return tok [k] + kl + 1 ;
	return NULL ;
}

static void
plant (const char *path, const char *kind, const char *dir)
{	char t [512] ;
	FILE *f ;
	if (kind == NULL || !strcmp (kind, "none") || !strncmp (kind, "fsize:", 6))
		return ;
	if (!strcmp (kind, "full"))
	{	if (symlink ("/dev/full", path) != 0) { }
		}
	else if (!strcmp (kind, "dir"))
		mkdir (path, 0700) ;
	else if (!strcmp (kind, "dangling"))
	{	snprintf (t, sizeof (t), "%s/no-such-directory/fork", dir) ;
		if (symlink (t, path) != 0) { }
		}
	else if (!strncmp (kind, "load:", 5))
	{	STORE *s = store_get (kind + 5) ;
		if (s != NULL && (f = fopen (path, "wb")) != NULL)
		{	if (s->len > 0) fwrite (s->buf, 1, s->len, f) ;
			fclose (f) ;
			}
		}
}

static void
unplant (const char *path)
{	if (unlink (path) != 0)
		rmdir (path) ;
}

void
op_second (char **tok, int ntok)
{	const char *base = getenv ("SFH_SCRATCH"), *v, *side, *data, *ext, *m ;
	char dir [300], path [400], spath [400], apple [400] ;
	SF_INFO info ;
	SNDFILE *sf ;
	struct rlimit saved, rl ;
	int mode, frames = 0, fds0, low0, fds1, low1, limited = 0 ;
	long lim = -1 ;
	FILE *f ;

	if (ntok < 4 || strcmp (tok [1], "try"))
	{	printf ("bad-op second\n") ;
		return ;
		} ;
	m = tok [3] ;
	mode = !strcmp (m, "r") ? SFM_READ : !strcmp (m, "w") ? SFM_WRITE : SFM_RDWR ;
	memset (&info, 0, sizeof (info)) ;
	if ((v = kv (tok, ntok, "fmt"))) info.format = (int) strtol (v, NULL, 16) ;
	if ((v = kv (tok, ntok, "ch"))) info.channels = atoi (v) ;
	if ((v = kv (tok, ntok, "sr"))) info.samplerate = atoi (v) ;
	if ((v = kv (tok, ntok, "frames"))) frames = atoi (v) ;
	ext = kv (tok, ntok, "ext") ; if (ext == NULL) ext = "dat" ;
	side = kv (tok, ntok, "side") ; if (side == NULL) side = "none" ;
	data = kv (tok, ntok, "data") ; if (data == NULL) data = "none" ;

	snprintf (dir, sizeof (dir), "%s/sfh-2nd-%d", base ? base : "/var/tmp", (int) getpid ()) ;
	mkdir (dir, 0700) ;
	snprintf (path, sizeof (path), "%s/%s.%s", dir, tok [2], ext) ;
	snprintf (spath, sizeof (spath), "%s/._%s.%s", dir, tok [2], ext) ;
	snprintf (apple, sizeof (apple), "%s/.AppleDouble", dir) ;
	if (mode != SFM_WRITE && strcmp (data, "full"))
	{	STORE *s = store_get (tok [2]) ;
		if (s != NULL && (f = fopen (path, "wb")) != NULL)
		{	if (s->len > 0) fwrite (s->buf, 1, s->len, f) ;
			fclose (f) ;
			}
		}
	plant (path, data, dir) ;
	plant (spath, side, dir) ;
	if (!strcmp (side, "dir") && (f = fopen (apple, "wb")) != NULL)
		fclose (f) ;
	if (!strncmp (side, "fsize:", 6)) lim = atol (side + 6) ;
	if (!strncmp (data, "fsize:", 6)) lim = atol (data + 6) ;
	fflush (stdout) ;

	fds0 = count_fds () ;
	low0 = lowest_free () ;
	if (lim >= 0)
	{	getrlimit (RLIMIT_FSIZE, &saved) ;
		signal (SIGXFSZ, SIG_IGN) ;
		rl = saved ; rl.rlim_cur = (rlim_t) lim ;
		limited = setrlimit (RLIMIT_FSIZE, &rl) == 0 ;
		}
	ebadf_count = 0 ;
	counting = 1 ;
	sf = sf_open (path, mode, &info) ;
	if (sf == NULL)
	{	int e = sf_error (NULL) ;
		const char *msg = sf_strerror (NULL) ;
		counting = 0 ;
		if (limited) setrlimit (RLIMIT_FSIZE, &saved) ;
		fds1 = count_fds () ; low1 = lowest_free () ;
		printf ("open=NULL err=%d msglen=%d fds=%d low=%s ebadf=%d\n", e, (int) (msg ? strlen (msg) : 0), fds1 - fds0, low1 == low0 ? "same" : "moved", ebadf_count) ;
		}
	else
	{	sf_count_t io = 0 ;
		int r ;
		if (frames > 0)
		{	short *buf = calloc ((size_t) frames * info.channels, sizeof (short)) ;
			int k ;
			for (k = 0 ; k < frames * info.channels ; k++) buf [k] = (short) (k * 37) ;
			io = (mode == SFM_READ) ? sf_readf_short (sf, buf, frames) : sf_writef_short (sf, buf, frames) ;
			free (buf) ;
			}
		r = sf_close (sf) ;
		counting = 0 ;
		if (limited) setrlimit (RLIMIT_FSIZE, &saved) ;
		fds1 = count_fds () ; low1 = lowest_free () ;
		printf ("open=ok io=%ld close=%d fds=%d low=%s ebadf=%d\n", (long) io, r, fds1 - fds0, low1 == low0 ? "same" : "moved", ebadf_count) ;
		}
	unplant (path) ; unplant (spath) ; unplant (apple) ;
	rmdir (dir) ;
}
