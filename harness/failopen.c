/*
** failopen.c -- script op `failopen sN <r|w|rw> fmt=<hex> ch=<n> sr=<n> route=vio|path|fd1|fd0 [ext=x]`   (C09 / C16 / C03)
**
** One complete open attempt on the bytes of store sN, like `ledger tryopen`, that also answers the question
** "did the attempt change the caller's file?": the bytes the caller handed over are kept aside, and after the attempt the file
** (vio: the store; path / fd: the file read back from the private directory) is compared with them.
**
**   open=NULL err=<sf_error (NULL)> msglen=<n> fdleft=<0|1> file=same|changed len=<before> newlen=<after> firstdiff=<offset|-1>
**   open=ok close=<sf_close result> fdleft=<0|1> file=same|changed len= newlen= firstdiff=
**
** An open that succeeds is closed at once (a successful SFM_RDWR open may rewrite the header: that is not judged here).
** In mode w on the path / fd routes the file is created empty by the open call itself (len=0).
*/
#include "sfh.h"

static const char *
kv (char **tok, int ntok, const char *key)
{	size_t n = strlen (key) ;
	int k ;
	for (k = 0 ; k < ntok ; k++)
		if (!strncmp (tok [k], key, n) && tok [k][n] == '=')
			return tok [k] + n + 1 ;
	return NULL ;
}

void
op_failopen (char **tok, int ntok)
{	STORE *s ;
	const char *m, *v, *route, *ext, *base = getenv ("SFH_SCRATCH") ;
	int mode ;
	SF_INFO info ;
	SNDFILE *sf = NULL ;
	char dir [300], path [400] ;
	int fd = -1, close_desc = 1, fdleft = 0, is_vio ;
	unsigned char *before = NULL, *after = NULL ;
	long blen = 0, alen = 0, k, firstdiff = -1 ;
	FILE *f ;

	if (ntok < 3 || (s = store_get (tok [1])) == NULL) { printf ("bad-op failopen\n") ; return ; }
	m = tok [2] ;
	mode = !strcmp (m, "r") ? SFM_READ : !strcmp (m, "w") ? SFM_WRITE : !strcmp (m, "rw") ? SFM_RDWR : atoi (m) ;
	route = kv (tok, ntok, "route") ;
	ext = kv (tok, ntok, "ext") ;
	if (route == NULL) route = "vio" ;
	is_vio = !strcmp (route, "vio") ;

	memset (&info, 0, sizeof (info)) ;
	if ((v = kv (tok, ntok, "fmt"))) info.format = (int) strtol (v, NULL, 16) ;
	if ((v = kv (tok, ntok, "ch"))) info.channels = atoi (v) ;
	if ((v = kv (tok, ntok, "sr"))) info.samplerate = atoi (v) ;

	if (mode == SFM_WRITE && !is_vio)
		blen = 0 ;		/* the open call itself creates / truncates the file */
	else
		blen = (long) s->len ;
	before = malloc (blen > 0 ? blen : 1) ;
	if (blen > 0) memcpy (before, s->buf, blen) ;

	if (is_vio)
	{	s->pos = 0 ;
		sf = sf_open_virtual (&mem_vio, mode, &info, s) ;
		}
	else
	{	snprintf (dir, sizeof (dir), "%s/sfh-fo-%d", base ? base : "/var/tmp", (int) getpid ()) ;
		mkdir (dir, 0700) ;
		snprintf (path, sizeof (path), "%s/%s.%s", dir, tok [1], ext ? ext : "dat") ;
		if (mode != SFM_WRITE && (f = fopen (path, "wb")) != NULL)
		{	if (s->len > 0) fwrite (s->buf, 1, s->len, f) ;
			fclose (f) ;
			}
		if (!strcmp (route, "path"))
			sf = sf_open (path, mode, &info) ;
		else
		{	close_desc = strcmp (route, "fd0") != 0 ;
			fd = open (path, mode == SFM_READ ? O_RDONLY : mode == SFM_WRITE ? (O_WRONLY | O_CREAT | O_TRUNC) : (O_RDWR | O_CREAT), 0600) ;
			sf = sf_open_fd (fd, mode, &info, close_desc) ;
			}
		}

	if (sf == NULL)
	{	int e = sf_error (NULL) ;
		const char *msg = sf_strerror (NULL) ;
		if (fd >= 0 && close_desc) fdleft = fcntl (fd, F_GETFD) != -1 ;
		printf ("open=NULL err=%d msglen=%d fdleft=%d", e, (int) (msg ? strlen (msg) : 0), fdleft) ;
		}
	else
	{	int r = sf_close (sf) ;
		if (fd >= 0 && close_desc) fdleft = fcntl (fd, F_GETFD) != -1 ;
		printf ("open=ok close=%d fdleft=%d", r, fdleft) ;
		}
	if (fd >= 0 && !close_desc) close (fd) ;		/* ours */

	if (is_vio)
	{	alen = (long) s->len ;
		after = malloc (alen > 0 ? alen : 1) ;
		if (alen > 0) memcpy (after, s->buf, alen) ;
		}
	else
	{	struct stat st ;
		alen = 0 ;
		if (stat (path, &st) == 0) alen = (long) st.st_size ;
		after = malloc (alen > 0 ? alen : 1) ;
		if (alen > 0 && (f = fopen (path, "rb")) != NULL)
		{	alen = (long) fread (after, 1, alen, f) ;
			fclose (f) ;
			}
		unlink (path) ; rmdir (dir) ;
		}

	for (k = 0 ; k < blen && k < alen ; k++)
		if (before [k] != after [k]) { firstdiff = k ; break ; }
	if (firstdiff < 0 && blen != alen) firstdiff = blen < alen ? blen : alen ;
	printf (" file=%s len=%ld newlen=%ld firstdiff=%ld\n", firstdiff < 0 ? "same" : "changed", blen, alen, firstdiff) ;
	free (before) ; free (after) ;
}
