/* C17 grid: sf_command over (command id x datasize x data kind) for one (format case, handle state, flavour).
**
**   sfh grid c17 consts
**   sfh grid c17 <format-hex> <null|r|w|rw> <plain|rich|used>      (stdin: one line per command id: "<id-hex> <maxsize> [extra sizes ...]")
**   sfh grid c17 point <format-hex> <state> <flavour> <id-hex> <size> <kind>     (one point, in-process: used by replays)
**
** <flavour> may carry a ROUTE suffix: plain@path, used@fd, plain@pipe (default @vio = sf_open_virtual on a memory store).
** path = sf_open on a private temporary file, fd = sf_open_fd (close_desc 1) on it, pipe = sf_open_fd on one end of a pipe
** (read handle: the master file is in the pipe; write handle: the other end stays open and is drained after sf_close).
** The route is handle state that command guards read (psf->virtual_io, psf->sf.seekable / psf->is_pipe): `facts` prints
** virtual=<0|1> and the seekable flag the library reports.
**
** One canonical line per point:
**   p cmd=<hex> size=<n> data=<kind> | ret=<n> err=<n> chg=<ranges|-> z=<first zero byte in block after the call|-1> same=<1|0:groups> probe=<frames read:next two frames|-> [observer=impure:<groups>]
**   p cmd=<hex> size=<n> data=<kind> | ABORT status=77        (sanitizer report: access outside the block)
**   p cmd=<hex> size=<n> data=<kind> | CRASH signal=<n>       (e.g. 11 for a NULL dereference; run with handle_segv=0)
**   p cmd=<hex> size=<n> data=<kind> | TIMEOUT
**
** The data block: `size` usable bytes at an 8-aligned heap address, followed by TAIL poisoned bytes
** (__asan_poison_memory_region is byte exact at an aligned start), so that *any* access in
** [size, size + TAIL) through the data pointer is a sanitizer report, however far past the end it is
** (a plain malloc (size) block only protects its red zone: the length fields at offsets 604 and 2048
** that some commands read before checking datasize would fall outside it for small sizes).
** Every point gets a fresh handle, built the same way, so points are independent and replayable.
*/
#include "sfh.h"
#include <sys/mman.h>
#include <sys/stat.h>
#include <fcntl.h>
#include <sanitizer/asan_interface.h>

#define TAIL	(64 * 1024)
#define FRAMES_FILE	16
#define CH		2

typedef struct
{	int format ;
	int state ;		/* 0 null, SFM_READ, SFM_WRITE, SFM_RDWR */
	int flavour ;	/* 0 plain, 1 rich, 2 used */
	int route ;		/* 0 vio, 1 path, 2 fd, 3 pipe */
} COMBO ;

enum { R_VIO, R_PATH, R_FD, R_PIPE } ;
static const char *ROUTES [] = { "vio", "path", "fd", "pipe" } ;
static char g_dir [200], g_path [240] ;
static int g_pipe_other = -1 ;	/* the end of the pipe the library does not own */

static void
route_init (const COMBO *c)
{	const char *base = getenv ("SFH_SCRATCH") ;
	if (c->route == R_VIO || g_dir [0]) return ;
	snprintf (g_dir, sizeof (g_dir), "%s/sfh-c17-XXXXXX", base ? base : "/var/tmp") ;
	if (mkdtemp (g_dir) == NULL) { printf ("facts open-failed\n") ; exit (0) ; }
	snprintf (g_path, sizeof (g_path), "%s/f.dat", g_dir) ;
}

static void
route_cleanup (void)
{	if (!g_dir [0]) return ;
	unlink (g_path) ;
	rmdir (g_dir) ;
	g_dir [0] = 0 ;
}

static void
route_after_close (void)
{	if (g_pipe_other >= 0) { close (g_pipe_other) ; g_pipe_other = -1 ; }
}

/* open the handle of a non-virtual route; `bytes` (read state) is the file the handle is opened on */
static SNDFILE *
route_open (const COMBO *c, SF_INFO *info, const unsigned char *bytes, sf_count_t len)
{	SNDFILE *sf ; int fd, pfd [2] ;
	route_after_close () ;
	if (c->route == R_PIPE)
	{	if (c->state == SFM_RDWR || len > 60000 || pipe (pfd) != 0) return NULL ;
		if (c->state == SFM_READ)
		{	if (len > 0 && write (pfd [1], bytes, len) != len) { close (pfd [0]) ; close (pfd [1]) ; return NULL ; }
			close (pfd [1]) ;
			sf = sf_open_fd (pfd [0], SFM_READ, info, 1) ;
			if (sf == NULL) close (pfd [0]) ;
			return sf ;
			}
		fcntl (pfd [0], F_SETFL, O_NONBLOCK) ;
		g_pipe_other = pfd [0] ;
		sf = sf_open_fd (pfd [1], SFM_WRITE, info, 1) ;
		if (sf == NULL) { close (pfd [1]) ; route_after_close () ; }
		return sf ;
		}
	unlink (g_path) ;
	if (c->state == SFM_READ)
	{	fd = open (g_path, O_WRONLY | O_CREAT | O_TRUNC, 0600) ;
		if (fd < 0) return NULL ;
		if (len > 0 && write (fd, bytes, len) != len) { close (fd) ; return NULL ; }
		close (fd) ;
		}
	if (c->route == R_PATH)
		return sf_open (g_path, c->state, info) ;
	fd = open (g_path, c->state == SFM_READ ? O_RDONLY : c->state == SFM_WRITE ? (O_WRONLY | O_CREAT | O_TRUNC) : (O_RDWR | O_CREAT | O_TRUNC), 0600) ;
	if (fd < 0) return NULL ;
	sf = sf_open_fd (fd, c->state, info, 1) ;
	if (sf == NULL) close (fd) ;
	return sf ;
}

/* length and the first MiB of the file behind a path / fd handle (SFC_FILE_TRUNCATE may make it sparse and huge) */
static uint64_t
route_store_digest (uint64_t h0)
{	static unsigned char buf [1 << 16] ; struct stat st ; uint64_t h = h0 ; int fd ; long long done = 0 ; ssize_t r ;
	unsigned long long x ;
	if (stat (g_path, &st) != 0) return h ;
	h = h0 ;
	{	long long sz = (long long) st.st_size ; const unsigned char *p = (const unsigned char *) &sz ; size_t k ;
		for (k = 0 ; k < sizeof (sz) ; k++) { h ^= p [k] ; h *= 1099511628211ULL ; }
		}
	fd = open (g_path, O_RDONLY) ;
	if (fd < 0) return h ;
	while (done < (1 << 20) && (r = read (fd, buf, sizeof (buf))) > 0)
	{	ssize_t k ;
		for (k = 0 ; k < r ; k++) { h ^= buf [k] ; h *= 1099511628211ULL ; }
		done += r ;
		}
	close (fd) ;
	x = h ;
	return x ;
}

typedef struct
{	uint64_t pos, info, settings, meta, store ;
} DIGEST ;

static STORE *g_master, *g_work ;

/* The memory store of vio.c grows to wherever the library seeks before writing.  SFC_FILE_TRUNCATE and
** SFC_SET_RAW_START_OFFSET take a 64-bit position from *data, so a write may land at 0xA5A5... ; inside
** the callback contract such a write simply transfers 0 bytes (device full). */
#define STORE_LIMIT	(1 << 24)
static sf_count_t
c17_write (const void *ptr, sf_count_t count, void *ud)
{	STORE *s = ud ;
	if (count > 0 && (s->pos > STORE_LIMIT || s->pos + count > STORE_LIMIT))
		return 0 ;
	return mem_vio.write (ptr, count, ud) ;
}
static SF_VIRTUAL_IO c17_vio ;

static uint64_t
fnv (uint64_t h, const void *p, size_t n)
{	const unsigned char *c = p ; size_t k ;
	for (k = 0 ; k < n ; k++) { h ^= c [k] ; h *= 1099511628211ULL ; }
	return h ;
}
#define FNV0 1469598103934665603ULL

static int
is_wavlike (int format)
{	int c = format & SF_FORMAT_TYPEMASK ;
	return c == SF_FORMAT_WAV || c == SF_FORMAT_WAVEX || c == SF_FORMAT_RF64 ;
}

/* metadata of the rich / used flavours (set before any audio is written) */
static void
set_metadata (SNDFILE *sf, int format)
{	static SF_BROADCAST_INFO bi ;
	static SF_CART_INFO ci ;
	static SF_INSTRUMENT in ;
	static struct { uint32_t cue_count ; SF_CUE_POINT cue_points [2] ; } cues ;
	int map [CH] = { SF_CHANNEL_MAP_LEFT, SF_CHANNEL_MAP_RIGHT } ;
	int k ;

	sf_set_string (sf, SF_STR_TITLE, "c17 title") ;
	sf_set_string (sf, SF_STR_ARTIST, "c17 artist") ;
	sf_set_string (sf, SF_STR_COMMENT, "c17 comment") ;

	memset (&bi, 0, sizeof (bi)) ;
	snprintf (bi.description, sizeof (bi.description), "c17 description") ;
	snprintf (bi.originator, sizeof (bi.originator), "c17") ;
	snprintf (bi.coding_history, sizeof (bi.coding_history), "A=PCM,F=8000,W=16,M=stereo,T=c17\r\n") ;
	bi.coding_history_size = (uint32_t) strlen (bi.coding_history) ;
	if (is_wavlike (format))
		sf_command (sf, SFC_SET_BROADCAST_INFO, &bi, sizeof (bi)) ;

	memset (&ci, 0, sizeof (ci)) ;
	memcpy (ci.version, "0101", 4) ;
	snprintf (ci.title, sizeof (ci.title), "c17 cart") ;
	snprintf (ci.tag_text, sizeof (ci.tag_text), "tag text\r\n") ;
	ci.tag_text_size = (uint32_t) strlen (ci.tag_text) ;
	if (is_wavlike (format))
		sf_command (sf, SFC_SET_CART_INFO, &ci, sizeof (ci)) ;

	memset (&cues, 0, sizeof (cues)) ;
	cues.cue_count = 2 ;
	for (k = 0 ; k < 2 ; k++)
	{	cues.cue_points [k].indx = k + 1 ;
		cues.cue_points [k].position = 3 * k + 1 ;
		cues.cue_points [k].fcc_chunk = 0x61746164 ; /* 'data' */
		cues.cue_points [k].sample_offset = 3 * k + 1 ;
		snprintf (cues.cue_points [k].name, sizeof (cues.cue_points [k].name), "cue%d", k) ;
		}
	sf_command (sf, SFC_SET_CUE, &cues, sizeof (cues)) ;

	memset (&in, 0, sizeof (in)) ;
	in.gain = 1 ; in.basenote = 60 ; in.detune = 0 ; in.velocity_lo = 1 ; in.velocity_hi = 127 ; in.key_lo = 0 ; in.key_hi = 127 ;
	in.loop_count = 1 ;
	in.loops [0].mode = SF_LOOP_FORWARD ; in.loops [0].start = 1 ; in.loops [0].end = 5 ; in.loops [0].count = 0 ;
	sf_command (sf, SFC_SET_INSTRUMENT, &in, sizeof (in)) ;

	sf_command (sf, SFC_SET_CHANNEL_MAP_INFO, map, sizeof (map)) ;
}

static void
write_frames (SNDFILE *sf, int frames)
{	short buf [FRAMES_FILE * CH] ; int k ;
	for (k = 0 ; k < frames * CH ; k++) buf [k] = (short) (1000 * (k + 1) * ((k & 1) ? -1 : 1)) ;
	sf_writef_short (sf, buf, frames) ;
}

static void
fill_info (SF_INFO *info, int format)
{	memset (info, 0, sizeof (*info)) ;
	info->format = format ; info->channels = CH ; info->samplerate = 8000 ;
}

/* the file a read-state handle is opened on: made once per process */
static int
make_master (const COMBO *c)
{	SF_INFO info ; SNDFILE *sf ;
	fill_info (&info, c->format) ;
	g_master->len = 0 ; g_master->pos = 0 ;
	sf = sf_open_virtual (&c17_vio, SFM_WRITE, &info, g_master) ;
	if (sf == NULL) return 0 ;
	if (c->flavour >= 1) set_metadata (sf, c->format) ;
	write_frames (sf, FRAMES_FILE) ;
	sf_close (sf) ;
	return 1 ;
}

static SNDFILE *
build_handle (const COMBO *c)
{	SF_INFO info ; SNDFILE *sf ;
	if (c->state == 0) return NULL ;
	fill_info (&info, c->format) ;
	if (c->state == SFM_READ)
	{	short buf [5 * CH] ;
		store_set (g_work, g_master->buf, g_master->len) ;
		if ((c->format & SF_FORMAT_TYPEMASK) != SF_FORMAT_RAW) info.format = 0 ;
		if (c->route == R_VIO)
			sf = sf_open_virtual (&c17_vio, SFM_READ, &info, g_work) ;
		else
			sf = route_open (c, &info, g_master->buf, g_master->len) ;
		if (sf != NULL && c->flavour == 2)
			sf_readf_short (sf, buf, 5) ;
		return sf ;
		}
	g_work->len = 0 ; g_work->pos = 0 ;
	if (c->route == R_VIO)
		sf = sf_open_virtual (&c17_vio, c->state, &info, g_work) ;
	else
		sf = route_open (c, &info, NULL, 0) ;
	if (sf == NULL) return NULL ;
	if (c->flavour >= 1) set_metadata (sf, c->format) ;
	if (c->flavour == 2)
	{	write_frames (sf, 8) ;
		if (c->state == SFM_RDWR)
			sf_seek (sf, 3, SEEK_SET | SFM_READ) ;
		}
	return sf ;
}

/* Observations used for the digest: each of them is a call whose code path stores nothing in the
** handle except the error field (which every API entry resets).  Positions: sf_seek (h, 0, SEEK_CUR)
** returns the cursor without seeking in read and write mode; in read/write mode the two cursors are
** asked for separately with SEEK_CUR | SFM_READ / SFM_WRITE (plain SEEK_CUR would move the read cursor). */
static void
digest (SNDFILE *sf, const COMBO *c, DIGEST *d)
{	static unsigned char big [20000] ;
	SF_INFO info ; long long p [2] = { -2, -2 } ;
	int v [8], k, r ;
	uint64_t h ;

	memset (d, 0, sizeof (*d)) ;
	if (sf == NULL) return ;

	if (c->state == SFM_RDWR)
	{	p [0] = sf_seek (sf, 0, SEEK_CUR | SFM_READ) ;
		p [1] = sf_seek (sf, 0, SEEK_CUR | SFM_WRITE) ;
		}
	else
		p [0] = sf_seek (sf, 0, SEEK_CUR) ;
	d->pos = fnv (FNV0, p, sizeof (p)) ;

	memset (&info, 0, sizeof (info)) ;
	sf_command (sf, SFC_GET_CURRENT_SF_INFO, &info, sizeof (info)) ;
	h = fnv (FNV0, &info.frames, sizeof (info.frames)) ;
	h = fnv (h, &info.samplerate, sizeof (int)) ; h = fnv (h, &info.channels, sizeof (int)) ; h = fnv (h, &info.format, sizeof (int)) ;
	h = fnv (h, &info.sections, sizeof (int)) ; h = fnv (h, &info.seekable, sizeof (int)) ;
	d->info = h ;

	v [0] = sf_command (sf, SFC_GET_NORM_DOUBLE, NULL, 0) ;
	v [1] = sf_command (sf, SFC_GET_NORM_FLOAT, NULL, 0) ;
	v [2] = sf_command (sf, SFC_GET_CLIPPING, NULL, 0) ;
	v [3] = sf_command (sf, SFC_RAW_DATA_NEEDS_ENDSWAP, NULL, 0) ;
	v [4] = is_wavlike (c->format) ? sf_command (sf, SFC_WAVEX_GET_AMBISONIC, NULL, 0) : 0 ;
	v [5] = v [6] = v [7] = 0 ;
	d->settings = fnv (FNV0, v, sizeof (v)) ;

	h = FNV0 ;
	for (k = SF_STR_FIRST ; k <= SF_STR_LAST ; k++)
	{	const char *s = sf_get_string (sf, k) ;
		h = fnv (h, &k, sizeof (k)) ;
		if (s) h = fnv (h, s, strlen (s) + 1) ;
		}
	memset (big, 0, sizeof (big)) ;
	r = sf_command (sf, SFC_GET_BROADCAST_INFO, big, 16000) ; h = fnv (h, &r, sizeof (r)) ; h = fnv (h, big, 16000) ;
	memset (big, 0, sizeof (big)) ;
	r = sf_command (sf, SFC_GET_CART_INFO, big, 16000) ; h = fnv (h, &r, sizeof (r)) ; h = fnv (h, big, 16000) ;
	memset (big, 0, sizeof (big)) ;
	r = sf_command (sf, SFC_GET_CUE, big, sizeof (SF_CUES)) ; h = fnv (h, &r, sizeof (r)) ;
	if (r) { uint32_t n ; memcpy (&n, big, 4) ; if (n > 100) n = 100 ; h = fnv (h, big, 4 + n * sizeof (SF_CUE_POINT)) ; }
	memset (big, 0, sizeof (big)) ;
	r = sf_command (sf, SFC_GET_INSTRUMENT, big, sizeof (SF_INSTRUMENT)) ; h = fnv (h, &r, sizeof (r)) ; h = fnv (h, big, sizeof (SF_INSTRUMENT)) ;
	memset (big, 0, sizeof (big)) ;
	r = sf_command (sf, SFC_GET_LOOP_INFO, big, sizeof (SF_LOOP_INFO)) ; h = fnv (h, &r, sizeof (r)) ; h = fnv (h, big, sizeof (SF_LOOP_INFO)) ;
	memset (big, 0, sizeof (big)) ;
	r = sf_command (sf, SFC_GET_CHANNEL_MAP_INFO, big, sizeof (int) * info.channels) ; h = fnv (h, &r, sizeof (r)) ; h = fnv (h, big, 64) ;
	memset (big, 0, sizeof (big)) ;
	r = sf_command (sf, SFC_GET_MAX_ALL_CHANNELS, big, sizeof (double) * info.channels) ; h = fnv (h, &r, sizeof (r)) ; h = fnv (h, big, 64) ;
	memset (big, 0, sizeof (big)) ;
	r = sf_command (sf, SFC_GET_EMBED_FILE_INFO, big, sizeof (SF_EMBED_FILE_INFO)) ; h = fnv (h, &r, sizeof (r)) ; h = fnv (h, big, sizeof (SF_EMBED_FILE_INFO)) ;
	d->meta = h ;

	/* the bytes of the file; the offset of the underlying descriptor is not handle state (the library
	** re-seeks when it changes direction) — what it means for the audio is observed by probe () below */
	if (c->route == R_PATH || c->route == R_FD)
		h = route_store_digest (FNV0) ;
	else if (c->route == R_PIPE)
		h = FNV0 ;		/* what went into the pipe cannot be taken back: not observed */
	else
	{	h = fnv (FNV0, &g_work->len, sizeof (g_work->len)) ;
		h = fnv (h, g_work->buf, g_work->len) ;
		}
	d->store = h ;
}

/* After the last digest: read the next two frames (read and read/write handles).  Not pure, so it comes
** last; for a query command the frames must be the ones a fresh handle delivers. */
static void
probe (SNDFILE *sf, const COMBO *c)
{	short buf [2 * CH] ; sf_count_t n ; int k ;
	if (sf == NULL || c->state == SFM_WRITE) { printf (" probe=-") ; return ; }
	memset (buf, 0x5A, sizeof (buf)) ;
	n = sf_readf_short (sf, buf, 2) ;
	printf (" probe=%d:", (int) n) ;
	for (k = 0 ; k < 2 * CH ; k++) printf ("%04x", (unsigned) (unsigned short) buf [k]) ;
}

/* ---- data blocks ---------------------------------------------------------------------------- */
static unsigned char *arena ;	/* 8-aligned; [0,size) usable, [size, size+TAIL) poisoned */
static size_t arena_cap ;

static const char *KINDS [] = { "null", "a5", "zero", "one", "nl" } ;
enum { K_NULL, K_A5, K_ZERO, K_ONE, K_NL, K_COUNT } ;

/* word fills `w<8 hex digits>` (round 8): the whole block is the little-endian 32-bit word repeated, so that EVERY 4-byte aligned
** size / count field of a command's struct (cart tag_text_size, bext coding_history_size, cue_count, loop_count ...) holds that
** value: 7fffffff, 80000000, ffffffff, 2^32 - offsetof (variable part) +- 1 ... -- the values at which 32-bit guard arithmetic wraps.
** kind number = K_COUNT + index into word_vals */
#define MAX_WORDS 48
static unsigned word_vals [MAX_WORDS] ; static int word_n ;

static int
kind_of (const char *s)
{	int k ;
	for (k = 0 ; k < K_COUNT ; k++) if (!strcmp (s, KINDS [k])) return k ;
	if (s [0] == 'w' && strlen (s) == 9 && strspn (s + 1, "0123456789abcdef") == 8)
	{	unsigned v = (unsigned) strtoul (s + 1, NULL, 16) ;
		for (k = 0 ; k < word_n ; k++) if (word_vals [k] == v) return K_COUNT + k ;
		if (word_n < MAX_WORDS) { word_vals [word_n] = v ; return K_COUNT + word_n ++ ; }
		}
	return -1 ;
}

static const char *
kind_name (int kind)
{	static char buf [16] ;
	if (kind < K_COUNT) return KINDS [kind] ;
	snprintf (buf, sizeof (buf), "w%08x", word_vals [kind - K_COUNT]) ;
	return buf ;
}

static unsigned char
fill_byte (int kind, size_t i, size_t size)
{	if (kind >= K_COUNT) return (unsigned char) (word_vals [kind - K_COUNT] >> (8 * (i & 3))) ;
	switch (kind)
	{	case K_A5 : return 0xA5 ;
		case K_ZERO : return 0 ;
		case K_ONE : return (i & 3) == 0 ? 1 : 0 ;
		case K_NL : return i + 1 == size ? 0x0A : 0 ;
		}
	return 0 ;
}

static unsigned char *
block_make (int kind, size_t size)
{	size_t i ;
	if (kind == K_NULL) return NULL ;
	if (arena == NULL || arena_cap < size)
	{	if (arena) { ASAN_UNPOISON_MEMORY_REGION (arena, arena_cap + TAIL) ; free (arena) ; }
		arena_cap = size < 4096 ? 4096 : size ;
		if (posix_memalign ((void **) &arena, 64, arena_cap + TAIL)) exit (9) ;
		}
	ASAN_UNPOISON_MEMORY_REGION (arena, arena_cap + TAIL) ;
	for (i = 0 ; i < size ; i++) arena [i] = fill_byte (kind, i, size) ;
	memset (arena + size, 0xEE, arena_cap + TAIL - size) ;
	ASAN_POISON_MEMORY_REGION (arena + size, arena_cap + TAIL - size) ;
	return arena ;
}

static void
print_changes (const unsigned char *blk, int kind, size_t size)
{	size_t i = 0 ; int first = 1 ; long z = -1 ;
	printf (" chg=") ;
	while (i < size)
	{	if (blk [i] != fill_byte (kind, i, size))
		{	size_t j = i ;
			while (j < size && blk [j] != fill_byte (kind, j, size)) j++ ;
			printf ("%s%zu-%zu", first ? "" : ",", i, j) ;
			first = 0 ;
			i = j ;
			}
		else
			i++ ;
		}
	if (first) printf ("-") ;
	for (i = 0 ; i < size ; i++) if (blk [i] == 0) { z = (long) i ; break ; }
	printf (" z=%ld", z) ;
}

static void
run_point (const COMBO *c, int cmd, int size, int kind)
{	SNDFILE *sf ; DIGEST d0, d1, d2 ; unsigned char *blk ; int ret, err ;
	size_t bsize = kind == K_NULL ? 0 : (size_t) size ;

	printf ("p cmd=%x size=%d data=%s |", (unsigned) cmd, size, kind_name (kind)) ;
	alarm (10) ;
	sf = build_handle (c) ;
	if (sf == NULL && c->state != 0)
	{	printf (" open-failed\n") ; fflush (stdout) ; alarm (0) ; return ; }
	blk = block_make (kind, bsize) ;
	digest (sf, c, &d0) ;
	digest (sf, c, &d1) ;	/* twice: if these differ, one of the digest's own queries is impure */
	fflush (stdout) ;
	ret = sf_command (sf, cmd, blk, size) ;
	err = sf_error (sf) ;
	digest (sf, c, &d2) ;
	printf (" ret=%d err=%d", ret, err) ;
	if (blk) print_changes (blk, kind, bsize) ; else printf (" chg=- z=-1") ;
	if (!memcmp (&d1, &d2, sizeof (d1)))
		printf (" same=1") ;
	else
		printf (" same=0:%s%s%s%s%s", d1.pos != d2.pos ? "pos," : "", d1.info != d2.info ? "info," : "", d1.settings != d2.settings ? "settings," : "",
				d1.meta != d2.meta ? "meta," : "", d1.store != d2.store ? "store," : "") ;
	probe (sf, c) ;
	if (memcmp (&d0, &d1, sizeof (d0)))
		printf (" observer=impure:%s%s%s%s%s", d0.pos != d1.pos ? "pos," : "", d0.info != d1.info ? "info," : "", d0.settings != d1.settings ? "settings," : "",
				d0.meta != d1.meta ? "meta," : "", d0.store != d1.store ? "store," : "") ;
	fflush (stdout) ;
	if (sf) sf_close (sf) ;		/* a death in sf_close still belongs to this point: the line is not finished yet */
	route_after_close () ;
	alarm (0) ;
	printf ("\n") ;
}

/* With SFH_C17_FASTABORT set (the grid run) a sanitizer report is reduced to its exit status: the
** report text costs about 2 ms per dead child and nobody reads it; replays run without it. */
static int fast_abort ;
void __asan_on_error (void) ;
void
__asan_on_error (void)
{	if (fast_abort) SFH_EXIT (77) ;
}

static void
on_alarm_c17 (int sig)
{	(void) sig ; SFH_EXIT (3) ; }

/* ---- facts about the fresh handle (what the model is told about it) ---------------------------- */
static void
print_facts (const COMBO *c)
{	static unsigned char big [20000] ;
	SNDFILE *sf = build_handle (c) ;
	SF_INFO info ; uint32_t u ; int r ;
	const char *ver = sf_version_string () ;
	printf ("facts verlen=%d", (int) strlen (ver)) ;
	if (c->state == 0)
	{	/* the global parse log (sf_command (NULL, SFC_GET_LOG_INFO)) */
		sf_command (NULL, SFC_GET_LOG_INFO, big, sizeof (big)) ;
		printf (" state=null loglen=%d\n", (int) strlen ((char *) big)) ;
		return ;
		}
	if (sf == NULL) { printf (" open-failed\n") ; return ; }
	memset (&info, 0, sizeof (info)) ;
	sf_command (sf, SFC_GET_CURRENT_SF_INFO, &info, sizeof (info)) ;
	printf (" state=%s format=%x ch=%d frames=%lld seekable=%d", c->state == SFM_READ ? "r" : c->state == SFM_WRITE ? "w" : "rw",
			info.format, info.channels, (long long) info.frames, info.seekable) ;
	sf_command (sf, SFC_GET_LOG_INFO, big, sizeof (big)) ;
	printf (" loglen=%d", (int) strlen ((char *) big)) ;
	if (c->state == SFM_RDWR)
		printf (" rpos=%lld wpos=%lld", (long long) sf_seek (sf, 0, SEEK_CUR | SFM_READ), (long long) sf_seek (sf, 0, SEEK_CUR | SFM_WRITE)) ;
	else if (c->state == SFM_READ)
		printf (" rpos=%lld wpos=0", (long long) sf_seek (sf, 0, SEEK_CUR)) ;
	else
		printf (" rpos=0 wpos=%lld", (long long) sf_seek (sf, 0, SEEK_CUR)) ;
	printf (" written=%d", c->flavour == 2 && c->state != SFM_READ) ;
	printf (" virtual=%d route=%s", c->route == R_VIO, ROUTES [c->route]) ;
	memset (big, 0, sizeof (big)) ;
	r = sf_command (sf, SFC_GET_BROADCAST_INFO, big, 17000) ;
	memcpy (&u, big + offsetof (SF_BROADCAST_INFO, coding_history_size), 4) ;
	printf (" bext=%d", r ? (int) (offsetof (SF_BROADCAST_INFO, coding_history) + u) : -1) ;
	memset (big, 0, sizeof (big)) ;
	r = sf_command (sf, SFC_GET_CART_INFO, big, 19000) ;
	memcpy (&u, big + offsetof (SF_CART_INFO, tag_text_size), 4) ;
	printf (" cart=%d", r ? (int) (offsetof (SF_CART_INFO, tag_text) + u) : -1) ;
	u = 0 ;
	r = sf_command (sf, SFC_GET_CUE_COUNT, &u, sizeof (u)) ;
	printf (" cues=%d", r ? (int) u : -1) ;
	printf (" inst=%d", sf_command (sf, SFC_GET_INSTRUMENT, big, sizeof (SF_INSTRUMENT))) ;
	printf (" loop=%d", sf_command (sf, SFC_GET_LOOP_INFO, big, sizeof (SF_LOOP_INFO))) ;
	printf (" chmap=%d", sf_command (sf, SFC_GET_CHANNEL_MAP_INFO, big, sizeof (int) * info.channels)) ;
	printf (" peak=%d", sf_command (sf, SFC_GET_SIGNAL_MAX, big, sizeof (double))) ;
	printf (" normd=%d normf=%d clip=%d swap=%d", sf_command (sf, SFC_GET_NORM_DOUBLE, NULL, 0), sf_command (sf, SFC_GET_NORM_FLOAT, NULL, 0),
			sf_command (sf, SFC_GET_CLIPPING, NULL, 0), sf_command (sf, SFC_RAW_DATA_NEEDS_ENDSWAP, NULL, 0)) ;
	printf (" amb=%d", is_wavlike (c->format) ? sf_command (sf, SFC_WAVEX_GET_AMBISONIC, NULL, 0) : 0) ;
	probe (sf, c) ;
	printf ("\n") ;
	sf_close (sf) ;
	route_after_close () ;
}

static int
print_consts (void)
{	int n = 0 ;
	printf ("consts sf_info=%d format_info=%d dither_info=%d embed_info=%d loop_info=%d instrument=%d", (int) sizeof (SF_INFO), (int) sizeof (SF_FORMAT_INFO),
			(int) sizeof (SF_DITHER_INFO), (int) sizeof (SF_EMBED_FILE_INFO), (int) sizeof (SF_LOOP_INFO), (int) sizeof (SF_INSTRUMENT)) ;
	printf (" bext_fixed=%d bext_size_off=%d bext=%d cart_fixed=%d cart_size_off=%d cart=%d cue_point=%d cues=%d", (int) offsetof (SF_BROADCAST_INFO, coding_history),
			(int) offsetof (SF_BROADCAST_INFO, coding_history_size), (int) sizeof (SF_BROADCAST_INFO), (int) offsetof (SF_CART_INFO, tag_text),
			(int) offsetof (SF_CART_INFO, tag_text_size), (int) sizeof (SF_CART_INFO), (int) sizeof (SF_CUE_POINT), (int) sizeof (SF_CUES)) ;
	printf (" count_t=%d double=%d int=%d chmap_max=%d", (int) sizeof (sf_count_t), (int) sizeof (double), (int) sizeof (int), SF_CHANNEL_MAP_MAX) ;
	sf_command (NULL, SFC_GET_SIMPLE_FORMAT_COUNT, &n, sizeof (n)) ; printf (" simple=%d", n) ;
	sf_command (NULL, SFC_GET_FORMAT_MAJOR_COUNT, &n, sizeof (n)) ; printf (" major=%d", n) ;
	sf_command (NULL, SFC_GET_FORMAT_SUBTYPE_COUNT, &n, sizeof (n)) ; printf (" subtype=%d", n) ;
	printf ("\n") ;
	return 0 ;
}

typedef struct { int cmd, size, kind ; } POINT ;

static int
combo_parse (COMBO *c, char **argv)
{	c->format = (int) strtol (argv [0], NULL, 16) ;
	c->state = !strcmp (argv [1], "null") ? 0 : !strcmp (argv [1], "r") ? SFM_READ : !strcmp (argv [1], "w") ? SFM_WRITE : !strcmp (argv [1], "rw") ? SFM_RDWR : -1 ;
	{	char fl [32] ; char *at ; int k ;
		snprintf (fl, sizeof (fl), "%s", argv [2]) ;
		c->route = R_VIO ;
		if ((at = strchr (fl, '@')) != NULL)
		{	*at = 0 ;
			c->route = -1 ;
			for (k = 0 ; k < 4 ; k++) if (!strcmp (at + 1, ROUTES [k])) c->route = k ;
			}
		c->flavour = !strcmp (fl, "plain") ? 0 : !strcmp (fl, "rich") ? 1 : !strcmp (fl, "used") ? 2 : -1 ;
		}
	return c->state >= 0 && c->flavour >= 0 && c->route >= 0 ;
}

/* kinds used with a command: every command gets NULL and the 0xA5 block; the content-bearing fills
** (zero, one, nl) are given to every command as well unless `lean` is set */
static int
grid_run (const COMBO *c, FILE *in)
{	char *line = NULL ; size_t cap = 0 ;
	long *progress = mmap (NULL, 4096, PROT_READ | PROT_WRITE, MAP_SHARED | MAP_ANONYMOUS, -1, 0) ;
	setvbuf (stdout, NULL, _IOFBF, 1 << 16) ;
	route_init (c) ;
	if (c->state == SFM_READ && !make_master (c))
	{	printf ("facts open-failed\n") ; return 0 ; }
	print_facts (c) ;
	fflush (stdout) ;
	while (getline (&line, &cap, in) > 0)
	{	POINT *pts = NULL ; size_t npts = 0, k ; long start = 0 ;
		int cmd, maxsize, s, kd, nk = 0, kinds [K_COUNT + MAX_WORDS] ;
		char *tok = strtok (line, " \t\r\n") ;
		if (tok == NULL || tok [0] == '#') continue ;
		cmd = (int) strtoll (tok, NULL, 16) ;
		tok = strtok (NULL, " \t\r\n") ; if (tok == NULL) continue ;
		maxsize = atoi (tok) ;
		tok = strtok (NULL, " \t\r\n") ; if (tok == NULL) continue ;
		/* third token: comma separated kinds */
		{	char *q = tok ;
			while (q && *q)
			{	char *e = strchr (q, ',') ; if (e) *e = 0 ;
				if (kind_of (q) >= 0 && nk < K_COUNT + MAX_WORDS) kinds [nk ++] = kind_of (q) ;
				q = e ? e + 1 : NULL ;
				}
			}
		{	size_t cap_pts = 0 ;
#define PUSH(c_, s_, k_) do { if (npts == cap_pts) { cap_pts = cap_pts ? 2 * cap_pts : 1024 ; pts = realloc (pts, cap_pts * sizeof (POINT)) ; } \
				pts [npts].cmd = (c_) ; pts [npts].size = (s_) ; pts [npts].kind = (k_) ; npts ++ ; } while (0)
			for (s = 0 ; s <= maxsize ; s++)
				for (kd = 0 ; kd < nk ; kd++)
					PUSH (cmd, s, kinds [kd]) ;
			while ((tok = strtok (NULL, " \t\r\n")) != NULL)
			{	long long v = atoll (tok) ;
				for (kd = 0 ; kd < nk ; kd++)
				{	if (v > 65536 && kinds [kd] != K_NULL) continue ;	/* no exact block of that size: NULL only */
					PUSH (cmd, (int) v, kinds [kd]) ;
					}
				}
#undef PUSH
			}
		while (start < (long) npts)
		{	pid_t pid ; int st = 0 ;
			fflush (stdout) ;
			*progress = start ;
			pid = fork () ;
			if (pid == 0)
			{	if (getenv ("SFH_KEEP_STDERR") == NULL)
				{	int fd = open ("/dev/null", O_WRONLY) ; if (fd >= 0) { dup2 (fd, 2) ; close (fd) ; } }
				signal (SIGALRM, on_alarm_c17) ;
				for (k = start ; k < npts ; k++)
				{	*progress = (long) k ;
					run_point (c, pts [k].cmd, pts [k].size, pts [k].kind) ;
					}
				fflush (stdout) ;
				SFH_EXIT (0) ;
				}
			waitpid (pid, &st, 0) ;
			if (WIFEXITED (st) && WEXITSTATUS (st) == 0)
				break ;
			if (WIFSIGNALED (st)) printf (" CRASH signal=%d\n", WTERMSIG (st)) ;
			else if (WEXITSTATUS (st) == 3) printf (" TIMEOUT\n") ;
			else printf (" ABORT status=%d\n", WEXITSTATUS (st)) ;
			start = *progress + 1 ;
			}
		free (pts) ;
		}
	free (line) ;
	route_cleanup () ;
	printf ("end\n") ;
	fflush (stdout) ;
	return 0 ;
}

int
grid_c17 (int argc, char **argv)
{	COMBO c ;
	fast_abort = getenv ("SFH_C17_FASTABORT") != NULL ;
	c17_vio = mem_vio ;
	c17_vio.write = c17_write ;
	g_master = store_get ("s62") ;
	g_work = store_get ("s63") ;
	if (argc >= 1 && !strcmp (argv [0], "consts"))
		return print_consts () ;
	if (argc >= 7 && !strcmp (argv [0], "point"))
	{	if (!combo_parse (&c, argv + 1)) return 2 ;
		route_init (&c) ;
		if (c.state == SFM_READ && !make_master (&c)) { printf ("open-failed\n") ; route_cleanup () ; return 0 ; }
		signal (SIGALRM, on_alarm_c17) ;
		run_point (&c, (int) strtoll (argv [4], NULL, 16), atoi (argv [5]), kind_of (argv [6]) < 0 ? K_NULL : kind_of (argv [6])) ;
		fflush (stdout) ;
		route_cleanup () ;
		return 0 ;
		}
	if (argc < 3 || !combo_parse (&c, argv))
	{	fprintf (stderr, "usage: sfh grid c17 consts | <format-hex> <null|r|w|rw> <plain|rich|used> | point <format-hex> <state> <flavour> <id-hex> <size> <kind>\n") ;
		return 2 ;
		}
	return grid_run (&c, stdin) ;
}
