/* C03: constants of this build that the open-gate model is instantiated with (extraction by compilation:
** the numbers come from the tree's own src/common.h, so a renumbered enum cannot drift from the model). */
#include "sfh.h"
#include "sfconfig.h"
#include "common.h"

int
cmd_c03consts (void)
{
#define P(x) printf ("%s %d\n", #x, (int) (x))
	P (SF_ERR_UNRECOGNISED_FORMAT) ; P (SF_ERR_SYSTEM) ; P (SF_ERR_MALFORMED_FILE) ; P (SF_ERR_UNSUPPORTED_ENCODING) ;
	P (SFE_BAD_OPEN_MODE) ; P (SFE_BAD_SF_INFO_PTR) ; P (SFE_RAW_BAD_FORMAT) ; P (SFE_BAD_OFFSET) ;
	P (SFE_NO_EMBEDDED_RDWR) ; P (SFE_ZERO_MAJOR_FORMAT) ; P (SFE_ZERO_MINOR_FORMAT) ; P (SFE_BAD_OPEN_FORMAT) ;
	P (SFE_NO_EMBED_SUPPORT) ; P (SFE_BAD_MODE_RW) ; P (SFE_BAD_SF_INFO) ; P (SFE_INTERNAL) ;
	P (SFE_UNIMPLEMENTED) ; P (SFE_MALLOC_FAILED) ; P (SFE_BAD_FILE_READ) ;
	P (SFE_NEGATIVE_RW_LEN) ; P (SFE_NOT_READMODE) ; P (SFE_BAD_READ_ALIGN) ;
	P (SFE_BAD_SEEK) ; P (SFE_NOT_SEEKABLE) ; P (SFE_WRONG_SEEK) ; P (SFE_AMBIGUOUS_SEEK) ; P (SFE_SEEK_FAILED) ;
	P (SFE_MAX_ERROR) ;
	P (SF_MAX_CHANNELS) ;
	P (SF_FORMAT_TYPEMASK) ; P (SF_FORMAT_SUBMASK) ;
	P (SF_FORMAT_WAV) ; P (SF_FORMAT_WAVEX) ; P (SF_FORMAT_AIFF) ; P (SF_FORMAT_AU) ; P (SF_FORMAT_MPEG) ; P (SF_FORMAT_FLAC) ;
	P (SF_FORMAT_RAW) ;
	P (SFM_READ) ; P (SFM_WRITE) ; P (SFM_RDWR) ;
#undef P
	return 0 ;
}
