/* routes: C14 experiments around the I/O shim of src/file_io.c and the three open functions.
**
**   sfh routes            reads cases from stdin, one per line, prints one canonical line per case
**
**   consts
**       -> consts system=<n> badOffset=<n> noEmbedSupport=<n> noEmbeddedRdwr=<n> sd2Fd=<n> countmax=<n>
**
**   shim <name> route=path|fd|vio|pipe mode=r|w|rw cd=0|1 lead=<n> trail=<n> content=<hex|-> ops=<op>;<op>;...
**       The REAL primitives psf_fseek / psf_fread / psf_fwrite / psf_ftell / psf_get_filelen / psf_ftruncate /
**       psf_fclose are called on an SF_PRIVATE set up the way sf_open (psf_fopen), sf_open_fd (the five statements
**       of sndfile.c:461-466 followed by the route related head of psf_open_file, sndfile.c:3075-3107; `min=<n>` overrides the restated
**       smallest embedded length, default 24) and sf_open_virtual set it up.  The OS file is <lead junk><content><trail junk>, the descriptor is positioned at
**       <lead>; for `vio` the store holds <content><trail junk>; for `pipe` <content> is fed through a pipe.
**       ops:  s:<off>:<whence>  r:<bytes>:<items>  w:<bytes>:<items>:<hex>  t  l  x:<len>  c (psf_fclose)
**       -> shim <name> open=<err> off=<fileoffset> len=<filelength> pipe=<0|1> | <ret>[:<hex>] ... | err=<psf->error>
**              fd=<handle's descriptor still open 0|1|-> sent=<sentinel descriptor still open> file=<hex of the OS file / store>
**
**   gate <name> route=fd|path|vio mode=r|w|rw cd=0|1 lead=<n> trail=<n> fmt=<hex> content=<hex|->
**       The PUBLIC functions: sf_open_fd / sf_open / sf_open_virtual on the same kind of world, then
**       SFC_GET_EMBED_FILE_INFO, then sf_close; descriptor states by fcntl (F_GETFD).
**       -> gate <name> open=<sf_error(NULL)|0> off=<offset> len=<length> frames=<n> fdopen=<after open 0|1|-> | close=<ret>
**              fd=<0|1|-> sent=<0|1>
*/
#include "sfh.h"
#include "sfconfig.h"
#include "common.h"

static char rdir [200] ;

static const char *
kvs (char **tok, int ntok, const char *key)
{	size_t kl = strlen (key) ; int k ;
	for (k = 0 ; k < ntok ; k++)
		if (!strncmp (tok [k], key, kl) && tok [k][kl] == '=')
			return tok [k] + kl + 1 ;
	return "" ;
}

static void
lead_trail_file (const char *path, const unsigned char *c, size_t clen, long lead, long trail)
{	FILE *f = fopen (path, "wb") ; long k ;
	for (k = 0 ; k < lead ; k++) fputc (0x5A ^ (k & 0xff), f) ;
	if (clen) fwrite (c, 1, clen, f) ;
	for (k = 0 ; k < trail ; k++) fputc (0xC3 ^ (k & 0xff), f) ;
	fclose (f) ;
}

static void
print_file (const char *path)
{	FILE *f = fopen (path, "rb") ; int c ;
	static const char d [] = "0123456789abcdef" ;
	if (f == NULL) { printf ("-") ; return ; }
	while ((c = fgetc (f)) != EOF) { putchar (d [c >> 4]) ; putchar (d [c & 15]) ; }
	fclose (f) ;
}

static int
fd_is_open (int fd)
{	return fcntl (fd, F_GETFD) != -1 ;
}

static int
mode_of (const char *m)
{	return !strcmp (m, "r") ? SFM_READ : !strcmp (m, "w") ? SFM_WRITE : SFM_RDWR ;
}

/* ---- shim level ---------------------------------------------------------------------------------- */

static void
case_shim (char **tok, int ntok)
{	const char *name = tok [1], *route = kvs (tok, ntok, "route"), *content = kvs (tok, ntok, "content") ;
	int mode = mode_of (kvs (tok, ntok, "mode")), cd = atoi (kvs (tok, ntok, "cd")) ;
	long lead = atol (kvs (tok, ntok, "lead")), trail = atol (kvs (tok, ntok, "trail")) ;
	char *ops = strdup (kvs (tok, ntok, "ops")), *op, *save = NULL ;
	size_t clen = 0 ;
	unsigned char *c = unhex (strcmp (content, "-") ? content : "", &clen) ;
	char path [256] ;
	SF_PRIVATE *psf = psf_allocate () ;
	STORE *st = store_get ("s63") ;
	int fd = -1, sentinel, err = 0, is_vio = !strcmp (route, "vio"), is_pipe = !strcmp (route, "pipe"), closed = 0, pipe_rd = -1 ;

	snprintf (path, sizeof (path), "%s/%s.dat", rdir, "shim") ;
	sentinel = open ("/dev/null", O_RDONLY) ;
	psf_init_files (psf) ;
	psf->file.mode = mode ;

	if (is_vio)
	{	/* sf_open_virtual */
		unsigned char *all = malloc (clen + trail + 1) ; long k ;
		memcpy (all, c, clen) ;
		for (k = 0 ; k < trail ; k++) all [clen + k] = 0xC3 ^ (k & 0xff) ;
		store_set (st, all, clen + trail) ;
		free (all) ;
		psf->virtual_io = SF_TRUE ;
		psf->vio = mem_vio ;
		psf->vio_user_data = st ;
		}
	else if (!strcmp (route, "path"))
	{	/* sf_open: psf_copy_filename, psf_fopen */
		lead_trail_file (path, c, clen, 0, trail) ;
		psf_copy_filename (psf, path) ;
		err = psf_fopen (psf) ;
		fd = psf->file.filedes ;
		}
	else
	{	/* sf_open_fd */
		if (is_pipe)
		{	int pfd [2] ;
			if (pipe (pfd) != 0 || clen > 60000) { printf ("shim %s bad-pipe\n", name) ; return ; }
			if (mode == SFM_WRITE)
			{	/* the handle gets the writing end; what arrives at the other end is printed as `file=` */
				fd = pfd [1] ;
				pipe_rd = pfd [0] ;
				fcntl (pipe_rd, F_SETFL, O_NONBLOCK) ;
				}
			else
			{	if (clen && write (pfd [1], c, clen) != (ssize_t) clen) { }
				close (pfd [1]) ;
				fd = pfd [0] ;
				} ;
			}
		else
		{	lead_trail_file (path, c, clen, lead, trail) ;
			fd = open (path, mode == SFM_READ ? O_RDONLY : mode == SFM_WRITE ? O_WRONLY : O_RDWR) ;
			lseek (fd, lead, SEEK_SET) ;
			} ;
		psf_copy_filename (psf, "") ;
		psf->file.do_not_close_descriptor = !cd ;
		psf_set_file (psf, fd) ;
		psf->is_pipe = psf_is_pipe (psf) ;
		psf->fileoffset = psf_ftell (psf) ;
		} ;

	if (err == 0)
	{	/* psf_open_file, sndfile.c:3075-3107 */
		psf->is_pipe = psf_is_pipe (psf) ;
		if (psf->is_pipe)
			psf->filelength = SF_COUNT_MAX ;
		else
			psf->filelength = psf_get_filelen (psf) ;
		if (psf->fileoffset > 0)
			switch (mode)
			{	case SFM_READ :
					/* the bound itself (24 since 0004-fix, 44 before) is checked on the real psf_open_file by the `gate` cases */
					if (psf->filelength < (kvs (tok, ntok, "min") [0] ? atoi (kvs (tok, ntok, "min")) : 24)) err = SFE_BAD_OFFSET ;
					break ;
				case SFM_WRITE :
					psf->fileoffset = 0 ;
					psf_fseek (psf, 0, SEEK_END) ;
					psf->fileoffset = psf_ftell (psf) ;
					break ;
				case SFM_RDWR :
					err = SFE_NO_EMBEDDED_RDWR ;
					break ;
				} ;
		if (err)
		{	psf_fclose (psf) ;
			closed = 1 ;
			} ;
		} ;

	printf ("shim %s open=%d off=%lld len=%lld pipe=%d |", name, err, (long long) psf->fileoffset, (long long) psf->filelength, psf->is_pipe) ;

	for (op = strtok_r (ops, ";", &save) ; op && err == 0 ; op = strtok_r (NULL, ";", &save))
	{	long long a = 0, b = 0 ; char *p1 = strchr (op, ':'), *p2 = p1 ? strchr (p1 + 1, ':') : NULL, *p3 = p2 ? strchr (p2 + 1, ':') : NULL ;
		if (p1) a = atoll (p1 + 1) ;
		if (p2) b = atoll (p2 + 1) ;
		switch (op [0])
		{	case 's' : printf (" %lld", (long long) psf_fseek (psf, a, (int) b)) ; break ;
			case 't' : printf (" %lld", (long long) psf_ftell (psf)) ; break ;
			case 'l' : printf (" %lld", (long long) psf_get_filelen (psf)) ; break ;
			case 'x' : printf (" %d", psf_ftruncate (psf, a)) ; break ;
			case 'c' : printf (" %d", psf_fclose (psf)) ; closed = 1 ; break ;
			case 'r' :
			{	long long n = a * b, got ; sf_count_t r, before ;
				unsigned char *buf = malloc (n > 0 ? n : 1) ;
				memset (buf, 0xA5, n > 0 ? n : 1) ;
				before = psf_ftell (psf) ;
				r = psf_fread (buf, a, b, psf) ;
				/* bytes transferred (a partial item included) = how far the position moved */
				got = psf_ftell (psf) - before ;
				if (got < 0 || got > (n > 0 ? n : 0)) got = n > 0 ? n : 0 ;
				printf (" %lld:", (long long) r) ;
				puthex (buf, got) ;
				free (buf) ;
				break ;
				}
			case 'w' :
			{	size_t dl = 0 ; unsigned char *d = unhex (p3 ? p3 + 1 : "", &dl) ;
				printf (" %lld", (long long) psf_fwrite (d, a, b, psf)) ;
				free (d) ;
				break ;
				}
			default : printf (" ?") ; break ;
			} ;
		} ;

	printf (" | err=%d fd=", psf->error) ;
	if (fd >= 0) printf ("%d", fd_is_open (fd)) ; else printf ("-") ;
	printf (" sent=%d file=", fd_is_open (sentinel)) ;
	if (is_vio) puthex (st->buf, st->len) ;
	else if (is_pipe && pipe_rd >= 0)
	{	unsigned char pb [4096] ; ssize_t r ;
		while ((r = read (pipe_rd, pb, sizeof (pb))) > 0) puthex (pb, r) ;
		close (pipe_rd) ;
		}
	else if (is_pipe) printf ("-") ;
	else print_file (path) ;
	printf ("\n") ;

	if (!closed) psf_fclose (psf) ;
	if (fd >= 0 && fd_is_open (fd)) close (fd) ;
	close (sentinel) ;
	unlink (path) ;
	free (psf->header.ptr) ;
	free (psf) ;
	free (c) ; free (ops) ;
}

/* ---- public functions ---------------------------------------------------------------------------- */

static void
case_gate (char **tok, int ntok)
{	const char *name = tok [1], *route = kvs (tok, ntok, "route"), *content = kvs (tok, ntok, "content") ;
	int mode = mode_of (kvs (tok, ntok, "mode")), cd = atoi (kvs (tok, ntok, "cd")) ;
	long lead = atol (kvs (tok, ntok, "lead")), trail = atol (kvs (tok, ntok, "trail")) ;
	size_t clen = 0 ;
	unsigned char *c = unhex (strcmp (content, "-") ? content : "", &clen) ;
	char path [256] ;
	SF_INFO info ;
	SNDFILE *sf ;
	STORE *st = store_get ("s63") ;
	SF_EMBED_FILE_INFO emb ;
	int fd = -1, sentinel, e, ret ;

	memset (&info, 0, sizeof (info)) ;
	memset (&emb, 0, sizeof (emb)) ;
	info.format = (int) strtol (kvs (tok, ntok, "fmt"), NULL, 16) ;
	info.channels = 1 ; info.samplerate = 8000 ;
	snprintf (path, sizeof (path), "%s/%s.dat", rdir, "gate") ;
	sentinel = open ("/dev/null", O_RDONLY) ;

	if (!strcmp (route, "vio"))
	{	store_set (st, c, clen) ;
		if (mode == SFM_WRITE) st->len = 0 ;
		sf = sf_open_virtual (&mem_vio, mode, &info, st) ;
		}
	else if (!strcmp (route, "path"))
	{	lead_trail_file (path, c, clen, 0, trail) ;
		sf = sf_open (path, mode, &info) ;
		}
	else
	{	lead_trail_file (path, c, clen, lead, trail) ;
		fd = open (path, mode == SFM_READ ? O_RDONLY : mode == SFM_WRITE ? O_WRONLY : O_RDWR) ;
		lseek (fd, lead, SEEK_SET) ;
		sf = sf_open_fd (fd, mode, &info, cd) ;
		} ;
	e = sf ? 0 : sf_error (NULL) ;
	if (sf) sf_command (sf, SFC_GET_EMBED_FILE_INFO, &emb, sizeof (emb)) ;
	printf ("gate %s open=%d off=%lld len=%lld frames=%lld fdopen=", name, e, (long long) emb.offset, (long long) emb.length, (long long) (sf ? info.frames : 0)) ;
	if (fd >= 0) printf ("%d", fd_is_open (fd)) ; else printf ("-") ;
	ret = sf ? sf_close (sf) : -1 ;
	printf (" | close=%d fd=", ret) ;
	if (fd >= 0) printf ("%d", fd_is_open (fd)) ; else printf ("-") ;
	printf (" sent=%d\n", fd_is_open (sentinel)) ;
	if (fd >= 0 && fd_is_open (fd)) close (fd) ;
	close (sentinel) ;
	unlink (path) ;
	free (c) ;
}

int
cmd_routes (void)
{	char *line = NULL ; size_t cap = 0 ;
	const char *base = getenv ("SFH_SCRATCH") ;
	char cmd [300] ;
	snprintf (rdir, sizeof (rdir), "%s/sfh-routes-%d", base ? base : "/var/tmp", (int) getpid ()) ;
	mkdir (rdir, 0700) ;
	while (getline (&line, &cap, stdin) > 0)
	{	char *tok [32] ; int ntok = 0 ;
		char *p = strtok (line, " \t\r\n") ;
		while (p && ntok < 32) { tok [ntok ++] = p ; p = strtok (NULL, " \t\r\n") ; }
		if (ntok == 0 || tok [0][0] == '#') continue ;
		if (!strcmp (tok [0], "consts"))
			printf ("consts system=%d badOffset=%d noEmbedSupport=%d noEmbeddedRdwr=%d sd2Fd=%d countmax=%lld\n", SFE_SYSTEM, SFE_BAD_OFFSET,
					SFE_NO_EMBED_SUPPORT, SFE_NO_EMBEDDED_RDWR, SFE_SD2_FD_DISALLOWED, (long long) SF_COUNT_MAX) ;
		else if (!strcmp (tok [0], "shim") && ntok >= 3) case_shim (tok, ntok) ;
		else if (!strcmp (tok [0], "gate") && ntok >= 3) case_gate (tok, ntok) ;
		else printf ("bad-case\n") ;
		fflush (stdout) ;
		} ;
	free (line) ;
	snprintf (cmd, sizeof (cmd), "rm -rf '%s'", rdir) ;
	if (system (cmd)) { }
	return 0 ;
}
