/*
** shortio.c — short transfers on REAL descriptors (C07 / C14 / C15, round 8)
**
** The harness's fault injection (vio.c, iolog.c) sits in the SF_VIRTUAL_IO callbacks; the retry loops of psf_fread / psf_fwrite
** (src/file_io.c: "break the transfer down, add what arrived, go on with the rest") only run when the handle owns a descriptor.  The
** operating system is free to transfer fewer bytes than asked on any descriptor (pipes, sockets, signals, quotas): this file INTERPOSES
** `read` and `write` -- the definitions below are the ones libsndfile.a links against -- and shortens / interrupts the calls on a schedule.
** The real work is done by the NEXT definition of read / write in link order (dlsym RTLD_NEXT: the AddressSanitizer interceptor, which keeps
** checking the buffer, then libc; syscall () if there is none), so no byte is invented: a shortened call transfers a PREFIX of what was asked.
**
** Only descriptors >= 3 are ever touched (stdin / stdout / stderr of the harness are not), and only while a schedule is armed.
**
** script op (one transcript line each):
**   shortio w <cap> <n>      the next <n> write () calls that ask for more than <cap> bytes transfer <cap> bytes (n < 0: every call from now on)
**   shortio r <cap> <n>      the same for read ()
**   shortio weintr <n> [<after>]   <n> write () calls fail with EINTR and transfer nothing, starting after <after> further calls (default 0; those calls
**                            may be shortened by `shortio w`: an interruption in the MIDDLE of one psf_fwrite)   (reintr: read)
**   shortio skip <k>         the schedules start after <k> further calls of their kind (default 0)
**   shortio off              disarm everything                                                    -> ok shortio=…
**   shortio stat             -> calls= wcalls=<write calls seen on fds >= 3> wshort=<shortened> weintr=<interrupted> rcalls= rshort= reintr=
**                               wbytes=<bytes transferred by write> rbytes=   (counters since the last `shortio off` / process start)
**   shortio fds              -> ok fds=<n> list=<the open descriptors >= 3 of the process, comma separated>   (C14: who still holds a descriptor after sf_close)
*/
#define _GNU_SOURCE
#include <stdio.h>
#include <stdlib.h>
#include <string.h>
#include <errno.h>
#include <unistd.h>
#include <sys/syscall.h>
#include <dlfcn.h>
#include <fcntl.h>
#include "sfh.h"

static long w_cap, w_left, r_cap, r_left, w_eintr, r_eintr, w_skip, r_skip, w_eafter, r_eafter ;
static long st_wcalls, st_wshort, st_weintr, st_rcalls, st_rshort, st_reintr ;
static long long st_wbytes, st_rbytes ;

typedef ssize_t (*rw_fn) (int, void *, size_t) ;
static rw_fn next_write, next_read ;
static int looked_up ;

/* resolved when the process starts (a constructor), so that dlsym's own allocations are made before any `ledger begin` (C16 / C15 count heap blocks) */
static void __attribute__ ((constructor))
lookup (void)
{	looked_up = 1 ;
	next_write = (rw_fn) dlsym (RTLD_NEXT, "write") ;
	next_read = (rw_fn) dlsym (RTLD_NEXT, "read") ;
} /* lookup */

ssize_t
write (int fd, const void *buf, size_t n)
{	ssize_t r ;
	if (! looked_up) lookup () ;
	if (fd >= 3)
	{	st_wcalls ++ ;
		if (w_skip > 0)
			w_skip -- ;
		else if (w_eintr > 0 && w_eafter > 0)
		{	w_eafter -- ;
			if (w_left != 0 && n > (size_t) w_cap)
			{	if (w_left > 0) w_left -- ;
				st_wshort ++ ;
				n = (size_t) w_cap ;
				} ;
			}
		else if (w_eintr > 0)
		{	w_eintr -- ;
			st_weintr ++ ;
			errno = EINTR ;
			return -1 ;
			}
		else if (w_left != 0 && n > (size_t) w_cap)
		{	if (w_left > 0) w_left -- ;
			st_wshort ++ ;
			n = (size_t) w_cap ;
			} ;
		} ;
	r = next_write ? next_write (fd, (void *) buf, n) : (ssize_t) syscall (SYS_write, fd, buf, n) ;
	if (fd >= 3 && r > 0) st_wbytes += r ;
	return r ;
} /* write */

ssize_t
read (int fd, void *buf, size_t n)
{	ssize_t r ;
	if (! looked_up) lookup () ;
	if (fd >= 3)
	{	st_rcalls ++ ;
		if (r_skip > 0)
			r_skip -- ;
		else if (r_eintr > 0 && r_eafter > 0)
		{	r_eafter -- ;
			if (r_left != 0 && n > (size_t) r_cap)
			{	if (r_left > 0) r_left -- ;
				st_rshort ++ ;
				n = (size_t) r_cap ;
				} ;
			}
		else if (r_eintr > 0)
		{	r_eintr -- ;
			st_reintr ++ ;
			errno = EINTR ;
			return -1 ;
			}
		else if (r_left != 0 && n > (size_t) r_cap)
		{	if (r_left > 0) r_left -- ;
			st_rshort ++ ;
			n = (size_t) r_cap ;
			} ;
		} ;
	r = next_read ? next_read (fd, buf, n) : (ssize_t) syscall (SYS_read, fd, buf, n) ;
	if (fd >= 3 && r > 0) st_rbytes += r ;
	return r ;
} /* read */

void
op_shortio (char **tok, int ntok)
{	if (ntok < 2)
	{	printf ("bad-op shortio\n") ;
		return ;
		} ;
	if (! strcmp (tok [1], "off"))
	{	w_cap = w_left = r_cap = r_left = w_eintr = r_eintr = w_skip = r_skip = w_eafter = r_eafter = 0 ;
		st_wcalls = st_wshort = st_weintr = st_rcalls = st_rshort = st_reintr = 0 ;
		st_wbytes = st_rbytes = 0 ;
		printf ("ok shortio=off\n") ;
		}
	else if (! strcmp (tok [1], "fds"))
	{	int fd, n = 0 ;
		char list [512] ;
		size_t used = 0 ;
		list [0] = 0 ;
		for (fd = 3 ; fd < 256 ; fd++)
			if (fcntl (fd, F_GETFD) != -1)
			{	n ++ ;
				if (used + 8 < sizeof (list))
					used += (size_t) snprintf (list + used, sizeof (list) - used, "%s%d", used ? "," : "", fd) ;
				} ;
		printf ("ok fds=%d list=%s\n", n, list [0] ? list : "-") ;
		}
	else if (! strcmp (tok [1], "stat"))
		printf ("calls=%ld wcalls=%ld wshort=%ld weintr=%ld rcalls=%ld rshort=%ld reintr=%ld wbytes=%lld rbytes=%lld\n", st_wcalls + st_rcalls,
				st_wcalls, st_wshort, st_weintr, st_rcalls, st_rshort, st_reintr, st_wbytes, st_rbytes) ;
	else if (! strcmp (tok [1], "w") && ntok >= 4 && atol (tok [2]) > 0)
	{	w_cap = atol (tok [2]) ; w_left = atol (tok [3]) ;
		printf ("ok shortio=w cap=%ld n=%ld\n", w_cap, w_left) ;
		}
	else if (! strcmp (tok [1], "r") && ntok >= 4 && atol (tok [2]) > 0)
	{	r_cap = atol (tok [2]) ; r_left = atol (tok [3]) ;
		printf ("ok shortio=r cap=%ld n=%ld\n", r_cap, r_left) ;
		}
	else if (! strcmp (tok [1], "weintr") && ntok >= 3)
	{	w_eintr = atol (tok [2]) ;
		w_eafter = ntok >= 4 ? atol (tok [3]) : 0 ;
		printf ("ok shortio=weintr n=%ld after=%ld\n", w_eintr, w_eafter) ;
		}
	else if (! strcmp (tok [1], "reintr") && ntok >= 3)
	{	r_eintr = atol (tok [2]) ;
		r_eafter = ntok >= 4 ? atol (tok [3]) : 0 ;
		printf ("ok shortio=reintr n=%ld after=%ld\n", r_eintr, r_eafter) ;
		}
	else if (! strcmp (tok [1], "skip") && ntok >= 3)
	{	w_skip = r_skip = atol (tok [2]) ;
		printf ("ok shortio=skip n=%ld\n", w_skip) ;
		}
	else
		printf ("bad-op shortio\n") ;
} /* op_shortio */
