/*
** fsize.c — script op `fsize <bytes> | off`  (C16: a close whose writes to a real file fail)
**
**   fsize <n>    set the soft RLIMIT_FSIZE of the process to n bytes (SIGXFSZ ignored, so a write () that would grow a regular
**                file beyond n fails with EFBIG instead of killing the process): every write of the library to a file opened through
**                route=path / fd -- and every flush of the ALAC spool FILE -- fails from here on.   -> ok fsize=<n>
**   fsize off    restore the limit that was in force at the first `fsize <n>`.                       -> ok fsize=off
**
** Pipes (the harness's own stdout) are not regular files and are not affected.
*/
#include <stdio.h>
#include <stdlib.h>
#include <string.h>
#include <signal.h>
#include <sys/resource.h>
#include "sfh.h"

static struct rlimit saved ;
static int have_saved = 0 ;

void
op_fsize (char **tok, int ntok)
{	struct rlimit rl ;

	if (ntok < 2)
	{	printf ("bad-op fsize\n") ;
		return ;
		} ;
	if (! have_saved)
	{	getrlimit (RLIMIT_FSIZE, &saved) ;
		have_saved = 1 ;
		signal (SIGXFSZ, SIG_IGN) ;
		} ;
	if (! strcmp (tok [1], "off"))
	{	setrlimit (RLIMIT_FSIZE, &saved) ;
		printf ("ok fsize=off\n") ;
		return ;
		} ;
	rl = saved ;
	rl.rlim_cur = (rlim_t) atoll (tok [1]) ;
	if (setrlimit (RLIMIT_FSIZE, &rl) != 0)
	{	printf ("bad-op fsize setrlimit\n") ;
		return ;
		} ;
	printf ("ok fsize=%lld\n", (long long) rl.rlim_cur) ;
} /* op_fsize */
