import SfProofs.Table
import SfProofs.Bytes
import SfProofs.Adpcm
import SfProofs.FormatCheck
import SfProofs.FloatPcm
