import SfProofs.Table
