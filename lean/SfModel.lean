-- Root of the executable model (Mathlib-free; the driver links against it).
import SfModel.Basic
import SfModel.Float
import SfModel.G711
import SfModel.Pcm
import SfModel.Handle
import SfModel.Chunk
import SfModel.Adpcm
import SfModel.AdpcmSpec
import SfModel.FormatCheck
import SfModel.Generated.FormatLists
import SfModel.Command
import SfModel.HeaderCache
import SfModel.OpenGate
import SfModel.ReadWrap
import SfModel.ChunkQuery
import SfModel.SdsScan
import SfModel.Geometry
