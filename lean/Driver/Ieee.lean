/-
  `sfmodel ieee <routine>` — runs the lib-shaped definitions of `SfModel.Ieee` on stdin, one line of fixed-width
  hex items per input line, one line of fixed-width hex results per output line.

    f32-be-read | f32-le-read      items: 4 bytes in memory order (8 hex)   -> float bit patterns (8 hex)
    f32-be-write | f32-le-write    items: float bit patterns (8 hex)        -> 4 bytes in memory order
    f64-be-read | f64-le-read | f64-be-write | f64-le-write                    the same with 16 hex digits
    replace-w32-le | replace-w32-be | replace-w64-le | replace-w64-be       items: bit patterns -> file bytes
    replace-r32-le | replace-r32-be | replace-r64-le | replace-r64-be       file bytes -> bit patterns
    peak-be-read                   4 bytes of an AIFF PEAK value -> the double SFC_GET_MAX_ALL_CHANNELS reports ((double) float32_be_read)
    mat4-be-read                   8 bytes of a MAT4 sample-rate field -> psf_lrint (double64_be_read) as 8 hex (finite values)
    swap16 | swap32 | swap64       items: unsigned values -> ENDSWAP_nn
    put-be16 | put-be32 | put-be64 items: two's-complement values -> bytes
    get-be16 | get-be24 | get-le24 | get-be32 | get-le32 | get-be64 | get-le64   bytes -> value (4 / 8 / 16 hex)
-/
import SfModel.Basic
import SfModel.Ieee
open Sf Sf.Ieee

namespace Driver.Ieee

/-- (digits per input item, per-item function to output text) -/
def routine (name : String) : Option (Nat × (Nat → String)) :=
  let bytesOf (n : Nat) (v : Nat) : List Byte := beBytes n v      -- item hex is the memory bytes in order
  match name with
  | "f32-be-read"  => some (8, fun v => hexFixed 8 (f32BeRead (bytesOf 4 v)))
  | "f32-le-read"  => some (8, fun v => hexFixed 8 (f32LeRead (bytesOf 4 v)))
  | "f32-be-write" => some (8, fun v => hexBytes (f32BeWrite v))
  | "f32-le-write" => some (8, fun v => hexBytes (f32LeWrite v))
  | "f64-be-read"  => some (16, fun v => hexFixed 16 (f64BeRead (bytesOf 8 v)))
  | "f64-le-read"  => some (16, fun v => hexFixed 16 (f64LeRead (bytesOf 8 v)))
  | "f64-be-write" => some (16, fun v => hexBytes (f64BeWrite v))
  | "f64-le-write" => some (16, fun v => hexBytes (f64LeWrite v))
  | "replace-w32-le" => some (8, fun v => hexBytes (replaceWriteF32 false [v]))
  | "replace-w32-be" => some (8, fun v => hexBytes (replaceWriteF32 true [v]))
  | "replace-w64-le" => some (16, fun v => hexBytes (replaceWriteF64 false [v]))
  | "replace-w64-be" => some (16, fun v => hexBytes (replaceWriteF64 true [v]))
  | "replace-r32-le" => some (8, fun v => String.join ((replaceReadF32 false (bytesOf 4 v)).map (hexFixed 8)))
  | "replace-r32-be" => some (8, fun v => String.join ((replaceReadF32 true (bytesOf 4 v)).map (hexFixed 8)))
  | "replace-r64-le" => some (16, fun v => String.join ((replaceReadF64 false (bytesOf 8 v)).map (hexFixed 16)))
  | "replace-r64-be" => some (16, fun v => String.join ((replaceReadF64 true (bytesOf 8 v)).map (hexFixed 16)))
  | "peak-be-read" => some (8, fun v => hexFixed 16 (Float.f32to64 (f32BeRead (bytesOf 4 v))))
  | "mat4-be-read" => some (16, fun v =>
      hexFixed 8 (wrapU 32 (Float.lrintInt .sse2 (Float.f64.toDy (f64BeRead (bytesOf 8 v))))))
  | "swap16" => some (4, fun v => hexFixed 4 (endswap16 v))
  | "swap32" => some (8, fun v => hexFixed 8 (endswap32 v))
  | "swap64" => some (16, fun v => hexFixed 16 (endswap64 v))
  | "put-be16" => some (4, fun v => hexBytes (putBe16 (sext 16 v)))
  | "put-be32" => some (8, fun v => hexBytes (putBe32 (sext 32 v)))
  | "put-be64" => some (16, fun v => hexBytes (putBe64 (sext 64 v)))
  | "get-be16" => some (4, fun v => hexFixed 4 (wrapU 16 (getBe16 (bytesOf 2 v))))
  | "get-be24" => some (6, fun v => hexFixed 8 (wrapU 32 (getBe24 (bytesOf 3 v))))
  | "get-le24" => some (6, fun v => hexFixed 8 (wrapU 32 (getLe24 (bytesOf 3 v))))
  | "get-be32" => some (8, fun v => hexFixed 8 (wrapU 32 (getBe32 (bytesOf 4 v))))
  | "get-le32" => some (8, fun v => hexFixed 8 (wrapU 32 (getLe32 (bytesOf 4 v))))
  | "get-be64" => some (16, fun v => hexFixed 16 (wrapU 64 (getBe64 (bytesOf 8 v))))
  | "get-le64" => some (16, fun v => hexFixed 16 (wrapU 64 (getLe64 (bytesOf 8 v))))
  | _ => none

partial def loop (h : IO.FS.Stream) (out : IO.FS.Stream) (digits : Nat) (f : Nat → String) : IO Unit := do
  let line ← h.getLine
  if line.isEmpty then return
  let items := parseHexItems digits line.trimAscii.toString
  out.putStrLn (String.join (items.map f))
  loop h out digits f

def cmd (args : List String) : IO UInt32 := do
  match args with
  | [name] =>
    match routine name with
    | none => IO.eprintln s!"sfmodel ieee: unknown routine {name}"; return 2
    | some (digits, f) =>
      loop (← IO.getStdin) (← IO.getStdout) digits f
      return 0
  | _ => IO.eprintln "usage: sfmodel ieee <routine>   (see lean/Driver/Ieee.lean)"; return 2

end Driver.Ieee
