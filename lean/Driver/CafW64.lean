/-
  sfmodel caf|w64 hdr|parse|session — runs SfModel.Caf / SfModel.W64 for the correspondence check (vlib/cafw64.py).

  hdr     : one line per file   caf: `<codec-hex> <endian 0..3> <ch> <sr> <frames> <peaks>`   w64: `<codec-hex> <ch> <sr> <frames>`
            -> `<header hex> <tailer hex | ->`
  parsev  : `<hex> <L1> <L2> …` -> the parse result of every prefix of length Li, joined by `;`
  parse   : one line of hex per file -> `ok fmt=%08x ch=%d sr=%d frames=%d dataoffset=%d` | `err` | `unmodelled`
  session : `<cfg as above, frames = the caller's stale SF_INFO.frames> <op> …` with ops  w:<frames>:<data hex>:<peaks> | u | a1 | a0
            -> the store (hex) after open, after every op, and after close
  peaks   : `-` or `<binary64 hex>:<position>,…`
-/
import SfModel.Caf
import SfModel.W64
import Driver.Util
open Sf

namespace CafW64Driver

def hexOr (bs : List Byte) : String := if bs.isEmpty then "-" else hexBytes bs

def parsePeaks (s : String) : List Caf.Peak :=
  if s == "-" ∨ s == "" then [] else
  (s.splitOn ",").map fun e =>
    match e.splitOn ":" with
    | [v, p] => { value := parseHexNat v.toList, position := (p.toInt?).getD 0 }
    | _ => {}

def hexArg (s : String) : Nat := parseHexNat s.toList
def natArg (s : String) : Nat := s.toNat?.getD 0
def intArg (s : String) : Int := s.toInt?.getD 0

def words (line : String) : List String := (line.splitOn " ").filter (· != "")

def cafParseLine (line : String) : String :=
  match Caf.parse (parseHexBytes line) with
  | .ok i => s!"ok fmt={hexFixed 8 i.fmtWord} ch={i.ch} sr={i.sr} frames={i.frames} dataoffset={i.dataoffset}"
  | .err => "err"
  | .unmodelled => "unmodelled"

def w64ParseLine (line : String) : String :=
  match W64.parse (parseHexBytes line) with
  | .ok i => s!"ok fmt={hexFixed 8 i.fmtWord} ch={i.ch} sr={i.sr} frames={i.frames} dataoffset={i.dataoffset}"
  | .err => "err"
  | .unmodelled => "unmodelled"

def cafOp (tok : String) : Option Caf.Op :=
  match tok.splitOn ":" with
  | ["u"] => some .update
  | ["a1"] => some (.auto true)
  | ["a0"] => some (.auto false)
  | "w" :: k :: d :: rest => some (.write (natArg k) (parseHexBytes d) (parsePeaks (":".intercalate rest)))
  | _ => none

def w64Op (tok : String) : Option W64.Op :=
  match tok.splitOn ":" with
  | ["u"] => some .update
  | ["a1"] => some (.auto true)
  | ["a0"] => some (.auto false)
  | "w" :: k :: d :: _ => some (.write (natArg k) (parseHexBytes d))
  | _ => none

def cafCmd (args : List String) : IO UInt32 := do
  let lines ← readLines
  match args with
  | ["hdr"] =>
    for line in lines do
      match words line with
      | [codec, en, ch, sr, fr, pk] =>
        let c : Caf.Cfg := { codec := hexArg codec, endian := natArg en, ch := natArg ch, sr := natArg sr }
        IO.println s!"{hexBytes (Caf.hdr c (natArg fr) (parsePeaks pk))} {hexOr (Caf.tail c (natArg fr))}"
      | _ => IO.println "bad-line"
    return 0
  | ["parse"] =>
    for line in lines do IO.println (cafParseLine line)
    return 0
  | ["parsev"] =>
    for line in lines do
      match words line with
      | hex :: cuts =>
        let bs := parseHexBytes hex
        IO.println (";".intercalate (cuts.map fun l => match Caf.parse (bs.take (natArg l)) with
          | .ok i => s!"ok fmt={hexFixed 8 i.fmtWord} ch={i.ch} sr={i.sr} frames={i.frames} dataoffset={i.dataoffset}"
          | .err => "err" | .unmodelled => "unmodelled"))
      | _ => IO.println "bad-line"
    return 0
  | ["session"] =>
    for line in lines do
      match words line with
      | codec :: en :: ch :: sr :: stale :: ops =>
        let c : Caf.Cfg := { codec := hexArg codec, endian := natArg en, ch := natArg ch, sr := natArg sr }
        let mut s := Caf.openW c (intArg stale)
        let mut out := [hexBytes s.bytes]
        for t in ops do
          match cafOp t with
          | some o => s := Caf.step c s o; out := hexBytes s.bytes :: out
          | none => out := "bad-op" :: out
        s := Caf.close c s
        out := hexBytes s.bytes :: out
        IO.println (" ".intercalate out.reverse)
      | _ => IO.println "bad-line"
    return 0
  | _ => IO.eprintln "usage: sfmodel caf hdr|parse|session"; return 2

def w64Cmd (args : List String) : IO UInt32 := do
  let lines ← readLines
  match args with
  | ["hdr"] =>
    for line in lines do
      match words line with
      | [codec, ch, sr, fr] =>
        let c : W64.Cfg := { codec := hexArg codec, ch := natArg ch, sr := natArg sr }
        IO.println s!"{hexBytes (W64.hdr c (natArg fr))} {hexOr (W64.tail c (natArg fr))}"
      | _ => IO.println "bad-line"
    return 0
  | ["parse"] =>
    for line in lines do IO.println (w64ParseLine line)
    return 0
  | ["parsev"] =>
    for line in lines do
      match words line with
      | hex :: cuts =>
        let bs := parseHexBytes hex
        IO.println (";".intercalate (cuts.map fun l => match W64.parse (bs.take (natArg l)) with
          | .ok i => s!"ok fmt={hexFixed 8 i.fmtWord} ch={i.ch} sr={i.sr} frames={i.frames} dataoffset={i.dataoffset}"
          | .err => "err" | .unmodelled => "unmodelled"))
      | _ => IO.println "bad-line"
    return 0
  | ["session"] =>
    for line in lines do
      match words line with
      | codec :: ch :: sr :: stale :: ops =>
        let c : W64.Cfg := { codec := hexArg codec, ch := natArg ch, sr := natArg sr }
        let mut s := W64.openW c (intArg stale)
        let mut out := [hexBytes s.bytes]
        for t in ops do
          match w64Op t with
          | some o => s := W64.step c s o; out := hexBytes s.bytes :: out
          | none => out := "bad-op" :: out
        s := W64.close c s
        out := hexBytes s.bytes :: out
        IO.println (" ".intercalate out.reverse)
      | _ => IO.println "bad-line"
    return 0
  | _ => IO.eprintln "usage: sfmodel w64 hdr|parse|session"; return 2

end CafW64Driver
