/-
  `sfmodel abs` — evaluates THE PREDICATE of C05 / C06 / C08 (`Sf.Abs.check` / `holdsFrom`, lean/SfModel/Abs.lean) on
  transcripts of the implementation.

  stdin: any number of transcripts, each
      == <name>
      geom ch=<n> frames=<F> mode=r|w|rw [seekable=0|1] [block=<B>] [pad=<n>] [bw=<bytes per frame>] [trunc=0|1]
           [strict=0|1] [iofail=0|1] [tail=0|1] [lossless=s16,f32,…] [holezero=s16,…]
      ref <ty> <hex items>          (0..4 lines: the sequential reference stream per caller type; a type without a line is unknown)
      rawref <hex bytes>            (optional: what a sequential sf_read_raw delivers)
      <op line> / <transcript line> pairs in the harness script language:
          r hN <ty> i|f <n>            -> ret= err= data=
          w hN <ty> i|f <n> <hex>      -> ret= err=
          seek hN <off> <whence>       -> ret= err=
          rraw hN <bytes>              -> ret= err= data=       wraw hN <bytes> <hex> -> ret= err=
          cmd hN 1080 8 <int64 LE hex> -> ret= err= …           (SFC_FILE_TRUNCATE; any other cmd: not judged)
          info hN                      -> ret= … frames=
          close hN                     -> ret=
          open hN sM r|w|rw …          -> open=ok … frames= | open=NULL …
          anything else                   is not judged (`Op.other`)
  stdout, one line per transcript:
      <name> ok n=<lines judged>
      <name> bad k=<line> clause=<tag> rpos=<r> wpos=<w> frames=<F> [at=<item> got=<hex> want=<hex>] {; k=… clause=… …}
      <name> skip k=<line>
  `k` counts op lines from 0.  After a failing line judging goes on from the checker's `resume` state (up to 8 failures).
-/
import SfModel.Abs
import Driver.Util
open Sf

namespace AbsDriver

def hexVal8 (b : UInt8) : UInt64 :=
  if 48 ≤ b && b ≤ 57 then (b - 48).toUInt64
  else if 97 ≤ b && b ≤ 102 then (b - 87).toUInt64
  else if 65 ≤ b && b ≤ 70 then (b - 55).toUInt64
  else 0

partial def itemGo (bs : ByteArray) (p k : Nat) (v : UInt64) : UInt64 :=
  if k == 0 then v else itemGo bs (p + 1) (k - 1) (v * 16 + hexVal8 (bs.get! p))

partial def itemsGo (bs : ByteArray) (p stop digits : Nat) (out : Array Abs.Item) : Array Abs.Item :=
  if p + digits > stop then out else itemsGo bs (p + digits) stop digits (out.push (itemGo bs p digits 0).toNat)

/-- fixed-width hex items of `bs[start, stop)`, `digits` ≤ 16 characters each (tight loops: lines of a megabyte are common) -/
def parseItems (bs : ByteArray) (start stop digits : Nat) : Array Abs.Item :=
  if digits = 0 then #[] else itemsGo bs start stop digits (Array.mkEmpty ((stop - start) / digits))

/-- hex digits per CELL (a double is two 8-digit cells) -/
def digitsOf (ty : Ty) : Nat := min 8 (ty.bits / 4)

/-- a line and the byte ranges of its blank-separated tokens (lines of a megabyte are common: no `String.splitOn`) -/
structure Toks where
  bs : ByteArray
  rng : Array (Nat × Nat)

def isBlank (b : UInt8) : Bool := b == 32 || b == 9 || b == 10 || b == 13

partial def lastNonBlank (bs : ByteArray) (i : Nat) : Nat :=
  if i == 0 then 0 else if isBlank (bs.get! (i - 1)) then lastNonBlank bs (i - 1) else i

def startsData (bs : ByteArray) (i : Nat) : Bool :=
  i + 5 ≤ bs.size && bs.get! i == 100 && bs.get! (i + 1) == 97 && bs.get! (i + 2) == 116 && bs.get! (i + 3) == 97 && bs.get! (i + 4) == 61

/-- token boundaries; token number `maxTok - 1` and a token that starts with `data=` run to the end of the line (hex payloads) -/
partial def scan (bs : ByteArray) (maxTok i start : Nat) (inTok : Bool) (rng : Array (Nat × Nat)) : Array (Nat × Nat) :=
  if i ≥ bs.size then (if inTok then rng.push (start, bs.size) else rng)
  else
    let b := bs.get! i
    if isBlank b then
      if inTok then scan bs maxTok (i + 1) start false (rng.push (start, i)) else scan bs maxTok (i + 1) start false rng
    else if inTok then scan bs maxTok (i + 1) start true rng
    else if rng.size + 1 ≥ maxTok || startsData bs i then rng.push (i, lastNonBlank bs bs.size)
    else scan bs maxTok (i + 1) i true rng

def payloadTok (line : String) : Nat :=
  if line.startsWith "w " then 6 else if line.startsWith "wraw " then 4 else if line.startsWith "ref " then 3
  else if line.startsWith "rawref " then 2 else if line.startsWith "store " then 3 else 64

def tokenize (line : String) : Toks :=
  let bs := line.toUTF8
  { bs := bs, rng := scan bs (payloadTok line) 0 0 false #[] }

/-- token `k` as a string when it is short (long tokens are hex payloads, read in place by `parseItems`) -/
def Toks.str (t : Toks) (k : Nat) : String :=
  match t.rng[k]? with
  | some (a, b) => if b - a ≤ 64 then (String.fromUTF8? (t.bs.extract a b)).getD "" else ""
  | none => ""

def Toks.items (t : Toks) (k skip digits : Nat) : Array Abs.Item :=
  match t.rng[k]? with
  | some (a, b) => parseItems t.bs (a + skip) b digits
  | none => #[]

/-- index and value of the field `key=…` -/
def Toks.field (t : Toks) (key : String) : Option String := Id.run do
  let kb := (key ++ "=").toUTF8
  for k in [0:t.rng.size] do
    let (a, b) := t.rng[k]!
    if b - a ≥ kb.size && b - a ≤ 64 + kb.size && t.bs.extract a (a + kb.size) == kb then
      return (String.fromUTF8? (t.bs.extract (a + kb.size) b))
  return none

def Toks.dataTok (t : Toks) : Option Nat := Id.run do
  let kb := "data=".toUTF8
  for k in [0:t.rng.size] do
    let (a, b) := t.rng[k]!
    if b - a ≥ 5 && t.bs.extract a (a + 5) == kb then return some k
  return none

def modeOf (s : String) : Abs.Mode := if s == "w" then .w else if s == "rw" then .rw else .r

def intOf (s : String) : Int :=
  let neg := s.startsWith "-"
  let t := if neg then s.drop 1 else if s.startsWith "+" then s.drop 1 else s
  let t := t.toString
  let v : Nat := if t.startsWith "0x" || t.startsWith "0X" then parseHexNat (t.drop 2).toString.toList else t.toNat?.getD 0
  if neg then -(v : Int) else v

def leInt64 (hex : String) : Int :=
  let bs := parseHexBytes hex
  let u := (bs.take 8).reverse.foldl (fun a b => a * 256 + b) 0
  sext 64 u

def parseOp (line : String) : Abs.Op :=
  let t := tokenize line
  let tk (k : Nat) := t.str k
  match tk 0 with
  | "r" => (match tyOf (tk 2) with | some ty => .read ty (tk 3 == "f") (intOf (tk 4)) | none => .other)
  | "w" => (match tyOf (tk 2) with | some ty => .write ty (tk 3 == "f") (intOf (tk 4)) (t.items 5 0 (digitsOf ty)) | none => .other)
  | "seek" => .seek (intOf (tk 2)) (intOf (tk 3))
  | "rraw" => .rawRead (intOf (tk 2))
  | "wraw" => .rawWrite (intOf (tk 2)) (t.items 3 0 2)
  | "cmd" => if tk 2 == "1080" && (tk 4).length == 16 then .trunc (leInt64 (tk 4)) else .other
  | "info" => .info
  | "close" => .close
  | "open" => .reopen (modeOf (tk 3))
  | _ => .other

def parseOut (op : Abs.Op) (line : String) : Abs.Out :=
  let t := tokenize line
  let ret := (t.field "ret").map intOf |>.getD (-999)
  let err := match t.field "err" with | some e => e != "0" | none => false
  let frames := (t.field "frames").map intOf |>.getD (-999)
  let null := t.str 0 == "open=NULL"
  let data : Array Abs.Item :=
    match op with
    | .read ty _ _ => (match t.dataTok with | some k => t.items k 5 (digitsOf ty) | none => #[])
    | .rawRead _ => (match t.dataTok with | some k => t.items k 5 2 | none => #[])
    | _ => #[]
  { ret := ret, err := err, data := data, frames := frames, null := null }

def geomOf (toks : List String) : Abs.Geom :=
  let loss := ((kvGet toks "lossless").getD "").splitOn ","
  let hz := ((kvGet toks "holezero").getD "").splitOn ","
  { ch := kvNat toks "ch" 1, block := kvNat toks "block" 1, pad := kvNat toks "pad" 0, seekable := kvBool toks "seekable" true,
    bw := kvNat toks "bw" 0, canTrunc := kvBool toks "trunc" false, strictSeek := kvBool toks "strict" false,
    ioMayFail := kvBool toks "iofail" false, tailClean := kvBool toks "tail" false,
    lossless := fun ty => match ty with | .s16 => loss.contains "s16" | .s32 => loss.contains "s32" | .f32 => loss.contains "f32" | .f64 => loss.contains "f64",
    holeZero := fun ty => match ty with | .s16 => hz.contains "s16" | .s32 => hz.contains "s32" | .f32 => hz.contains "f32" | .f64 => hz.contains "f64",
    frames0 := kvNat toks "frames" 0, mode0 := modeOf ((kvGet toks "mode").getD "r") }

/-- first item where an accepted-looking read differs from the reference (for the replay text only) -/
def firstDiff (a : Array Abs.Item) (b : Array Abs.Item) (j n : Nat) : Option Nat := Id.run do
  for k in [0:n] do
    if a[k]? != b[j + k]? then return some k
  return none

def detail (g : Abs.Geom) (st : Abs.St) (op : Abs.Op) (o : Abs.Out) (tag : String) : String :=
  match op, tag with
  | .read ty fc _, "data" =>
    let items := Abs.retItems g fc o.ret * Abs.cells ty
    if st.frames < st.rpos + Abs.retItems g fc o.ret / g.ch then
      s!" delivered={Abs.retItems g fc o.ret / g.ch} frames, the file holds {st.frames - st.rpos} from the read position on"
    else match firstDiff o.data (st.ref ty) (st.rpos * g.cpf ty) items with
    | some k => s!" at={k} got={(o.data[k]?.map (hexFixed (digitsOf ty))).getD "none"} want={(((st.ref ty)[st.rpos * g.cpf ty + k]?).map (hexFixed (digitsOf ty))).getD "none"}"
    | none => ""
  | .seek off wh, _ => s!" target={match Abs.seekTarget st off wh with | some t => toString t | none => "refuse"} ret={o.ret}"
  | _, _ => s!" ret={o.ret} err={if o.err then 1 else 0}"

/-- A transcript under judgement.  Lines are judged as they arrive (a history can be hundreds of megabytes): `step` is
    one unfolding of `Abs.holdsFrom` / `Abs.failures` — same `Abs.check`, same order, same `resume` states. -/
structure Tr where
  name : String := "-"
  g : Abs.Geom := { ch := 1 }
  refs : List (Ty × Array Abs.Item) := []
  raw : Option (Array Abs.Item) := none
  st : Option Abs.St := none
  k : Nat := 0
  fails : Array String := #[]
  skipped : Option Nat := none
  pending : Option Abs.Op := none

def Tr.start (t : Tr) : Abs.St :=
  let ref (ty : Ty) : Array Abs.Item := (t.refs.find? (·.1 == ty)).map (·.2) |>.getD #[]
  -- a fresh (empty) file is known to every caller type; otherwise only the streams given
  let valid (ty : Ty) : Bool := t.refs.any (·.1 == ty) || (t.g.frames0 == 0)
  Abs.St.init t.g ref valid (t.raw.getD #[]) (t.raw.isSome || t.g.frames0 == 0)

def Tr.step (t : Tr) (op : Abs.Op) (o : Abs.Out) : Tr :=
  if t.skipped.isSome || t.fails.size ≥ 8 then t else
  let st := t.st.getD t.start
  match Abs.check t.g st op o with
  | .ok st' => { t with st := some st', k := t.k + 1 }
  | .bad tag st' =>
    { t with st := some st', k := t.k + 1,
             fails := t.fails.push s!"k={t.k} clause={tag} rpos={st.rpos} wpos={st.wpos} frames={st.frames}{detail t.g st op o tag}" }
  | .skip => { t with skipped := some t.k }

def finish (t : Tr) : String :=
  match t.skipped with
  | some k => if t.fails.isEmpty then s!"{t.name} skip k={k}" else s!"{t.name} bad " ++ "; ".intercalate t.fails.toList
  | none =>
    if t.fails.isEmpty then s!"{t.name} ok n={t.k}" else s!"{t.name} bad " ++ "; ".intercalate t.fails.toList

def cmd (_args : List String) : IO UInt32 := do
  let h ← IO.getStdin
  let out ← IO.getStdout
  let mut cur : Tr := {}
  let mut started := false
  repeat
    let line ← h.getLine
    if line.isEmpty then break
    if line.startsWith "== " then
      if started then out.putStrLn (finish cur)
      cur := { name := (line.drop 3).trimAscii.toString }
      started := true
    else if line.startsWith "geom " then
      started := true
      cur := { cur with g := geomOf ((line.trimAscii.toString).splitOn " ") }
    else if line.startsWith "ref " then
      let t := tokenize line
      match tyOf (t.str 1) with
      | some ty => cur := { cur with refs := (ty, t.items 2 0 (digitsOf ty)) :: cur.refs }
      | none => pure ()
    else if line.startsWith "rawref" then
      cur := { cur with raw := some ((tokenize line).items 1 0 2) }
    else
      match cur.pending with
      | none => cur := { cur with pending := some (parseOp line) }
      | some op => cur := { cur with pending := none }.step op (parseOut op line)
  if started then out.putStrLn (finish cur)
  return 0

end AbsDriver
