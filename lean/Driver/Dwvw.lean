/-
  `sfmodel dwvw …` — runs the DWVW model (SfModel/Dwvw.lean, DwvwFile.lean).

      sfmodel dwvw enc <bits>       one line of 8-digit hex caller ints per stdin line  -> hex bytes of the closed file's data
      sfmodel dwvw dec <bits>       `<n> <hex bytes>` per stdin line                    -> the samples one read of n delivers (8-digit hex)
      sfmodel dwvw script           scripts:

      == <name>
      codec dwvw bits=<12|16|24> [normF=0|1 normD=0|1 variant=sse2|lrint]
      w <ty> <i|f> <count> <hex items>      -> ret=<n> err=0
      close                                 -> data=<hex>     the bytes dwvw_close leaves in the data region (no AIFF pad byte)
      load <hex> [hdr=<n>]                  -> frames=<n>     read handle over these bytes (data offset .. end of file); hdr = numSampleFrames (AIFF)
      r <ty> <i|f> <count>                  -> ret=<n> err=0 data=<hex of the ret items delivered>
      seek <offset> <whence 0|1|2>          -> ret=<n> err=0 | ret=-1 err=E
-/
import SfModel.DwvwFile
import Driver.Util
open Sf Sf.Dwvw

namespace Driver.Dwvw

structure DS where
  cfg  : Cfg := ⟨16⟩
  conv : Conv := {}
  e    : ESt := {}
  rh   : Option RHandle := none
  sticky : Bool := false

def runLine (ds : DS) (line : String) : DS × Option String :=
  let toks := (line.splitOn " ").filter (· ≠ "")
  match toks with
  | [] => (ds, none)
  | "codec" :: _ :: rest => ({ cfg := ⟨kvNat rest "bits" 16⟩, conv := convOf rest }, none)
  | ["w", tyS, _, nS, hex] =>
    match tyOf tyS with
    | none => (ds, some "bad-op")
    | some ty =>
      let n := nS.toNat!
      let vs := (parseItems ty hex).take n
      ({ ds with e := writeCall ds.cfg ds.conv ty ds.e vs }, some s!"ret={n} err=0")
  | ["w", _, _, _] => (ds, some "ret=0 err=0")
  | ["close"] =>
    let bytes := closeBytes ds.cfg ds.e
    ({ ds with e := {} }, some ("data=" ++ hexBytes bytes))
  | "load" :: rest =>
    let (hex, opts) : String × List String :=
      match rest with
      | h :: o => if (h.splitOn "=").length > 1 then ("", rest) else (h, o)
      | [] => ("", [])
    let hdr : Option Nat := (kvGet opts "hdr").bind (·.toNat?)
    let h := RHandle.open ds.cfg (parseHexBytes hex) hdr
    ({ ds with rh := some h, sticky := false }, some s!"frames={h.frames}")
  | ["r", tyS, _, nS] =>
    match tyOf tyS, ds.rh with
    | some ty, some h =>
      let n := nS.toNat!
      let err := if n == 0 && ds.sticky then "E" else "0"
      let ds := if n == 0 then ds else { ds with sticky := false }
      let (h', vs?, ret) := h.read ds.cfg ds.conv ty n
      let data := match vs? with
        | some vs => showItems ty vs
        | none => ""
      ({ ds with rh := some h' }, some s!"ret={ret} err={err} data={data}")
    | _, _ => (ds, some "bad-op")
  | ["seek", offS, whS] =>
    match ds.rh with
    | some h =>
      let off : Int := if offS.startsWith "-" then - ((offS.drop 1).toString.toNat?.getD 0 : Int) else (offS.toNat?.getD 0 : Int)
      let wh := whS.toNat!
      if wh == 1 && off == 0 then ({ ds with sticky := false }, some s!"ret={h.pos} err=0")
      else
        let target : Int := if wh == 0 then off else if wh == 1 then (h.pos : Int) + off else (h.frames : Int) + off
        if wh > 2 || target < 0 || target > h.frames then ({ ds with sticky := true }, some "ret=-1 err=E")
        else match h.seek target.toNat with
          | some h' => ({ ds with rh := some h', sticky := false }, some s!"ret={target} err=0")
          | none => ({ ds with sticky := true }, some "ret=-1 err=E")
    | none => (ds, some "bad-op")
  | _ => (ds, some "bad-op")

partial def loop (h : IO.FS.Stream) (ds : DS) : IO Unit := do
  let line ← h.getLine
  if line.isEmpty then return
  let l := line.trimAscii.toString
  if l.startsWith "== " then
    IO.println l
    loop h {}
  else
    let (ds', out) := runLine ds l
    match out with
    | some s => IO.println s
    | none => pure ()
    loop h ds'

def cmd (args : List String) : IO UInt32 := do
  match args with
  | ["script"] => loop (← IO.getStdin) {}; return 0
  | ["enc", b] =>
    let c : Cfg := ⟨b.toNat!⟩
    for line in (← readLines) do
      IO.println (hexBytes (encodeAll c ((parseHexItems 8 line).map (sext 32))))
    return 0
  | ["dec", b] =>
    let c : Cfg := ⟨b.toNat!⟩
    for line in (← readLines) do
      match (line.splitOn " ").filter (· ≠ "") with
      | [n, hex] => IO.println (String.join ((decodeAll c (parseHexBytes hex) n.toNat!).map fun v => hexFixed 8 (wrapU 32 v)))
      | [n] => IO.println (String.join ((decodeAll c [] n.toNat!).map fun v => hexFixed 8 (wrapU 32 v)))
      | _ => IO.println "bad-line"
    return 0
  | _ => IO.eprintln "usage: sfmodel dwvw enc|dec <bits> | script"; return 2

end Driver.Dwvw
