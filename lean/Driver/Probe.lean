/-
  sfmodel probe — `Sf.Small2.guessProbe` (guess_file_type on a file of any length: zero-padded probe, as far as the HTK test).
  stdin: one file in hex per line (`-` = empty);  stdout: `fmt=<major hex>` | `zero` (the function returns 0) | `none` (a later test decides)
  `sfmodel probe ff` pads with 0xFF instead (the mutant the stream of vlib/shortprobe.py must tell apart).
-/
import SfModel.Small2
open Sf Sf.Small2
namespace ProbeDriver

def guessPad (pad : Byte) (bs : List Byte) : Option Guess :=
  let p := (bs ++ List.replicate 12 pad).take 12
  match preHtk (p.take 4) ((p.drop 4).take 4) ((p.drop 8).take 4) with
  | some g => some g
  | none => if (p.drop 8).take 4 = [0, 2, 0, 0] ∧ 2 * ofBE (p.take 4) + 12 = bs.length then some (.fmt 0x100000) else none

def hex (n : Nat) : String := String.ofList (Nat.toDigits 16 n)

partial def loop (ff : Bool) (h : IO.FS.Stream) : IO Unit := do
  let line ← h.getLine
  if line.isEmpty then return
  let t := line.trimAscii.toString
  let bs := if t == "-" then [] else parseHexBytes t
  let g := if ff then guessPad 0xFF bs else guessProbe bs
  IO.println (match g with | some (.fmt m) => "fmt=" ++ hex m | some .zero => "zero" | none => "none")
  loop ff h

def main (args : List String) : IO UInt32 := do
  loop (args == ["ff"]) (← IO.getStdin)
  return 0

end ProbeDriver
