/-
  sfmodel sites — runs the per-site bounds models of SfModel/Sites.lean (the definitions the theorems of SfProps/C03Sites.lean
  are about).  One request per stdin line, one answer per line:

      bext <L> | cart <L> | peak <L> <ch> | info <s> <b> <lc> | labl <s> <b> <lc> | cue <count> <r> | smpl <L> <lc> <r>
      aifftext <slack> <size> | aiffmark <count> <k> <ch> | aiffcomt <len> | cafinfo <n> | cafchan <channels> <tag>
   -> <decision> vals=<v1,v2,…> safe=<1|0> writes=<dst:cap:off:n;…>
-/
import SfModel.Sites
open Sf.Sites

namespace SitesDriver

def answer (o : Outcome) : String :=
  let vals := String.intercalate "," (o.vals.map toString)
  let safe := if o.writes.all (fun w => decide w.ok) then "1" else "0"
  let ws := String.intercalate ";" (o.writes.map fun w => s!"{w.dst}:{w.cap}:{w.off}:{w.n}")
  s!"{o.decision} vals={vals} safe={safe} writes={ws}"

def line (l : String) : String :=
  let toks := (l.splitOn " ").filter (· ≠ "")
  match toks with
  | site :: rest =>
    let a := rest.map (fun t => t.toInt?.getD 0)
    match site, a with
    | "bext", [x] => answer (bext x)
    | "cart", [x] => answer (cart x)
    | "peak", [x, c] => answer (peak x c)
    | "info", [s, b, lc] => answer (infoString s b lc)
    | "labl", [s, b, lc] => answer (labl s b lc)
    | "cue", [c, r] => answer (cue c r)
    | "smpl", [x, lc, r] => answer (smpl x lc r)
    | "aifftext", [k, s] => answer (aiffText k s)
    | "aiffmark", [c, k, ch] => answer (aiffMark c k ch)
    | "aiffcomt", [n] => answer (aiffComt n)
    | "cafinfo", [n] => answer (cafInfo n)
    | "cafchan", [c, t] => answer (cafChan c t)
    | _, _ => "bad-input"
  | _ => "bad-input"

partial def loop (h : IO.FS.Stream) : IO Unit := do
  let l ← h.getLine
  if l.isEmpty then return
  IO.println (line l.trimAscii.toString)
  loop h

def cmd : IO UInt32 := do
  loop (← IO.getStdin)
  return 0

end SitesDriver
