/-
  `sfmodel abs-meta` — evaluates THE PREDICATE of C12 (`Sf.AbsMeta.judge`, lean/SfModel/AbsMeta.lean) on the records of the
  metadata campaign (vlib/props/c12.py); `sfmodel abs-meta chunks` evaluates THE PREDICATE of C13 (`Sf.AbsMeta.Chunks.judge`)
  on the records of the custom-chunk campaign (vlib/props/c13.py).

  stdin (C12): any number of records, each
      == <name>
      geom fmt=<format word, hex> ch=<n> sr=<n> pkg=<hex of the library's package string, e.g. libsndfile-1.2.2>
      run main | run twin | run perm      then <op line> / <transcript line> pairs in the harness script language:
          open h0 sM w fmt= ch= sr= …            -> open=ok … | open=NULL …
          setstr h0 <type> <hex|null>            -> ret=<0 = stored> err=
          cmd h0 <10f1|1400|10d1|1101> <size> <hex|null>   -> ret=<1 = SF_TRUE> …       (bext, cart, instrument, channel map)
          setcues h0 <n> <cue tokens>            -> ret=<1 = SF_TRUE> …
          w h0 s16 i <n> <hex items>             -> ret= err=       (calls made after it are `late`)
          close h0                               -> ret=
          open h1 sM r …                         -> open=ok … frames= … | open=NULL …
          getmeta h1                             -> meta s1=… … bext=<ret>:<hex> cart= cuecount=<ret>:<n> cues=<ret>:<n>:<tokens> inst= chmap= err=
          r h1 s16 i <n>                         -> ret= err= data=
      `twin`: the same script without the calls that were refused / late / of a kind the container has no place for;
      `perm`: the same script with the SET calls before the audio in another order.
  stdout, one line per record:
      <name> ok classes=<known-finding classes of the script or -> sets=<n> twin=<0|1> perm=<0|1>
      <name> bad classes=<…> tag=<clause> run=<1|2|3>{; tag=… run=…}

  stdin (C13, `abs-meta chunks`):
      == <name>
      geom cont=wav|rf64|aiff|caf [own=<idhex>:<n>,…] [strings=<type>:<hex>,…]
      run main | run twin                 then op lines, each followed by its transcript line(s) (`chunkall`: up to `end n=`):
          setchunk h0 <idhex> <datahex>  -> ret= err=      chunkall h1 <idhex|null> [buflen] -> it= …, c size_ret= … lines, end n=
          chunkiter / chunknext / chunkdata [buflen] / getstr h1 <type> / open / w / close / r as in the harness
  stdout: <name> ok chunks=<stored> queries=<n> twin=<0|1> | <name> bad tag=<clause> run=<r>{; …}
-/
import SfModel.AbsMeta
import Driver.Abs
open Sf

namespace AbsMetaDriver
open AbsDriver Sf.AbsMeta
open Sf.Meta (Cue)

def isDead (line : String) : Bool := line.startsWith "CRASH" || line.startsWith "ABORT" || line.startsWith "TIMEOUT"

/-- bytes of the hex digits in `bs[a, b)` -/
def hexRange (bs : ByteArray) (a b : Nat) : List Byte := (parseItems bs a b 2).toList

def rangeStr (bs : ByteArray) (a b : Nat) : String := (String.fromUTF8? (bs.extract a b)).getD ""

/-- the byte range of the value of the first token `key=…` -/
def _root_.AbsDriver.Toks.valueRange (t : Toks) (key : String) : Option (Nat × Nat) := Id.run do
  let kb := (key ++ "=").toUTF8
  for k in [0:t.rng.size] do
    let (a, b) := t.rng[k]!
    if b - a ≥ kb.size && t.bs.extract a (a + kb.size) == kb then return some (a + kb.size, b)
  return none

/-- the bytes of token `k` read as hex -/
def _root_.AbsDriver.Toks.hexTok (t : Toks) (k : Nat) : List Byte :=
  match t.rng[k]? with
  | some (a, b) => hexRange t.bs a b
  | none => []

def _root_.AbsDriver.Toks.isWord (t : Toks) (k : Nat) (w : String) : Bool :=
  match t.rng[k]? with
  | some (a, b) => t.bs.extract a b == w.toUTF8
  | none => false

/-- position of the first byte `c` in `bs[a, b)` (or `b`) -/
partial def findByte (bs : ByteArray) (c : UInt8) (a b : Nat) : Nat :=
  if a ≥ b then b else if bs.get! a == c then a else findByte bs c (a + 1) b

partial def splitRange (bs : ByteArray) (c : UInt8) (a b : Nat) (acc : Array (Nat × Nat)) : Array (Nat × Nat) :=
  if a > b then acc else
  let p := findByte bs c a b
  if p ≥ b then acc.push (a, b) else splitRange bs c (p + 1) b (acc.push (a, p))

def natRange (bs : ByteArray) (a b : Nat) : Nat := (rangeStr bs a b).toNat?.getD 0

/-- `<6 x 8 hex digits>/<name hex>` -/
def cueOfRange (bs : ByteArray) (a b : Nat) : Cue :=
  let v := (parseItems bs a (min b (a + 48)) 8).toList
  let name := if a + 49 ≤ b then hexRange bs (a + 49) b else []
  ⟨v.getD 0 0, v.getD 1 0, v.getD 2 0, v.getD 3 0, v.getD 4 0, v.getD 5 0, name⟩

def cuesOfRange (bs : ByteArray) (a b : Nat) : List Cue :=
  if a ≥ b then [] else ((splitRange bs 44 a b #[]).toList.filter fun r => r.2 - r.1 ≥ 48).map fun r => cueOfRange bs r.1 r.2

/-- `<ret>:<hex>` -> the bytes when ret ≠ 0 -/
def retBlob (bs : ByteArray) (r : Option (Nat × Nat)) : Option (List Byte) :=
  match r with
  | some (a, b) =>
    let p := findByte bs 58 a b
    if natRange bs a p == 0 then none else some (hexRange bs (min b (p + 1)) b)
  | none => none

def gotOf (t : Toks) : Got :=
  let bs := t.bs
  let strs := STR_TYPES.map fun ty =>
    (ty, match t.valueRange ("s" ++ toString ty) with
         | some (a, b) => if bs.extract a b == "null".toUTF8 then none else some (hexRange bs a b)
         | none => none)
  let cc := match t.valueRange "cuecount" with
    | some (a, b) => let p := findByte bs 58 a b; (natRange bs a p, natRange bs (min b (p + 1)) b)
    | none => (0, 0)
  let cues := match t.valueRange "cues" with
    | some (a, b) =>
      let p := findByte bs 58 a b
      if natRange bs a p == 0 then none else
      let q := findByte bs 58 (p + 1) b
      some (natRange bs (p + 1) q, cuesOfRange bs (min b (q + 1)) b)
    | none => none
  { strs := strs, bext := retBlob bs (t.valueRange "bext"), cart := retBlob bs (t.valueRange "cart"), cueCount := cc, cues := cues,
    inst := retBlob bs (t.valueRange "inst"), chmap := retBlob bs (t.valueRange "chmap") }

def contOf (fmt : Nat) : Cont :=
  if fmt / 0x10000000 % 4 == 2 && fmt / 0x10000 % 0x1000 == 0x01 then .rifx else
  match fmt / 0x10000 % 0x1000 with
  | 0x01 => .wav | 0x13 => .wavex | 0x22 => .rf64 | 0x02 => .aiff | 0x18 => .caf | 0x0B => .w64 | 0x03 => .au | _ => .other

def cstrOf (b : List Byte) : List Byte := Sf.Meta.cstr b

def retOf (o : Toks) : Int := (o.field "ret").map intOf |>.getD (-999)

/-- a run under construction -/
structure RunSt where
  seen : Bool := false
  dead : Bool := false
  late : Bool := false
  run : Run := { reopen := none }

def RunSt.step (s : RunSt) (opLine outLine : String) : RunSt :=
  if isDead outLine then { s with dead := true } else
  let t := tokenize opLine
  let o := tokenize outLine
  let r := s.run
  match t.str 0 with
  | "open" =>
    if t.str 1 == "h0" then { s with run := { r with openOk := o.str 0 == "open=ok" } }
    else if t.str 1 == "h1" then
      { s with run := { r with reopen := some { ok := o.str 0 == "open=ok", frames := (o.field "frames").map intOf |>.getD (-1) } } }
    else s
  | "setstr" =>
    if t.str 1 != "h0" then s else
    let ty := intOf (t.str 2)
    let text : Option (List Byte) := if t.rng.size ≤ 3 || t.isWord 3 "null" then none else some (cstrOf (t.hexTok 3))
    { s with run := { r with sets := r.sets ++ [{ kind := .str ty, late := s.late, ok := retOf o == 0, text := text }] } }
  | "cmd" =>
    if t.str 1 != "h0" then s else
    let id := parseHexNat (t.str 2).toList
    let kind : Option Kind := if id == 0x10F1 then some .bext else if id == 0x1400 then some .cart else if id == 0x10D1 then some .inst
      else if id == 0x1101 then some .chmap else none
    match kind with
    | none => s
    | some k =>
      let size := (t.str 3).toNat?.getD 0
      let blob := if t.rng.size ≤ 4 || t.isWord 4 "null" || t.isWord 4 "zero" then [] else (t.hexTok 4).take size
      { s with run := { r with sets := r.sets ++ [{ kind := k, late := s.late, ok := retOf o == 1, blob := blob, size := size }] } }
  | "setcues" =>
    if t.str 1 != "h0" then s else
    let cs := match t.rng[3]? with
      | some (a, b) => (cuesOfRange t.bs a b).map fun c => { c with name := (cstrOf c.name).take 255 }
      | none => []
    { s with run := { r with sets := r.sets ++ [{ kind := .cues, late := s.late, ok := retOf o == 1, cues := cs }] } }
  | "w" =>
    if t.str 1 != "h0" then s else
    { s with late := true, run := { r with items := (t.items 5 0 4).toList, wret := some (retOf o, (o.field "err").map intOf |>.getD 0) } }
  | "close" => if t.str 1 == "h0" then { s with run := { r with close := some (retOf o) } } else s
  | "getmeta" => if (outLine.startsWith "meta ") then { s with run := { r with got := some (gotOf o) } } else { s with dead := true }
  | "r" =>
    if t.str 1 != "h1" then s else
    let data := match o.dataTok with | some k => (o.items k 5 4).toList | none => []
    { s with run := { r with read := some { ret := retOf o, err := (o.field "err").map intOf |>.getD 0, data := data } } }
  | _ => s

def RunSt.finish (s : RunSt) : Run := { s.run with complete := !s.dead }

structure Rec where
  name : String := "-"
  g : Geom := {}
  cur : Nat := 0
  main : RunSt := {}
  twin : RunSt := {}
  perm : RunSt := {}
  pending : Option String := none

def Rec.feed (r : Rec) (op out : String) : Rec :=
  match r.cur with
  | 1 => { r with main := r.main.step op out }
  | 2 => { r with twin := r.twin.step op out }
  | 3 => { r with perm := r.perm.step op out }
  | _ => r

def Rec.kill (r : Rec) : Rec :=
  match r.cur with
  | 1 => { r with main := { r.main with dead := true } }
  | 2 => { r with twin := { r.twin with dead := true } }
  | 3 => { r with perm := { r.perm with dead := true } }
  | _ => r

/-- an op line without its transcript line: the script died -/
def Rec.seal (r : Rec) : Rec := if r.pending.isSome then { r.kill with pending := none } else r

def Rec.record (r : Rec) : Record :=
  { g := r.g, main := r.main.finish, twin := if r.twin.seen then some r.twin.finish else none,
    perm := if r.perm.seen then some r.perm.finish else none }

def showFails (fs : List Fail) : String := "; ".intercalate (fs.map fun f => s!"tag={f.tag} run={f.run}")

def finish (r : Rec) : String :=
  let rc := r.record
  let cl := classes rc
  let cls := if cl.isEmpty then "-" else ",".intercalate cl
  let fs := judge rc
  if fs.isEmpty then
    s!"{r.name} ok classes={cls} sets={rc.main.sets.length} twin={if rc.twin.isSome then 1 else 0} perm={if rc.perm.isSome then 1 else 0}"
  else s!"{r.name} bad classes={cls} " ++ showFails fs

def geomOf (line : String) : Geom :=
  let toks := (line.trimAscii.toString).splitOn " "
  let fmt := parseHexNat ((kvGet toks "fmt").getD "0").toList
  let pkg := parseHexBytes ((kvGet toks "pkg").getD "")
  let name := pkg.takeWhile (· ≠ 45)
  { cont := contOf fmt, ch := kvNat toks "ch" 1, sr := kvNat toks "sr" 0, sub := fmt % 0x10000, pkgName := name, pkgVersion := pkg.drop (name.length + 1) }

def cmdMeta : IO UInt32 := do
  let h ← IO.getStdin
  let out ← IO.getStdout
  let mut cur : Rec := {}
  let mut started := false
  repeat
    let line ← h.getLine
    if line.isEmpty then break
    if line.startsWith "== " then
      if started then out.putStrLn (finish cur.seal)
      cur := { name := (line.drop 3).trimAscii.toString }
      started := true
    else if line.startsWith "geom " then
      started := true
      cur := { cur with g := geomOf line }
    else if line.startsWith "run " then
      cur := cur.seal
      let w := (line.drop 4).trimAscii.toString
      if w == "main" then cur := { cur with cur := 1, main := { seen := true } }
      else if w == "twin" then cur := { cur with cur := 2, twin := { seen := true } }
      else cur := { cur with cur := 3, perm := { seen := true } }
    else
      match cur.pending with
      | none => cur := { cur with pending := some line }
      | some op => cur := { cur with pending := none }.feed op line
  if started then out.putStrLn (finish cur.seal)
  return 0

/-! ## C13 -/
open Sf.AbsMeta.Chunks

def entryOf (o : Toks) : Entry :=
  { sizeRet := (o.field "size_ret").map intOf |>.getD (-999), size := ((o.field "size").bind (·.toNat?)).getD 0,
    dataRet := (o.field "data_ret").map intOf |>.getD (-999),
    id := (match o.valueRange "id" with | some (a, b) => hexRange o.bs a b | none => []),
    buflen := ((o.field "buflen").bind (·.toNat?)).getD 0,
    data := (match o.valueRange "data" with | some (a, b) => hexRange o.bs a b | none => []) }

structure CSt where
  seen : Bool := false
  dead : Bool := false
  late : Bool := false
  run : CRun := {}
  -- a chunkall in progress
  allId : Option (Option (List Byte)) := none
  allIt : Bool := false
  allHead : Bool := false
  ents : Array Entry := #[]

def idArg (t : Toks) (k : Nat) : Option (List Byte) := if t.rng.size ≤ k || t.isWord k "null" then none else some (t.hexTok k)

/-- one op line with its single transcript line -/
def CSt.step (s : CSt) (opLine outLine : String) : CSt :=
  if isDead outLine then { s with dead := true } else
  let t := tokenize opLine
  let o := tokenize outLine
  let r := s.run
  match t.str 0 with
  | "open" =>
    if t.str 3 == "r" then { s with run := { r with reopen := some { ok := o.str 0 == "open=ok", frames := (o.field "frames").map intOf |>.getD (-1) } } }
    else s
  | "setchunk" =>
    let ret := retOf o
    { s with run := { r with sets := r.sets ++ [{ id := t.hexTok 2, data := t.hexTok 3, late := s.late, ret0 := outLine.trimAscii.toString == "ret=0 err=0",
                                                    refused := (o.field "ret").isSome && ret != 0 }] } }
  | "w" =>
    -- several audio write calls add up (vlib/lateset.py: more audio after a refused late set); vlib/absmeta.py hands every
    -- write call over as 16-bit items (`canon_write`), whatever entry point the script used
    let (pr, pe) := r.wret.getD (0, 0)
    let e := (o.field "err").map intOf |>.getD 0
    { s with late := true, run := { r with frames := r.frames + (t.str 4).toNat?.getD 0, items := r.items ++ (t.items 5 0 4).toList,
                                           wret := some (pr + retOf o, if pe != 0 then pe else e) } }
  | "close" =>
    let c := retOf o
    { s with run := { r with close := match r.close with | some old => some (if old != 0 then old else c) | none => some c } }
  | "chunkiter" => { s with run := { r with queries := r.queries ++ [.iter (idArg t 2) (o.str 0 == "it=1")] } }
  | "chunknext" => { s with run := { r with queries := r.queries ++ [.next (o.str 0 == "it=1")] } }
  | "chunkdata" =>
    { s with run := { r with queries := r.queries ++ [.data (if outLine.startsWith "size_ret=" then some (entryOf o) else none)] } }
  | "getstr" =>
    let v := match o.valueRange "str" with
      | some (a, b) => if o.bs.extract a b == "null".toUTF8 then none else some (hexRange o.bs a b)
      | none => none
    { s with run := { r with queries := r.queries ++ [.getstr ((t.str 2).toNat?.getD 0) v] } }
  | "r" =>
    let data := match o.dataTok with | some k => (o.items k 5 4).toList | none => []
    { s with run := { r with readN := (t.str 4).toNat?.getD 0, read := some { ret := retOf o, err := (o.field "err").map intOf |>.getD 0, data := data } } }
  | _ => s

structure CRec where
  name : String := "-"
  c : CCont := .wav
  own : List (List Byte × Nat) := []
  strings : List (Nat × List Byte) := []
  cur : Nat := 0
  main : CSt := {}
  twin : CSt := {}
  pending : Option String := none
  inAll : Bool := false

def CRec.get (r : CRec) : CSt := if r.cur == 2 then r.twin else r.main
def CRec.put (r : CRec) (s : CSt) : CRec := if r.cur == 2 then { r with twin := s } else { r with main := s }

def CRec.seal (r : CRec) : CRec :=
  if r.pending.isSome || r.inAll then (r.put { r.get with dead := true }) |> fun x => { x with pending := none, inAll := false } else r

def CRec.record (r : CRec) : CRecord :=
  { c := r.c, main := { r.main.run with complete := !r.main.dead }, own := r.own, strings := r.strings,
    twin := if r.twin.seen then some { r.twin.run with complete := !r.twin.dead } else none }

def finishC (r : CRec) : String :=
  let rc := r.record
  let fs := Chunks.judge rc
  if fs.isEmpty then s!"{r.name} ok chunks={(stored rc.main.sets).length} queries={rc.main.queries.length} twin={if rc.twin.isSome then 1 else 0}"
  else s!"{r.name} bad " ++ showFails fs

def pairsOf (s : String) : List (String × String) :=
  if s.isEmpty then [] else (s.splitOn ",").filterMap fun p =>
    match p.splitOn ":" with
    | [a, b] => some (a, b)
    | _ => none

def cmdChunks : IO UInt32 := do
  let h ← IO.getStdin
  let out ← IO.getStdout
  let mut cur : CRec := {}
  let mut started := false
  repeat
    let line ← h.getLine
    if line.isEmpty then break
    if line.startsWith "== " then
      if started then out.putStrLn (finishC cur.seal)
      cur := { name := (line.drop 3).trimAscii.toString }
      started := true
    else if line.startsWith "geom " then
      started := true
      let toks := (line.trimAscii.toString).splitOn " "
      let c : CCont := match (kvGet toks "cont").getD "wav" with | "rf64" => .rf64 | "aiff" => .aiff | "caf" => .caf | _ => .wav
      cur := { cur with c := c, own := (pairsOf ((kvGet toks "own").getD "")).map (fun p => (parseHexBytes p.1, p.2.toNat?.getD 0)),
                        strings := (pairsOf ((kvGet toks "strings").getD "")).map (fun p => (p.1.toNat?.getD 0, parseHexBytes p.2)) }
    else if line.startsWith "run " then
      cur := cur.seal
      let w := (line.drop 4).trimAscii.toString
      if w == "twin" then cur := { cur with cur := 2, twin := { seen := true } }
      else cur := { cur with cur := 1, main := { seen := true } }
    else if cur.inAll then
      -- transcript lines of a chunkall: it=…, c …, end n=…
      let s := cur.get
      if isDead line then cur := { cur.put { s with dead := true } with inAll := false }
      else if line.startsWith "it=" && !s.allHead then cur := cur.put { s with allIt := line.startsWith "it=1", allHead := true }
      else if line.startsWith "c " then cur := cur.put { s with ents := s.ents.push (entryOf (tokenize ((line.drop 2).toString))) }
      else if line.startsWith "end n=" then
        let n := intOf ((line.drop 6).trimAscii.toString)
        let q := Query.all (s.allId.getD none) s.allIt s.ents.toList n
        cur := { cur.put { s with run := { s.run with queries := s.run.queries ++ [q] }, allId := none, ents := #[], allHead := false } with inAll := false }
      else cur := { cur.put { s with dead := true } with inAll := false }
    else
      match cur.pending with
      | none =>
        if line.startsWith "chunkall " then
          let t := tokenize line
          let s := cur.get
          cur := { cur.put { s with allId := some (idArg t 2), allIt := false, allHead := false, ents := #[] } with inAll := true }
        else cur := { cur with pending := some line }
      | some op => cur := ({ cur with pending := none }).put (cur.get.step op line)
  if started then out.putStrLn (finishC cur.seal)
  return 0

def cmd (args : List String) : IO UInt32 :=
  match args with
  | "chunks" :: _ => cmdChunks
  | _ => cmdMeta

end AbsMetaDriver
