/-
  `sfmodel adpcm ima-wav|ima-aiff|ms <channels> <blockalign> <samplesperblock> [ref]`
  Each stdin line is one block in hex (`blockalign` bytes; for ima-aiff `34 * channels` bytes); the output line is
  the decoded block as 4-hex-digit two's-complement shorts, interleaved as the API returns them.
  Without `ref` the lib-shaped decoder of `SfModel.Adpcm` runs; with `ref` the reference decoder of
  `SfModel.AdpcmSpec` (the other side of theorems `ima_wav_decode_ref`, `ima_aiff_decode_ref`, `ms_decode_ref`).
-/
import SfModel.Basic
import SfModel.Adpcm
import SfModel.AdpcmSpec
open Sf

namespace Driver.Adpcm

def outLine (xs : List Int) : String := String.join (xs.map fun x => hexFixed 4 (wrapU 16 x))

partial def loop (h : IO.FS.Stream) (f : List Byte → List Int) : IO Unit := do
  let line ← h.getLine
  if line.isEmpty then return
  IO.println (outLine (f (parseHexBytes line.trimAscii.toString)))
  loop h f

def cmd (args : List String) : IO UInt32 := do
  match args with
  | kind :: chS :: baS :: spbS :: rest =>
    let ch := chS.toNat!
    let ba := baS.toNat!
    let spb := spbS.toNat!
    let ref := rest.headD "" == "ref"
    let f? : Option (List Byte → List Int) :=
      if kind == "ima-wav" then
        some (if ref then Adpcm.Spec.imaWavBlock ch else Adpcm.imaWavDecodeBlock ch spb)
      else if kind == "ima-aiff" then
        some (if ref then Adpcm.Spec.imaAiffBlock ch else Adpcm.imaAiffDecodeBlock ch ba spb)
      else if kind == "ms" then
        some (if ref then Adpcm.Spec.msBlock ch else Adpcm.msDecodeBlock ch spb)
      else none
    match f? with
    | none => IO.eprintln "sfmodel adpcm: unknown decoder"; return 2
    | some f =>
      if ch != 1 && ch != 2 then
        IO.eprintln "sfmodel adpcm: channels must be 1 or 2"; return 2
      loop (← IO.getStdin) f
      return 0
  | _ =>
    IO.eprintln "usage: sfmodel adpcm ima-wav|ima-aiff|ms <channels> <blockalign> <samplesperblock> [ref]"
    return 2

end Driver.Adpcm
