/-
  sfmodel audiodetect — `Sf.AudioDetect.analyze` (wavlike_analyze / audio_detect / vote_for_format as written).
  stdin, one request per line:
     analyze pipe=<0|1> ch=<channels> major=<hex container bits> dlen=<data chunk length> file=<hex of the whole file>
       -> outcome=<pipe|failed|found:<hex>|unhandled:<hex>> fmt=<8 hex> bw=<bytewidth> blockw=<blockwidth> frames=<dlen / blockwidth> votes=<leF,beF,leI,beI;...>
     vote <hex buffer>     (the whole buffer is the piece; datalen = its length)
       -> ret=<audio_detect> votes=<leF,beF,leI,beI>
-/
import SfModel.AudioDetect
import SfModel.Basic
import Driver.Util
import Driver.Script
open Sf
namespace AudioDetectDriver
open Sf.AudioDetect

def voteStr (v : Vote) : String := s!"{v.leFloat},{v.beFloat},{v.leInt},{v.beInt}"

def answer (line : String) : String :=
  let toks := (line.splitOn " ").filter (· ≠ "")
  match toks with
  | "analyze" :: rest =>
    let file : List Nat := parseHexBytes ((kvGet rest "file").getD "")
    let ch := kvNat rest "ch" 1
    let major := parseHexNat ((kvGet rest "major").getD "10000").toList
    let dlen := kvNat rest "dlen" 0
    let r := analyze (kvNat rest "pipe" 0 = 1) file ch (brokenLayout major ch)
    let o := match r.2.1 with
      | .pipeRefused => "pipe"
      | .failed => "failed"
      | .found f => "found:" ++ hexFixed 1 f
      | .unhandled f => "unhandled:" ++ hexFixed 1 f
    s!"outcome={o} fmt={hexFixed 8 r.1.format} bw={r.1.bytewidth} blockw={r.1.blockwidth} frames={if r.1.blockwidth = 0 then 0 else dlen / r.1.blockwidth} votes={";".intercalate (r.2.2.map voteStr)}"
  | ["vote", hex] =>
    let d : List Nat := parseHexBytes hex
    let n := d.length
    s!"ret={audioDetect d n} votes={voteStr (voteForFormat d n)}"
  | _ => "bad-request"

partial def loop (h : IO.FS.Stream) : IO Unit := do
  let line ← h.getLine
  if line.isEmpty then return
  IO.println (answer line.trimAscii.toString)
  loop h

def main (_args : List String) : IO UInt32 := do
  loop (← IO.getStdin)
  return 0

end AudioDetectDriver
