/-
  `sfmodel aiff` — runs the definitions of SfModel.Aiff, one request per stdin line, one answer line each:

    ten <n>                         -> ten=<20 hex digits of int2ten n> back=<ten2int of those bytes>
    t2i <20 hex digits>             -> back=<ten2int>
    hdr codec=<hex> endian=<0..3> ch=<n> sr=<n> frames=<n> filelength=<int> datalength=<int> [peaks=<v32hex>,<pos>/…]
                                    -> <hex of hdrRaw>
    session codec=<hex> endian=<0..3> ch=<n> sr=<n> stale=<n> ops=<op;op;…>
         op:  w<nbytes>[:<v32hex>,<pos>/…]   one write call storing nbytes of audio, PEAK table afterwards
              W<nbytes>[:…]                   the same with SFC_SET_UPDATE_HEADER_AUTO on
              u                               SFC_UPDATE_HEADER_NOW
              c                               sf_close
              x<ty>@<hex items>[:peaks]       one write call of caller items of type s16|s32|f32|f64 (fixed-width hex, as in
                                              harness scripts), encoded by the configuration's encoder (SfModel/AiffAudio.lean)
              X<ty>@…                         the same in auto-header mode
              d                               report the store: hdr=<hex> dlen=<n> tail=<hex> [data=<hex> when typed writes were used]
                                    -> the `d` reports joined by " | "   (`bad-config` when kindOf is none)
    parse <hex of a whole file>     -> ok ch=<n> sr=<n> frames=<n> fmt=<8 hex> | err | unmodelled
-/
import SfModel.Basic
import SfModel.Aiff
import SfModel.AiffAudio
import Driver.Util
open Sf (hexBytes hexFixed parseHexBytes parseHexNat)
open Sf.Aiff

namespace Driver.Aiff

def parsePeaks (s : String) : List Peak :=
  (s.splitOn "/").filterMap fun t =>
    match t.splitOn "," with
    | [v, p] => some { v32 := parseHexNat v.toList, pos := p.toNat?.getD 0 }
    | _ => none

def cfgOf (toks : List String) : Cfg :=
  { codec := parseHexNat ((kvGet toks "codec").getD "0").toList, endian := kvNat toks "endian" 0,
    ch := kvNat toks "ch" 1, sr := kvNat toks "sr" 1 }

def intOf (s : String) : Int :=
  if s.startsWith "-" then - ((s.drop 1).toNat?.getD 0 : Nat) else ((s.toNat?.getD 0 : Nat) : Int)

def report (s : St) (typed : Bool) : String :=
  s!"hdr={hexBytes s.hdr} dlen={s.data.length} tail={hexBytes s.tail}" ++ (if typed then s!" data={hexBytes s.data}" else "")

def runOps (c : Cfg) (k : Kind) (ops : List String) (s : St) (acc : List String) (typed : Bool := false) : List String :=
  match ops with
  | [] => acc.reverse
  | op :: rest =>
    if op == "u" then runOps c k rest (update c k s) acc typed
    else if op == "c" then runOps c k rest (close c k s) acc typed
    else if op == "d" then runOps c k rest s (report s typed :: acc) typed
    else if op.startsWith "x" || op.startsWith "X" then
      -- x<ty>@<hex>[:peaks]
      let body := (op.drop 1).toString
      let (lhs, pk) := match body.splitOn ":" with
        | [a] => (a, none)
        | [a, p] => (a, some (parsePeaks p))
        | _ => ("", none)
      match lhs.splitOn "@", encOf c k with
      | [tyS, hex], some e =>
        match tyOf tyS with
        | some ty => runOps c k rest (writeSamples c k s e {} ty (parseItems ty hex) pk (op.startsWith "X")) acc true
        | none => runOps c k rest s acc typed
      | _, _ => runOps c k rest s acc typed
    else if op.startsWith "w" || op.startsWith "W" then
      let body := (op.drop 1).toString
      let (n, pk) := match body.splitOn ":" with
        | [n] => (n.toNat?.getD 0, none)
        | [n, p] => (n.toNat?.getD 0, some (parsePeaks p))
        | _ => (0, none)
      runOps c k rest (write c k s (List.replicate n 0) pk (op.startsWith "W")) acc typed
    else runOps c k rest s acc typed

def showRes : ParseRes → String
  | .ok i => s!"ok ch={i.ch} sr={i.sr} frames={i.frames} fmt={hexFixed 8 i.fmt}"
  | .err => "err"
  | .unmodelled => "unmodelled"

def answer (line : String) : String :=
  let toks := (line.splitOn " ").filter (· ≠ "")
  match toks with
  | "ten" :: n :: _ =>
    let b := int2ten (n.toNat?.getD 0)
    s!"ten={hexBytes b} back={ten2int b}"
  | "t2i" :: h :: _ => s!"back={ten2int (parseHexBytes h)}"
  | "hdr" :: rest =>
    let c := cfgOf rest
    match kindOf c with
    | none => "bad-config"
    | some k =>
      let pk := (kvGet rest "peaks").map parsePeaks
      hexBytes (hdrRaw c k (kvNat rest "frames" 0) (intOf ((kvGet rest "filelength").getD "0"))
        (intOf ((kvGet rest "datalength").getD "0")) pk)
  | "session" :: rest =>
    let c := cfgOf rest
    match kindOf c with
    | none => "bad-config"
    | some k =>
      let ops := ((kvGet rest "ops").getD "").splitOn ";"
      " | ".intercalate (runOps c k ops (openW c k (kvNat rest "stale" 0)) [])
  | "parse" :: h :: _ => showRes (parse (parseHexBytes h))
  | _ => "bad-request"

partial def loop (h : IO.FS.Stream) : IO Unit := do
  let line ← h.getLine
  if line.isEmpty then return
  IO.println (answer line.trimAscii.toString)
  loop h

def cmd (_args : List String) : IO UInt32 := do
  loop (← IO.getStdin)
  return 0

end Driver.Aiff
