/-
  `sfmodel geomfix` — small geometry rules touched by the round-4 container repairs, one request per stdin line:

    gsm blocks <fx 0|1> <blocksize 65|33> <datalength>        -> blocks=<n> frames=<n>      (gsm610_init, SFM_READ)
    gsm wav <fx 0|1> <chunk> <avail>                           -> seen=<n> blocks=<n> frames=<n>   (wav_read_header + gsm610_init)
    gsm reopen <fx 0|1> <frames written>                       -> frames=<n>                  (closed WAV / WAVEX file)
-/
import SfModel.GsmGeom
import Driver.Util
namespace Driver.GeomFix
open Sf.GsmGeom

def nat (s : String) : Nat := s.toNat?.getD 0

def answer (toks : List String) : String :=
  match toks with
  | ["gsm", "blocks", fx, bs, dl] =>
    let b := blocks (fx == "1") (nat bs) (nat dl)
    s!"blocks={b} frames={samplesPerBlock (nat bs) * b}"
  | ["gsm", "wav", fx, chunk, avail] =>
    let seen := wavSeen (nat chunk) (nat avail)
    let b := blocks (fx == "1") 65 seen
    s!"seen={seen} blocks={b} frames={320 * b}"
  | ["gsm", "reopen", fx, w] => s!"frames={wavReopenFrames (fx == "1") (nat w)}"
  | _ => "bad-request"

def cmd (_args : List String) : IO UInt32 := do
  for line in (← readLines) do
    IO.println (answer ((line.splitOn " ").filter (· ≠ "")))
  return 0

end Driver.GeomFix
