/-
  `sfmodel abs-write` — evaluates THE WRITE-SIDE PREDICATE of C01 / C04 / C07 / C11 (`Sf.AbsWrite.judgeG` = `judge` + the exact rate clause `rateOkG`,
  lean/SfModel/AbsWrite.lean) on the records of the all-format write campaign (vlib/writecamp.py).

  stdin: any number of records, each
      == <name>
      geom fmt=<format word, hex> ch=<n> sr=<n> ty=s16|s32|f32|f64 [block=<B> pad=<p>]
           (block / pad: the CALLER's geometry table, vlib/geometry.py; when given it must equal the table of
            lean/SfModel/Geometry.lean — clause `geometry`)
      run one            the reference run: <op line> / <transcript line> pairs in the harness script language
          open h0 sM w fmt= ch= sr= frames=      -> open=ok … | open=NULL …
          w h0 <ty> i|f <n> <hex items>          -> ret= err=                 (the write calls, in order)
          close h0                               -> ret=
          dump sM                                -> len= hex=<the closed file>
          open hK sM r [fmt= ch= sr=]            -> open=ok err= ch= sr= frames= fmt= … | open=NULL …   (the re-open)
          r hK <ty> i <n>                        -> ret= err= data=           (1st: read to the end; 2nd: a further read)
          info / close hK / cmd …                   not judged
      run split          the same samples split over calls, with header updates and crash-point copies
          open / cmd h0 1060|1061 … / w … / close h0 / dump sM as above
          copy sK sM                             -> …      a crash point: the store as it is after the calls made so far
          open hK sK r … / r hK <ty> i <n>       -> …      re-open and read-back of crash point sK
      run stale          run one again with another SF_INFO.frames at open: only `dump` is looked at
  A transcript line that starts with CRASH / ABORT / TIMEOUT, a missing dump, re-open or read-back makes the record
  incomplete (clause `record`).
  stdout, one line per record:
      <name> ok N=<frames accepted> F=<frames at re-open> B=<block> pad=<p> lossless=0|1 calls=<split calls> snaps=<crash points judged>
      <name> bad tag=<clause> run=<1|2|3> idx=<call / crash point> <detail> {; tag=… run=… idx=… <detail>}
-/
import SfModel.AbsWrite
import Driver.Abs
open Sf

namespace AbsWriteDriver
open AbsDriver

def Toks.tokWith (t : Toks) (pre : String) : Option Nat := Id.run do
  let kb := pre.toUTF8
  for k in [0:t.rng.size] do
    let (a, b) := t.rng[k]!
    if b - a ≥ kb.size && t.bs.extract a (a + kb.size) == kb then return some k
  return none

def isDead (line : String) : Bool := line.startsWith "CRASH" || line.startsWith "ABORT" || line.startsWith "TIMEOUT"

def infoOf (t : Toks) : AbsWrite.Info :=
  if t.str 0 == "open=NULL" then { null := true }
  else
    { ch := (t.field "ch").map intOf |>.getD (-1), sr := (t.field "sr").map intOf |>.getD (-1),
      fmt := (t.field "fmt").map (fun s => parseHexNat s.toList) |>.getD 0,
      frames := (t.field "frames").map intOf |>.getD (-1) }

/-- a run under construction -/
structure RunSt where
  seen : Bool := false
  writer : String := ""
  openSeen : Bool := false
  openNull : Bool := false
  calls : Array AbsWrite.Call := #[]
  close : Option Int := none
  bytes : Option (Array Abs.Item) := none
  info : Option AbsWrite.Info := none          -- re-open of the finished file (run one)
  reads : Nat := 0
  rb : AbsWrite.ReadBack := {}
  copies : List (String × Nat) := []           -- crash-point store -> calls made before the copy
  snaps : Array (String × AbsWrite.Snap × Bool) := #[]   -- handle, crash point, read-back seen
  finalStore : String := ""

structure Rec where
  name : String := "-"
  word : Nat := 0
  ch : Nat := 1
  sr : Nat := 0
  ty : Ty := .s16
  block : Option Nat := none
  pad : Option Nat := none
  dead : Bool := false
  cur : Nat := 0                     -- 1 one, 2 split, 3 stale
  one : RunSt := {}
  split : RunSt := {}
  stale : RunSt := {}
  pending : Option String := none

def RunSt.step (ty : Ty) (s : RunSt) (opLine outLine : String) : RunSt :=
  let t := tokenize opLine
  let o := tokenize outLine
  match t.str 0 with
  | "open" =>
    if t.str 3 == "w" then { s with writer := t.str 1, openSeen := true, openNull := o.str 0 == "open=NULL", finalStore := t.str 2 }
    else if t.str 3 == "r" then
      match s.copies.find? (·.1 == t.str 2) with
      | some (_, k) => { s with snaps := s.snaps.push (t.str 1, { calls := k, info := infoOf o }, false) }
      | none => if s.info.isNone then { s with info := some (infoOf o), writer := "" } else s
    else s
  | "w" =>
    match tyOf (t.str 2) with
    | some cty =>
      let ret := (o.field "ret").map intOf |>.getD (-999)
      { s with calls := s.calls.push { ty := cty, fc := t.str 3 == "f", n := intOf (t.str 4), data := t.items 5 0 (digitsOf cty), ret := ret } }
    | none => s
  | "close" =>
    if t.str 1 == s.writer && s.close.isNone && s.info.isNone then { s with close := some ((o.field "ret").map intOf |>.getD (-999)) } else s
  | "dump" =>
    if s.bytes.isSome then s else
    match Toks.tokWith o "hex=" with
    | some k => { s with bytes := some (o.items k 4 2) }
    | none => s
  | "copy" => { s with copies := (t.str 1, s.calls.size) :: s.copies }
  | "r" =>
    match o.field "ret", o.dataTok with
    | some r, some k =>
      let h := t.str 1
      -- a crash point's read-back?
      match s.snaps.findIdx? (fun x => x.1 == h && !x.2.2) with
      | some i =>
        let (hh, sn, _) := s.snaps[i]!
        { s with snaps := s.snaps.set! i (hh, { sn with rb := { ret := intOf r, data := o.items k 5 (digitsOf ty) } }, true) }
      | none =>
        if s.info.isNone then s
        else if s.reads == 0 then { s with reads := 1, rb := { ret := intOf r, data := o.items k 5 (digitsOf ty) } }
        else if s.reads == 1 then { s with reads := 2, rb := { s.rb with more := intOf r } }
        else s
    | _, _ => s
  | _ => s

def RunSt.run (s : RunSt) : AbsWrite.Run :=
  { openNull := s.openNull, calls := s.calls.toList, close := s.close.getD (-999), bytes := s.bytes.getD #[] }

def Rec.geom (r : Rec) : AbsWrite.Geom := { word := r.word, ch := r.ch, sr := r.sr }

/-- is everything there that `judge` looks at? -/
def Rec.complete (r : Rec) : Bool :=
  !r.dead && r.one.seen && r.one.openSeen &&
  (r.one.openNull ||
    (r.one.close.isSome && r.one.bytes.isSome && r.one.info.isSome &&
      ((r.one.info.map (·.null)).getD true || r.one.reads == 2))) &&
  (!r.split.seen || (r.split.openSeen && (r.split.openNull || (r.split.bytes.isSome &&
      r.split.snaps.size == r.split.copies.length && r.split.snaps.all (fun x => x.2.1.info.null || x.2.2))))) &&
  (!r.stale.seen || r.stale.bytes.isSome)

def Rec.record (r : Rec) : AbsWrite.Record :=
  { g := r.geom, ty := r.ty, complete := r.complete, one := r.one.run, info := r.one.info.getD { null := true }, rb := r.one.rb,
    split := if r.split.seen then some r.split.run else none,
    snaps := (r.split.snaps.map (·.2.1)).toList,
    stale := if r.stale.seen then some (r.stale.bytes.getD #[]) else none }

def firstDiffAt (a b : Array Abs.Item) (n : Nat) : Option Nat := Id.run do
  for k in [0:n] do
    if a[k]? != b[k]? then return some k
  return none

def hexCell (ty : Ty) (v : Option Abs.Item) : String := (v.map (hexFixed (digitsOf ty))).getD "none"

def detail (rc : AbsWrite.Record) (f : AbsWrite.Fail) : String :=
  let g := rc.g
  let N := AbsWrite.framesAccepted g.ch rc.one.calls
  match f.tag with
  | "frames" => s!"N={N} F={rc.info.frames} B={g.block} pad={g.pad}"
  | "eof" => s!"F={rc.info.frames} ch={g.ch} delivered={rc.rb.ret} further={rc.rb.more}"
  | "info" => s!"ch={rc.info.ch} fmt={hexFixed 8 rc.info.fmt} asked-ch={g.ch} asked-fmt={hexFixed 8 g.word}"
  | "rate" => s!"asked={g.sr} got={rc.info.sr}"
  | "close" => s!"ret={rc.one.close}"
  | "write" =>
    let cs := if f.run == 2 then (rc.split.map (·.calls)).getD [] else rc.one.calls
    match cs[f.idx]? with
    | some c => s!"asked={c.n} ret={c.ret}"
    | none => ""
  | "roundtrip" =>
    let w := AbsWrite.written g.ch rc.one.calls
    let c := Abs.cells rc.ty
    if rc.rb.ret.toNat * c < w.size then s!"delivered={rc.rb.ret} items, {w.size / c} were written"
    else match firstDiffAt rc.rb.data w w.size with
      | some k => s!"at={k / c} frame={k / c / g.ch} got={hexCell rc.ty rc.rb.data[k]?} want={hexCell rc.ty w[k]?}"
      | none => ""
  | "partition" =>
    let a := rc.one.bytes
    let b := (rc.split.map (·.bytes)).getD #[]
    s!"at={(firstDiffAt a b (max a.size b.size)).getD 0} len1={a.size} len2={b.size}"
  | "stale" =>
    let a := rc.one.bytes
    let b := rc.stale.getD #[]
    s!"at={(firstDiffAt a b (max a.size b.size)).getD 0} len1={a.size} len3={b.size}"
  | _ =>
    if f.tag.startsWith "snapshot" then
      match rc.split, rc.snaps[f.idx]? with
      | some sp, some s =>
        let before := sp.calls.take s.calls
        let Nk := AbsWrite.framesAccepted g.ch before
        s!"calls={s.calls} Nk={Nk} want={Geometry.floorToBlock Nk g.block} F={s.info.frames} delivered={s.rb.ret} B={g.block}"
      | _, _ => ""
    else ""

def finish (r : Rec) : String :=
  let rc := r.record
  let geomBad := (match r.block with | some b => b != rc.g.block | none => false) || (match r.pad with | some p => p != rc.g.pad | none => false)
  if geomBad then s!"{r.name} bad tag=geometry run=1 idx=0 lean-block={rc.g.block} lean-pad={rc.g.pad}"
  else
    let fs := AbsWrite.judgeG rc          -- `judge` with the exact rate clause on the whole geometry (VOC block types)
    if fs.isEmpty then
      let w := AbsWrite.written rc.g.ch rc.one.calls
      let loss := AbsWrite.sameType rc.ty rc.one.calls && AbsWrite.losslessFor rc.g rc.ty w
      s!"{r.name} ok N={AbsWrite.framesAccepted rc.g.ch rc.one.calls} F={rc.info.frames} B={rc.g.block} pad={rc.g.pad} lossless={if loss then 1 else 0} calls={(rc.split.map (·.calls.length)).getD 0} snaps={if AbsWrite.snapScope rc.g then rc.snaps.length else 0}"
    else
      s!"{r.name} bad " ++ "; ".intercalate (fs.map fun f => s!"tag={f.tag} run={f.run} idx={f.idx} {detail rc f}")

def Rec.feed (r : Rec) (opLine outLine : String) : Rec :=
  let r := if isDead outLine then { r with dead := true } else r
  match r.cur with
  | 1 => { r with one := r.one.step r.ty opLine outLine }
  | 2 => { r with split := r.split.step r.ty opLine outLine }
  | 3 => { r with stale := r.stale.step r.ty opLine outLine }
  | _ => r

/-- an op line without its transcript line: the script died -/
def Rec.seal (r : Rec) : Rec := if r.pending.isSome then { r with dead := true, pending := none } else r

def cmd (_args : List String) : IO UInt32 := do
  let h ← IO.getStdin
  let out ← IO.getStdout
  let mut cur : Rec := {}
  let mut started := false
  repeat
    let line ← h.getLine
    if line.isEmpty then break
    if line.startsWith "== " then
      if started then out.putStrLn (finish cur.seal)
      cur := { name := (line.drop 3).trimAscii.toString }
      started := true
    else if line.startsWith "geom " then
      started := true
      let toks := (line.trimAscii.toString).splitOn " "
      cur := { cur with word := parseHexNat ((kvGet toks "fmt").getD "0").toList, ch := kvNat toks "ch" 1, sr := kvNat toks "sr" 0,
                        ty := (tyOf ((kvGet toks "ty").getD "s16")).getD .s16,
                        block := (kvGet toks "block").bind (·.toNat?), pad := (kvGet toks "pad").bind (·.toNat?) }
    else if line.startsWith "run " then
      cur := cur.seal
      let w := (line.drop 4).trimAscii.toString
      if w == "one" then cur := { cur with cur := 1, one := { seen := true } }
      else if w == "split" then cur := { cur with cur := 2, split := { seen := true } }
      else cur := { cur with cur := 3, stale := { seen := true } }
    else
      match cur.pending with
      | none => cur := { cur with pending := some line }
      | some op => cur := { cur with pending := none }.feed op line
  if started then out.putStrLn (finish cur.seal)
  return 0

end AbsWriteDriver
