/-
  `sfmodel block` — runs the block-codec models (SfModel/Block*.lean, Paf24, Sds, Dpcm, Oki) on scripts:

      == <name>
      codec paf24 ch=<n> big=<0|1> | codec sds bw=<8|16|24> sr=<n> | codec dpcm8 | codec dpcm16 | codec vox
            [normF=0|1 normD=0|1 variant=sse2|lrint]
      w <ty> <i|f> <count> <hex items>      -> ret=<n> err=0
      close                                 -> data=<hex>     bytes the write handle leaves (SDS: whole file, else data region)
      load <hex>                            -> frames=<n>     read handle over these bytes (SDS: whole file, else data region)
      reopen                                -> frames=<n>     read handle over the bytes of the last `close`
      r <ty> <i|f> <count>                  -> ret=<n> err=0 data=<hex>
      seek <offset> <whence 0|1|2>          -> ret=<n> err=0 | ret=-1 err=E
      == end
-/
import SfModel.BlockFile
import SfModel.AdpcmReader
import Driver.Util
open Sf Sf.Block

namespace Driver.Block

inductive Codec | paf24 (ch : Nat) (big : Bool) | sds (bw sr : Nat) | dpcm (wide : Bool) | vox | adpcm (ms : Bool) (ch ba spb : Nat)
deriving Inhabited

inductive RS
  | none
  | blk (h : RHandle)
  | dpcm (h : DpcmR)
  | vox (h : VoxR)

structure DS where
  codec : Codec := .vox
  conv  : Conv := {}
  calls : List (Nat × List Int) := []      -- block codecs: (chunk, converted items) per call, newest first
  last16 : Int := 0
  okiSt : Oki.St := {}
  okiCarry : Option Int := none            -- VOX: the sample an odd write call left over
  wbytes : List (List Byte) := []          -- stream codecs: emitted, newest first
  closed : List Byte := []
  rs : RS := .none
  sticky : Bool := false                   -- psf->error left by a failed sf_seek (a zero-length read returns before it is cleared)

def Codec.ch : Codec → Nat | .paf24 ch _ => ch | .adpcm _ ch _ _ => ch | _ => 1

def fillA5 (ty : Ty) (n : Nat) : String := String.join (List.replicate (n * ty.bits / 8) "a5")

def openRead (ds : DS) (bytes : List Byte) : DS × String :=
  match ds.codec with
  | .paf24 ch big =>
    let r := Paf24.reader ch big bytes
    ({ ds with rs := .blk (RHandle.open r r.frames) }, s!"frames={r.frames}")
  | .sds _ _ =>
    let r := Sds.reader bytes
    ({ ds with rs := .blk (RHandle.open r r.frames) }, s!"frames={r.frames}")
  | .adpcm ms ch ba spb =>
    let r := if ms then msReader ch ba spb bytes else imaWavReader ch ba spb bytes
    ({ ds with rs := .blk (RHandle.open r r.frames) }, s!"frames={r.frames}")
  | .dpcm wide =>
    let h := DpcmR.open wide bytes
    ({ ds with rs := .dpcm h }, s!"frames={h.frames}")
  | .vox =>
    let h := VoxR.open bytes
    ({ ds with rs := .vox h }, s!"frames={h.frames}")

def runLine (ds : DS) (line : String) : DS × Option String :=
  let toks := (line.splitOn " ").filter (· ≠ "")
  match toks with
  | [] => (ds, none)
  | "codec" :: kind :: rest =>
    let conv := convOf rest
    let codec : Codec :=
      if kind == "paf24" then .paf24 (kvNat rest "ch" 1) (kvBool rest "big" true)
      else if kind == "sds" then .sds (kvNat rest "bw" 16) (kvNat rest "sr" 8000)
      else if kind == "dpcm8" then .dpcm false
      else if kind == "dpcm16" then .dpcm true
      else if kind == "imawav" then .adpcm false (kvNat rest "ch" 1) (kvNat rest "ba" 256) (kvNat rest "spb" 505)
      else if kind == "mswav" then .adpcm true (kvNat rest "ch" 1) (kvNat rest "ba" 256) (kvNat rest "spb" 500)
      else .vox
    ({ codec := codec, conv := conv }, none)
  | ["w", tyS, unit, nS, hex] =>
    match tyOf tyS with
    | none => (ds, some "bad-op")
    | some ty =>
      let ch := ds.codec.ch
      let n := nS.toNat!
      let items := if unit == "f" then n * ch else n
      let vs := (parseItems ty hex).take items
      let ret (cnt : Nat) : String := s!"ret={if unit == "f" then cnt / ch else cnt} err=0"
      match ds.codec with
      | .paf24 _ _ => ({ ds with calls := (Paf24.chunkOf ch ty, vs.map (Paf24.ofCaller ds.conv ty)) :: ds.calls }, some (ret items))
      | .sds bw _ => ({ ds with calls := (Sds.chunkOf ty, vs.map (Sds.ofCaller bw ds.conv ty)) :: ds.calls }, some (ret items))
      | .adpcm _ _ _ _ => (ds, some "bad-op")
      | .dpcm wide =>
        let (l, bs) := Dpcm.write wide ds.conv ty ds.last16 vs
        ({ ds with last16 := l, wbytes := bs :: ds.wbytes }, some (ret items))
      | .vox =>
        let xs := vs.map (Oki.ofCaller ds.conv ty)
        let (s, cy, bs, cnt) := Oki.writeCall (Oki.chunkOf ty) (items + 1) ds.okiSt ds.okiCarry xs items
        ({ ds with okiSt := s, okiCarry := cy, wbytes := bs :: ds.wbytes }, some (ret cnt))
  | ["w", _, _, _] => (ds, some "ret=0 err=0")
  | ["close"] =>
    let bytes : List Byte :=
      match ds.codec with
      | .paf24 ch big => paf24Data ch big ds.calls.reverse
      | .sds bw sr => sdsFile bw sr ds.calls.reverse
      | .vox => ds.wbytes.reverse.flatten ++ (Oki.closeCarry ds.okiSt ds.okiCarry).2      -- codec_close flushes a held sample
      | _ => ds.wbytes.reverse.flatten
    ({ ds with closed := bytes, calls := [], wbytes := [], last16 := 0, okiSt := {}, okiCarry := none }, some ("data=" ++ hexBytes bytes))
  | ["load", hex] =>
    let (ds, s) := openRead ds (parseHexBytes hex)
    (ds, some s)
  | ["load"] =>
    let (ds, s) := openRead ds []
    (ds, some s)
  | ["reopen"] =>
    let (ds, s) := openRead ds ds.closed
    (ds, some s)
  | ["r", tyS, unit, nS] =>
    match tyOf tyS with
    | none => (ds, some "bad-op")
    | some ty =>
      let ch := ds.codec.ch
      let n := nS.toNat!
      let items := if unit == "f" then n * ch else n
      let shw (cnt : Nat) (data : String) : String := s!"ret={if unit == "f" then cnt / ch else cnt} err={if n == 0 && ds.sticky then "E" else "0"} data={data}"
      let ds := if n == 0 then ds else { ds with sticky := false }
      match ds.rs with
      | .none => (ds, some "bad-op")
      | .blk h =>
        let (chunk, toC) : Nat × (Int → Int) :=
          match ds.codec with
          | .sds _ _ => (Sds.chunkOf ty, Sds.toCaller (h.r.spb |> fun spb => if spb == 60 then 8 else if spb == 40 then 16 else 24) ds.conv ty)
          | _ => (Paf24.chunkOf ch ty, Paf24.toCaller ds.conv ty)
        let (h', d, cnt) :=
          match ds.codec with
          | .adpcm ms _ _ _ => h.readBrk (Oki.chunkOf ty) (!ms) items
          | _ => h.read chunk items
        let toC := match ds.codec with | .adpcm _ _ _ _ => Oki.toCaller ds.conv ty | _ => toC
        ({ ds with rs := .blk h' }, some (shw cnt (showItems ty (d.map toC) ++ fillA5 ty (items - d.length))))
      | .dpcm h =>
        let (h', vs?, cnt) := h.read ds.conv ty items
        let data := match vs? with
          | some vs => showItems ty vs ++ fillA5 ty (items - vs.length)
          | none => showItems ty (zeros items)
        ({ ds with rs := .dpcm h' }, some (shw cnt data))
      | .vox h =>
        let (h', vs?, cnt) := h.read ds.conv ty items
        let data := match vs? with
          | some vs => showItems ty vs ++ fillA5 ty (items - vs.length)
          | none => showItems ty (zeros items)
        ({ ds with rs := .vox h' }, some (shw cnt data))
  | ["seek", offS, whS] =>
    match ds.rs with
    | .blk h =>
      let off : Int := if offS.startsWith "-" then - ((offS.drop 1).toString.toNat?.getD 0 : Int) else (offS.toNat?.getD 0 : Int)
      let wh := whS.toNat!
      if wh == 1 && off == 0 then ({ ds with sticky := false }, some s!"ret={h.pos} err=0")
      else
        let target : Int := if wh == 0 then off else if wh == 1 then (h.pos : Int) + off else (h.frames : Int) + off
        if wh > 2 || target < 0 || target > h.frames then ({ ds with sticky := true }, some "ret=-1 err=E")
        else ({ ds with rs := .blk (h.seek target.toNat), sticky := false }, some s!"ret={target} err=0")
    | .none => (ds, some "bad-op")
    | _ => ({ ds with sticky := true }, some "ret=-1 err=E")
  | _ => (ds, some "bad-op")

partial def loop (h : IO.FS.Stream) (ds : DS) : IO Unit := do
  let line ← h.getLine
  if line.isEmpty then return
  let l := line.trimAscii.toString
  if l.startsWith "== " then
    IO.println l
    loop h {}
  else
    let (ds', out) := runLine ds l
    match out with
    | some s => IO.println s
    | none => pure ()
    loop h ds'

def cmd (_args : List String) : IO UInt32 := do
  loop (← IO.getStdin) {}
  return 0

end Driver.Block
