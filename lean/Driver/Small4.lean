/-
  `sfmodel small4 <container>` — runs the stand-alone container models of the "small containers, group 4"
  (mat5 | sds | sd2), one request per stdin line, one answer line each.  MAT5 speaks the protocol of
  `sfmodel small2` / `small3` (lean/Driver/Small2.lean):

    session codec=<hex> endian=<0..3> ch=<n> sr=<n> text=<hex of the 124-byte text field> stale=<n> ops=<op;op;…>
         op:  w<nbytes> | W<nbytes> (auto header mode) | u (SFC_UPDATE_HEADER_NOW) | c (sf_close) | d (report: hdr=<hex> dlen=<n>)
                                    -> the `d` reports joined by " | "   (`bad-config` when the container refuses it)
    parse <hex of a whole file>     -> ok ch=<n> sr=<n> frames=<n> fmt=<8 hex> | err | unmodelled
    quant <sr>                      -> the rate a reader reports for a file written at <sr>
-/
import SfModel.Basic
import SfModel.Small2
import SfModel.Mat5
import Driver.Util
import Driver.Small2
import Driver.Small3
open Sf (hexBytes hexFixed parseHexBytes parseHexNat Byte)
open Sf.Small2
open Driver.Small2 (showRes hexKey endianOf)
open Driver.Small3 (Container runOps report)

namespace Driver.Small4

def mat5 : Container :=
  { fmtOf := fun toks =>
      let c : Sf.Mat5.Cfg := { codec := hexKey toks "codec", endian := endianOf toks, ch := kvNat toks "ch" 1, sr := kvNat toks "sr" 1,
                               text := match kvGet toks "text" with | some h => parseHexBytes h | none => [] }
      if decide c.wf then some (Sf.Mat5.fmt c, openW (Sf.Mat5.fmt c), close (Sf.Mat5.fmt c)) else none,
    parse := Sf.Mat5.parse,
    quant := Sf.Mat5.quant }

def containerOf (name : String) : Option Container :=
  match name with
  | "mat5" => some mat5
  | _ => none

partial def loop (C : Container) (h : IO.FS.Stream) : IO Unit := do
  let line ← h.getLine
  if line.isEmpty then return
  IO.println (Driver.Small3.answer C line.trimAscii.toString)
  loop C h

def usage : String := "usage: sfmodel small4 mat5|sds|sd2"

def cmd (args : List String) : IO UInt32 := do
  match args with
  | name :: _ =>
    match containerOf name with
    | some C => loop C (← IO.getStdin); return 0
    | none => IO.eprintln usage; return 2
  | _ => IO.eprintln usage; return 2

end Driver.Small4
