/-
  `sfmodel small4 <container>` — runs the stand-alone container models of the "small containers, group 4"
  (mat5 | sds | sd2), one request per stdin line, one answer line each.  MAT5 speaks the protocol of
  `sfmodel small2` / `small3` (lean/Driver/Small2.lean):

    session codec=<hex> endian=<0..3> ch=<n> sr=<n> text=<hex of the 124-byte text field> stale=<n> ops=<op;op;…>
         op:  w<nbytes> | W<nbytes> (auto header mode) | u (SFC_UPDATE_HEADER_NOW) | c (sf_close) | d (report: hdr=<hex> dlen=<n>)
                                    -> the `d` reports joined by " | "   (`bad-config` when the container refuses it)
    parse <hex of a whole file>     -> ok ch=<n> sr=<n> frames=<n> fmt=<8 hex> | err | unmodelled
    quant <sr>                      -> the rate a reader reports for a file written at <sr>

  SDS carries the audio in its packets, so its sessions take the samples and report whole store images:

    session codec=<hex> sr=<n> stale=<n> ops=<op;op;…>
         op:  x<8-hex-digit ints…>  one sf_write_int call      X<…>  the same with SFC_SET_UPDATE_HEADER_AUTO on
              u | c | d             as above; `d` reports  img=<hex of the whole store> blocks=<write_block> pend=<write_count>
    parse <hex>                     -> ok ch= sr= frames= fmt= blocks=<total_blocks of the scan> seekend=<what sf_seek (frames, SEEK_SET) returns> | err | unmodelled
    quant <sr>
-/
import SfModel.Basic
import SfModel.Small2
import SfModel.Mat5
import SfModel.SdsFile
import Driver.Util
import Driver.Small2
import Driver.Small3
open Sf (hexBytes hexFixed parseHexBytes parseHexNat Byte)
open Sf.Small2
open Driver.Small2 (showRes hexKey endianOf)
open Driver.Small3 (Container runOps report)

namespace Driver.Small4

def mat5 : Container :=
  { fmtOf := fun toks =>
      let c : Sf.Mat5.Cfg := { codec := hexKey toks "codec", endian := endianOf toks, ch := kvNat toks "ch" 1, sr := kvNat toks "sr" 1,
                               text := match kvGet toks "text" with | some h => parseHexBytes h | none => [] }
      if decide c.wf then some (Sf.Mat5.fmt c, openW (Sf.Mat5.fmt c), close (Sf.Mat5.fmt c)) else none,
    parse := Sf.Mat5.parse,
    quant := Sf.Mat5.quant }

/-! ## SDS -/

def sdsInts (h : String) : List Int :=
  let rec go (cs : List Char) (acc : List Int) : List Int :=
    match cs with
    | a :: b :: c :: d :: e :: f :: g :: i :: rest => go rest (Sf.sext 32 (parseHexNat [a, b, c, d, e, f, g, i]) :: acc)
    | _ => acc.reverse
  go h.toList []

def sdsReport (s : Sf.SdsFile.St) : String := s!"img={hexBytes s.bytes} blocks={s.wblock} pend={s.wcount}"

def sdsOps (c : Sf.SdsFile.Cfg) (ops : List String) (sf : Sf.SdsFile.St × Bool) (acc : List String) : List String :=
  match ops with
  | [] => acc.reverse
  | op :: rest =>
    if op == "u" then sdsOps c rest (Sf.SdsFile.stepOp c sf .update) acc
    else if op == "c" then sdsOps c rest (Sf.SdsFile.close c sf.1, sf.2) acc
    else if op == "d" then sdsOps c rest sf (sdsReport sf.1 :: acc)
    else if op.startsWith "x" || op.startsWith "X" then
      sdsOps c rest (Sf.SdsFile.stepOp c sf (.write (sdsInts (op.drop 1).toString) (op.startsWith "X"))) acc
    else sdsOps c rest sf acc

def sdsAnswer (line : String) : String :=
  let toks := (line.splitOn " ").filter (· ≠ "")
  match toks with
  | "session" :: rest =>
    let c : Sf.SdsFile.Cfg := { codec := hexKey rest "codec", sr := kvNat rest "sr" 1 }
    if ¬ (decide c.wf ∧ kvNat rest "ch" 1 = 1) then "bad-config" else
    let ops := ((kvGet rest "ops").getD "").splitOn ";"
    " | ".intercalate (sdsOps c ops (Sf.SdsFile.openW c (kvNat rest "stale" 0), true) [])
  | "parse" :: h :: _ =>
    let bs := if h == "-" then [] else parseHexBytes h
    match Sf.SdsFile.parse bs with
    | .ok i => s!"ok ch={i.ch} sr={i.sr} frames={i.frames} fmt={hexFixed 8 i.fmt} blocks={Sf.SdsFile.blocks bs} seekend={Sf.SdsFile.seekEnd bs}"
    | r => showRes r
  | "quant" :: n :: _ => toString (Sf.SdsFile.quant (n.toNat?.getD 0))
  | _ => "bad-request"

partial def sdsLoop (h : IO.FS.Stream) : IO Unit := do
  let line ← h.getLine
  if line.isEmpty then return
  IO.println (sdsAnswer line.trimAscii.toString)
  sdsLoop h

def containerOf (name : String) : Option Container :=
  match name with
  | "mat5" => some mat5
  | _ => none

partial def loop (C : Container) (h : IO.FS.Stream) : IO Unit := do
  let line ← h.getLine
  if line.isEmpty then return
  IO.println (Driver.Small3.answer C line.trimAscii.toString)
  loop C h

def usage : String := "usage: sfmodel small4 mat5|sds|sd2"

def cmd (args : List String) : IO UInt32 := do
  match args with
  | "sds" :: _ => sdsLoop (← IO.getStdin); return 0
  | name :: _ =>
    match containerOf name with
    | some C => loop C (← IO.getStdin); return 0
    | none => IO.eprintln usage; return 2
  | _ => IO.eprintln usage; return 2

end Driver.Small4
