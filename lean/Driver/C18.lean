/-
  `sfmodel c18 peak|calc|script` — runs the C18 model definitions (SfModel.Peak on top of SfModel.Handle).

  peak  : stdin, one job per line  `<wav|rifx|wavex|rf64|aiff|caf> <f32|f64> <ch> <scale 0|1> <ty>:<hexitems> …`
          (one token per non-empty write call, items as in the harness `w` op)
          -> `peaks=<binary64 bits>:<position>,… chunk=<hex of the PEAK chunk>`
  calc  : stdin, one job per line  `<ch> <hex16 items of the decoded stream>` -> `sig=<bits> all=<bits>,…`
  script: the harness script language as `sfmodel script`, plus SFC_CALC_* (1040–1043), SFC_GET_SIGNAL_MAX (1044)
          and SFC_GET_MAX_ALL_CHANNELS (1045) with a zeroed buffer of the right size on handles that can read.
-/
import SfModel.Peak
import SfModel.PeakExact
import Driver.Util
import Driver.Script
open Sf

namespace C18Driver

def kindOf (s : String) : Option Peak.Kind :=
  if s == "wav" ∨ s == "wavex" ∨ s == "rf64" then some .wavLE
  else if s == "rifx" then some .wavBE
  else if s == "aiff" then some .aiff
  else if s == "caf" then some .caf
  else none

def parseCall (tok : String) : Option (Ty × List Int) :=
  match tok.splitOn ":" with
  | [t, hex] => (tyOf t).map fun ty => (ty, parseItems ty hex)
  | _ => none

def peakLine (line : String) : String :=
  let toks := (line.splitOn " ").filter (· ≠ "")
  match toks with
  | cont :: encS :: chS :: scaleS :: calls =>
    match kindOf cont, chS.toNat? with
    | some k, some ch =>
      let enc : Enc := if encS == "f64" then .dbl false else .flt false
      let conv : Conv := { scaleIF := scaleS == "1" }
      let cs := calls.filterMap parseCall
      if cs.length != calls.length ∨ ch == 0 then "bad-job" else
      match Peak.run enc conv ch (some (mkPeaks ch)) 0 cs with
      | none => "bad-job"
      | some ps =>
        let shown := ps.map fun p => s!"{hexFixed 16 p.value}:{p.position}"
        s!"peaks={",".intercalate shown} chunk={hexBytes (PeakExact.chunkBytes k ch ps)}"
    | _, _ => "bad-job"
  | _ => "bad-job"

def calcLine (line : String) : String :=
  let toks := (line.splitOn " ").filter (· ≠ "")
  match toks with
  | chS :: rest =>
    match chS.toNat? with
    | some ch =>
      if ch == 0 then "bad-job" else
      let stream := parseHexItems 16 (rest.headD "")
      let all := Peak.calcMaxAll ch stream
      s!"sig={hexFixed 16 (Peak.calcSignalMax ch stream)} all={",".intercalate (all.map (hexFixed 16))}"
    | none => "bad-job"
  | _ => "bad-job"

def leDoubles (vs : List Nat) : String := hexBytes (vs.flatMap (leBytes 8))

/-- the commands this driver adds to `runLine` -/
def runLine18 (st : RunState) (line : String) : RunState × Option String :=
  let toks := (line.splitOn " ").filter (· ≠ "")
  if st.dead then (st, some "unmodelled") else
  match toks with
  | ["cmd", hn, idS, sizeS, "zero"] =>
    let id := parseHexNat idS.toList
    let size := parseIntStr sizeS
    if id ∈ [0x1040, 0x1041, 0x1042, 0x1043, 0x1044, 0x1045] then
      let (st, out) := withHandle st hn fun h s =>
        let one := id == 0x1040 ∨ id == 0x1041 ∨ id == 0x1044
        let want : Int := if one then 8 else 8 * h.ch
        if size != want ∨ (h.mode == .w ∧ id < 0x1044) then (none, s, "unmodelled") else
        if id == 0x1044 ∨ id == 0x1045 then
          let h := { h with error := 0 }
          match h.peak with
          | none => (some h, s, s!"ret=0 err=0 data={hexBytes (zeros want.toNat)}")
          | some ps =>
            let vs := if one then [Peak.getSignalMax ps] else Peak.getMaxAll ps
            (some h, s, s!"ret=1 err=0 data={leDoubles vs}")
        else
          let (h, s, acc) := Peak.stepCalc h s (id == 0x1041 ∨ id == 0x1043)
          let vs := if one then [acc.sig] else acc.all.1
          (some h, s, s!"ret=0 {errStr h.error} data={leDoubles vs}")
      if out == "unmodelled" then ({ st with dead := true }, some out) else (st, some out)
    else runLine st line
  | _ => runLine st line

def scriptCmd18 : IO UInt32 := do
  let lines ← readLines
  let mut st : RunState := {}
  let mut inBatch := false
  for line in lines do
    if line.startsWith "== " then
      if inBatch then IO.println "== end"
      IO.println line
      inBatch := true
      st := {}
    else
      let (st', out) := runLine18 st line
      st := st'
      match out with
      | some o => IO.println o
      | none => pure ()
  if inBatch then IO.println "== end"
  return 0

def main (args : List String) : IO UInt32 := do
  match args with
  | ["peak"] => do
    for l in (← readLines) do
      if l != "" then IO.println (peakLine l)
    return 0
  | ["calc"] => do
    for l in (← readLines) do
      if l != "" then IO.println (calcLine l)
    return 0
  | ["script"] => scriptCmd18
  | _ => IO.eprintln "usage: sfmodel c18 peak|calc|script"; return 2

end C18Driver
