/-
  `sfmodel alac …` — runs the model of src/alac.c around the codec core (SfModel/AlacFile.lean, namespace Sf.Alac).

      sfmodel alac pakt-enc     `<frames> <savedPartial> <size> <size> …` per stdin line -> hex of the 'pakt' chunk data | none
      sfmodel alac pakt-dec     `<hex of the chunk data>` per stdin line                -> `<size> <size> …` (the table alac_pakt_read_decode builds)
      sfmodel alac geom         `<frames written>` per stdin line                       -> packets=<k> last=<frames in the last packet> remainder=<field of the pakt header>
      sfmodel alac script       scripts; the codec core is a parameter, instantiated per script by tables from one reference run:

      == <name>
      codec alac bits=<16|20|24|32> ch=<n> sr=<n> [normF=0|1 normD=0|1 variant=sse2|lrint] [core=1]
                                            core=1: the codec core is the Lean model Sf.AlacCore.coreCodec (no `enc` / `dec` lines; `close` prints no packets= list)
      enc <hex>                             the bytes the k-th alac_encode call returns (k-th `enc` line)
      w <ty> <i|f> <count> <hex items>      -> ret=<n> err=0
      close                                 -> file=<hex> packets=<frames>:<fnv of the staged ints, low 32-bits bits cleared>,…
      dec <hex packet> <hex 8-digit items>  one entry of the decoder table (what alac_decode makes of that packet)
      load len=<file length> pakt=<hex of the 'pakt' chunk data> data=<hex of the data region after the edit count>
                                            -> frames=<n> entries=<k>
      r <ty> <i|f> <count>                  -> ret=<n> err=0 data=<hex of the ret items delivered>
      seek <offset> <whence 0|1|2>          -> ret=<n> err=0 | ret=-1 err=E
-/
import SfModel.AlacFile
import SfModel.AlacTyped
import SfModel.AlacCodec
import SfModel.DwvwFile
import Driver.Util
open Sf Sf.Alac

namespace Driver.Alac

abbrev Frame := List Int

/-- `alac_write_s/i/f/d` conversions: the same kernels as DWVW (arith_shift_left 16, identity, psf_f2i_array, psf_d2i_array);
    alac_write_d passes psf->norm_float to psf_d2i_array -/
def toCodec (cv : Conv) (ty : Ty) (v : Int) : Int := Sf.AlacTyped.toCodec cv ty v        -- (the definitions the theorems of SfProps/C07AlacTyped.lean are about)
def toCaller (cv : Conv) (ty : Ty) (v : Int) : Int := Sf.AlacTyped.toCaller cv ty v

def framesOf (ch : Nat) (xs : List Int) : List Frame := Sf.AlacTyped.framesOf ch xs

/-- encoder oracle: the packets of the reference run in order -/
def encOracle (pk : List (List Byte)) : Codec (List (List Byte) × List (List Frame)) Frame :=
  { init := (pk, []),
    enc := fun s staged => match s.1 with
      | p :: rest => ((rest, staged :: s.2), p)
      | [] => (([], staged :: s.2), []),
    dec := fun _ => [] }

/-- decoder oracle: table packet bytes -> frames -/
def decOracle (ch : Nat) (tab : List (List Byte × List Int)) : Codec Unit Frame :=
  { init := (), enc := fun _ _ => ((), []),
    dec := fun p => match tab.find? (fun e => e.1 == p) with
      | some e => framesOf ch e.2
      | none => [] }

def fnv (xs : List Nat) : Nat := xs.foldl (fun h x => ((h ^^^ (x % 4294967296)) * 1099511628211) % 18446744073709551616) 14695981039346656037

structure DS where
  cfg  : Cfg := ⟨16, 1, 8000⟩
  conv : Conv := {}
  encs : List (List Byte) := []
  w    : Option (W (List (List Byte) × List (List Frame)) Frame) := none
  tab  : List (List Byte × List Int) := []
  data : List Byte := []
  rh   : Option (RHandle Frame) := none
  sticky : Bool := false
  core : Bool := false
  wc   : Option (W Sf.AlacCore.EncState Frame) := none

def DS.coreCd (ds : DS) : Codec Sf.AlacCore.EncState Frame := Sf.AlacCore.coreCodec { bitDepth := ds.cfg.bits, numChannels := ds.cfg.ch }

def DS.wst (ds : DS) : W (List (List Byte) × List (List Frame)) Frame :=
  match ds.w with
  | some w => w
  | none => W.init (encOracle ds.encs.reverse)

def runLine (ds : DS) (line : String) : DS × Option String :=
  let toks := (line.splitOn " ").filter (· ≠ "")
  match toks with
  | [] => (ds, none)
  | "codec" :: _ :: rest => ({ cfg := ⟨kvNat rest "bits" 16, kvNat rest "ch" 1, kvNat rest "sr" 8000⟩, conv := convOf rest, core := kvBool rest "core" false }, none)
  | ["enc", hex] => ({ ds with encs := parseHexBytes hex :: ds.encs }, none)
  | ["enc"] => ({ ds with encs := [] :: ds.encs }, none)
  | ["w", tyS, mode, nS, hex] =>
    match tyOf tyS with
    | none => (ds, some "bad-op")
    | some ty =>
      let n := nS.toNat!
      let cd := encOracle []
      let w := Sf.AlacTyped.writeTyped ds.conv ds.cfg.ch cd ds.wst ty ((parseItems ty hex).take (if mode == "f" then n * ds.cfg.ch else n))
      let vs := ((parseItems ty hex).take (if mode == "f" then n * ds.cfg.ch else n)).map (toCodec ds.conv ty)
      if ds.core then
        let cdc := ds.coreCd
        let w := writeCall cdc (ds.wc.getD (W.init cdc)) (framesOf ds.cfg.ch vs)
        ({ ds with wc := some w }, some s!"ret={n} err=0")
      else
      let w := writeCall cd ds.wst (framesOf ds.cfg.ch vs)
      ({ ds with w := some w }, some s!"ret={n} err=0")
  | ["w", _, _, _] => (ds, some "ret=0 err=0")
  | ["close"] =>
    if ds.core then
      let cdc := ds.coreCd
      let bytes := closedBytes ds.cfg cdc (ds.wc.getD (W.init cdc))
      ({ ds with wc := none }, some s!"file={hexBytes bytes} packets=")
    else
    let cd := encOracle []
    let w := ds.wst
    let bytes := closedBytes ds.cfg cd w
    let w1 := finish cd w
    let sh := 32 - ds.cfg.bits
    let pk := w1.e.2.reverse.map fun (st : List Frame) =>
      s!"{st.length}:{hexFixed 16 (fnv (st.flatten.map fun v => wrapU 32 (asr v sh * (2 : Int) ^ sh)))}"
    ({ ds with w := none, encs := [] }, some s!"file={hexBytes bytes} packets={",".intercalate pk}")
  | ["dec", phex, ihex] => ({ ds with tab := (parseHexBytes phex, (parseHexItems 8 ihex).map (sext 32)) :: ds.tab }, none)
  | ["dec", phex] => ({ ds with tab := (parseHexBytes phex, []) :: ds.tab }, none)
  | "load" :: rest =>
    let pakt := parseHexBytes ((kvGet rest "pakt").getD "")
    let data := parseHexBytes ((kvGet rest "data").getD "")
    let sizes := paktDecode pakt
    let h := if ds.core then RHandle.open ds.coreCd (fileIO data) (kvNat rest "len" 0) sizes
             else RHandle.open (decOracle ds.cfg.ch ds.tab) (fileIO data) (kvNat rest "len" 0) sizes
    ({ ds with rh := some h, data := data, sticky := false }, some s!"frames={h.frames} entries={sizes.length}")
  | ["r", tyS, mode, nS] =>
    match tyOf tyS, ds.rh with
    | some ty, some h =>
      let n := nS.toNat!
      let ch := ds.cfg.ch
      let nf := if mode == "f" then n else n / ch
      let err := if n == 0 && ds.sticky then "E" else "0"
      let ds := if n == 0 then ds else { ds with sticky := false }
      let (h', vs?, ret) := if ds.core then h.read ds.coreCd (fileIO ds.data) nf else h.read (decOracle ch ds.tab) (fileIO ds.data) nf
      let data := match vs? with
        | some vs => showItems ty (vs.flatten.map (toCaller ds.conv ty))
        | none => ""
      ({ ds with rh := some h' }, some s!"ret={if mode == "f" then ret else ret * ch} err={err} data={data}")
    | _, _ => (ds, some "bad-op")
  | ["seek", offS, whS] =>
    match ds.rh with
    | some h =>
      let off : Int := if offS.startsWith "-" then - ((offS.drop 1).toString.toNat?.getD 0 : Int) else (offS.toNat?.getD 0 : Int)
      let wh := whS.toNat!
      if wh == 1 && off == 0 then ({ ds with sticky := false }, some s!"ret={h.pos} err=0")
      else
        let target : Int := if wh == 0 then off else if wh == 1 then (h.pos : Int) + off else (h.frames : Int) + off
        if wh > 2 || target < 0 || target > h.frames then ({ ds with sticky := true }, some "ret=-1 err=E")
        else match (if ds.core then h.seek ds.coreCd (fileIO ds.data) target.toNat else h.seek (decOracle ds.cfg.ch ds.tab) (fileIO ds.data) target.toNat) with
          | some h' => ({ ds with rh := some h', sticky := false }, some s!"ret={target} err=0")
          | none => ({ ds with sticky := true }, some "ret=-1 err=E")
    | none => (ds, some "bad-op")
  | _ => (ds, some "bad-op")

partial def loop (h : IO.FS.Stream) (ds : DS) : IO Unit := do
  let line ← h.getLine
  if line.isEmpty then return
  let l := line.trimAscii.toString
  if l.startsWith "== " then
    IO.println l
    loop h {}
  else
    let (ds', out) := runLine ds l
    match out with
    | some s => IO.println s
    | none => pure ()
    loop h ds'

def natsOf (line : String) : List Nat := ((line.splitOn " ").filter (· ≠ "")).map (·.toNat!)

def cmd (args : List String) : IO UInt32 := do
  match args with
  | ["script"] => loop (← IO.getStdin) {}; return 0
  | ["pakt-enc"] =>
    for line in (← readLines) do
      match natsOf line with
      | fr :: sp :: sizes =>
        match paktEncode sizes fr sp with
        | some b => IO.println (hexBytes b)
        | none => IO.println "none"
      | _ => IO.println "bad-line"
    return 0
  | ["pakt-dec"] =>
    for line in (← readLines) do
      IO.println (" ".intercalate ((paktDecode (parseHexBytes line)).map toString))
    return 0
  | ["geom"] =>
    for line in (← readLines) do
      let n := line.toNat!
      let cd : Codec Unit Unit := { init := (), enc := fun _ st => ((), List.replicate st.length 1), dec := fun _ => [] }
      let w := writeCall cd (W.init cd) (List.replicate n ())
      let w1 := finish cd w
      IO.println s!"packets={w1.sizes.length} last={w1.sizes.getLastD 0} remainder={wrapU 32 ((fpb : Int) - w.staged.length)}"
    return 0
  | _ => IO.eprintln "usage: sfmodel alac pakt-enc | pakt-dec | geom | script"; return 2

end Driver.Alac
