/-
  `sfmodel small3 <container>` — runs the stand-alone container models of the "small containers, group 3"
  (nist | voc | xi | mat5 | sds), one request per stdin line, one answer line each (same protocol as
  `sfmodel small2`, lean/Driver/Small2.lean):

    session codec=<hex> endian=<0..3> ch=<n> sr=<n> [name=<hex>] stale=<n> ops=<op;op;…>
         op:  w<nbytes>      one write call storing nbytes of audio
              W<nbytes>      the same with SFC_SET_UPDATE_HEADER_AUTO on
              u              SFC_UPDATE_HEADER_NOW
              c              sf_close
              d              report the store: hdr=<hex> dlen=<n>   (dlen counts every byte after the header)
                                    -> the `d` reports joined by " | "   (`bad-config` when the container refuses it)
    parse <hex of a whole file>     -> ok ch=<n> sr=<n> frames=<n> fmt=<8 hex> | err | unmodelled
    quant <sr>                      -> the rate a reader reports for a file written at <sr>
-/
import SfModel.Basic
import SfModel.Small2
import SfModel.Nist
import SfModel.Voc
import SfModel.Xi
import Driver.Util
import Driver.Small2
open Sf (hexBytes hexFixed parseHexBytes parseHexNat Byte)
open Sf.Small2
open Driver.Small2 (showRes hexKey endianOf)

namespace Driver.Small3

/-- a container whose store is `hdr ++ data ++ tail` -/
structure Container where
  /-- configuration -> (session machine, the state sf_open leaves for a caller's stale frames value, the close function) -/
  fmtOf : List String → Option (Fmt × (Nat → St) × (St → St))
  parse : List Byte → ParseRes
  quant : Nat → Nat := id

def report (s : St) : String := s!"hdr={hexBytes s.hdr} dlen={s.data.length}"

def runOps (F : Fmt) (closeF : St → St) (ops : List String) (s : St) (acc : List String) : List String :=
  match ops with
  | [] => acc.reverse
  | op :: rest =>
    if op == "u" then runOps F closeF rest (update F s) acc
    else if op == "c" then runOps F closeF rest (closeF s) acc
    else if op == "d" then runOps F closeF rest s (report s :: acc)
    else if op.startsWith "w" || op.startsWith "W" then
      let n := ((op.drop 1).toString.toNat?).getD 0
      runOps F closeF rest (write F s (List.replicate n 0) (op.startsWith "W")) acc
    else runOps F closeF rest s acc

def nist : Container :=
  { fmtOf := fun toks =>
      let c : Sf.Nist.Cfg := { codec := hexKey toks "codec", endian := endianOf toks, ch := kvNat toks "ch" 1, sr := kvNat toks "sr" 1 }
      if decide c.wf then some (Sf.Nist.fmt c, Sf.Nist.openW c, close (Sf.Nist.fmt c)) else none,
    parse := Sf.Nist.parse,
    quant := Sf.Nist.quant }

def voc : Container :=
  { fmtOf := fun toks =>
      let c : Sf.Voc.Cfg := { codec := hexKey toks "codec", ch := kvNat toks "ch" 1, sr := kvNat toks "sr" 1 }
      if endianOf toks < 2 ∧ decide c.wf then some (Sf.Voc.fmt c, openW (Sf.Voc.fmt c), Sf.Voc.closeSt c) else none,
    parse := Sf.Voc.parse,
    quant := fun sr => Sf.Voc.quant { codec := 5, ch := 1, sr := sr } }   -- the 8-bit divisor; the 16-bit one is tied through the header bytes

/-- `name=<hex>` is the 20-byte tracker-name field (PACKAGE_NAME-PACKAGE_VERSION); `old=1` selects the rule before the
    repair of KF-XI-HEADER (xi_close left the header alone) -/
def xi : Container :=
  { fmtOf := fun toks =>
      let c : Sf.Xi.Cfg := { codec := hexKey toks "codec", software := match kvGet toks "name" with | some h => parseHexBytes h | none => List.replicate 20 0x20 }
      let F := if kvNat toks "old" 0 = 1 then Sf.Xi.fmtOld c else Sf.Xi.fmt c
      if endianOf toks < 4 ∧ kvNat toks "ch" 1 = 1 ∧ decide c.wf then some (F, openW F, close F) else none,   -- any byte order request: xi_open forces little endian
    parse := Sf.Xi.parse,
    quant := Sf.Xi.quant }

def containerOf (name : String) : Option Container :=
  match name with
  | "nist" => some nist
  | "xi" => some xi
  | "voc" => some voc
  | _ => none

def answer (C : Container) (line : String) : String :=
  let toks := (line.splitOn " ").filter (· ≠ "")
  match toks with
  | "session" :: rest =>
    match C.fmtOf rest with
    | none => "bad-config"
    | some (F, openSt, closeF) =>
      let ops := ((kvGet rest "ops").getD "").splitOn ";"
      " | ".intercalate (runOps F closeF ops (openSt (kvNat rest "stale" 0)) [])
  | "parse" :: h :: _ => showRes (C.parse (if h == "-" then [] else parseHexBytes h))
  | "quant" :: n :: _ => toString (C.quant (n.toNat?.getD 0))
  | _ => "bad-request"

partial def loop (C : Container) (h : IO.FS.Stream) : IO Unit := do
  let line ← h.getLine
  if line.isEmpty then return
  IO.println (answer C line.trimAscii.toString)
  loop C h

def usage : String := "usage: sfmodel small3 nist|voc|xi|mat5|sds"

def cmd (args : List String) : IO UInt32 := do
  match args with
  | name :: _ =>
    match containerOf name with
    | some C => loop C (← IO.getStdin); return 0
    | none => IO.eprintln usage; return 2
  | _ => IO.eprintln usage; return 2

end Driver.Small3
