import Driver.Util
import Driver.Script
import SfModel.Faults
import SfModel.FaultsRaw
open Sf Sf.Faults

/-! `sfmodel faults` — the C15 correspondence driver: the harness script language (the subset below) interpreted on
    `Sf.Faults` with the oracle instantiated by the memory store of harness/vio.c and its fault kinds.

      store sN <hex> | open hN sM r|w|rw fmt= ch= sr=   (the open itself is fault free: Sf.openHandle)
      fault at=<n> kind=<k> [single=1]                   (restarts the callback counter, like the harness)
      iolog on | iolog dump | r … | w … | rraw hN <bytes> | wraw hN <bytes> <hex> | seek … | cmd hN 1060|1061 <size> null | close hN | dump sN

    `r` prints only the `ret` items that were delivered (the comparer cuts the implementation's line the same way). -/

namespace FaultsDriver

structure St where
  stores : List Store := List.replicate 64 {}
  handles : List (Option H) := List.replicate 16 none
  fault : Fault := {}
  m0 : Mem := {}
  hist : Hist := []
  active : Nat := 0          -- store index the history talks to
  dead : Bool := false

def St.oracle (st : St) : Oracle := memOracle st.fault st.m0
def St.mem (st : St) : Mem := memAfter st.fault st.m0 st.hist

def kindChar : Req → Char
  | .len => 'L' | .tell => 'T' | .seek _ _ => 'S' | .read _ => 'R' | .write _ => 'W'

/-- per callback (oldest first): was the answer altered by the fault -/
def alteredFlags (f : Fault) (m0 : Mem) (hist : Hist) : List Bool :=
  (hist.reverse.foldl (fun (acc : Mem × List Bool) ra =>
      let m' := (memStep f acc.1 ra.1).2
      (m', (m'.fired != acc.1.fired) :: acc.2)) (m0, [])).2.reverse

def firstTrue : List Bool → Nat → Nat
  | [], _ => 0
  | b :: bs, k => if b then k else firstTrue bs (k + 1)

def withH (st : St) (name : String) (f : H → Res) (fmt : H → Out → String) : St × String :=
  let i := idxOf name
  match st.handles.getD i none with
  | none => ({ st with dead := true }, "unmodelled")
  | some h =>
    let r := f h
    ({ st with handles := st.handles.set i (some r.h), hist := r.hist }, fmt h r.out)

def runLine (st : St) (line : String) : St × Option String :=
  let toks := (line.splitOn " ").filter (· ≠ "")
  if st.dead then (st, some "unmodelled") else
  match toks with
  | [] => (st, none)
  | "store" :: sn :: rest =>
    let bs := parseHexBytes (rest.headD "")
    ({ st with stores := st.stores.set (idxOf sn) { bytes := bs, pos := 0 } }, some s!"len={bs.length}")
  | "open" :: hn :: sn :: m :: rest =>
    match modeOfStr m with
    | none => ({ st with dead := true }, some "unmodelled")
    | some mode =>
      let fmt := match kvGet rest "fmt" with | some h => parseHexNat h.toList | none => 0
      let ch := parseIntStr ((kvGet rest "ch").getD "0")
      let sr := parseIntStr ((kvGet rest "sr").getD "0")
      let si := idxOf sn
      let s0 := st.stores.getD si {}
      let s0 : Store := if mode == .w then { bytes := [], pos := 0 } else { s0 with pos := 0 }
      match openHandle si s0 mode fmt ch sr with
      | .unmodelled => ({ st with dead := true }, some "unmodelled")
      | .fail _ => ({ st with dead := true }, some "unmodelled")
      | .ok h s =>
        ({ st with handles := st.handles.set (idxOf hn) (some h), m0 := { bytes := s.bytes, pos := s.pos }, hist := [], active := si },
         some (showOpen h))
  | "fault" :: rest =>
    -- the history is re-based here; the seek latch (`seekFailed`, a function of the history) would be lost
    if seekFailed st.hist then ({ st with dead := true }, some "unmodelled") else
    let m := st.mem
    ({ st with fault := { at_ := kvNat rest "at" 0, kind := kvNat rest "kind" 0, single := kvBool rest "single" false },
               m0 := { bytes := m.bytes, pos := m.pos }, hist := [] }, some "ok")
  | ["iolog", "on"] =>
    if seekFailed st.hist then ({ st with dead := true }, some "unmodelled") else
    let m := st.mem
    ({ st with m0 := { m with calls := m.calls, fired := m.fired }, hist := [] }, some "ok")
  | ["iolog", "dump"] =>
    let flags := alteredFlags st.fault st.m0 st.hist
    let kinds := String.ofList (st.hist.reverse.map fun ra => kindChar ra.1)
    (st, some s!"calls={st.hist.length} fired={(flags.filter id).length} first={firstTrue flags 1} kinds={kinds}")
  | "w" :: hn :: tyS :: unit :: n :: drest =>
    match tyOf tyS with
    | none => ({ st with dead := true }, some "unmodelled")
    | some ty =>
      let (st', out) := withH st hn (fun h => stepWrite st.oracle h st.hist ty (unit == "f") (parseIntStr n) (parseItems ty (drest.headD "")))
        (fun _ o => s!"ret={o.ret} {errStr o.err}")
      (st', some out)
  | ["r", hn, tyS, unit, n] =>
    match tyOf tyS with
    | none => ({ st with dead := true }, some "unmodelled")
    | some ty =>
      let (st', out) := withH st hn (fun h => stepRead st.oracle h st.hist ty (unit == "f") (parseIntStr n))
        (fun h o => s!"ret={o.ret} {errStr o.err} data={showItems ty (o.data.take (if unit == "f" then o.ret.toNat * h.ch else o.ret.toNat))}")
      (st', some out)
  | "wraw" :: hn :: n :: drest =>      -- sf_write_raw (SfModel/FaultsRaw.lean)
    let (st', out) := withH st hn (fun h => FaultsRaw.stepWriteRaw st.oracle h st.hist (parseIntStr n) (parseHexBytes (drest.headD "")))
      (fun _ o => s!"ret={o.ret} {errStr o.err}")
    (st', some out)
  | ["rraw", hn, n] =>                 -- sf_read_raw: prints the `ret` bytes that were delivered
    let (st', out) := withH st hn (fun h => FaultsRaw.stepReadRaw st.oracle h st.hist (parseIntStr n))
      (fun _ o => s!"ret={o.ret} {errStr o.err} data={hexBytes ((o.data.take o.ret.toNat).map Int.toNat)}")
    (st', some out)
  | ["seek", hn, off, wh] =>
    let (st', out) := withH st hn (fun h => stepSeek st.oracle h st.hist (parseIntStr off) (parseIntStr wh))
      (fun _ o => s!"ret={o.ret} {errStr o.err}")
    (st', some out)
  | "cmd" :: hn :: idS :: sizeS :: _ =>
    let id := parseHexNat idS.toList
    if id != 0x1060 ∧ id != 0x1061 then ({ st with dead := true }, some "unmodelled") else
    let (st', out) := withH st hn (fun h => stepCmd st.oracle h st.hist id (parseIntStr sizeS))
      (fun _ o => s!"ret={o.ret} {errStr o.err} data=null")
    (st', some out)
  | ["close", hn] =>
    let i := idxOf hn
    match st.handles.getD i none with
    | none => ({ st with dead := true }, some "unmodelled")
    | some h =>
      let r := closeHandle st.oracle h st.hist
      let st := { st with hist := r.2, handles := st.handles.set i none }
      let m := st.mem
      ({ st with stores := st.stores.set st.active { bytes := m.bytes, pos := m.pos } }, some s!"ret={r.1}")
  | ["dump", sn] =>
    let s := if idxOf sn == st.active then ({ bytes := st.mem.bytes, pos := 0 } : Store) else st.stores.getD (idxOf sn) {}
    (st, some s!"len={s.bytes.length} hex={hexBytes s.bytes}")
  | t :: _ => if t.startsWith "#" then (st, none) else ({ st with dead := true }, some "unmodelled")

def cmd (_args : List String) : IO UInt32 := do
  let lines ← readLines
  let mut st : St := {}
  let mut inBatch := false
  for line in lines do
    if line.startsWith "== " then
      if inBatch then IO.println "== end"
      IO.println line
      inBatch := true
      st := {}
    else
      let (st', out) := runLine st line
      st := st'
      match out with
      | some o => IO.println o
      | none => pure ()
  if inBatch then IO.println "== end"
  return 0

end FaultsDriver
