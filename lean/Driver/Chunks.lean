/-
  sfmodel chunks — predicts, for a harness script (the subset: one write handle with `setchunk` / `w` / `close`,
  then one read handle with `chunkall` / `chunkiter` / `chunknext` / `chunkdata`), the transcript lines of the
  chunk operations, by running the definitions of SfModel/Chunk.lean (the ones SfProps/C13.lean is about).

  Output: first line `classes: <comma separated known-finding classes of the script, or ->`, then one line per
  transcript line of a chunk operation.  `data=?` marks payloads of the container's own chunks (not modelled).
  When the script is in a class the round trip is not claimed for, only the `setchunk` lines are predicted.
  `setchunk` follows the repaired rule `Sf.Chunk.accepts` (reserved / unprintable ids and calls after the audio are
  refused: `ret=E err=0`, E = some non-zero error number); class `pass-through` = an accepted id the container's
  reader looks into (LIST, INFO, PAD / APPL / free): the read side is then not predicted.
-/
import SfModel
open Sf Sf.Chunk
namespace ChunksCmd

def kvOf (toks : List String) (key : String) : Option String :=
  (toks.find? fun t => t.startsWith (key ++ "=")).map fun t => (t.drop (key.length + 1)).toString

def containerOf (fmt : Nat) : Option Chunk.Container :=
  match fmt / 65536 with
  | 0x01 => some .wav | 0x22 => some .rf64 | 0x02 => some .aiff | 0x18 => some .caf | _ => none

/-- bytes the container writes before the custom chunks (16-bit PCM, no other metadata) -/
def preLen : Chunk.Container → Nat
  | .wav => 36 | .rf64 => 96 | .aiff => 38 | .caf => 52

def tyWidth (s : String) : Nat := if s == "s16" then 2 else if s == "f64" then 8 else 4

structure St where
  c       : Chunk.Container := .wav
  early   : Array (Id × List Byte) := #[]
  late    : Array (Id × List Byte) := #[]
  wrote   : Bool := false
  audio   : Nat := 0           -- bytes of audio in the file (16-bit PCM: 2 per item)
  tab     : List RChunk := []
  nfixedPre : Nat := 0
  ncustom : Nat := 0
  classes : List String := []
  vio     : Bool := true
  it      : Option Iter := none
  stale   : Nat := 0            -- hash left in the handle's iterator object
  rclasses : List String := []  -- read-side classes met (the model still predicts these)
  out     : Array String := #[]

def g0 : Byte × Byte × Byte := (0, 0, 0)

def fixedChunk (name : String) (len : Nat) : RChunk := ⟨mk4 name, 0, len, []⟩

/-- the trailing chunk header the walk stops at -/
def trailerStub : Chunk.Container → List Byte
  | .wav | .rf64 => (mk4 "data").bytes ++ le4 0
  | .aiff => (mk4 "SSND").bytes ++ be4 0
  | .caf => (mk4 "free").bytes ++ be4 0 ++ be4 0

def finish (s : St) : St :=
  let c := s.c
  let pre := preLen c
  let earlyL := s.early.toList
  let lateL := s.late.toList
  let wsE := earlyL.map fun p => WChunk.ofInfo p.1 p.2
  let wsL := lateL.map fun p => WChunk.ofInfo p.1 p.2
  let lenE := (wsE.map fun w => hdrLen c + w.len).foldl (· + ·) 0
  let lenL := (wsL.map fun w => hdrLen c + w.len).foldl (· + ·) 0
  let all := earlyL ++ lateL
  let ws := wsE ++ wsL
  let cls : List String :=
    (if all.any (fun p => (passThrough c).contains (markerOf p.1)) then ["pass-through"] else []) ++
    (if KF.headerCache c pre (ws.map (·.len)) then ["header-cache"] else []) ++
    (if lateL.length > 0 && headerLen c pre (lenE + lenL) != headerLen c pre lenE then ["late-grow"] else [])
  if cls.length > 0 then { s with classes := cls } else
  let region := customRegion c pre ws
  let r := parse c (ws.length + 1) pre (region ++ trailerStub c)
  let hl := headerLen c pre region.length
  let total := hl + s.audio
  let (fpre, fpost) : List RChunk × List RChunk :=
    match c with
    | .wav => ([fixedChunk "RIFF" (total - 8), fixedChunk "fmt " 16], [fixedChunk "data" s.audio])
    | .rf64 => ([fixedChunk "ds64" 28, fixedChunk "fmt " 40], [fixedChunk "data" 4294967295])
    | .aiff => ([fixedChunk "FORM" (total - 8), fixedChunk "COMM" 18], [fixedChunk "SSND" (s.audio + 8)])
    | .caf => ([], [fixedChunk "free" (hl - 16 - (pre + region.length) - 12), fixedChunk "data" (s.audio + 4)])
  { s with tab := fpre ++ r.1 ++ fpost, nfixedPre := fpre.length, ncustom := r.1.length, classes := [] }

def isCustom (s : St) (i : Nat) : Bool := s.nfixedPre ≤ i && i < s.nfixedPre + s.ncustom

def chunkLine (s : St) (i : Nat) (want : Option Nat) : String :=
  match s.tab[i]? with
  | none => "size_ret=?"
  | some r =>
    let buflen := match want with
      | some w => w
      | none => if r.len > 1048576 then 64 else r.len
    let dataS := if isCustom s i then hexBytes (getData r (List.replicate buflen 0xA5)) else "?"
    s!"size_ret=0 size={r.len} data_ret=0 id={hexBytes r.mark.bytes} buflen={buflen} data={dataS}"

def idArg (t : String) : Option Id := if t == "null" then none else some (parseHexBytes t)

def step (s : St) (line : String) : St :=
  let toks := (line.splitOn " ").filter (· ≠ "")
  match toks with
  | "open" :: _ :: _ :: mode :: rest =>
    if mode == "w" then
      let fmt := parseHexNat ((kvOf rest "fmt").getD "10002").toList
      { s with c := (containerOf fmt).getD .wav }
    else
      { s with vio := ((kvOf rest "route").getD "vio") == "vio", it := none }
  | "setchunk" :: _ :: id :: rest =>
    let p : Id × List Byte := (parseHexBytes id, parseHexBytes (rest.headD ""))
    if accepts s.c s.wrote p.1 then { s with out := s.out.push "ret=0 err=0", early := s.early.push p }
    else { s with out := s.out.push "ret=E err=0" }
  | "w" :: _ :: ty :: unit :: n :: _ =>
    -- every write entry point (Sf.ChunkW.writeBy): `have_written` once the call is past its guards; the file is 16-bit mono
    let fn := ChunkW.WriteFn.typed ((ChunkW.tyOfName ty).getD .s16) (unit == "f")
    let cnt : Int := (n.toInt?).getD 0
    { s with wrote := (ChunkW.writeBy ⟨s.c, s.wrote, WTab.init, []⟩ fn ⟨1, 2⟩ cnt).wrote,
             audio := s.audio + (if fn.passes ⟨1, 2⟩ cnt then fn.bytes ⟨1, 2⟩ cnt else 0) }
  | "wraw" :: _ :: n :: _ =>
    let cnt : Int := (n.toInt?).getD 0
    { s with wrote := (ChunkW.writeBy ⟨s.c, s.wrote, WTab.init, []⟩ .raw ⟨1, 2⟩ cnt).wrote,
             audio := s.audio + (if ChunkW.WriteFn.raw.passes ⟨1, 2⟩ cnt then ChunkW.WriteFn.raw.bytes ⟨1, 2⟩ cnt else 0) }
  | "close" :: _ => if s.tab.isEmpty && s.classes.isEmpty then finish s else s
  | "chunkall" :: _ :: id :: rest =>
    if s.classes.length > 0 then s else
    let want := rest.head?.bind String.toNat?
    let start := iterStart s.tab s.stale (idArg id)
    let s := if start.isSome then { s with stale := 0 } else s
    let visited := iterRun s.tab (s.tab.length + 1) start
    let lines := visited.map fun i => "c " ++ chunkLine s i want
    let trapAt := visited.findIdx? fun i =>
      match s.tab[i]? with
      | some r => getDataTraps s.vio r (want.getD (if r.len > 1048576 then 64 else r.len))
      | none => false
    let head := s!"it={if start.isSome then 1 else 0} err=0"
    match trapAt with
    | some k => { s with it := none, rclasses := s.rclasses ++ ["vio-zero-read"], out := (s.out.push head) ++ (lines.take k).toArray |>.push "TRAP SIGFPE" }
    | none => { s with it := none, out := ((s.out.push head) ++ lines.toArray).push s!"end n={visited.length}" }
  | "chunkiter" :: _ :: id :: _ =>
    if s.classes.length > 0 then s else
    let start := iterStart s.tab s.stale (idArg id)
    { s with it := start, stale := (start.map (·.hash)).getD s.stale, out := s.out.push s!"it={if start.isSome then 1 else 0} err=0" }
  | "chunknext" :: _ =>
    if s.classes.length > 0 then s else
    let nx := s.it.bind (iterNext s.tab)
    let s := if s.it.isSome && nx.isNone then { s with stale := 0 } else s
    { s with it := nx, out := s.out.push s!"it={if nx.isSome then 1 else 0} err=0" }
  | "chunkdata" :: _ :: rest =>
    if s.classes.length > 0 then s else
    match s.it with
    | none => { s with out := s.out.push "it=0" }
    | some it =>
      let want := rest.head?.bind String.toNat?
      let traps := match s.tab[it.current]? with
        | some r => getDataTraps s.vio r (want.getD (if r.len > 1048576 then 64 else r.len))
        | none => false
      if traps then { s with rclasses := s.rclasses ++ ["vio-zero-read"], out := s.out.push "TRAP SIGFPE" }
      else { s with out := s.out.push (chunkLine s it.current want) }
  | _ => s

def runOne (lines : Array String) : IO Unit := do
  let s := lines.foldl step {}
  let cl := s.classes ++ s.rclasses.eraseDups
  IO.println ("classes: " ++ (if cl.isEmpty then "-" else ",".intercalate cl))
  for l in s.out do IO.println l

/-- stdin: one script, or several separated by `== <name>` lines (the name line is echoed before each result) -/
def run (lines : Array String) : IO UInt32 := do
  if !(lines.any fun l => l.startsWith "== ") then
    runOne lines
    return 0
  let mut cur : Array String := #[]
  let mut name : Option String := none
  for l in lines do
    if l.startsWith "== " then
      if let some n := name then
        IO.println n
        runOne cur
      name := some l
      cur := #[]
    else
      cur := cur.push l
  if let some n := name then
    IO.println n
    runOne cur
  return 0

end ChunksCmd
