/-
  sfmodel ledger — runs Sf.Ledger (the definitions the theorems of SfProps/C16 are about) on scenarios.

  stdin, one operation per line (scenarios separated by `== <name>`, which resets the world):
    open route=vio|path|pathfail|fd1|fd0 mode=r|w|rw cont=<wav|wavex|aiff|caf|rf64|w64|other> codec=<plain|dataOnly|hooked|gsm610|g72x|alac>
         float=<0|1> existing=<0|1> frames=<0|1> evs=<comma list of peak cue mark smpl inst loop bext cart chanmap str chunkRec iter|-> fail=<k|none>
    setstr <v> | setbext <v> | setcart <v> | setcue <v> | setinst <v> | setchanmap <v> | setchunk <v> | iter <none|0|1>
    setpeak <0|1> | dither <w|r> <off|dflt|on> <v> | write <0|1> | other | close <ioOk>
    peek
  stdout: `ret=<n|?>` per operation, and for `peek`:
    mask=<hex> wch= pay= fd= rsrc= cc= hw= blocks=<live heap blocks incl. SF_PRIVATE> fds=<live descriptors> disk=<temp files> leaked=<heap>,<fd>,<disk> dfree=<n>
    (or `mask=closed blocks=0 …` when no handle is open)
-/
import SfModel.Ledger
import Driver.Util
open Sf.Ledger

namespace LedgerDriver

def hex5 (n : Nat) : String :=
  let s := String.ofList (Nat.toDigits 16 n)
  String.ofList (List.replicate (5 - s.length) '0') ++ s

def contOf : String → Cont
  | "wav" => .wav | "wavex" => .wavex | "aiff" => .aiff | "caf" => .caf | "rf64" => .rf64 | "w64" => .w64 | _ => .other

def codecOf : String → Codec
  | "dataOnly" => .dataOnly | "hooked" => .hooked | "gsm610" => .gsm610 | "g72x" => .g72x | "alac" => .alac | _ => .plain

def evOf : String → Option Ev
  | "peak" => some .peak | "cue" => some .cue | "mark" => some .mark | "smpl" => some .smpl | "inst" => some .inst
  | "loop" => some .loop | "bext" => some .bext | "cart" => some .cart | "chanmap" => some .chanmap | "str" => some .str
  | "chunkRec" => some .chunkRec | "iter" => some .iter | _ => none

def b (s : String) : Bool := s == "1"

def parseOpen (toks : List String) : OpenCfg :=
  let g := fun k d => (kvGet toks k).getD d
  { route := match g "route" "vio" with
      | "path" => .path true | "pathfail" => .path false | "fd1" => .fd true | "fd0" => .fd false | _ => .vio
    mode := match g "mode" "w" with | "r" => .r | "rw" => .rw | _ => .w
    cont := contOf (g "cont" "other")
    codec := codecOf (g "codec" "plain")
    isFloat := b (g "float" "0")
    existing := b (g "existing" "0")
    hasFrames := b (g "frames" "0")
    evs := ((g "evs" "-").splitOn ",").filterMap evOf
    failAt := (g "fail" "none").toNat? }

def parseOp (toks : List String) : Option Op :=
  match toks with
  | "open" :: rest => some (.open (parseOpen rest))
  | ["setstr", v] => some (.setString (b v))
  | ["setbext", v] => some (.setBroadcast (b v))
  | ["setcart", v] => some (.setCart (b v))
  | ["setcue", v] => some (.setCue (b v))
  | ["setinst", v] => some (.setInstrument (b v))
  | ["setchanmap", v] => some (.setChannelMap (b v))
  | ["setchunk", v] => some (.setChunk (b v))
  | ["iter", v] => some (.chunkIter (if v == "none" then none else some (b v)))
  | ["setpeak", v] => some (.setPeak (b v))
  | ["dither", d, t, v] => some (.setDither (d == "w") (if t == "off" then .off else if t == "dflt" then .dflt else .on) (b v))
  | ["write", v] => some (.write (b v))
  | ["other"] => some .other
  | ["close", v] => some (.close (b v))
  | _ => none

def bit (x : Bool) : String := if x then "1" else "0"

def peekLine (w : World) : String :=
  let tail := s!"blocks={w.held .heap} fds={w.held .fd} disk={w.held .disk} leaked={w.a.leakedHeap},{w.a.leakedFd},{w.a.leakedDisk} dfree={w.a.dfree}"
  match w.h with
  | none => s!"mask=closed {tail}"
  | some h =>
    s!"mask={hex5 h.mask} wch={h.wused} pay={h.payloads} fd={bit (h.cell .fileFd != .null)} rsrc={bit (h.cell .rsrcFd != .null)} cc={bit h.codecClose.isSome} hw={bit h.haveWritten} {tail}"

/-- the view of handle i inside a world of several: its own cells, the whole world's holdings -/
def peekAt (w : Worlds) (i : Nat) : String :=
  let tail := s!"blocks={w.held .heap} fds={w.held .fd} disk={w.held .disk} leaked={w.a.leakedHeap},{w.a.leakedFd},{w.a.leakedDisk} dfree={w.a.dfree}"
  match w.get i with
  | none => s!"mask=closed {tail}"
  | some h =>
    s!"mask={hex5 h.mask} wch={h.wused} pay={h.payloads} fd={bit (h.cell .fileFd != .null)} rsrc={bit (h.cell .rsrcFd != .null)} cc={bit h.codecClose.isSome} hw={bit h.haveWritten} {tail}"

/-- lines may start with `@<i>` to name the handle the call is made on (default 0); the world is `Sf.Ledger.Worlds` -/
def cmd : IO UInt32 := do
  let lines ← readLines
  let mut w : Worlds := {}
  for line in lines do
    if line.startsWith "== " then
      w := {}
      IO.println line
    else
      let toks0 := (line.splitOn " ").filter (· ≠ "")
      let (i, toks) := match toks0 with
        | t :: rest => if t.startsWith "@" then ((t.drop 1).toString.toNat?.getD 0, rest) else (0, toks0)
        | [] => (0, [])
      match toks with
      | [] => pure ()
      | ["peek"] => IO.println (peekAt w i)
      | _ =>
        match parseOp toks with
        | none => IO.println "bad-op"
        | some op =>
          let r := stepAt w i op
          w := r.1
          IO.println (if r.2 == -2 then "ret=?" else s!"ret={r.2}")
  return 0

end LedgerDriver
