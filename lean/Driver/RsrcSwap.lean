/-
  sfmodel second — lean/SfModel/RsrcSwap.lean (campaign vlib/secondfile.py).  stdin, one request per line:
     model fork=<0|1> write=<0|1> [rule=code|early]           -> fds=<descriptors left open> ebadf=<double closes> null=<0|1: the open fails>
     judge <name> null=<0|1> err= msglen= fds= low=<same|moved> ebadf= blocks=    -> `<name> ok` | `<name> bad clause=<tag>[,<tag>…]`
-/
import SfModel.RsrcSwap
import Driver.Util
import Driver.Script
open Sf
namespace RsrcSwapDriver

def answer (line : String) : String :=
  let toks := (line.splitOn " ").filter (· ≠ "")
  match toks with
  | "model" :: rest =>
    let c : RsrcSwap.Cfg := { forkOpens := kvNat rest "fork" 1 = 1, writeOk := kvNat rest "write" 1 = 1 }
    let rule := if kvGet rest "rule" == some "early" then RsrcSwap.Rule.early else .code
    let t : RsrcSwap.Tab := fun n => n < 3
    let w := RsrcSwap.session rule c t 3 4
    let null := !(c.writeOk && c.forkOpens)
    s!"fds={RsrcSwap.leaked t w.tab (List.range 16)} ebadf={w.ebadf} null={if null then 1 else 0}"
  | "judge" :: name :: rest =>
    let o : RsrcSwap.Obs := { openNull := kvNat rest "null" 0 = 1, err := parseIntStr ((kvGet rest "err").getD "0"), msglen := kvNat rest "msglen" 0,
                              fds := parseIntStr ((kvGet rest "fds").getD "0"), lowSame := kvGet rest "low" == some "same",
                              ebadf := kvNat rest "ebadf" 0, blocks := parseIntStr ((kvGet rest "blocks").getD "0") }
    match RsrcSwap.obsOk o with
    | [] => s!"{name} ok"
    | tags => s!"{name} bad clause={",".intercalate tags}"
  | _ => "bad-request"

partial def loop (h : IO.FS.Stream) : IO Unit := do
  let line ← h.getLine
  if line.isEmpty then return
  let l := line.trimAscii.toString
  if l != "" then IO.println (answer l)
  loop h

def main (_args : List String) : IO UInt32 := do
  loop (← IO.getStdin)
  return 0

end RsrcSwapDriver
