/-
  sfmodel meta <package-name> <package-version> — predicts, for harness scripts of the C12 campaign (one write handle h0 on a
  little-endian WAV / WAVEX / RF64 file: `setstr`, `cmd` with the metadata SET ids, `setcues`, `w`, `close`; then `getmeta h1`
  on the re-opened file), the result code of every SET call and the `meta …` line of the re-opened file, by running the
  definitions of SfModel/Meta.lean (the ones SfProps/C12.lean is about).

  Input: scripts separated by `== <name>` lines.  Output: the same separators, then one line per modelled operation:
  `ret=<code>` for setstr / cmd / setcues, `meta …` for getmeta (channel map is not modelled: `chmap=?`).
-/
import SfModel.Meta
import SfModel.MetaX
import SfModel.MetaFix
import SfModel.MetaXState
open Sf Sf.Meta Sf.MetaX
namespace MetaCmd

def kvOf (toks : List String) (key : String) : Option String :=
  (toks.find? fun t => t.startsWith (key ++ "=")).map fun t => (t.drop (key.length + 1)).toString

def hexNat (s : String) : Nat := parseHexNat s.toList

def containerOf (fmt : Nat) : Container :=
  match (fmt / 65536) % 4096 with
  | 0x01 => .wav | 0x13 => .wavex | 0x22 => .rf64 | 0x02 => .aiff | 0x18 => .caf | 0x0B => .w64 | _ => .other

def decimal (n : Nat) : List Byte := ascii (toString n)

/-- gen_coding_history -/
def historyLine (fmt ch sr : Nat) (pkgName pkgVersion : List Byte) : List Byte :=
  let sub := fmt % 65536
  let width : Nat := if sub = 1 ∨ sub = 5 then 8 else if sub = 2 then 16 else if sub = 3 then 24 else if sub = 4 then 32
    else if sub = 6 then 24 else if sub = 7 then 53 else if sub = 0x10 ∨ sub = 0x11 then 12 else 42
  let chn := if ch = 1 then ascii "mono" else if ch = 2 then ascii "stereo" else decimal ch ++ ascii "chn"
  ascii "A=PCM,F=" ++ decimal sr ++ ascii ",W=" ++ decimal width ++ ascii ",M=" ++ chn ++ ascii ",T=" ++ pkgName ++ [45] ++ pkgVersion ++ [13, 10]

def seg (b : List Byte) (off n : Nat) : List Byte := (b.drop off).take n
def u (b : List Byte) (off n : Nat) : Nat := ofLE (seg b off n)

/-- the caller's SF_BROADCAST_INFO block -> fields (struct layout: 2 pad bytes at 338, coding_history_size at 604) -/
def bextOfStruct (b : List Byte) : Bext × Nat :=
  ({ description := seg b 0 256, originator := seg b 256 32, originatorRef := seg b 288 32, date := seg b 320 10, time := seg b 330 8,
     timeLow := u b 340 4, timeHigh := u b 344 4, version := u b 348 2, umid := seg b 350 64,
     l1 := u b 414 2, l2 := u b 416 2, l3 := u b 418 2, l4 := u b 420 2, l5 := u b 422 2, reserved := seg b 424 180, history := b.drop 608 },
   u b 604 4)

def structOfBext (b : Bext) : List Byte :=
  b.description ++ b.originator ++ b.originatorRef ++ b.date ++ b.time ++ [0, 0] ++ le4 b.timeLow ++ le4 b.timeHigh ++ le2 b.version ++
  b.umid ++ le2 b.l1 ++ le2 b.l2 ++ le2 b.l3 ++ le2 b.l4 ++ le2 b.l5 ++ b.reserved ++ le4 b.history.length ++ b.history

def cartOfStruct (b : List Byte) : Cart × Nat :=
  ({ head := seg b 0 748, reserved := seg b 748 276, url := seg b 1024 1024, tag := b.drop 2052 }, u b 2048 4)

def structOfCart (c : Cart) : List Byte := c.head ++ c.reserved ++ c.url ++ le4 c.tag.length ++ c.tag

def s8 (x : Nat) : Int := sext 8 x

def instOfStruct (b : List Byte) : Inst :=
  let lc := sext 32 (u b 12 4)
  let n := if lc < 0 then 0 else lc.toNat
  { gain := sext 32 (u b 0 4), basenote := s8 (u b 4 1), detune := s8 (u b 5 1), velLo := s8 (u b 6 1), velHi := s8 (u b 7 1),
    keyLo := s8 (u b 8 1), keyHi := s8 (u b 9 1),
    loops := (List.range (min n 16)).map fun k => ⟨sext 32 (u b (16 + 16 * k) 4), u b (20 + 16 * k) 4, u b (24 + 16 * k) 4, u b (28 + 16 * k) 4⟩ }

def structOfInst (i : Inst) : List Byte :=
  le4 (wrapU 32 i.gain) ++ [wrapU 8 i.basenote, wrapU 8 i.detune, wrapU 8 i.velLo, wrapU 8 i.velHi, wrapU 8 i.keyLo, wrapU 8 i.keyHi, 0, 0] ++
  le4 i.loops.length ++ (i.loops.flatMap fun l => le4 (wrapU 32 l.mode) ++ le4 l.start ++ le4 l.stop ++ le4 l.count) ++ zeros (16 * (16 - i.loops.length))

def cueOfTok (t : String) : Cue :=
  match t.splitOn "/" with
  | nums :: rest =>
    let v := parseHexItems 8 nums
    ⟨v.getD 0 0, v.getD 1 0, v.getD 2 0, v.getD 3 0, v.getD 4 0, v.getD 5 0, cstr (parseHexBytes (rest.headD ""))⟩
  | [] => ⟨0, 0, 0, 0, 0, 0, []⟩

def tokOfCue (c : Cue) : String :=
  hexFixed 8 c.indx ++ hexFixed 8 c.position ++ hexFixed 8 c.fcc ++ hexFixed 8 c.chunkStart ++ hexFixed 8 c.blockStart ++
  hexFixed 8 c.sampleOffset ++ "/" ++ hexBytes c.name

structure St where
  h : MetaState := MetaState.open .wav
  fmt : Nat := 0
  ch : Nat := 0
  sr : Nat := 0
  closed : Bool := false
  supported : Bool := false
  chmap : Option (List Nat × Nat) := none      -- AIFF / CAF: the stored channel map and its layout tag

def strTypes : List Nat := [1, 2, 3, 4, 5, 6, 7, 8, 9, 16]

/-- the (type, text) pairs an AIFF / CAF file hands to psf_store_string on re-open -/
def xStrings (st : St) : List (Nat × List Byte) :=
  Sf.MetaXS.stringsBack (st.h.cont = .aiff) st.h.strings st.h.audio.length

def xMetaLine (st : St) : String :=
  let h := st.h
  let tab := loadAll (xStrings st)
  let strs := strTypes.map fun (ty : Nat) =>
    " s" ++ toString ty ++ "=" ++ (match get tab (ty : Int) with | some s => hexBytes s | none => "null")
  -- repaired aiff_write_header: MARK is written whenever there are cue points (Sf.MetaFix.aiffCues)
  let cues : Option (List Cue) := if h.cont = .aiff then Sf.MetaFix.aiffCues h.inst.isSome h.cues else none
  let cuesS := match cues with
    | some cs => " cuecount=1:" ++ toString cs.length ++ " cues=1:" ++ toString cs.length ++ ":" ++ ",".intercalate (cs.map tokOfCue)
    | none => " cuecount=0:0 cues=0:"
  let chm : Option (List Nat) := Sf.MetaXS.chanBack (h.cont = .caf) st.ch st.chmap
  let chmS := match chm with | some m => "1:" ++ hexBytes (m.flatMap le4) | none => "0:"
  "meta" ++ String.join strs ++ " bext=0: cart=0:" ++ cuesS ++ " inst=0: chmap=" ++ chmS ++ " err=0"

def metaLine (st : St) : String :=
  if st.h.cont = .aiff ∨ st.h.cont = .caf then xMetaLine st else
  let r := reopen 0 st.h
  let tab := loadAll r.strings
  let strs := strTypes.map fun (ty : Nat) =>
    " s" ++ toString ty ++ "=" ++ (match get tab (ty : Int) with | some s => hexBytes s | none => "null")
  let bext := match r.bext with | some b => "1:" ++ hexBytes (structOfBext b) | none => "0:"
  let cart := match r.cart with | some c => "1:" ++ hexBytes (structOfCart c) | none => "0:"
  -- repaired wav_write_header: the names travel in LIST/adtl/labl (Sf.MetaFix.reopenCues); rf64.c writes no cue chunk
  let rcues := if st.h.cont = .rf64 then none else st.h.cues.bind Sf.MetaFix.reopenCues
  let cues := match rcues with
    | some cs => " cuecount=1:" ++ toString cs.length ++ " cues=1:" ++ toString cs.length ++ ":" ++ ",".intercalate (cs.map tokOfCue)
    | none => " cuecount=0:0 cues=0:"
  let inst := match r.inst with | some i => "1:" ++ hexBytes (structOfInst i) | none => "0:"
  "meta" ++ String.join strs ++ " bext=" ++ bext ++ " cart=" ++ cart ++ cues ++ " inst=" ++ inst ++ " chmap=? err=0"

def parseTypeTok (s : String) : Int :=
  if s.startsWith "0x" then (hexNat (s.drop 2).toString : Int)
  else if s.startsWith "-" then - ((s.drop 1).toString.toNat?.getD 0 : Int)
  else (s.toNat?.getD 0 : Int)

def runLine (pkgName pkgVersion : List Byte) (st : St) (line : String) : St × Option String :=
  let toks := (line.splitOn " ").filter (· ≠ "")
  match toks with
  | "open" :: "h0" :: _ =>
    let fmt := hexNat ((kvOf toks "fmt").getD "0")
    let c := containerOf fmt
    let le := fmt / 0x10000000 % 4 = 0 ∨ fmt / 0x10000000 % 4 = 1
    ({ h := MetaState.open c, fmt := fmt, ch := ((kvOf toks "ch").getD "0").toNat?.getD 0, sr := ((kvOf toks "sr").getD "0").toNat?.getD 0,
       supported := ((c = .wav ∨ c = .wavex ∨ c = .rf64) ∧ le) ∨ c = .aiff ∨ c = .caf }, none)
  | "setstr" :: "h0" :: ty :: rest =>
    match rest with
    | [] | "null" :: _ => (st, some ("ret=" ++ toString SFE_STR_BAD_STRING))
    | hx :: _ =>
      let r := step pkgName pkgVersion st.h (.setString (parseTypeTok ty) (cstr (parseHexBytes hx)))
      ({ st with h := r.2 }, some ("ret=" ++ toString r.1))
  | "cmd" :: "h0" :: idS :: sizeS :: rest =>
    let id := hexNat idS
    let size := sizeS.toNat?.getD 0
    let blob := match rest with | [] => [] | "null" :: _ => [] | hx :: _ => parseHexBytes hx
    let isNull : Bool := match rest with | [] => true | "null" :: _ => true | _ => false
    if id = 0x10F1 then
      if isNull then (st, some "ret=0") else
      let (b, declared) := bextOfStruct (blob.take size)
      let r := step pkgName pkgVersion st.h (.setBext (historyLine st.fmt st.ch st.sr pkgName pkgVersion) b declared size)
      ({ st with h := r.2 }, some ("ret=" ++ toString r.1))
    else if id = 0x1400 then
      if isNull then (st, some "ret=0") else
      let (c, declared) := cartOfStruct (blob.take size)
      let r := step pkgName pkgVersion st.h (.setCart 0 c declared size)
      ({ st with h := r.2 }, some ("ret=" ++ toString r.1))
    else if id = 0x10D1 then
      if st.h.haveWritten then (st, some "ret=0")
      else if isNull || size != 272 then (st, some "ret=0")
      else
        let r := step pkgName pkgVersion st.h (.setInst (instOfStruct blob))
        ({ st with h := r.2 }, some ("ret=" ++ toString r.1))
    else if id = 0x1101 ∧ (st.h.cont = .aiff ∨ st.h.cont = .caf) then
      if st.h.haveWritten ∨ isNull ∨ size ≠ 4 * st.ch then (st, some "ret=0")
      else
        let map := (List.range st.ch).map fun k => u blob (4 * k) 4
        match setChannelMap st.ch map with
        | none => (st, some "ret=0")
        | some (r, m, tag) => ({ st with chmap := Sf.MetaXS.applyChmap st.chmap m tag }, some ("ret=" ++ toString r))
    else (st, none)
  | "setcues" :: "h0" :: _ :: rest =>
    let cs := match rest with | [] => [] | t :: _ => if t = "" then [] else (t.splitOn ",").map cueOfTok
    let r := step pkgName pkgVersion st.h (.setCues cs)
    ({ st with h := r.2 }, some ("ret=" ++ toString r.1))
  | "w" :: "h0" :: _ :: _ :: cnt :: _ =>
    let sub := st.fmt % 65536
    let width : Nat := if sub = 1 ∨ sub = 5 then 1 else if sub = 2 then 2 else if sub = 3 then 3 else if sub = 7 then 8 else 4
    ({ st with h := (step pkgName pkgVersion st.h (.writeAudio (zeros ((cnt.toNat?.getD 0) * width)))).2 }, none)
  | "close" :: "h0" :: _ => ({ st with closed := true }, none)
  | "getmeta" :: "h1" :: _ =>
    (st, some (if st.closed ∧ st.supported then metaLine st else "meta ?"))
  | _ => (st, none)

def run (args : List String) (lines : Array String) : IO UInt32 := do
  let pkgName := ascii (args.headD "libsndfile")
  let pkgVersion := ascii ((args.drop 1).headD "0")
  let mut st : St := {}
  for line in lines do
    if line.startsWith "== " then
      IO.println line
      st := {}
    else
      let (st', out) := runLine pkgName pkgVersion st line
      st := st'
      match out with
      | some o => IO.println o
      | none => pure ()
  return 0

end MetaCmd
