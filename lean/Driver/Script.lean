import Driver.Util
open Sf

/-! `sfmodel script` — interprets the harness script language on the Lean model and prints the transcript the
    real library is expected to produce. A line the model does not describe prints `unmodelled`
    (the comparer then skips the rest of that script). -/

def idxOf (s : String) : Nat := (s.drop 1).toString.toNat?.getD 0

def errStr (e : Int) : String := if e == 0 then "err=0" else "err=E"

def showOpen (h : H) : String :=
  let w := h.mode == .w
  s!"open=ok err=0 ch={h.ch} sr={h.sr} frames={if w then 0 else h.frames} fmt={hexFixed 8 h.fmtWord} sections={if w then 0 else 1} seekable={if w then 0 else 1}"

def modeOfStr (s : String) : Option Mode :=
  if s == "r" then some .r else if s == "w" then some .w else if s == "rw" then some .rw else none

def parseIntStr (s : String) : Int :=
  if s.startsWith "-" then - ((s.drop 1).toString.toNat?.getD 0 : Int)
  else if s.startsWith "0x" then (parseHexNat (s.drop 2).toString.toList : Int)
  else (s.toNat?.getD 0 : Int)

structure RunState where
  w : World := {}
  dead : Bool := false          -- an `unmodelled` line was met

def withHandle (st : RunState) (name : String) (f : H → Store → (Option H × Store × String)) : RunState × String :=
  let i := idxOf name
  match st.w.handles.getD i none with
  | none => ({ st with dead := true }, "unmodelled")
  | some h =>
    let s := st.w.store h.store
    let (h', s', out) := f h s
    ({ st with w := (st.w.setStore h.store s').setHandle i h' }, out)

def runLine (st : RunState) (line : String) : RunState × Option String :=
  let toks := (line.splitOn " ").filter (· ≠ "")
  if st.dead then (st, some "unmodelled") else
  match toks with
  | [] => (st, none)
  | "open" :: hn :: sn :: m :: rest =>
    match modeOfStr m with
    | none => ({ st with dead := true }, some "unmodelled")
    | some mode =>
      let route := (kvGet rest "route").getD "vio"
      -- path / descriptor routes behave like virtual I/O for the modelled containers, except that ftruncate works
      if !(route == "vio" ∨ route == "fd" ∨ route == "fd1" ∨ route == "path") then ({ st with dead := true }, some "unmodelled") else
      let canTrunc := route != "vio"
      let fmt := match kvGet rest "fmt" with | some h => parseHexNat h.toList | none => 0
      let ch := parseIntStr ((kvGet rest "ch").getD "0")
      let sr := parseIntStr ((kvGet rest "sr").getD "0")
      let si := idxOf sn
      let s0 := st.w.store si
      let s0 : Store := if mode == .w then { bytes := [], pos := 0 } else { s0 with pos := 0 }
      match openHandle si s0 mode fmt ch sr with
      | .unmodelled => ({ st with dead := true }, some "unmodelled")
      | .fail s => ({ st with w := { (st.w.setStore si s) with sfErrno := 1 } }, some "open=NULL err=E")
      | .ok h s => ({ st with w := (st.w.setStore si s).setHandle (idxOf hn) (some { h with canTruncate := canTrunc }) }, some (showOpen h))
  | "w" :: hn :: tyS :: unit :: n :: drest =>
    let dataS := drest.headD ""
    match tyOf tyS with
    | none => ({ st with dead := true }, some "unmodelled")
    | some ty =>
      let (st, out) := withHandle st hn fun h s =>
        let (h, s, o) := stepWrite h s ty (unit == "f") (parseIntStr n) (parseItems ty dataS)
        (some h, s, s!"ret={o.ret} {errStr o.err}")
      (st, some out)
  | ["r", hn, tyS, unit, n] =>
    match tyOf tyS with
    | none => ({ st with dead := true }, some "unmodelled")
    | some ty =>
      let (st, out) := withHandle st hn fun h s =>
        let nn := parseIntStr n
        let (h', s, o) := stepRead h s ty (unit == "f") nn
        -- the harness prints the whole requested buffer
        let items : Int := if unit == "f" then nn * h.ch else nn
        let buf := if o.hasData then o.data else List.replicate items.toNat (pattern ty)
        (some h', s, s!"ret={o.ret} {errStr o.err} data={showItems ty buf}")
      (st, some out)
  | ["seek", hn, off, wh] =>
    let (st, out) := withHandle st hn fun h s =>
      let (h, s, o) := stepSeek h s (parseIntStr off) (parseIntStr wh)
      (some h, s, s!"ret={o.ret} {errStr o.err}")
    (st, some out)
  | "cmd" :: hn :: idS :: sizeS :: rest =>
    let id := parseHexNat idS.toList
    let size := parseIntStr sizeS
    let dataS := rest.headD "null"
    if id == 0x1080 then
      if size != 8 ∨ dataS == "null" ∨ dataS == "zero" then ({ st with dead := true }, some "unmodelled") else
      let v : Int := sext 64 (ofLE (parseHexBytes dataS))
      let (st, out) := withHandle st hn fun h s =>
        let (h, s, o) := stepTruncate h s v
        (some h, s, s!"ret={o.ret} {errStr o.err} data={dataS}")
      (st, some out)
    else if id ∈ [0x1013, 0x1012, 0x1011, 0x1010, 0x10C0, 0x10C1, 0x1015, 0x1061, 0x1060] ∧ dataS == "null" then
      let (st, out) := withHandle st hn fun h s =>
        let (h, s, o) := stepCmdFlag h s id size
        (some h, s, s!"ret={o.ret} {errStr o.err} data=null")
      (st, some out)
    else ({ st with dead := true }, some "unmodelled")
  | ["close", hn] =>
    let i := idxOf hn
    match st.w.handles.getD i none with
    | none => ({ st with dead := true }, some "unmodelled")
    | some h =>
      let s := closeHandle h (st.w.store h.store)
      ({ st with w := (st.w.setStore h.store s).setHandle i none }, some "ret=0")
  | ["info", hn] =>
    let (st, out) := withHandle st hn fun h s =>
      (some { h with error := 0 }, s, s!"ret=0 ch={h.ch} sr={h.sr} frames={h.frames} fmt={hexFixed 8 h.fmtWord} sections=1 seekable=1")
    (st, some out)
  | ["dump", sn] =>
    let s := st.w.store (idxOf sn)
    (st, some s!"len={s.bytes.length} hex={hexBytes s.bytes}")
  | "store" :: sn :: rest =>
    let bs := parseHexBytes (rest.headD "")
    ({ st with w := st.w.setStore (idxOf sn) { bytes := bs, pos := 0 } }, some s!"len={bs.length}")
  | ["copy", dn, sn] =>
    let s := st.w.store (idxOf sn)
    ({ st with w := st.w.setStore (idxOf dn) { bytes := s.bytes, pos := 0 } }, some s!"len={s.bytes.length}")
  | ["trunc", sn, n] =>
    let s := st.w.store (idxOf sn)
    let k := (parseIntStr n).toNat
    let bs := if k < s.bytes.length then s.bytes.take k else s.bytes
    ({ st with w := st.w.setStore (idxOf sn) { s with bytes := bs } }, some s!"len={bs.length}")
  | t :: _ => if t.startsWith "#" then (st, none) else ({ st with dead := true }, some "unmodelled")

/-- stdin: scripts separated by `== name` lines (or a single script); output mirrors `sfh batch`. -/
def scriptCmd (_args : List String) : IO UInt32 := do
  let lines ← readLines
  let mut st : RunState := {}
  let mut inBatch := false
  for line in lines do
    if line.startsWith "== " then
      if inBatch then IO.println "== end"
      IO.println line
      inBatch := true
      st := {}
    else
      let (st', out) := runLine st line
      st := st'
      match out with
      | some o => IO.println o
      | none => pure ()
  if inBatch then IO.println "== end"
  return 0
