/-
  sfmodel label table        prints the specification's codec labels (lean/SfModel/Label.lean), one row per (major, codec, endian) that has one:
                               `label <major-hex> <codec-hex> <le 0|1> num <decimal> | tag <4 characters, spaces as _> | text <word>`  and
                               `bits <major-hex> <codec-hex> <decimal>`
  sfmodel label keep         stdin: records of three lines  `keep <name> w=<bits>` / `xs <8-digit hex ints>` / `rs <8-digit hex ints>`
                             stdout: `<name> ok n=<items>` | `<name> bad i=<index> x=<hex> got=<hex> want=<hex>` | `<name> bad length xs=<n> rs=<m>`
-/
import SfModel.Label
import Driver.Util
open Sf Sf.Label
namespace LabelDriver

def majors : List Nat := [0x01, 0x02, 0x03, 0x05, 0x06, 0x07, 0x08, 0x0A, 0x0B, 0x13, 0x18, 0x22]
def codecs : List Nat := [0x01, 0x02, 0x03, 0x04, 0x05, 0x06, 0x07, 0x10, 0x11, 0x12, 0x13, 0x20, 0x22, 0x23, 0x24, 0x30, 0x31, 0x32,
                          0x40, 0x41, 0x42, 0x70, 0x71, 0x72, 0x73]

def showLabel : Label → String
  | .num v => s!"num {v}"
  | .tag s => "tag " ++ s.map (fun c => if c == ' ' then '_' else c)
  | .text s => "text " ++ s

def table : IO Unit := do
  for m in majors do
    for c in codecs do
      for le in [false, true] do
        match spec m c le with
        | some l => IO.println s!"label {hexFixed 2 m} {hexFixed 4 c} {if le then 1 else 0} {showLabel l}"
        | none => pure ()
      match bits m c with
      | some b => IO.println s!"bits {hexFixed 2 m} {hexFixed 4 c} {b}"
      | none => pure ()

def ints (s : String) : List Int := (parseHexItems 8 s).map (sext 32)

partial def keepLoop (h : IO.FS.Stream) : IO Unit := do
  let l1 ← h.getLine
  if l1.isEmpty then return
  let t := (l1.trimAscii.toString.splitOn " ").filter (· ≠ "")
  match t with
  | "keep" :: name :: rest =>
    let w := kvNat rest "w" 0
    let lx ← h.getLine
    let lr ← h.getLine
    let xs := ints ((lx.trimAscii.toString.drop 2).trimAscii.toString)
    let rs := ints ((lr.trimAscii.toString.drop 2).trimAscii.toString)
    if keepOk w xs rs then IO.println s!"{name} ok n={xs.length}"
    else if xs.length ≠ rs.length then IO.println s!"{name} bad length xs={xs.length} rs={rs.length}"
    else
      let i := (firstBad w 0 xs rs).getD 0
      let x := xs.getD i 0
      IO.println s!"{name} bad i={i} x={hexFixed 8 (wrapU 32 x)} got={hexFixed 8 (wrapU 32 (rs.getD i 0))} want={hexFixed 8 (wrapU 32 (keepTop w x))}"
    keepLoop h
  | _ => keepLoop h

def main (args : List String) : IO UInt32 := do
  match args with
  | ["table"] => table; return 0
  | ["keep"] => keepLoop (← IO.getStdin); return 0
  | _ => IO.eprintln "usage: sfmodel label table|keep"; return 2

end LabelDriver
