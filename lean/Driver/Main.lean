/-
  sfmodel — runs the executable definitions of `SfModel` (the same definitions the theorems in
  `SfProps` are about) on inputs supplied by the correspondence check.
-/
import SfModel
import Driver.Util
import Driver.Codec
import Driver.Script
import Driver.Chunks
import Driver.Adpcm
import Driver.C10
import Driver.C17
import Driver.C03
import Driver.Faults
import Driver.Block
import Driver.C18
import Driver.CafW64
import Driver.WavexRf64
import Driver.Routes
import Driver.World
import Driver.Aiff
import Driver.Small2
import Driver.Ledger
import Driver.Meta
import Driver.Ieee
import Driver.Dwvw
import Driver.Small1
import Driver.Abs
import Driver.Nms
import Driver.Sites
import Driver.G72x
import Driver.Small3
import Driver.Gsm
import Driver.GeomFix
import Driver.FdWorld
import Driver.Alac
import Driver.AbsWrite
import Driver.Small4
import Driver.Sd2
import Driver.CrossType
import Driver.AdpcmEnc
import Driver.AbsTwin
import Driver.AlacCore
import Driver.AbsMeta
import Driver.Chmap
import Driver.Probe
import Driver.VocBlocks
import Driver.Label
import Driver.ShortIo
import Driver.AudioDetect
import Driver.ErrApi
import Driver.HandleG
import Driver.StageLoop
import Driver.RsrcSwap
open Sf

def lawOf (s : String) : Option G711.Law :=
  if s == "ulaw" then some G711.ulaw else if s == "alaw" then some G711.alaw else none

def variantOf (s : String) : Float.Variant := if s == "lrint" then .lrint else .sse2

/-- `sfmodel g711 enc <law> s16|s32|f32|f32n|f64|f64n [variant]` : one line of fixed-width hex items → hex codes
    `sfmodel g711 dec <law> s16|s32|f32|f32n|f64|f64n`            : one line of hex codes → hex items
    (`n` suffix = normalisation on) -/
def g711Cmd (args : List String) : IO UInt32 := do
  let lines ← readLines
  match args with
  | dir :: lawS :: ty :: rest =>
    let v := variantOf (rest.headD "sse2")
    match lawOf lawS with
    | none => IO.eprintln "bad law"; return 2
    | some l =>
      for line in lines do
        if dir == "enc" then
          let cs : List Nat :=
            if ty == "s16" then (parseHexItems 4 line).map (fun x => l.encS16 (sext 16 x))
            else if ty == "s32" then (parseHexItems 8 line).map (fun x => l.encS32 (sext 32 x))
            else if ty == "f32" then (parseHexItems 8 line).map (l.encFloat Float.f32 v false)
            else if ty == "f32n" then (parseHexItems 8 line).map (l.encFloat Float.f32 v true)
            else if ty == "f64" then (parseHexItems 16 line).map (l.encFloat Float.f64 v false)
            else (parseHexItems 16 line).map (l.encFloat Float.f64 v true)
          IO.println (hexBytes cs)
        else
          let cs := parseHexBytes line
          let out : List String :=
            if ty == "s16" then cs.map fun c => hexFixed 4 (wrapU 16 (l.decS16 c))
            else if ty == "s32" then cs.map fun c => hexFixed 8 (wrapU 32 (l.decS32 c))
            else if ty == "f32" then cs.map fun c => hexFixed 8 (l.decFloat Float.f32 false c)
            else if ty == "f32n" then cs.map fun c => hexFixed 8 (l.decFloat Float.f32 true c)
            else if ty == "f64" then cs.map fun c => hexFixed 16 (l.decFloat Float.f64 false c)
            else cs.map fun c => hexFixed 16 (l.decFloat Float.f64 true c)
          IO.println (String.join out)
      return 0
  | _ => IO.eprintln "usage: sfmodel g711 enc|dec ulaw|alaw <ty> [variant]"; return 2

def main (args : List String) : IO UInt32 := do
  match args with
  | "g711" :: rest => g711Cmd rest
  | "codec" :: rest => codecCmd rest
  | "script" :: rest => scriptCmd rest
  | "chunks" :: _ => do ChunksCmd.run (← readLines)
  | "adpcm" :: rest => Driver.Adpcm.cmd rest
  | "c10grid" :: rest => Sf.C10Driver.gridCmd rest
  | "c10points" :: _ => Sf.C10Driver.pointsCmd
  | "c10enum" :: _ => Sf.C10Driver.enumCmd
  | "c10fcheck" :: _ => Sf.C10Driver.fcheckCmd
  | "c17grid" :: rest => C17Driver.main rest
  | "c03" :: rest => C03Driver.main rest
  | "faults" :: rest => FaultsDriver.cmd rest
  | "block" :: rest => Driver.Block.cmd rest
  | "c18" :: rest => C18Driver.main rest
  | "caf" :: rest => CafW64Driver.cafCmd rest
  | "w64" :: rest => CafW64Driver.w64Cmd rest
  | "wavex" :: rest => WavexRf64Driver.wavexCmd rest
  | "rf64" :: rest => WavexRf64Driver.rf64Cmd rest
  | "routes" :: rest => RoutesDriver.cmd rest
  | "world" :: rest => WorldDriver.cmd rest
  | "aiff" :: rest => Driver.Aiff.cmd rest
  | "small2" :: rest => Driver.Small2.cmd rest
  | "ledger" :: _ => LedgerDriver.cmd
  | "meta" :: rest => do MetaCmd.run rest (← readLines)
  | "ieee" :: rest => Driver.Ieee.cmd rest
  | "dwvw" :: rest => Driver.Dwvw.cmd rest
  | "small1" :: rest => Driver.Small1.cmd rest
  | "abs" :: rest => AbsDriver.cmd rest
  | "nms" :: rest => Driver.Nms.cmd rest
  | "sites" :: _ => SitesDriver.cmd
  | "g72x" :: rest => Driver.G72x.cmd rest
  | "small3" :: rest => Driver.Small3.cmd rest
  | "gsm" :: rest => Driver.Gsm.cmd rest
  | "geomfix" :: rest => Driver.GeomFix.cmd rest
  | "fdworld" :: _ => FdWorldDriver.cmd
  | "alac" :: rest => Driver.Alac.cmd rest
  | "abs-write" :: rest => AbsWriteDriver.cmd rest
  | "small4" :: rest => Driver.Small4.cmd rest
  | "sd2" :: rest => Driver.Sd2.cmd rest
  | "crosstype" :: rest => CrossTypeDriver.cmd rest
  | "adpcmenc" :: rest => Driver.AdpcmEnc.cmd rest
  | "abs-twin" :: rest => AbsTwinDriver.cmd rest
  | "alaccore" :: rest => Driver.AlacCore.cmd rest
  | "abs-meta" :: rest => AbsMetaDriver.cmd rest
  | "chmap" :: rest => ChmapDriver.main rest
  | "probe" :: rest => ProbeDriver.main rest
  | "vocblocks" :: rest => VocBlocksDriver.main rest
  | "label" :: rest => LabelDriver.main rest
  | "shortio" :: rest => ShortIoDriver.main rest
  | "audiodetect" :: rest => AudioDetectDriver.main rest
  | "errapi" :: rest => ErrApiDriver.main rest
  | "handleg" :: rest => HandleGDriver.cmd rest
  | "stage" :: rest => StageLoopDriver.main rest
  | "second" :: rest => RsrcSwapDriver.main rest
  | _ => IO.eprintln "usage: sfmodel <g711|...> ..."; return 2
