/-
  `sfmodel crosstype` — evaluates the cross-type agreement contract of C02 (`Sf.CrossType`, lean/SfModel/CrossType.lean) on what
  the implementation wrote and delivered.  `sfmodel crosstype twins` computes the int twins of float / double items.

  stdin (judge): any number of transcripts, each
      == <name>
      codec kind=int|g711|flt|dbl w=<n> fw=<n> noff=<n> scale=<decimal> trunc=0|1 [woff=<n>] ch=<n> [normF=0|1 normD=0|1 variant=sse2|lrint]
      twin narrow | widen | float <f32|f64>   (starts a (W) record; then its four lines)
      xs <hex items>      narrow: the caller's ints (8 digits);  widen: the ints;  float: the floats / doubles (8 / 16 digits)
      ys <hex items>      narrow: the shorts (4 digits);         widen: the shorts; float: the int twins (8 digits)
      fx <hex>            the closed file written from xs
      fy <hex>            the closed file written from ys        (the record is judged here)
      ref <ty> <hex items>                     the sequential reference stream of a caller type (4 lines)
      ragree                                   judge (R) over the four streams
      plan                                     what follows are op line / transcript line pairs of ONE read handle:
          r hN <ty> i|f <n>  /  ret= err= data=<hex>
          seek hN <off> <whence>  /  ret= err=
  stdout, one line per transcript:
      <name> ok W=<records> R=<items> S=<calls>
      <name> bad clause=<tag> <detail>{; clause=…}
  stdin (twins): lines `codec …` (sets the codec) and `<f32|f64> <hex items>` -> one line of 8-digit hex ints.
-/
import SfModel.CrossType
import Driver.Util
import Driver.Abs
open Sf

namespace CrossTypeDriver
open Sf.CrossType AbsDriver

def kindOf (s : String) : Kind :=
  if s == "g711" then .g711 else if s == "flt" then .flt else if s == "dbl" then .dbl else .int

def codecOf (toks : List String) : Codec :=
  { kind := kindOf ((kvGet toks "kind").getD "int"), w := kvNat toks "w" 16, fw := kvNat toks "fw" 16, noff := kvNat toks "noff" 16,
    scale := (kvNat toks "scale" 0x7FFF : Nat), trunc := kvBool toks "trunc" false, woff := kvNat toks "woff" 0, ch := kvNat toks "ch" 1 }

def digits (ty : Ty) : Nat := ty.bits / 4

/-- a hex item as the caller's value: ints sign-extended, floats stay bit patterns -/
def toVal (ty : Ty) (u : Nat) : Int := if ty.isFloat then (u : Int) else sext ty.bits u

def itemsOf (t : Toks) (k skip : Nat) (ty : Ty) : Array Int := (t.items k skip (digits ty)).map (toVal ty)

/-- hex text of token k (file images are compared as text) -/
def _root_.AbsDriver.Toks.text (t : Toks) (k : Nat) : String :=
  match t.rng[k]? with
  | some (a, b) => (String.fromUTF8? (t.bs.extract a b)).getD ""
  | none => ""

def firstDiffByte (a b : String) : Nat := Id.run do
  let ab := a.toUTF8
  let bb := b.toUTF8
  for i in [0:min ab.size bb.size] do
    if ab.get! i != bb.get! i then return i / 2
  return (min ab.size bb.size) / 2

def firstRel (p : Int → Int → Bool) (xs ys : Array Int) : Option Nat := Id.run do
  if xs.size != ys.size then return some (min xs.size ys.size)
  for i in [0:xs.size] do
    if !(p xs[i]! ys[i]!) then return some i
  return none

inductive TwinKind | narrow | widen | float (ty : Ty)

structure Tr where
  name : String := "-"
  cd : Codec := {}
  cv : Conv := {}
  refs : Refs := {}
  tk : TwinKind := .narrow
  xs : Array Int := #[]
  ys : Array Int := #[]
  fx : String := ""
  nW : Nat := 0
  nR : Nat := 0
  nS : Nat := 0
  inPlan : Bool := false
  pos : Option Nat := some 0          -- `none`: a call was rejected and the position is unknown until the next accepted seek
  pending : Option String := none
  fails : Array String := #[]

def Tr.fail (t : Tr) (s : String) : Tr := if t.fails.size < 8 then { t with fails := t.fails.push s } else t

def hexI (digitsN : Nat) (bits : Nat) (v : Int) : String := hexFixed digitsN (wrapU bits v)

/-- judge a (W) record: THE checker decides; the detail text says which conjunct failed -/
def Tr.judgeTwin (t : Tr) (fy : String) : Tr :=
  let tw : Twin String := { xs := t.xs.toList, ys := t.ys.toList, fileX := t.fx, fileY := fy }
  let t := { t with nW := t.nW + 1 }
  match t.tk with
  | .narrow =>
    if narrowOk t.cd tw then t else
    match firstRel (fun x y => y == narrowOf t.cd x) t.xs t.ys with
    | some i => t.fail s!"clause=W-narrow-twin at={i} (the short is not the narrowed int, or the clause does not apply: narrows={t.cd.narrows})"
    | none => if !t.cd.narrows then t.fail "clause=W-narrow-class (the codec's sample is wider than a short)" else
      t.fail s!"clause=W-narrow files-differ-at-byte={firstDiffByte t.fx fy} ints={t.xs.size}"
  | .widen =>
    if widenOk t.cd tw then t else
    match firstRel (fun x s => x == widenOf s) t.xs t.ys with
    | some i => t.fail s!"clause=W-widen-twin at={i}"
    | none => t.fail s!"clause=W-widen files-differ-at-byte={firstDiffByte t.fx fy} shorts={t.ys.size}"
  | .float ty =>
    if floatOk t.cd t.cv ty tw then t else
    match firstRel (fun x y => y == floatTwin t.cd t.cv ty x.toNat) t.xs t.ys with
    | some i => t.fail s!"clause=W-float-twin at={i} want={hexI 8 32 (floatTwin t.cd t.cv ty (t.xs.getD i 0).toNat)} got={hexI 8 32 (t.ys.getD i 0)}"
    | none => t.fail s!"clause=W-float files-differ-at-byte={firstDiffByte t.fx fy} items={t.xs.size}"

def Tr.judgeRefs (t : Tr) : Tr :=
  let r := t.refs
  let t := { t with nR := r.s16.size }
  if refsAgree t.cd t.cv r then t else
  if !(r.s32.size == r.s16.size && r.f32.size == r.s16.size && r.f64.size == r.s16.size) then
    t.fail s!"clause=R-length s16={r.s16.size} s32={r.s32.size} f32={r.f32.size} f64={r.f64.size}"
  else match firstDisagree t.cd t.cv r r.s16.size 0 with
  | some i =>
    let (a, b, c, d) := (r.s16.getD i 0, r.s32.getD i 0, r.f32.getD i 0, r.f64.getD i 0)
    t.fail s!"clause={readAgreeTag t.cd t.cv a b c d} item={i} s16={hexI 4 16 a} s32={hexI 8 32 b} f32={hexI 8 32 c} f64={hexI 16 64 d}"
  | none => t

def Tr.judgeCall (t : Tr) (op out : String) : Tr :=
  let ot := tokenize op
  let rt := tokenize out
  let ret := (rt.field "ret").map intOf |>.getD (-999)
  let k := t.nS
  let t := { t with nS := t.nS + 1 }
  match ot.str 0 with
  | "r" =>
    match tyOf (ot.str 2) with
    | none => t
    | some ty =>
      let n := (intOf (ot.str 4)).toNat * (if ot.str 3 == "f" then t.cd.ch else 1)
      let ret := if ot.str 3 == "f" then ret * t.cd.ch else ret
      let data := match rt.dataTok with | some j => itemsOf rt j 5 ty | none => #[]
      match t.pos with
      | none => t
      | some pos =>
        match stepOk t.cd.ch t.refs pos (.read ty n ret data) with
        | some p => { t with pos := some p }
        | none =>
          let ref := t.refs.get ty
          let kk := ret.toNat
          let d : String := Id.run do
            if ret < 0 || kk > n then return s!"ret={ret} of {n} items"
            if ref.size < pos * t.cd.ch + kk then return s!"delivered {kk} items at frame {pos}, the reference stream holds {ref.size - min ref.size (pos * t.cd.ch)} from there"
            for i in [0:kk] do
              if data.getD i 0 != ref.getD (pos * t.cd.ch + i) 0 then
                return s!"at={i} got={hexI (digits ty) ty.bits (data.getD i 0)} want={hexI (digits ty) ty.bits (ref.getD (pos * t.cd.ch + i) 0)}"
            return s!"ret={ret}"
          { t.fail s!"clause=S-data call={k} type={ot.str 2} frame={pos} {d}" with pos := none }
  | "seek" =>
    -- the position after a seek is what sf_seek reports (its correctness is C06's clause); a refused seek keeps the position
    if ret < 0 then t else { t with pos := some ret.toNat }
  | _ => t

def finish (t : Tr) : String :=
  if t.fails.isEmpty then s!"{t.name} ok W={t.nW} R={t.nR} S={t.nS}" else s!"{t.name} bad " ++ "; ".intercalate t.fails.toList

def payloadTok2 (line : String) : Nat :=
  if line.startsWith "xs " || line.startsWith "ys " || line.startsWith "fx " || line.startsWith "fy " then 2
  else if line.startsWith "ref " then 3 else 64

def tok2 (line : String) : Toks :=
  let bs := line.toUTF8
  { bs := bs, rng := scan bs (payloadTok2 line) 0 0 false #[] }

def judgeCmd : IO UInt32 := do
  let h ← IO.getStdin
  let out ← IO.getStdout
  let mut cur : Tr := {}
  let mut started := false
  repeat
    let line ← h.getLine
    if line.isEmpty then break
    if line.startsWith "== " then
      if started then out.putStrLn (finish cur)
      cur := { name := (line.drop 3).trimAscii.toString }
      started := true
    else if cur.inPlan then
      match cur.pending with
      | none => cur := { cur with pending := some line }
      | some op => cur := { cur with pending := none }.judgeCall op line
    else if line.startsWith "codec " then
      let toks := (line.trimAscii.toString).splitOn " "
      cur := { cur with cd := codecOf toks, cv := convOf toks }
    else if line.startsWith "twin " then
      let toks := (line.trimAscii.toString).splitOn " "
      let tk : TwinKind := match toks with
        | [_, "widen"] => .widen
        | [_, "float", ty] => .float ((tyOf ty).getD .f32)
        | _ => .narrow
      cur := { cur with tk := tk }
    else if line.startsWith "xs " then
      let t := tok2 line
      let ty : Ty := match cur.tk with | .float ty => ty | _ => .s32
      cur := { cur with xs := itemsOf t 1 0 ty }
    else if line.startsWith "ys " then
      let t := tok2 line
      let ty : Ty := match cur.tk with | .float _ => .s32 | _ => .s16
      cur := { cur with ys := itemsOf t 1 0 ty }
    else if line.startsWith "fx " then
      cur := { cur with fx := (tok2 line).text 1 }
    else if line.startsWith "fy " then
      cur := cur.judgeTwin ((tok2 line).text 1)
      cur := { cur with xs := #[], ys := #[], fx := "" }
    else if line.startsWith "ref " then
      let t := tok2 line
      match tyOf (t.str 1) with
      | some .s16 => cur := { cur with refs := { cur.refs with s16 := itemsOf t 2 0 .s16 } }
      | some .s32 => cur := { cur with refs := { cur.refs with s32 := itemsOf t 2 0 .s32 } }
      | some .f32 => cur := { cur with refs := { cur.refs with f32 := itemsOf t 2 0 .f32 } }
      | some .f64 => cur := { cur with refs := { cur.refs with f64 := itemsOf t 2 0 .f64 } }
      | none => pure ()
    else if line.startsWith "ragree" then
      cur := cur.judgeRefs
    else if line.startsWith "plan" then
      cur := { cur with inPlan := true }
  if started then out.putStrLn (finish cur)
  return 0

def twinsCmd : IO UInt32 := do
  let h ← IO.getStdin
  let out ← IO.getStdout
  let mut cd : Codec := {}
  let mut cv : Conv := {}
  repeat
    let line ← h.getLine
    if line.isEmpty then break
    if line.startsWith "codec " then
      let toks := (line.trimAscii.toString).splitOn " "
      cd := codecOf toks
      cv := convOf toks
    else
      let t := tok2 ("ref " ++ line)
      match tyOf (t.str 1) with
      | some ty =>
        let xs := t.items 2 0 (digits ty)
        out.putStrLn (String.join (xs.toList.map fun x => hexFixed 8 (wrapU 32 (floatTwin cd cv ty x))))
      | none => out.putStrLn ""
  return 0

def cmd (args : List String) : IO UInt32 :=
  match args with
  | "twins" :: _ => twinsCmd
  | _ => judgeCmd

end CrossTypeDriver
