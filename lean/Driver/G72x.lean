/-
  `sfmodel g72x …` — runs the G.721 / G.723 model (SfModel/G72x.lean, G72xFile.lean).

      sfmodel g72x enc <bits>      one line of 4-digit hex shorts per stdin line   -> hex bytes of the closed file's data region
                                   (one write call of shorts, then close: whole blocks, the last one zero padded)
      sfmodel g72x dec <bits>      one line of hex data bytes per stdin line       -> every decoded short (4-digit hex), whole blocks
      sfmodel g72x codes <bits> enc|dec   one line of 4-digit hex items per line   -> the codes / samples of the bare per-sample coder
                                   started from `private_init_state` (no packing)
      sfmodel g72x tables          the four rates' tables, one `name v v v …` line each (decimal)
      sfmodel g72x script          scripts:

      == <name>
      codec g72x bits=<2|3|4|5> [ch=<n>] [normF=0|1 normD=0|1 variant=sse2|lrint]
      openw                                 -> open=ok | open=fail   (g72x_init refuses every channel count but 1; so does `load`)
      w <ty> <i|f> <count> <hex items>      -> ret=<n> err=0
      close                                 -> data=<hex>     the bytes g72x_close leaves in the data region
      load <hex>                            -> frames=<n>     read handle over these bytes (data offset .. end of file)
      r <ty> <i|f> <count>                  -> ret=<n> err=0 data=<hex of all count cells of the caller's buffer>
      seek <offset> <whence>                -> ret=-1 err=E   (the handle is not seekable)

  bits = 4: G.721 32 kbit/s (AU and WAV), 3: G.723 24 kbit/s, 5: G.723 40 kbit/s (AU); 2: G.723 16 kbit/s (in the codec
  directory, reachable through no libsndfile format).
-/
import SfModel.G72xFile
import Driver.Util
open Sf Sf.G72x

namespace Driver.G72x

structure DS where
  rate : Rate := g721
  conv : Conv := {}
  ch   : Nat := 1
  ws   : Block.WState St := (writer g721).init St.init
  rh   : Option RHandle := none
  sticky : Bool := false

def rateOf (bits : Nat) : Rate := (rateOfBits bits).getD g721

def runLine (ds : DS) (line : String) : DS × Option String :=
  let toks := (line.splitOn " ").filter (· ≠ "")
  match toks with
  | [] => (ds, none)
  | "codec" :: _ :: rest =>
    let r := rateOf (kvNat rest "bits" 4)
    ({ rate := r, conv := convOf rest, ch := kvNat rest "ch" 1, ws := (writer r).init St.init }, none)
  | ["openw"] => (ds, some (if initOk ds.ch then "open=ok" else "open=fail"))
  | ["w", tyS, _, nS, hex] =>
    match tyOf tyS with
    | none => (ds, some "bad-op")
    | some ty =>
      let n := nS.toNat!
      let vs := (parseItems ty hex).take n
      ({ ds with ws := writeCall ds.rate ds.conv ty ds.ws vs }, some s!"ret={n} err=0")
  | ["w", _, _, _] => (ds, some "ret=0 err=0")
  | ["close"] =>
    let bytes := ((writer ds.rate).close true ds.ws).bytes
    ({ ds with ws := (writer ds.rate).init St.init }, some ("data=" ++ hexBytes bytes))
  | "load" :: rest =>
    if !initOk ds.ch then (ds, some "open=fail") else
    let h := RHandle.open ds.rate (parseHexBytes (rest.headD ""))
    ({ ds with rh := some h, sticky := false }, some s!"frames={h.frames}")
  | ["r", tyS, _, nS] =>
    match tyOf tyS, ds.rh with
    | some ty, some h =>
      let n := nS.toNat!
      let err := if n == 0 && ds.sticky then "E" else "0"
      let ds := if n == 0 then ds else { ds with sticky := false }
      let (h', vs, ret) := h.read ty n
      ({ ds with rh := some h' }, some s!"ret={ret} err={err} data={showItems ty (vs.map (toCaller ds.conv ty))}")
    | _, _ => (ds, some "bad-op")
  | ["seek", _, _] =>
    match ds.rh with
    | some _ => ({ ds with sticky := true }, some "ret=-1 err=E")
    | none => (ds, some "bad-op")
  | _ => (ds, some "bad-op")

partial def loop (h : IO.FS.Stream) (ds : DS) : IO Unit := do
  let line ← h.getLine
  if line.isEmpty then return
  let l := line.trimAscii.toString
  if l.startsWith "== " then
    IO.println l
    loop h {}
  else
    let (ds', out) := runLine ds l
    match out with
    | some s => IO.println s
    | none => pure ()
    loop h ds'

def showTab (name : String) (t : List Int) : String :=
  name ++ String.join (t.map fun v => s!" {v}")

def cmd (args : List String) : IO UInt32 := do
  match args with
  | ["script"] => loop (← IO.getStdin) {}; return 0
  | ["enc", b] =>
    let r := rateOf b.toNat!
    for line in (← readLines) do
      IO.println (hexBytes (closedBytes r {} [(.s16, (parseHexItems 4 line).map (sext 16))]))
    return 0
  | ["dec", b] =>
    let r := rateOf b.toNat!
    for line in (← readLines) do
      IO.println (String.join ((decodeAll r (parseHexBytes line)).flatten.map fun v => hexFixed 4 (wrapU 16 v)))
    return 0
  | ["codes", b, dir] =>
    let r := rateOf b.toNat!
    for line in (← readLines) do
      let xs := (parseHexItems 4 line).map (sext 16)
      if dir == "enc" then
        IO.println (String.join ((encodeList r St.init xs).2.map fun v => hexFixed 4 v))
      else
        IO.println (String.join ((decodeList r St.init (xs.map (·.toNat))).2.map fun v => hexFixed 4 (wrapU 16 v)))
    return 0
  | ["tables"] =>
    for (n, r) in [("g721", g721), ("g723_16", g723_16), ("g723_24", g723_24), ("g723_40", g723_40)] do
      IO.println (showTab (n ++ ".qtab") r.qtab)
      IO.println (showTab (n ++ ".dqlntab") r.dqlntab)
      IO.println (showTab (n ++ ".witab") r.witab)
      IO.println (showTab (n ++ ".fitab") r.fitab)
    IO.println (showTab "power2" power2)
    return 0
  | _ => IO.eprintln "usage: sfmodel g72x enc|dec <bits> | codes <bits> enc|dec | tables | script"; return 2

end Driver.G72x
