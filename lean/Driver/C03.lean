/-
  sfmodel c03 … — runs the C03 model definitions (the ones the theorems in SfProps/C03.lean are about).

    c03 post   lines "ch sr frames fmt sections"                      → "ok" | "bad"      (validateSfinfo)
    c03 gate   lines "mode fileoffset filelength perr ch sr frames fmt sections seekable datalength dataoffset blockwidth bytewidth"
                                                                      → "ok ch sr frames fmt sections seekable" | "error e"
    c03 read   lines "i|f rc frames ch n codecRet"                    → "ret=… asked=… zero=off:len,… rc=… err=…"
    c03 seek   lines "rc frames offset whence codecRet"               → "ret=… asked=… rc=… err=…"
    c03 hdr    lines "<filelen> <pipe> item item | item …"            → header-cache events against a file of that length
               items: e  f<n>  b<n>  G<n>  p<n>  j<n>  !  ; "|" starts the next psf_binheader_readf call
               S<n> / C<n>: the parser itself calls psf_fseek (n, SEEK_SET / SEEK_CUR) (file position only)
               ?: if the current call was cut short by a refused allocation, print STOP and end the scenario
                  (the parser then sees zeros and takes a path the scenario does not describe)
-/
import SfModel
import SfModel.Generated.C03Consts
open Sf

namespace C03Driver

def ints (line : String) : List Int :=
  (line.splitOn " ").filter (· ≠ "") |>.map (fun t => t.toInt?.getD 0)

def postLine (line : String) : String :=
  match ints line with
  | [ch, sr, frames, fmt, sections] =>
    if OpenGate.validateSfinfo ⟨frames, sr, ch, fmt, sections, 0⟩ then "ok" else "bad"
  | _ => "bad-input"

def gateLine (line : String) : String :=
  match ints line with
  | [mode, fo, fl, perr, ch, sr, frames, fmt, sections, seekable, dl, doff, bw, byw] =>
    let c : OpenGate.Ctx := { mode := mode, fileoffset := fo, filelength := fl }
    let p : OpenGate.Parsed := { error := perr, sf := ⟨frames, sr, ch, fmt, sections, seekable⟩, datalength := dl, dataoffset := doff, blockwidth := bw, bytewidth := byw }
    match OpenGate.openFile Generated.C03.openErrs c p with
    | .ok i => s!"ok {i.channels} {i.samplerate} {i.frames} {i.format} {i.sections} {i.seekable}"
    | .error e => s!"error {e}"
  | _ => "bad-input"

def readLine (line : String) : String :=
  let toks := (line.splitOn " ").filter (· ≠ "")
  match toks with
  | k :: rest =>
    match rest.map (fun t => t.toInt?.getD 0) with
    | [rc, frames, ch, n, codecRet] =>
      let h : ReadWrap.H := { rc := rc, frames := frames, ch := ch }
      let out := ReadWrap.readWrap Generated.C03.rwErrs h (if k == "f" then .frames else .items) n 0 codecRet
      let z := String.intercalate "," (out.zeroed.map fun (a, b) => s!"{a}:{b}")
      let asked := match out.asked with | some a => toString a | none => "none"
      s!"ret={out.ret} asked={asked} zero={z} rc={out.h.rc} err={out.h.err}"
    | _ => "bad-input"
  | _ => "bad-input"

def seekLine (line : String) : String :=
  match ints line with
  | [rc, frames, offset, whence, codecRet] =>
    let h : ReadWrap.H := { rc := rc, frames := frames, ch := 1 }
    let out := ReadWrap.sfSeekRead Generated.C03.rwErrs h offset whence codecRet
    let asked := match out.asked with | some a => toString a | none => "none"
    s!"ret={out.ret} asked={asked} rc={out.h.rc} err={out.h.err}"
  | _ => "bad-input"

open HeaderCache in
def parseItem (t : String) : Option Item :=
  let num (s : String) : Int := (s.drop 1).toString.toInt?.getD 0
  if t == "e" then some .endian
  else if t == "!" then some .bang
  else if t.startsWith "f" then some (.fixed (num t).toNat)
  else if t.startsWith "b" then some (.b (num t))
  else if t.startsWith "G" then some (.G (num t))
  else if t.startsWith "p" then some (.p (num t))
  else if t.startsWith "j" then some (.j (num t))
  else none

open HeaderCache in
/-- the memory-backed I/O layer (harness/vio.c): file of `len` bytes, position `pos` -/
def fileOracle (len pos : Int) : Oracle :=
  { alloc := fun _ => true, io := fun k => (len - pos - k).toNat, nl := fun _ => false }

open HeaderCache in
def applyIo (len : Int) (pos : Int) : List Ev → Int
  | [] => pos
  | .ioRead _ got :: r => applyIo len (pos + got) r
  | .ioSeek off w :: r =>
    let np := if w = 0 then off else pos + off
    applyIo len (if np < 0 then pos else np) r
  | .ioSkip n :: r => applyIo len (pos + (if len - pos < n then (if len - pos < 0 then 0 else len - pos) else n)) r
  | _ :: r => applyIo len pos r

open HeaderCache in
def evStr : Ev → Option String
  | .denied n => some s!"denied:{n}"
  | .short => some "short"
  | .ioSeek off w => some s!"seek:{off}:{w}"
  | .ioSkip n => some s!"skip:{n}"
  | _ => none

open HeaderCache in
def hdrLine (line : String) : String := Id.run do
  let toks := (line.splitOn " ").filter (· ≠ "")
  match toks with
  | lenS :: pipeS :: items =>
    let len : Int := lenS.toInt?.getD 0
    let pipe := pipeS == "1"
    let mut r : Rf := { st := St.init }
    let mut pos : Int := 0
    let mut out : Array String := #[]
    let mut bad := false
    let mut halt := false
    for t in items do
      if halt then
        pure ()
      else if t == "?" then
        if r.stopped then
          out := out.push "STOP"
          halt := true
      else if t.startsWith "S" then
        pos := (t.drop 1).toString.toInt?.getD 0
      else if t.startsWith "C" then
        pos := pos + (t.drop 1).toString.toInt?.getD 0
      else if t == "|" then
        out := out.push s!"ret:{r.byteCount}"
        r := { st := r.st }
      else
        match parseItem t with
        | none => bad := true
        | some it =>
          let (r', ev) := readfItem pipe r it (fileOracle len pos)
          if !(decide (∀ e ∈ ev, e.inBounds r'.st.len)) || !(decide (Inv r'.st)) then
            out := out.push "MODEL-OUT-OF-BOUNDS"
          pos := applyIo len pos ev
          r := r'
          for e in ev do
            match evStr e with
            | some s => out := out.push s
            | none => pure ()
    out := out.push s!"ret:{r.byteCount}"
    out := out.push s!"st={r.st.indx},{r.st.end_},{r.st.len} pos={pos}"
    if bad then "bad-input" else String.intercalate " " out.toList
  | _ => "bad-input"

def readLines : IO (Array String) := do
  let h ← IO.getStdin
  let mut out := #[]
  repeat
    let line ← h.getLine
    if line.isEmpty then break
    out := out.push (line.trimAscii.toString)
  return out

def main (args : List String) : IO UInt32 := do
  let lines ← readLines
  let f : Option (String → String) :=
    match args with
    | ["post"] => some postLine
    | ["gate"] => some gateLine
    | ["read"] => some readLine
    | ["seek"] => some seekLine
    | ["hdr"] => some hdrLine
    | _ => none
  match f with
  | none => IO.eprintln "usage: sfmodel c03 post|gate|read|seek|hdr"; return 2
  | some f =>
    let out ← IO.getStdout
    for l in lines do
      out.putStrLn (f l)
    return 0

end C03Driver
