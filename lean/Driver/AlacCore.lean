/-
  `sfmodel alaccore …` — the ALAC codec core (SfModel/AlacBits.lean, AlacCore.lean, AlacDec.lean; namespace Sf.AlacCore).

      sfmodel alaccore dec          decoder sessions (one `alac_decode` per `pkt` line; the byte buffer and the sample buffer of
                                    src/alac.c persist from packet to packet, as in the library):
          == <name>
          cfg bits=<kuki bit depth> ch=<n> [pb= mb= kb= maxrun=] [rule=old3|old4]
          pkt <hex packet> [req=<numSamples asked, default 4096>] [q]
               -> st=<status code> n=<*outNumSamples> pos=<bit position at the exit> data=<hex of the n frames, 8 digits an item> (q: fnv:<hash>)
      sfmodel alaccore enc-escape   one packet per stdin line, every element written uncompressed:
          bits=<n> ch=<n> [rule=old1|old2 mixres=<k>] <hex of the interleaved caller ints, 8 digits an item>  -> <hex packet>
      sfmodel alaccore enc          encoder sessions (`alac_encode` with its search; the coefficient state persists from packet to packet):
          == <name>
          cfg bits=<n> ch=<n>
          frames <hex of the interleaved caller ints of one packet, 8 digits an item>  -> <hex packet>
      sfmodel alaccore bits         `<b0> <b1> <b2> <bitIndex> <n>` -> `<BitBufferRead window> <bit-list read>`
-/
import SfModel.AlacDec
import SfModel.AlacEnc
import Driver.Util
open Sf Sf.AlacCore

namespace Driver.AlacCore

def rulesOf (toks : List String) : Rules :=
  match kvGet toks "rule" with
  | some "old1" => { encPair20Width := 16 }
  | some "old2" => { encPair24Stale := true }
  | some "old3" => { decPairVShift := false }
  | some "old4" => { decMono32Shl8 := true }
  | _ => {}

def fnv (xs : List Nat) : Nat := xs.foldl (fun h x => ((h ^^^ (x % 4294967296)) * 1099511628211) % 18446744073709551616) 14695981039346656037

structure DS where
  cfg   : Config := { bitDepth := 16, numChannels := 1 }
  ru    : Rules := {}
  stale : List Byte := []            -- plac->byte_buffer
  buf   : List (List Int) := []      -- plac->buffer, per channel

def runLine (ds : DS) (line : String) : DS × Option String :=
  let toks := (line.splitOn " ").filter (· ≠ "")
  match toks with
  | [] => (ds, none)
  | "cfg" :: rest =>
    ({ cfg := { bitDepth := kvNat rest "bits" 16, numChannels := kvNat rest "ch" 1, pb := kvNat rest "pb" 40, mb := kvNat rest "mb" 10,
                kb := kvNat rest "kb" 14, maxRun := kvNat rest "maxrun" 255 }, ru := rulesOf rest }, none)
  | "pkt" :: hex :: rest =>
    let p := parseHexBytes hex
    let image := p ++ ds.stale.drop p.length
    let res := decodeR ds.ru ds.cfg image p.length (kvNat rest "req" 4096)
    let buf := applyOut ds.buf ds.cfg.numChannels res.written
    let items := ((transpose res.outNum buf).flatten).map (wrapU 32)
    let data := if rest.contains "q" then s!"fnv:{hexFixed 16 (fnv items)}" else String.join (items.map (hexFixed 8))
    ({ ds with stale := image, buf := buf }, some s!"st={res.status.code} n={res.outNum} pos={res.pos} data={data}")
  | _ => (ds, some "bad-op")

partial def loop (h : IO.FS.Stream) (ds : DS) : IO Unit := do
  let line ← h.getLine
  if line.isEmpty then return
  let l := line.trimAscii.toString
  if l.startsWith "== " then
    IO.println l
    loop h {}
  else
    let (ds', out) := runLine ds l
    match out with
    | some s => IO.println s
    | none => pure ()
    loop h ds'

/-- mix24 with bytesShifted = 1, mixbits = 2 (what EncodeStereo leaves in the mix buffers before it falls back to the escape element) -/
def staleMix24 (mixres : Int) (ls rs : List Int) : List Int × List Int :=
  let f (l r : Int) : Int × Int :=
    let l := asr (asr l 8) 8
    let r := asr (asr r 8) 8
    if mixres ≠ 0 then (asr (w32 (mixres * l + (4 - mixres) * r)) 2, w32 (l - r)) else (l, r)
  ((List.zipWith (fun l r => (f l r).1) ls rs), (List.zipWith (fun l r => (f l r).2) ls rs))

/-- (channel index, is a pair) of every element of the layout -/
def layoutChan (numChannels : Nat) : List (Nat × Bool) :=
  ((layout numChannels).foldl (fun (acc : List (Nat × Bool) × Nat) t => (acc.1 ++ [(acc.2, t == ID_CPE)], acc.2 + (if t = ID_CPE then 2 else 1))) ([], 0)).1

partial def encLoop (h : IO.FS.Stream) (cfg : Config) (st : EncState) : IO Unit := do
  let line ← h.getLine
  if line.isEmpty then return
  let l := line.trimAscii.toString
  let toks := (l.splitOn " ").filter (· ≠ "")
  match toks with
  | "==" :: _ => IO.println l; encLoop h cfg st
  | "cfg" :: rest =>
    let cfg : Config := { bitDepth := kvNat rest "bits" 16, numChannels := kvNat rest "ch" 1 }
    encLoop h cfg (EncState.init cfg.numChannels)
  | ["frames", hex] =>
    let items := (parseHexItems 8 hex).map (sext 32)
    let frames := if cfg.numChannels = 0 then [] else groups cfg.numChannels items
    let (pk, st1) := encode cfg st frames
    IO.println (hexBytes pk)
    encLoop h cfg st1
  | [] => encLoop h cfg st
  | _ => IO.println "bad-op"; encLoop h cfg st

def cmd (args : List String) : IO UInt32 := do
  match args with
  | ["dec"] => loop (← IO.getStdin) {}; return 0
  | ["enc"] => encLoop (← IO.getStdin) { bitDepth := 16, numChannels := 1 } (EncState.init 1); return 0
  | ["enc-escape"] =>
    for line in (← readLines) do
      let toks := (line.splitOn " ").filter (· ≠ "")
      let cfg : Config := { bitDepth := kvNat toks "bits" 16, numChannels := kvNat toks "ch" 1 }
      let items := (parseHexItems 8 (toks.getLastD "")).map (sext 32)
      let frames := if cfg.numChannels = 0 then [] else groups cfg.numChannels items
      let ru := rulesOf toks
      -- the stale mix buffers of the 24-bit rule before c268302: the k-th pair's own mix24 with the mixres the search picked (`mixres=a,b,…`)
      let mr := (((kvGet toks "mixres").getD "").splitOn ",").map (·.toNat?.getD 0)
      let pairAt := (List.range cfg.numChannels).filter fun c => (layoutChan cfg.numChannels).contains (c, true)
      let stale := fun k => let c := pairAt.getD k 0; staleMix24 (mr.getD k 0) (chanOf frames c) (chanOf frames (c + 1))
      IO.println (hexBytes (encodeEscapeWith ru cfg frames stale))
    return 0
  | ["bits"] =>
    for line in (← readLines) do
      match ((line.splitOn " ").filter (· ≠ "")).map (·.toNat!) with
      | [b0, b1, b2, bi, n] =>
        let r : Rd := { rest := (unpack [b0, b1, b2]).drop bi }
        IO.println s!"{bbWindow b0 b1 b2 bi n} {(r.read n).1}"
      | _ => IO.println "bad-line"
    return 0
  | _ => IO.eprintln "usage: sfmodel alaccore dec | enc-escape | bits"; return 2

end Driver.AlacCore
