/-
  sfmodel fdworld — runs Sf.FdWorld (the definitions the theorems of SfProps/C19Fd are about) on descriptor-world scripts.

  stdin, one operation per line (scripts separated by `== <name>`):
    begin <n,n,…>                       the numbers already taken when the script starts (stdin, stdout, …)
    sentinel k<N> | unsent k<N>
    open a<N> route=path|fd1|fd0 sd2=<0|1> rsrc=<0|1> alacw=<0|1> fails=<0|1> [rule=keeps]
    io a<N> | close a<N>
  stdout: per operation `fds=<n>:<who>,…` for every open number that was not taken at `begin`; <who> = kN | aN | aN.r | tmp
-/
import SfModel.FdWorld
import Driver.Util
open Sf.FdWorld

namespace FdWorldDriver

def who : Ident → String
  | .sentinel k => s!"k{k}"
  | .file a => s!"a{a}"
  | .rsrc a => s!"a{a}.r"
  | .tmp _ => "tmp"

def showTab (w : World) : String :=
  let es := w.tab.entries.filter (fun p => match p.2 with | .sentinel k => k < 1000 | _ => true)
  "fds=" ++ ",".intercalate (es.map fun p => s!"{p.1}:{who p.2}")

def slot (s : String) : Nat := (s.drop 1).toString.toNat?.getD 0

def cmd : IO UInt32 := do
  let lines ← readLines
  let mut w : World := start []
  let mut rule : Rule := .resets
  for line in lines do
    if line.startsWith "== " then
      w := start []
      rule := .resets
      IO.println line
    else
      let toks := (line.splitOn " ").filter (· ≠ "")
      match toks with
      | [] => pure ()
      | "begin" :: rest =>
        let taken := ((rest.headD "").splitOn ",").filterMap (·.toNat?)
        w := start taken
        IO.println (showTab w)
      | ["sentinel", k] => w := step rule w (.sentinel (slot k)); IO.println (showTab w)
      | ["unsent", k] => w := step rule w (.unsent (slot k)); IO.println (showTab w)
      | "open" :: a :: rest =>
        let g := fun k d => (kvGet rest k).getD d
        if g "rule" "resets" == "keeps" then rule := .keeps
        let c : OpenCfg := { route := match g "route" "path" with | "fd1" => .fd1 | "fd0" => .fd0 | _ => .path
                             sd2 := g "sd2" "0" == "1", rsrcFound := g "rsrc" "1" == "1", alacW := g "alacw" "0" == "1", fails := g "fails" "0" == "1" }
        w := step rule w (.open (slot a) c)
        IO.println (showTab w)
      | ["io", a] => w := step rule w (.io (slot a)); IO.println (showTab w)
      | ["close", a] => w := step rule w (.close (slot a)); IO.println (showTab w)
      | _ => IO.println "bad-op"
  return 0

end FdWorldDriver
