/-
  sfmodel wavex|rf64 hdr|session — runs SfModel.Wavex / SfModel.Rf64 for the correspondence check (vlib/wavexrf64.py).
  hdr     : wavex `<codec-hex> <endian> <ch> <sr> <frames> <peaks>`   rf64 `<codec-hex> <ch> <sr> <downgrade 0|1> <frames>`
            -> `<header hex> <tailer hex | ->`
  session : `<cfg as above, frames = the caller's stale SF_INFO.frames> <op> …`, ops w:<frames>:<data hex>:<peaks> | u | a1 | a0
            -> the store (hex) after open (and the downgrade command), after every op, and after close
-/
import SfModel.Wavex
import SfModel.Rf64
import Driver.CafW64
open Sf

namespace WavexRf64Driver
open CafW64Driver (hexOr hexArg natArg intArg words)

def pks (s : String) : List Wavex.Peak := (CafW64Driver.parsePeaks s).map fun p => { value := p.value, position := p.position }

def wavexOp (tok : String) : Option Wavex.Op :=
  match tok.splitOn ":" with
  | ["u"] => some .update
  | ["a1"] => some (.auto true)
  | ["a0"] => some (.auto false)
  | "w" :: k :: d :: rest => some (.write (natArg k) (parseHexBytes d) (pks (":".intercalate rest)))
  | _ => none

def rf64Op (tok : String) : Option Rf64.Op :=
  match tok.splitOn ":" with
  | ["u"] => some .update
  | ["a1"] => some (.auto true)
  | ["a0"] => some (.auto false)
  | "w" :: k :: d :: _ => some (.write (natArg k) (parseHexBytes d))
  | _ => none

def wavexCmd (args : List String) : IO UInt32 := do
  let lines ← readLines
  match args with
  | ["hdr"] =>
    for line in lines do
      match words line with
      | [codec, en, ch, sr, fr, pk] =>
        let c : Wavex.Cfg := { codec := hexArg codec, endian := natArg en, ch := natArg ch, sr := natArg sr }
        IO.println s!"{hexBytes (Wavex.hdr c (natArg fr) (pks pk))} {hexOr (Wavex.tail c (natArg fr))}"
      | _ => IO.println "bad-line"
    return 0
  | ["session"] =>
    for line in lines do
      match words line with
      | codec :: en :: ch :: sr :: stale :: ops =>
        let c : Wavex.Cfg := { codec := hexArg codec, endian := natArg en, ch := natArg ch, sr := natArg sr }
        let mut s := Wavex.openW c (intArg stale)
        let mut out := [hexBytes s.bytes]
        for t in ops do
          match wavexOp t with
          | some o => s := Wavex.step c s o; out := hexBytes s.bytes :: out
          | none => out := "bad-op" :: out
        s := Wavex.close c s
        out := hexBytes s.bytes :: out
        IO.println (" ".intercalate out.reverse)
      | _ => IO.println "bad-line"
    return 0
  | _ => IO.eprintln "usage: sfmodel wavex hdr|session"; return 2

def rf64Cmd (args : List String) : IO UInt32 := do
  let lines ← readLines
  match args with
  | ["hdr"] =>
    for line in lines do
      match words line with
      | [codec, ch, sr, dg, fr] =>
        let c : Rf64.Cfg := { codec := hexArg codec, ch := natArg ch, sr := natArg sr, downgrade := dg == "1" }
        IO.println s!"{hexBytes (Rf64.hdr c (natArg fr))} {hexOr (Rf64.tail c (natArg fr))}"
      | _ => IO.println "bad-line"
    return 0
  | ["session"] =>
    for line in lines do
      match words line with
      | codec :: ch :: sr :: dg :: stale :: ops =>
        let c : Rf64.Cfg := { codec := hexArg codec, ch := natArg ch, sr := natArg sr, downgrade := dg == "1" }
        let mut s := Rf64.openW c (intArg stale)
        let mut out := [hexBytes s.bytes]
        for t in ops do
          match rf64Op t with
          | some o => s := Rf64.step c s o; out := hexBytes s.bytes :: out
          | none => out := "bad-op" :: out
        s := Rf64.close c s
        out := hexBytes s.bytes :: out
        IO.println (" ".intercalate out.reverse)
      | _ => IO.println "bad-line"
    return 0
  | _ => IO.eprintln "usage: sfmodel rf64 hdr|session"; return 2

end WavexRf64Driver
