import SfModel
open Sf

def readLines : IO (Array String) := do
  let h ← IO.getStdin
  let mut out := #[]
  repeat
    let line ← h.getLine
    if line.isEmpty then break
    out := out.push (line.trimAscii.toString)
  return out

/-- look up `key=value` among tokens -/
def kvGet (toks : List String) (key : String) : Option String :=
  toks.findSome? fun t =>
    match t.splitOn "=" with
    | [k, v] => if k == key then some v else none
    | _ => none

def kvNat (toks : List String) (key : String) (dflt : Nat) : Nat :=
  match kvGet toks key with
  | some v => v.toNat?.getD dflt
  | none => dflt

def kvBool (toks : List String) (key : String) (dflt : Bool) : Bool :=
  match kvGet toks key with
  | some v => v == "1"
  | none => dflt

def tyOf (s : String) : Option Ty :=
  if s == "s16" then some .s16 else if s == "s32" then some .s32
  else if s == "f32" then some .f32 else if s == "f64" then some .f64 else none

def Sf.Ty.digits (t : Ty) : Nat := t.bits / 4

/-- parse caller items: ints are sign-extended, floats stay bit patterns -/
def parseItems (ty : Ty) (s : String) : List Int :=
  (parseHexItems ty.digits s).map fun (u : Nat) => if ty.isFloat then Int.ofNat u else sext ty.bits u

def showItems (ty : Ty) (vs : List Int) : String :=
  String.join (vs.map fun v => hexFixed ty.digits (wrapU ty.bits v))

def encOf (s : String) : Option Enc :=
  match s with
  | "pcm8s" => some (.pcm ⟨8, false, false⟩)
  | "pcm8u" => some (.pcm ⟨8, true, false⟩)
  | "pcm16le" => some (.pcm ⟨16, false, false⟩)
  | "pcm16be" => some (.pcm ⟨16, false, true⟩)
  | "pcm24le" => some (.pcm ⟨24, false, false⟩)
  | "pcm24be" => some (.pcm ⟨24, false, true⟩)
  | "pcm32le" => some (.pcm ⟨32, false, false⟩)
  | "pcm32be" => some (.pcm ⟨32, false, true⟩)
  | "f32le" => some (.flt false)
  | "f32be" => some (.flt true)
  | "f64le" => some (.dbl false)
  | "f64be" => some (.dbl true)
  | "ulaw" => some .ulaw
  | "alaw" => some .alaw
  | _ => none

def convOf (toks : List String) : Conv :=
  { normF := kvBool toks "normF" true, normD := kvBool toks "normD" true, clip := kvBool toks "clip" false,
    scaleIF := kvBool toks "scaleIF" false, fiMult := kvBool toks "fiMult" false,
    floatMax := match kvGet toks "floatMax" with | some h => parseHexNat h.toList | none => 0,
    variant := if kvGet toks "variant" == some "lrint" then .lrint else .sse2 }
