/-
  `sfmodel sd2` — the SD2 resource-fork model (lean/SfModel/Sd2.lean), one request per stdin line, one answer each:

    rsrc size=<1..4> sr=<n> ch=<n> name=<hex of psf->file.name>     -> <hex of the fork> | unmodelled (name too long)
    parse <hex of a fork | ->      -> ok size=<n> rate=<n> ch=<n> | err <tag> | fuel     followed by
                                      ` reads=<number of byte reads> max=<largest offset read | -1> len=<n> inb=<0|1>`
    open dlen=<length of the data file> fork=<hex | ->   -> ok ch= sr= frames= fmt= | err | unmodelled   (Sf.Sd2.reopen)
    detect <hex of the first bytes of the data file>     -> fork | other | unmodelled      (Sf.Sd2.reachesFork)
    file data=<hex | -> fork=<hex | -> [old=1]          -> ok … | err | unmodelled   (Sf.Sd2.reopenFile; old=1: the rule before KF-C04-SD2-SHORT-DATA)
    strtol <hex>                                         -> the int `(int) strtol (s, NULL, 10)`
-/
import SfModel.Basic
import SfModel.Small2
import SfModel.Sd2
import Driver.Util
import Driver.Small2
open Sf (hexBytes hexFixed parseHexBytes parseHexNat Byte)
open Sf.Sd2
open Driver.Small2 (showRes)

namespace Driver.Sd2

def tagOf : E → String
  | .badDataOffset => "bad-data-offset"
  | .badMapOffset => "bad-map-offset"
  | .badDataLength => "bad-data-length"
  | .badMapLength => "bad-map-length"
  | .badRsrc => "bad-rsrc"
  | .badSampleSize => "bad-sample-size"

def showP : PRes → String
  | .ok p => s!"ok size={p.size} rate={p.rate} ch={p.ch}"
  | .err e => s!"err {tagOf e}"
  | .fuel => "fuel"

def bytesOf (h : String) : List Byte := if h == "-" then [] else parseHexBytes h

def parseLine (h : String) : String :=
  let bs := (bytesOf h).toArray
  let r := (parseFork bs.size).run (fun i => bs.getD i 0)
  let mx : Int := r.2.foldl (fun (m : Int) (i : Nat) => if (i : Int) > m then (i : Int) else m) (-1)
  let inb := r.2.all (fun i => i < bs.size)
  s!"{showP r.1} reads={r.2.length} max={mx} len={bs.size} inb={if inb then 1 else 0}"

def answer (line : String) : String :=
  let toks := (line.splitOn " ").filter (· ≠ "")
  match toks with
  | "rsrc" :: rest =>
    let c : Cfg := { size := kvNat rest "size" 2, rate := kvNat rest "sr" 1, ch := kvNat rest "ch" 1,
                     name := bytesOf ((kvGet rest "name").getD "-") }
    if c.name.length ≤ 200 then hexBytes (rsrc c) else "unmodelled"
  | "parse" :: h :: _ => parseLine h
  | "open" :: rest =>
    showRes (reopen (bytesOf ((kvGet rest "fork").getD "-")) (kvNat rest "dlen" 0))
  | "file" :: rest =>
    let data := bytesOf ((kvGet rest "data").getD "-")
    let fork := bytesOf ((kvGet rest "fork").getD "-")
    showRes (if kvNat rest "old" 0 = 1 then reopenFileOld data fork else reopenFile data fork)
  | "detect" :: h :: _ =>
    match reachesFork (bytesOf h) with
    | some true => "fork"
    | some false => "other"
    | none => "unmodelled"
  | "strtol" :: h :: _ => toString (strtol (bytesOf h))
  | _ => "bad-request"

partial def loop (h : IO.FS.Stream) : IO Unit := do
  let line ← h.getLine
  if line.isEmpty then return
  IO.println (answer line.trimAscii.toString)
  loop h

def cmd (_args : List String) : IO UInt32 := do
  loop (← IO.getStdin)
  return 0

end Driver.Sd2
