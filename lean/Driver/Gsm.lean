/-
  `sfmodel gsm …` — runs the GSM 06.10 model (SfModel/Gsm.lean, GsmFile.lean, GsmEnc.lean).

      sfmodel gsm dec        one data region per stdin line (hex, 33-byte frames; a short last frame is zero-padded)
                             -> per frame 160 shorts as 4-digit hex, frames separated by one blank; `x` = bad magic
      sfmodel gsm dec49      the same for 65-byte WAV49 blocks -> 320 shorts per block
-/
import SfModel.Gsm
import Driver.Util
open Sf Sf.Gsm

namespace Driver.Gsm

def splitFrames (n : Nat) : Nat → List Byte → List (List Byte)
  | 0, _ => []
  | fuel + 1, l =>
    if l.isEmpty then []
    else
      let b := l.take n
      (b ++ List.replicate (n - b.length) 0) :: splitFrames n fuel (l.drop n)

def showShorts (l : List Int) : String := String.join (l.map fun v => hexFixed 4 (wrapU 16 v))

def cmd (args : List String) : IO UInt32 := do
  match args with
  | ["dec"] =>
    for line in (← readLines) do
      let bytes := parseHexBytes line
      let outs := decodeAll33 State.init (splitFrames 33 (bytes.length + 1) bytes)
      IO.println (" ".intercalate (outs.map fun o => if o.isEmpty then "x" else showShorts o))
    return 0
  | ["dec49"] =>
    for line in (← readLines) do
      let bytes := parseHexBytes line
      let outs := decodeAll49 State.initWav (splitFrames 65 (bytes.length + 1) bytes)
      IO.println (" ".intercalate (outs.map showShorts))
    return 0
  | _ => IO.eprintln "usage: sfmodel gsm dec|dec49"; return 2

end Driver.Gsm
