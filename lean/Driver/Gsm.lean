/-
  `sfmodel gsm …` — runs the GSM 06.10 model (SfModel/Gsm.lean, GsmFile.lean, GsmEnc.lean).

      sfmodel gsm dec        one data region per stdin line (hex, 33-byte frames; a short last frame is zero-padded)
                             -> per frame 160 shorts as 4-digit hex, frames separated by one blank; `x` = bad magic
      sfmodel gsm dec49      the same for 65-byte WAV49 blocks -> 320 shorts per block
      sfmodel gsm enc|enc49  one line of 4-digit hex shorts per stdin line -> hex bytes of the closed file's data region
      sfmodel gsm script     scripts:

      == <name>
      codec gsm wav=<0|1> [normF=0|1 normD=0|1 variant=sse2|lrint]
      w <ty> <i|f> <count> <hex items>      -> ret=<n> err=0
      close                                 -> data=<hex>     the blocks gsm610_close leaves in the data region
      load <hex> dlen=<n> [hdr=<n>]         -> frames=<n>     read handle; hex = the file from the data offset to its end,
                                                              dlen = psf->datalength, hdr = numSampleFrames (AIFF)
      r <ty> <i|f> <count>                  -> ret=<n> err=0 data=<hex of the cells written, then a5 fill>
      seek <offset> <whence>                -> ret=-1 err=E   (sf.seekable = 0: sf_seek refuses everything)
      cload <hex> dlen=<n> [hdr=<n>]        -> frames=<n>     the same file on the C-shaped handle (Sf.Gsm.CHandle)
      cr <count>                            -> ret=<n> data=<hex>     sf_read_short on it
      cseek <offset>                        -> ret=<n>|-1     gsm610_seek called directly (psf->seek), not through sf_seek
-/
import SfModel.GsmFile
import Driver.Util
open Sf Sf.Gsm

namespace Driver.Gsm

def splitFrames (n : Nat) : Nat → List Byte → List (List Byte)
  | 0, _ => []
  | fuel + 1, l =>
    if l.isEmpty then []
    else
      let b := l.take n
      (b ++ List.replicate (n - b.length) 0) :: splitFrames n fuel (l.drop n)

def showShorts (l : List Int) : String := String.join (l.map fun v => hexFixed 4 (wrapU 16 v))

structure DS where
  cfg  : Cfg := ⟨false⟩
  conv : Conv := {}
  wavex : Bool := false
  file : List Byte := []
  blocks : Nat := 0
  rh   : Option Block.RHandle := none
  ws   : Option (Block.WState State) := none
  ch   : Option CHandle := none
  sticky : Bool := false

def fillA5 (ty : Ty) (n : Nat) : String := String.join (List.replicate (n * ty.bits / 8) "a5")

def runLine (ds : DS) (line : String) : DS × Option String :=
  let toks := (line.splitOn " ").filter (· ≠ "")
  match toks with
  | [] => (ds, none)
  | "codec" :: _ :: rest => ({ cfg := ⟨kvBool rest "wav" false⟩, conv := convOf rest, wavex := kvBool rest "wavex" false }, none)
  | "load" :: rest =>
    let (hex, opts) : String × List String :=
      match rest with
      | h :: o => if (h.splitOn "=").length > 1 then ("", rest) else (h, o)
      | [] => ("", [])
    let bytes := parseHexBytes hex
    let dlen := kvNat opts "dlen" bytes.length
    let hdr : Option Nat := (kvGet opts "hdr").bind (·.toNat?)
    let h := openRead ds.cfg bytes dlen hdr
    ({ ds with rh := some h, file := bytes, blocks := blocksOf ds.cfg dlen, sticky := false }, some s!"frames={h.frames}")
  | ["r", tyS, _, nS] =>
    match tyOf tyS, ds.rh with
    | some ty, some h =>
      let n := nS.toNat!
      let err := if n == 0 && ds.sticky then "E" else "0"
      let ds := if n == 0 then ds else { ds with sticky := false }
      let (h', d, ret) := readCall h ds.conv ty n
      ({ ds with rh := some h' }, some s!"ret={ret} err={err} data={showItems ty d ++ fillA5 ty (n - d.length)}")
    | _, _ => (ds, some "bad-op")
  | ["seek", _, _] => ({ ds with sticky := true }, some "ret=-1 err=E")
  | ["w", tyS, _, nS, hex] =>
    match tyOf tyS with
    | none => (ds, some "bad-op")
    | some ty =>
      let n := nS.toNat!
      let vs := (parseItems ty hex).take n
      let st := ds.ws.getD (writeInit ds.cfg)
      ({ ds with ws := some (writeCall ds.cfg ds.conv ty st vs) }, some s!"ret={n} err=0")
  | ["w", _, _, _] => (ds, some "ret=0 err=0")
  | ["close"] =>
    let st := ds.ws.getD (writeInit ds.cfg)
    ({ ds with ws := none }, some ("data=" ++ hexBytes (closeBytes ds.cfg st)))
  | ["skip"] => (ds, some "skipped")
  | "cload" :: rest =>
    let (hex, opts) : String × List String :=
      match rest with
      | h :: o => if (h.splitOn "=").length > 1 then ("", rest) else (h, o)
      | [] => ("", [])
    let bytes := parseHexBytes hex
    let h := CHandle.open ds.cfg ds.wavex bytes (kvNat opts "dlen" bytes.length) ((kvGet opts "hdr").bind (·.toNat?))
    ({ ds with ch := some h }, some s!"frames={h.frames}")
  | ["cr", nS] =>
    match ds.ch with
    | some h =>
      let n := nS.toNat!
      let (h', d, ret) := h.readS n
      ({ ds with ch := some h' }, some s!"ret={ret} data={showItems .s16 d ++ fillA5 .s16 (n - d.length)}")
    | none => (ds, some "bad-op")
  | ["cseek", offS] =>
    match ds.ch with
    | some h =>
      let off : Int := if offS.startsWith "-" then - ((offS.drop 1).toString.toNat?.getD 0 : Int) else (offS.toNat?.getD 0 : Int)
      let (h', r) := h.cseek off
      ({ ds with ch := some h' }, some s!"ret={r}")
    | none => (ds, some "bad-op")
  | _ => (ds, some "bad-op")

partial def loop (h : IO.FS.Stream) (ds : DS) : IO Unit := do
  let line ← h.getLine
  if line.isEmpty then return
  let l := line.trimAscii.toString
  if l.startsWith "== " then
    IO.println l
    loop h {}
  else
    let (ds', out) := runLine ds l
    match out with
    | some s => IO.println s
    | none => pure ()
    loop h ds'

def cmd (args : List String) : IO UInt32 := do
  match args with
  | ["script"] => loop (← IO.getStdin) {}; return 0
  | ["enc"] =>
    for line in (← readLines) do
      let xs := (parseHexItems 4 line).map (sext 16)
      let st := writeCall ⟨false⟩ {} .s16 (writeInit ⟨false⟩) xs
      IO.println (hexBytes (closeBytes ⟨false⟩ st))
    return 0
  | ["enc49"] =>
    for line in (← readLines) do
      let xs := (parseHexItems 4 line).map (sext 16)
      let st := writeCall ⟨true⟩ {} .s16 (writeInit ⟨true⟩) xs
      IO.println (hexBytes (closeBytes ⟨true⟩ st))
    return 0
  | ["dec"] =>
    for line in (← readLines) do
      let bytes := parseHexBytes line
      let outs := decodeAll33 State.init (splitFrames 33 (bytes.length + 1) bytes)
      IO.println (" ".intercalate (outs.map fun o => if o.isEmpty then "x" else showShorts o))
    return 0
  | ["dec49"] =>
    for line in (← readLines) do
      let bytes := parseHexBytes line
      let outs := decodeAll49 State.initWav (splitFrames 65 (bytes.length + 1) bytes)
      IO.println (" ".intercalate (outs.map showShorts))
    return 0
  | _ => IO.eprintln "usage: sfmodel gsm dec|dec49"; return 2

end Driver.Gsm
