/-
  sfmodel c17grid — the model's prediction for every point of the C17 grid.

  stdin:  consts … simple=<n> major=<n> subtype=<n>          (the line printed by `sfh grid c17 consts`)
          facts …                                           (the line printed by `sfh grid c17 <fmt> <state> <flavour>`)
          p cmd=<hex> size=<n> data=<null|a5|zero|one|nl>   (any number; a new `facts` line switches handle)
  stdout: `consts …` (the model's own constants, same layout) and one line per point:
          p cmd=… size=… data=… | oob=<0|1> nullderef=<0|1> ret=<n|{a,b}|undef> err=<n|?> wr=<ranges|-> rd=<ranges|-> pure=<0|1> q=<0|1> term=<0|1|->
-/
import SfModel.Command
open Sf Sf.Command

namespace C17Driver

def kvOf (toks : List String) (key : String) : Option String :=
  toks.findSome? fun t =>
    match t.splitOn "=" with
    | [k, v] => if k == key then some v else none
    | _ => none

def natOf (toks : List String) (key : String) (d : Nat := 0) : Nat :=
  match kvOf toks key with
  | some v => v.toNat?.getD d
  | none => d

def intOf (toks : List String) (key : String) (d : Int := 0) : Int :=
  match kvOf toks key with
  | some v => v.toInt?.getD d
  | none => d

def hexOf (toks : List String) (key : String) : Nat :=
  match kvOf toks key with
  | some v => parseHexNat v.toList
  | none => 0

def optOf (toks : List String) (key : String) : Option Nat :=
  let v := intOf toks key (-1)
  if v < 0 then none else some v.toNat

def parseG (toks : List String) (verLen gLogLen : Nat) : G :=
  { verLen := verLen, gLogLen := gLogLen, simpleCount := natOf toks "simple", majorCount := natOf toks "major",
    subtypeCount := natOf toks "subtype" }

def parseH (toks : List String) : Option H :=
  match kvOf toks "state" with
  | some "null" => none
  | some st =>
    let fmt := hexOf toks "format"
    let container := fmt % 0x10000000 / 0x10000 * 0x10000
    some { mode := if st == "r" then .r else if st == "w" then .w else .rw
           container := container
           codec := fmt % 0x10000
           channels := natOf toks "ch"
           seekable := natOf toks "seekable" != 0
           hasCommand := container = cWAV ∨ container = cWAVEX ∨ container = cRF64 ∨ container = cAIFF ∨ container = cCAF
           haveWritten := natOf toks "written" != 0
           readCur := natOf toks "rpos"
           writeCur := natOf toks "wpos"
           normFloat := natOf toks "normf" != 0
           normDouble := natOf toks "normd" != 0
           clipping := natOf toks "clip" != 0
           floatIntMult := false
           scaleIntFloat := false
           autoHeader := false
           ieeeReplace := false
           endswap := natOf toks "swap" != 0
           ambisonic := natOf toks "amb"
           rf64Downgrade := false
           bext := optOf toks "bext"
           cart := optOf toks "cart"
           cues := optOf toks "cues"
           hasInstrument := natOf toks "inst" != 0
           hasLoop := natOf toks "loop" != 0
           hasChanMap := natOf toks "chmap" != 0
           hasPeak := natOf toks "peak" != 0
           logLen := natOf toks "loglen"
           metaEpoch := 0
           fileEpoch := 0
           -- route of the handle: `virtual=0` for the path / descriptor / pipe handles of the grid (default: sf_open_virtual)
           virtualIo := natOf toks "virtual" 1 != 0 }
  | none => none

/-- the harness's block fills -/
def memOf (kind : String) (size : Nat) : Option Mem :=
  if kind == "null" then none
  else if kind == "a5" then some { len := size, byte := fun _ => 0xA5 }
  else if kind == "zero" then some { len := size, byte := fun _ => 0 }
  else if kind == "one" then some { len := size, byte := fun i => if i % 4 = 0 then 1 else 0 }
  else if kind.length == 9 && kind.startsWith "w" then
    -- word fill (round 8): the little-endian 32-bit word repeated, every aligned size / count field holds it
    let v := parseHexNat (kind.toList.drop 1)
    some { len := size, byte := fun i => (v / 256 ^ (i % 4)) % 256 }
  else some { len := size, byte := fun i => if i + 1 = size then 10 else 0 }

/-- union of the non-empty ranges, merged, as "lo-hi,lo-hi" -/
def insertRange (r : Nat × Nat) : List (Nat × Nat) → List (Nat × Nat)
  | [] => [r]
  | x :: xs => if r.1 ≤ x.1 then r :: x :: xs else x :: insertRange r xs

def mergeSorted : List (Nat × Nat) → List (Nat × Nat)
  | [] => []
  | [x] => [x]
  | x :: y :: rest =>
    if y.1 ≤ x.2 then mergeSorted ((x.1, max x.2 y.2) :: rest) else x :: mergeSorted (y :: rest)
termination_by l => l.length

def showRanges (rs : List (Nat × Nat)) : String :=
  let ne := rs.filter fun r => r.1 < r.2
  let sorted := ne.foldl (fun acc r => insertRange r acc) []
  let m := mergeSorted sorted
  if m.isEmpty then "-" else ",".intercalate (m.map fun r => s!"{r.1}-{r.2}")

def showRet : Ret → String
  | .exact v => toString v
  | .among vs => "{" ++ ",".intercalate (vs.map toString) ++ "}"
  | .undef => "undef"

def constsLine : String :=
  s!"consts sf_info={szInfo} format_info={szFormatInfo} dither_info={szDither} embed_info={szEmbed} loop_info={szLoop} instrument={szInstrument}" ++
  s!" bext_fixed={bextFixed} bext_size_off={bextSizeOff} bext={szBext} cart_fixed={cartFixed} cart_size_off={cartSizeOff} cart={szCart} cue_point={szCuePoint} cues={szCues}" ++
  s!" count_t={szCount} double={szDouble} int={szInt} chmap_max={chanMapMax} bext_cap={bextCap} cart_cap={cartCap}"

def pointLine (g : G) (h : Option H) (cmdS : String) (size : Nat) (kind : String) : String :=
  let u := parseHexNat cmdS.toList
  let cmd : Int := sext 32 u
  let data := memOf kind size
  let r := run g h cmd size data
  let oob := !(r.reads.all (rangeIn size) && r.writes.all (rangeIn size))
  let pure := sameState r.h' h
  let term := if isStringCmd cmd ∧ size ≥ 1 ∧ data.isSome then (if r.terminates size then "1" else "0") else "-"
  let errS := match r.err with | some e => toString e | none => "?"
  s!"p cmd={cmdS} size={size} data={kind} | oob={if oob then 1 else 0} nullderef={if r.derefNull then 1 else 0} ret={showRet r.ret} err={errS}" ++
  s!" wr={showRanges r.writes} rd={showRanges r.reads} pure={if pure then 1 else 0} q={if isQuery cmd then 1 else 0} term={term}"

partial def loop (stdin : IO.FS.Stream) (g : G) (constToks : List String) (h : Option H) : IO Unit := do
  let line ← stdin.getLine
  if line.isEmpty then return
  let toks := (line.trimAscii.toString.splitOn " ").filter (· ≠ "")
  match toks with
  | "consts" :: rest =>
    IO.println constsLine
    loop stdin (parseG rest g.verLen g.gLogLen) rest h
  | "facts" :: rest =>
    let hh := parseH rest
    let verLen := natOf rest "verlen"
    let g' : G := { g with verLen := verLen, gLogLen := if hh.isNone then natOf rest "loglen" else g.gLogLen }
    loop stdin g' constToks hh
  | "p" :: rest =>
    match kvOf rest "cmd", kvOf rest "data" with
    | some c, some k => IO.println (pointLine g h c (natOf rest "size") k)
    | _, _ => IO.println "bad-point"
    loop stdin g constToks h
  | _ => loop stdin g constToks h

def main (_args : List String) : IO UInt32 := do
  let stdin ← IO.getStdin
  loop stdin { verLen := 0, gLogLen := 0, simpleCount := 0, majorCount := 0, subtypeCount := 0 } [] none
  return 0

end C17Driver
