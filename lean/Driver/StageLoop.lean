/-
  sfmodel stage — the staging-loop matrix (lean/SfModel/StageLoop.lean; campaign vlib/stagecamp.py).
     sfmodel stage kernels      -> one line per row of `Sf.StageLoop.kernels`:
                                   `<C function> enc=<name> fmt=<RAW format word, hex> ty=<s16|s32|f32|f64> stage=<items per round> w=<bytes per item>`
     sfmodel stage judge        stdin, one record per line:
                                   `<name> w= ch= n= hdr= ret1= pos1= stored1= asked2= ret2= pos2= probe=<0|1> exact=<0|1> closed=<hex|-> ref=<hex|->`
                                -> `<name> ok` | `<name> bad clause=<tag>[,<tag>…] frames-stored=<k> accepted=<items>`
-/
import SfModel.StageLoop
import Driver.Util
import Driver.Script
open Sf
namespace StageLoopDriver

def encName : Enc → String
  | .pcm p => if p.w == 8 then (if p.unsigned then "pcm8u" else "pcm8s") else s!"pcm{p.w}{if p.big then "be" else "le"}"
  | .flt big => if big then "f32be" else "f32le"
  | .dbl big => if big then "f64be" else "f64le"
  | .ulaw => "ulaw" | .alaw => "alaw"

def kernelLine (k : StageLoop.Kernel) : String :=
  s!"{k.name} enc={encName k.enc} fmt={hexFixed 8 (StageLoop.rawWord k.enc)} ty={StageLoop.tyName k.ty} stage={k.stage} w={k.w}"

def kvInt (toks : List String) (key : String) : Int := parseIntStr ((kvGet toks key).getD "0")

def hexField (toks : List String) (key : String) : List Byte :=
  match kvGet toks key with
  | some "-" => []
  | some h => parseHexBytes h
  | none => []

def judgeLine (line : String) : String :=
  let toks := (line.splitOn " ").filter (· ≠ "")
  match toks with
  | [] => ""
  | name :: rest =>
    let r : StageLoop.Rec :=
      { w := kvNat rest "w" 1, ch := kvNat rest "ch" 1, n := kvNat rest "n" 0, hdr := kvNat rest "hdr" 0,
        ret1 := kvInt rest "ret1", pos1 := kvInt rest "pos1", stored1 := kvNat rest "stored1" 0,
        asked2 := kvInt rest "asked2", ret2 := kvInt rest "ret2", pos2 := kvInt rest "pos2",
        probe := kvBool rest "probe" true, exact := kvBool rest "exact" true, closed := hexField rest "closed", ref := hexField rest "ref" }
    match StageLoop.judge r with
    | [] => s!"{name} ok"
    | tags => s!"{name} bad clause={",".intercalate tags} frames-stored={r.framesStored} accepted={r.accepted}"

partial def loop (h : IO.FS.Stream) : IO Unit := do
  let line ← h.getLine
  if line.isEmpty then return
  let l := line.trimAscii.toString
  if l != "" then IO.println (judgeLine l)
  loop h

def main (args : List String) : IO UInt32 := do
  match args with
  | ["kernels"] =>
    for k in StageLoop.kernels do IO.println (kernelLine k)
    return 0
  | ["judge"] => loop (← IO.getStdin); return 0
  | _ => IO.eprintln "usage: sfmodel stage kernels|judge"; return 2

end StageLoopDriver
