/-
  sfmodel errapi — `Sf.ErrApi` (sf_error_str / sf_perror as written).  stdin, one request per line:
     errstr len=<maxlen> msg=<hex of sf_error_number's string> buf=<hex of the caller's block before the call>  -> ret=0 buf=<hex after>
     errstr-null                                                                                          -> ret=<SFE_INTERNAL given as internal=<n>>
     perror msg=<hex>                                                                                     -> ret=0 out=<hex>
-/
import SfModel.ErrApi
import SfModel.Basic
import Driver.Util
import Driver.Script
open Sf
namespace ErrApiDriver
open Sf.ErrApi

def st0 : St := { error := 0, sfErrno := 0, rpos := 0, wpos := 0, file := [] }

def answer (line : String) : String :=
  let toks := (line.splitOn " ").filter (· ≠ "")
  match toks with
  | "errstr" :: rest =>
    let msg : List Nat := parseHexBytes ((kvGet rest "msg").getD "")
    let buf : List Nat := parseHexBytes ((kvGet rest "buf").getD "")
    let r := sfErrorStr 0 (fun _ => msg) false st0 (some buf) (kvNat rest "len" 0)
    s!"ret={r.1} buf={hexBytes (r.2.1.getD [])}"
  | "errstr-null" :: rest =>
    let r := sfErrorStr (parseIntStr ((kvGet rest "internal").getD "0")) (fun _ => []) false st0 none (kvNat rest "len" 0)
    s!"ret={r.1} buf=null"
  | "perror" :: rest =>
    let msg : List Nat := parseHexBytes ((kvGet rest "msg").getD "")
    let r := sfPerror (fun _ => msg) false st0
    s!"ret={r.1} out={hexBytes r.2.1}"
  | _ => "bad-request"

partial def loop (h : IO.FS.Stream) : IO Unit := do
  let line ← h.getLine
  if line.isEmpty then return
  IO.println (answer line.trimAscii.toString)
  loop h

def main (_args : List String) : IO UInt32 := do
  loop (← IO.getStdin)
  return 0

end ErrApiDriver
