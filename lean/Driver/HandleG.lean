import Driver.Util
import Driver.Script
import SfModel.HandleGInst
import SfModel.HandleGInst2
import SfModel.HandleGAiffRw
open Sf

/-! `sfmodel handleg` — the script language of `sfmodel script` (CONTRIBUTING.md, harness/sfh.c) interpreted on the GENERIC
    handle machine `Sf.HandleG` (lean/SfModel/HandleG.lean): every open picks the container instance (`specOfMajor` for a
    new file, `specOfBytes` = the signature tests for an existing one; RAW by the caller's format word), the handle keeps it.
    A line the model does not describe prints `unmodelled` (the comparer then skips the rest of that script).
    `sfmodel handleg list` prints the instantiated containers; `sfmodel handleg text=<hex>`: the 124 text bytes a MAT5 header
    starts with (package version, date), a parameter of the model. -/

namespace HandleGDriver
open Sf.HandleG

structure RunState where
  w : World := {}
  conts : List (Option Cont) := List.replicate 16 none
  dead : Bool := false
  /-- the 124 text bytes of a MAT5 header (`sfmodel handleg text=<hex>`) -/
  text : List Byte := mat5Text0

def withHandle (st : RunState) (name : String) (f : Cont → H → Store → (Option H × Store × String)) : RunState × String :=
  let i := idxOf name
  match st.w.handles.getD i none, st.conts.getD i none with
  | some h, some c =>
    let s := st.w.store h.store
    let (h', s', out) := f c h s
    ({ st with w := (st.w.setStore h.store s').setHandle i h' }, out)
  | _, _ => ({ st with dead := true }, "unmodelled")

/-- The requested region BEHIND the returned count (C05 leaves it to the implementation unless the count is 0).  `Sf.stepRead`
    shows it untouched.  The same-width PCM paths (`pcm_read_les2s` / `bes2s` / `lei2i` / `bei2i`) read the file straight into the
    caller's buffer (and swap the whole requested length for big-endian data), so when the file ends inside an item — a 16-bit VOC
    file: the terminator byte behind the audio — the bytes of that partial item land in the first item behind the count. -/
def partialItem (h : H) (s0 : Store) (ty : Ty) (items : Int) (o : Out) (buf : List Int) : List Int :=
  match h.enc with
  | .pcm ⟨bits, false, big⟩ =>
    if !((bits == 16 ∧ ty == .s16) ∨ (bits == 32 ∧ ty == .s32)) then buf else
    let nb := bits / 8
    if !o.hasData ∨ o.err != 0 ∨ items ≤ 0 ∨ h.mode == .w ∨ h.rpos ≥ h.frames ∨ items % h.ch != 0 then buf else
    let s1 := if h.lastOp != .r then defaultSeek { h with error := 0 } s0 h.rpos else s0
    let avail := s1.bytes.length - s1.pos
    if avail ≥ items.toNat * nb ∨ avail % nb == 0 then buf else
    let k := avail / nb
    if (k : Int) > (h.frames - h.rpos) * h.ch then buf else       -- the wrapper cleared everything behind the clipped count
    let left := (s1.bytes.drop (s1.pos + k * nb)).take (avail % nb)
    let mem := left ++ List.replicate (nb - left.length) 0xA5
    let v := if big then ofBE mem else ofLE mem
    buf.set k (sext bits v)
  | _ => buf

def runLine (st : RunState) (line : String) : RunState × Option String :=
  let toks := (line.splitOn " ").filter (· ≠ "")
  if st.dead then (st, some "unmodelled") else
  match toks with
  | [] => (st, none)
  | "open" :: hn :: sn :: m :: rest =>
    match modeOfStr m with
    | none => ({ st with dead := true }, some "unmodelled")
    | some mode =>
      let route := (kvGet rest "route").getD "vio"
      if !(route == "vio" ∨ route == "fd" ∨ route == "fd1" ∨ route == "path") then ({ st with dead := true }, some "unmodelled") else
      let canTrunc := route != "vio"
      let fmt := match kvGet rest "fmt" with | some h => parseHexNat h.toList | none => 0
      let ch := parseIntStr ((kvGet rest "ch").getD "0")
      let sr := parseIntStr ((kvGet rest "sr").getD "0")
      let stale := parseIntStr ((kvGet rest "frames").getD "0")
      let si := idxOf sn
      let s0 := st.w.store si
      let s0 : Store := if mode == .w then { bytes := [], pos := 0 } else { s0 with pos := 0 }
      let fresh := mode == .w ∨ (mode == .rw ∧ s0.bytes.isEmpty)
      let spec : Option Spec :=
        if fmt / 0x10000 % 0x1000 == 0x04 then some rawSpec
        else if fresh then specOfMajor2 fmt st.text
        else specOfBytes2 s0.bytes st.text
      match spec with
      | none => ({ st with dead := true }, some "unmodelled")
      | some sp =>
        match (contOf sp).openH si s0 mode fmt ch sr stale with
        | .unmodelled => ({ st with dead := true }, some "unmodelled")
        | .fail s => ({ st with w := { (st.w.setStore si s) with sfErrno := 1 } }, some "open=NULL err=E")
        | .ok h s =>
          let i := idxOf hn
          ({ st with w := (st.w.setStore si s).setHandle i (some { h with canTruncate := canTrunc }),
                     conts := st.conts.set i (some (contOf sp)) }, some (showOpen h))
  | "w" :: hn :: tyS :: unit :: n :: drest =>
    let dataS := drest.headD ""
    match tyOf tyS with
    | none => ({ st with dead := true }, some "unmodelled")
    | some ty =>
      let (st, out) := withHandle st hn fun c h s =>
        let (h, s, o) := HandleG.stepWrite c h s ty (unit == "f") (parseIntStr n) (parseItems ty dataS)
        (some h, s, s!"ret={o.ret} {errStr o.err}")
      (st, some out)
  | ["r", hn, tyS, unit, n] =>
    match tyOf tyS with
    | none => ({ st with dead := true }, some "unmodelled")
    | some ty =>
      let (st, out) := withHandle st hn fun _ h s0 =>
        let nn := parseIntStr n
        let (h', s, o) := stepRead h s0 ty (unit == "f") nn
        let items : Int := if unit == "f" then nn * h.ch else nn
        let buf := if o.hasData then o.data else List.replicate items.toNat (pattern ty)
        (some h', s, s!"ret={o.ret} {errStr o.err} data={showItems ty (partialItem h s0 ty items o buf)}")
      (st, some out)
  | ["seek", hn, off, wh] =>
    let (st, out) := withHandle st hn fun _ h s =>
      let (h, s, o) := stepSeek h s (parseIntStr off) (parseIntStr wh)
      (some h, s, s!"ret={o.ret} {errStr o.err}")
    (st, some out)
  | "cmd" :: hn :: idS :: sizeS :: rest =>
    let id := parseHexNat idS.toList
    let size := parseIntStr sizeS
    let dataS := rest.headD "null"
    if id == 0x1080 then
      if size != 8 ∨ dataS == "null" ∨ dataS == "zero" then ({ st with dead := true }, some "unmodelled") else
      let v : Int := sext 64 (ofLE (parseHexBytes dataS))
      let (st, out) := withHandle st hn fun _ h s =>
        let (h, s, o) := stepTruncate h s v
        (some h, s, s!"ret={o.ret} {errStr o.err} data={dataS}")
      (st, some out)
    else if id ∈ [0x1013, 0x1012, 0x1011, 0x1010, 0x10C0, 0x10C1, 0x1015, 0x1061, 0x1060] ∧ dataS == "null" then
      let (st, out) := withHandle st hn fun c h s =>
        let (h, s, o) := HandleG.stepCmdFlag c h s id size
        (some h, s, s!"ret={o.ret} {errStr o.err} data=null")
      (st, some out)
    else ({ st with dead := true }, some "unmodelled")
  | ["close", hn] =>
    let i := idxOf hn
    match st.w.handles.getD i none, st.conts.getD i none with
    | some h, some c =>
      let s := c.closeStore h (st.w.store h.store)
      ({ st with w := (st.w.setStore h.store s).setHandle i none, conts := st.conts.set i none }, some "ret=0")
    | _, _ => ({ st with dead := true }, some "unmodelled")
  | ["info", hn] =>
    let (st, out) := withHandle st hn fun _ h s =>
      (some { h with error := 0 }, s, s!"ret=0 ch={h.ch} sr={h.sr} frames={h.frames} fmt={hexFixed 8 h.fmtWord} sections=1 seekable=1")
    (st, some out)
  | ["dump", sn] =>
    let s := st.w.store (idxOf sn)
    (st, some s!"len={s.bytes.length} hex={hexBytes s.bytes}")
  | "store" :: sn :: rest =>
    let bs := parseHexBytes (rest.headD "")
    ({ st with w := st.w.setStore (idxOf sn) { bytes := bs, pos := 0 } }, some s!"len={bs.length}")
  | ["copy", dn, sn] =>
    let s := st.w.store (idxOf sn)
    ({ st with w := st.w.setStore (idxOf dn) { bytes := s.bytes, pos := 0 } }, some s!"len={s.bytes.length}")
  | ["trunc", sn, n] =>
    let s := st.w.store (idxOf sn)
    let k := (parseIntStr n).toNat
    let bs := if k < s.bytes.length then s.bytes.take k else s.bytes
    ({ st with w := st.w.setStore (idxOf sn) { s with bytes := bs } }, some s!"len={bs.length}")
  | t :: _ => if t.startsWith "#" then (st, none) else ({ st with dead := true }, some "unmodelled")

/-- stdin: scripts separated by `== name` lines (or a single script); output mirrors `sfh batch`. -/
def cmd (args : List String) : IO UInt32 := do
  if args.head? == some "list" then
    IO.println rawSpec.name
    for sp in allSpecs2 do IO.println sp.name
    return 0
  let text : List Byte := match args.find? (·.startsWith "text=") with
    | some a => parseHexBytes (a.drop 5).toString
    | none => mat5Text0
  let lines ← readLines
  let mut st : RunState := { text := text }
  let mut inBatch := false
  for line in lines do
    if line.startsWith "== " then
      if inBatch then IO.println "== end"
      IO.println line
      inBatch := true
      st := { text := text }
    else
      let (st', out) := runLine st line
      st := st'
      match out with
      | some o => IO.println o
      | none => pure ()
  if inBatch then IO.println "== end"
  return 0

end HandleGDriver
