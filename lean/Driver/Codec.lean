import Driver.Util
open Sf

/-- `sfmodel codec enc <enc> <ty> [key=val …]` : each stdin line of caller items → stored bytes (hex)
    `sfmodel codec dec <enc> <ty> [key=val …]` : each stdin line of stored bytes → caller items -/
def codecCmd (args : List String) : IO UInt32 := do
  match args with
  | dir :: encS :: tyS :: rest =>
    match encOf encS, tyOf tyS with
    | some e, some ty =>
      let c := convOf rest
      let lines ← readLines
      for line in lines do
        if dir == "enc" then
          IO.println (hexBytes (e.encodeAll c ty (parseItems ty line)))
        else
          IO.println (showItems ty (e.decodeAll c ty (parseHexBytes line)))
      return 0
    | _, _ => IO.eprintln "codec: bad encoding or type"; return 2
  | _ => IO.eprintln "usage: sfmodel codec enc|dec <enc> <ty> [normF=0|1 normD= clip= scaleIF= fiMult= floatMax=<hex> variant=sse2|lrint]"; return 2
