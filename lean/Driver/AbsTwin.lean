/-
  `sfmodel abs-twin` — evaluates the C09 twin predicate `Sf.AbsTwin.judge` (lean/SfModel/AbsTwin.lean) on the records of
  vlib/c09twin.py.

  stdin: any number of records
      == <name>
      ins k=<twin line index> must=<0|1> refused=<0|1> err=<sf_error> msglen=<strlen (sf_strerror)>
      pair k=<twin line index> phase=<state|file|reopen>
      <canonical line of the base run>
      <canonical line of the twin run>
  stdout, one line per record:
      <name> ok ins=<n> pairs=<m>
      <name> bad clause=<fail-value|error-code|state|file|reopen> k=<line> fails=<number of failing clauses>
-/
import SfModel.AbsTwin
import Driver.Util
open Sf Sf.AbsTwin

namespace AbsTwinDriver

def natKv (toks : List String) (key : String) : Nat := ((kvGet toks key).bind String.toNat?).getD 0
def intKv (toks : List String) (key : String) : Int := ((kvGet toks key).bind String.toInt?).getD 0

def phaseOf (s : Option String) : Phase :=
  match s with
  | some "file" => .file
  | some "reopen" => .reopen
  | _ => .state

def emit (name : String) (r : Record) : IO Unit := do
  if name == "" then return
  -- the lists were built by consing: restore the order of the record
  let r : Record := { ins := r.ins.reverse, pairs := r.pairs.reverse }
  match judge r with
  | [] => IO.println s!"{name} ok ins={r.ins.length} pairs={r.pairs.length}"
  | f :: rest => IO.println s!"{name} bad clause={f.tag} k={f.line} fails={rest.length + 1}"

def cmd (_args : List String) : IO UInt32 := do
  let lines ← readLines
  let mut name := ""
  let mut cur : Record := { ins := [], pairs := [] }
  let mut i := 0
  while i < lines.size do
    let line := lines[i]!
    if line.startsWith "== " then
      emit name cur
      name := (line.drop 3).toString
      cur := { ins := [], pairs := [] }
      i := i + 1
    else if line.startsWith "ins " then
      let toks := (line.splitOn " ").filter (· ≠ "")
      cur := { cur with ins := { k := natKv toks "k", must := natKv toks "must" != 0, refused := natKv toks "refused" != 0,
                                 err := intKv toks "err", msgLen := intKv toks "msglen" } :: cur.ins }
      i := i + 1
    else if line.startsWith "pair " then
      let toks := (line.splitOn " ").filter (· ≠ "")
      let b := if i + 1 < lines.size then lines[i + 1]! else ""
      let t := if i + 2 < lines.size then lines[i + 2]! else "<missing>"
      cur := { cur with pairs := { k := natKv toks "k", phase := phaseOf (kvGet toks "phase"), base := b, twin := t } :: cur.pairs }
      i := i + 3
    else
      i := i + 1
  emit name cur
  return 0

end AbsTwinDriver
