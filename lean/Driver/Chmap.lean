/-
  sfmodel chmap — SFC_SET_CHANNEL_MAP_INFO / SFC_GET_CHANNEL_MAP_INFO histories on one handle, by `Sf.ChmapVerdict`.

  stdin, scripts separated by `== <name>` lines (echoed):
      open <format-hex> <channels>        a fresh write handle (no output)
      set <size> <hex|null>               -> ret=<0|1> err=<n|->
      get <size> <zero|null>              -> ret=<0|1> err=<n|-> data=<hex of the ints copied|->
      written                             audio has been written (no output)
      reopen                              the file closed and opened for reading (no output); the map is the one of the file
  `sfmodel chmap keep` / `sfmodel chmap erase` run the rules before the repairs.
-/
import SfModel.ChmapVerdict
open Sf Sf.ChmapVerdict
namespace ChmapDriver

def intsOf (bs : List Byte) : List Int :=
  let rec go (fuel : Nat) (b : List Byte) : List Int :=
    match fuel with
    | 0 => []
    | f + 1 => if b.length < 4 then [] else sext 32 (ofLE (b.take 4)) :: go f (b.drop 4)
  go (bs.length / 4) bs

def le4n (v : Nat) : List Byte := [v % 256, v / 256 % 256, v / 65536 % 256, v / 16777216 % 256]

def errS : Option Nat → String
  | some e => toString e
  | none => "-"

def stepLine (rule : Rule) (s : St) (toks : List String) : Option String × St :=
  match toks with
  | ["open", f, ch] => (none, ⟨parseHexNat f.toList / 65536 % 4096 * 65536, ch.toNat!, false, none⟩)
  | ["written"] => (none, { s with haveWritten := true })
  | ["reopen"] => (none, { s with haveWritten := false, map := reopenMap s.container s.ch s.map })
  | ["set", size, d] =>
    let m := if d == "null" then none else some (intsOf (parseHexBytes d))
    let o := setMapW rule s size.toNat! m
    (some s!"ret={o.ret} err={errS o.err}", o.st)
  | ["get", size, d] =>
    let (r, m, e) := getMap s size.toNat! (d == "null")
    let data := match m with | some l => hexBytes (l.flatMap le4n) | none => "-"
    (some s!"ret={r} err={errS e} data={data}", s)
  | _ => (some "bad-line", s)

partial def loop (rule : Rule) (stdin : IO.FS.Stream) (s : St) : IO Unit := do
  let line ← stdin.getLine
  if line.isEmpty then return
  let t := line.trimAscii.toString
  if t.startsWith "==" then
    IO.println t
    loop rule stdin ⟨0, 0, false, none⟩
  else
    let toks := (t.splitOn " ").filter (· ≠ "")
    if toks.isEmpty then loop rule stdin s
    else
      let (o, s') := stepLine rule s toks
      match o with
      | some l => IO.println l
      | none => pure ()
      loop rule stdin s'

def main (args : List String) : IO UInt32 := do
  let rule := match args with | ["keep"] => Rule.keepNew | ["erase"] => Rule.erase | _ => Rule.noEffect
  loop rule (← IO.getStdin) ⟨0, 0, false, none⟩
  return 0

end ChmapDriver
