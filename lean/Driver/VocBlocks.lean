/-
  sfmodel vocblocks — `Sf.VocBlocks.parseF` (VOC files with text / repeat blocks in front of the sound block).
  stdin: one file in hex per line;  stdout: `ok ch= sr= frames= fmt=<8 hex digits> dataoffset=<n>` | `err` | `unmodelled`
-/
import SfModel.VocBlocks
import Driver.Util
open Sf Sf.Small2
namespace VocBlocksDriver

def answer (bs : List Byte) : String :=
  match VocBlocks.parseF bs with
  | .ok i => s!"ok ch={i.ch} sr={i.sr} frames={i.frames} fmt={hexFixed 8 i.fmt} dataoffset={(VocBlocks.dataOffsetF bs).getD 0}"
  | .err => "err"
  | .unmodelled => "unmodelled"

partial def loop (h : IO.FS.Stream) : IO Unit := do
  let line ← h.getLine
  if line.isEmpty then return
  let t := line.trimAscii.toString
  IO.println (answer (if t == "-" then [] else parseHexBytes t))
  loop h

def main (_args : List String) : IO UInt32 := do
  loop (← IO.getStdin)
  return 0

end VocBlocksDriver
