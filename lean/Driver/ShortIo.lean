/-
  sfmodel shortio — `Sf.ShortIo.fwriteLoop` / `freadLoop` under the schedules of harness/shortio.c, and `Sf.CloseOwn.psfClose`.
  stdin, one request per line:
     w <len> skip=<k> [after=<a>] eintr=<e> cap=<c> n=<count | -1>      -> calls=<write () calls> bytes=<bytes that reached the descriptor>
     r <want> have=<bytes the file holds> skip= eintr= cap= n=   -> calls= bytes=
     close vio=<0|1> keep=<0|1> codec=<ret|-> container=<ret|-> os=<ret>   -> ret=<sf_close> closed=<0|1>
-/
import SfModel.ShortIo
import SfModel.CloseOwn
import Driver.Util
import Driver.Script
open Sf
namespace ShortIoDriver

def sched (toks : List String) (horizon : Nat) : List ShortIo.Ans :=
  let n := parseIntStr ((kvGet toks "n").getD "0")
  ShortIo.scheduleAfter (kvNat toks "skip" 0) (kvNat toks "after" 0) (kvNat toks "eintr" 0) (kvNat toks "cap" 1) (if n < 0 then none else some n.toNat) horizon

def optInt (toks : List String) (k : String) : Option Int :=
  match kvGet toks k with
  | none => none
  | some "-" => none
  | some v => some (parseIntStr v)

def answer (line : String) : String :=
  let toks := (line.splitOn " ").filter (· ≠ "")
  match toks with
  | "w" :: len :: rest =>
    let n := (parseIntStr len).toNat
    let r := ShortIo.fwriteLoop (sched rest n) (List.replicate n 0)
    s!"calls={r.2} bytes={r.1.length}"
  | "r" :: want :: rest =>
    let n := (parseIntStr want).toNat
    let r := ShortIo.freadLoop (sched rest n) (List.replicate (kvNat rest "have" 0) 0) n
    s!"calls={r.2} bytes={r.1.length}"
  | "close" :: rest =>
    let h : CloseOwn.H := { codecClose := optInt rest "codec", containerClose := optInt rest "container", virtualIo := kvNat rest "vio" 0 = 1,
                            doNotClose := kvNat rest "keep" 0 = 1, osClose := parseIntStr ((kvGet rest "os").getD "0") }
    let o := CloseOwn.psfClose h
    s!"ret={o.ret} closed={if o.fdClosed then 1 else 0}"
  | _ => "bad-request"

partial def loop (h : IO.FS.Stream) : IO Unit := do
  let line ← h.getLine
  if line.isEmpty then return
  IO.println (answer line.trimAscii.toString)
  loop h

def main (_args : List String) : IO UInt32 := do
  loop (← IO.getStdin)
  return 0

end ShortIoDriver
