/-
  `sfmodel adpcmenc …` — runs the write-side model of IMA ADPCM (WAV / W64 and AIFF layouts) and MS ADPCM
  (SfModel/AdpcmEnc.lean, AdpcmFile.lean).

      sfmodel adpcmenc ima-wav|ima-aiff|ms enc <channels> <samplerate>
            one line of 4-digit hex shorts (interleaved) per stdin line -> hex bytes of the closed file's data region
            (one write call of shorts, then close)
      sfmodel adpcmenc ima-wav|ima-aiff|ms block <channels> <samplerate>
            one line of 4-digit hex shorts = ONE whole `samples` buffer -> `block=<hex> after=<the buffer afterwards, hex shorts>`
            (encoder state of a fresh handle)
      sfmodel adpcmenc geom        lines `<kind> <channels> <samplerate>` -> `ba=<blocksize> spb=<samplesperblock> bytes=<bytes per encode call> ok=0|1`
      sfmodel adpcmenc script      scripts:

      == <name>
      codec ima-wav|ima-aiff|ms ch=<n> sr=<n> [w64=0|1] [normF=0|1 normD=0|1 variant=sse2|lrint] [seekfix=0|1]
      w <ty> <i|f> <count> <hex items>      -> ret=<count> err=0      (count in items for `i`, in frames for `f`)
      seek <offset> <whence>                -> ret=<n> err=0|E          (whence 0, 1, 2 as the caller passes them)
      close                                 -> data=<hex> blocks=<encode calls> hdrframes=<sf.frames handed to the header writer> hdrfield=<fact chunk / numSampleFrames>
      reopen                                -> frames=<n> stream=<every decoded short of the data region just closed, 4-digit hex>

  `seek`: SEEK_CUR 0 returns the write position; every other target is resolved to an absolute frame (negative: refused before
  the codec is asked) and answered by `Sf.AdpcmEnc.seekWrite`.  `seekfix=0` selects the rule before the repair of
  KF-IMA-WAV-SEEK-WRITE (`seekWriteOld`: the refused seek to frame 0 of an IMA WAV writer rewinds the file and clears the block
  counter), the default is the current rule.
-/
import SfModel.AdpcmFile
import Driver.Util
open Sf Sf.AdpcmEnc

namespace Driver.AdpcmEnc

def kindOf (s : String) : Option Kind :=
  if s == "ima-wav" then some .imaWav else if s == "ima-aiff" then some .imaAiff else if s == "ms" then some .ms else none

structure DS where
  g     : Geo := geoOf .imaWav 8000 1
  conv  : Conv := {}
  ws    : Block.WState ES := initW (geoOf .imaWav 8000 1)      -- `out` is harvested into `file` after every call
  file  : List (List Byte) := []   -- the blocks of the data region, by position
  fpos  : Nat := 0                 -- block position of the file pointer
  wcur  : Nat := 0                 -- psf->write_current
  maxf  : Nat := 0                 -- psf->sf.frames while writing
  blkc  : Nat := 0                 -- pima->blockcount / pms->blockcount
  fix   : Bool := true
  w64   : Bool := false

def outLine (xs : List Int) : String := String.join (xs.map fun x => hexFixed 4 (wrapU 16 x))

/-- the blocks the last call emitted go to the file position (over whatever a restart left there) -/
def harvest (ds : DS) (ws : Block.WState ES) : DS :=
  let nb := ws.out.reverse
  let k := nb.length
  { ds with ws := { ws with out := [] }, file := ds.file.take ds.fpos ++ nb ++ ds.file.drop (ds.fpos + k),
            fpos := ds.fpos + k, blkc := ds.blkc + k }

def runLine (ds : DS) (line : String) : DS × Option String :=
  let toks := (line.splitOn " ").filter (· ≠ "")
  match toks with
  | [] => (ds, none)
  | "codec" :: k :: rest =>
    match kindOf k with
    | none => (ds, some "bad-op")
    | some kind =>
      let g := geoOf kind (kvNat rest "sr" 8000) (kvNat rest "ch" 1)
      ({ g := g, conv := convOf rest, ws := initW g, fix := kvBool rest "seekfix" true, w64 := kvBool rest "w64" false }, some s!"open={if g.initOk then "ok" else "fail"}")
  | ["w", tyS, unit, nS, hex] =>
    match tyOf tyS with
    | none => (ds, some "bad-op")
    | some ty =>
      let n := nS.toNat!
      let items := if unit == "f" then n * ds.g.ch else n
      let vs := (parseItems ty hex).take items
      let ds1 := harvest ds (writeCall ds.g ds.conv ty ds.ws vs)
      let wcur := ds.wcur + items / ds.g.ch
      ({ ds1 with wcur := wcur, maxf := max ds.maxf wcur }, some s!"ret={n} err=0")
  | ["w", _, _, _] => (ds, some "ret=0 err=0")
  | ["seek", offS, whS] =>
    let off : Int := offS.toInt!
    let wh := whS.toNat!
    if wh == 1 && off == 0 then (ds, some s!"ret={ds.wcur} err=0")
    else
      let target : Int := if wh == 0 then off else if wh == 1 then (ds.wcur : Int) + off else ((max (openFrames ds.w64) ds.maxf : Nat) : Int) + off   -- SEEK_END: psf->sf.frames
      if wh > 2 || target < 0 then (ds, some "ret=-1 err=E")
      else
        let s := if ds.fix then seekWrite ds.g target.toNat else seekWriteOld ds.g target.toNat
        let ds1 := if s.restart then { ds with fpos := 0, blkc := 0 } else ds
        -- `msadpcm_decode_block` on a writer: blockcount++ passes `blocks` (0), so it clears the first samplesperblock * channels
        -- BYTES of the sample buffer (half of its shorts) and returns; the rest of the buffer — pending frames beyond that half and
        -- whatever the last encode left — stays and is what `msadpcm_close` pads a later partly filled block with
        let ds1 := if s.dropped then
            let g := ds1.g
            let standing := ds1.ws.buf.take (ds1.ws.cnt * g.ch) ++ ds1.ws.es.stale.drop (ds1.ws.cnt * g.ch)
            let half := g.spb * g.ch / 2
            { ds1 with ws := { ds1.ws with cnt := 0, es := { ds1.ws.es with stale := Sf.Block.zeros half ++ standing.drop half } }, blkc := ds1.blkc + 1 }
          else ds1
        match s.ret with
        | none => (ds1, some "ret=-1 err=E")
        | some r => ({ ds1 with wcur := r }, some s!"ret={r} err=0")
  | ["close"] =>
    let ds1 := harvest ds (closeSt ds.g ds.ws)
    ({ ds1 with ws := initW ds.g },
      let hf := headerFrames ds.g ds1.blkc ds.maxf (openFrames ds.w64)
      some s!"data={hexBytes ds1.file.flatten} blocks={ds1.blkc} hdrframes={hf} hdrfield={headerField ds.g hf}")
  | ["reopen"] =>
    let data := ds.file.flatten
    let r := readerOf ds.g data
    let nb := r.frames / ds.g.spb
    let stream := (List.range nb).flatMap fun k => r.src k
    (ds, some s!"frames={framesAtOpen ds.g data.length} stream={outLine stream}")
  | _ => (ds, some "bad-op")

partial def loop (h : IO.FS.Stream) (ds : DS) : IO Unit := do
  let line ← h.getLine
  if line.isEmpty then return
  let l := line.trimAscii.toString
  if l.startsWith "== " then
    IO.println l
    loop h {}
  else
    let (ds', out) := runLine ds l
    match out with
    | some s => IO.println s
    | none => pure ()
    loop h ds'

def cmd (args : List String) : IO UInt32 := do
  match args with
  | ["script"] => loop (← IO.getStdin) {}; return 0
  | ["geom"] =>
    for line in (← readLines) do
      match (line.splitOn " ").filter (· ≠ "") with
      | [k, chS, srS] =>
        match kindOf k with
        | some kind =>
          let g := geoOf kind srS.toNat! chS.toNat!
          IO.println s!"ba={g.ba} spb={g.spb} bytes={g.blockBytes} ok={if g.initOk then 1 else 0}"
        | none => IO.println "bad-kind"
      | _ => IO.println "bad-line"
    return 0
  | [k, "enc", chS, srS] =>
    match kindOf k with
    | none => IO.eprintln "sfmodel adpcmenc: unknown codec"; return 2
    | some kind =>
      let g := geoOf kind srS.toNat! chS.toNat!
      for line in (← readLines) do
        IO.println (hexBytes (closedBytes g {} [(.s16, (parseHexItems 4 line).map (sext 16))]))
      return 0
  | [k, "block", chS, srS] =>
    match kindOf k with
    | none => IO.eprintln "sfmodel adpcmenc: unknown codec"; return 2
    | some kind =>
      let g := geoOf kind srS.toNat! chS.toNat!
      for line in (← readLines) do
        let buf := Block.fixLen (g.spb * g.ch) ((parseHexItems 4 line).map (sext 16))
        let (es, bytes) := encOf g (ES.init g) buf
        IO.println s!"block={hexBytes bytes} after={outLine es.stale}"
      return 0
  | _ => IO.eprintln "usage: sfmodel adpcmenc <ima-wav|ima-aiff|ms> enc|block <channels> <samplerate> | geom | script"; return 2

end Driver.AdpcmEnc
