import SfModel.Routes
import SfModel.RoutesApi
import SfModel.RoutesLatch
import Driver.Util
/-! `sfmodel routes` — the C14 correspondence driver: the case lines of harness/routes.c interpreted on `Sf.Routes`.

      shim <name> route=path|fd|vio|pipe mode=r|w|rw cd=0|1 lead=<n> trail=<n> content=<hex|-> ops=<op>;…
      gate <name> route=fd|path|vio mode= cd= lead= trail= fmt=<hex> clen=<n> major=<hex> declared=<n> au=<0|1>

    Errors are printed by name (the check maps the library's numbers through `sfh routes consts`). -/
namespace RoutesDriver
open Sf.Routes
open Sf (hexBytes parseHexBytes parseHexNat Byte)

def parseInt (s : String) : Int :=
  if s.startsWith "-" then - ((s.drop 1).toString.toNat?.getD 0 : Int) else (s.toNat?.getD 0 : Int)

def modeOf (s : String) : Mode := if s == "r" then .r else if s == "w" then .w else .rw

def errName : Err → String
  | .none => "none" | .system => "system" | .badOffset => "badOffset" | .noEmbedSupport => "noEmbedSupport"
  | .noEmbeddedRdwr => "noEmbeddedRdwr" | .sd2Fd => "sd2Fd"

def leadJunk (n : Nat) : List Byte := (List.range n).map fun k => (0x5A ^^^ (k % 256))
def trailJunk (n : Nat) : List Byte := (List.range n).map fun k => (0xC3 ^^^ (k % 256))

def hFd : Nat := 3
def sentinel : Nat := 7

/-- the world and the opened shim of a case: (error, shim, world) -/
def setup (route : String) (mode : Mode) (cd : Bool) (lead trail : Nat) (content : List Byte) (sd2Major : Nat := 0) : OpenRes :=
  if route == "vio" then
    openFileHead (openVio mode) { mem := content ++ trailJunk trail, openFds := [sentinel] }
  else if route == "path" then
    let w0 : World := { file := content ++ trailJunk trail, fdnum := hFd, openFds := [sentinel] }
    let r := openPath w0 mode
    openFileHead r.1 r.2
  else if route == "pipe" then
    let w0 : World := { file := if mode == .w then [] else content, isPipe := true, fdnum := hFd, openFds := [hFd, sentinel] }
    openFd w0 hFd mode cd sd2Major
  else
    let w0 : World := { file := leadJunk lead ++ content ++ trailJunk trail, off := lead, fdnum := hFd, openFds := [hFd, sentinel] }
    openFd w0 hFd mode cd sd2Major

def showObs (r : R) (isRead : Bool) : String :=
  if isRead then s!" {r.ret}:{hexBytes r.data}" else s!" {r.ret}"

def runOps (sh : Shim) (w : World) (ops : List String) : String × Shim × World := Id.run do
  let mut sh := sh
  let mut w := w
  let mut latch := false        -- psf->file.seek_failed (Sf.RoutesLatch): seeks and writes go through fseekL / fwriteL
  let mut out := ""
  for op in ops do
    let f := op.splitOn ":"
    let a := parseInt (f.getD 1 "0")
    let b := parseInt (f.getD 2 "0")
    let k := f.headD ""
    let xs := Sf.RoutesLatch.fseekL { sh := sh, seekFailed := latch } w a b.toNat
    let r : Option (R × Bool) :=
      if k == "s" then some (xs.r, false)
      else if k == "t" then some (ftell sh w, false)
      else if k == "l" then some (getFilelen sh w, false)
      else if k == "x" then some (ftruncate sh w a, false)
      else if k == "c" then some (fclose sh w, false)
      else if k == "r" then some (fread sh w a b, true)
      else if k == "w" then some ((Sf.RoutesLatch.fwriteL { sh := sh, seekFailed := latch } w a b (parseHexBytes (f.getD 3 ""))).r, false)
      else none
    match r with
    | none => out := out ++ " ?"
    | some (r, isRead) =>
      out := out ++ showObs r isRead
      sh := r.sh
      w := r.w
      if k == "s" then latch := xs.seekFailed
  return (out, sh, w)

def fdState (route : String) (w : World) : String :=
  if route == "vio" then "-" else if w.openFds.contains hFd then "1" else "0"

def shimCase (name : String) (toks : List String) : String :=
  let route := (kvGet toks "route").getD "vio"
  let mode := modeOf ((kvGet toks "mode").getD "r")
  let cd := kvBool toks "cd" true
  let lead := kvNat toks "lead" 0
  let trail := kvNat toks "trail" 0
  let cs := (kvGet toks "content").getD "-"
  let content := if cs == "-" then [] else parseHexBytes cs
  let ops := ((kvGet toks "ops").getD "").splitOn ";" |>.filter (· ≠ "")
  let o := setup route mode cd lead trail content
  let head := s!"shim {name} open={errName o.err} off={o.sh.fileoffset} len={o.sh.filelength} pipe={if o.sh.isPipe then 1 else 0} |"
  let (mid, sh, w) := if o.err == .none then runOps o.sh o.w ops else ("", o.sh, o.w)
  let file := if route == "vio" then hexBytes w.mem else if route == "pipe" then (if mode == .w then hexBytes w.file else "-") else
    (if w.file.isEmpty then "" else hexBytes w.file)
  s!"{head}{mid} | err={errName sh.error} fd={fdState route w} sent={if w.openFds.contains sentinel then 1 else 0} file={file}"

def gateCase (name : String) (toks : List String) : String :=
  let route := (kvGet toks "route").getD "fd"
  let mode := modeOf ((kvGet toks "mode").getD "r")
  let cd := kvBool toks "cd" true
  let lead := kvNat toks "lead" 0
  let trail := kvNat toks "trail" 0
  let clen := kvNat toks "clen" 0
  let fmt := match kvGet toks "fmt" with | some h => parseHexNat h.toList | none => 0
  let major := match kvGet toks "major" with | some h => parseHexNat h.toList | none => 0
  let declared := parseInt ((kvGet toks "declared").getD "0")
  let au := kvBool toks "au" false
  -- the bytes do not matter for the gate, only the lengths
  let o := setup route mode cd lead trail (List.replicate clen 0) ((fmt / 65536) % 4096)
  let o : OpenRes :=
    if o.err != .none then o else
    let sh := if mode == .r then clampDeclared o.sh au declared else o.sh
    openFileTail sh o.w major
  let afterOpen := fdState route o.w
  let c := if o.err == .none then fclose o.sh o.w else { ret := -1, sh := o.sh, w := o.w }
  s!"gate {name} open={errName o.err} off={if o.err == .none then o.sh.fileoffset else 0} len={if o.err == .none then o.sh.filelength else 0} fdopen={afterOpen} | close={c.ret} fd={fdState route c.w} sent={if c.w.openFds.contains sentinel then 1 else 0}"

/-- `api <name> route= cd= lead= trail= content=<hex> dataoffset= blockwidth= align= frames= ops=s:<off>:<wh>;r:<bytes>;…`
    a read session through the public calls: open (route part), sf_seek / sf_read_raw, sf_close -/
def apiCase (name : String) (toks : List String) : String :=
  let route := (kvGet toks "route").getD "fd"
  let cd := kvBool toks "cd" true
  let lead := kvNat toks "lead" 0
  let trail := kvNat toks "trail" 0
  let cs := (kvGet toks "content").getD "-"
  let content := if cs == "-" then [] else parseHexBytes cs
  let core : Core := { dataoffset := parseInt ((kvGet toks "dataoffset").getD "0"), blockwidth := parseInt ((kvGet toks "blockwidth").getD "1"),
                       align := parseInt ((kvGet toks "align").getD "1"), frames := parseInt ((kvGet toks "frames").getD "0") }
  let ops := ((kvGet toks "ops").getD "").splitOn ";" |>.filter (· ≠ "")
  let o := setup route .r cd lead trail content
  if o.err != .none then s!"api {name} open={errName o.err}" else
  let aops : List ApiOp := ops.map fun op =>
    let f := op.splitOn ":"
    if f.headD "" == "s" then .seek (parseInt (f.getD 1 "0")) (parseInt (f.getD 2 "0")).toNat else .readRaw (parseInt (f.getD 1 "0"))
  let r := gRun concStep core (o.sh, o.w) aops
  let obs := r.1.map fun (x : ApiObs) => s!"ret={x.1} err={if x.2.2 then "E" else "0"} data={hexBytes x.2.1}"
  let c := fclose r.2.2.1 r.2.2.2
  s!"api {name} open=none | " ++ " | ".intercalate obs ++ s!" | close={c.ret} fd={fdState route c.w} sent={if c.w.openFds.contains sentinel then 1 else 0}"

def cmd (_args : List String) : IO UInt32 := do
  let lines ← readLines
  for line in lines do
    let toks := (line.splitOn " ").filter (· ≠ "")
    match toks with
    | "shim" :: name :: rest => IO.println (shimCase name rest)
    | "gate" :: name :: rest => IO.println (gateCase name rest)
    | "api" :: name :: rest => IO.println (apiCase name rest)
    | _ => pure ()
  return 0

end RoutesDriver
