/-
  `sfmodel small2 <container>` — runs the stand-alone container models of the "small containers, group 2"
  (htk | wve | mpc2k | pvf | mat4 | mat5 | xi), one request per stdin line, one answer line each:

    session codec=<hex> endian=<0..3> ch=<n> sr=<n> [name=<hex>] [text=<hex>] stale=<n> ops=<op;op;…>
         op:  w<nbytes>      one write call storing nbytes of audio
              W<nbytes>      the same with SFC_SET_UPDATE_HEADER_AUTO on
              u              SFC_UPDATE_HEADER_NOW
              c              sf_close
              d              report the store: hdr=<hex> dlen=<n>
                                    -> the `d` reports joined by " | "   (`bad-config` when the container refuses it)
    parse <hex of a whole file>     -> ok ch=<n> sr=<n> frames=<n> fmt=<8 hex> | err | unmodelled
    quant <sr>                      -> the rate a reader reports for a file written at <sr>
    clash <sr> <frames>             -> (htk) 1 when the file is in the class KF-HTK-MAGIC-CLASH, else 0
-/
import SfModel.Basic
import SfModel.Small2
import SfModel.Htk
import SfModel.Wve
import SfModel.Mpc2k
import SfModel.Pvf
import SfModel.Mat4
import Driver.Util
open Sf (hexBytes hexFixed parseHexBytes parseHexNat Byte)
open Sf.Small2

namespace Driver.Small2

def report (s : St) : String := s!"hdr={hexBytes s.hdr} dlen={s.data.length}"

def runOps (F : Fmt) (ops : List String) (s : St) (acc : List String) : List String :=
  match ops with
  | [] => acc.reverse
  | op :: rest =>
    if op == "u" then runOps F rest (update F s) acc
    else if op == "c" then runOps F rest (close F s) acc
    else if op == "d" then runOps F rest s (report s :: acc)
    else if op.startsWith "w" || op.startsWith "W" then
      let n := ((op.drop 1).toString.toNat?).getD 0
      runOps F rest (write F s (List.replicate n 0) (op.startsWith "W")) acc
    else runOps F rest s acc

def showRes : ParseRes → String
  | .ok i => s!"ok ch={i.ch} sr={i.sr} frames={i.frames} fmt={hexFixed 8 i.fmt}"
  | .err => "err"
  | .unmodelled => "unmodelled"

structure Container where
  fmtOf : List String → Option Fmt
  parse : List Byte → ParseRes
  quant : Nat → Nat := id
  extra : List String → Option String := fun _ => none

def hexKey (toks : List String) (key : String) : Nat := parseHexNat ((kvGet toks key).getD "0").toList

def htk : Container :=
  { fmtOf := fun toks =>
      if hexKey toks "codec" = 2 ∧ kvNat toks "ch" 1 = 1 ∧ (kvNat toks "endian" 0 = 0 ∨ kvNat toks "endian" 0 = 2)
      then some (Sf.Htk.fmt (kvNat toks "sr" 1)) else none,
    parse := Sf.Htk.parse,
    quant := Sf.Htk.quant,
    extra := fun toks =>
      match toks with
      | "clash" :: sr :: n :: _ =>
        let a := be32 ((n.toNat?.getD 0 : Nat) : Int)
        some (if (preHtk a (be32 (Sf.Htk.period (sr.toNat?.getD 1))) [0, 2, 0, 0]).isSome then "1" else "0")
      | _ => none }

def endianOf (toks : List String) : Nat := kvNat toks "endian" 0

def wve : Container :=
  { fmtOf := fun toks =>
      if hexKey toks "codec" = 0x11 ∧ kvNat toks "ch" 1 = 1 ∧ endianOf toks < 2 then some Sf.Wve.fmt else none,
    parse := Sf.Wve.parse,
    quant := Sf.Wve.quant }

def mpc2k : Container :=
  { fmtOf := fun toks =>
      let c : Sf.Mpc2k.Cfg :=
        { ch := kvNat toks "ch" 1, sr := kvNat toks "sr" 1,
          name := match kvGet toks "name" with | some h => parseHexBytes h | none => List.replicate 17 0x20 }
      if hexKey toks "codec" = 2 ∧ endianOf toks < 2 ∧ decide c.wf then some (Sf.Mpc2k.fmt c) else none,
    parse := Sf.Mpc2k.parse,
    quant := Sf.Mpc2k.quant }

def pvf : Container :=
  { fmtOf := fun toks =>
      let c : Sf.Pvf.Cfg := { codec := hexKey toks "codec", ch := kvNat toks "ch" 1, sr := kvNat toks "sr" 1 }
      if endianOf toks < 4 ∧ decide c.wf then some (Sf.Pvf.fmt c) else none,
    parse := Sf.Pvf.parse,
    quant := Sf.Pvf.quant }

def mat4 : Container :=
  { fmtOf := fun toks =>
      let c : Sf.Mat4.Cfg := { codec := hexKey toks "codec", endian := endianOf toks, ch := kvNat toks "ch" 1, sr := kvNat toks "sr" 1 }
      if decide c.wf then some (Sf.Mat4.fmt c) else none,
    parse := Sf.Mat4.parse,
    quant := Sf.Mat4.quant }

def containerOf (name : String) : Option Container :=
  match name with
  | "mat4" => some mat4
  | "pvf" => some pvf
  | "htk" => some htk
  | "wve" => some wve
  | "mpc2k" => some mpc2k
  | _ => none

def answer (C : Container) (line : String) : String :=
  let toks := (line.splitOn " ").filter (· ≠ "")
  match C.extra toks with
  | some r => r
  | none =>
  match toks with
  | "session" :: rest =>
    match C.fmtOf rest with
    | none => "bad-config"
    | some F =>
      let ops := ((kvGet rest "ops").getD "").splitOn ";"
      " | ".intercalate (runOps F ops (openW F (kvNat rest "stale" 0)) [])
  | "parse" :: h :: _ => showRes (C.parse (if h == "-" then [] else parseHexBytes h))
  | "quant" :: n :: _ => toString (C.quant (n.toNat?.getD 0))
  | _ => "bad-request"

partial def loop (C : Container) (h : IO.FS.Stream) : IO Unit := do
  let line ← h.getLine
  if line.isEmpty then return
  IO.println (answer C line.trimAscii.toString)
  loop C h

def cmd (args : List String) : IO UInt32 := do
  match args with
  | name :: _ =>
    match containerOf name with
    | some C => loop C (← IO.getStdin); return 0
    | none => IO.eprintln "usage: sfmodel small2 htk|wve|mpc2k|pvf|mat4|mat5|xi"; return 2
  | _ => IO.eprintln "usage: sfmodel small2 htk|wve|mpc2k|pvf|mat4|mat5|xi"; return 2

end Driver.Small2
