/-
  `sfmodel small1 <container>` — runs the stand-alone container models of group 1 (SfModel/Avr.lean, Ircam.lean,
  Paf.lean, Svx.lean over SfModel/SmallSession.lean), one request per stdin line, one answer
  line each.  <container> = avr | ircam | paf | svx  (voc, nist: not yet).

    hdr codec=<hex> endian=<0..3> ch=<n> sr=<n> [name=<hex>] frames=<n> filelength=<int> datalength=<int>
                                    -> <hex of the header writer's output>   (`bad-config` when not accepted)
    session codec=<hex> endian=<0..3> ch=<n> sr=<n> [name=<hex>] stale=<n> ops=<op;op;…>
         op:  w<nbytes>       one write call storing nbytes of audio
              W<nbytes>       the same with SFC_SET_UPDATE_HEADER_AUTO on
              u               SFC_UPDATE_HEADER_NOW
              c               sf_close
              d               report the store: hdr=<hex> dlen=<n> tail=<hex>
                                    -> the `d` reports joined by " | "
    parse <hex of a whole file>     -> ok ch=<n> sr=<n> frames=<n> fmt=<8 hex> | err | unmodelled
    rate <n>                        -> the container's rate quantiser: q=<n> | q=lost
-/
import SfModel.Basic
import SfModel.SmallSession
import SfModel.Avr
import SfModel.Ircam
import SfModel.Paf
import SfModel.Svx
import Driver.Util
open Sf (hexBytes hexFixed parseHexBytes parseHexNat Byte)
open Sf.Small

namespace Driver.Small1

def intOf (s : String) : Int :=
  if s.startsWith "-" then - ((s.drop 1).toNat?.getD 0 : Nat) else ((s.toNat?.getD 0 : Nat) : Int)

def report (s : St) : String := s!"hdr={hexBytes s.hdr} dlen={s.data.length} tail={hexBytes s.tail}"

def runOps (sp : Spec) (ops : List String) (s : St) (acc : List String) : List String :=
  match ops with
  | [] => acc.reverse
  | op :: rest =>
    if op == "u" then runOps sp rest (update sp s) acc
    else if op == "c" then runOps sp rest (close sp s) acc
    else if op == "d" then runOps sp rest s (report s :: acc)
    else if op.startsWith "w" || op.startsWith "W" then
      let n := ((op.drop 1).toString.toNat?).getD 0
      runOps sp rest (write sp s (List.replicate n 0) (op.startsWith "W")) acc
    else runOps sp rest s acc

def showRes : ParseRes → String
  | .ok i => s!"ok ch={i.ch} sr={i.sr} frames={i.frames} fmt={hexFixed 8 i.fmt}"
  | .err => "err"
  | .unmodelled => "unmodelled"

/-- what a container contributes: the write-side `Spec` of a request (none = not accepted), its reader, its rate quantiser -/
structure Container where
  spec : List String → Option Spec
  parse : List Byte → ParseRes
  rate : Nat → Option Nat

def codecOf (toks : List String) : Nat := parseHexNat ((kvGet toks "codec").getD "0").toList
def nameOf (toks : List String) : List Byte := parseHexBytes ((kvGet toks "name").getD "")

def avr : Container where
  spec toks :=
    let c : Sf.Avr.Cfg := { codec := codecOf toks, endian := kvNat toks "endian" 0, ch := kvNat toks "ch" 1, sr := kvNat toks "sr" 1 }
    if decide c.wf then some (Sf.Avr.spec c) else none
  parse := Sf.Avr.parse
  rate r := some r

def ircam : Container where
  spec toks :=
    let c : Sf.Ircam.Cfg := { codec := codecOf toks, endian := kvNat toks "endian" 0, ch := kvNat toks "ch" 1, sr := kvNat toks "sr" 1 }
    if decide c.wf then some (Sf.Ircam.spec c) else none
  parse := Sf.Ircam.parse
  rate := Sf.Ircam.rateQ

def paf : Container where
  spec toks :=
    let c : Sf.Paf.Cfg := { codec := codecOf toks, endian := kvNat toks "endian" 0, ch := kvNat toks "ch" 1, sr := kvNat toks "sr" 1 }
    if decide c.wf then some (Sf.Paf.spec c) else none
  parse := Sf.Paf.parse
  rate r := some r

def svx : Container where
  spec toks :=
    let c : Sf.Svx.Cfg := { codec := codecOf toks, endian := kvNat toks "endian" 0, ch := kvNat toks "ch" 1, sr := kvNat toks "sr" 1, name := nameOf toks }
    if decide c.wf then some (Sf.Svx.spec c) else none
  parse := Sf.Svx.parse
  rate := Sf.Svx.rateQ

def containerOf (s : String) : Option Container :=
  if s == "avr" then some avr
  else if s == "ircam" then some ircam
  else if s == "paf" then some paf
  else if s == "svx" then some svx
  else none

def answer (ct : Container) (line : String) : String :=
  let toks := (line.splitOn " ").filter (· ≠ "")
  match toks with
  | "hdr" :: rest =>
    match ct.spec rest with
    | none => "bad-config"
    | some sp => hexBytes (sp.hdr (kvNat rest "frames" 0) (intOf ((kvGet rest "filelength").getD "0")) (intOf ((kvGet rest "datalength").getD "0")))
  | "session" :: rest =>
    match ct.spec rest with
    | none => "bad-config"
    | some sp =>
      let ops := ((kvGet rest "ops").getD "").splitOn ";"
      " | ".intercalate (runOps sp ops (openW sp (kvNat rest "stale" 0)) [])
  | "parse" :: h :: _ => showRes (ct.parse (parseHexBytes h))
  | "rate" :: n :: _ => match ct.rate (n.toNat?.getD 0) with | some q => s!"q={q}" | none => "q=lost"
  | _ => "bad-request"

partial def loop (ct : Container) (h : IO.FS.Stream) : IO Unit := do
  let line ← h.getLine
  if line.isEmpty then return
  IO.println (answer ct line.trimAscii.toString)
  loop ct h

def cmd (args : List String) : IO UInt32 := do
  match args.head? >>= containerOf with
  | none => IO.eprintln "usage: sfmodel small1 avr|ircam|paf|svx"; return 2
  | some ct =>
    loop ct (← IO.getStdin)
    return 0

end Driver.Small1
