/-
  `sfmodel nms …` — runs the NMS ADPCM model (SfModel/Nms.lean, NmsFile.lean).

      sfmodel nms enc <16|24|32>         one line of 4-digit hex shorts per stdin line -> hex bytes of the closed data region
                                         (whole blocks, the last one zero-padded, encoder state carried across blocks)
      sfmodel nms dec <16|24|32> [old]   one line of hex bytes (a data region) per stdin line -> the decoded sample stream, 4-digit hex
                                         shorts, `blocks_total * 160` of them (`old`: the short-block rule before the repair)
      sfmodel nms codes <16|24|32>       one line of 4-digit hex shorts -> the codewords of the encoder, one hex digit each
      sfmodel nms script                 scripts:

      == <name>
      codec nms rate=<16|24|32> [normF=0|1 normD=0|1 variant=sse2|lrint] [rule=old]
      w <ty> <i|f> <count> <hex items>      -> ret=<n> err=0
      close                                 -> data=<hex>     the bytes nms_adpcm_close leaves in the data region
      load <hex> [tail=<hex>]               -> frames=<n>     read handle over this data region; tail = the bytes of the file behind it
      r <ty> <i|f> <count>                  -> ret=<n> err=<0|E> data=<hex of the cells of the caller's buffer that were written (a prefix of the request)>
      seek <offset> <whence>                -> ret=-1 err=E   (sf.seekable is false: every sf_seek is refused)
-/
import SfModel.NmsFile
import Driver.Util
open Sf Sf.Nms Sf.Block

namespace Driver.Nms

def rateOf (s : String) : Rate := if s == "16" then .r16 else if s == "24" then .r24 else .r32

structure DS where
  rate : Rate := .r32
  conv : Conv := {}
  old  : Bool := false
  ws   : WState St := openW .r32
  rh   : Option RHandle := none
  sticky : Bool := false

def runLine (ds : DS) (line : String) : DS × Option String :=
  let toks := (line.splitOn " ").filter (· ≠ "")
  match toks with
  | [] => (ds, none)
  | "codec" :: _ :: rest =>
    let r := rateOf ((kvGet rest "rate").getD "32")
    ({ rate := r, conv := convOf rest, old := kvGet rest "rule" == some "old", ws := openW r }, none)
  | ["w", tyS, _, nS, hex] =>
    match tyOf tyS with
    | none => (ds, some "bad-op")
    | some ty =>
      let n := nS.toNat!
      let vs := (parseItems ty hex).take n
      ({ ds with ws := writeCall ds.rate ds.conv ds.ws (ty, vs) }, some s!"ret={n} err=0")
  | ["w", _, _, _] => (ds, some "ret=0 err=0")
  | ["close"] =>
    let bytes := (closeW ds.rate ds.ws).bytes
    ({ ds with ws := openW ds.rate }, some ("data=" ++ hexBytes bytes))
  | "load" :: rest =>
    let (hex, opts) : String × List String :=
      match rest with
      | h :: o => if (h.splitOn "=").length > 1 then ("", rest) else (h, o)
      | [] => ("", [])
    let data := parseHexBytes hex
    let tail := parseHexBytes ((kvGet opts "tail").getD "")
    let h := openRIn ds.rate ds.old data.length (data ++ tail)
    ({ ds with rh := some h, sticky := false }, some s!"frames={h.frames}")
  | ["r", tyS, _, nS] =>
    match tyOf tyS, ds.rh with
    | some ty, some h =>
      let n := nS.toNat!
      let err := if n == 0 && ds.sticky then "E" else "0"
      let ds := if n == 0 then ds else { ds with sticky := false }
      let (h', vs, ret) := read ds.conv ty h n
      ({ ds with rh := some h' }, some s!"ret={ret} err={err} data={showItems ty vs}")
    | _, _ => (ds, some "bad-op")
  | ["seek", _, _] =>
    match ds.rh with
    | some _ => ({ ds with sticky := true }, some "ret=-1 err=E")
    | none => (ds, some "bad-op")
  | _ => (ds, some "bad-op")

partial def loop (h : IO.FS.Stream) (ds : DS) : IO Unit := do
  let line ← h.getLine
  if line.isEmpty then return
  let l := line.trimAscii.toString
  if l.startsWith "== " then
    IO.println l
    loop h {}
  else
    let (ds', out) := runLine ds l
    match out with
    | some s => IO.println s
    | none => pure ()
    loop h ds'

def showShorts (vs : List Int) : String := String.join (vs.map fun v => hexFixed 4 (wrapU 16 v))

def cmd (args : List String) : IO UInt32 := do
  match args with
  | ["script"] => loop (← IO.getStdin) {}; return 0
  | ["enc", b] =>
    let r := rateOf b
    for line in (← readLines) do
      let xs := (parseHexItems 4 line).map (sext 16)
      IO.println (hexBytes (encodeAll r (xs.length + 1) (St.init r) xs))
    return 0
  | ["codes", b] =>
    let r := rateOf b
    for line in (← readLines) do
      let xs := (parseHexItems 4 line).map (sext 16)
      IO.println (String.ofList ((encodeSamples (St.init r) xs 0).2.1.map hexDigit))
    return 0
  | "dec" :: b :: rest =>
    let r := rateOf b
    let fill := if rest == ["old"] then blockWordsOld else blockWords
    for line in (← readLines) do
      IO.println (showShorts (decodedBlocks r fill (parseHexBytes line)).flatten)
    return 0
  | _ => IO.eprintln "usage: sfmodel nms enc|dec|codes <16|24|32> | script"; return 2

end Driver.Nms
