import Driver.Util
import Driver.Script
import SfModel.World
open Sf Sf.World

/-! `sfmodel world` — interprets the harness script language on `Sf.World.wstep` (SfModel/World.lean, the definition
    the C19 theorems are about): any number of handles h0… on stores s0…, interleaved freely, plus the calls made with
    a NULL handle (`strerror null`, calls on a slot whose open failed or which was closed).

    A line the model does not describe prints `unmodelled` and poisons only what it could have touched: its slot and
    its store (later lines on either print `unmodelled` too); after an unmodelled open the process-wide error state is
    unknown until the next modelled open. -/

namespace WorldDriver

structure RS where
  w : W := {}
  deadSlot : List Nat := []
  deadStore : List Nat := []
  globalsKnown : Bool := true

def RS.kill (st : RS) (slot : Option Nat) (store : Option Nat) (globals : Bool) : RS :=
  { st with deadSlot := (match slot with | some i => i :: st.deadSlot | none => st.deadSlot),
            deadStore := (match store with | some k => k :: st.deadStore | none => st.deadStore),
            globalsKnown := st.globalsKnown && !globals }

/-- the process-wide error number is printed symbolically (the check measures the two constants on the library) -/
def gerrStr (e : Int) : String :=
  if e == 0 then "err=0" else if e == E_BAD_SNDFILE_PTR then "err=PTR" else if e == E_BAD_COMMAND_PARAM then "err=PARAM" else "err=E"

inductive Shape | w | r (ty : Ty) (items : Nat) | seek | cmd (dataS : String) | close | info | strerr | open

def render (sh : Shape) (o : WOut) : String :=
  match o with
  | .unmodelled => "unmodelled"
  | .opened h => showOpen h
  | .openFailed => "open=NULL err=E"
  | .closed => "ret=0"
  | .info h => s!"ret=0 ch={h.ch} sr={h.sr} frames={h.frames} fmt={hexFixed 8 h.fmtWord} sections=1 seekable=1"
  | .nullInfo => "ret=0 ch=0 sr=0 frames=0 fmt=00000000 sections=0 seekable=0"
  | .err e => errStr e
  | .nullErr e => gerrStr e
  | .nullLog _ => "unmodelled"
  | .nullCall o =>
    match sh with
    | .r _ _ => s!"ret={o.ret} {gerrStr o.err} data="
    | .cmd d => s!"ret={o.ret} {gerrStr o.err} data={d}"
    | _ => s!"ret={o.ret} {gerrStr o.err}"
  | .call o =>
    match sh with
    | .r ty items =>
      let buf := if o.hasData then o.data else List.replicate items (pattern ty)
      s!"ret={o.ret} {errStr o.err} data={showItems ty buf}"
    | .cmd d => s!"ret={if o.ret == E_BAD_COMMAND_PARAM then "E" else toString o.ret} {errStr o.err} data={d}"
    | _ => s!"ret={o.ret} {errStr o.err}"

/-- run one library call of slot `i` -/
def call (st : RS) (i : Nat) (op : WOp) (sh : Shape) : RS × String :=
  let slot := st.w.handles i
  let tch := touched slot op
  let dead := st.deadSlot.contains i || (match tch with | some k => st.deadStore.contains k | none => false)
  if dead then (st.kill (some i) tch (match op with | .open .. => true | _ => false), "unmodelled") else
  let r := wstep st.w (i, op)
  let readsG : Bool := match r.2 with | .nullErr _ | .nullLog _ => true | .nullCall _ => slot.isNone && zeroLen op | _ => false
  match r.2 with
  | .unmodelled => (st.kill (some i) tch (match op with | .open .. => true | _ => false), "unmodelled")
  | out =>
    if readsG && !st.globalsKnown then ({ st with w := r.1 }, "unmodelled") else
    let known := match op with | .open .. => true | _ => st.globalsKnown
    ({ st with w := r.1, globalsKnown := known }, render sh out)

def zerosHex (n : Int) : String := String.join (List.replicate n.toNat "00")

def runLine (st : RS) (line : String) : RS × Option String :=
  let toks := (line.splitOn " ").filter (· ≠ "")
  let bad (slot : Option Nat) (store : Option Nat) : RS × Option String := (st.kill slot store true, some "unmodelled")
  match toks with
  | [] => (st, none)
  | "open" :: hn :: sn :: m :: rest =>
    match modeOfStr m with
    | none => bad (some (idxOf hn)) (some (idxOf sn))
    | some mode =>
      let route := (kvGet rest "route").getD "vio"
      if !(route == "vio" ∨ route == "fd" ∨ route == "fd1" ∨ route == "path") then bad (some (idxOf hn)) (some (idxOf sn)) else
      let fmt := match kvGet rest "fmt" with | some h => parseHexNat h.toList | none => 0
      let ch := parseIntStr ((kvGet rest "ch").getD "0")
      let sr := parseIntStr ((kvGet rest "sr").getD "0")
      let (st, out) := call st (idxOf hn) (.open (idxOf sn) mode fmt ch sr (route != "vio")) .open
      (st, some out)
  | "w" :: hn :: tyS :: unit :: n :: drest =>
    match tyOf tyS with
    | none => bad (some (idxOf hn)) none
    | some ty =>
      let (st, out) := call st (idxOf hn) (.call (.write 0 ty (unit == "f") (parseIntStr n) (parseItems ty (drest.headD "")))) .w
      (st, some out)
  | ["r", hn, tyS, unit, n] =>
    match tyOf tyS with
    | none => bad (some (idxOf hn)) none
    | some ty =>
      let nn := parseIntStr n
      let ch : Nat := match st.w.handles (idxOf hn) with | some h => h.ch | none => 1
      let items : Int := if unit == "f" then nn * ch else nn
      let (st, out) := call st (idxOf hn) (.call (.read 0 ty (unit == "f") nn)) (.r ty items.toNat)
      (st, some out)
  | ["seek", hn, off, wh] =>
    let (st, out) := call st (idxOf hn) (.call (.seek 0 (parseIntStr off) (parseIntStr wh))) .seek
    (st, some out)
  | "cmd" :: hn :: idS :: sizeS :: rest =>
    let id := parseHexNat idS.toList
    let size := parseIntStr sizeS
    let dataS := rest.headD "null"
    let i := idxOf hn
    if hn == "null" then bad none none else
    if id == 0x1080 then
      if size != 8 ∨ dataS == "null" ∨ dataS == "zero" then bad (some i) ((st.w.handles i).map (·.store)) else
      let v : Int := sext 64 (ofLE (parseHexBytes dataS))
      let (st, out) := call st i (.call (.truncate 0 v)) (.cmd dataS)
      (st, some out)
    else if id ∈ [0x1013, 0x1012, 0x1011, 0x1010, 0x10C0, 0x10C1, 0x1015, 0x1061, 0x1060] ∧ dataS == "null" then
      let (st, out) := call st i (.call (.cmdFlag 0 id size)) (.cmd "null")
      (st, some out)
    else if id == 0x1002 ∧ size != 32 ∧ (dataS == "null" ∨ dataS == "zero") then
      let (st, out) := call st i .infoBadSize (.cmd (if dataS == "null" then "null" else zerosHex size))
      (st, some out)
    else bad (some i) ((st.w.handles i).map (·.store))
  | ["close", hn] =>
    let (st, out) := call st (idxOf hn) (.call (.close 0)) .close
    (st, some out)
  | ["info", hn] =>
    let (st, out) := call st (idxOf hn) .info .info
    (st, some out)
  | ["strerror", hn] =>
    let (st, out) := if hn == "null" then call st 0 .nullError .strerr else call st (idxOf hn) .herror .strerr
    (st, some out)
  -- harness operations on the stores (no library call)
  | ["dump", sn] =>
    let k := idxOf sn
    if st.deadStore.contains k then (st, some "unmodelled") else
    let s := st.w.stores k
    (st, some s!"len={s.bytes.length} hex={hexBytes s.bytes}")
  | "store" :: sn :: rest =>
    let k := idxOf sn
    if st.deadStore.contains k then (st, some "unmodelled") else
    let bs := parseHexBytes (rest.headD "")
    ({ st with w := { st.w with stores := upd st.w.stores k { bytes := bs, pos := 0 } } }, some s!"len={bs.length}")
  | ["copy", dn, sn] =>
    let (d, k) := (idxOf dn, idxOf sn)
    if st.deadStore.contains k ∨ st.deadStore.contains d then (st.kill none (some d) false, some "unmodelled") else
    let s := st.w.stores k
    ({ st with w := { st.w with stores := upd st.w.stores d { bytes := s.bytes, pos := 0 } } }, some s!"len={s.bytes.length}")
  | ["trunc", sn, n] =>
    let k := idxOf sn
    if st.deadStore.contains k then (st, some "unmodelled") else
    let s := st.w.stores k
    let m := (parseIntStr n).toNat
    let bs := if m < s.bytes.length then s.bytes.take m else s.bytes
    ({ st with w := { st.w with stores := upd st.w.stores k { s with bytes := bs } } }, some s!"len={bs.length}")
  | t :: _ => if t.startsWith "#" then (st, none) else bad none none

/-- stdin: scripts separated by `== name` lines; output mirrors `sfh batch`. -/
def cmd (_args : List String) : IO UInt32 := do
  let lines ← readLines
  let mut st : RS := {}
  let mut inBatch := false
  for line in lines do
    if line.startsWith "== " then
      if inBatch then IO.println "== end"
      IO.println line
      inBatch := true
      st := {}
    else
      let (st', out) := runLine st line
      st := st'
      match out with
      | some o => IO.println o
      | none => pure ()
  if inBatch then IO.println "== end"
  return 0

end WorldDriver
