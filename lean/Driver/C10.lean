/-
  sfmodel c10grid | c10points | c10enum — the model's side of the C10 correspondence.
  Uses the very definitions `SfProps.C10` is about (`Sf.Fmt.line`, `Sf.Fmt.outcome`).
-/
import SfModel.FormatCheck
import SfModel.Generated.FormatLists
namespace Sf.C10Driver
open Sf Sf.Fmt Sf.Generated

def endians : List Int := [E_FILE, E_LITTLE, E_BIG, E_CPU]
def chans : List Int := [0, 1, 2, 3, 8, 9, 256, 257, 1024, 1025]
def rates : List Int := [-1, 0, 1, 8000, 44100, 2147483647]
def framesPerWrite : Int := 3

/-- `k/n` slice argument: pair index % n == k, as in `sfh grid c10 k/n` -/
def parseSlice (s : String) : Nat × Nat :=
  match s.splitOn "/" with
  | [a, b] => (a.toNat!, max 1 b.toNat!)
  | _ => (0, 1)

/-- same order as harness/grid_c10.c: majors, subtypes, endians, channels, rates -/
def gridCmd (args : List String) : IO UInt32 := do
  let (k, n) := parseSlice (args.headD "0/1")
  let out ← IO.getStdout
  let majors := majorFormats.map (·.1)
  let subs := subtypeFormats.map (·.1)
  out.putStrLn s!"grid majors={majors.length} subtypes={subs.length} endians={endians.length} channels={chans.length} rates={rates.length} slice={k}/{n}"
  let mut pair := 0
  for m in majors do
    for s in subs do
      if pair % n == k then
        for e in endians do
          for c in chans do
            for r in rates do
              out.putStrLn (line (m + s + e) c r framesPerWrite)
      pair := pair + 1
  out.putStrLn "grid end"
  return 0

/-- `sf_format_check` alone for every channel count −1 … 1026 at 8000 Hz, as `sfh grid c10 fcheck` prints it -/
def fcheckCmd : IO UInt32 := do
  let out ← IO.getStdout
  for m in majorFormats.map (·.1) do
    for s in subtypeFormats.map (·.1) do
      for e in endians do
        let f := m + s + e
        let bits := (List.range 1028).map fun (i : Nat) => if check f (Int.ofNat i - 1) 8000 then '1' else '0'
        out.putStrLn s!"f fmt={hex8 f} sr=8000 ch=-1..1026 {String.ofList bits}"
  return 0

def parseInt (s : String) : Int :=
  if s.startsWith "-" then - ((s.drop 1).toNat! : Int) else (s.toNat! : Int)

/-- stdin: `<fmt-hex> <channels> <samplerate> [frames]` per line -/
def pointsCmd : IO UInt32 := do
  let h ← IO.getStdin
  let out ← IO.getStdout
  repeat
    let l ← h.getLine
    if l.isEmpty then break
    match (l.trimAscii.toString.splitOn " ").filter (· ≠ "") with
    | f :: c :: r :: rest =>
      let fv : Int := sext 32 (parseHexNat f.toList)
      let n := match rest with | x :: _ => parseInt x | [] => framesPerWrite
      out.putStrLn (line fv (parseInt c) (parseInt r) n)
    | _ => pure ()
  return 0

def hexStr (s : String) : String := hexBytes (s.toUTF8.toList.map (·.toNat))

/-- what `SFC_GET_SIMPLE_FORMAT / _MAJOR / _SUBTYPE` answer for index k, k = -1 … count+1.
    Out of range: an error, and only the subtype command clears the format field. -/
def enumLines (nm : String) (l : List (Int × String × Option String)) (clears : Bool) : List String :=
  let cnt : Int := l.length
  s!"{nm} count={cnt} ret=0" ::
  (List.range (l.length + 3)).map fun (i : Nat) =>
    let k : Int := Int.ofNat i - 1
    if k < 0 ∨ k ≥ cnt then
      s!"{nm} {k} ret=E fmt={hex8 (if clears then 0 else k)} name=null ext=null"
    else
      match l[i - 1]? with
      | some (f, name, ext) =>
        s!"{nm} {k} ret=0 fmt={hex8 f} name={hexStr name} ext={match ext with | some e => hexStr e | none => "null"}"
      | none => "?"

def enumCmd : IO UInt32 := do
  for l in enumLines "simple" simpleFormats false do IO.println l
  for l in enumLines "major" majorFormats false do IO.println l
  for l in enumLines "subtype" subtypeFormats true do IO.println l
  return 0

end Sf.C10Driver
