/-
  Helper lemmas about the G.72x model (SfModel/G72x.lean, G72xFile.lean): ranges of `s16`, `quan`, the quantizer's
  code, lengths of the packed / unpacked / encoded / decoded lists.
-/
import SfModel.G72xFile
namespace Sf.G72x.Proofs
open Sf Sf.G72x Sf.Block

theorem s16_range (x : Int) : -32768 ≤ s16 x ∧ s16 x ≤ 32767 := by
  simp only [s16, wrapS]
  have h : ((2 : Int) ^ 16) = 65536 := by decide
  rw [h]
  split <;> omega

theorem s16_id (x : Int) (h1 : -32768 ≤ x) (h2 : x ≤ 32767) : s16 x = x := by
  simp only [s16, wrapS]
  have h : ((2 : Int) ^ 16) = 65536 := by decide
  rw [h]
  split <;> omega

theorem quan_bounds (v : Int) : ∀ (t : List Int), 0 ≤ quan v t ∧ quan v t ≤ t.length := by
  intro t
  induction t with
  | nil => simp [quan]
  | cons a t ih =>
    simp only [quan, List.length_cons]
    split
    · constructor <;> omega
    · constructor <;> push_cast <;> omega

/-- the code `quantize` returns lies in [1, 2·size + 1] -/
theorem quantize_range (d y : Int) (table : List Int) :
    1 ≤ quantize d y table ∧ quantize d y table ≤ 2 * table.length + 1 := by
  unfold quantize
  simp only
  generalize hq : quan _ table = i
  have hb := quan_bounds (s16 (s16 (shl (s16 (quan (shr (s16 ↑d.natAbs) 1) power2)) 7 +
      s16 (shr (shl (s16 ↑d.natAbs) 7) (s16 (quan (shr (s16 ↑d.natAbs) 1) power2)) % 128)) - shr y 2)) table
  rw [hq] at hb
  split
  · omega
  · split <;> omega

theorem unpackLoop_length (bits : Nat) : ∀ (k buf nb : Nat) (bs : List Byte), (unpackLoop bits k buf nb bs).length = k := by
  intro k
  induction k with
  | zero => intro buf nb bs; simp [unpackLoop]
  | succ k ih =>
    intro buf nb bs
    simp only [unpackLoop]
    split <;> simp [ih]

theorem unpack_length (bits : Nat) (block : List Byte) : (unpack bits block).length = blockSamples :=
  unpackLoop_length bits _ _ _ _

theorem unpackLoop_lt (bits : Nat) : ∀ (k buf nb : Nat) (bs : List Byte), ∀ c ∈ unpackLoop bits k buf nb bs, c < 2 ^ bits := by
  intro k
  induction k with
  | zero => intro buf nb bs c hc; simp [unpackLoop] at hc
  | succ k ih =>
    intro buf nb bs c hc
    simp only [unpackLoop] at hc
    split at hc
    all_goals
      rcases List.mem_cons.mp hc with h | h
      · rw [h]; exact Nat.mod_lt _ (Nat.two_pow_pos bits)
      · exact ih _ _ _ c h

theorem decodeList_length (r : Rate) : ∀ (cs : List Nat) (st : St), (decodeList r st cs).2.length = cs.length := by
  intro cs
  induction cs with
  | nil => intro st; simp [decodeList]
  | cons c cs ih => intro st; simp [decodeList, ih]

theorem decodeBlock_length (r : Rate) (st : St) (b : List Byte) : (decodeBlock r st b).2.length = blockSamples := by
  simp [decodeBlock, decodeList_length, unpack_length]

theorem encodeList_length (r : Rate) : ∀ (xs : List Int) (st : St), (encodeList r st xs).2.length = xs.length := by
  intro xs
  induction xs with
  | nil => intro st; simp [encodeList]
  | cons x xs ih => intro st; simp [encodeList, ih]

/-- every value the decoder stores is a C `short` -/
theorem decode_range (r : Rate) (st : St) (c : Int) : -32768 ≤ (decode r st c).2 ∧ (decode r st c).2 ≤ 32767 := by
  simp only [decode]
  exact s16_range _

theorem decodeList_range (r : Rate) : ∀ (cs : List Nat) (st : St), ∀ v ∈ (decodeList r st cs).2, -32768 ≤ v ∧ v ≤ 32767 := by
  intro cs
  induction cs with
  | nil => intro st v hv; simp [decodeList] at hv
  | cons c cs ih =>
    intro st v hv
    simp only [decodeList] at hv
    rcases List.mem_cons.mp hv with h | h
    · rw [h]; exact decode_range r st c
    · exact ih _ v h

theorem decodeBufs_length (r : Rate) : ∀ (bs : List (List Byte)) (st : St), ∀ b ∈ decodeBufs r st bs, b.length = blockSamples := by
  intro bs
  induction bs with
  | nil => intro st b hb; simp [decodeBufs] at hb
  | cons x xs ih =>
    intro st b hb
    simp only [decodeBufs] at hb
    rcases List.mem_cons.mp hb with h | h
    · rw [h]; exact decodeBlock_length r st x
    · exact ih _ b h

theorem decodeBufs_range (r : Rate) : ∀ (bs : List (List Byte)) (st : St), ∀ b ∈ decodeBufs r st bs, ∀ v ∈ b, -32768 ≤ v ∧ v ≤ 32767 := by
  intro bs
  induction bs with
  | nil => intro st b hb; simp [decodeBufs] at hb
  | cons x xs ih =>
    intro st b hb
    simp only [decodeBufs] at hb
    rcases List.mem_cons.mp hb with h | h
    · rw [h]; exact decodeList_range r _ _
    · exact ih _ b h

theorem getD_mem_or {α : Type} (l : List α) (k : Nat) (d : α) : l.getD k d ∈ l ∨ l.getD k d = d := by
  by_cases h : k < l.length
  · left; simp [List.getD, List.getElem?_eq_getElem h]
  · right; simp [List.getD, List.getElem?_eq_none (by omega : l.length ≤ k)]

/-- every block the reader hands out has 120 items -/
theorem reader_src_length (r : Rate) (data : List Byte) (k : Nat) : ((reader r data).src k).length = blockSamples := by
  simp only [reader]
  rcases getD_mem_or (decodeAll r data) k (zeros blockSamples) with h | h
  · exact decodeBufs_length r _ _ _ h
  · rw [h]; simp [zeros]

theorem reader_src_range (r : Rate) (data : List Byte) (k : Nat) : ∀ v ∈ (reader r data).src k, -32768 ≤ v ∧ v ≤ 32767 := by
  simp only [reader]
  rcases getD_mem_or (decodeAll r data) k (zeros blockSamples) with h | h
  · exact decodeBufs_range r _ _ _ h
  · rw [h]; intro v hv; simp [zeros] at hv; omega

/-- bytes a run of codes leaves the packer with: ⌊(pending bits + bits · codes) / 8⌋ -/
theorem packLoop_length (bits : Nat) (hb : bits ≤ 8) : ∀ (cs : List Nat) (buf nb : Nat), nb < 8 →
    (packLoop bits buf nb cs).length = (nb + bits * cs.length) / 8 := by
  intro cs
  induction cs with
  | nil => intro buf nb h; simp [packLoop]; omega
  | cons c cs ih =>
    intro buf nb h
    simp only [packLoop, List.length_cons]
    split
    · rename_i h8
      rw [List.length_cons, ih _ _ (by omega), Nat.mul_succ]
      omega
    · rename_i h8
      rw [ih _ _ (by omega), Nat.mul_succ]
      congr 1
      omega

end Sf.G72x.Proofs
