/-
  SfProofs.AbsWriteBridgeHandle — level B of the write-side bridge for the concrete handle model (Sf.Handle: RAW / AU /
  WAV, every sample-granular codec): the session type `Sess`, the prediction `predOf` (what the all-format write campaign
  would record of a job if the library behaved like the model: the calls with the values `stepWrite` returns, the closed
  bytes of `closeHandle`, the re-open through the model's parser `openHandle … .r`, the read-back through `stepRead`, a
  crash point after every SFC_UPDATE_HEADER_NOW and after every write made in auto-update mode) and the first lemmas:
  the calls are accepted in full, the closed bytes do not depend on the split (through C07).
-/
import SfProofs.AbsWriteBridgeRead
import SfProps.C01
import SfProps.C04
import SfProps.C07
import SfProps.C11
namespace Sf.AbsWriteBridge
open Sf Sf.AbsWrite

/-! ## sessions -/

/-- one job of the campaign on the concrete model: open parameters, the caller type of every call and of the read-backs,
    the operations of the split run (write calls, SFC_UPDATE_HEADER_NOW, SFC_SET_UPDATE_HEADER_AUTO) -/
structure Sess where
  fmt : Nat
  ch : Int
  sr : Int
  ty : Ty
  ops : List SOp

def Sess.geom (S : Sess) : AbsWrite.Geom := { word := S.fmt, ch := S.ch.toNat, sr := S.sr.toNat }

/-- every write call of the session has the session's caller type -/
def SOp.hasTy (ty : Ty) : SOp → Prop
  | .write w => w.ty = ty
  | _ => True

/-- the samples the write calls hand over, in call order -/
def sampleList (ch : Nat) : List SOp → List Int
  | [] => []
  | .write w :: ops => w.data.take (w.items ch) ++ sampleList ch ops
  | _ :: ops => sampleList ch ops

/-- the reference run: all samples in one frames call (no call at all for an empty job, as the campaign does) -/
def refOps (S : Sess) : List SOp :=
  let xs := sampleList S.ch.toNat S.ops
  if xs.length = 0 then [] else [.write ⟨S.ty, true, ((xs.length / S.ch.toNat : Nat) : Int), xs⟩]

/-- the calls of a run with the values the model returns -/
def callsOf (ch : Nat) : H × Store → List SOp → List LCall
  | _, [] => []
  | hs, .write w :: ops =>
    { fc := w.frameCall, xs := w.data.take (w.items ch), ret := (stepWrite hs.1 hs.2 w.ty w.frameCall w.n w.data).2.2.ret } ::
      callsOf ch (stepS hs (.write w)) ops
  | hs, .update :: ops => callsOf ch (stepS hs .update) ops
  | hs, .auto b :: ops => callsOf ch (stepS hs (.auto b)) ops

/-- the bytes of the closed file of a run -/
def closedOf (hs : H × Store) (ops : List SOp) : List Byte := (closeHandle (runS hs ops).1 (runS hs ops).2).bytes

/-- the campaign re-opens RAW with the parameters of the writer and every other container with an empty SF_INFO -/
def reopen (S : Sess) (bytes : List Byte) : OpenRes :=
  if containerOf S.fmt = some .raw then openHandle 1 ⟨bytes, 0⟩ .r S.fmt S.ch S.sr else openHandle 1 ⟨bytes, 0⟩ .r 0 0 0

def infoOf : OpenRes → Info
  | .ok h _ => { ch := h.ch, sr := h.sr, fmt := h.fmtWord, frames := h.frames }
  | _ => { null := true }

/-- items delivered by an items read of `want` items, the requested region, and what a further read of `more` items returns -/
def readBack (ty : Ty) (want more : Nat) : OpenRes → Int × List Int × Int
  | .ok h s =>
    let r1 := stepRead h s ty false (want : Int)
    (r1.2.2.ret, r1.2.2.data, (stepRead r1.1 r1.2.1 ty false (more : Int)).2.2.ret)
  | _ => (0, [], 0)

/-- crash points of a run: (write calls made, frames written, the store's bytes) after every SFC_UPDATE_HEADER_NOW and
    after every non-empty write made while SFC_SET_UPDATE_HEADER_AUTO is on -/
def crashPoints (ch : Nat) : H × Store → Nat → Nat → List SOp → List (Nat × Nat × List Byte)
  | _, _, _, [] => []
  | hs, k, nf, .write w :: ops =>
    (if hs.1.autoHeader ∧ w.n ≠ 0 then [(k + 1, nf + w.frames ch, (stepS hs (.write w)).2.bytes)] else []) ++
      crashPoints ch (stepS hs (.write w)) (k + 1) (nf + w.frames ch) ops
  | hs, k, nf, .update :: ops => (k, nf, (stepS hs .update).2.bytes) :: crashPoints ch (stepS hs .update) k nf ops
  | hs, k, nf, .auto b :: ops => crashPoints ch (stepS hs (.auto b)) k nf ops

def snapOf (S : Sess) (x : Nat × Nat × List Byte) : LSnap :=
  let ro := reopen S x.2.2
  let rb := readBack S.ty ((x.2.1 + 8) * S.ch.toNat) S.ch.toNat ro
  { k := x.1, info := infoOf ro, ret := rb.1, data := rb.2.1 }

/-- THE PREDICTION of the model for a session whose open succeeded with `(h, s)` -/
def predOf (S : Sess) (hs : H × Store) : Pred :=
  let ch := S.ch.toNat
  let g := S.geom
  let b1 := closedOf hs (refOps S)
  let ro := reopen S b1
  let rb := readBack S.ty ((sessFrames ch S.ops + g.block + g.pad + 8) * ch) ch ro
  { g := g, ty := S.ty,
    one := { calls := callsOf ch hs (refOps S), bytes := b1 },
    info := infoOf ro, rbRet := rb.1, rbData := rb.2.1, rbMore := rb.2.2,
    split := { calls := callsOf ch hs S.ops, bytes := closedOf hs S.ops },
    snaps := (crashPoints ch hs 0 0 S.ops).map (snapOf S),
    stale := b1 }

/-- THE RECORD of a session (`openHandle` in write mode has no frames parameter: the stale-frames run is the reference run) -/
def recordOf (S : Sess) : Record :=
  match openHandle 0 {} .w S.fmt S.ch S.sr with
  | .ok h s => (predOf S (h, s)).record
  | _ => { g := S.geom, ty := S.ty, one := { openNull := true } }

/-! ## the calls -/

theorem stepWrite_ret (h : H) (s : Store) (ty : Ty) (fc : Bool) (n : Int) (data : List Int) (hn : 0 ≤ n) (hm : h.mode = .w)
    (hch : 0 < h.ch) (hal : fc = false → n % h.ch = 0) : (stepWrite h s ty fc n data).2.2.ret = n := by
  by_cases h0 : n = 0
  · subst h0; simp [stepWrite]
  · obtain ⟨_, _, _, _, _, _, _, eo⟩ := stepWrite_fields h s ty fc n data (by omega) (by rw [hm]; decide)
      (by cases fc; exact Or.inr (hal rfl); exact Or.inl rfl)
    rw [eo]
    cases fc
    · simp [reqLen]
    · simp only [if_true, reqLen]; exact Int.mul_ediv_cancel _ (by omega)

theorem valid_xs (w : WCall) (ch : Nat) (hv : w.valid ch) : (w.data.take (w.items ch)).length = w.items ch := by
  rw [List.length_take]; exact Nat.min_eq_left hv.2.2

theorem sampleList_append (ch : Nat) : ∀ (xs ys : List SOp), sampleList ch (xs ++ ys) = sampleList ch xs ++ sampleList ch ys
  | [], ys => rfl
  | .write w :: xs, ys => by simp [sampleList, sampleList_append ch xs ys]
  | .update :: xs, ys => by simp [sampleList, sampleList_append ch xs ys]
  | .auto b :: xs, ys => by simp [sampleList, sampleList_append ch xs ys]

/-- under the session invariant every call of a valid run is accepted in full; the calls hand over the session's
    samples and the session's frames -/
theorem callsOf_good {c : Cfg} : ∀ (ops : List SOp) {a : Sf.Abs} {h : H} {s : Store}, Inv c a h s → (∀ op ∈ ops, op.valid c.ch) →
    (∀ d ∈ callsOf c.ch (h, s) ops, d.good c.ch) ∧ samples (callsOf c.ch (h, s) ops) = sampleList c.ch ops ∧
    framesOf c.ch (callsOf c.ch (h, s) ops) = sessFrames c.ch ops
  | [], _, _, _, _, _ => ⟨by simp [callsOf], rfl, rfl⟩
  | .write w :: ops, a, h, s, i, hv => by
    have hw : w.valid c.ch := hv (.write w) (by simp)
    have i1 := stepS_inv i (.write w) hw
    obtain ⟨g1, g2, g3⟩ := callsOf_good ops i1 (fun o ho => hv o (by simp [ho]))
    obtain ⟨hit, hreq⟩ := items_eq w c.ch i.chpos hw
    have hxl := valid_xs w c.ch hw
    have hret := stepWrite_ret h s w.ty w.frameCall w.n w.data hw.1 i.mode (by rw [i.ch]; exact i.chpos)
      (by rw [i.ch]; exact hw.2.1)
    refine ⟨?_, ?_, ?_⟩
    · intro d hd
      simp only [callsOf, List.mem_cons] at hd
      rcases hd with rfl | hd
      · refine ⟨by show (w.data.take (w.items c.ch)).length % c.ch = 0; rw [hxl, hit]; exact Nat.mul_mod_left _ _, ?_⟩
        simp only [LCall.n, hxl, hret]
        cases hf : w.frameCall
        · simp only [hf, Bool.false_eq_true, if_false] at hreq ⊢; exact hreq
        · simp only [hf, if_true] at hreq ⊢
          rw [hit, Nat.mul_div_cancel _ i.chpos]
          have : w.n * (c.ch : Int) = (w.frames c.ch : Int) * (c.ch : Int) := by rw [hreq, hit]; push_cast; rfl
          exact Int.eq_of_mul_eq_mul_right (by have := i.chpos; omega) this
      · exact g1 d hd
    · simp only [callsOf, samples, List.flatMap_cons, sampleList] at g2 ⊢
      rw [g2]
    · simp only [callsOf, framesOf, sessFrames, List.map_cons, List.sum_cons, SOp.frames] at g3 ⊢
      rw [g3, hxl]; rfl
  | .update :: ops, a, h, s, i, hv => by
    have i1 := stepS_inv i .update trivial
    simpa [callsOf, sampleList, sessFrames, SOp.frames] using callsOf_good ops i1 (fun o ho => hv o (by simp [ho]))
  | .auto b :: ops, a, h, s, i, hv => by
    have i1 := stepS_inv i (.auto b) trivial
    simpa [callsOf, sampleList, sessFrames, SOp.frames] using callsOf_good ops i1 (fun o ho => hv o (by simp [ho]))

/-! ## the data region of a session of one caller type -/

theorem sessData_ty (c : Cfg) (ty : Ty) : ∀ (ops : List SOp), (∀ op ∈ ops, SOp.hasTy ty op) →
    sessData c ops = c.enc.encodeAll {} ty (sampleList c.ch ops)
  | [], _ => rfl
  | .write w :: ops, h => by
    have hw : w.ty = ty := h (.write w) (by simp)
    have ih := sessData_ty c ty ops (fun o ho => h o (by simp [ho]))
    simp only [sessData, List.flatMap_cons, SOp.bytes, sampleList] at ih ⊢
    rw [ih, hw, Enc.encodeAll_append]
  | .update :: ops, h => by
    have ih := sessData_ty c ty ops (fun o ho => h o (by simp [ho]))
    simpa [sessData, SOp.bytes, sampleList] using ih
  | .auto b :: ops, h => by
    have ih := sessData_ty c ty ops (fun o ho => h o (by simp [ho]))
    simpa [sessData, SOp.bytes, sampleList] using ih

/-- the samples of a valid session are whole frames -/
theorem sampleList_length (ch : Nat) (hch : 0 < ch) : ∀ (ops : List SOp), (∀ op ∈ ops, op.valid ch) →
    (sampleList ch ops).length = sessFrames ch ops * ch
  | [], _ => by simp [sampleList, sessFrames]
  | .write w :: ops, h => by
    have hw : w.valid ch := h (.write w) (by simp)
    have ih := sampleList_length ch hch ops (fun o ho => h o (by simp [ho]))
    simp only [sampleList, List.length_append, valid_xs w ch hw, sessFrames, List.map_cons, List.sum_cons, SOp.frames,
      Nat.add_mul] at ih ⊢
    rw [ih, (items_eq w ch hch hw).1]
  | .update :: ops, h => by
    simpa [sampleList, sessFrames, SOp.frames] using sampleList_length ch hch ops (fun o ho => h o (by simp [ho]))
  | .auto b :: ops, h => by
    simpa [sampleList, sessFrames, SOp.frames] using sampleList_length ch hch ops (fun o ho => h o (by simp [ho]))

/-! ## the reference run -/

theorem refOps_valid (S : Sess) (hch : 0 < S.ch.toNat) (hv : ∀ op ∈ S.ops, op.valid S.ch.toNat) :
    ∀ op ∈ refOps S, op.valid S.ch.toNat := by
  intro op hop
  unfold refOps at hop
  simp only at hop
  split at hop
  · cases hop
  · simp only [List.mem_singleton] at hop
    subst hop
    have hl := sampleList_length S.ch.toNat hch S.ops hv
    refine ⟨Int.natCast_nonneg _, fun h => (by cases h), ?_⟩
    show (WCall.items _ _) ≤ _
    simp only [WCall.items, if_true]
    rw [hl, Nat.mul_div_cancel _ hch, ← Int.natCast_mul, Int.toNat_natCast]

theorem refOps_hasTy (S : Sess) : ∀ op ∈ refOps S, SOp.hasTy S.ty op := by
  intro op hop
  unfold refOps at hop
  simp only at hop
  split at hop
  · cases hop
  · simp only [List.mem_singleton] at hop
    subst hop; rfl

theorem refOps_samples (S : Sess) (hch : 0 < S.ch.toNat) (hv : ∀ op ∈ S.ops, op.valid S.ch.toNat) :
    sampleList S.ch.toNat (refOps S) = sampleList S.ch.toNat S.ops := by
  unfold refOps
  simp only
  split
  · rename_i h0
    simp [sampleList, List.eq_nil_of_length_eq_zero h0]
  · have hl := sampleList_length S.ch.toNat hch S.ops hv
    simp only [sampleList, List.append_nil, WCall.items, if_true]
    rw [hl, Nat.mul_div_cancel _ hch, ← Int.natCast_mul, Int.toNat_natCast, ← hl, List.take_length]

end Sf.AbsWriteBridge
