/-
  SfProofs.IrcamRateExact — the IRCAM sample-rate quantiser, universally: for every rate a caller may pass
  (1 ≤ sr ≤ 2^31 − 1) the model's round trip  int → binary32 (capped) → float32_be_write → float32_be_read → (int)
  (`Sf.Ircam.rateQ`) is the arithmetic quantiser `Sf.AbsWrite.float32Quant` of the acceptance predicate
  (the integer rounded to 24 significant bits, ties to even; 2^31 − 128 from 2^31 − 64 on).
-/
import SfModel.Ircam
import SfModel.AbsWrite
import SfProofs.FloatExact
import SfProofs.Ieee
import SfProps.C20Ieee
import Mathlib.Tactic.IntervalCases
namespace Sf.IrcamRateExact
open Sf Sf.Float Sf.Ircam Sf.AbsWrite

/-! ### `roundF32` : arithmetic -/

theorem log2_bounds (n : Nat) (h24 : 2 ^ 24 ≤ n) (h31 : n < 2 ^ 31) :
    24 ≤ Nat.log2 n ∧ Nat.log2 n ≤ 30 ∧ 2 ^ Nat.log2 n ≤ n ∧ n < 2 ^ (Nat.log2 n + 1) := by
  have hn : n ≠ 0 := by omega
  refine ⟨(Nat.le_log2 hn).mpr h24, ?_, Nat.log2_self_le hn, Nat.lt_log2_self⟩
  have : Nat.log2 n < 31 := (Nat.log2_lt hn).mpr h31
  omega

/-- above 2^24 `roundF32` is `rneShr` at the quantum log2 n − 23 -/
theorem roundF32_eq (n : Nat) (h24 : 2 ^ 24 ≤ n) (h31 : n < 2 ^ 31) :
    roundF32 n = rneShr n (Nat.log2 n - 23) * 2 ^ (Nat.log2 n - 23) := by
  obtain ⟨l1, _, _, _⟩ := log2_bounds n h24 h31
  obtain ⟨e, he⟩ : ∃ e, Nat.log2 n - 23 = e + 1 := ⟨Nat.log2 n - 24, by omega⟩
  unfold roundF32 rneShr
  rw [if_neg (by omega)]
  simp only [he, Nat.add_sub_cancel]
  have hp : 2 ^ (e + 1) = 2 * 2 ^ e := by rw [Nat.pow_succ]; omega
  congr 1
  generalize n / 2 ^ (e + 1) = q
  generalize n % 2 ^ (e + 1) = r
  rw [hp]
  generalize 2 ^ e = h
  by_cases c1 : h < r
  · simp [c1]
  · by_cases c2 : r = h
    · subst c2
      by_cases c3 : q % 2 = 1
      · simp [c3]
      · simp [c3]
    · have c4 : ¬ (2 * r > 2 * h) := by omega
      have c5 : ¬ (2 * r = 2 * h) := by omega
      simp [c1, c2, c4, c5]

/-- where the rounded rate lies: at least 2^24, at most the cap below 2^31 − 64, exactly 2^31 from there on -/
theorem roundF32_facts (n : Nat) (h24 : 2 ^ 24 ≤ n) (h31 : n < 2 ^ 31) :
    2 ^ 24 ≤ roundF32 n ∧ (n < 2 ^ 31 - 64 → roundF32 n ≤ 2 ^ 31 - 128) ∧ (2 ^ 31 - 64 ≤ n → roundF32 n = 2 ^ 31) := by
  obtain ⟨l1, l2, l3, l4⟩ := log2_bounds n h24 h31
  rw [roundF32_eq n h24 h31]
  generalize Nat.log2 n = L at *
  have hm := Nat.div_add_mod n (2 ^ (L - 23))
  have hr := Nat.mod_lt n (two_pow_pos' (L - 23))
  rcases rneShr_cases n (L - 23) with ⟨hq, hc⟩ | ⟨hq, hc⟩ <;> rw [hq] <;> clear hq <;>
    generalize n / 2 ^ (L - 23) = q at * <;> generalize n % 2 ^ (L - 23) = r at * <;>
    interval_cases L <;> simp only [Nat.reduceSub, Nat.reduceAdd, Nat.reducePow] at * <;> omega

/-! ### `f2i` of an integer-valued pattern -/

/-- a dyadic whose magnitude is the natural number N: the truncation `f2i` computes is N -/
theorem mag_nat (d : Dy) (N : Nat) (h : d.mag = (N : ℚ)) :
    (if d.e ≥ 0 then d.m * 2 ^ d.e.toNat else d.m / 2 ^ (-d.e).toNat) = N := by
  obtain ⟨neg, m, e⟩ := d
  unfold Dy.mag at h
  simp only at h ⊢
  split
  · rename_i he
    obtain ⟨k, rfl⟩ : ∃ k : Nat, e = (k : ℤ) := ⟨e.toNat, by omega⟩
    rw [zpow_natCast] at h
    simp only [Int.toNat_natCast]
    exact_mod_cast h
  · rename_i he
    obtain ⟨k, rfl⟩ : ∃ k : Nat, e = -(k : ℤ) := ⟨(-e).toNat, by omega⟩
    rw [zpow_neg, zpow_natCast] at h
    have hp : (0 : ℚ) < 2 ^ k := by positivity
    have h' : (m : ℚ) = (N : ℚ) * 2 ^ k := by
      field_simp at h
      linarith
    have h'' : m = N * 2 ^ k := by exact_mod_cast h'
    simp only [Int.neg_neg, Int.toNat_natCast]
    rw [h'']
    exact Nat.mul_div_cancel _ (two_pow_pos' _)

theorem f2i_of_mag (b N : Nat) (hfin : f32.isFinite b = true) (hneg : (f32.toDy b).neg = false)
    (hmag : (f32.toDy b).mag = (N : ℚ)) (hN : N < 2 ^ 31) : f2i b = (N : Int) := by
  unfold f2i
  simp only [hfin, Bool.not_true, Bool.false_eq_true, if_false, hneg]
  rw [mag_nat _ N hmag]
  rw [if_neg (by omega)]

/-! ### the conversion int → binary32 -/

/-- the value `(float) sr` has under unbounded exponent range is `roundF32 sr` -/
theorem rnd_ofInt_mag (sr : Nat) (h31 : sr < 2 ^ 31) :
    (f32.rnd (Dy.ofInt (sr : Int))).mag = (roundF32 sr : ℚ) := by
  by_cases h24 : sr < 2 ^ 24
  · have hr : roundF32 sr = sr := by unfold roundF32; rw [if_pos h24]
    rw [hr, rnd_exact, Dy.ofInt_mag]
    · simp
    · rw [Dy.ofInt_mag]; simpa using repMag_nat f32 Ieee.f32_std sr h24
  · have h24' : 2 ^ 24 ≤ sr := by omega
    obtain ⟨l1, l2, l3, l4⟩ := log2_bounds sr h24' h31
    rw [roundF32_eq sr h24' h31, rnd_mag]
    have hsr : sr ≠ 0 := by omega
    have hq : f32.quantum (Dy.ofInt (sr : Int)) = ((Nat.log2 sr - 23 : Nat) : ℤ) := by
      unfold Fmt.quantum Dy.ofInt bitLen
      simp only [Int.natAbs_natCast, hsr, if_false]
      simp only [Fmt.qmin, Fmt.bias, f32]
      omega
    have hm : (f32.rnd (Dy.ofInt (sr : Int))).m = rneShr sr (Nat.log2 sr - 23) := by
      unfold Fmt.rnd
      simp only [hq]
      unfold Dy.ofInt rneScale
      simp only [Int.natAbs_natCast]
      rw [if_neg (by omega)]
      congr 1
      omega
    rw [hq, hm, zpow_natCast]
    push_cast
    rfl

theorem roundF32_le (sr : Nat) (h31 : sr < 2 ^ 31) : roundF32 sr ≤ 2 ^ 31 := by
  by_cases h24 : sr < 2 ^ 24
  · unfold roundF32; rw [if_pos h24]; omega
  · obtain ⟨_, f2, f3⟩ := roundF32_facts sr (by omega) h31
    by_cases hc : sr < 2 ^ 31 - 64
    · have := f2 hc; omega
    · have := f3 (by omega); omega

/-- `(float) sr` as a pattern: finite, 32 bits, non-negative, of value `roundF32 sr` -/
theorem ofInt_pattern (sr : Nat) (h31 : sr < 2 ^ 31) :
    f32.ofInt (sr : Int) < 2 ^ 32 ∧ f32.isFinite (f32.ofInt (sr : Int)) = true ∧
    (f32.toDy (f32.ofInt (sr : Int))).neg = false ∧ (f32.toDy (f32.ofInt (sr : Int))).mag = (roundF32 sr : ℚ) := by
  have hle := roundF32_le sr h31
  have hlt : (f32.rnd (Dy.ofInt (sr : Int))).mag < f32.huge := by
    rw [rnd_ofInt_mag sr h31]
    refine lt_of_lt_of_le ?_ (std_huge f32 Ieee.f32_std)
    have : ((roundF32 sr : Nat) : ℚ) ≤ ((2 ^ 31 : Nat) : ℚ) := by exact_mod_cast hle
    refine lt_of_le_of_lt this ?_
    norm_num
  obtain ⟨t1, t2⟩ := toDy_ofDy f32 Ieee.f32_std (Dy.ofInt (sr : Int))
  refine ⟨ofDy_lt_width f32 Ieee.f32_std _, (ofDy_finite_iff f32 Ieee.f32_std _).mpr hlt, ?_, ?_⟩
  · unfold Fmt.ofInt; rw [t1]; unfold Dy.ofInt; simp
  · unfold Fmt.ofInt; rw [t2, min_eq_left (le_of_lt hlt), rnd_ofInt_mag sr h31]

theorem cap_toDy : f32.toDy rateCapBits = ⟨false, 16777215, 7⟩ := by decide +kernel

theorem cap_back : f2i (Ieee.f32BeRead (Ieee.f32BeWrite rateCapBits)) = 2147483520 := by decide +kernel

/-- the writer's comparison with the cap: taken exactly when the rounded rate exceeds 2^31 − 128 -/
theorem cap_lt_iff (sr : Nat) (h31 : sr < 2 ^ 31) :
    Dy.lt (f32.toDy rateCapBits) (f32.toDy (rateBitsOld sr)) = true ↔ 2 ^ 31 - 128 < roundF32 sr := by
  obtain ⟨_, _, p3, p4⟩ := ofInt_pattern sr h31
  rw [Dy.lt_iff, cap_toDy, rateBitsOld, Dy.val_eq, Dy.val_eq, p3, p4]
  simp only [Bool.false_eq_true, if_false, Dy.mag]
  constructor
  · intro h
    have : ((2147483520 : Nat) : ℚ) < ((roundF32 sr : Nat) : ℚ) := by
      refine lt_of_le_of_lt ?_ h; norm_num
    have := Nat.cast_lt.mp this
    omega
  · intro h
    have : ((2147483520 : Nat) : ℚ) < ((roundF32 sr : Nat) : ℚ) := Nat.cast_lt.mpr (by omega)
    refine lt_of_le_of_lt ?_ this; norm_num

/-- what the re-open reads back, as an int -/
theorem rateBack_eq (sr : Nat) (h1 : 1 ≤ sr) (h2 : sr ≤ 0x7FFFFFFF) : rateBack sr = (float32Quant sr : Int) := by
  have h31 : sr < 2 ^ 31 := by omega
  obtain ⟨p1, p2, p3, p4⟩ := ofInt_pattern sr h31
  have hiff := cap_lt_iff sr h31
  unfold rateBack rateBits float32Quant
  simp only
  by_cases hc : sr < 2 ^ 31 - 64
  · have hnot : ¬ (2 ^ 31 - 128 < roundF32 sr) := by
      by_cases h24 : sr < 2 ^ 24
      · unfold roundF32; rw [if_pos h24]; omega
      · have := (roundF32_facts sr (by omega) h31).2.1 hc; omega
    rw [if_neg (fun h => hnot (hiff.mp h)), if_pos hc, rateBitsOld,
      (C20Ieee.write_read_finite_f32 _ p1 p2).1]
    exact f2i_of_mag _ _ p2 p3 p4 (by omega)
  · have hyes : 2 ^ 31 - 128 < roundF32 sr := by
      have := (roundF32_facts sr (by omega) h31).2.2 (by omega); omega
    rw [if_pos (hiff.mpr hyes), if_neg hc, cap_back]
    rfl

/-- **ircam_rateQ_exact.**  The IRCAM rate quantiser of the model is `float32Quant`, for every rate a caller may pass. -/
theorem ircam_rateQ_exact (sr : Nat) (h1 : 1 ≤ sr) (h2 : sr ≤ 0x7FFFFFFF) :
    Sf.Ircam.rateQ sr = some (Sf.AbsWrite.float32Quant sr) := by
  have hb := rateBack_eq sr h1 h2
  have hpos : 1 ≤ float32Quant sr := by
    unfold float32Quant
    split
    · by_cases h24 : sr < 2 ^ 24
      · unfold roundF32; rw [if_pos h24]; exact h1
      · have := (roundF32_facts sr (by omega) (by omega)).1; omega
    · omega
  unfold rateQ
  rw [hb, if_neg (by omega)]
  simp

/-- every rate a caller may pass re-opens as some positive rate -/
theorem ircam_rateQ_some (sr : Nat) (h1 : 1 ≤ sr) (h2 : sr ≤ 0x7FFFFFFF) : ∃ q, Sf.Ircam.rateQ sr = some q :=
  ⟨_, ircam_rateQ_exact sr h1 h2⟩

/-- rates below 2^24 are stored exactly -/
theorem ircam_rateQ_small (sr : Nat) (h1 : 1 ≤ sr) (h : sr < 2 ^ 24) : Sf.Ircam.rateQ sr = some sr := by
  rw [ircam_rateQ_exact sr h1 (by omega)]
  unfold float32Quant roundF32
  rw [if_pos (by omega), if_pos h]

end Sf.IrcamRateExact
