/-
  SfProofs.AlacMix — `unmix ∘ mix = id` for the generalised mid/side matrixing of matrix_enc.c / matrix_dec.c.
-/
import SfProofs.AlacInverse
import Mathlib.Tactic.Ring
namespace Sf.AlacCore

theorem w32_add_mul (a k : Int) : w32 (a + 2 ^ 32 * k) = w32 a := by unfold w32; exact wrapS_add_mul 32 a k

theorem w32_eq_add (a : Int) : ∃ k : Int, w32 a = a + 2 ^ 32 * k := by unfold w32; exact wrapS_eq_add 32 a

theorem w32_of_fits {x : Int} (h1 : -2147483648 ≤ x) (h2 : x < 2147483648) : w32 x = x := by
  unfold w32 wrapS
  simp only [Int.reducePow]
  split <;> omega

/-- the matrixing of a pair is undone by the decoder, for every `mixbits`, every `mixres`, whenever the true values of
    `l - r`, `mixres * l + (2^mixbits - mixres) * r` and `mixres * (l - r)` are int32 values (the partial products may wrap) -/
theorem unmixLR_mixUV (mb : Nat) (mr l r : Int)
    (hl : w32 l = l) (hr : w32 r = r) (hv : w32 (l - r) = l - r)
    (hs : w32 (mr * l + ((2 : Int) ^ mb - mr) * r) = mr * l + ((2 : Int) ^ mb - mr) * r)
    (hq : w32 (mr * (l - r)) = mr * (l - r)) :
    unmixLR mb mr (mixUV mb mr l r).1 (mixUV mb mr l r).2 = (l, r) := by
  unfold unmixLR mixUV
  simp only [hv]
  -- the mixed sum, computed with wrapping partial products, is the true sum
  have hS : w32 (w32 (mr * l) + w32 (w32 ((2 : Int) ^ mb - mr) * r)) = mr * l + ((2 : Int) ^ mb - mr) * r := by
    obtain ⟨k1, h1⟩ := w32_eq_add (mr * l)
    obtain ⟨k2, h2⟩ := w32_eq_add ((2 : Int) ^ mb - mr)
    obtain ⟨k3, h3⟩ := w32_eq_add (w32 ((2 : Int) ^ mb - mr) * r)
    rw [h3, h2, h1, ← hs, ← w32_add_mul (mr * l + ((2 : Int) ^ mb - mr) * r) (k1 + k2 * r + k3)]
    congr 1; ring
  rw [hS, hq]
  have hM : ((2 : Int) ^ mb) ≠ 0 := Int.pow_ne_zero (by decide)
  have hu : asr (mr * l + ((2 : Int) ^ mb - mr) * r) mb = asr (mr * (l - r)) mb + r := by
    unfold asr
    have : mr * l + ((2 : Int) ^ mb - mr) * r = mr * (l - r) + (2 : Int) ^ mb * r := by ring
    rw [this, Int.add_mul_ediv_left _ _ hM]
  rw [hu]
  have hl' : w32 (w32 (asr (mr * (l - r)) mb + r + (l - r)) - asr (mr * (l - r)) mb) = l := by
    obtain ⟨k1, h1⟩ := w32_eq_add (asr (mr * (l - r)) mb + r + (l - r))
    rw [h1]
    have e : asr (mr * (l - r)) mb + r + (l - r) + 2 ^ 32 * k1 - asr (mr * (l - r)) mb = l + 2 ^ 32 * k1 := by ring
    rw [e, w32_add_mul, hl]
  rw [hl']
  have : l - (l - r) = r := by ring
  rw [this, hr]

/-- what the encoder does: mixbits 2, mixres 0 … 4, inputs of at most 25 bits -/
theorem unmixLR_mixUV_encoder (mixres l r : Int) (hm : 0 ≤ mixres ∧ mixres ≤ 4)
    (hl : -16777216 ≤ l ∧ l < 16777216) (hr : -16777216 ≤ r ∧ r < 16777216) :
    unmixLR 2 mixres (mixUV 2 mixres l r).1 (mixUV 2 mixres l r).2 = (l, r) := by
  obtain ⟨m0, m4⟩ := hm
  have hmr : mixres = 0 ∨ mixres = 1 ∨ mixres = 2 ∨ mixres = 3 ∨ mixres = 4 := by omega
  apply unmixLR_mixUV
  · exact w32_of_fits (by omega) (by omega)
  · exact w32_of_fits (by omega) (by omega)
  · exact w32_of_fits (by omega) (by omega)
  · rcases hmr with rfl | rfl | rfl | rfl | rfl <;> exact w32_of_fits (by norm_num; omega) (by norm_num; omega)
  · rcases hmr with rfl | rfl | rfl | rfl | rfl <;> exact w32_of_fits (by omega) (by omega)

end Sf.AlacCore
