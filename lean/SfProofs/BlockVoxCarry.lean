/-
  OKI/VOX with the held sample (the repair of KF-VOX-ODD): closed forms of `vox_write_block` / `vox_read_block` and of
  the staging loops around them.

  write side: with `all = carry ++ samples of the call`, the call emits the pair encoder over the even part of `all`,
  holds the odd last sample, and reports exactly the number of samples it was given (`writeBlock_spec`,
  `writeCall_spec`); the even part / odd last sample compose over concatenation (`evenPart_split`, `oddLast_split`).
  read side: with `stream = carry ++ decoded rest of the file`, a call delivers `stream.take n` and leaves
  `stream.drop n` behind (`readLoop_spec`, `readBlock_spec`, `voxReadCall_spec`).
-/
import SfModel.BlockFile
import SfProofs.BlockVox
namespace Sf.VoxCarry
open Sf Sf.Block Sf.Block.Proofs

/-! ## even part / odd last sample of a list -/

/-- the samples that fill whole bytes -/
def evenPart (l : List Int) : List Int := if l.length % 2 = 1 then l.dropLast else l
/-- the sample that is half a byte -/
def oddLast (l : List Int) : Option Int := if l.length % 2 = 1 then l.getLast? else none

theorem evenPart_length_even (l : List Int) : (evenPart l).length % 2 = 0 := by
  unfold evenPart
  split
  · rw [List.length_dropLast]; omega
  · omega

theorem evenPart_length (l : List Int) : (evenPart l).length = l.length / 2 * 2 := by
  unfold evenPart
  split
  · rw [List.length_dropLast]; omega
  · omega

theorem evenPart_oddLast (l : List Int) : evenPart l ++ (oddLast l).toList = l := by
  unfold evenPart oddLast
  split
  · rename_i h
    have hne : l ≠ [] := by intro h0; subst h0; simp at h
    rw [List.getLast?_eq_some_getLast hne, Option.toList_some]
    exact List.dropLast_concat_getLast hne
  · simp

theorem getLast_toList_eq_drop (l : List Int) (n : Nat) (h : l.length = n + 1) : l.getLast?.toList = l.drop n := by
  have hne : l ≠ [] := by intro h0; subst h0; simp at h
  rw [List.getLast?_eq_some_getLast hne, List.getLast_eq_getElem, List.drop_eq_getElem_cons (by omega),
    List.drop_of_length_le (by omega)]
  simp [h]

theorem oddLast_toList_length (l : List Int) : (oddLast l).toList.length = l.length % 2 := by
  unfold oddLast
  split
  · rename_i h
    have hne : l ≠ [] := by intro h0; subst h0; simp at h
    rw [List.getLast?_eq_some_getLast hne]; simp [h]
  · simp; omega

/-- an even-length prefix passes through -/
theorem evenPart_append_even (e r : List Int) (he : e.length % 2 = 0) : evenPart (e ++ r) = e ++ evenPart r := by
  unfold evenPart
  rw [List.length_append]
  by_cases hr : r.length % 2 = 1
  · have hne : r ≠ [] := by intro h0; subst h0; simp at hr
    have h1 : (e.length + r.length) % 2 = 1 := by omega
    simp only [h1, hr, if_true]
    exact List.dropLast_append_of_ne_nil hne
  · have h1 : ¬ (e.length + r.length) % 2 = 1 := by omega
    simp only [h1, hr, if_false]

theorem oddLast_append_even (e r : List Int) (he : e.length % 2 = 0) : oddLast (e ++ r) = oddLast r := by
  unfold oddLast
  rw [List.length_append]
  by_cases hr : r.length % 2 = 1
  · have hne : r ≠ [] := by intro h0; subst h0; simp at hr
    have h1 : (e.length + r.length) % 2 = 1 := by omega
    simp only [h1, hr, if_true]
    rw [List.getLast?_append, List.getLast?_eq_some_getLast hne]; rfl
  · have h1 : ¬ (e.length + r.length) % 2 = 1 := by omega
    simp only [h1, hr, if_false]

/-- cutting anywhere: the even part of `l ++ ys` is the even part of `l`, then the even part of what `l` left over
    in front of `ys` -/
theorem evenPart_split (l ys : List Int) : evenPart (l ++ ys) = evenPart l ++ evenPart ((oddLast l).toList ++ ys) := by
  conv => lhs; rw [← evenPart_oddLast l, List.append_assoc]
  exact evenPart_append_even _ _ (evenPart_length_even l)

theorem oddLast_split (l ys : List Int) : oddLast (l ++ ys) = oddLast ((oddLast l).toList ++ ys) := by
  conv => lhs; rw [← evenPart_oddLast l, List.append_assoc]
  exact oddLast_append_even _ _ (evenPart_length_even l)

theorem encPairs_length : ∀ (l : List Int) (st : Oki.St), (Oki.encPairs st l).2.length = l.length / 2
  | [], st => by rw [encPairs_nil]; rfl
  | [_], st => by simp [Oki.encPairs]
  | a :: b :: rest, st => by
    rw [encPairs_cons2]
    simp only [List.length_cons]
    rw [encPairs_length rest]
    omega

/-! ## `vox_write_block` -/

/-- what one `vox_write_block` call comes to -/
def writeSpec (st : Oki.St) (c : Option Int) (xs : List Int) : Oki.St × Option Int × List Byte × Nat :=
  ((Oki.encPairs st (evenPart (c.toList ++ xs))).1, oddLast (c.toList ++ xs),
   (Oki.encPairs st (evenPart (c.toList ++ xs))).2, xs.length)

theorem option_toList_length_le (c : Option Int) : c.toList.length ≤ 1 := by cases c <;> simp

theorem writeBlock_spec : ∀ (fuel : Nat) (st : Oki.St) (c : Option Int) (xs : List Int), xs.length < fuel →
    Oki.writeBlock fuel st c xs xs.length = writeSpec st c xs := by
  intro fuel
  induction fuel with
  | zero => intro st c xs h; omega
  | succ fuel ih =>
    intro st c xs hf
    unfold Oki.writeBlock
    by_cases hn : xs.length = 0
    · have : xs = [] := List.length_eq_zero_iff.mp hn
      subst this
      cases c with
      | none => simp [writeSpec, evenPart, oddLast, encPairs_nil]
      | some x => simp [writeSpec, evenPart, oddLast, encPairs_nil]
    · simp only [hn, if_false]
      have hc1 := option_toList_length_le c
      by_cases hall : xs.length ≤ 512 - c.toList.length
      · -- the last piece: everything that is left
        have hcnt : min (512 - c.toList.length) xs.length = xs.length := by omega
        simp only [hcnt, List.take_length, List.drop_length, Nat.sub_self]
        have hlen : (c.toList ++ xs).length = c.toList.length + xs.length := List.length_append
        have hE : (if (c.toList.length + xs.length) % 2 = 1 then (c.toList ++ xs).dropLast else c.toList ++ xs)
            = evenPart (c.toList ++ xs) := by unfold evenPart; rw [hlen]
        have hO : (if (c.toList.length + xs.length) % 2 = 1 then (c.toList ++ xs).getLast? else none)
            = oddLast (c.toList ++ xs) := by unfold oddLast; rw [hlen]
        rw [hE, hO]
        by_cases hb : evenPart (c.toList ++ xs) = []
        · simp only [hb, if_true, writeSpec, encPairs_nil]
        · simp only [hb, if_false, writeSpec]
          have hrec : ∀ (s : Oki.St) (c2 : Option Int), Oki.writeBlock fuel s c2 [] 0 = (s, c2, [], 0) := by
            intro s c2; cases fuel <;> simp [Oki.writeBlock]
          simp only [hrec, List.append_nil, Nat.add_zero]
      · -- a full piece of 512 samples, even: nothing is held
        have hcnt : min (512 - c.toList.length) xs.length = 512 - c.toList.length := by omega
        simp only [hcnt]
        have hodd : ¬ (c.toList.length + (512 - c.toList.length)) % 2 = 1 := by omega
        simp only [hodd, if_false]
        have htl : (xs.take (512 - c.toList.length)).length = 512 - c.toList.length := by
          rw [List.length_take]; omega
        have hbl : (c.toList ++ xs.take (512 - c.toList.length)).length = 512 := by
          rw [List.length_append, htl]; omega
        have hne : ¬ (c.toList ++ xs.take (512 - c.toList.length)) = [] := by
          intro h0; rw [h0] at hbl; simp at hbl
        simp only [hne, if_false]
        have hdl : (xs.drop (512 - c.toList.length)).length = xs.length - (512 - c.toList.length) := List.length_drop
        have h1 := ih (Oki.encPairs st (c.toList ++ xs.take (512 - c.toList.length))).1 none
          (xs.drop (512 - c.toList.length)) (by rw [hdl]; omega)
        rw [hdl] at h1
        simp only [h1, writeSpec, Option.toList_none, List.nil_append]
        have hall2 : c.toList ++ xs = (c.toList ++ xs.take (512 - c.toList.length)) ++ xs.drop (512 - c.toList.length) := by
          rw [List.append_assoc, List.take_append_drop]
        have heven : (c.toList ++ xs.take (512 - c.toList.length)).length % 2 = 0 := by rw [hbl]
        rw [hall2, evenPart_append_even _ _ heven, oddLast_append_even _ _ heven,
          encPairs_append _ _ _ heven]
        refine Prod.ext rfl (Prod.ext rfl (Prod.ext rfl ?_))
        simp only
        omega

/-- writing `xs` and then `ys` is writing `xs ++ ys`: same coder state, same held sample, the bytes concatenated -/
theorem writeSpec_append (st : Oki.St) (c : Option Int) (xs ys : List Int) :
    (writeSpec st c (xs ++ ys)).1 = (writeSpec (writeSpec st c xs).1 (writeSpec st c xs).2.1 ys).1 ∧
    (writeSpec st c (xs ++ ys)).2.1 = (writeSpec (writeSpec st c xs).1 (writeSpec st c xs).2.1 ys).2.1 ∧
    (writeSpec st c (xs ++ ys)).2.2.1 =
      (writeSpec st c xs).2.2.1 ++ (writeSpec (writeSpec st c xs).1 (writeSpec st c xs).2.1 ys).2.2.1 := by
  simp only [writeSpec]
  have h1 : c.toList ++ (xs ++ ys) = (c.toList ++ xs) ++ ys := (List.append_assoc _ _ _).symm
  rw [h1, evenPart_split (c.toList ++ xs) ys, oddLast_split (c.toList ++ xs) ys,
    encPairs_append _ _ _ (evenPart_length_even (c.toList ++ xs))]
  exact ⟨rfl, rfl, rfl⟩

/-- the staging loop of `vox_write_i/f/d` (pieces of `chunk` samples) changes nothing -/
theorem writeCall_spec (chunk : Nat) : ∀ (fuel : Nat) (st : Oki.St) (c : Option Int) (xs : List Int), xs.length < fuel →
    Oki.writeCall chunk fuel st c xs xs.length = writeSpec st c xs := by
  intro fuel
  induction fuel with
  | zero => intro st c xs h; omega
  | succ fuel ih =>
    intro st c xs hf
    unfold Oki.writeCall
    by_cases hn : xs.length = 0
    · have : xs = [] := List.length_eq_zero_iff.mp hn
      subst this
      cases c <;> simp [writeSpec, evenPart, oddLast, encPairs_nil]
    · simp only [hn, if_false]
      generalize hwc : (if chunk = 0 then xs.length else min chunk xs.length) = wc
      have hwc1 : 0 < wc ∧ wc ≤ xs.length := by
        subst hwc; by_cases h0 : chunk = 0
        · simp [h0]; omega
        · simp [h0]; omega
      have htl : (xs.take wc).length = wc := by rw [List.length_take]; omega
      have hb := writeBlock_spec (wc + 1) st c (xs.take wc) (by omega)
      rw [htl] at hb
      rw [hb]
      have hcount : (writeSpec st c (xs.take wc)).2.2.2 = wc := by simp [writeSpec, htl]
      simp only [hcount, ne_eq, not_true_eq_false, if_false]
      have hdl : (xs.drop wc).length = xs.length - wc := List.length_drop
      have h1 := ih (writeSpec st c (xs.take wc)).1 (writeSpec st c (xs.take wc)).2.1 (xs.drop wc) (by rw [hdl]; omega)
      rw [hdl] at h1
      rw [h1]
      have hap := writeSpec_append st c (xs.take wc) (xs.drop wc)
      rw [List.take_append_drop] at hap
      refine Prod.ext hap.1.symm (Prod.ext hap.2.1.symm (Prod.ext hap.2.2.symm ?_))
      simp only [writeSpec, hdl]
      omega

/-! ## `vox_read_block` -/

theorem decBytes_nil (st : Oki.St) : Oki.decBytes st [] = (st, []) := by unfold Oki.decBytes; rfl

theorem decBytes_cons (st : Oki.St) (b : Byte) (bs : List Byte) :
    Oki.decBytes st (b :: bs) =
      ((Oki.decBytes (Oki.decode (Oki.decode st (b / 16)).1 (b % 16)).1 bs).1,
       (Oki.decode st (b / 16)).2 :: (Oki.decode (Oki.decode st (b / 16)).1 (b % 16)).2 ::
         (Oki.decBytes (Oki.decode (Oki.decode st (b / 16)).1 (b % 16)).1 bs).2) := by
  rw [Oki.decBytes]

theorem decBytes_append : ∀ (xs : List Byte) (st : Oki.St) (ys : List Byte),
    Oki.decBytes st (xs ++ ys) =
      ((Oki.decBytes (Oki.decBytes st xs).1 ys).1, (Oki.decBytes st xs).2 ++ (Oki.decBytes (Oki.decBytes st xs).1 ys).2)
  | [], st, ys => by rw [decBytes_nil]; rfl
  | b :: bs, st, ys => by
    rw [List.cons_append, decBytes_cons, decBytes_cons, decBytes_append bs]
    rfl

theorem decBytes_length : ∀ (xs : List Byte) (st : Oki.St), (Oki.decBytes st xs).2.length = 2 * xs.length
  | [], st => by rw [decBytes_nil]; rfl
  | b :: bs, st => by rw [decBytes_cons]; simp only [List.length_cons]; rw [decBytes_length bs]; omega

/-- the samples a reader in state (`st`, held sample `c`) still has in front of it -/
def stream (st : Oki.St) (c : Option Int) (bytes : List Byte) : List Int := c.toList ++ (Oki.decBytes st bytes).2

theorem readLoop_spec : ∀ (fuel : Nat) (st : Oki.St) (bytes : List Byte) (n : Nat), n < fuel →
    (Oki.readLoop fuel st bytes n).2.2.2.1 = (stream st none bytes).take n ∧
    (Oki.readLoop fuel st bytes n).2.2.2.2 = min n (stream st none bytes).length ∧
    stream (Oki.readLoop fuel st bytes n).1 (Oki.readLoop fuel st bytes n).2.1 (Oki.readLoop fuel st bytes n).2.2.1
      = (stream st none bytes).drop n := by
  intro fuel
  induction fuel with
  | zero => intro st bytes n h; omega
  | succ fuel ih =>
    intro st bytes n hf
    unfold Oki.readLoop
    by_cases hn : n = 0
    · subst hn; simp [stream]
    · simp only [hn, if_false]
      generalize hcc : (if n > 512 then 256 else (n + 1) / 2) = cc
      have hcc1 : 0 < cc := by subst hcc; split <;> omega
      by_cases hg : bytes.take cc = []
      · have hb : bytes = [] := by
          cases bytes with
          | nil => rfl
          | cons b bs => cases cc with
            | zero => omega
            | succ k => simp at hg
        subst hb
        simp [stream, decBytes_nil]
      · simp only [hg, if_false]
        have hsplit := decBytes_append (bytes.take cc) st (bytes.drop cc)
        rw [List.take_append_drop] at hsplit
        have hxl := decBytes_length (bytes.take cc) st
        have hS : stream st none bytes =
            (Oki.decBytes st (bytes.take cc)).2 ++ (Oki.decBytes (Oki.decBytes st (bytes.take cc)).1 (bytes.drop cc)).2 := by
          simp only [stream, Option.toList_none, List.nil_append, hsplit]
        have hk : (bytes.take cc).length ≤ cc := by rw [List.length_take]; omega
        by_cases hover : 2 * (bytes.take cc).length > n
        · -- an odd request: the last decoded sample is held back
          simp only [hover, if_true]
          have hcc2 : cc = (n + 1) / 2 := by
            by_cases h5 : n > 512
            · rw [if_pos h5] at hcc; omega
            · rw [if_neg h5] at hcc; omega
          have hxn : (Oki.decBytes st (bytes.take cc)).2.length = n + 1 := by rw [hxl]; omega
          have hne : (Oki.decBytes st (bytes.take cc)).2 ≠ [] := by
            intro h0; rw [h0] at hxn; simp at hxn
          have hdl : (Oki.decBytes st (bytes.take cc)).2.dropLast = (Oki.decBytes st (bytes.take cc)).2.take n := by
            rw [List.dropLast_eq_take, hxn]; rfl
          refine ⟨?_, ?_, ?_⟩
          · simp only [hS]
            rw [List.take_append_of_le_length (by rw [hxn]; omega), hdl]
          · simp only [hS, List.length_append, hxn]; omega
          · rw [hS]
            simp only [stream]
            rw [List.drop_append_of_le_length (by rw [hxn]; omega), getLast_toList_eq_drop _ n hxn]
        · simp only [hover, if_false]
          have hkpos : 0 < (bytes.take cc).length := List.length_pos_iff.mpr hg
          obtain ⟨i1, i2, i3⟩ := ih (Oki.decBytes st (bytes.take cc)).1 (bytes.drop cc) (n - 2 * (bytes.take cc).length) (by omega)
          have hS2 : stream (Oki.decBytes st (bytes.take cc)).1 none (bytes.drop cc) =
              (Oki.decBytes (Oki.decBytes st (bytes.take cc)).1 (bytes.drop cc)).2 := by
            simp [stream]
          rw [hS2] at i1 i2 i3
          have hle : (Oki.decBytes st (bytes.take cc)).2.length ≤ n := by rw [hxl]; omega
          refine ⟨?_, ?_, ?_⟩
          · simp only [i1, hS]
            rw [List.take_append, List.take_of_length_le hle, hxl]
          · simp only [i2, hS, List.length_append, hxl]; omega
          · simp only [i3, hS]
            rw [List.drop_append, List.drop_of_length_le hle, hxl, List.nil_append]

theorem readBlock_spec (fuel : Nat) (st : Oki.St) (c : Option Int) (bytes : List Byte) (n : Nat) (hf : n < fuel) :
    (Oki.readBlock fuel st c bytes n).2.2.2.1 = (stream st c bytes).take n ∧
    (Oki.readBlock fuel st c bytes n).2.2.2.2 = min n (stream st c bytes).length ∧
    stream (Oki.readBlock fuel st c bytes n).1 (Oki.readBlock fuel st c bytes n).2.1 (Oki.readBlock fuel st c bytes n).2.2.1
      = (stream st c bytes).drop n := by
  cases c with
  | none => exact readLoop_spec fuel st bytes n hf
  | some x =>
    unfold Oki.readBlock
    by_cases hn : n = 0
    · subst hn; simp [stream]
    · obtain ⟨i1, i2, i3⟩ := readLoop_spec fuel st bytes (n - 1) (by omega)
      simp only [hn, if_false]
      have hS : stream st (some x) bytes = x :: stream st none bytes := by simp [stream]
      obtain ⟨m, rfl⟩ : ∃ m, n = m + 1 := ⟨n - 1, by omega⟩
      simp only [Nat.add_sub_cancel] at i1 i2 i3
      refine ⟨?_, ?_, ?_⟩
      · simp only [hS, List.take_succ_cons, Nat.add_sub_cancel, i1]
      · simp only [hS, List.length_cons, Nat.add_sub_cancel, i2]; omega
      · simp only [hS, List.drop_succ_cons, Nat.add_sub_cancel, i3]

/-- the staging loop of `vox_read_i/f/d` (pieces of `chunk` samples) changes nothing -/
theorem voxReadCall_spec (chunk : Nat) : ∀ (fuel : Nat) (st : Oki.St) (c : Option Int) (bytes : List Byte) (n : Nat), n < fuel →
    (voxReadCall chunk fuel st c bytes n).2.2.2.1 = (stream st c bytes).take n ∧
    (voxReadCall chunk fuel st c bytes n).2.2.2.2 = min n (stream st c bytes).length ∧
    stream (voxReadCall chunk fuel st c bytes n).1 (voxReadCall chunk fuel st c bytes n).2.1
        (voxReadCall chunk fuel st c bytes n).2.2.1 = (stream st c bytes).drop n := by
  intro fuel
  induction fuel with
  | zero => intro st c bytes n h; omega
  | succ fuel ih =>
    intro st c bytes n hf
    unfold voxReadCall
    by_cases hn : n = 0
    · subst hn; simp
    · simp only [hn, if_false]
      generalize hrc : (if chunk = 0 then n else min chunk n) = rc
      have hrc1 : 0 < rc ∧ rc ≤ n := by
        subst hrc; by_cases h0 : chunk = 0
        · simp [h0]; omega
        · simp [h0]; omega
      obtain ⟨b1, b2, b3⟩ := readBlock_spec (rc + 1) st c bytes rc (by omega)
      by_cases hshort : (Oki.readBlock (rc + 1) st c bytes rc).2.2.2.2 ≠ rc
      · -- the data ended inside this piece
        rw [if_pos hshort]
        have hlen : (stream st c bytes).length < rc := by rw [b2] at hshort; omega
        refine ⟨?_, ?_, ?_⟩
        · rw [b1, List.take_of_length_le (by omega), List.take_of_length_le (by omega)]
        · rw [b2]; omega
        · rw [b3, List.drop_of_length_le (by omega), List.drop_of_length_le (by omega)]
      · rw [if_neg hshort]
        have hfull : rc ≤ (stream st c bytes).length := by
          have : (Oki.readBlock (rc + 1) st c bytes rc).2.2.2.2 = rc := by omega
          rw [b2] at this; omega
        obtain ⟨i1, i2, i3⟩ := ih (Oki.readBlock (rc + 1) st c bytes rc).1 (Oki.readBlock (rc + 1) st c bytes rc).2.1
          (Oki.readBlock (rc + 1) st c bytes rc).2.2.1 (n - rc) (by omega)
        rw [b3] at i1 i2 i3
        refine ⟨?_, ?_, ?_⟩
        · simp only [i1, b1]
          have : n = rc + (n - rc) := by omega
          conv => rhs; rw [this, List.take_add]
        · simp only [i2, b2, List.length_drop]; omega
        · simp only [i3, List.drop_drop]
          congr 1; omega

/-! ## whole histories: any number of calls -/

/-- the samples of a sequence of `vox_read_block` calls with the given counts, one after the other on one handle -/
def voxReads : Oki.St → Option Int → List Byte → List Nat → List Int
  | _, _, _, [] => []
  | st, c, bytes, n :: ns =>
    (Oki.readBlock (n + 1) st c bytes n).2.2.2.1 ++
      voxReads (Oki.readBlock (n + 1) st c bytes n).1 (Oki.readBlock (n + 1) st c bytes n).2.1
        (Oki.readBlock (n + 1) st c bytes n).2.2.1 ns

theorem voxReads_spec : ∀ (ns : List Nat) (st : Oki.St) (c : Option Int) (bytes : List Byte),
    voxReads st c bytes ns = (stream st c bytes).take ns.sum
  | [], st, c, bytes => by simp [voxReads]
  | n :: ns, st, c, bytes => by
    obtain ⟨b1, _, b3⟩ := readBlock_spec (n + 1) st c bytes n (by omega)
    rw [voxReads, voxReads_spec ns, b1, b3, List.sum_cons, List.take_add]

/-- a sequence of `vox_write_block` calls on one handle: (state, held sample, bytes written so far) -/
def voxWrites : Oki.St → Option Int → List (List Int) → Oki.St × Option Int × List Byte
  | st, c, [] => (st, c, [])
  | st, c, xs :: rest =>
    let r := Oki.writeBlock (xs.length + 1) st c xs xs.length
    let t := voxWrites r.1 r.2.1 rest
    (t.1, t.2.1, r.2.2.1 ++ t.2.2)

theorem voxWrites_spec : ∀ (calls : List (List Int)) (st : Oki.St) (c : Option Int),
    voxWrites st c calls = ((writeSpec st c calls.flatten).1, (writeSpec st c calls.flatten).2.1, (writeSpec st c calls.flatten).2.2.1)
  | [], st, c => by
    cases c <;> simp [voxWrites, writeSpec, evenPart, oddLast, encPairs_nil]
  | xs :: rest, st, c => by
    have hb := writeBlock_spec (xs.length + 1) st c xs (by omega)
    have hap := writeSpec_append st c xs rest.flatten
    simp only [voxWrites, hb, voxWrites_spec rest, List.flatten_cons]
    exact Prod.ext hap.1.symm (Prod.ext hap.2.1.symm hap.2.2.symm)

/-- the bytes of the closed file: what the calls wrote, then what `codec_close` adds -/
def voxFile (st : Oki.St) (c : Option Int) (calls : List (List Int)) : List Byte :=
  (voxWrites st c calls).2.2 ++ (Oki.closeCarry (voxWrites st c calls).1 (voxWrites st c calls).2.1).2

/-- an odd number of samples gets the encoder's zero sample -/
def padZero (l : List Int) : List Int := if l.length % 2 = 1 then l ++ [0] else l

theorem padZero_eq (l : List Int) : padZero l = evenPart l ++ (match oddLast l with | some x => [x, 0] | none => []) := by
  unfold padZero
  by_cases h : l.length % 2 = 1
  · have hne : l ≠ [] := by intro h0; subst h0; simp at h
    have hl := evenPart_oddLast l
    simp only [oddLast, h, if_true, List.getLast?_eq_some_getLast hne, Option.toList_some] at hl ⊢
    conv => lhs; rw [← hl]
    simp
  · simp [oddLast, evenPart, h]

theorem voxFile_spec (st : Oki.St) (c : Option Int) (calls : List (List Int)) :
    voxFile st c calls = (Oki.encPairs st (padZero (c.toList ++ calls.flatten))).2 := by
  unfold voxFile
  rw [voxWrites_spec, padZero_eq, encPairs_append _ _ _ (evenPart_length_even _)]
  simp only [writeSpec]
  congr 1
  cases oddLast (c.toList ++ calls.flatten) with
  | none => simp [Oki.closeCarry, encPairs_nil]
  | some x => simp [Oki.closeCarry]

theorem padZero_length (l : List Int) : (padZero l).length = (l.length + 1) / 2 * 2 := by
  unfold padZero; split
  · rw [List.length_append]; simp; omega
  · omega

end Sf.VoxCarry
