/-
  SfProofs.VocImage — `Sf.Voc.parse` on the images the VOC writer leaves in the store (the header as an explicit list
  of 32 / 40 / 42 bytes), and the session lemmas of the VOC close function (terminator byte, then the header).
-/
import SfModel.Voc
import SfProofs.Small2Session
namespace Sf.Voc
open Sf Sf.Small2

theorem fileHdr_explicit : fileHdr = [0x43, 0x72, 0x65, 0x61, 0x74, 0x69, 0x76, 0x65, 0x20, 0x56, 0x6F, 0x69, 0x63, 0x65, 0x20, 0x46, 0x69, 0x6C, 0x65,
    0x1A, 0x1A, 0x00, 0x14, 0x01, 0x1F, 0x11] := by decide +kernel

theorem asc_creative : asc "Creative Voice File" = [0x43, 0x72, 0x65, 0x61, 0x74, 0x69, 0x76, 0x65, 0x20, 0x56, 0x6F, 0x69, 0x63, 0x65, 0x20, 0x46, 0x69, 0x6C, 0x65] := by
  decide +kernel

theorem le3_explicit (n : Nat) : leBytes 3 n = [n % 256, n / 256 % 256, n / 256 / 256 % 256] := by simp [leBytes]
theorem le4_explicit (n : Nat) : leBytes 4 n = [n % 256, n / 256 % 256, n / 256 / 256 % 256, n / 256 / 256 / 256 % 256] := by simp [leBytes]
theorem le2_explicit (n : Nat) : leBytes 2 n = [n % 256, n / 256 % 256] := by simp [leBytes]

theorem ofLE3 (a b c : Nat) : ofLE [a, b, c] = a + 256 * (b + 256 * c) := by simp [ofLE]
theorem ofLE4 (a b c d : Nat) : ofLE [a, b, c, d] = a + 256 * (b + 256 * (c + 256 * d)) := by simp [ofLE]
theorem ofLE2 (a b : Nat) : ofLE [a, b] = a + 256 * b := by simp [ofLE]

theorem guess_voc (X : List Byte) : guess (fileHdr ++ X) = some (.fmt 0x080000) := by rw [fileHdr_explicit]; rfl

theorem fileHdr_checks (X : List Byte) : (fileHdr ++ X).take 19 = asc "Creative Voice File" ∧ byteAt (fileHdr ++ X) 19 = 0x1A ∧
    leAt (fileHdr ++ X) 22 2 = 0x0114 ∧ (fileHdr ++ X).length = 26 + X.length := by
  rw [fileHdr_explicit, asc_creative]; refine ⟨rfl, rfl, rfl, ?_⟩; simp; omega

/-- positional reads in the 16 bytes of a block header that follow the file header -/
theorem block_reads (b0 b1 b2 b3 b4 b5 b6 b7 b8 b9 b10 b11 b12 b13 : Byte) (X : List Byte) :
    let bs := fileHdr ++ (b0 :: b1 :: b2 :: b3 :: b4 :: b5 :: b6 :: b7 :: b8 :: b9 :: b10 :: b11 :: b12 :: b13 :: X)
    byteAt bs 26 = b0 ∧ leAt bs 27 3 = ofLE [b1, b2, b3] ∧ byteAt bs 30 = b4 ∧ leAt bs 30 4 = ofLE [b4, b5, b6, b7] ∧
    leAt bs 30 2 = ofLE [b4, b5] ∧ byteAt bs 33 = b7 ∧ byteAt bs 34 = b8 ∧ byteAt bs 35 = b9 ∧ leAt bs 36 2 = ofLE [b10, b11] ∧
    leAt bs 35 3 = ofLE [b9, b10, b11] := by
  rw [fileHdr_explicit]; exact ⟨rfl, rfl, rfl, rfl, rfl, rfl, rfl, rfl, rfl, rfl⟩

theorem ofLE3_bytes (n : Nat) (h : n < 2 ^ 24) : ofLE [n % 256, n / 256 % 256, n / 256 / 256 % 256] = n := by rw [ofLE3]; omega
theorem ofLE4_bytes (n : Nat) (h : n < 2 ^ 32) : ofLE [n % 256, n / 256 % 256, n / 256 / 256 % 256, n / 256 / 256 / 256 % 256] = n := by rw [ofLE4]; omega
theorem ofLE2_bytes (n : Nat) (h : n < 2 ^ 16) : ofLE [n % 256, n / 256 % 256] = n := by rw [ofLE2]; omega

/-- the type 9 header, byte by byte -/
theorem hdr9_explicit (c : Cfg) (h5 : c.codec ≠ 5) (f : Fields) (S : Nat) (hS : wrapU 24 (wrapS 32 (f.frames * c.ch * bytewidth c.codec + 12)) = S) :
    hdr c f = fileHdr ++ (9 :: S % 256 :: S / 256 % 256 :: S / 256 / 256 % 256 ::
      wrapU 32 c.sr % 256 :: wrapU 32 c.sr / 256 % 256 :: wrapU 32 c.sr / 256 / 256 % 256 :: wrapU 32 c.sr / 256 / 256 / 256 % 256 ::
      (if c.codec = 2 then 16 else 8) :: c.ch :: encOf c.codec :: 0 :: [0, 0, 0, 0]) := by
  have e1 : le16 (encOf c.codec) = [encOf c.codec, 0] := by
    unfold encOf; split
    · decide
    · split <;> decide
  unfold hdr
  rw [if_neg h5]
  have w0 : wrapU 32 0 = 0 := by decide
  simp only [le24, hS, le3_explicit, le32, le4_explicit, e1, w0, Nat.zero_mod, Nat.zero_div, List.append_assoc, List.cons_append, List.nil_append]

/-- what the reader makes of a type 9 file of `L` bytes whose length field holds `S`: the "missing zero byte" rule
    drops `dataend` when the block would end one byte beyond the file -/
def frames9 (S L bw : Nat) : Nat :=
  (framesOf (L : Int) (42 : Nat) (if (S : Int) + 31 = (L : Int) + 1 then 0 else (L : Int) - 1) (bw : Int)).toNat

/-- **voc_read_header on a type 9 image**: `S` is the value of the 3-byte length field, `data` everything after the
    42-byte header -/
theorem parse_image9 (c : Cfg) (hwf : c.wf) (h5 : c.codec ≠ 5) (f : Fields) (S : Nat)
    (hS : wrapU 24 (wrapS 32 (f.frames * c.ch * bytewidth c.codec + 12)) = S) (data : List Byte)
    (hlen : 42 + data.length < 2 ^ 31) (hsox : (S : Int) * 2 ≠ ((42 + data.length : Nat) : Int) - 39) :
    parse (hdr c f ++ data) = .ok { ch := c.ch, fmt := c.fmtWord, sr := c.sr, frames := frames9 S (42 + data.length) c.bw } := by
  obtain ⟨hcodec, hch, hsr1, hsr2⟩ := hwf
  have hS24 : S < 2 ^ 24 := by rw [← hS]; exact wrapU_lt 24 _
  have hR : wrapU 32 ((c.sr : Nat) : Int) = c.sr := wrapU_nat 32 _ (by omega)
  rw [hdr9_explicit c h5 f S hS, List.append_assoc]
  generalize hX : (9 :: S % 256 :: S / 256 % 256 :: S / 256 / 256 % 256 ::
      wrapU 32 c.sr % 256 :: wrapU 32 c.sr / 256 % 256 :: wrapU 32 c.sr / 256 / 256 % 256 :: wrapU 32 c.sr / 256 / 256 / 256 % 256 ::
      (if c.codec = 2 then 16 else 8) :: c.ch :: encOf c.codec :: 0 :: [0, 0, 0, 0]) ++ data = X
  have hXlen : X.length = 16 + data.length := by rw [← hX]; simp; omega
  obtain ⟨k1, k2, k3, k4⟩ := fileHdr_checks X
  have hbr := block_reads 9 (S % 256) (S / 256 % 256) (S / 256 / 256 % 256)
      (wrapU 32 c.sr % 256) (wrapU 32 c.sr / 256 % 256) (wrapU 32 c.sr / 256 / 256 % 256) (wrapU 32 c.sr / 256 / 256 / 256 % 256)
      (if c.codec = 2 then 16 else 8) c.ch (encOf c.codec) 0 0 0 ([0, 0] ++ data)
  simp only [List.cons_append, List.nil_append] at hbr hX
  rw [hX] at hbr
  obtain ⟨r26, r27, _, r30, _, _, r34, r35, r36, _⟩ := hbr
  rw [ofLE3_bytes S hS24] at r27
  rw [ofLE4_bytes _ (wrapU_lt 32 _), hR] at r30
  unfold parse
  rw [if_neg (by omega), guess_voc]
  simp only []
  unfold readHeader
  rw [if_neg (by omega), if_neg (by omega), k1, k2, k3]
  simp only [ne_eq, not_true_eq_false, or_self, false_and, if_false, and_false, and_self]
  unfold readBlock
  simp only [r26, r27, r30, r34, r35, r36, k4, hXlen]
  have e42 : 26 + (16 + data.length) = 42 + data.length := by omega
  have hsx : sext 32 c.sr = (c.sr : Int) := sext_small' c.sr (by omega)
  have n95 : ¬ ((9 : Nat) = 5 ∨ (9 : Nat) = 6) := by decide
  have n91 : ¬ ((9 : Nat) = 1) := by decide
  have n98 : ¬ ((9 : Nat) = 8) := by decide
  have hl42 : ¬ (42 + data.length < 42) := by omega
  rw [e42]
  simp only [n95, n91, n98, if_false, if_true, hsox, hsx, hl42]
  have s4 : sext 16 (ofLE [4, 0]) = 4 := by decide
  have s6 : sext 16 (ofLE [6, 0]) = 6 := by decide
  have s7 : sext 16 (ofLE [7, 0]) = 7 := by decide
  have hch0 : ¬ (c.ch = 0) := by omega
  have hsr0 : (1 : Int) ≤ ((c.sr : Nat) : Int) := by omega
  obtain ⟨codec, ch, sr⟩ := c
  simp only at hcodec h5 hch0 hsr0 ⊢
  rcases hcodec with h | h | h | h <;> subst h
  · exact absurd rfl h5
  · simp [encOf, s4, frames9, Cfg.fmtWord, Cfg.bw, bytewidth]; exact ⟨hch0, hsr0⟩
  · simp [encOf, s7, frames9, Cfg.fmtWord, Cfg.bw, bytewidth]; exact ⟨hch0, hsr0⟩
  · simp [encOf, s6, frames9, Cfg.fmtWord, Cfg.bw, bytewidth]; exact ⟨hch0, hsr0⟩

/-! ### type 1 and type 8 + 1 images (PCM_U8) -/

theorem block_reads6 (b0 b1 b2 b3 b4 b5 : Byte) (X : List Byte) :
    let bs := fileHdr ++ (b0 :: b1 :: b2 :: b3 :: b4 :: b5 :: X)
    byteAt bs 26 = b0 ∧ leAt bs 27 3 = ofLE [b1, b2, b3] ∧ byteAt bs 30 = b4 := by
  rw [fileHdr_explicit]; exact ⟨rfl, rfl, rfl⟩

theorem rate8_lt (sr : Nat) : rate8 sr < 256 := wrapU_lt 8 _
theorem rate16_lt (sr : Nat) : rate16 sr < 65536 := wrapU_lt 16 _

theorem unrate8_pos (b : Nat) (h : b < 256) : 1 ≤ unrate8 b := by
  unfold unrate8
  have h1 : 256 - b ≤ 256 := by omega
  have h2 : 0 < 256 - b := by omega
  exact (Nat.le_div_iff_mul_le h2).mpr (by omega)

theorem unrate16_pos (st : Bool) (s : Nat) (h : s < 65536) : 1 ≤ unrate16 st s := by
  unfold unrate16
  have h2 : 0 < 65536 - s := by omega
  apply (Nat.le_div_iff_mul_le h2).mpr
  cases st <;> simp <;> omega

theorem hdr1_explicit (c : Cfg) (h5 : c.codec = 5) (h1 : c.ch = 1) (f : Fields) (L : Nat) (hL : wrapU 24 (wrapS 32 (f.datalength + 2)) = L) :
    hdr c f = fileHdr ++ (1 :: L % 256 :: L / 256 % 256 :: L / 256 / 256 % 256 :: rate8 c.sr :: 0 :: []) := by
  unfold hdr
  rw [if_pos h5, if_pos h1]
  simp only [le24, hL, le3_explicit, List.append_assoc, List.cons_append, List.nil_append]

/-- **voc_read_header on a type 1 image**: `L` is the value of the length field, `data` everything after the 32-byte
    header; the reader takes the LAST byte of the file for the terminator -/
theorem parse_image1 (c : Cfg) (hwf : c.wf) (h5 : c.codec = 5) (h1 : c.ch = 1) (f : Fields) (L : Nat)
    (hL : wrapU 24 (wrapS 32 (f.datalength + 2)) = L) (data : List Byte) (hlen : 32 + data.length < 2 ^ 31)
    (hlo : L ≤ data.length + 1) (hhi : data.length ≤ L + 4) :
    parse (hdr c f ++ data) = .ok { ch := 1, fmt := c.fmtWord, sr := quant c, frames := data.length - 1 } := by
  have hL24 : L < 2 ^ 24 := by rw [← hL]; exact wrapU_lt 24 _
  rw [hdr1_explicit c h5 h1 f L hL, List.append_assoc]
  generalize hX : (1 :: L % 256 :: L / 256 % 256 :: L / 256 / 256 % 256 :: rate8 c.sr :: 0 :: []) ++ data = X
  have hXlen : X.length = 6 + data.length := by rw [← hX]; simp; omega
  obtain ⟨k1, k2, k3, k4⟩ := fileHdr_checks X
  have hbr := block_reads6 1 (L % 256) (L / 256 % 256) (L / 256 / 256 % 256) (rate8 c.sr) 0 data
  simp only [List.cons_append, List.nil_append] at hbr hX
  rw [hX] at hbr
  obtain ⟨r26, r27, r30⟩ := hbr
  rw [ofLE3_bytes L hL24] at r27
  unfold parse
  rw [if_neg (by omega), guess_voc]
  simp only []
  unfold readHeader
  rw [if_neg (by omega), if_neg (by omega), k1, k2, k3]
  simp only [ne_eq, not_true_eq_false, or_self, false_and, if_false, and_false, and_self]
  unfold readBlock
  simp only [r26, r27, r30, k4, hXlen]
  have e32 : 26 + (6 + data.length) = 32 + data.length := by omega
  have n15 : ¬ ((1 : Nat) = 5 ∨ (1 : Nat) = 6) := by decide
  have c0 : ¬ (32 + (L : Int) - 2 = ((32 + data.length : Nat) : Int)) := by omega
  have c1 : ¬ (32 + (L : Int) - 1 > ((32 + data.length : Nat) : Int)) := by omega
  have c2 : ¬ (((32 + data.length : Nat) : Int) - 32 - (L : Int) > 4) := by omega
  have c3 : ¬ (32 + data.length < 32) := by omega
  rw [e32]
  simp only [n15, if_false, if_true, c0, c1, c2, c3]
  have hp := unrate8_pos (rate8 c.sr) (rate8_lt c.sr)
  have c4 : ¬ ((1 : Nat) < 1 ∨ ((unrate8 (rate8 c.sr) : Nat) : Int) < 1) := by omega
  rw [if_neg c4]
  have hq : quant c = unrate8 (rate8 c.sr) := by unfold quant; rw [if_pos h5, if_pos h1]
  have hfr : (framesOf ((32 + data.length : Nat) : Int) (32 : Nat) (((32 + data.length : Nat) : Int) - 1) ((1 * 1 : Nat) : Int)).toNat = data.length - 1 := by
    unfold framesOf
    by_cases hz : data.length = 0
    · have : ¬ (((32 + data.length : Nat) : Int) > ((32 : Nat) : Int)) := by omega
      rw [if_neg this]; simp [hz]
    · have g1 : ((32 + data.length : Nat) : Int) > ((32 : Nat) : Int) := by omega
      have g2 : ((32 + data.length : Nat) : Int) - 1 > 0 := by omega
      rw [if_pos g1, if_pos g2]
      have e : ((32 + data.length : Nat) : Int) - 1 - ((32 : Nat) : Int) = ((data.length - 1 : Nat) : Int) := by omega
      rw [e]; simp
  rw [hfr, hq]
  simp [Cfg.fmtWord, h5]

/-- **voc_read_header on a type 1 image without terminator** (what a header update leaves): the block would end one
    byte beyond the file, every byte after the header is audio -/
theorem parse_image1_missing (c : Cfg) (hwf : c.wf) (h5 : c.codec = 5) (h1 : c.ch = 1) (f : Fields) (L : Nat)
    (hL : wrapU 24 (wrapS 32 (f.datalength + 2)) = L) (data : List Byte) (hlen : 32 + data.length < 2 ^ 31)
    (hfit : L = data.length + 2) :
    parse (hdr c f ++ data) = .ok { ch := 1, fmt := c.fmtWord, sr := quant c, frames := data.length } := by
  have hL24 : L < 2 ^ 24 := by rw [← hL]; exact wrapU_lt 24 _
  rw [hdr1_explicit c h5 h1 f L hL, List.append_assoc]
  generalize hX : (1 :: L % 256 :: L / 256 % 256 :: L / 256 / 256 % 256 :: rate8 c.sr :: 0 :: []) ++ data = X
  have hXlen : X.length = 6 + data.length := by rw [← hX]; simp; omega
  obtain ⟨k1, k2, k3, k4⟩ := fileHdr_checks X
  have hbr := block_reads6 1 (L % 256) (L / 256 % 256) (L / 256 / 256 % 256) (rate8 c.sr) 0 data
  simp only [List.cons_append, List.nil_append] at hbr hX
  rw [hX] at hbr
  obtain ⟨r26, r27, r30⟩ := hbr
  rw [ofLE3_bytes L hL24] at r27
  unfold parse
  rw [if_neg (by omega), guess_voc]
  simp only []
  unfold readHeader
  rw [if_neg (by omega), if_neg (by omega), k1, k2, k3]
  simp only [ne_eq, not_true_eq_false, or_self, false_and, if_false, and_false, and_self]
  unfold readBlock
  simp only [r26, r27, r30, k4, hXlen]
  have e32 : 26 + (6 + data.length) = 32 + data.length := by omega
  have n15 : ¬ ((1 : Nat) = 5 ∨ (1 : Nat) = 6) := by decide
  have c0 : 32 + (L : Int) - 2 = ((32 + data.length : Nat) : Int) := by omega
  have c3 : ¬ (32 + data.length < 32) := by omega
  rw [e32]
  simp only [n15, if_false, if_true, c0, c3]
  have hp := unrate8_pos (rate8 c.sr) (rate8_lt c.sr)
  have c4 : ¬ ((1 : Nat) < 1 ∨ ((unrate8 (rate8 c.sr) : Nat) : Int) < 1) := by omega
  rw [if_neg c4]
  have hq : quant c = unrate8 (rate8 c.sr) := by unfold quant; rw [if_pos h5, if_pos h1]
  have hfr := framesOf_nat 32 data.length (1 * 1) (by decide)
  rw [hfr, hq]
  simp [Cfg.fmtWord, h5]

theorem hdr8_explicit (c : Cfg) (h5 : c.codec = 5) (h2 : c.ch = 2) (f : Fields) (L : Nat) (hL : wrapU 24 (wrapS 32 (f.datalength + 2)) = L) :
    hdr c f = fileHdr ++ (8 :: 4 :: 0 :: 0 :: rate16 c.sr % 256 :: rate16 c.sr / 256 % 256 :: 0 :: 1 :: 1 ::
      L % 256 :: L / 256 % 256 :: L / 256 / 256 % 256 :: rate8 c.sr :: 0 :: []) := by
  have w4 : wrapU 24 4 = 4 := by decide
  have hr : wrapU 16 ((rate16 c.sr : Nat) : Int) = rate16 c.sr := wrapU_nat 16 _ (rate16_lt c.sr)
  have h1 : ¬ (c.ch = 1) := by omega
  unfold hdr
  rw [if_pos h5, if_neg h1]
  simp only [w4, le24, hL, le3_explicit, le16, hr, le2_explicit, Nat.reduceMod, Nat.reduceDiv, List.append_assoc, List.cons_append, List.nil_append]

/-- **voc_read_header on a type 8 + type 1 image**: the block must end exactly one byte before the end of the file -/
theorem parse_image8 (c : Cfg) (hwf : c.wf) (h5 : c.codec = 5) (h2 : c.ch = 2) (f : Fields) (L : Nat)
    (hL : wrapU 24 (wrapS 32 (f.datalength + 2)) = L) (data : List Byte) (hlen : 40 + data.length < 2 ^ 31)
    (hfit : L = data.length + 1) :
    parse (hdr c f ++ data) = .ok { ch := 2, fmt := c.fmtWord, sr := quant c, frames := (data.length - 1) / 2 } := by
  have hL24 : L < 2 ^ 24 := by rw [← hL]; exact wrapU_lt 24 _
  rw [hdr8_explicit c h5 h2 f L hL, List.append_assoc]
  generalize hX : (8 :: 4 :: 0 :: 0 :: rate16 c.sr % 256 :: rate16 c.sr / 256 % 256 :: 0 :: 1 :: 1 ::
      L % 256 :: L / 256 % 256 :: L / 256 / 256 % 256 :: rate8 c.sr :: 0 :: []) ++ data = X
  have hXlen : X.length = 14 + data.length := by rw [← hX]; simp; omega
  obtain ⟨k1, k2, k3, k4⟩ := fileHdr_checks X
  have hbr := block_reads 8 4 0 0 (rate16 c.sr % 256) (rate16 c.sr / 256 % 256) 0 1 1 (L % 256) (L / 256 % 256) (L / 256 / 256 % 256) (rate8 c.sr) 0 data
  simp only [List.cons_append, List.nil_append] at hbr hX
  rw [hX] at hbr
  obtain ⟨r26, _, _, _, r30, r33, r34, _, _, r35⟩ := hbr
  rw [ofLE3_bytes L hL24] at r35
  rw [ofLE2_bytes _ (rate16_lt c.sr)] at r30
  unfold parse
  rw [if_neg (by omega), guess_voc]
  simp only []
  unfold readHeader
  rw [if_neg (by omega), if_neg (by omega), k1, k2, k3]
  simp only [ne_eq, not_true_eq_false, or_self, false_and, if_false, and_false, and_self]
  unfold readBlock
  simp only [r26, r30, r33, r34, r35, k4, hXlen]
  have e40 : 26 + (14 + data.length) = 40 + data.length := by omega
  have n85 : ¬ ((8 : Nat) = 5 ∨ (8 : Nat) = 6) := by decide
  have n81 : ¬ ((8 : Nat) = 1) := by decide
  have c0 : ¬ (40 + data.length < 40) := by omega
  have c1 : ¬ (40 + (L : Int) - 1 > ((40 + data.length : Nat) : Int)) := by omega
  have c2 : ¬ (40 + (L : Int) - 1 < ((40 + data.length : Nat) : Int)) := by omega
  have cm : ¬ (40 + (L : Int) - 2 = ((40 + data.length : Nat) : Int)) := by omega
  rw [e40]
  simp only [n85, n81, if_false, if_true, c0, cm, c1, c2, ne_eq, not_true_eq_false, Nat.one_ne_zero, not_false_eq_true, decide_true, decide_false]
  have hp := unrate16_pos true (rate16 c.sr) (rate16_lt c.sr)
  have c4 : ¬ ((2 : Nat) < 1 ∨ ((unrate16 true (rate16 c.sr) : Nat) : Int) < 1) := by omega
  rw [if_neg c4]
  have hq : quant c = unrate16 true (rate16 c.sr) := by
    have h1 : ¬ (c.ch = 1) := by omega
    unfold quant; rw [if_pos h5, if_neg h1]
  have hfr : (framesOf ((40 + data.length : Nat) : Int) (40 : Nat) (((40 + data.length : Nat) : Int) - 1) ((1 * 2 : Nat) : Int)).toNat = (data.length - 1) / 2 := by
    unfold framesOf
    have b2 : (((1 * 2 : Nat) : Int)) > 0 := by decide
    by_cases hz : data.length = 0
    · have : ¬ (((40 + data.length : Nat) : Int) > ((40 : Nat) : Int)) := by omega
      rw [if_neg this, if_pos b2]; simp [hz]
    · have g1 : ((40 + data.length : Nat) : Int) > ((40 : Nat) : Int) := by omega
      have g2 : ((40 + data.length : Nat) : Int) - 1 > 0 := by omega
      rw [if_pos g1, if_pos g2]
      have e : ((40 + data.length : Nat) : Int) - 1 - ((40 : Nat) : Int) = ((data.length - 1 : Nat) : Int) := by omega
      rw [e, if_pos b2, Int.tdiv_eq_ediv_of_nonneg (Int.natCast_nonneg _), ← Int.natCast_ediv, Int.toNat_natCast]
  rw [hfr, hq]
  simp [Cfg.fmtWord, h5]

/-- **voc_read_header on a type 8 + type 1 image without terminator** -/
theorem parse_image8_missing (c : Cfg) (hwf : c.wf) (h5 : c.codec = 5) (h2 : c.ch = 2) (f : Fields) (L : Nat)
    (hL : wrapU 24 (wrapS 32 (f.datalength + 2)) = L) (data : List Byte) (hlen : 40 + data.length < 2 ^ 31)
    (hfit : L = data.length + 2) :
    parse (hdr c f ++ data) = .ok { ch := 2, fmt := c.fmtWord, sr := quant c, frames := data.length / 2 } := by
  have hL24 : L < 2 ^ 24 := by rw [← hL]; exact wrapU_lt 24 _
  rw [hdr8_explicit c h5 h2 f L hL, List.append_assoc]
  generalize hX : (8 :: 4 :: 0 :: 0 :: rate16 c.sr % 256 :: rate16 c.sr / 256 % 256 :: 0 :: 1 :: 1 ::
      L % 256 :: L / 256 % 256 :: L / 256 / 256 % 256 :: rate8 c.sr :: 0 :: []) ++ data = X
  have hXlen : X.length = 14 + data.length := by rw [← hX]; simp; omega
  obtain ⟨k1, k2, k3, k4⟩ := fileHdr_checks X
  have hbr := block_reads 8 4 0 0 (rate16 c.sr % 256) (rate16 c.sr / 256 % 256) 0 1 1 (L % 256) (L / 256 % 256) (L / 256 / 256 % 256) (rate8 c.sr) 0 data
  simp only [List.cons_append, List.nil_append] at hbr hX
  rw [hX] at hbr
  obtain ⟨r26, _, _, _, r30, r33, r34, _, _, r35⟩ := hbr
  rw [ofLE3_bytes L hL24] at r35
  rw [ofLE2_bytes _ (rate16_lt c.sr)] at r30
  unfold parse
  rw [if_neg (by omega), guess_voc]
  simp only []
  unfold readHeader
  rw [if_neg (by omega), if_neg (by omega), k1, k2, k3]
  simp only [ne_eq, not_true_eq_false, or_self, false_and, if_false, and_false, and_self]
  unfold readBlock
  simp only [r26, r30, r33, r34, r35, k4, hXlen]
  have e40 : 26 + (14 + data.length) = 40 + data.length := by omega
  have n85 : ¬ ((8 : Nat) = 5 ∨ (8 : Nat) = 6) := by decide
  have n81 : ¬ ((8 : Nat) = 1) := by decide
  have c0 : ¬ (40 + data.length < 40) := by omega
  have cm : 40 + (L : Int) - 2 = ((40 + data.length : Nat) : Int) := by omega
  rw [e40]
  simp only [n85, n81, if_false, if_true, c0, cm, ne_eq, not_true_eq_false, Nat.one_ne_zero, not_false_eq_true, decide_true, decide_false]
  have hp := unrate16_pos true (rate16 c.sr) (rate16_lt c.sr)
  have c4 : ¬ ((2 : Nat) < 1 ∨ ((unrate16 true (rate16 c.sr) : Nat) : Int) < 1) := by omega
  rw [if_neg c4]
  have hq : quant c = unrate16 true (rate16 c.sr) := by
    have h1 : ¬ (c.ch = 1) := by omega
    unfold quant; rw [if_pos h5, if_neg h1]
  have hfr := framesOf_nat 40 data.length (1 * 2) (by decide)
  rw [hfr, hq]
  simp [Cfg.fmtWord, h5]

/-! ### sessions -/

theorem hdr_length (c : Cfg) (f : Fields) : (hdr c f).length = c.hdrLen := by
  have hf : fileHdr.length = 26 := by decide +kernel
  unfold hdr Cfg.hdrLen
  split
  · split <;> simp [hf, le24, leBytes_length]
  · simp [hf, le24, leBytes_length]

theorem lawful (c : Cfg) : Lawful (fmt c) where
  hlen := by intro f; exact hdr_length c f
  hindep := by intro n f g; rfl

/-- the closed file: the header computed from the audio in front of the terminator (`closeFields`), the audio, the
    terminator -/
theorem closedBytes_eq (c : Cfg) (stale : Nat) (ops : List WOp) :
    closedBytes c stale ops = hdr c (closeFields c (opsData ops).length) ++ (opsData ops ++ [0]) := by
  obtain ⟨h1, h2⟩ := run_inv (fmt c) (lawful c) ops (openW (fmt c) stale) (open_hdr_len (fmt c) (lawful c) stale)
  unfold closedBytes closeSt St.bytes
  simp only [h2, open_data, List.nil_append]

end Sf.Voc
