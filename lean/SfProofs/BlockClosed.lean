/-
  The generic block writer, closed form: after any frames pushed one by one (`pushFrame`, which every call of every
  codec wrapper amounts to: `block_writer_calls_fold`) and the zero-padding close, the emitted bytes are the
  concatenation of `encodeBlock` over the `spb · ch`-item chunks of the items, the last chunk padded with zeros, the
  encoder state threaded from chunk to chunk — whatever `encodeBlock` is.  Helper lemmas for SfProps/C07CodecsClosed.
-/
import SfModel.Block
import SfProofs.BlockWriter
namespace Sf.Block.Closed
open Sf Sf.Block Sf.Block.Proofs

variable {σ : Type}

/-- the encoder run over the items cut into blocks of `n` items, the last one zero-padded, the state threaded;
    `fuel` bounds the number of blocks -/
def encChunks (enc : σ → List Int → σ × List Byte) (n : Nat) : Nat → σ → List Int → List Byte
  | 0, _, _ => []
  | fuel + 1, s, xs =>
    if xs = [] then []
    else
      let blk := xs.take n
      let r := enc s (blk ++ zeros (n - blk.length))
      r.2 ++ encChunks enc n fuel r.1 (xs.drop n)

/-- the encoder state after those blocks -/
def encState (enc : σ → List Int → σ × List Byte) (n : Nat) : Nat → σ → List Int → σ
  | 0, s, _ => s
  | fuel + 1, s, xs =>
    if xs = [] then s
    else
      let blk := xs.take n
      encState enc n fuel (enc s (blk ++ zeros (n - blk.length))).1 (xs.drop n)

/-- number of blocks: ⌈len / n⌉ -/
def nblocks (len n : Nat) : Nat := (len + n - 1) / n

theorem encChunks_nil (enc : σ → List Int → σ × List Byte) (n fuel : Nat) (s : σ) : encChunks enc n fuel s [] = [] := by
  cases fuel <;> simp [encChunks]

theorem take_overwrite (buf : List Int) (off : Nat) (piece : List Int) (len : Nat) (h : off ≤ buf.length) :
    (overwrite buf off piece len).take (off + piece.length) = buf.take off ++ piece := by
  unfold overwrite
  have h1 : (buf.take off ++ piece).length = off + piece.length := by
    rw [List.length_append, List.length_take]; omega
  exact List.take_left' h1

/-- the writer state as "bytes so far + pending items + encoder state": after the frames `fs` and the padding close,
    the bytes are those emitted before followed by the encoder run over pending ++ new items -/
theorem close_fold_bytes (w : Writer σ) (wf : WWF w) : ∀ (fs : List (List Int)) (st : WState σ) (fuel : Nat),
    WInv w st → Uniform w.ch fs → st.cnt + fs.length < fuel →
    (w.close true (fs.foldl (pushFrame w) st)).bytes =
      st.out.reverse.flatten ++ encChunks w.enc (w.spb * w.ch) fuel st.es (st.buf.take (st.cnt * w.ch) ++ fs.flatten) := by
  intro fs
  induction fs with
  | nil =>
    intro st fuel inv _ hf
    simp only [List.foldl_nil, List.flatten_nil, List.append_nil]
    unfold Writer.close
    by_cases hc : st.cnt = 0
    · simp only [hc, if_true, Nat.zero_mul, List.take_zero, encChunks_nil, List.append_nil, WState.bytes]
    · simp only [hc, if_false, if_true]
      obtain ⟨fuel, rfl⟩ : ∃ k, fuel = k + 1 := ⟨fuel - 1, by omega⟩
      have hcnt := inv.cnt
      have hpos : 0 < st.cnt * w.ch := Nat.mul_pos (Nat.pos_of_ne_zero hc) wf.ch_pos
      have hlt : st.cnt * w.ch < w.spb * w.ch := Nat.mul_lt_mul_of_pos_right hcnt wf.ch_pos
      have hlen : (st.buf.take (st.cnt * w.ch)).length = st.cnt * w.ch := by
        rw [List.length_take, inv.len]; omega
      have hne : st.buf.take (st.cnt * w.ch) ≠ [] := by
        intro h; rw [h] at hlen; simp at hlen; omega
      unfold encChunks
      simp only [hne, if_false]
      have htk : (st.buf.take (st.cnt * w.ch)).take (w.spb * w.ch) = st.buf.take (st.cnt * w.ch) :=
        List.take_of_length_le (by omega)
      have hdr : (st.buf.take (st.cnt * w.ch)).drop (w.spb * w.ch) = [] := List.drop_of_length_le (by omega)
      rw [htk, hdr, encChunks_nil, List.append_nil, hlen, ← Nat.sub_mul]
      simp only [Writer.emit, WState.bytes, List.reverse_cons, List.flatten_append, List.flatten_cons, List.flatten_nil,
        List.append_nil]
  | cons f fs ih =>
    intro st fuel inv hu hf
    obtain ⟨hfl, hu2⟩ := uniform_cons hu
    simp only [List.length_cons] at hf
    obtain ⟨fuel, rfl⟩ : ∃ k, fuel = k + 1 := ⟨fuel - 1, by omega⟩
    have hcnt := inv.cnt
    have hoff : st.cnt * w.ch + w.ch ≤ st.buf.length := by
      rw [inv.len]
      have := Nat.mul_le_mul_right w.ch (show st.cnt + 1 ≤ w.spb by omega)
      rwa [Nat.add_mul, Nat.one_mul] at this
    have hlen1 : (overwrite st.buf (st.cnt * w.ch) f w.ch).length = w.spb * w.ch := by
      rw [overwrite_length _ _ _ _ hoff hfl]; exact inv.len
    have htake : (overwrite st.buf (st.cnt * w.ch) f w.ch).take ((st.cnt + 1) * w.ch) = st.buf.take (st.cnt * w.ch) ++ f := by
      have := take_overwrite st.buf (st.cnt * w.ch) f w.ch (by omega)
      rw [hfl] at this
      rw [Nat.add_mul, Nat.one_mul]; exact this
    rw [List.foldl_cons, List.flatten_cons, ← List.append_assoc]
    by_cases hfull : st.cnt + 1 ≥ w.spb
    · -- the block is complete: encode + emit
      have hspb : st.cnt + 1 = w.spb := by omega
      have hstep : pushFrame w st f =
          w.emit { st with buf := overwrite st.buf (st.cnt * w.ch) f w.ch, cnt := st.cnt + 1 } := by
        unfold pushFrame; simp only [hfull, if_true]
      have hblock : overwrite st.buf (st.cnt * w.ch) f w.ch = st.buf.take (st.cnt * w.ch) ++ f := by
        rw [← htake, hspb, ← hlen1, List.take_length]
      have hblen : (st.buf.take (st.cnt * w.ch) ++ f).length = w.spb * w.ch := by rw [← hblock]; exact hlen1
      have inv2 : WInv w (pushFrame w st f) := by
        rw [hstep]; exact ⟨by rw [emit_cnt]; exact wf.spb_pos, by rw [emit_buf]; exact hlen1⟩
      rw [ih (pushFrame w st f) fuel inv2 hu2 (by rw [hstep, emit_cnt]; omega)]
      rw [hstep]
      simp only [Writer.emit, Nat.zero_mul, List.take_zero, List.nil_append, List.reverse_cons, List.flatten_append,
        List.flatten_cons, List.flatten_nil, List.append_nil, List.append_assoc]
      congr 1
      rw [← List.append_assoc]
      conv => rhs; unfold encChunks
      have hne : st.buf.take (st.cnt * w.ch) ++ f ++ fs.flatten ≠ [] := by
        intro h
        have := congrArg List.length h
        rw [List.length_append, hblen] at this
        have hp : 0 < w.spb * w.ch := Nat.mul_pos wf.spb_pos wf.ch_pos
        simp at this; omega
      simp only [hne, if_false]
      rw [List.take_left' hblen, List.drop_left' hblen, hblen, Nat.sub_self, hblock]
      simp only [zeros, List.replicate_zero, List.append_nil]
    · -- the block is not complete
      have hstep : pushFrame w st f = { st with buf := overwrite st.buf (st.cnt * w.ch) f w.ch, cnt := st.cnt + 1 } := by
        unfold pushFrame; simp only [hfull, if_false]
      have inv2 : WInv w (pushFrame w st f) := by
        rw [hstep]; exact ⟨by simp only; omega, hlen1⟩
      rw [ih (pushFrame w st f) (fuel + 1) inv2 hu2 (by rw [hstep]; simp only; omega)]
      rw [hstep]
      simp only [htake]

/-- **closed form**: from the freshly opened writer -/
theorem closed_form (w : Writer σ) (wf : WWF w) (s0 : σ) (fs : List (List Int)) (hu : Uniform w.ch fs) :
    (w.close true (fs.foldl (pushFrame w) (w.init s0))).bytes = encChunks w.enc (w.spb * w.ch) (fs.length + 1) s0 fs.flatten := by
  have h := close_fold_bytes w wf fs (w.init s0) (fs.length + 1) (init_inv_w w wf s0) hu (by simp [Writer.init])
  rw [h]
  simp [Writer.init]

/-- ⌈len / n⌉ as "0 for the empty list, else (len − 1) / n + 1" -/
theorem nblocks_pos (len n : Nat) (hn : 0 < n) (hl : 0 < len) : nblocks len n = (len - 1) / n + 1 := by
  unfold nblocks
  have : len + n - 1 = (len - 1) + n := by omega
  rw [this, Nat.add_div_right _ hn]

theorem nblocks_zero (n : Nat) (hn : 0 < n) : nblocks 0 n = 0 := by
  unfold nblocks
  rw [Nat.zero_add]
  exact Nat.div_eq_of_lt (by omega)

theorem nblocks_drop (len n : Nat) (hn : 0 < n) (hl : 0 < len) : nblocks len n = nblocks (len - n) n + 1 := by
  rw [nblocks_pos len n hn hl]
  by_cases h : len ≤ n
  · have : len - n = 0 := by omega
    rw [this, nblocks_zero n hn, Nat.div_eq_of_lt (by omega)]
  · rw [nblocks_pos (len - n) n hn (by omega)]
    have : len - 1 = (len - n - 1) + n := by omega
    rw [this, Nat.add_div_right _ hn]

/-- byte length of the encoder run: every block the encoder is given has `n` items; if it always answers `bpb` bytes
    for such a block, the run over `len` items has ⌈len / n⌉ · bpb bytes -/
theorem encChunks_length (enc : σ → List Int → σ × List Byte) (n bpb : Nat) (hn : 0 < n)
    (henc : ∀ (s : σ) (b : List Int), b.length = n → (enc s b).2.length = bpb) :
    ∀ (fuel : Nat) (s : σ) (xs : List Int), xs.length < fuel →
    (encChunks enc n fuel s xs).length = nblocks xs.length n * bpb := by
  intro fuel
  induction fuel with
  | zero => intro s xs h; omega
  | succ fuel ih =>
    intro s xs hf
    unfold encChunks
    by_cases hx : xs = []
    · subst hx
      simp [nblocks_zero n hn]
    · simp only [hx, if_false]
      have hl : 0 < xs.length := List.length_pos_iff.mpr hx
      have hb : (xs.take n ++ zeros (n - (xs.take n).length)).length = n := by
        simp only [List.length_append, List.length_take, zeros, List.length_replicate]; omega
      rw [List.length_append, henc _ _ hb, ih _ _ (by rw [List.length_drop]; omega), List.length_drop,
        nblocks_drop xs.length n hn hl, Nat.add_mul, Nat.one_mul, Nat.add_comm]

/-- ⌈len / n⌉ · n lies in [len, len + n) -/
theorem nblocks_bound (len n : Nat) (hn : 0 < n) : len ≤ nblocks len n * n ∧ nblocks len n * n < len + n := by
  unfold nblocks
  have h1 := Nat.div_add_mod (len + n - 1) n
  have h2 := Nat.mod_lt (len + n - 1) hn
  rw [Nat.mul_comm] at h1
  constructor <;> omega

/-- the fuel does not matter once it exceeds the number of items -/
theorem encChunks_fuel (enc : σ → List Int → σ × List Byte) (n : Nat) (hn : 0 < n) :
    ∀ (f1 f2 : Nat) (s : σ) (xs : List Int), xs.length < f1 → xs.length < f2 → encChunks enc n f1 s xs = encChunks enc n f2 s xs := by
  intro f1
  induction f1 with
  | zero => intro f2 s xs h; omega
  | succ f1 ih =>
    intro f2 s xs h1 h2
    obtain ⟨f2, rfl⟩ : ∃ k, f2 = k + 1 := ⟨f2 - 1, by omega⟩
    unfold encChunks
    by_cases hx : xs = []
    · simp [hx]
    · simp only [hx, if_false]
      have hl : 0 < xs.length := List.length_pos_iff.mpr hx
      rw [ih f2 _ _ (by rw [List.length_drop]; omega) (by rw [List.length_drop]; omega)]

end Sf.Block.Closed
