/-
  Equation lemmas for the step functions of SfModel/Handle.lean: each guard path of `stepRead` /
  `stepWrite`, the field-level effect of a header rewrite, and `stepSeek` as a flat specification.
-/
import SfModel.Handle
import SfProofs.HandleGroups
namespace Sf

/-- items requested by a call: `n` frames or `n` items -/
def reqLen (h : H) (fc : Bool) (n : Int) : Int := if fc then n * h.ch else n

theorem stepRead_zero (h : H) (s : Store) (ty : Ty) (fc : Bool) :
    stepRead h s ty fc 0 = (h, s, { ret := 0, err := h.error }) := by
  simp [stepRead]

theorem stepRead_neg (h : H) (s : Store) (ty : Ty) (fc : Bool) (n : Int) (hn : n < 0) :
    stepRead h s ty fc n = ({ h with error := E_NEG_LEN }, s, { ret := 0, err := E_NEG_LEN, data := [], hasData := true }) := by
  have h0 : ¬ n = 0 := by omega
  simp [stepRead, h0, hn]

theorem stepRead_wmode (h : H) (s : Store) (ty : Ty) (fc : Bool) (n : Int) (hn : 0 < n) (hm : h.mode = .w) :
    stepRead h s ty fc n = ({ h with error := E_NOT_READMODE }, s,
      { ret := 0, err := E_NOT_READMODE, data := List.replicate (reqLen h fc n).toNat (pattern ty), hasData := true }) := by
  have h0 : ¬ n = 0 := by omega
  have h1 : ¬ n < 0 := by omega
  simp [stepRead, h0, h1, hm, reqLen]

theorem stepRead_align (h : H) (s : Store) (ty : Ty) (n : Int) (hn : 0 < n) (hm : h.mode ≠ .w) (ha : n % h.ch ≠ 0) :
    stepRead h s ty false n = ({ h with error := E_BAD_ALIGN }, s,
      { ret := 0, err := E_BAD_ALIGN, data := List.replicate n.toNat (pattern ty), hasData := true }) := by
  have h0 : ¬ n = 0 := by omega
  have h1 : ¬ n < 0 := by omega
  simp [stepRead, h0, h1, hm, ha]

theorem stepRead_eof (h : H) (s : Store) (ty : Ty) (fc : Bool) (n : Int) (hn : 0 < n) (hm : h.mode ≠ .w)
    (ha : fc = true ∨ n % h.ch = 0) (he : h.frames ≤ h.rpos) :
    stepRead h s ty fc n = ({ h with error := 0 }, s,
      { ret := 0, err := 0, data := List.replicate (reqLen h fc n).toNat 0, hasData := true }) := by
  have h0 : ¬ n = 0 := by omega
  have h1 : ¬ n < 0 := by omega
  rcases ha with ha | ha
  · subst ha; simp [stepRead, h0, h1, hm, he, reqLen]
  · cases fc <;> simp [stepRead, h0, h1, hm, he, reqLen, ha]


/-- byte position the codec read starts at -/
def readPos (h : H) (s : Store) : Nat :=
  if h.lastOp ≠ .r then (h.dataoffset + (h.bw : Int) * h.rpos).toNat else s.pos

def readGot (h : H) (s : Store) (len : Int) : List Byte :=
  (s.bytes.drop (readPos h s)).take (len.toNat * h.nb)

set_option linter.unusedSimpArgs false in
theorem stepRead_main (h : H) (s : Store) (ty : Ty) (fc : Bool) (n : Int) (hn : 0 < n) (hm : h.mode ≠ .w)
    (ha : fc = true ∨ n % h.ch = 0) (he : h.rpos < h.frames) :
    stepRead h s ty fc n =
      let len := reqLen h fc n
      let got := readGot h s len
      let count0 : Int := (got.length : Int) / (h.nb : Int)
      let vals := h.enc.decodeAll h.conv ty got
      let s' : Store := { bytes := s.bytes, pos := readPos h s + got.length }
      if count0 ≤ (h.frames - h.rpos) * h.ch then
        ({ h with error := 0, rpos := h.rpos + count0 / h.ch, lastOp := .r }, s',
         { ret := if fc then count0 / h.ch else count0, err := 0,
           data := vals.take count0.toNat ++ List.replicate (len - count0).toNat (pattern ty), hasData := true })
      else
        ({ h with error := 0, rpos := h.frames, lastOp := .r }, s',
         { ret := if fc then (h.frames - h.rpos) * h.ch / h.ch else (h.frames - h.rpos) * h.ch, err := 0,
           data := vals.take ((h.frames - h.rpos) * h.ch).toNat ++ List.replicate (len - (h.frames - h.rpos) * h.ch).toNat 0,
           hasData := true }) := by
  have h0 : ¬ n = 0 := by omega
  have h1 : ¬ n < 0 := by omega
  have h2 : ¬ h.frames ≤ h.rpos := by omega
  have h3 : ¬ ((!fc) = true ∧ ((if fc = true then n * (h.ch : Int) else n) % (h.ch : Int) != 0) = true) := by
    intro ⟨hf, hx⟩; rcases ha with ha | ha
    · subst ha; simp at hf
    · simp at hf; subst hf; simp [ha] at hx
  unfold stepRead
  simp only [beq_iff_eq, h0, if_false, h1, hm, h2, h3]
  simp only [reqLen, readGot, readPos, Store.read, defaultSeek, Store.seekSet, H.nb, H.bw]
  cases fc <;> by_cases hl : h.lastOp = .r <;>
    simp only [hl, bne_self_eq_false, Bool.false_eq_true, if_false, if_true, ne_eq, not_true_eq_false, not_false_eq_true, bne_iff_ne] <;>
    split <;> rename_i hc <;> simp only [hc, if_true, if_false]

/-! ## write -/

theorem writeHeader_fst (h : H) (s : Store) (b : Bool) :
    ∃ fl dl off, (writeHeader h s b).1 = { h with filelength := fl, datalength := dl, dataoffset := off } ∧
      (0 ≤ h.dataoffset → 0 ≤ off) := by
  unfold writeHeader
  split
  · exact ⟨h.filelength, h.datalength, h.dataoffset, rfl, id⟩
  · cases b
    · exact ⟨_, _, 24, rfl, fun _ => by omega⟩
    · exact ⟨_, _, 24, rfl, fun _ => by omega⟩
  · cases b
    · exact ⟨_, _, _, rfl, fun _ => by simp⟩
    · refine ⟨_, _, _, rfl, fun _ => by simp⟩

/-- `h'` is `h` up to the three fields a header rewrite recomputes -/
def WHRel (h h' : H) : Prop :=
  ∃ fl dl off, h' = { h with filelength := fl, datalength := dl, dataoffset := off } ∧ (0 ≤ h.dataoffset → 0 ≤ off)

theorem WHRel.refl (h : H) : WHRel h h := ⟨h.filelength, h.datalength, h.dataoffset, rfl, id⟩
theorem WHRel.wh (h : H) (s : Store) (b : Bool) : WHRel h (writeHeader h s b).1 := writeHeader_fst h s b

theorem WHRel.cond (c : Prop) [Decidable c] (h : H) (s : Store) (b : Bool) :
    WHRel h (if c then writeHeader h s b else (h, s)).1 := by
  split
  · exact WHRel.wh h s b
  · exact WHRel.refl h



def wPre (h : H) (s : Store) : H × Store :=
  let h0 := { h with error := 0 }
  let s := if h.lastOp != .w then defaultSeek h0 s h0.wpos else s
  if !h0.haveWritten ∧ h0.container != .raw then writeHeader h0 s false else (h0, s)

def wCore (p : H × Store) (ty : Ty) (len : Int) (data : List Int) : H × Store :=
  let h := { p.1 with haveWritten := true }
  let vals := data.take len.toNat
  let peak := peakUpdate h ty vals
  let s := p.2.write (h.enc.encodeAll h.conv ty vals)
  let wpos := h.wpos + len / h.ch
  let h := { h with wpos := wpos, lastOp := .w, peak := peak }
  let h := if wpos > h.frames then { h with frames := wpos, dataend := 0 } else h
  if h.autoHeader ∧ h.container != .raw then writeHeader h s true else (h, s)

theorem stepWrite_main (h : H) (s : Store) (ty : Ty) (fc : Bool) (n : Int) (data : List Int)
    (hn : 0 < n) (hm : h.mode ≠ .r) (ha : fc = true ∨ n % h.ch = 0) :
    stepWrite h s ty fc n data =
      ((wCore (wPre h s) ty (reqLen h fc n) data).1, (wCore (wPre h s) ty (reqLen h fc n) data).2,
       { ret := if fc then reqLen h fc n / (wCore (wPre h s) ty (reqLen h fc n) data).1.ch else reqLen h fc n, err := 0 }) := by
  have h0 : ¬ n = 0 := by omega
  have h1 : ¬ n < 0 := by omega
  have h3 : ¬ ((!fc) = true ∧ ((if fc = true then n * (h.ch : Int) else n) % (h.ch : Int) != 0) = true) := by
    intro ⟨hf, hx⟩; rcases ha with ha | ha
    · subst ha; simp at hf
    · simp at hf; subst hf; simp [ha] at hx
  unfold stepWrite
  simp only [beq_iff_eq, h0, if_false, h1, hm, h3]
  rfl

theorem wPre_fields (h : H) (s : Store) : WHRel { h with error := 0 } (wPre h s).1 := by
  unfold wPre
  exact WHRel.cond _ _ _ _

theorem wCore_fields (p : H × Store) (ty : Ty) (len : Int) (data : List Int) :
    ∃ de pk, WHRel { p.1 with haveWritten := true, wpos := p.1.wpos + len / p.1.ch, lastOp := .w, peak := pk,
                              frames := max p.1.frames (p.1.wpos + len / p.1.ch), dataend := de }
                   (wCore p ty len data).1 := by
  unfold wCore
  by_cases hc : p.1.wpos + len / p.1.ch > p.1.frames
  · refine ⟨0, peakUpdate { p.1 with haveWritten := true } ty (data.take len.toNat), ?_⟩
    simp only [hc, if_true]
    have : max p.1.frames (p.1.wpos + len / p.1.ch) = p.1.wpos + len / p.1.ch := by omega
    rw [this]
    exact WHRel.cond _ _ _ _
  · refine ⟨p.1.dataend, peakUpdate { p.1 with haveWritten := true } ty (data.take len.toNat), ?_⟩
    simp only [hc, if_false]
    have : max p.1.frames (p.1.wpos + len / p.1.ch) = p.1.frames := by omega
    rw [this]
    exact WHRel.cond _ _ _ _

theorem stepWrite_fields (h : H) (s : Store) (ty : Ty) (fc : Bool) (n : Int) (data : List Int)
    (hn : 0 < n) (hm : h.mode ≠ .r) (ha : fc = true ∨ n % h.ch = 0) :
    ∃ fl dl off de pk,
      (stepWrite h s ty fc n data).1 =
        { h with error := 0, haveWritten := true, wpos := h.wpos + reqLen h fc n / h.ch, lastOp := .w, peak := pk,
                 frames := max h.frames (h.wpos + reqLen h fc n / h.ch), dataend := de,
                 filelength := fl, datalength := dl, dataoffset := off } ∧
      (0 ≤ h.dataoffset → 0 ≤ off) ∧
      (stepWrite h s ty fc n data).2.2 = { ret := if fc then reqLen h fc n / h.ch else reqLen h fc n, err := 0 } := by
  rw [stepWrite_main h s ty fc n data hn hm ha]
  obtain ⟨fl1, dl1, off1, e1, p1⟩ := wPre_fields h s
  obtain ⟨de, pk, fl2, dl2, off2, e2, p2⟩ := wCore_fields (wPre h s) ty (reqLen h fc n) data
  refine ⟨fl2, dl2, off2, de, pk, ?_, ?_, ?_⟩
  · simp only [e2, e1]
  · intro h0; apply p2; simp only [e1]; exact p1 h0
  · simp only [e2, e1]

/-! ## seek -/

def seekWm (whence : Int) : Int := whence % 0x100 / 0x10 * 0x10 % 0x40

def seekFail (h : H) (s : Store) (e : Int) : H × Store × Out := ({ h with error := e }, s, { ret := -1, err := e })
def seekTell (h : H) (s : Store) (v : Int) : H × Store × Out := ({ h with error := 0 }, s, { ret := v, err := 0 })

/-- the handle after a successful repositioning to frame `t` -/
def seekMoveH (h : H) (wm : Int) (t : Int) : H :=
  let newMode : Int := if wm != 0 then wm else modeBits h.mode
  if newMode == 0x10 then { h with error := 0, rpos := t, lastOp := .r }
  else if newMode == 0x20 then { h with error := 0, wpos := t, lastOp := .w }
  else { h with error := 0, rpos := t, wpos := t, lastOp := .r }

/-- the frame an offset is relative to, for the whence values sf_seek knows -/
def seekBase (h : H) (whence : Int) : Option Int :=
  if whence = 0 ∨ whence = 0x10 ∨ whence = 0x20 ∨ whence = 0x30 then some 0
  else if whence = 1 then some (if h.mode = .r then h.rpos else h.wpos)
  else if whence = 0x11 then some h.rpos
  else if whence = 0x21 then some h.wpos
  else if whence = 2 ∨ whence = 0x12 ∨ whence = 0x22 then some h.frames
  else none

/-- zero-offset SEEK_CUR forms that only report the position -/
def seekIsTell (h : H) (off whence : Int) : Prop :=
  off = 0 ∧ ((whence = 1 ∧ h.mode ≠ .rw) ∨ whence = 0x11 ∨ whence = 0x21)

instance (h : H) (off whence : Int) : Decidable (seekIsTell h off whence) := by unfold seekIsTell; infer_instance

def seekSpec (h : H) (s : Store) (off whence : Int) : H × Store × Out :=
  if (seekWm whence = 0x20 ∧ h.mode = .r) ∨ (seekWm whence = 0x10 ∧ h.mode = .w) then seekFail h s E_WRONG_SEEK else
  match seekBase h whence with
  | none => seekFail h s E_BAD_SEEK
  | some b =>
    if seekIsTell h off whence then seekTell h s b else
    if b + off < 0 ∨ (h.mode = .r ∧ b + off > h.frames) then seekFail h s E_BAD_SEEK
    else (seekMoveH h (seekWm whence) (b + off), defaultSeek h s (b + off), { ret := b + off, err := 0 })


theorem mode_cases (m : Mode) : m = .r ∨ m = .w ∨ m = .rw := by cases m <;> simp


set_option linter.unusedSimpArgs false in
theorem stepSeek_eq_spec_known (h : H) (s : Store) (off whence : Int)
    (hw : whence = 0 ∨ whence = 0x10 ∨ whence = 0x20 ∨ whence = 0x30 ∨ whence = 1 ∨ whence = 0x11 ∨ whence = 0x21 ∨
          whence = 2 ∨ whence = 0x12 ∨ whence = 0x22) :
    stepSeek h s off whence = seekSpec h s off whence := by
  unfold stepSeek seekSpec seekBase seekIsTell seekFail seekTell seekMoveH seekWm defaultSeek H.bw
  rcases hw with hw | hw | hw | hw | hw | hw | hw | hw | hw | hw <;> subst hw <;>
  rcases mode_cases h.mode with hm | hm | hm <;> by_cases h0 : off = 0 <;>
    simp [hm, h0, modeBits]

def seekKnown (whence : Int) : Prop :=
  whence = 0 ∨ whence = 0x10 ∨ whence = 0x20 ∨ whence = 0x30 ∨ whence = 1 ∨ whence = 0x11 ∨ whence = 0x21 ∨
          whence = 2 ∨ whence = 0x12 ∨ whence = 0x22

set_option linter.unusedSimpArgs false in
theorem stepSeek_eq_spec_unknown (h : H) (s : Store) (off whence : Int) (hw : ¬ seekKnown whence) :
    stepSeek h s off whence = seekSpec h s off whence := by
  unfold seekKnown at hw
  simp only [not_or] at hw
  obtain ⟨a0, a1, a2, a3, a4, a5, a6, a7, a8, a9⟩ := hw
  unfold stepSeek seekSpec seekBase seekIsTell seekFail seekTell seekMoveH seekWm defaultSeek H.bw
  simp [a0, a1, a2, a3, a4, a5, a6, a7, a8, a9]

theorem stepSeek_eq_spec (h : H) (s : Store) (off whence : Int) : stepSeek h s off whence = seekSpec h s off whence := by
  by_cases hw : seekKnown whence
  · exact stepSeek_eq_spec_known h s off whence hw
  · exact stepSeek_eq_spec_unknown h s off whence hw


/-! ## write: guard paths -/

theorem stepWrite_zero (h : H) (s : Store) (ty : Ty) (fc : Bool) (data : List Int) :
    stepWrite h s ty fc 0 data = (h, s, { ret := 0, err := h.error }) := by
  simp [stepWrite]

theorem stepWrite_neg (h : H) (s : Store) (ty : Ty) (fc : Bool) (n : Int) (data : List Int) (hn : n < 0) :
    stepWrite h s ty fc n data = ({ h with error := E_NEG_LEN }, s, { ret := 0, err := E_NEG_LEN }) := by
  have h0 : ¬ n = 0 := by omega
  simp [stepWrite, h0, hn]

theorem stepWrite_rmode (h : H) (s : Store) (ty : Ty) (fc : Bool) (n : Int) (data : List Int) (hn : 0 < n)
    (hm : h.mode = .r) :
    stepWrite h s ty fc n data = ({ h with error := E_NOT_WRITEMODE }, s, { ret := 0, err := E_NOT_WRITEMODE }) := by
  have h0 : ¬ n = 0 := by omega
  have h1 : ¬ n < 0 := by omega
  simp [stepWrite, h0, h1, hm]

theorem stepWrite_align (h : H) (s : Store) (ty : Ty) (n : Int) (data : List Int) (hn : 0 < n) (hm : h.mode ≠ .r)
    (ha : n % h.ch ≠ 0) :
    stepWrite h s ty false n data = ({ h with error := E_BAD_ALIGN }, s, { ret := 0, err := E_BAD_ALIGN }) := by
  have h0 : ¬ n = 0 := by omega
  have h1 : ¬ n < 0 := by omega
  simp [stepWrite, h0, h1, hm, ha]

/-! ## commands -/

theorem stepCmdFlag_fields (h : H) (s : Store) (cmd : Nat) (size : Int) :
    ∃ cv ah, WHRel { h with error := 0, conv := cv, autoHeader := ah } (stepCmdFlag h s cmd size).1 ∧
      (stepCmdFlag h s cmd size).2.2.err = 0 ∧
      (h.mode = .r → (stepCmdFlag h s cmd size).2.1 = s) := by
  unfold stepCmdFlag
  simp only
  split
  all_goals first
    | exact ⟨_, _, WHRel.refl _, rfl, fun _ => rfl⟩
    | skip
  refine ⟨h.conv, h.autoHeader, WHRel.cond _ _ _ _, rfl, ?_⟩
  intro hm
  simp [hm]

/-! ## SFC_FILE_TRUNCATE -/

theorem stepTruncate_rmode (h : H) (s : Store) (f : Int) (hm : h.mode = .r) :
    stepTruncate h s f = ({ h with error := 0 }, s, { ret := 1 }) := by
  simp [stepTruncate, hm]

theorem seekSpec_set (h : H) (s : Store) (f : Int) :
    seekSpec h s f 0 =
      if f < 0 ∨ (h.mode = .r ∧ f > h.frames) then seekFail h s E_BAD_SEEK
      else (seekMoveH h 0 f, defaultSeek h s f, { ret := f, err := 0 }) := by
  simp [seekSpec, seekWm, seekBase, seekIsTell]

/-- since the TRUNC-VIO repair: on a route without `ftruncate` (SF_VIRTUAL_IO) the command is refused before the seek
    and before `sf.frames` is touched: SF_TRUE, no error, nothing changes but the cleared error field -/
theorem stepTruncate_vio (h : H) (s : Store) (f : Int) (hm : h.mode ≠ .r) (hc : h.canTruncate = false) :
    stepTruncate h s f = ({ h with error := 0 }, s, { ret := 1 }) := by
  simp [stepTruncate, hm, hc]

theorem stepTruncate_neg (h : H) (s : Store) (f : Int) (hm : h.mode ≠ .r) (hc : h.canTruncate = true) (hf : f < 0)
    (hf1 : f ≠ -1) :
    stepTruncate h s f = ({ h with error := E_BAD_SEEK }, s, { ret := 1, err := E_BAD_SEEK }) := by
  unfold stepTruncate
  simp only [stepSeek_eq_spec, seekSpec_set]
  simp [hm, hc, hf, seekFail]
  omega

/-- the C compares `sf_seek`'s result with the requested position: −1 "succeeds" (descriptor routes) -/
theorem stepTruncate_minus1 (h : H) (s : Store) (hm : h.mode ≠ .r) :
    stepTruncate h s (-1) =
      if h.canTruncate then ({ h with error := E_BAD_SEEK, frames := -1 }, { s with bytes := truncBytes s.bytes s.pos }, { ret := 0, err := 0 })
      else ({ h with error := 0 }, s, { ret := 1 }) := by
  unfold stepTruncate
  simp only [stepSeek_eq_spec, seekSpec_set]
  cases hc : h.canTruncate <;> simp [hm, hc, seekFail]

theorem stepTruncate_ok (h : H) (s : Store) (f : Int) (hm : h.mode ≠ .r) (hf : 0 ≤ f) :
    stepTruncate h s f =
      if h.canTruncate then
        ({ seekMoveH h 0 f with frames := f }, { bytes := truncBytes s.bytes (defaultSeek h s f).pos, pos := (defaultSeek h s f).pos },
         { ret := 0, err := 0 })
      else ({ h with error := 0 }, s, { ret := 1 }) := by
  unfold stepTruncate
  simp only [stepSeek_eq_spec, seekSpec_set]
  have : ¬ f < 0 := by omega
  rcases mode_cases h.mode with hm' | hm' | hm'
  · exact absurd hm' hm
  · cases hc : h.canTruncate <;> simp [hm', hc, this, seekMoveH, defaultSeek, Store.seekSet, H.bw, modeBits]
  · cases hc : h.canTruncate <;> simp [hm', hc, this, seekMoveH, defaultSeek, Store.seekSet, H.bw, modeBits]

/-- SFC_FILE_TRUNCATE as it was BEFORE the TRUNC-VIO repair (kept only so that the `_old_rule` theorems can state what
    the library used to do): no test for virtual I/O in front of the seek, `sf.frames` stored before `psf_ftruncate`
    failed with EBADF -> SFE_SYSTEM on a handle without descriptor -/
def stepTruncateOld (h : H) (s : Store) (frames : Int) : H × Store × Out :=
  let h := { h with error := 0 }
  if h.mode == .r then (h, s, { ret := 1 }) else
  let (h, s, o) := stepSeek h s frames 0
  if o.ret != frames then (h, s, { ret := 1, err := h.error }) else
  let h := { h with frames := frames }
  if h.canTruncate then (h, { s with bytes := truncBytes s.bytes s.pos }, { ret := 0, err := 0 })
  else ({ h with error := 2 }, s, { ret := -1, err := 2 })

end Sf
