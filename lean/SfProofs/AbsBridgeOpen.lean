/-
  SfProofs.AbsBridgeOpen — what `openHandle` leaves: the mode asked for, read position 0, a non-negative frame count, write
  position 0 (the frame count on a read/write handle).  These are the start conditions of `C05Bridge.handle_run_accepted`.
-/
import SfProofs.AbsBridgeRun
namespace Sf.AbsBridge
open Sf

theorem open_facts (ix : Nat) (s0 : Store) (mode : Sf.Mode) (fmt : Nat) (ch sr : Int) (h : H) (s : Store)
    (ho : openHandle ix s0 mode fmt ch sr = .ok h s) :
    h.mode = mode ∧ h.rpos = 0 ∧ 0 ≤ h.frames ∧ h.wpos = (if mode = .rw then h.frames else 0) := by
  have wpos_eq : ∀ (fr : Int), (if (mode == Sf.Mode.rw) = true then fr else 0) = (if mode = .rw then fr else 0) := by
    intro fr; cases mode <;> rfl
  unfold openHandle at ho
  simp only at ho
  split at ho
  · rename_i hfresh
    split at ho
    · contradiction
    rename_i c hc
    split at ho
    · contradiction
    rename_i hargs
    split at ho
    · contradiction
    rename_i enc henc
    split at ho
    · contradiction
    have hnb := encOf_nbytes_pos _ _ _ _ henc
    have hchn : 0 < ch.toNat := by omega
    split at ho
    · -- raw
      injection ho with e1 e2
      subst e1 e2
      have hbw : 0 < enc.nbytes * ch.toNat := Nat.mul_pos hnb hchn
      obtain ⟨f0, _⟩ := initFrames_spec 0 0 ((s0.seekSet 0).bytes.length : Int) (enc.nbytes * ch.toNat)
        ((s0.seekSet 0).bytes.length : Int) hbw (by omega) (by omega) (by omega)
      exact ⟨rfl, rfl, f0, wpos_eq _⟩
    · -- au, new file
      rw [writeHeader_au _ _ rfl] at ho
      injection ho with e1 e2
      subst e1
      refine ⟨rfl, rfl, Int.le_refl _, ?_⟩
      show (0 : Int) = _
      split <;> rfl
    · -- wav, new file
      rw [writeHeader_wav _ _ rfl] at ho
      injection ho with e1 e2
      subst e1
      refine ⟨rfl, rfl, Int.le_refl _, ?_⟩
      show (0 : Int) = _
      split <;> rfl
  · split at ho
    · contradiction
    · contradiction
    rename_i p hp
    have hwf : p.WF (s0.seekSet 0).bytes.length := by
      split at hp
      · exact wavParse_wf _ _ hp
      · split at hp
        · exact auParse_wf _ _ hp
        · contradiction
    split at ho
    · contradiction
    rename_i c hc
    split at ho
    · contradiction
    rename_i enc henc
    split at ho
    · contradiction
    have hnb := encOf_nbytes_pos _ _ _ _ henc
    obtain ⟨w1, w2, w3, w4⟩ := hwf
    have hbw : 0 < enc.nbytes * p.ch := Nat.mul_pos hnb w1
    obtain ⟨f0, _⟩ := initFrames_spec p.dataoffset p.dataend p.filelength (enc.nbytes * p.ch)
      ((s0.seekSet 0).bytes.length : Int) hbw (by omega) w4 w3
    injection ho with e1 e2
    subst e1 e2
    exact ⟨rfl, rfl, f0, wpos_eq _⟩

end Sf.AbsBridge
