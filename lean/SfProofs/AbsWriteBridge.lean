/-
  SfProofs.AbsWriteBridge — the WRITE-SIDE BRIDGE, level A: from what a model PREDICTS for one job of the all-format write
  campaign, stated in lists (`Pred`: the calls of the reference run and of the split run with the values they returned, the
  closed bytes of the three runs, the re-open info, the read-back, the crash points with their re-open info and read-back),
  to the record the campaign would write down if the library behaved like the model (`Pred.record : AbsWrite.Record`), and
  the theorem that a prediction with the list-level properties `Good` IS ACCEPTED by the write-side predicate
  (`Pred.accepted_of_good`).  Everything about cells, arrays, `written` / `framesAccepted` / `handed`, the indexing of crash
  points and the side condition of C01 on cells lives here, once; the per-model files (AbsWriteBridgeHandle.lean: Sf.Handle
  RAW / AU / WAV; AbsWriteBridgeSmall.lean: the stand-alone container models; AbsWriteBridgeBlock.lean: block codecs) only
  prove `Good` from the theorems of C01 / C04 / C07 / C11.
-/
import SfProofs.AbsWriteComplete
namespace Sf.AbsWriteBridge
open Sf Sf.Abs Sf.AbsWrite Sf.Geometry

/-! ## cells of lists -/

theorem cellsOf_append (ty : Ty) : ∀ (xs ys : List Int), cellsOf ty (xs ++ ys) = cellsOf ty xs ++ cellsOf ty ys
  | [], ys => by simp [cellsOf]
  | x :: xs, ys => by simp [cellsOf, cellsOf_append ty xs ys, Array.append_assoc]

theorem cellsOf_nil (ty : Ty) : cellsOf ty [] = #[] := rfl

/-- the first `k` items of a list are the first `k · cells` cells -/
theorem cellsOf_take (ty : Ty) : ∀ (xs : List Int) (k : Nat), (cellsOf ty xs).extract 0 (k * cells ty) = cellsOf ty (xs.take k)
  | [], k => by simp [cellsOf]
  | x :: xs, 0 => by simp [cellsOf]
  | x :: xs, k + 1 => by
    have ih := cellsOf_take ty xs k
    simp only [cellsOf, List.take_succ_cons]
    rw [Array.extract_append, cellOf_size, ← ih]
    have h1 : (cellOf ty x).extract 0 ((k + 1) * cells ty) = cellOf ty x := by
      apply Array.extract_eq_self_of_le
      rw [cellOf_size, Nat.add_mul]; omega
    rw [h1, Nat.add_mul, Nat.one_mul, Nat.add_sub_cancel]
    simp

theorem cellsOf_toList (ty : Ty) : ∀ xs : List Int, (cellsOf ty xs).toList = xs.flatMap (fun v => (cellOf ty v).toList)
  | [] => rfl
  | x :: xs => by simp [cellsOf, cellsOf_toList ty xs]

/-! ## the side condition of C01, per sample -/

/-- the side condition on ONE caller item: the pair (encoding, caller type) has a lossless rule and every cell of the item
    meets it -/
def sampleOk (codec : Nat) (ty : Ty) (v : Int) : Prop :=
  ∃ lz, losslessLow codec ty = some lz ∧ ∀ c ∈ (cellOf ty v).toList, cellOk codec ty lz c = true

/-- `losslessFor` on the cells of a list says `sampleOk` of every item -/
theorem losslessFor_samples (g : AbsWrite.Geom) (ty : Ty) (xs : List Int) (h : losslessFor g ty (cellsOf ty xs) = true) :
    ∀ v ∈ xs, sampleOk g.codec ty v := by
  obtain ⟨lz, hlz, hall⟩ := losslessFor_cells g ty _ h
  intro v hv
  refine ⟨lz, hlz, fun c hc => ?_⟩
  have hm : c ∈ (cellsOf ty xs).toList := by
    rw [cellsOf_toList]; exact List.mem_flatMap.2 ⟨v, hv, hc⟩
  obtain ⟨k, hk, rfl⟩ := List.mem_iff_getElem.1 hm
  have := hall k (by simpa using hk)
  simpa using this

/-! ## a model's prediction for one job, in lists -/

/-- one write call: variant, the samples handed over, what the call returned -/
structure LCall where
  fc : Bool
  xs : List Int
  ret : Int

/-- the count the call was made with: frames for the frames variant, items otherwise -/
def LCall.n (ch : Nat) (c : LCall) : Int := if c.fc then ((c.xs.length / ch : Nat) : Int) else (c.xs.length : Int)

def LCall.toCall (ty : Ty) (ch : Nat) (c : LCall) : Call :=
  { ty := ty, fc := c.fc, n := c.n ch, data := cellsOf ty c.xs, ret := c.ret }

/-- a write run: its calls and the bytes of the closed file -/
structure LRun where
  calls : List LCall
  bytes : List Byte

/-- a crash point: write calls made before the copy, the re-open of the copy, the read-back of the copy -/
structure LSnap where
  k : Nat
  info : Info
  ret : Int
  data : List Int

structure Pred where
  g : AbsWrite.Geom
  ty : Ty
  one : LRun                    -- the reference run
  info : Info                   -- re-open of its closed file
  rbRet : Int                   -- the read-back to the end: items delivered
  rbData : List Int             -- … the whole requested region
  rbMore : Int                  -- a further read
  split : LRun                  -- the split run
  snaps : List LSnap
  stale : List Byte             -- the closed bytes of the stale-frames run

def LRun.run (ty : Ty) (ch : Nat) (r : LRun) : Run :=
  { calls := r.calls.map (LCall.toCall ty ch), close := 0, bytes := r.bytes.toArray }

def LSnap.snap (ty : Ty) (s : LSnap) : Snap := { calls := s.k, info := s.info, rb := { ret := s.ret, data := cellsOf ty s.data } }

/-- THE RECORD the campaign writes down when the library answers as predicted -/
def Pred.record (p : Pred) : Record :=
  { g := p.g, ty := p.ty, complete := true,
    one := p.one.run p.ty p.g.ch, info := p.info,
    rb := { ret := p.rbRet, data := cellsOf p.ty p.rbData, more := p.rbMore },
    split := some (p.split.run p.ty p.g.ch),
    snaps := p.snaps.map (LSnap.snap p.ty),
    stale := some p.stale.toArray }

/-- the samples of a list of calls, concatenated -/
def samples (cs : List LCall) : List Int := cs.flatMap (·.xs)

/-- frames of a list of whole-frame calls -/
def framesOf (ch : Nat) : List LCall → Nat
  | [] => 0
  | c :: cs => c.xs.length / ch + framesOf ch cs

/-- a call the model accepted in full: whole frames, returned what it was asked -/
def LCall.good (ch : Nat) (c : LCall) : Prop := c.xs.length % ch = 0 ∧ c.ret = c.n ch

/-- what one crash point must satisfy -/
structure SnapGood (p : Pred) (s : LSnap) : Prop where
  opened : s.info.null = false
  info : infoOk p.g s.info = true
  frames : s.info.frames = (floorToBlock (framesOf p.g.ch (p.split.calls.take s.k)) p.g.block : Int)
  short : floorToBlock (framesOf p.g.ch (p.split.calls.take s.k)) p.g.block * p.g.ch ≤ s.ret.toNat
  len : floorToBlock (framesOf p.g.ch (p.split.calls.take s.k)) p.g.block * p.g.ch ≤ s.data.length
  final : s.data.take (floorToBlock (framesOf p.g.ch (p.split.calls.take s.k)) p.g.block * p.g.ch) =
    p.rbData.take (floorToBlock (framesOf p.g.ch (p.split.calls.take s.k)) p.g.block * p.g.ch)
  exact : (∀ v ∈ samples (p.split.calls.take s.k), sampleOk p.g.codec p.ty v) →
    s.data.take (floorToBlock (framesOf p.g.ch (p.split.calls.take s.k)) p.g.block * p.g.ch) =
      (samples (p.split.calls.take s.k)).take (floorToBlock (framesOf p.g.ch (p.split.calls.take s.k)) p.g.block * p.g.ch)

/-- the list-level properties of a prediction (each is a clause of C01 / C04 / C07 / C11 in the model's own terms) -/
structure Good (p : Pred) : Prop where
  chpos : 0 < p.g.ch
  block : 1 ≤ p.g.block
  calls1 : ∀ c ∈ p.one.calls, c.good p.g.ch
  calls2 : ∀ c ∈ p.split.calls, c.good p.g.ch
  same : samples p.split.calls = samples p.one.calls
  reopened : p.info.null = false
  info : infoOk p.g p.info = true
  rate : rateOk p.g.major p.g.sr p.info.sr = true
  framesLo : (framesOf p.g.ch p.one.calls : Int) ≤ p.info.frames
  framesHi : p.info.frames < (framesOf p.g.ch p.one.calls : Int) + (p.g.block : Int)
  eof : p.rbRet = p.info.frames * (p.g.ch : Int)
  more : p.rbMore = 0
  rbLen : (samples p.one.calls).length ≤ p.rbData.length
  roundtrip : (∀ v ∈ samples p.one.calls, sampleOk p.g.codec p.ty v) →
    p.rbData.take (samples p.one.calls).length = samples p.one.calls
  partition : p.one.bytes = p.split.bytes
  stale : p.one.bytes = p.stale
  snaps : snapScope p.g = true → ∀ s ∈ p.snaps, SnapGood p s

/-! ## calls -/

theorem good_accepted (ty : Ty) (ch : Nat) (hch : 0 < ch) (c : LCall) (hg : c.good ch) :
    (c.toCall ty ch).accepted ch = c.xs.length / ch := by
  obtain ⟨hm, hr⟩ := hg
  unfold Call.accepted LCall.toCall
  simp only [hr, LCall.n]
  cases c.fc
  · simp
  · simp only [if_true]; exact Int.toNat_natCast _

theorem good_taken (ty : Ty) (ch : Nat) (hch : 0 < ch) (c : LCall) (hg : c.good ch) :
    (c.toCall ty ch).taken ch = cellsOf ty c.xs := by
  unfold Call.taken
  rw [good_accepted ty ch hch c hg]
  have : c.xs.length / ch * ch = c.xs.length := Nat.div_mul_cancel (Nat.dvd_of_mod_eq_zero hg.1)
  show (cellsOf ty c.xs).extract 0 (c.xs.length / ch * ch * cells ty) = _
  rw [this, cellsOf_take, List.take_length]

theorem written_map (ty : Ty) (ch : Nat) (hch : 0 < ch) : ∀ (cs : List LCall), (∀ c ∈ cs, c.good ch) →
    written ch (cs.map (LCall.toCall ty ch)) = cellsOf ty (samples cs)
  | [], _ => rfl
  | c :: cs, h => by
    rw [List.map_cons, written_cons, good_taken ty ch hch c (h c (by simp)),
      written_map ty ch hch cs (fun d hd => h d (by simp [hd]))]
    simp [samples, cellsOf_append]

theorem framesAccepted_map (ty : Ty) (ch : Nat) (hch : 0 < ch) : ∀ (cs : List LCall), (∀ c ∈ cs, c.good ch) →
    framesAccepted ch (cs.map (LCall.toCall ty ch)) = framesOf ch cs
  | [], _ => rfl
  | c :: cs, h => by
    simp only [List.map_cons, framesAccepted, framesOf]
    rw [good_accepted ty ch hch c (h c (by simp)), framesAccepted_map ty ch hch cs (fun d hd => h d (by simp [hd]))]

theorem handed_map (ty : Ty) (ch : Nat) : ∀ (cs : List LCall),
    handed (cs.map (LCall.toCall ty ch)) = cellsOf ty (samples cs)
  | [] => rfl
  | c :: cs => by
    rw [List.map_cons, handed_cons, handed_map ty ch cs]
    simp [samples, cellsOf_append, LCall.toCall]

theorem sameType_map (ty : Ty) (ch : Nat) (cs : List LCall) : sameType ty (cs.map (LCall.toCall ty ch)) = true := by
  simp [sameType, LCall.toCall]

theorem ret_map (ty : Ty) (ch : Nat) (cs : List LCall) (h : ∀ c ∈ cs, c.good ch) :
    ∀ c ∈ cs.map (LCall.toCall ty ch), c.ret = c.n := by
  intro c hc
  obtain ⟨d, hd, rfl⟩ := List.mem_map.1 hc
  exact (h d hd).2

/-- the samples of whole-frame calls are whole frames -/
theorem samples_length (ch : Nat) : ∀ (cs : List LCall), (∀ c ∈ cs, c.good ch) → (samples cs).length = framesOf ch cs * ch
  | [], _ => by simp [samples, framesOf]
  | c :: cs, h => by
    have ih := samples_length ch cs (fun d hd => h d (by simp [hd]))
    have : c.xs.length / ch * ch = c.xs.length := Nat.div_mul_cancel (Nat.dvd_of_mod_eq_zero (h c (by simp)).1)
    simp only [samples, List.flatMap_cons, List.length_append, framesOf, Nat.add_mul] at *
    omega

theorem framesOf_take_le (ch : Nat) : ∀ (cs : List LCall) (k : Nat), framesOf ch (cs.take k) ≤ framesOf ch cs
  | [], _ => by simp [framesOf]
  | c :: cs, 0 => by simp [framesOf]
  | c :: cs, k + 1 => by
    have := framesOf_take_le ch cs k
    simp only [List.take_succ_cons, framesOf]; omega

/-! ## one crash point -/

theorem judgeSnap_good (p : Pred) (hg : Good p) (s : LSnap) (hs : SnapGood p s) (k : Nat) :
    judgeSnap p.record (p.split.run p.ty p.g.ch) k (s.snap p.ty) = [] := by
  have hch := hg.chpos
  have hbefore : (p.split.calls.map (LCall.toCall p.ty p.g.ch)).take s.k = (p.split.calls.take s.k).map (LCall.toCall p.ty p.g.ch) :=
    (List.map_take).symm
  have hgood : ∀ c ∈ p.split.calls.take s.k, c.good p.g.ch := fun c hc => hg.calls2 c (List.mem_of_mem_take hc)
  have hN := framesAccepted_map p.ty p.g.ch hch _ hgood
  have hW := written_map p.ty p.g.ch hch _ hgood
  have hlen := samples_length p.g.ch _ hgood
  have hle : floorToBlock (framesOf p.g.ch (p.split.calls.take s.k)) p.g.block ≤ framesOf p.g.ch (p.split.calls.take s.k) := by
    unfold floorToBlock; exact Nat.div_mul_le_self _ _
  unfold judgeSnap
  simp only [LSnap.snap, hs.opened, Bool.false_eq_true, if_false, Pred.record, LRun.run, hbefore, hN, hW,
    List.append_eq_nil_iff, ite_nil_iff]
  have hitems : snapItems p.g (framesOf p.g.ch (p.split.calls.take s.k)) { ret := s.ret, data := cellsOf p.ty s.data } =
      floorToBlock (framesOf p.g.ch (p.split.calls.take s.k)) p.g.block * p.g.ch := by
    unfold snapItems; exact Nat.min_eq_right hs.short
  refine ⟨⟨⟨(ite_nil_iff _ _).2 hs.info, ?_⟩, ?_⟩, ?_⟩
  · rw [hs.frames]; exact snapFramesOk_complete p.g _
  · apply snapDataOk_complete
    · rw [hitems, cellsOf_size]
      exact Nat.mul_le_mul_right _ (by
        have := congrArg List.length hs.final
        simp only [List.length_take] at this
        have := hs.len; omega)
    · rw [hitems, cellsOf_size]; exact Nat.mul_le_mul_right _ hs.len
    · intro _
      rw [hitems, cellsOf_size, hlen]
      exact Nat.mul_le_mul_right _ (Nat.mul_le_mul_right _ hle)
    · rw [hitems, cellsOf_take, cellsOf_take, hs.final]
    · intro hl
      simp only [sameType_map, Bool.true_and] at hl
      rw [hitems, cellsOf_take, cellsOf_take, hs.exact (losslessFor_samples p.g p.ty _ hl)]
  · exact snapShortOk_complete _ _ _ hs.short

/-! ## the whole record -/

/-- LEVEL A OF THE BRIDGE: a prediction with the list-level properties is accepted by the write-side predicate -/
theorem Pred.accepted_of_good (p : Pred) (hg : Good p) : accepted p.record = true := by
  have hch := hg.chpos
  have hN1 := framesAccepted_map p.ty p.g.ch hch _ hg.calls1
  have hW1 := written_map p.ty p.g.ch hch _ hg.calls1
  apply accepted_of
  refine { complete := rfl, opened := rfl, calls := ret_map p.ty p.g.ch _ hg.calls1, closed := rfl, reopened := hg.reopened,
           info := hg.info, rate := hg.rate, frames := ?_, eof := ?_, roundtrip := ?_, split := ?_, stale := ?_ }
  · show framesOk p.g (framesAccepted p.g.ch (p.one.calls.map _)) p.info.frames = true
    rw [hN1]; exact framesOk_complete p.g _ _ hg.framesLo hg.framesHi
  · exact eofOk_complete p.g _ _ hg.eof hg.more
  · show roundtripOk p.g p.ty (p.one.calls.map _) _ = true
    by_cases hl : losslessFor p.g p.ty (written p.g.ch (p.one.calls.map (LCall.toCall p.ty p.g.ch))) = true
    · rw [hW1] at hl
      have hrt := hg.roundtrip (losslessFor_samples p.g p.ty _ hl)
      have hlenS := samples_length p.g.ch _ hg.calls1
      apply roundtripOk_complete
      · rw [hW1, cellsOf_size]
        apply Nat.mul_le_mul_right
        show (samples p.one.calls).length ≤ p.rbRet.toNat
        rw [hg.eof, hlenS]
        have : ((framesOf p.g.ch p.one.calls * p.g.ch : Nat) : Int) ≤ p.info.frames * (p.g.ch : Int) := by
          push_cast; exact Int.mul_le_mul_of_nonneg_right hg.framesLo (by omega)
        omega
      · rw [hW1]
        show (cellsOf p.ty p.rbData).extract 0 (cellsOf p.ty (samples p.one.calls)).size = _
        rw [cellsOf_size, cellsOf_take, hrt]
    · apply roundtripOk_lossy
      simp only [Bool.not_eq_true] at hl
      rw [hl]; simp
  · intro sp hsp
    have : sp = p.split.run p.ty p.g.ch := by
      have : some (p.split.run p.ty p.g.ch) = some sp := hsp
      exact (Option.some.inj this).symm
    subst this
    refine ⟨rfl, ?_, ret_map p.ty p.g.ch _ hg.calls2, ?_, ?_⟩
    · show handed (p.split.calls.map _) = handed (p.one.calls.map _)
      rw [handed_map, handed_map, hg.same]
    · apply partitionOk_complete
      show p.one.bytes.toArray = p.split.bytes.toArray
      rw [hg.partition]
    · intro hsc i s hs
      have hs' : (p.snaps.map (LSnap.snap p.ty))[i]? = some s := hs
      rw [List.getElem?_map] at hs'
      cases hq : p.snaps[i]? with
      | none => rw [hq] at hs'; cases hs'
      | some q =>
        rw [hq] at hs'
        have : s = q.snap p.ty := (Option.some.inj hs').symm
        subst this
        exact judgeSnap_good p hg q (hg.snaps hsc q (List.mem_of_getElem? hq)) i
  · intro b hb
    have : b = p.stale.toArray := by
      have : some p.stale.toArray = some b := hb
      exact (Option.some.inj this).symm
    subst this
    apply staleOk_complete
    show p.one.bytes.toArray = p.stale.toArray
    rw [hg.stale]

end Sf.AbsWriteBridge
