/-
  SfProofs.AbsWriteBridgeBlock — level B of the write-side bridge for BLOCK CODECS (G.72x, NMS ADPCM, GSM 06.10, IMA / MS
  ADPCM, VOX, …): the C07 and C04 clauses of the write-side predicate on their sessions, from the four facts every block codec
  file proves — `*_write_partition` (the closed data region is a function of the samples), `*_closed_length` /
  `*_frames_at_reopen` (N ≤ F < N + B), the reader fills the requested region — for a codec model that describes the DATA
  REGION only (the container in front of it is a function `hdr` / `tail` of the data length).

  `BlockJob` is one campaign job on such a model; `BlockJob.pred` the prediction (no crash points: C11 on block codecs is
  the business of the container models); `block_pred_good` derives `Good` from `BlockFacts`.  For a lossy pair the C01 clause is
  outside the side condition (`losslessLow = none`); for the lossless block codecs (DWVW, DPCM_16, SDS, PAF24, ALAC) the
  `roundtrip` fact covers it: `c01` records one or the other.
-/
import SfProofs.AbsWriteBridge
namespace Sf.AbsWriteBridge
open Sf Sf.Abs Sf.AbsWrite Sf.Geometry

structure BlockJob where
  g : AbsWrite.Geom
  ty : Ty
  one : List LCall                      -- the reference run's calls
  split : List LCall                    -- the split run's calls
  data : List LCall → List Byte         -- the closed data region of a run
  hdr : Nat → List Byte                 -- what the container puts in front of a data region of that length
  tail : Nat → List Byte                -- … and behind it
  framesAt : Nat → Nat                  -- frames a reader finds in a data region of that length
  back : List Byte → Nat → List Int     -- the requested region after an items read of that many items on that data region

def BlockJob.file (J : BlockJob) (cs : List LCall) : List Byte :=
  J.hdr (J.data cs).length ++ J.data cs ++ J.tail (J.data cs).length

/-- THE PREDICTION of a block-codec model for a job -/
def BlockJob.pred (J : BlockJob) : Pred :=
  let F := J.framesAt (J.data J.one).length
  { g := J.g, ty := J.ty,
    one := { calls := J.one, bytes := J.file J.one },
    info := { ch := J.g.ch, sr := J.g.sr, fmt := J.g.word, frames := F },
    rbRet := ((F * J.g.ch : Nat) : Int),
    rbData := J.back (J.data J.one) ((framesOf J.g.ch J.one + J.g.block + J.g.pad + 8) * J.g.ch),
    rbMore := 0,
    split := { calls := J.split, bytes := J.file J.split },
    snaps := [],
    stale := J.file J.one }

structure BlockFacts (J : BlockJob) : Prop where
  chpos : 0 < J.g.ch
  block : 1 ≤ J.g.block
  calls1 : ∀ c ∈ J.one, c.good J.g.ch
  calls2 : ∀ c ∈ J.split, c.good J.g.ch
  same : samples J.split = samples J.one
  /-- C07 `*_write_partition`: the data region is a function of the samples handed over -/
  partition : samples J.split = samples J.one → J.data J.split = J.data J.one
  /-- C04 `*_frames_at_reopen`: N ≤ F < N + B -/
  framesLo : framesOf J.g.ch J.one ≤ J.framesAt (J.data J.one).length
  framesHi : J.framesAt (J.data J.one).length < framesOf J.g.ch J.one + J.g.block
  /-- the reader fills the requested region -/
  backLen : ∀ d n, (J.back d n).length = n
  rate : rateOk J.g.major J.g.sr (J.g.sr : Int) = true
  /-- C01: the pair is outside the side condition (a lossy codec: `losslessLow = none`), OR — the LOSSLESS block codecs: DWVW,
      16-bit DPCM, SDS, PAF24, ALAC — the read-back of the reference file begins with the samples written whenever every one of
      them meets the side condition (`*_roundtrip`) -/
  c01 : losslessLow J.g.codec J.ty = none ∨
    ((∀ v ∈ samples J.one, sampleOk J.g.codec J.ty v) →
      (J.back (J.data J.one) ((framesOf J.g.ch J.one + J.g.block + J.g.pad + 8) * J.g.ch)).take (samples J.one).length = samples J.one)

theorem block_pred_good (J : BlockJob) (X : BlockFacts J) : Good J.pred := by
  have hlen := samples_length J.g.ch J.one X.calls1
  refine {
    chpos := X.chpos, block := X.block, calls1 := X.calls1, calls2 := X.calls2, same := X.same, reopened := rfl,
    info := by show AbsWrite.infoOk J.g { ch := (J.g.ch : Int), sr := (J.g.sr : Int), fmt := J.g.word, frames := _ } = true
               unfold AbsWrite.infoOk; simp,
    rate := X.rate,
    framesLo := by show ((framesOf J.g.ch J.one : Nat) : Int) ≤ ((J.framesAt _ : Nat) : Int); exact Int.ofNat_le.mpr X.framesLo,
    framesHi := by
      show ((J.framesAt _ : Nat) : Int) < ((framesOf J.g.ch J.one : Nat) : Int) + (J.g.block : Int)
      have := X.framesHi; omega,
    eof := by show ((_ * J.g.ch : Nat) : Int) = ((J.framesAt _ : Nat) : Int) * (J.g.ch : Int); push_cast; rfl,
    more := rfl,
    rbLen := by
      show (samples J.one).length ≤ (J.back _ _).length
      rw [X.backLen, hlen]; exact Nat.mul_le_mul_right _ (by omega),
    roundtrip := ?_,
    partition := by show J.file J.one = J.file J.split; unfold BlockJob.file; rw [X.partition X.same],
    stale := rfl,
    snaps := fun _ s hs => by cases hs }
  intro hok
  change ∀ v ∈ samples J.one, sampleOk J.g.codec J.ty v at hok
  show (J.back _ _).take (samples J.one).length = samples J.one
  rcases X.c01 with h | h
  · cases hs : samples J.one with
    | nil => simp
    | cons v vs =>
      exfalso
      obtain ⟨lz, hlz, _⟩ := hok v (by rw [hs]; simp)
      change losslessLow J.g.codec J.ty = some lz at hlz
      rw [h] at hlz; cases hlz
  · exact h hok

end Sf.AbsWriteBridge
