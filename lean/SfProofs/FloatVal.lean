/-
  SfProofs.FloatVal — the rational value of a dyadic, and round-to-nearest-even as a relation on ℚ × ℤ.
-/
import SfProofs.FloatRne
import Mathlib.Tactic.Ring
import Mathlib.Tactic.Linarith
import Mathlib.Tactic.Positivity
import Mathlib.Tactic.FieldSimp
import Mathlib.Tactic.NormNum
import Mathlib.Algebra.Order.Field.Power
import Mathlib.Algebra.Order.Field.Rat
namespace Sf.Float

/-- the rational number a dyadic denotes: (-1)^neg · m · 2^e -/
def Dy.val (a : Dy) : ℚ := (if a.neg then -1 else 1) * (a.m : ℚ) * (2 : ℚ) ^ a.e

/-- magnitude m · 2^e -/
def Dy.mag (a : Dy) : ℚ := (a.m : ℚ) * (2 : ℚ) ^ a.e

theorem Dy.val_eq (a : Dy) : a.val = (if a.neg then -a.mag else a.mag) := by
  unfold Dy.val Dy.mag; split <;> ring

theorem Dy.mag_nonneg (a : Dy) : 0 ≤ a.mag := by unfold Dy.mag; positivity

theorem two_zpow_pos (k : Int) : (0 : ℚ) < 2 ^ k := by positivity

/-- `n` is the integer nearest to `v`, ties to even -/
def IsRNE (v : ℚ) (n : ℤ) : Prop :=
  v - 1 / 2 ≤ n ∧ (n : ℚ) ≤ v + 1 / 2 ∧ (((n : ℚ) = v + 1 / 2 ∨ (n : ℚ) = v - 1 / 2) → n % 2 = 0)

theorem IsRNE.mono {v₁ v₂ : ℚ} {n₁ n₂ : ℤ} (h₁ : IsRNE v₁ n₁) (h₂ : IsRNE v₂ n₂) (h : v₁ ≤ v₂) : n₁ ≤ n₂ := by
  obtain ⟨a1, b1, c1⟩ := h₁
  obtain ⟨a2, b2, c2⟩ := h₂
  by_contra hlt
  have hge : n₂ + 1 ≤ n₁ := by omega
  have hgeq : ((n₂ : ℚ) + 1) ≤ n₁ := by exact_mod_cast hge
  have e1 : (n₁ : ℚ) = v₁ + 1 / 2 := by linarith
  have e2 : (n₂ : ℚ) = v₂ - 1 / 2 := by linarith
  have e3 : (n₁ : ℚ) = n₂ + 1 := by linarith
  have e3' : n₁ = n₂ + 1 := by exact_mod_cast e3
  have := c1 (Or.inl e1)
  have := c2 (Or.inr e2)
  omega

theorem IsRNE.unique {v : ℚ} {n₁ n₂ : ℤ} (h₁ : IsRNE v n₁) (h₂ : IsRNE v n₂) : n₁ = n₂ :=
  Int.le_antisymm (h₁.mono h₂ (le_refl _)) (h₂.mono h₁ (le_refl _))

theorem IsRNE.int (z : ℤ) : IsRNE (z : ℚ) z := by
  refine ⟨by linarith, by linarith, ?_⟩
  rintro (h | h) <;> linarith

theorem IsRNE.neg {v : ℚ} {n : ℤ} (h : IsRNE v n) : IsRNE (-v) (-n) := by
  obtain ⟨a, b, c⟩ := h
  refine ⟨by push_cast; linarith, by push_cast; linarith, ?_⟩
  rintro (h | h)
  · have : n % 2 = 0 := c (Or.inr (by push_cast at h; linarith)); omega
  · have : n % 2 = 0 := c (Or.inl (by push_cast at h; linarith)); omega

theorem IsRNE.le_int {v : ℚ} {n : ℤ} (h : IsRNE v n) (z : ℤ) (hz : v ≤ z) : n ≤ z := h.mono (IsRNE.int z) hz
theorem IsRNE.ge_int {v : ℚ} {n : ℤ} (h : IsRNE v n) (z : ℤ) (hz : (z : ℚ) ≤ v) : z ≤ n := (IsRNE.int z).mono h hz
theorem IsRNE.eq_int {v : ℚ} {n : ℤ} (h : IsRNE v n) (z : ℤ) (hz : v = z) : n = z := by
  subst hz; exact h.unique (IsRNE.int z)

/-- |n − v| ≤ 1/2 -/
theorem IsRNE.abs_le {v : ℚ} {n : ℤ} (h : IsRNE v n) : |(n : ℚ) - v| ≤ 1 / 2 := by
  rw [_root_.abs_le]; constructor <;> linarith [h.1, h.2.1]

theorem rneShr_isRNE (m k : Nat) : IsRNE ((m : ℚ) / 2 ^ k) (rneShr m k) := by
  have hb := rneShr_bound m k
  have ht := rneShr_tie_even m k
  have hd : (0 : ℚ) < 2 ^ k := by positivity
  have b1 : (2 * ((rneShr m k : ℚ) * 2 ^ k)) ≤ 2 * m + 2 ^ k := by exact_mod_cast hb.1
  have b2 : (2 * (m : ℚ)) ≤ 2 * ((rneShr m k : ℚ) * 2 ^ k) + 2 ^ k := by exact_mod_cast hb.2
  refine ⟨?_, ?_, ?_⟩
  · rw [sub_le_iff_le_add, div_le_iff₀ hd]; push_cast; nlinarith
  · rw [← sub_le_iff_le_add, le_div_iff₀ hd]; push_cast; nlinarith
  · rintro (h | h)
    · have : (2 * ((rneShr m k : ℚ) * 2 ^ k)) = 2 * m + 2 ^ k := by
        push_cast at h; rw [h]; field_simp
      have : 2 * (rneShr m k * 2 ^ k) = 2 * m + 2 ^ k := by exact_mod_cast this
      have := ht (Or.inl this); omega
    · have : (2 * (m : ℚ)) = 2 * ((rneShr m k : ℚ) * 2 ^ k) + 2 ^ k := by
        push_cast at h; rw [h]; field_simp; ring
      have : 2 * m = 2 * (rneShr m k * 2 ^ k) + 2 ^ k := by exact_mod_cast this
      have := ht (Or.inr this); omega

theorem rneScale_isRNE (m : Nat) (k : Int) : IsRNE ((m : ℚ) * 2 ^ k) (rneScale m k) := by
  unfold rneScale
  split
  · rename_i h
    have : ((m : ℚ) * 2 ^ k) = ((m * 2 ^ k.toNat : Nat) : ℤ) := by
      push_cast
      congr 1
      rw [← zpow_natCast]; congr 1; omega
    rw [this]; exact_mod_cast IsRNE.int _
  · rename_i h
    have : ((m : ℚ) * 2 ^ k) = (m : ℚ) / 2 ^ (-k).toNat := by
      rw [div_eq_mul_inv, ← zpow_natCast, ← zpow_neg]; congr 2; omega
    rw [this]; exact rneShr_isRNE _ _

theorem Dy.rint_isRNE (a : Dy) : IsRNE a.val a.rint := by
  unfold Dy.rint Dy.val
  have := rneScale_isRNE a.m a.e
  cases a.neg
  · simpa using this
  · have := this.neg
    simpa [mul_assoc] using this

end Sf.Float
