/-
  SfProofs.AlacPair — a compressed channel pair (EncodeStereo's output for any mixing ratio 0 … 4, coefficient rows and
  predictor orders) is decoded by `alac_decode`'s ID_CPE branch to the truncated samples of both channels.
-/
import SfProofs.AlacMono
import SfProofs.AlacMix
namespace Sf.AlacCore

/-- one frame of a pair through the encoder's input conversion: (l1, r1) = the matrix inputs, (sa, sb) = the shifted-off bits -/
def pairIn (depth : Nat) (l r : Int) : (Int × Int) × (Nat × Nat) :=
  let sh := 8 * bytesShiftedOf depth
  ((asr (asr l (32 - depth)) sh, asr (asr r (32 - depth)) sh), (wrapU 32 (asr l (32 - depth)) % 2 ^ sh, wrapU 32 (asr r (32 - depth)) % 2 ^ sh))

/-- the matrix inputs are at most 20 bits wide -/
theorem pairIn_small {depth : Nat} (hd : Depth depth) {l r : Int} (hl : I32 l) (hr : I32 r) :
    (-524288 ≤ (pairIn depth l r).1.1 ∧ (pairIn depth l r).1.1 < 524288) ∧ (-524288 ≤ (pairIn depth l r).1.2 ∧ (pairIn depth l r).1.2 < 524288) := by
  obtain ⟨h1, h2⟩ := hl
  obtain ⟨h3, h4⟩ := hr
  unfold pairIn asr
  rcases hd with rfl | rfl | rfl | rfl <;> simp [bytesShiftedOf] <;> omega

theorem or_low (x : Int) (s : Nat) (k : Nat) (hk : k ≤ 32) (hs : s < 2 ^ k) (hx : u32 x % 2 ^ k = 0) : orU32 x s = w32 (x + s) := by
  unfold orU32
  have hdiv : u32 x = (u32 x / 2 ^ k) <<< k := by
    rw [Nat.shiftLeft_eq]; have := Nat.div_add_mod (u32 x) (2 ^ k); rw [hx] at this; rw [Nat.mul_comm]; omega
  have : u32 x ||| s = u32 x + s := by
    rw [hdiv, ← Nat.shiftLeft_add_eq_or_of_lt hs]
  rw [this]
  -- w32 (u32 x + s) = w32 (x + s)
  obtain ⟨q, hq⟩ : ∃ q : Int, ((u32 x : Nat) : Int) = x + 2 ^ 32 * q := by
    unfold u32 wrapU
    refine ⟨-(x / 2 ^ 32), ?_⟩
    have := Int.mul_ediv_add_emod x (2 ^ 32)
    have hnn := Int.emod_nonneg x (show (2 : Int) ^ 32 ≠ 0 by norm_num)
    rw [Int.toNat_of_nonneg hnn, Int.mul_neg]; omega
  push_cast
  rw [hq, show x + 2 ^ 32 * q + (s : Int) = (x + s) + 2 ^ 32 * q by ring, w32_add_mul]

/-- one frame: the decoder's un-matrixing and output conversion give back both samples, for every depth and mixres 0 … 4 -/
theorem unmixPair_frame {depth : Nat} (hd : Depth depth) (mixRes : Nat) (hm : mixRes ≤ 4) {l r : Int} (hl : I32 l) (hr : I32 r) :
    unmixPair depth (bytesShiftedOf depth) 2 (mixRes : Int)
        (if mixRes ≠ 0 then mixUV 2 (mixRes : Int) (pairIn depth l r).1.1 (pairIn depth l r).1.2 else (pairIn depth l r).1).1
        (if mixRes ≠ 0 then mixUV 2 (mixRes : Int) (pairIn depth l r).1.1 (pairIn depth l r).1.2 else (pairIn depth l r).1).2
        (pairIn depth l r).2 = some (trunc depth l, trunc depth r) := by
  obtain ⟨⟨a1, a2⟩, ⟨b1, b2⟩⟩ := pairIn_small hd hl hr
  have hlr : (if (mixRes : Int) ≠ 0 then
        unmixLR 2 (mixRes : Int) (if mixRes ≠ 0 then mixUV 2 (mixRes : Int) (pairIn depth l r).1.1 (pairIn depth l r).1.2 else (pairIn depth l r).1).1
          (if mixRes ≠ 0 then mixUV 2 (mixRes : Int) (pairIn depth l r).1.1 (pairIn depth l r).1.2 else (pairIn depth l r).1).2
      else (if mixRes ≠ 0 then mixUV 2 (mixRes : Int) (pairIn depth l r).1.1 (pairIn depth l r).1.2 else (pairIn depth l r).1)) = (pairIn depth l r).1 := by
    by_cases h0 : mixRes = 0
    · simp [h0]
    · have hi : (mixRes : Int) ≠ 0 := by omega
      simp only [h0, hi, ne_eq, not_false_eq_true, if_true]
      exact unmixLR_mixUV_encoder (mixRes : Int) _ _ (by omega) (by omega) (by omega)
  unfold unmixPair
  simp only [hlr]
  obtain ⟨h1, h2⟩ := hl
  obtain ⟨h3, h4⟩ := hr
  rcases hd with rfl | rfl | rfl | rfl
  · simp [pairIn, bytesShiftedOf, trunc, asr]
  · simp [pairIn, bytesShiftedOf, trunc, asr]
  · simp only [pairIn, bytesShiftedOf]
    simp only [show ¬ ((24 : Nat) = 16) by decide, show ¬ ((24 : Nat) = 20) by decide, show ¬ ((24 : Nat) = 32) by decide, if_false, if_true,
      ge_iff_le, Nat.le_refl, ne_eq, Nat.succ_ne_zero, not_false_eq_true, Option.some.injEq, Prod.mk.injEq]
    unfold trunc shl32 w32 wrapS wrapU asr
    simp only [Nat.reduceMul, Nat.reduceSub, Int.reducePow, Nat.reducePow]
    constructor <;> (repeat' split) <;> omega
  · simp only [pairIn, bytesShiftedOf]
    simp only [show ¬ ((32 : Nat) = 16) by decide, show ¬ ((32 : Nat) = 20) by decide, show ¬ ((32 : Nat) = 24) by decide, if_false, if_true,
      ne_eq, Nat.succ_ne_zero, not_false_eq_true, OfNat.ofNat_ne_zero, or_true, Option.some.injEq, Prod.mk.injEq, Nat.reduceMul]
    have hor : ∀ x : Int, -2147483648 ≤ x → x < 2147483648 →
        orU32 (shl32 (asr (asr x (32 - 32)) 16) 16) (wrapU 32 (asr x (32 - 32)) % 2 ^ 16) = trunc 32 x := by
      intro x hx1 hx2
      rw [or_low _ _ 16 (by decide) (Nat.mod_lt _ (by decide))]
      · unfold trunc shl32 w32 wrapS wrapU asr
        simp only [Nat.reduceSub, Int.reducePow, Nat.reducePow]
        repeat' split
        all_goals omega
      · unfold u32 shl32 wrapS wrapU asr
        simp only [Nat.reduceSub, Int.reducePow, Nat.reducePow]
        split <;> omega
    exact ⟨hor l h1 h2, hor r h3 h4⟩

end Sf.AlacCore
