/-
  SfProofs.AlacPair — a compressed channel pair (EncodeStereo's output for any mixing ratio 0 … 4, coefficient rows and
  predictor orders) is decoded by `alac_decode`'s ID_CPE branch to the truncated samples of both channels.
-/
import SfProofs.AlacMono
import SfProofs.AlacMix
namespace Sf.AlacCore

/-- one frame of a pair through the encoder's input conversion: (l1, r1) = the matrix inputs, (sa, sb) = the shifted-off bits -/
def pairIn (depth : Nat) (l r : Int) : (Int × Int) × (Nat × Nat) :=
  let sh := 8 * bytesShiftedOf depth
  ((asr (asr l (32 - depth)) sh, asr (asr r (32 - depth)) sh), (wrapU 32 (asr l (32 - depth)) % 2 ^ sh, wrapU 32 (asr r (32 - depth)) % 2 ^ sh))

/-- the matrix inputs are at most 20 bits wide -/
theorem pairIn_small {depth : Nat} (hd : Depth depth) {l r : Int} (hl : I32 l) (hr : I32 r) :
    (-524288 ≤ (pairIn depth l r).1.1 ∧ (pairIn depth l r).1.1 < 524288) ∧ (-524288 ≤ (pairIn depth l r).1.2 ∧ (pairIn depth l r).1.2 < 524288) := by
  obtain ⟨h1, h2⟩ := hl
  obtain ⟨h3, h4⟩ := hr
  unfold pairIn asr
  rcases hd with rfl | rfl | rfl | rfl <;> simp [bytesShiftedOf] <;> omega

theorem or_low (x : Int) (s : Nat) (k : Nat) (hk : k ≤ 32) (hs : s < 2 ^ k) (hx : u32 x % 2 ^ k = 0) : orU32 x s = w32 (x + s) := by
  unfold orU32
  have hdiv : u32 x = (u32 x / 2 ^ k) <<< k := by
    rw [Nat.shiftLeft_eq]; have := Nat.div_add_mod (u32 x) (2 ^ k); rw [hx] at this; rw [Nat.mul_comm]; omega
  have : u32 x ||| s = u32 x + s := by
    rw [hdiv, ← Nat.shiftLeft_add_eq_or_of_lt hs]
  rw [this]
  -- w32 (u32 x + s) = w32 (x + s)
  obtain ⟨q, hq⟩ : ∃ q : Int, ((u32 x : Nat) : Int) = x + 2 ^ 32 * q := by
    unfold u32 wrapU
    refine ⟨-(x / 2 ^ 32), ?_⟩
    have := Int.mul_ediv_add_emod x (2 ^ 32)
    have hnn := Int.emod_nonneg x (show (2 : Int) ^ 32 ≠ 0 by norm_num)
    rw [Int.toNat_of_nonneg hnn, Int.mul_neg]; omega
  push_cast
  rw [hq, show x + 2 ^ 32 * q + (s : Int) = (x + s) + 2 ^ 32 * q by ring, w32_add_mul]

/-- one frame: the decoder's un-matrixing and output conversion give back both samples, for every depth and mixres 0 … 4 -/
theorem unmixPair_frame {depth : Nat} (hd : Depth depth) (mixRes : Nat) (hm : mixRes ≤ 4) {l r : Int} (hl : I32 l) (hr : I32 r) :
    unmixPair depth (bytesShiftedOf depth) 2 (mixRes : Int)
        (if mixRes ≠ 0 then mixUV 2 (mixRes : Int) (pairIn depth l r).1.1 (pairIn depth l r).1.2 else (pairIn depth l r).1).1
        (if mixRes ≠ 0 then mixUV 2 (mixRes : Int) (pairIn depth l r).1.1 (pairIn depth l r).1.2 else (pairIn depth l r).1).2
        (pairIn depth l r).2 = some (trunc depth l, trunc depth r) := by
  obtain ⟨⟨a1, a2⟩, ⟨b1, b2⟩⟩ := pairIn_small hd hl hr
  have hlr : (if (mixRes : Int) ≠ 0 then
        unmixLR 2 (mixRes : Int) (if mixRes ≠ 0 then mixUV 2 (mixRes : Int) (pairIn depth l r).1.1 (pairIn depth l r).1.2 else (pairIn depth l r).1).1
          (if mixRes ≠ 0 then mixUV 2 (mixRes : Int) (pairIn depth l r).1.1 (pairIn depth l r).1.2 else (pairIn depth l r).1).2
      else (if mixRes ≠ 0 then mixUV 2 (mixRes : Int) (pairIn depth l r).1.1 (pairIn depth l r).1.2 else (pairIn depth l r).1)) = (pairIn depth l r).1 := by
    by_cases h0 : mixRes = 0
    · simp [h0]
    · have hi : (mixRes : Int) ≠ 0 := by omega
      simp only [h0, hi, ne_eq, not_false_eq_true, if_true]
      exact unmixLR_mixUV_encoder (mixRes : Int) _ _ (by omega) (by omega) (by omega)
  unfold unmixPair
  simp only [hlr]
  obtain ⟨h1, h2⟩ := hl
  obtain ⟨h3, h4⟩ := hr
  rcases hd with rfl | rfl | rfl | rfl
  · simp [pairIn, bytesShiftedOf, trunc, asr]
  · simp [pairIn, bytesShiftedOf, trunc, asr]
  · simp only [pairIn, bytesShiftedOf]
    simp only [show ¬ ((24 : Nat) = 16) by decide, show ¬ ((24 : Nat) = 20) by decide, show ¬ ((24 : Nat) = 32) by decide, if_false, if_true,
      ge_iff_le, Nat.le_refl, ne_eq, Nat.succ_ne_zero, not_false_eq_true, Option.some.injEq, Prod.mk.injEq]
    unfold trunc shl32 w32 wrapS wrapU asr
    simp only [Nat.reduceMul, Nat.reduceSub, Int.reducePow, Nat.reducePow]
    constructor <;> (repeat' split) <;> omega
  · simp only [pairIn, bytesShiftedOf]
    simp only [show ¬ ((32 : Nat) = 16) by decide, show ¬ ((32 : Nat) = 20) by decide, show ¬ ((32 : Nat) = 24) by decide, if_false, if_true,
      ne_eq, Nat.succ_ne_zero, not_false_eq_true, OfNat.ofNat_ne_zero, or_true, Option.some.injEq, Prod.mk.injEq, Nat.reduceMul]
    have hor : ∀ x : Int, -2147483648 ≤ x → x < 2147483648 →
        orU32 (shl32 (asr (asr x (32 - 32)) 16) 16) (wrapU 32 (asr x (32 - 32)) % 2 ^ 16) = trunc 32 x := by
      intro x hx1 hx2
      rw [or_low _ _ 16 (by decide) (Nat.mod_lt _ (by decide))]
      · unfold trunc shl32 w32 wrapS wrapU asr
        simp only [Nat.reduceSub, Int.reducePow, Nat.reducePow]
        repeat' split
        all_goals omega
      · unfold u32 shl32 wrapS wrapU asr
        simp only [Nat.reduceSub, Int.reducePow, Nat.reducePow]
        split <;> omega
    exact ⟨hor l h1 h2, hor r h3 h4⟩

/-- the encoder's view of a pair, frame by frame -/
def pairUV (depth mixRes : Nat) (lr : Int × Int) : Int × Int :=
  if mixRes ≠ 0 then mixUV 2 (mixRes : Int) (pairIn depth lr.1 lr.2).1.1 (pairIn depth lr.1 lr.2).1.2 else (pairIn depth lr.1 lr.2).1

theorem zipWith_map2 {α β γ : Type} (f : β → β → γ) (g : α → β) : ∀ (ls rs : List α),
    List.zipWith f (ls.map g) (rs.map g) = (List.zip ls rs).map fun lr => f (g lr.1) (g lr.2)
  | [], _ => by simp
  | _ :: _, [] => by simp
  | a :: ls, b :: rs => by simp [zipWith_map2 f g ls rs]

theorem mixPairs_eq (depth mixRes : Nat) (ls rs : List Int) :
    mixPairs depth (bytesShiftedOf depth) mixRes ls rs =
      (((List.zip ls rs).map (pairUV depth mixRes)).map (·.1), ((List.zip ls rs).map (pairUV depth mixRes)).map (·.2),
        (List.zip ls rs).map fun lr => (pairIn depth lr.1 lr.2).2) := by
  unfold mixPairs
  simp only []
  rw [zipWith_map2, zipWith_map2]
  simp only [Prod.mk.injEq, List.map_map]
  refine ⟨?_, ?_, ?_⟩ <;> (apply List.map_congr_left; intro lr _; simp [pairUV, pairIn, Function.comp_def])

/-- the encoder's matrixing without wrap-around: inputs of at most 25 bits -/
theorem mixUV_small (mr : Nat) (hm : mr ≤ 4) (a b : Int) (ha : -16777216 ≤ a ∧ a < 16777216) (hb : -16777216 ≤ b ∧ b < 16777216) :
    mixUV 2 (mr : Int) a b = (((mr : Int) * a + (4 - (mr : Int)) * b) / 4, a - b) := by
  have hmr : mr = 0 ∨ mr = 1 ∨ mr = 2 ∨ mr = 3 ∨ mr = 4 := by omega
  unfold mixUV asr
  rcases hmr with rfl | rfl | rfl | rfl | rfl <;>
  · simp only [Nat.cast_ofNat, Nat.cast_zero, Nat.cast_one, Int.reducePow, Int.reduceSub]
    rw [w32_of_fits (x := a - b) (by omega) (by omega)]
    first
      | (rw [w32_of_fits (x := (4 : Int)) (by omega) (by omega)])
      | (rw [w32_of_fits (x := (3 : Int)) (by omega) (by omega)])
      | (rw [w32_of_fits (x := (2 : Int)) (by omega) (by omega)])
      | (rw [w32_of_fits (x := (1 : Int)) (by omega) (by omega)])
      | (rw [w32_of_fits (x := (0 : Int)) (by omega) (by omega)])
    rw [w32_of_fits (x := _ * a) (by omega) (by omega), w32_of_fits (x := _ * b) (by omega) (by omega),
      w32_of_fits (x := _ * a + _ * b) (by omega) (by omega)]

/-- the matrixed values fit the pair's channel width (one bit more than a channel) -/
theorem pairUV_fits {depth : Nat} (hd : Depth depth) (mixRes : Nat) (hm : mixRes ≤ 4) {l r : Int} (hl : I32 l) (hr : I32 r) :
    Fits (depth - 8 * bytesShiftedOf depth + 1) (pairUV depth mixRes (l, r)).1 ∧ Fits (depth - 8 * bytesShiftedOf depth + 1) (pairUV depth mixRes (l, r)).2 := by
  obtain ⟨⟨a1, a2⟩, ⟨b1, b2⟩⟩ := pairIn_small hd hl hr
  -- tighter per depth: the inputs fit the channel width
  have hin : Fits (depth - 8 * bytesShiftedOf depth) (pairIn depth l r).1.1 ∧ Fits (depth - 8 * bytesShiftedOf depth) (pairIn depth l r).1.2 := by
    obtain ⟨h1, h2⟩ := hl
    obtain ⟨h3, h4⟩ := hr
    unfold Fits pairIn asr
    rcases hd with rfl | rfl | rfl | rfl <;> simp [bytesShiftedOf] <;> omega
  unfold pairUV
  dsimp only
  rw [show (pairIn depth l r).1 = ((pairIn depth l r).1.1, (pairIn depth l r).1.2) from rfl]
  generalize (pairIn depth l r).1.1 = a at *
  generalize (pairIn depth l r).1.2 = b at *
  have hmr : mixRes = 0 ∨ mixRes = 1 ∨ mixRes = 2 ∨ mixRes = 3 ∨ mixRes = 4 := by omega
  by_cases h0 : mixRes = 0
  · subst h0
    simp only [ne_eq, not_true_eq_false, if_false]
    unfold Fits at hin ⊢
    rcases hd with rfl | rfl | rfl | rfl <;> simp [bytesShiftedOf] at hin ⊢ <;> omega
  · simp only [h0, ne_eq, not_false_eq_true, if_true]
    rw [mixUV_small mixRes hm a b (by omega) (by omega)]
    unfold Fits at hin ⊢
    rcases hd with rfl | rfl | rfl | rfl <;> rcases hmr with rfl | rfl | rfl | rfl | rfl <;> simp [bytesShiftedOf] at hin ⊢ <;> omega

/-! ## the interleaved shifted-off bytes -/

def interleave (sh : List (Nat × Nat)) : List Nat := sh.flatMap fun ab => [ab.1, ab.2]

theorem pairUp_interleave : ∀ sh : List (Nat × Nat), pairUp (interleave sh) = sh
  | [] => rfl
  | (a, b) :: rest => by simp [interleave, pairUp, List.flatMap_cons] ; exact pairUp_interleave rest

theorem interleave_length (sh : List (Nat × Nat)) : (interleave sh).length = 2 * sh.length := by
  induction sh with
  | nil => rfl
  | cons a sh ih => simp [interleave, List.flatMap_cons] at ih ⊢; omega

theorem bitsOf_mod2 (v : Nat) : ∀ (n m : Nat), n ≤ m → bitsOf (v % 2 ^ m) n = bitsOf v n
  | 0, _, _ => rfl
  | n + 1, m, h => by
    simp only [bitsOf]
    rw [bitsOf_mod2 v n m (by omega)]
    congr 2
    have e : 2 ^ m = 2 ^ n * 2 ^ (m - n) := by rw [← Nat.pow_add]; congr 1; omega
    rw [e, Nat.mod_mul_right_div_self]
    have : 2 ∣ 2 ^ (m - n) := ⟨2 ^ (m - n - 1), by rw [← Nat.pow_succ']; congr 1; omega⟩
    rw [Nat.mod_mod_of_dvd _ this]

theorem pair_field_bits (s a b : Nat) (hb : b < 2 ^ s) : bitsOf (a * 2 ^ s + b) (2 * s) = bitsOf a s ++ bitsOf b s := by
  rw [show 2 * s = s + s by omega, bitsOf_split]
  have h1 : (a * 2 ^ s + b) / 2 ^ s = a := by
    rw [Nat.add_comm, Nat.add_mul_div_right _ _ (Nat.pow_pos (by decide)), Nat.div_eq_of_lt hb]; simp
  have h2 : bitsOf (a * 2 ^ s + b) s = bitsOf b s := by
    rw [← bitsOf_mod2 _ s s (Nat.le_refl _)]
    congr 1
    rw [Nat.add_comm, Nat.add_mul_mod_self_right, Nat.mod_eq_of_lt hb]
  rw [h1, h2]

theorem shift_bits_eq (s : Nat) (sh : List (Nat × Nat)) (h : ∀ ab ∈ sh, ab.2 < 2 ^ s) :
    (sh.flatMap fun ab => bitsOf (ab.1 * 2 ^ s + ab.2) (2 * s)) = (interleave sh).flatMap fun x => bitsOf x s := by
  induction sh with
  | nil => rfl
  | cons ab sh ih =>
    simp only [List.flatMap_cons, interleave]
    rw [pair_field_bits s ab.1 ab.2 (h ab (by simp)), ih (fun x hx => h x (by simp [hx]))]
    simp [interleave, List.flatMap_cons]

theorem zip_map_same {α β γ : Type} (f : α → β) (g : α → γ) : ∀ l : List α, List.zip (l.map f) (l.map g) = l.map fun x => (f x, g x)
  | [] => rfl
  | a :: l => by simp [zip_map_same f g l]

theorem zip_map_replicate {α β γ : Type} (f : α → β) (c : γ) : ∀ l : List α, List.zip (l.map f) (List.replicate l.length c) = l.map fun x => (f x, c)
  | [] => rfl
  | a :: l => by simp [List.replicate_succ, zip_map_replicate f c l]

theorem coefBits_length (coefs : List Int) (numU : Nat) (hlen : numU ≤ coefs.length) : (coefBits coefs numU).length = 16 * numU := by
  unfold coefBits
  have : ∀ l : List Int, (l.flatMap fun c => bitsOf (wrapU 16 c) 16).length = 16 * l.length := by
    intro l; induction l with
    | nil => rfl
    | cons a l ih => rw [List.flatMap_cons, List.length_append, bitsOf_length, ih, List.length_cons]; omega
  rw [this, List.length_take, Nat.min_eq_left hlen]

/-- the shift part of a compressed pair -/
def pairShiftBits (depth : Nat) (ls rs : List Int) : Bits :=
  if bytesShiftedOf depth ≠ 0 then
    ((List.zip ls rs).map fun lr => (pairIn depth lr.1 lr.2).2).flatMap fun ab => bitsOf (ab.1 * 2 ^ (8 * bytesShiftedOf depth) + ab.2) (2 * (8 * bytesShiftedOf depth))
  else []

theorem pairShiftBits_length (depth : Nat) (ls rs : List Int) (hlen : ls.length = rs.length) :
    (pairShiftBits depth ls rs).length = if bytesShiftedOf depth ≠ 0 then 2 * (8 * bytesShiftedOf depth) * ls.length else 0 := by
  unfold pairShiftBits
  split
  · have : ∀ (w : Nat) (l : List (Nat × Nat)), (l.flatMap fun ab => bitsOf (ab.1 * 2 ^ (8 * bytesShiftedOf depth) + ab.2) w).length = w * l.length := by
      intro w l; induction l with
      | nil => rfl
      | cons a l ih => rw [List.flatMap_cons, List.length_append, bitsOf_length, ih, List.length_cons]; simp [Nat.mul_succ]; omega
    rw [this]; simp [hlen]
  · rfl

theorem compPairBits_eq (depth fs : Nat) (ls rs : List Int) (mixRes : Nat) (cU cV : List Int) (numU numV : Nat) :
    compPairBits depth fs ls rs mixRes cU cV numU numV =
      hdrBits (decide (ls.length ≠ fs)) (bytesShiftedOf depth) ls.length false ++ (bitsOf 2 8 ++ (bitsOf mixRes 8 ++
        (bitsOf 9 8 ++ (bitsOf (4 * 32 + numU) 8 ++ (coefBits cU numU ++ (bitsOf 9 8 ++ (bitsOf (4 * 32 + numV) 8 ++ (coefBits cV numV ++
        (pairShiftBits depth ls rs ++
          (dynComp stdAg (pcBlock (((List.zip ls rs).map (pairUV depth mixRes)).map (·.1)) cU numU (depth - 8 * bytesShiftedOf depth + 1) 9).1
              (depth - 8 * bytesShiftedOf depth + 1) ++
            dynComp stdAg (pcBlock (((List.zip ls rs).map (pairUV depth mixRes)).map (·.2)) cV numV (depth - 8 * bytesShiftedOf depth + 1) 9).1
              (depth - 8 * bytesShiftedOf depth + 1))))))))))) := by
  unfold compPairBits pairShiftBits
  simp only [mixPairs_eq, List.append_assoc]

/-- `dyn_decomp` + `unpc_block` of one channel on what the encoder wrote for it (mode 0, denShift 9, pbFactor 4) -/
theorem decChan_comp (cfg : Config) (hmb : cfg.mb = 10) (hpb : cfg.pb = 40) (hkb : cfg.kb = 14) (byteSize cb : Nat) (hcb1 : 1 ≤ cb) (hcb : cb ≤ 31)
    (pc coefs : List Int) (num n : Nat) (hn : pc.length = n) (hnum : num < 32) (hfit : ∀ x ∈ pc, Fits cb x) (rest : Bits) (pos : Nat)
    (hroom : pos + (dynComp stdAg pc cb).length ≤ byteSize * 8) :
    decChan cfg byteSize n cb (0, 9, (128 + num) / 32, coefs) ⟨dynComp stdAg pc cb ++ rest, pos⟩ =
      (some (unpcBlock pc coefs coefs.length cb 9), ⟨rest, pos + (dynComp stdAg pc cb).length⟩) := by
  have hag : setAgParams cfg.mb (cfg.pb * ((128 + num) / 32) / 4) cfg.kb = stdAg := by
    rw [hmb, hpb, hkb, show (128 + num) / 32 = 4 by omega]; rfl
  subst hn
  simp only [decChan, hag]
  rw [dynDecomp_dynComp cb hcb1 hcb pc hfit rest pos byteSize hroom]
  simp

theorem sext8_small (m : Nat) (hm : m ≤ 4) : sext 8 m = (m : Int) := by
  unfold sext
  simp only [Nat.reduceSub, Nat.reducePow]
  split <;> omega

/-- without shifted-off bytes (16 / 20 bit) the un-matrixing ignores the shift buffer -/
theorem unmixPair_noshift {depth : Nat} (hd : Depth depth) (hb0 : bytesShiftedOf depth = 0) (mixRes u v : Int) (s t : Nat × Nat) :
    unmixPair depth 0 2 mixRes u v s = unmixPair depth 0 2 mixRes u v t := by
  rcases hd with rfl | rfl | rfl | rfl
  · simp [unmixPair]
  · simp [unmixPair]
  · simp [bytesShiftedOf] at hb0
  · simp [bytesShiftedOf] at hb0

/-- a compressed channel pair, whatever mixing ratio (0 … 4), coefficient rows and orders the encoder's search picked, is
    decoded to the samples of both channels (low bits cleared) -/
theorem decPair_comp {cfg : Config} (hd : Depth cfg.bitDepth) (hmb : cfg.mb = 10) (hpb : cfg.pb = 40) (hkb : cfg.kb = 14)
    (byteSize inst reqN : Nat) (ls rs : List Int) (hlen : ls.length = rs.length) (mixRes : Nat) (hm : mixRes ≤ 4)
    (cU cV : List Int) (numU numV : Nat) (hU : numU ≤ cU.length) (hV : numV ≤ cV.length) (hnu : numU < 31) (hnv : numV < 31)
    (hcU : ∀ c ∈ cU.take numU, Int16 c) (hcV : ∀ c ∈ cV.take numV, Int16 c) (hls : ∀ x ∈ ls, I32 x) (hrs : ∀ x ∈ rs, I32 x)
    (hn : ls.length ≤ frameLen) (hreq : ls.length = frameLen → reqN = frameLen) (rest : Bits) (p : Nat)
    (hroom : p + 4 + (compPairBits cfg.bitDepth frameLen ls rs mixRes cU cV numU numV).length ≤ byteSize * 8) :
    decPair (comp Rules.current byteSize) Rules.current cfg reqN
        ⟨bitsOf inst 4 ++ (compPairBits cfg.bitDepth frameLen ls rs mixRes cU cV numU numV ++ rest), p⟩ =
      .done ls.length [ls.map (trunc cfg.bitDepth), rs.map (trunc cfg.bitDepth)]
        ⟨rest, p + 4 + (compPairBits cfg.bitDepth frameLen ls rs mixRes cU cV numU numV).length⟩ := by
  obtain ⟨hbs, hcb1, hcb31, hle⟩ := depth_facts hd
  have hLl : (List.zip ls rs).length = ls.length := by rw [List.length_zip, hlen, Nat.min_self]
  have hmemL : ∀ lr ∈ List.zip ls rs, I32 lr.1 ∧ I32 lr.2 := fun lr h => ⟨hls _ (List.of_mem_zip h).1, hrs _ (List.of_mem_zip h).2⟩
  -- the matrixed channels fit, so do their residuals, and the predictor inverts
  have hUfit : ∀ y ∈ ((List.zip ls rs).map (pairUV cfg.bitDepth mixRes)).map (·.1), Fits (cfg.bitDepth - 8 * bytesShiftedOf cfg.bitDepth + 1) y := by
    intro y hy; simp only [List.mem_map] at hy
    obtain ⟨_, ⟨lr, hlr, rfl⟩, rfl⟩ := hy
    exact (pairUV_fits hd mixRes hm (hmemL lr hlr).1 (hmemL lr hlr).2).1
  have hVfit : ∀ y ∈ ((List.zip ls rs).map (pairUV cfg.bitDepth mixRes)).map (·.2), Fits (cfg.bitDepth - 8 * bytesShiftedOf cfg.bitDepth + 1) y := by
    intro y hy; simp only [List.mem_map] at hy
    obtain ⟨_, ⟨lr, hlr, rfl⟩, rfl⟩ := hy
    exact (pairUV_fits hd mixRes hm (hmemL lr hlr).1 (hmemL lr hlr).2).2
  rw [compPairBits_eq] at hroom ⊢
  generalize hUdef : ((List.zip ls rs).map (pairUV cfg.bitDepth mixRes)).map (·.1) = U at hUfit hroom ⊢
  generalize hVdef : ((List.zip ls rs).map (pairUV cfg.bitDepth mixRes)).map (·.2) = V at hVfit hroom ⊢
  have hUl : U.length = ls.length := by rw [← hUdef]; simp [hLl]
  have hVl : V.length = ls.length := by rw [← hVdef]; simp [hLl]
  have hunU : unpcBlock (pcBlock U cU numU (cfg.bitDepth - 8 * bytesShiftedOf cfg.bitDepth + 1) 9).1 (cU.take numU) (cU.take numU).length
      (cfg.bitDepth - 8 * bytesShiftedOf cfg.bitDepth + 1) 9 = U := by
    rw [List.length_take, Nat.min_eq_left hU, ← pcBlock_take]
    exact unpcBlock_pcBlock _ _ numU _ 9 (by omega) (by omega) (fun y hy => sx_of_fits _ (by omega) y (hUfit y hy).1 (hUfit y hy).2)
  have hunV : unpcBlock (pcBlock V cV numV (cfg.bitDepth - 8 * bytesShiftedOf cfg.bitDepth + 1) 9).1 (cV.take numV) (cV.take numV).length
      (cfg.bitDepth - 8 * bytesShiftedOf cfg.bitDepth + 1) 9 = V := by
    rw [List.length_take, Nat.min_eq_left hV, ← pcBlock_take]
    exact unpcBlock_pcBlock _ _ numV _ 9 (by omega) (by omega) (fun y hy => sx_of_fits _ (by omega) y (hVfit y hy).1 (hVfit y hy).2)
  have hpUfit := pcBlock_fits U cU numU (cfg.bitDepth - 8 * bytesShiftedOf cfg.bitDepth + 1) 9 (by omega) hUfit
  have hpVfit := pcBlock_fits V cV numV (cfg.bitDepth - 8 * bytesShiftedOf cfg.bitDepth + 1) 9 (by omega) hVfit
  have hpUl : (pcBlock U cU numU (cfg.bitDepth - 8 * bytesShiftedOf cfg.bitDepth + 1) 9).1.length = ls.length := by rw [pcBlock_length, hUl]
  have hpVl : (pcBlock V cV numV (cfg.bitDepth - 8 * bytesShiftedOf cfg.bitDepth + 1) 9).1.length = ls.length := by rw [pcBlock_length, hVl]
  generalize (pcBlock U cU numU (cfg.bitDepth - 8 * bytesShiftedOf cfg.bitDepth + 1) 9).1 = pcU at hunU hpUfit hpUl hroom ⊢
  generalize (pcBlock V cV numV (cfg.bitDepth - 8 * bytesShiftedOf cfg.bitDepth + 1) 9).1 = pcV at hunV hpVfit hpVl hroom ⊢
  have hSH := pairShiftBits_length cfg.bitDepth ls rs hlen
  simp only [List.length_append, hdrBits_length, bitsOf_length, coefBits_length cU numU hU, coefBits_length cV numV hV, hSH] at hroom ⊢
  have hE : (if decide (ls.length ≠ frameLen) = true then 48 else 16) = escHeaderLen ls.length := by
    unfold escHeaderLen; by_cases h : ls.length = frameLen <;> simp [h]
  rw [hE] at hroom ⊢
  unfold decPair
  simp only [List.append_assoc]
  rw [rdHeader_hdr inst ls.length reqN (bytesShiftedOf cfg.bitDepth) false hbs hn hreq]
  simp only [Bool.false_eq_true, if_false, comp, compPair, rdChanParams, read_bitsOf]
  have hfu : (4 * 32 + numU) % 2 ^ 8 = 128 + numU := by omega
  have hfv : (4 * 32 + numV) % 2 ^ 8 = 128 + numV := by omega
  have hmr : mixRes % 2 ^ 8 = mixRes := by omega
  simp only [hfu, hfv, hmr, show (128 + numU) % 32 = numU by omega, show (128 + numV) % 32 = numV by omega]
  unfold coefBits
  have hctU : (cU.take numU).length = numU := by rw [List.length_take, Nat.min_eq_left hU]
  have hctV : (cV.take numV).length = numV := by rw [List.length_take, Nat.min_eq_left hV]
  have hrcU := rdCoefs_coefBits (cU.take numU) hcU
  have hrcV := rdCoefs_coefBits (cV.take numV) hcV
  rw [hctU] at hrcU
  rw [hctV] at hrcV
  rw [hrcU]
  simp only [read_bitsOf, hfv, show (128 + numV) % 32 = numV by omega]
  rw [hrcV]
  simp only [Nat.reducePow, Nat.reduceMod, Nat.reduceDiv]
  -- the guard, and the reader behind the shifted-off bytes
  have hdom : inDomain cfg (cfg.bitDepth - 8 * bytesShiftedOf cfg.bitDepth + 1) = true := by simp [inDomain, hkb]; omega
  have hnlt : ¬ (cfg.bitDepth < 8 * bytesShiftedOf cfg.bitDepth) := by omega
  simp only [hdom, Bool.not_true, Bool.false_or, decide_eq_true_eq, hnlt, show ¬ ((2 : Nat) ≥ 32) by decide, decide_false, Bool.and_false,
    Bool.or_false, Bool.false_eq_true, if_false]
  have hR : ∀ (X : Bits) (P : Nat),
      (if bytesShiftedOf cfg.bitDepth ≠ 0 then (Rd.mk (pairShiftBits cfg.bitDepth ls rs ++ X) P).advance (8 * bytesShiftedOf cfg.bitDepth * 2 * ls.length)
        else Rd.mk (pairShiftBits cfg.bitDepth ls rs ++ X) P) = Rd.mk X (P + (pairShiftBits cfg.bitDepth ls rs).length) := by
    intro X P
    by_cases hb0 : bytesShiftedOf cfg.bitDepth = 0
    · simp [hb0, pairShiftBits]
    · have hl : (pairShiftBits cfg.bitDepth ls rs).length = 8 * bytesShiftedOf cfg.bitDepth * 2 * ls.length := by
        rw [hSH]; simp only [hb0, ne_eq, not_false_eq_true, if_true]; ring
      simp only [hb0, ne_eq, not_false_eq_true, if_true, Rd.advance, List.drop_left' hl, hl]
  simp only [hR]
  -- the two channels
  have hd1 := decChan_comp cfg hmb hpb hkb byteSize (cfg.bitDepth - 8 * bytesShiftedOf cfg.bitDepth + 1) (by omega) (by omega) pcU (cU.take numU) numU
    ls.length hpUl (by omega) hpUfit (dynComp stdAg pcV (cfg.bitDepth - 8 * bytesShiftedOf cfg.bitDepth + 1) ++ rest)
    (p + 4 + escHeaderLen ls.length + 8 + 8 + 8 + 8 + 16 * numU + 8 + 8 + 16 * numV + (pairShiftBits cfg.bitDepth ls rs).length)
    (by rw [hSH]; omega)
  rw [hd1]
  simp only []
  have hd2 := decChan_comp cfg hmb hpb hkb byteSize (cfg.bitDepth - 8 * bytesShiftedOf cfg.bitDepth + 1) (by omega) (by omega) pcV (cV.take numV) numV
    ls.length hpVl (by omega) hpVfit rest
    (p + 4 + escHeaderLen ls.length + 8 + 8 + 8 + 8 + 16 * numU + 8 + 8 + 16 * numV + (pairShiftBits cfg.bitDepth ls rs).length +
      (dynComp stdAg pcU (cfg.bitDepth - 8 * bytesShiftedOf cfg.bitDepth + 1)).length)
    (by rw [hSH]; omega)
  rw [hd2]
  simp only [hunU, hunV]
  have hdep : cfg.bitDepth = 16 ∨ cfg.bitDepth = 20 ∨ cfg.bitDepth = 24 ∨ cfg.bitDepth = 32 := hd
  simp only [hdep, if_true, sext8_small mixRes hm]
  -- the un-matrixing frame by frame
  have houts : List.map (fun x : (Int × Int) × (Nat × Nat) => unmixPair cfg.bitDepth (bytesShiftedOf cfg.bitDepth) 2 (mixRes : Int) x.1.1 x.1.2 x.2)
      ((U.zip V).zip
        (if bytesShiftedOf cfg.bitDepth ≠ 0 then
          pairUp (rdFields (8 * bytesShiftedOf cfg.bitDepth) (2 * ls.length)
            ⟨pairShiftBits cfg.bitDepth ls rs ++ (dynComp stdAg pcU (cfg.bitDepth - 8 * bytesShiftedOf cfg.bitDepth + 1) ++
              (dynComp stdAg pcV (cfg.bitDepth - 8 * bytesShiftedOf cfg.bitDepth + 1) ++ rest)),
              p + 4 + escHeaderLen ls.length + 8 + 8 + 8 + 8 + 16 * numU + 8 + 8 + 16 * numV⟩).1
        else List.replicate ls.length (0, 0))) =
      (List.zip ls rs).map fun lr => some (trunc cfg.bitDepth lr.1, trunc cfg.bitDepth lr.2) := by
    rw [← hUdef, ← hVdef, zip_map_same]
    have hM : (List.map (pairUV cfg.bitDepth mixRes) (ls.zip rs)).map (fun x => (x.1, x.2)) = List.map (pairUV cfg.bitDepth mixRes) (ls.zip rs) := by
      simp
    rw [hM]
    by_cases hb0 : bytesShiftedOf cfg.bitDepth = 0
    · simp only [hb0, ne_eq, not_true_eq_false, if_false]
      rw [← hLl, zip_map_replicate, List.map_map]
      apply List.map_congr_left
      intro lr hlr
      simp only [Function.comp]
      have := unmixPair_frame hd mixRes hm (hmemL lr hlr).1 (hmemL lr hlr).2
      rw [hb0] at this
      rw [← this]
      unfold pairUV
      exact unmixPair_noshift hd hb0 _ _ _ _ _
    · simp only [hb0, ne_eq, not_false_eq_true, if_true]
      have hsl : ∀ ab ∈ (List.zip ls rs).map (fun lr => (pairIn cfg.bitDepth lr.1 lr.2).2), ab.2 < 2 ^ (8 * bytesShiftedOf cfg.bitDepth) := by
        intro ab hab; simp only [List.mem_map] at hab; obtain ⟨lr, _, rfl⟩ := hab
        exact Nat.mod_lt _ (Nat.pow_pos (by decide))
      have hsl1 : ∀ x ∈ interleave ((List.zip ls rs).map (fun lr => (pairIn cfg.bitDepth lr.1 lr.2).2)), x < 2 ^ (8 * bytesShiftedOf cfg.bitDepth) := by
        intro x hx
        simp only [interleave, List.mem_flatMap, List.mem_map] at hx
        obtain ⟨ab, ⟨lr, _, rfl⟩, hx⟩ := hx
        simp only [List.mem_cons, List.not_mem_nil, or_false] at hx
        rcases hx with rfl | rfl <;> exact Nat.mod_lt _ (Nat.pow_pos (by decide))
      have hrf := rdFields_enc (8 * bytesShiftedOf cfg.bitDepth) (interleave ((List.zip ls rs).map (fun lr => (pairIn cfg.bitDepth lr.1 lr.2).2))) hsl1
      rw [interleave_length, List.length_map, hLl] at hrf
      unfold pairShiftBits
      simp only [hb0, ne_eq, not_false_eq_true, if_true]
      rw [shift_bits_eq _ _ hsl, hrf, pairUp_interleave, zip_map_same, List.map_map]
      apply List.map_congr_left
      intro lr hlr
      simp only [Function.comp]
      have := unmixPair_frame hd mixRes hm (hmemL lr hlr).1 (hmemL lr hlr).2
      rw [← this]
      unfold pairUV
      rfl
  rw [houts]
  simp only [List.map_map, Function.comp, Option.getD_some, ElemRes.done.injEq, true_and]
  refine ⟨?_, ?_⟩
  · simp only [Function.comp_def, Option.getD_some]
    have h1 : (List.zip ls rs).map (fun lr => trunc cfg.bitDepth lr.1) = ls.map (trunc cfg.bitDepth) := by
      have := congrArg (List.map (trunc cfg.bitDepth)) (List.map_fst_zip (l₁ := ls) (l₂ := rs) (by omega))
      simpa [List.map_map, Function.comp_def] using this
    have h2 : (List.zip ls rs).map (fun lr => trunc cfg.bitDepth lr.2) = rs.map (trunc cfg.bitDepth) := by
      have := congrArg (List.map (trunc cfg.bitDepth)) (List.map_snd_zip (l₁ := ls) (l₂ := rs) (by omega))
      simpa [List.map_map, Function.comp_def] using this
    rw [h1, h2]
  · rw [hSH]; simp only [Rd.mk.injEq, true_and]; omega

end Sf.AlacCore