/-
  SfProofs.AlacPair — a compressed channel pair (EncodeStereo's output for any mixing ratio 0 … 4, coefficient rows and
  predictor orders) is decoded by `alac_decode`'s ID_CPE branch to the truncated samples of both channels.
-/
import SfProofs.AlacMono
import SfProofs.AlacMix
namespace Sf.AlacCore

/-- one frame of a pair through the encoder's input conversion: (l1, r1) = the matrix inputs, (sa, sb) = the shifted-off bits -/
def pairIn (depth : Nat) (l r : Int) : (Int × Int) × (Nat × Nat) :=
  let sh := 8 * bytesShiftedOf depth
  ((asr (asr l (32 - depth)) sh, asr (asr r (32 - depth)) sh), (wrapU 32 (asr l (32 - depth)) % 2 ^ sh, wrapU 32 (asr r (32 - depth)) % 2 ^ sh))

/-- the matrix inputs are at most 20 bits wide -/
theorem pairIn_small {depth : Nat} (hd : Depth depth) {l r : Int} (hl : I32 l) (hr : I32 r) :
    (-524288 ≤ (pairIn depth l r).1.1 ∧ (pairIn depth l r).1.1 < 524288) ∧ (-524288 ≤ (pairIn depth l r).1.2 ∧ (pairIn depth l r).1.2 < 524288) := by
  obtain ⟨h1, h2⟩ := hl
  obtain ⟨h3, h4⟩ := hr
  unfold pairIn asr
  rcases hd with rfl | rfl | rfl | rfl <;> simp [bytesShiftedOf] <;> omega

theorem or_low (x : Int) (s : Nat) (k : Nat) (hk : k ≤ 32) (hs : s < 2 ^ k) (hx : u32 x % 2 ^ k = 0) : orU32 x s = w32 (x + s) := by
  unfold orU32
  have hdiv : u32 x = (u32 x / 2 ^ k) <<< k := by
    rw [Nat.shiftLeft_eq]; have := Nat.div_add_mod (u32 x) (2 ^ k); rw [hx] at this; rw [Nat.mul_comm]; omega
  have : u32 x ||| s = u32 x + s := by
    rw [hdiv, ← Nat.shiftLeft_add_eq_or_of_lt hs]
  rw [this]
  -- w32 (u32 x + s) = w32 (x + s)
  obtain ⟨q, hq⟩ : ∃ q : Int, ((u32 x : Nat) : Int) = x + 2 ^ 32 * q := by
    unfold u32 wrapU
    refine ⟨-(x / 2 ^ 32), ?_⟩
    have := Int.mul_ediv_add_emod x (2 ^ 32)
    have hnn := Int.emod_nonneg x (show (2 : Int) ^ 32 ≠ 0 by norm_num)
    rw [Int.toNat_of_nonneg hnn, Int.mul_neg]; omega
  push_cast
  rw [hq, show x + 2 ^ 32 * q + (s : Int) = (x + s) + 2 ^ 32 * q by ring, w32_add_mul]

/-- one frame: the decoder's un-matrixing and output conversion give back both samples, for every depth and mixres 0 … 4 -/
theorem unmixPair_frame {depth : Nat} (hd : Depth depth) (mixRes : Nat) (hm : mixRes ≤ 4) {l r : Int} (hl : I32 l) (hr : I32 r) :
    unmixPair depth (bytesShiftedOf depth) 2 (mixRes : Int)
        (if mixRes ≠ 0 then mixUV 2 (mixRes : Int) (pairIn depth l r).1.1 (pairIn depth l r).1.2 else (pairIn depth l r).1).1
        (if mixRes ≠ 0 then mixUV 2 (mixRes : Int) (pairIn depth l r).1.1 (pairIn depth l r).1.2 else (pairIn depth l r).1).2
        (pairIn depth l r).2 = some (trunc depth l, trunc depth r) := by
  obtain ⟨⟨a1, a2⟩, ⟨b1, b2⟩⟩ := pairIn_small hd hl hr
  have hlr : (if (mixRes : Int) ≠ 0 then
        unmixLR 2 (mixRes : Int) (if mixRes ≠ 0 then mixUV 2 (mixRes : Int) (pairIn depth l r).1.1 (pairIn depth l r).1.2 else (pairIn depth l r).1).1
          (if mixRes ≠ 0 then mixUV 2 (mixRes : Int) (pairIn depth l r).1.1 (pairIn depth l r).1.2 else (pairIn depth l r).1).2
      else (if mixRes ≠ 0 then mixUV 2 (mixRes : Int) (pairIn depth l r).1.1 (pairIn depth l r).1.2 else (pairIn depth l r).1)) = (pairIn depth l r).1 := by
    by_cases h0 : mixRes = 0
    · simp [h0]
    · have hi : (mixRes : Int) ≠ 0 := by omega
      simp only [h0, hi, ne_eq, not_false_eq_true, if_true]
      exact unmixLR_mixUV_encoder (mixRes : Int) _ _ (by omega) (by omega) (by omega)
  unfold unmixPair
  simp only [hlr]
  obtain ⟨h1, h2⟩ := hl
  obtain ⟨h3, h4⟩ := hr
  rcases hd with rfl | rfl | rfl | rfl
  · simp [pairIn, bytesShiftedOf, trunc, asr]
  · simp [pairIn, bytesShiftedOf, trunc, asr]
  · simp only [pairIn, bytesShiftedOf]
    simp only [show ¬ ((24 : Nat) = 16) by decide, show ¬ ((24 : Nat) = 20) by decide, show ¬ ((24 : Nat) = 32) by decide, if_false, if_true,
      ge_iff_le, Nat.le_refl, ne_eq, Nat.succ_ne_zero, not_false_eq_true, Option.some.injEq, Prod.mk.injEq]
    unfold trunc shl32 w32 wrapS wrapU asr
    simp only [Nat.reduceMul, Nat.reduceSub, Int.reducePow, Nat.reducePow]
    constructor <;> (repeat' split) <;> omega
  · simp only [pairIn, bytesShiftedOf]
    simp only [show ¬ ((32 : Nat) = 16) by decide, show ¬ ((32 : Nat) = 20) by decide, show ¬ ((32 : Nat) = 24) by decide, if_false, if_true,
      ne_eq, Nat.succ_ne_zero, not_false_eq_true, OfNat.ofNat_ne_zero, or_true, Option.some.injEq, Prod.mk.injEq, Nat.reduceMul]
    have hor : ∀ x : Int, -2147483648 ≤ x → x < 2147483648 →
        orU32 (shl32 (asr (asr x (32 - 32)) 16) 16) (wrapU 32 (asr x (32 - 32)) % 2 ^ 16) = trunc 32 x := by
      intro x hx1 hx2
      rw [or_low _ _ 16 (by decide) (Nat.mod_lt _ (by decide))]
      · unfold trunc shl32 w32 wrapS wrapU asr
        simp only [Nat.reduceSub, Int.reducePow, Nat.reducePow]
        repeat' split
        all_goals omega
      · unfold u32 shl32 wrapS wrapU asr
        simp only [Nat.reduceSub, Int.reducePow, Nat.reducePow]
        split <;> omega
    exact ⟨hor l h1 h2, hor r h3 h4⟩

/-- the encoder's view of a pair, frame by frame -/
def pairUV (depth mixRes : Nat) (lr : Int × Int) : Int × Int :=
  if mixRes ≠ 0 then mixUV 2 (mixRes : Int) (pairIn depth lr.1 lr.2).1.1 (pairIn depth lr.1 lr.2).1.2 else (pairIn depth lr.1 lr.2).1

theorem zipWith_map2 {α β γ : Type} (f : β → β → γ) (g : α → β) : ∀ (ls rs : List α),
    List.zipWith f (ls.map g) (rs.map g) = (List.zip ls rs).map fun lr => f (g lr.1) (g lr.2)
  | [], _ => by simp
  | _ :: _, [] => by simp
  | a :: ls, b :: rs => by simp [zipWith_map2 f g ls rs]

theorem mixPairs_eq (depth mixRes : Nat) (ls rs : List Int) :
    mixPairs depth (bytesShiftedOf depth) mixRes ls rs =
      (((List.zip ls rs).map (pairUV depth mixRes)).map (·.1), ((List.zip ls rs).map (pairUV depth mixRes)).map (·.2),
        (List.zip ls rs).map fun lr => (pairIn depth lr.1 lr.2).2) := by
  unfold mixPairs
  simp only []
  rw [zipWith_map2, zipWith_map2]
  simp only [Prod.mk.injEq, List.map_map]
  refine ⟨?_, ?_, ?_⟩ <;> (apply List.map_congr_left; intro lr _; simp [pairUV, pairIn, Function.comp_def])

/-- the encoder's matrixing without wrap-around: inputs of at most 25 bits -/
theorem mixUV_small (mr : Nat) (hm : mr ≤ 4) (a b : Int) (ha : -16777216 ≤ a ∧ a < 16777216) (hb : -16777216 ≤ b ∧ b < 16777216) :
    mixUV 2 (mr : Int) a b = (((mr : Int) * a + (4 - (mr : Int)) * b) / 4, a - b) := by
  have hmr : mr = 0 ∨ mr = 1 ∨ mr = 2 ∨ mr = 3 ∨ mr = 4 := by omega
  unfold mixUV asr
  rcases hmr with rfl | rfl | rfl | rfl | rfl <;>
  · simp only [Nat.cast_ofNat, Nat.cast_zero, Nat.cast_one, Int.reducePow, Int.reduceSub]
    rw [w32_of_fits (x := a - b) (by omega) (by omega)]
    first
      | (rw [w32_of_fits (x := (4 : Int)) (by omega) (by omega)])
      | (rw [w32_of_fits (x := (3 : Int)) (by omega) (by omega)])
      | (rw [w32_of_fits (x := (2 : Int)) (by omega) (by omega)])
      | (rw [w32_of_fits (x := (1 : Int)) (by omega) (by omega)])
      | (rw [w32_of_fits (x := (0 : Int)) (by omega) (by omega)])
    rw [w32_of_fits (x := _ * a) (by omega) (by omega), w32_of_fits (x := _ * b) (by omega) (by omega),
      w32_of_fits (x := _ * a + _ * b) (by omega) (by omega)]

/-- the matrixed values fit the pair's channel width (one bit more than a channel) -/
theorem pairUV_fits {depth : Nat} (hd : Depth depth) (mixRes : Nat) (hm : mixRes ≤ 4) {l r : Int} (hl : I32 l) (hr : I32 r) :
    Fits (depth - 8 * bytesShiftedOf depth + 1) (pairUV depth mixRes (l, r)).1 ∧ Fits (depth - 8 * bytesShiftedOf depth + 1) (pairUV depth mixRes (l, r)).2 := by
  obtain ⟨⟨a1, a2⟩, ⟨b1, b2⟩⟩ := pairIn_small hd hl hr
  -- tighter per depth: the inputs fit the channel width
  have hin : Fits (depth - 8 * bytesShiftedOf depth) (pairIn depth l r).1.1 ∧ Fits (depth - 8 * bytesShiftedOf depth) (pairIn depth l r).1.2 := by
    obtain ⟨h1, h2⟩ := hl
    obtain ⟨h3, h4⟩ := hr
    unfold Fits pairIn asr
    rcases hd with rfl | rfl | rfl | rfl <;> simp [bytesShiftedOf] <;> omega
  unfold pairUV
  dsimp only
  rw [show (pairIn depth l r).1 = ((pairIn depth l r).1.1, (pairIn depth l r).1.2) from rfl]
  generalize (pairIn depth l r).1.1 = a at *
  generalize (pairIn depth l r).1.2 = b at *
  have hmr : mixRes = 0 ∨ mixRes = 1 ∨ mixRes = 2 ∨ mixRes = 3 ∨ mixRes = 4 := by omega
  by_cases h0 : mixRes = 0
  · subst h0
    simp only [ne_eq, not_true_eq_false, if_false]
    unfold Fits at hin ⊢
    rcases hd with rfl | rfl | rfl | rfl <;> simp [bytesShiftedOf] at hin ⊢ <;> omega
  · simp only [h0, ne_eq, not_false_eq_true, if_true]
    rw [mixUV_small mixRes hm a b (by omega) (by omega)]
    unfold Fits at hin ⊢
    rcases hd with rfl | rfl | rfl | rfl <;> rcases hmr with rfl | rfl | rfl | rfl | rfl <;> simp [bytesShiftedOf] at hin ⊢ <;> omega

/-! ## the interleaved shifted-off bytes -/

def interleave (sh : List (Nat × Nat)) : List Nat := sh.flatMap fun ab => [ab.1, ab.2]

theorem pairUp_interleave : ∀ sh : List (Nat × Nat), pairUp (interleave sh) = sh
  | [] => rfl
  | (a, b) :: rest => by simp [interleave, pairUp, List.flatMap_cons] ; exact pairUp_interleave rest

theorem interleave_length (sh : List (Nat × Nat)) : (interleave sh).length = 2 * sh.length := by
  induction sh with
  | nil => rfl
  | cons a sh ih => simp [interleave, List.flatMap_cons] at ih ⊢; omega

theorem bitsOf_mod2 (v : Nat) : ∀ (n m : Nat), n ≤ m → bitsOf (v % 2 ^ m) n = bitsOf v n
  | 0, _, _ => rfl
  | n + 1, m, h => by
    simp only [bitsOf]
    rw [bitsOf_mod2 v n m (by omega)]
    congr 2
    have e : 2 ^ m = 2 ^ n * 2 ^ (m - n) := by rw [← Nat.pow_add]; congr 1; omega
    rw [e, Nat.mod_mul_right_div_self]
    have : 2 ∣ 2 ^ (m - n) := ⟨2 ^ (m - n - 1), by rw [← Nat.pow_succ']; congr 1; omega⟩
    rw [Nat.mod_mod_of_dvd _ this]

theorem pair_field_bits (s a b : Nat) (hb : b < 2 ^ s) : bitsOf (a * 2 ^ s + b) (2 * s) = bitsOf a s ++ bitsOf b s := by
  rw [show 2 * s = s + s by omega, bitsOf_split]
  have h1 : (a * 2 ^ s + b) / 2 ^ s = a := by
    rw [Nat.add_comm, Nat.add_mul_div_right _ _ (Nat.pow_pos (by decide)), Nat.div_eq_of_lt hb]; simp
  have h2 : bitsOf (a * 2 ^ s + b) s = bitsOf b s := by
    rw [← bitsOf_mod2 _ s s (Nat.le_refl _)]
    congr 1
    rw [Nat.add_comm, Nat.add_mul_mod_self_right, Nat.mod_eq_of_lt hb]
  rw [h1, h2]

theorem shift_bits_eq (s : Nat) (sh : List (Nat × Nat)) (h : ∀ ab ∈ sh, ab.2 < 2 ^ s) :
    (sh.flatMap fun ab => bitsOf (ab.1 * 2 ^ s + ab.2) (2 * s)) = (interleave sh).flatMap fun x => bitsOf x s := by
  induction sh with
  | nil => rfl
  | cons ab sh ih =>
    simp only [List.flatMap_cons, interleave]
    rw [pair_field_bits s ab.1 ab.2 (h ab (by simp)), ih (fun x hx => h x (by simp [hx]))]
    simp [interleave, List.flatMap_cons]

theorem zip_map_same {α β γ : Type} (f : α → β) (g : α → γ) : ∀ l : List α, List.zip (l.map f) (l.map g) = l.map fun x => (f x, g x)
  | [] => rfl
  | a :: l => by simp [zip_map_same f g l]

theorem zip_map_replicate {α β γ : Type} (f : α → β) (c : γ) : ∀ l : List α, List.zip (l.map f) (List.replicate l.length c) = l.map fun x => (f x, c)
  | [] => rfl
  | a :: l => by simp [List.replicate_succ, zip_map_replicate f c l]

end Sf.AlacCore
