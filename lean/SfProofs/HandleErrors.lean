/-
  Lemmas for C09: invalid calls fail cleanly, successful calls clear the error.
-/
import SfProofs.HandleSeek
namespace Sf

/-- the invalid-argument classes of the read wrappers (for `n ≠ 0`) -/
def ReadInvalid (h : H) (fc : Bool) (n : Int) : Prop :=
  n ≠ 0 ∧ (n < 0 ∨ h.mode = .w ∨ (fc = false ∧ n % (h.ch : Int) ≠ 0))

/-- the invalid-argument classes of the write wrappers (for `n ≠ 0`) -/
def WriteInvalid (h : H) (fc : Bool) (n : Int) : Prop :=
  n ≠ 0 ∧ (n < 0 ∨ h.mode = .r ∨ (fc = false ∧ n % (h.ch : Int) ≠ 0))

/-- the invalid-argument classes of `sf_seek`: unknown whence, a mode-qualified whence that contradicts the handle's
    mode, a target outside the file -/
def SeekInvalid (h : H) (off whence : Int) : Prop :=
  ¬ seekKnown whence ∨
  ((seekWm whence = 0x20 ∧ h.mode = .r) ∨ (seekWm whence = 0x10 ∧ h.mode = .w)) ∨
  (∃ b, seekBase h whence = some b ∧ ¬ seekIsTell h off whence ∧ (b + off < 0 ∨ (h.mode = .r ∧ b + off > h.frames)))

theorem read_invalid (h : H) (s : Store) (ty : Ty) (fc : Bool) (n : Int) (hv : ReadInvalid h fc n) :
    ∃ e, e ≠ 0 ∧ (stepRead h s ty fc n).1 = { h with error := e } ∧ (stepRead h s ty fc n).2.1 = s ∧
      (stepRead h s ty fc n).2.2.ret = 0 ∧ (stepRead h s ty fc n).2.2.err = e := by
  obtain ⟨h0, hc⟩ := hv
  by_cases hneg : n < 0
  · rw [stepRead_neg _ _ _ _ _ hneg]; exact ⟨E_NEG_LEN, by decide, rfl, rfl, rfl, rfl⟩
  have hn : 0 < n := by omega
  by_cases hw : h.mode = .w
  · rw [stepRead_wmode _ _ _ _ _ hn hw]; exact ⟨E_NOT_READMODE, by decide, rfl, rfl, rfl, rfl⟩
  rcases hc with x | x | ⟨hf, hna⟩
  · omega
  · exact absurd x hw
  · subst hf
    rw [stepRead_align _ _ _ _ hn hw hna]; exact ⟨E_BAD_ALIGN, by decide, rfl, rfl, rfl, rfl⟩

theorem write_invalid (h : H) (s : Store) (ty : Ty) (fc : Bool) (n : Int) (data : List Int) (hv : WriteInvalid h fc n) :
    ∃ e, e ≠ 0 ∧ (stepWrite h s ty fc n data).1 = { h with error := e } ∧ (stepWrite h s ty fc n data).2.1 = s ∧
      (stepWrite h s ty fc n data).2.2.ret = 0 ∧ (stepWrite h s ty fc n data).2.2.err = e := by
  obtain ⟨h0, hc⟩ := hv
  by_cases hneg : n < 0
  · rw [stepWrite_neg _ _ _ _ _ _ hneg]; exact ⟨E_NEG_LEN, by decide, rfl, rfl, rfl, rfl⟩
  have hn : 0 < n := by omega
  by_cases hr : h.mode = .r
  · rw [stepWrite_rmode _ _ _ _ _ _ hn hr]; exact ⟨E_NOT_WRITEMODE, by decide, rfl, rfl, rfl, rfl⟩
  rcases hc with x | x | ⟨hf, hna⟩
  · omega
  · exact absurd x hr
  · subst hf
    rw [stepWrite_align _ _ _ _ _ hn hr hna]; exact ⟨E_BAD_ALIGN, by decide, rfl, rfl, rfl, rfl⟩

theorem seekBase_none_of_unknown (h : H) (whence : Int) (hw : ¬ seekKnown whence) : seekBase h whence = none := by
  unfold seekKnown at hw
  simp only [not_or] at hw
  obtain ⟨a0, a1, a2, a3, a4, a5, a6, a7, a8, a9⟩ := hw
  simp [seekBase, a0, a1, a2, a3, a4, a5, a6, a7, a8, a9]

theorem seek_invalid (h : H) (s : Store) (off whence : Int) (hv : SeekInvalid h off whence) :
    ∃ e, e ≠ 0 ∧ stepSeek h s off whence = ({ h with error := e }, s, { ret := -1, err := e }) := by
  rcases stepSeek_cases h s off whence with ⟨e, he, eq⟩ | ⟨b, hb, ht, n1, n2, eq⟩ | ⟨b, hb, nt, h0, hfr, n1, n2, eq⟩
  · exact ⟨e, he, eq⟩
  · exfalso
    rcases hv with x | x | ⟨b', hb', nt, _⟩
    · rw [seekBase_none_of_unknown h whence x] at hb; contradiction
    · rcases x with x | x
      · exact n1 x
      · exact n2 x
    · exact nt ht
  · exfalso
    rcases hv with x | x | ⟨b', hb', _, hr⟩
    · rw [seekBase_none_of_unknown h whence x] at hb; contradiction
    · rcases x with x | x
      · exact n1 x
      · exact n2 x
    · rw [hb] at hb'; injection hb' with hb'; subst hb'
      rcases hr with x | ⟨hm, x⟩
      · omega
      · have := hfr hm; omega

/-- for `n ≠ 0` the wrappers clear the error field on entry: the previous error has no influence -/
theorem read_error_irrelevant (h : H) (s : Store) (ty : Ty) (fc : Bool) (n : Int) (e : Int) (hn : n ≠ 0) :
    stepRead { h with error := e } s ty fc n = stepRead h s ty fc n := by
  unfold stepRead
  simp only [beq_iff_eq, hn, if_false]

theorem write_error_irrelevant (h : H) (s : Store) (ty : Ty) (fc : Bool) (n : Int) (data : List Int) (e : Int)
    (hn : n ≠ 0) :
    stepWrite { h with error := e } s ty fc n data = stepWrite h s ty fc n data := by
  unfold stepWrite
  simp only [beq_iff_eq, hn, if_false]

theorem seek_error_irrelevant (h : H) (s : Store) (off whence : Int) (e : Int) :
    stepSeek { h with error := e } s off whence = stepSeek h s off whence := rfl

/-! ## sequences of invalid calls -/

/-- an operation that is an invalid call in state `h` (read / write / seek classes) -/
def OpInvalid (h : H) : Op → Prop
  | .read _ _ fc n => ReadInvalid h fc n
  | .write _ _ fc n _ => WriteInvalid h fc n
  | .seek _ off whence => SeekInvalid h off whence
  | _ => False

theorem OpInvalid_error (h : H) (e : Int) (op : Op) : OpInvalid { h with error := e } op ↔ OpInvalid h op := by
  cases op <;> exact Iff.rfl

theorem stepAny_invalid (h : H) (s : Store) (op : Op) (hv : OpInvalid h op) :
    ∃ e, e ≠ 0 ∧ (stepAny h s op).1 = { h with error := e } ∧ (stepAny h s op).2.1 = s := by
  cases op with
  | read _ ty fc n =>
    obtain ⟨e, he, e1, e2, _⟩ := read_invalid h s ty fc n hv
    exact ⟨e, he, e1, e2⟩
  | write _ ty fc n data =>
    obtain ⟨e, he, e1, e2, _⟩ := write_invalid h s ty fc n data hv
    exact ⟨e, he, e1, e2⟩
  | seek _ off whence =>
    obtain ⟨e, he, eq⟩ := seek_invalid h s off whence hv
    exact ⟨e, he, by show (stepSeek h s off whence).1 = _; rw [eq], by show (stepSeek h s off whence).2.1 = _; rw [eq]⟩
  | cmdFlag _ _ _ => exact absurd hv id
  | truncate _ _ => exact absurd hv id
  | close _ => exact absurd hv id

/-- any sequence of invalid calls leaves the handle unchanged up to the error field, and the store untouched -/
theorem invalid_ops_no_effect (ops : List Op) : ∀ (h : H) (s : Store), (∀ op ∈ ops, OpInvalid h op) →
    ∃ e, runOps h s ops = ({ h with error := e }, s) := by
  induction ops with
  | nil => intro h s _; exact ⟨h.error, rfl⟩
  | cons op ops ih =>
    intro h s hall
    obtain ⟨e, _, e1, e2⟩ := stepAny_invalid h s op (hall op (List.mem_cons_self ..))
    have hall' : ∀ op' ∈ ops, OpInvalid { h with error := e } op' :=
      fun op' hop => (OpInvalid_error h e op').mpr (hall op' (List.mem_cons_of_mem _ hop))
    obtain ⟨e', he'⟩ := ih { h with error := e } s hall'
    refine ⟨e', ?_⟩
    show runOps (stepAny h s op).1 (stepAny h s op).2.1 ops = _
    rw [e1, e2, he']

end Sf
