/-
  SfProofs.HandleGWrite — write-partition independence on the generic handle machine: two consecutive write calls are one
  call with the concatenated buffer (handle and store), for EVERY container record — no law is needed: the header rewrite
  in front of the first audio byte happens once in both runs, on the same state.
-/
import SfProofs.HandleGInv
import SfProofs.CodecStore
namespace Sf.HandleG
open Sf

theorem peakUpdate_of_none (h : H) (ty : Ty) (vals : List Int) (hp : h.peak = none) : peakUpdate h ty vals = none := by
  unfold peakUpdate; rw [hp]

theorem take_all (xs : List Int) (l : Int) (hx : (xs.length : Int) = l) : xs.take l.toNat = xs := by
  apply List.take_of_length_le; omega

/-- the codec write of `xs` then of `ys` = the codec write of `xs ++ ys` (no PEAK bookkeeping: integer PCM, µ-law, A-law,
    and float / double files opened SFM_RDWR) -/
theorem wBody_two (p : H × Store) (ty : Ty) (l1 l2 : Int) (xs ys : List Int)
    (hch : 0 < p.1.ch) (hx : (xs.length : Int) = l1) (hy : (ys.length : Int) = l2) (hd : l1 % p.1.ch = 0)
    (hp : p.1.peak = none) :
    wBody (wBody p ty l1 xs) ty l2 ys = wBody p ty (l1 + l2) (xs ++ ys) := by
  have hxy : ((xs ++ ys).length : Int) = l1 + l2 := by rw [List.length_append]; push_cast; omega
  have hdiv : (l1 + l2) / (p.1.ch : Int) = l1 / (p.1.ch : Int) + l2 / (p.1.ch : Int) :=
    Int.add_ediv_of_dvd_left (Int.dvd_of_emod_eq_zero hd)
  have hl1 : 0 ≤ l1 / (p.1.ch : Int) := Int.ediv_nonneg (by omega) (by omega)
  have hl2 : 0 ≤ l2 / (p.1.ch : Int) := Int.ediv_nonneg (by omega) (by omega)
  unfold wBody
  simp only [take_all xs l1 hx, take_all ys l2 hy, take_all (xs ++ ys) (l1 + l2) hxy]
  have e1 : peakUpdate { p.1 with haveWritten := true } ty xs = none := peakUpdate_of_none _ _ _ hp
  have e3 : peakUpdate { p.1 with haveWritten := true } ty (xs ++ ys) = none := peakUpdate_of_none _ _ _ hp
  rw [e1, e3]
  by_cases c1 : p.1.wpos + l1 / (p.1.ch : Int) > p.1.frames
  · simp only [c1, if_true]
    have e2 : ∀ (h' : H), h'.peak = none → peakUpdate h' ty ys = none := fun h' hh => peakUpdate_of_none _ _ _ hh
    rw [e2 _ rfl]
    have c3 : p.1.wpos + (l1 / (p.1.ch : Int) + l2 / (p.1.ch : Int)) > p.1.frames := by omega
    simp only [Store.write_write, Enc.encodeAll_append, hdiv, Int.add_assoc]
    by_cases c2 : p.1.wpos + (l1 / (p.1.ch : Int) + l2 / (p.1.ch : Int)) > p.1.wpos + l1 / (p.1.ch : Int)
    · simp only [c2, c3, if_true]
    · simp only [c2, c3, if_true, if_false]
      have : l2 / (p.1.ch : Int) = 0 := by omega
      simp only [this, Int.add_zero]
  · simp only [c1, if_false]
    have e2 : ∀ (h' : H), h'.peak = none → peakUpdate h' ty ys = none := fun h' hh => peakUpdate_of_none _ _ _ hh
    rw [e2 _ rfl]
    simp only [Store.write_write, Enc.encodeAll_append, hdiv, Int.add_assoc]

end Sf.HandleG
