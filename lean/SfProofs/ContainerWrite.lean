/-
  One write call, one header update, open and close in terms of the abstract session state (C04, C11).
-/
import SfProofs.ContainerSession
namespace Sf
set_option linter.unusedSimpArgs false

/-- a canonical handle carrying exactly the fields PEAK bookkeeping reads -/
def Cfg.protoH (c : Cfg) (a : Abs) : H :=
  { store := 0, mode := .w, container := c.container, enc := c.enc, big := c.big, ch := c.ch, sr := c.sr,
    fmtWord := c.fmtWord, frames := a.frames, wpos := a.frames, lastOp := .w, peak := a.peak }

/-- effect of an accepted write call with a non-zero count on the session -/
def Abs.writeNZ (c : Cfg) (a : Abs) (w : WCall) : Abs :=
  let vals := w.data.take (w.items c.ch)
  { a with frames := a.frames + w.frames c.ch, data := a.data ++ c.enc.encodeAll {} w.ty vals,
           peak := peakUpdate (c.protoH a) w.ty vals }

/-- effect of any accepted write call (a zero count returns before anything is touched) -/
def Abs.write (c : Cfg) (a : Abs) (w : WCall) : Abs := if w.n = 0 then a else a.writeNZ c w

theorem write_end (s : Store) (d : List Byte) (hp : s.pos = s.bytes.length) :
    (s.write d).bytes = s.bytes ++ d ∧ (s.write d).pos = s.bytes.length + d.length := by
  unfold Store.write
  cases d with
  | nil => simp [hp]
  | cons x xs => simp [hp, writeAt_end_ct]

theorem items_eq (w : WCall) (ch : Nat) (hch : 0 < ch) (hv : w.valid ch) :
    w.items ch = w.frames ch * ch ∧ ((if w.frameCall then w.n * ch else w.n) : Int) = (w.items ch : Nat) := by
  obtain ⟨h0, hal, _⟩ := hv
  obtain ⟨k, hk⟩ := Int.eq_ofNat_of_zero_le h0
  unfold WCall.frames WCall.items
  cases hf : w.frameCall with
  | true =>
    simp only [if_true, hk]
    have : ((k : Int) * (ch : Int)).toNat = k * ch := by rw [← Int.natCast_mul, Int.toNat_natCast]
    rw [this, Nat.mul_div_cancel _ hch]
    exact ⟨rfl, by simp⟩
  | false =>
    simp only [Bool.false_eq_true, if_false, hk]
    have h1 := hal hf
    rw [hk] at h1
    have h2 : k % ch = 0 := by exact_mod_cast h1
    simp only [Int.toNat_natCast]
    refine ⟨?_, trivial⟩
    have := Nat.div_add_mod' k ch
    omega

theorem writeBody_inv {c : Cfg} {a : Abs} {h : H} {s : Store} (i : Inv c a h s) (w : WCall) (hv : w.valid c.ch)
    (len : Int) (hlen : len = (w.items c.ch : Nat)) :
    Inv c (a.writeNZ c w) (writeBody h s w.ty len w.data).1 (writeBody h s w.ty len w.data).2 := by
  obtain ⟨hdr, hb, hl⟩ := i.bytes
  obtain ⟨hit, _⟩ := items_eq w c.ch i.chpos hv
  have hlt : len.toNat = w.items c.ch := by rw [hlen]; simp
  have hpk : peakUpdate h w.ty (w.data.take (w.items c.ch)) = peakUpdate (c.protoH a) w.ty (w.data.take (w.items c.ch)) :=
    peakUpdate_congr _ _ _ _ (by rw [i.peak]; rfl) (by rw [i.enc]; rfl) (by rw [i.conv]; rfl) (by rw [i.ch]; rfl) (by rw [i.wpos]; rfl)
  have hdiv : len / (h.ch : Int) = (w.frames c.ch : Nat) := by
    rw [hlen, i.ch, hit, Int.natCast_mul]; exact Int.mul_ediv_cancel _ (by have := i.chpos; omega)
  have hw := write_end s (c.enc.encodeAll {} w.ty (w.data.take (w.items c.ch))) i.pos
  have hvl : (w.data.take (w.items c.ch)).length = w.items c.ch := by
    rw [List.length_take]; exact Nat.min_eq_left hv.2.2
  constructor
  case bytes =>
    refine ⟨hdr, ?_, hl⟩
    simp only [writeBody, hw.1, hb, Abs.writeNZ, hlt, i.enc, i.conv, List.append_assoc]
  case pos =>
    simp only [writeBody, hlt, i.enc, i.conv, hw.2, hw.1, List.length_append]
  case dlen =>
    simp only [Abs.writeNZ, List.length_append, encodeAll_length, hvl, i.dlen, Cfg.bw]
    rw [hit, Nat.add_mul, Nat.mul_assoc, Nat.mul_comm c.ch, Nat.mul_comm c.enc.nbytes]
  case pkSome => simp only [Abs.writeNZ, peakUpdate_isSome]; exact i.pkSome
  case pkLen => simp only [Abs.writeNZ]; exact peakUpdate_length _ _ _ i.pkLen
  case chpos => exact i.chpos
  case peak => simp only [writeBody, hlt, Abs.writeNZ, ← hpk]; split <;> rfl
  case frames =>
    simp only [writeBody, Abs.writeNZ, hdiv, i.wpos, i.frames]
    split <;> simp_all <;> omega
  case wpos =>
    simp only [writeBody, Abs.writeNZ, hdiv, i.wpos, i.frames]
    split <;> simp_all
  case dend => simp only [writeBody]; split <;> simp [i.dend]
  all_goals (simp only [writeBody]; split <;> simp [i.mode, i.cont, i.enc, i.big, i.ch, i.sr, i.fmt, i.lastOp, i.auto, i.conv, i.doff, i.pas, Abs.writeNZ])

/-! ### fields the invariant does not mention -/

theorem Inv.setError {c : Cfg} {a : Abs} {h : H} {s : Store} (i : Inv c a h s) (e : Int) :
    Inv c a { h with error := e } s :=
  ⟨i.mode, i.cont, i.enc, i.big, i.ch, i.chpos, i.sr, i.fmt, i.frames, i.wpos, i.lastOp, i.auto, i.conv, i.doff, i.dend,
   i.peak, i.pas, i.bytes, i.pos, i.dlen, i.pkSome, i.pkLen⟩

theorem Inv.setWritten {c : Cfg} {a : Abs} {h : H} {s : Store} (i : Inv c a h s) (b : Bool) :
    Inv c a { h with haveWritten := b } s :=
  ⟨i.mode, i.cont, i.enc, i.big, i.ch, i.chpos, i.sr, i.fmt, i.frames, i.wpos, i.lastOp, i.auto, i.conv, i.doff, i.dend,
   i.peak, i.pas, i.bytes, i.pos, i.dlen, i.pkSome, i.pkLen⟩

theorem Inv.setAuto {c : Cfg} {a : Abs} {h : H} {s : Store} (i : Inv c a h s) (b : Bool) :
    Inv c { a with auto := b } { h with autoHeader := b } s :=
  ⟨i.mode, i.cont, i.enc, i.big, i.ch, i.chpos, i.sr, i.fmt, i.frames, i.wpos, i.lastOp, rfl, i.conv, i.doff, i.dend,
   i.peak, i.pas, i.bytes, i.pos, i.dlen, i.pkSome, i.pkLen⟩

theorem firstHdr_inv {c : Cfg} {a : Abs} {h : H} {s : Store} (i : Inv c a h s) :
    Inv c a (firstHdr h s).1 (firstHdr h s).2 := by
  unfold firstHdr; split
  · exact (writeHeader_inv i false).1
  · exact i

/-- the image of the store right after a header update: fresh header ++ data -/
def snapImage (c : Cfg) (a : Abs) : List Byte :=
  hdrBytes c a ((c.hdrLen + a.data.length : Nat) : Int) (a.data.length : Int) ++ a.data

theorem Inv.length {c : Cfg} {a : Abs} {h : H} {s : Store} (i : Inv c a h s) :
    s.bytes.length = c.hdrLen + a.data.length := by
  obtain ⟨hdr, hb, hl⟩ := i.bytes
  rw [hb, List.length_append, hl]

theorem updHdr_inv {c : Cfg} {a : Abs} {h : H} {s : Store} (i : Inv c a h s) :
    Inv c a (writeHeader h s true).1 (writeHeader h s true).2 ∧ (writeHeader h s true).2.bytes = snapImage c a := by
  have := writeHeader_inv i true
  refine ⟨this.1, ?_⟩
  rw [this.2.1, snapImage, i.length]; rfl

theorem autoHdr_inv {c : Cfg} {a : Abs} {h : H} {s : Store} (i : Inv c a h s) :
    Inv c a (autoHdr h s).1 (autoHdr h s).2 ∧
    (a.auto = true → (autoHdr h s).2.bytes = snapImage c a) := by
  unfold autoHdr
  by_cases hr : c.container = .raw
  · -- RAW has no header: the store is the data
    have hcont : h.container = .raw := by rw [i.cont, hr]
    simp only [hcont, bne_self_eq_false, Bool.false_eq_true, and_false, if_false]
    refine ⟨i, fun _ => ?_⟩
    obtain ⟨hdr, hb, hl⟩ := i.bytes
    have : hdr = [] := by
      have : c.hdrLen = 0 := by simp [Cfg.hdrLen, hr]
      rw [this] at hl; exact List.eq_nil_of_length_eq_zero hl
    simp [snapImage, hdrBytes, hr, hb, this]
  · have hcont : (h.container != .raw) = true := by rw [i.cont]; simpa using hr
    cases ha : a.auto with
    | true =>
      have : h.autoHeader = true := by rw [i.auto, ha]
      simp only [this, hcont, and_self, if_true]
      exact ⟨(updHdr_inv i).1, fun _ => (updHdr_inv i).2⟩
    | false =>
      have : h.autoHeader = false := by rw [i.auto, ha]
      simp only [this, Bool.false_eq_true, false_and, if_false]
      exact ⟨i, fun h => by cases h⟩

theorem writeCore_inv {c : Cfg} {a : Abs} {h : H} {s : Store} (i : Inv c a h s) (w : WCall) (hv : w.valid c.ch) :
    Inv c (a.writeNZ c w) (writeCore h s w.ty w.frameCall w.n w.data).1 (writeCore h s w.ty w.frameCall w.n w.data).2 ∧
    (a.auto = true → (writeCore h s w.ty w.frameCall w.n w.data).2.bytes = snapImage c (a.writeNZ c w)) := by
  unfold writeCore
  have i1 := (firstHdr_inv (i.setError 0)).setWritten true
  have hlen : (if w.frameCall then w.n * (h.ch : Int) else w.n) = (w.items c.ch : Nat) := by
    rw [i.ch]; exact (items_eq w c.ch i.chpos hv).2
  have i2 := writeBody_inv i1 w hv _ hlen
  exact autoHdr_inv i2

/-! ### sessions -/

/-- the operations of a write session: write calls, SFC_UPDATE_HEADER_NOW, SFC_SET_UPDATE_HEADER_AUTO -/
inductive SOp
  | write (w : WCall)
  | update
  | auto (b : Bool)

def stepS (hs : H × Store) : SOp → H × Store
  | .write w => let r := stepWrite hs.1 hs.2 w.ty w.frameCall w.n w.data; (r.1, r.2.1)
  | .update => let r := stepCmdFlag hs.1 hs.2 0x1060 0; (r.1, r.2.1)
  | .auto b => let r := stepCmdFlag hs.1 hs.2 0x1061 (if b then 1 else 0); (r.1, r.2.1)

def runS (hs : H × Store) (ops : List SOp) : H × Store := ops.foldl stepS hs

def SOp.valid (ch : Nat) : SOp → Prop
  | .write w => w.valid ch
  | _ => True

def Abs.step (c : Cfg) (a : Abs) : SOp → Abs
  | .write w => a.write c w
  | .update => a
  | .auto b => { a with auto := b }

def Abs.run (c : Cfg) (a : Abs) (ops : List SOp) : Abs := ops.foldl (Abs.step c) a

theorem stepWrite_inv {c : Cfg} {a : Abs} {h : H} {s : Store} (i : Inv c a h s) (w : WCall) (hv : w.valid c.ch) :
    Inv c (a.write c w) (stepS (h, s) (.write w)).1 (stepS (h, s) (.write w)).2 ∧
    (a.auto = true → w.n ≠ 0 → (stepS (h, s) (.write w)).2.bytes = snapImage c (a.write c w)) := by
  unfold Abs.write stepS
  by_cases hn : w.n = 0
  · simp [hn, stepWrite]; exact i
  · have hpos : 0 < w.n := by have := hv.1; omega
    have e := stepWrite_eq h s w.ty w.frameCall w.n w.data hpos i.mode i.lastOp (by rw [i.ch]; exact hv.2.1)
    simp only [hn, if_false]
    have e1 := congrArg Prod.fst e
    have e2 := congrArg Prod.snd e
    simp only at e1 e2
    rw [e1, e2]
    have := writeCore_inv i w hv
    exact ⟨this.1, fun ha _ => this.2 ha⟩

theorem stepUpdate_inv {c : Cfg} {a : Abs} {h : H} {s : Store} (i : Inv c a h s) :
    Inv c a (stepS (h, s) .update).1 (stepS (h, s) .update).2 ∧ (stepS (h, s) .update).2.bytes = snapImage c a := by
  have i0 := i.setError 0
  by_cases hr : c.container = .raw
  · have hcont : h.container = .raw := by rw [i.cont, hr]
    have e : stepS (h, s) .update = ({ h with error := 0 }, s) := by simp [stepS, stepCmdFlag, hcont]
    rw [e]; refine ⟨i0, ?_⟩
    obtain ⟨hdr, hb, hl⟩ := i.bytes
    have : hdr = [] := by
      have : c.hdrLen = 0 := by simp [Cfg.hdrLen, hr]
      rw [this] at hl; exact List.eq_nil_of_length_eq_zero hl
    simp [snapImage, hdrBytes, hr, hb, this]
  · have hcont : h.container ≠ .raw := by rw [i.cont]; exact hr
    have e : stepS (h, s) .update = writeHeader { h with error := 0 } s true := by
      simp [stepS, stepCmdFlag, hcont, i.mode]
    rw [e]; exact updHdr_inv i0

theorem stepAuto_inv {c : Cfg} {a : Abs} {h : H} {s : Store} (i : Inv c a h s) (b : Bool) :
    Inv c { a with auto := b } (stepS (h, s) (.auto b)).1 (stepS (h, s) (.auto b)).2 := by
  have e : stepS (h, s) (.auto b) = ({ h with error := 0, autoHeader := b }, s) := by
    cases b <;> simp [stepS, stepCmdFlag]
  rw [e]; exact (i.setError 0).setAuto b

theorem stepS_inv {c : Cfg} {a : Abs} {h : H} {s : Store} (i : Inv c a h s) (op : SOp) (hv : op.valid c.ch) :
    Inv c (a.step c op) (stepS (h, s) op).1 (stepS (h, s) op).2 := by
  cases op with
  | write w => exact (stepWrite_inv i w hv).1
  | update => exact (stepUpdate_inv i).1
  | auto b => exact stepAuto_inv i b

theorem runS_inv {c : Cfg} (ops : List SOp) : ∀ {a : Abs} {h : H} {s : Store}, Inv c a h s → (∀ op ∈ ops, op.valid c.ch) →
    Inv c (a.run c ops) (runS (h, s) ops).1 (runS (h, s) ops).2 := by
  induction ops with
  | nil => intro a h s i _; exact i
  | cons op ops ih =>
    intro a h s i hv
    have i1 := stepS_inv i op (hv op (by simp))
    exact ih i1 (fun o ho => hv o (by simp [ho]))

end Sf
