/-
  SfProofs.CodecWriter — the appending writer: a handle opened for write that is only written to
  (`stepWrite`, SFC_UPDATE_HEADER_NOW) keeps the store in the shape  header ++ data,  and the closed file is a
  function of the open parameters, the data bytes and the PEAK state alone.
-/
import SfModel.Handle
import SfProofs.Bytes
import SfProofs.Codec
import SfProofs.CodecStore
namespace Sf

/-! ## the header as a function of the handle -/

def hdrOf (h : H) : List Byte :=
  match h.container with
  | .raw => []
  | .au => auHeader h
  | .wav => wavHeader h

def hdrLenOf (h : H) : Nat :=
  match h.container with
  | .raw => 0
  | .au => 24
  | .wav => wavHdrLen h

theorem hdrOf_length (h : H) : (hdrOf h).length = hdrLenOf h := by
  unfold hdrOf hdrLenOf
  cases h.container <;> simp [auHeader_length, wavHeader_length]

/-- the handle after `xxx_write_header (psf, calc_length)` when the file is `fl` bytes long (first component of `writeHeader`) -/
def recalc (h : H) (fl : Nat) (cl : Bool) : H :=
  match h.container with
  | .raw => h
  | .au =>
    let h1 := if cl then
        { h with filelength := fl,
                 datalength := if h.dataend != 0 then ((fl : Int) - h.dataoffset) - ((fl : Int) - h.dataend) else (fl : Int) - h.dataoffset }
      else h
    { h1 with dataoffset := 24 }
  | .wav =>
    let h1 := if cl then
        { h with filelength := fl,
                 datalength := if h.dataend != 0 then ((fl : Int) - h.dataoffset) - ((fl : Int) - h.dataend) else h.frames * h.nb * h.ch }
      else h
    { h1 with dataoffset := (wavHeader h1).length }

theorem writeHeader_fst_cw (h : H) (s : Store) (cl : Bool) : (writeHeader h s cl).1 = recalc h s.bytes.length cl := by
  unfold writeHeader recalc
  cases h.container <;> cases cl <;> simp

theorem wavHdrLen_congr (h h' : H) (h1 : h'.fmtWord = h.fmtWord) (h2 : h'.peak.map List.length = h.peak.map List.length)
    (h3 : h'.peakAtStart = h.peakAtStart) :
    wavHdrLen h' = wavHdrLen h := by
  unfold wavHdrLen; rw [h1, h2, h3]

/-! headers in terms of the fields they read (so that equal fields give equal headers by `simp`) -/

def auHdr (big : Bool) (datalength : Int) (fmtWord : Nat) (sr : Int) (ch : Nat) : List Byte :=
  let dl : Int := if datalength < 0 ∨ datalength > 0x7FFFFFFF then -1 else datalength
  (if big then marker ".snd" else marker "dns.") ++ u32 big 24 ++ u32 big dl ++
    u32 big (auEncoding (codecOf fmtWord)) ++ u32 big sr ++ u32 big ch

theorem auHeader_eq (h : H) : auHeader h = auHdr h.big h.datalength h.fmtWord h.sr h.ch := rfl

def pkChunk (big : Bool) (ch : Nat) (ps : List Peak) : List Byte :=
  marker "PEAK" ++ u32 big (8 + 8 * ch) ++ u32 big 1 ++ u32 big 1000000000 ++
    ps.flatMap fun p => u32 big (wrF32 (Float.f64to32 p.value)) ++ u32 big p.position

theorem peakChunk_eq (h : H) (ps : List Peak) : peakChunk h ps = pkChunk h.big h.ch ps := rfl

def wavHdr (b : Bool) (filelength : Int) (nb ch : Nat) (sr frames : Int) (pk : Option (List Peak)) (peakAtStart : Bool)
    (datalength : Int) (fmtWord : Nat) : List Byte :=
  let codec := codecOf fmtWord
  let riffLen : Int := if filelength < 8 then 8 else (if filelength - 8 < 0xFFFFFFFF then filelength - 8 else 0xFFFFFFFF)
  let bwid : Int := nb
  let fmtBody := u16 b (wavFormatTag codec) ++ u16 b ch ++ u32 b sr ++ u32 b (sr * bwid * ch) ++
                 u16 b (bwid * ch) ++ u16 b (if codec == 0x10 || codec == 0x11 then 8 else bwid * 8)
  let fmtChunk := if codec == 0x10 || codec == 0x11 then u32 b 18 ++ fmtBody ++ u16 b 0 else u32 b 16 ++ fmtBody
  let fact := if hasFact codec then marker "fact" ++ u32 b 4 ++ u32 b frames else []
  let peak := match pk with
    | some ps => if peakAtStart then pkChunk b ch ps else []
    | none => []
  let dlen : Int := if datalength < 0xFFFFFFFF then datalength else 0xFFFFFFFF
  (if b then marker "RIFX" else marker "RIFF") ++ u32 b riffLen ++ marker "WAVE" ++ marker "fmt " ++ fmtChunk ++
    fact ++ peak ++ marker "data" ++ u32 b dlen

theorem wavHeader_eq (h : H) :
    wavHeader h = wavHdr h.big h.filelength h.enc.nbytes h.ch h.sr h.frames h.peak h.peakAtStart h.datalength h.fmtWord := rfl

@[simp] theorem recalc_store (h : H) (fl : Nat) (cl : Bool) : (recalc h fl cl).store = h.store := by
  unfold recalc; split <;> cases cl <;> rfl
@[simp] theorem recalc_mode (h : H) (fl : Nat) (cl : Bool) : (recalc h fl cl).mode = h.mode := by
  unfold recalc; split <;> cases cl <;> rfl
@[simp] theorem recalc_container (h : H) (fl : Nat) (cl : Bool) : (recalc h fl cl).container = h.container := by
  unfold recalc; split <;> cases cl <;> rfl
@[simp] theorem recalc_enc (h : H) (fl : Nat) (cl : Bool) : (recalc h fl cl).enc = h.enc := by
  unfold recalc; split <;> cases cl <;> rfl
@[simp] theorem recalc_big (h : H) (fl : Nat) (cl : Bool) : (recalc h fl cl).big = h.big := by
  unfold recalc; split <;> cases cl <;> rfl
@[simp] theorem recalc_ch (h : H) (fl : Nat) (cl : Bool) : (recalc h fl cl).ch = h.ch := by
  unfold recalc; split <;> cases cl <;> rfl
@[simp] theorem recalc_sr (h : H) (fl : Nat) (cl : Bool) : (recalc h fl cl).sr = h.sr := by
  unfold recalc; split <;> cases cl <;> rfl
@[simp] theorem recalc_fmtWord (h : H) (fl : Nat) (cl : Bool) : (recalc h fl cl).fmtWord = h.fmtWord := by
  unfold recalc; split <;> cases cl <;> rfl
@[simp] theorem recalc_frames (h : H) (fl : Nat) (cl : Bool) : (recalc h fl cl).frames = h.frames := by
  unfold recalc; split <;> cases cl <;> rfl
@[simp] theorem recalc_rpos (h : H) (fl : Nat) (cl : Bool) : (recalc h fl cl).rpos = h.rpos := by
  unfold recalc; split <;> cases cl <;> rfl
@[simp] theorem recalc_wpos (h : H) (fl : Nat) (cl : Bool) : (recalc h fl cl).wpos = h.wpos := by
  unfold recalc; split <;> cases cl <;> rfl
@[simp] theorem recalc_lastOp (h : H) (fl : Nat) (cl : Bool) : (recalc h fl cl).lastOp = h.lastOp := by
  unfold recalc; split <;> cases cl <;> rfl
@[simp] theorem recalc_haveWritten (h : H) (fl : Nat) (cl : Bool) : (recalc h fl cl).haveWritten = h.haveWritten := by
  unfold recalc; split <;> cases cl <;> rfl
@[simp] theorem recalc_autoHeader (h : H) (fl : Nat) (cl : Bool) : (recalc h fl cl).autoHeader = h.autoHeader := by
  unfold recalc; split <;> cases cl <;> rfl
@[simp] theorem recalc_error (h : H) (fl : Nat) (cl : Bool) : (recalc h fl cl).error = h.error := by
  unfold recalc; split <;> cases cl <;> rfl
@[simp] theorem recalc_conv (h : H) (fl : Nat) (cl : Bool) : (recalc h fl cl).conv = h.conv := by
  unfold recalc; split <;> cases cl <;> rfl
@[simp] theorem recalc_dataend (h : H) (fl : Nat) (cl : Bool) : (recalc h fl cl).dataend = h.dataend := by
  unfold recalc; split <;> cases cl <;> rfl
@[simp] theorem recalc_peak (h : H) (fl : Nat) (cl : Bool) : (recalc h fl cl).peak = h.peak := by
  unfold recalc; split <;> cases cl <;> rfl
@[simp] theorem recalc_peakAtStart (h : H) (fl : Nat) (cl : Bool) : (recalc h fl cl).peakAtStart = h.peakAtStart := by
  unfold recalc; split <;> cases cl <;> rfl
@[simp] theorem recalc_canTruncate (h : H) (fl : Nat) (cl : Bool) : (recalc h fl cl).canTruncate = h.canTruncate := by
  unfold recalc; split <;> cases cl <;> rfl

theorem recalc_filelength (h : H) (fl : Nat) (cl : Bool) :
    (recalc h fl cl).filelength = if cl = true ∧ h.container ≠ .raw then (fl : Int) else h.filelength := by
  unfold recalc; split <;> cases cl <;> simp_all

theorem recalc_dataoffset (h : H) (fl : Nat) (cl : Bool) :
    (recalc h fl cl).dataoffset = match h.container with
      | .raw => h.dataoffset | .au => 24 | .wav => (wavHdrLen h : Int) := by
  unfold recalc
  split <;> cases cl <;> simp_all [wavHeader_length] <;> exact congrArg Nat.cast (wavHdrLen_congr _ h rfl rfl rfl)

theorem recalc_datalength (h : H) (fl : Nat) (cl : Bool) :
    (recalc h fl cl).datalength =
      if cl = true ∧ h.container ≠ .raw then
        (if h.dataend != 0 then ((fl : Int) - h.dataoffset) - ((fl : Int) - h.dataend)
         else if h.container = .au then (fl : Int) - h.dataoffset else h.frames * h.nb * h.ch)
      else h.datalength := by
  unfold recalc; split <;> cases cl <;> simp_all

theorem Store.write_at0 (s : Store) (hdr hdr' body : List Byte) (hb : s.bytes = hdr ++ body)
    (hlen : hdr'.length = hdr.length) :
    (s.seekSet 0).write hdr' = { bytes := hdr' ++ body, pos := hdr'.length } := by
  unfold Store.write Store.seekSet
  cases hdr' with
  | nil =>
    have : hdr = [] := by cases hdr <;> simp_all
    simp [hb, this]
  | cons x t =>
    simp only [List.isEmpty_cons, Bool.false_eq_true, if_false, hb, Nat.zero_add]
    rw [writeAt_zero_prefix hdr (x :: t) body hlen]

theorem recalc_hdrLen (h : H) (fl : Nat) (cl : Bool) : hdrLenOf (recalc h fl cl) = hdrLenOf h := by
  unfold recalc hdrLenOf
  cases hc : h.container <;> cases cl <;> simp [hc] <;> exact wavHdrLen_congr _ _ rfl rfl rfl

theorem hdrOf_recalc (h : H) (fl : Nat) (cl : Bool) :
    hdrOf (recalc h fl cl) = match h.container with
      | .raw => []
      | .au => auHdr h.big (recalc h fl cl).datalength h.fmtWord h.sr h.ch
      | .wav => wavHdr h.big (recalc h fl cl).filelength h.enc.nbytes h.ch h.sr h.frames h.peak h.peakAtStart
                  (recalc h fl cl).datalength h.fmtWord := by
  unfold hdrOf
  rw [recalc_container]
  split <;> simp [auHeader_eq, wavHeader_eq]

/-- second component of `writeHeader` when the store is `header ++ body` and the position is not inside the header -/
theorem writeHeader_snd (h : H) (s : Store) (cl : Bool) (hdr body : List Byte) (hb : s.bytes = hdr ++ body)
    (hl : hdr.length = hdrLenOf h) (hd : h.dataoffset = hdrLenOf h) (hpos : hdrLenOf h ≤ s.pos) :
    (writeHeader h s cl).2 = { bytes := hdrOf (recalc h s.bytes.length cl) ++ body, pos := s.pos } := by
  rw [hdrOf_recalc]
  cases hc : h.container with
  | raw =>
    have h0 : hdrLenOf h = 0 := by simp [hdrLenOf, hc]
    have : hdr = [] := by
      rw [h0] at hl
      exact List.eq_nil_of_length_eq_zero hl
    subst this
    cases s
    simp_all [writeHeader]
  | au =>
    have hlen : hdrLenOf h = 24 := by simp [hdrLenOf, hc]
    unfold writeHeader
    simp only [hc]
    rw [Store.write_at0 s hdr _ body hb (by rw [auHeader_length, hl, hlen])]
    have : s.pos > 0 := by omega
    simp only [this, if_true, Store.seekSet, auHeader_eq]
    cases cl <;> simp [recalc_datalength, hc]
  | wav =>
    have hlen : hdrLenOf h = wavHdrLen h := by simp [hdrLenOf, hc]
    unfold writeHeader
    simp only [hc]
    rw [Store.write_at0 s hdr _ body hb (by
      rw [wavHeader_length, hl, hlen]; cases cl <;> simp <;> exact wavHdrLen_congr _ h rfl rfl rfl)]
    have hwl : ∀ h1 : H, h1.fmtWord = h.fmtWord → h1.peak = h.peak → h1.peakAtStart = h.peakAtStart →
        (wavHeader h1).length = hdrLenOf h := by
      intro h1 a b c; rw [wavHeader_length, hlen]; exact wavHdrLen_congr _ _ a (by rw [b]) c
    by_cases hp : (s.pos : Int) > h.dataoffset
    · have : s.pos > 0 := by omega
      simp only [hp, this, decide_true, Bool.not_true, Bool.false_eq_true, if_false, if_true, Store.seekSet, wavHeader_eq]
      cases cl <;> simp [recalc_datalength, recalc_filelength, hc, H.nb]
    · have hp' : s.pos = hdrLenOf h := by omega
      simp only [hp, decide_false, Bool.not_false, if_true, Store.seekSet]
      rw [hwl _ (by cases cl <;> rfl) (by cases cl <;> rfl) (by cases cl <;> rfl), ← hp']
      simp only [wavHeader_eq]
      cases cl <;> simp [recalc_datalength, recalc_filelength, hc, H.nb]

/-! ## `stepWrite` in three phases -/

attribute [ext] H

/-- PEAK bookkeeping in terms of the fields it reads -/
def peakUpd (pk : Option (List Peak)) (enc : Enc) (conv : Conv) (ch : Nat) (wpos : Int) (ty : Ty) (vals : List Int) :
    Option (List Peak) :=
  peakUpdate { store := 0, mode := .w, container := .wav, enc := enc, big := false, ch := ch, sr := 0, fmtWord := 0,
               frames := 0, lastOp := .w, peak := pk, conv := conv, wpos := wpos } ty vals

theorem peakUpdate_eq (h : H) (ty : Ty) (vals : List Int) :
    peakUpdate h ty vals = peakUpd h.peak h.enc h.conv h.ch h.wpos ty vals := rfl

/-- before the samples: clear the error, write the header if this is the first write -/
def wPre_cw (h : H) (s : Store) : H × Store :=
  let h := { h with error := 0 }
  let r := if !h.haveWritten ∧ h.container != .raw then writeHeader h s false else (h, s)
  ({ r.1 with haveWritten := true }, r.2)

/-- the samples: PEAK bookkeeping, encode, store, advance -/
def wCore_cw (h : H) (s : Store) (ty : Ty) (vals : List Int) : H × Store :=
  let wpos := h.wpos + (vals.length : Int) / h.ch
  let h3 := { h with wpos := wpos, lastOp := Mode.w, peak := peakUpdate h ty vals }
  (if wpos > h3.frames then { h3 with frames := wpos, dataend := 0 } else h3,
   s.write (h.enc.encodeAll h.conv ty vals))

/-- after the samples: SFC_SET_UPDATE_HEADER_AUTO -/
def wPost (h : H) (s : Store) : H × Store :=
  if h.autoHeader ∧ h.container != .raw then writeHeader h s true else (h, s)

def callLen (h : H) (fc : Bool) (n : Int) : Int := if fc then n * h.ch else n

/-- a well-formed, non-empty write call: positive count, whole frames, a buffer of exactly that many items -/
structure ValidW (h : H) (fc : Bool) (n : Int) (data : List Int) : Prop where
  pos : 0 < n
  align : fc = false → n % h.ch = 0
  len : (data.length : Int) = callLen h fc n

theorem wPre_ch (h : H) (s : Store) : (wPre_cw h s).1.ch = h.ch := by
  unfold wPre_cw
  simp only []
  split <;> simp [writeHeader_fst_cw]

theorem wCore_ch (h : H) (s : Store) (ty : Ty) (vals : List Int) : (wCore_cw h s ty vals).1.ch = h.ch := by
  unfold wCore_cw
  simp only []
  split <;> rfl

theorem wPost_ch (h : H) (s : Store) : (wPost h s).1.ch = h.ch := by
  unfold wPost
  split <;> simp [writeHeader_fst_cw]

theorem stepWrite_phases (h : H) (s : Store) (ty : Ty) (fc : Bool) (n : Int) (data : List Int)
    (hch : 0 < h.ch) (hmode : h.mode ≠ .r) (hlast : h.lastOp = .w) (v : ValidW h fc n data) :
    stepWrite h s ty fc n data =
      (let a := wPre_cw h s
       let b := wCore_cw a.1 a.2 ty data
       let c := wPost b.1 b.2
       (c.1, c.2, { ret := n, err := 0 })) := by
  obtain ⟨hn, hal, hlen⟩ := v
  have h1 : (n == 0) = false := by simp; omega
  have h2 : ¬ n < 0 := by omega
  have h3 : (h.mode == Mode.r) = false := by simp [hmode]
  have h4 : ¬ ((!fc) = true ∧ (callLen h fc n % ↑h.ch != 0) = true) := by
    unfold callLen
    cases fc <;> simp
    exact hal rfl
  unfold stepWrite
  rw [if_neg (by simp [h1])]
  extract_lets hE len s0 vals count a b c
  rw [if_neg h2, if_neg (by simpa [hE] using hmode), if_neg (by simpa [hE, len, callLen] using h4)]
  have hs0 : s0 = s := by simp [s0, hE, hlast]
  have hlen' : len = callLen h fc n := rfl
  have hvals : vals = data := by
    apply List.take_of_length_le
    omega
  rw [hs0, hvals]
  have hc : count = (data.length : Int) := by rw [hlen]; rfl
  rw [hc]
  refine Eq.trans (b := (c.1, c.2, ({ ret := if fc = true then (data.length : Int) / (c.1.ch : Int) else (data.length : Int), err := 0 } : Out))) rfl ?_
  have hcc : c.1.ch = h.ch := by
    simp only [c, b, a, wPost_ch, wCore_ch, wPre_ch]
  rw [hcc, hlen]
  unfold callLen
  have : (h.ch : Int) ≠ 0 := by omega
  cases fc <;> simp [Int.mul_ediv_cancel _ this]

/-! ## PEAK bookkeeping keeps one entry per channel -/

theorem peakChunkUpdate_length (f : Float.Fmt) (ch : Nat) (wcur indx : Int) (vals : List Nat) (ps : List Peak) :
    (peakChunkUpdate f ch wcur indx vals ps).length = ch := by
  simp [peakChunkUpdate]

theorem peakUpdate_none (h : H) (ty : Ty) (vals : List Int) (hp : h.peak = none) : peakUpdate h ty vals = none := by
  simp [peakUpdate, hp]

theorem peakUpdate_some (h : H) (ty : Ty) (vals : List Int) (ps : List Peak) (hp : h.peak = some ps)
    (hl : ps.length = h.ch) : ∃ ps', peakUpdate h ty vals = some ps' ∧ ps'.length = h.ch := by
  unfold peakUpdate
  simp only [hp]
  refine ⟨_, rfl, ?_⟩
  clear hp
  generalize (0 : Nat) = k
  generalize chunksOf _ _ = cs
  induction cs generalizing ps k with
  | nil => simpa using hl
  | cons c cs ih =>
    rw [List.foldl_cons]
    exact ih _ (peakChunkUpdate_length _ _ _ _ _ _) _

end Sf
