/-
  SfProofs.AbsWriteBridgeSmall2 — containers built on the session machine of SfModel/Small2.lean (HTK, WVE, MPC2K, PVF,
  MAT4; NIST / VOC / XI / MAT5 use the same machine with their own open state and close function) as `Cont`s of the
  write-side bridge: `small2Cont`, and `laws_of_small2` — the `Laws` from the facts every lean/SfProps/C04<Container>.lean
  proves (`Small2Facts`: the update image is header ++ audio, the closed file is the update image, the image parses with
  the requested parameters and D / bw frames, the image is a function of the audio bytes).
-/
import SfProofs.AbsWriteBridgeSmallRun
namespace Sf.AbsWriteBridge.Small
open Sf Sf.AbsWrite Sf.AbsWriteBridge Sf.Geometry

/-- a Small2-machine container as a `Cont` -/
def small2Cont (F : Small2.Fmt) (parse : List Byte → Small2.ParseRes) (g : AbsWrite.Geom) (enc : Enc) : Cont :=
  { g := g, enc := enc, L := F.hdrLen, closed := Small2.closedBytes F,
    store := fun st ops => (Small2.run F (Small2.openW F st) ops).bytes, parse := parse }

theorem opsData_append : ∀ (xs ys : List Small2.WOp), Small2.opsData (xs ++ ys) = Small2.opsData xs ++ Small2.opsData ys
  | [], _ => rfl
  | .write _ _ :: xs, ys => by simp [Small2.opsData, opsData_append xs ys]
  | .update :: xs, ys => by simp [Small2.opsData, opsData_append xs ys]

/-- the store right after SFC_UPDATE_HEADER_NOW is the update image of what came before -/
theorem store_update (F : Small2.Fmt) (st : Nat) (w : List Small2.WOp) :
    (Small2.run F (Small2.openW F st) (w ++ [.update])).bytes = Small2.snapshotBytes F st w := by
  simp [Small2.run, Small2.snapshotBytes, List.foldl_append, Small2.stepOp]

/-- the store right after a write call in auto mode is the update image of the same calls made without auto mode -/
theorem store_autowrite (F : Small2.Fmt) (st : Nat) (w : List Small2.WOp) (enc : List Byte) :
    (Small2.run F (Small2.openW F st) (w ++ [.write enc true])).bytes = Small2.snapshotBytes F st (w ++ [.write enc false]) := by
  simp [Small2.run, Small2.snapshotBytes, List.foldl_append, Small2.stepOp, Small2.write, Small2.update]

structure Small2Facts (F : Small2.Fmt) (parse : List Byte → Small2.ParseRes) (g : AbsWrite.Geom) (enc : Enc)
    (G : List Small2.WOp → Prop) : Prop where
  chpos : 0 < g.ch
  nb : 0 < enc.nbytes
  wf : enc.wf
  block : g.block = 1
  notRaw : g.major ≠ 0x04
  codec : ∃ big, encOf .raw g.codec big = some enc
  snapForm : ∀ st ops, ∃ hdr, hdr.length = F.hdrLen ∧ Small2.snapshotBytes F st ops = hdr ++ Small2.opsData ops
  closedIsSnap : ∀ st ops, Small2.closedBytes F st ops = Small2.snapshotBytes F st ops
  snapFn : ∀ a b ops ops', Small2.opsData ops = Small2.opsData ops' → Small2.snapshotBytes F a ops = Small2.snapshotBytes F b ops'
  snapParse : ∀ st ops, G ops → ∃ i, parse (Small2.snapshotBytes F st ops) = .ok i ∧
    i.frames = (Small2.opsData ops).length / (enc.nbytes * g.ch) ∧ i.ch = g.ch ∧
    i.fmt % 0x10000000 = g.word % 0x10000000 ∧ rateOk g.major g.sr (i.sr : Int) = true
  Gdata : ∀ a b, Small2.opsData a = Small2.opsData b → G a → G b

theorem laws_of_small2 {F : Small2.Fmt} {parse : List Byte → Small2.ParseRes} {g : AbsWrite.Geom} {enc : Enc}
    {G : List Small2.WOp → Prop} (X : Small2Facts F parse g enc G) : Laws (small2Cont F parse g enc) G := by
  -- the store after an operation list that ends in a rewrite is an update image with the same audio
  have hstore : ∀ st ops, EndsInRewrite ops → ∃ ops', (Small2.run F (Small2.openW F st) ops).bytes = Small2.snapshotBytes F st ops' ∧
      Small2.opsData ops' = Small2.opsData ops := by
    intro st ops ⟨w, x, e, hx⟩
    subst e
    rcases hx with rfl | ⟨enc', rfl⟩
    · exact ⟨w, store_update F st w, by simp [opsData_append, Small2.opsData]⟩
    · exact ⟨w ++ [.write enc' false], store_autowrite F st w enc', by simp [opsData_append, Small2.opsData]⟩
  refine { chpos := X.chpos, nb := X.nb, wf := X.wf, block := X.block, notRaw := X.notRaw, codec := X.codec,
           closedForm := ?_, closedParse := ?_, closedFn := ?_, storeForm := ?_, storeParse := ?_ }
  · intro st ops _
    obtain ⟨hdr, h1, h2⟩ := X.snapForm st ops
    exact ⟨hdr, [], h1, by show Small2.closedBytes F st ops = _; rw [X.closedIsSnap, h2]; simp⟩
  · intro st ops hg
    obtain ⟨i, h1, h2, h3, h4, h5⟩ := X.snapParse st ops hg
    exact ⟨i, by show parse (Small2.closedBytes F st ops) = _; rw [X.closedIsSnap]; exact h1, h2, h3, h4, h5⟩
  · intro a b ops ops' h
    show Small2.closedBytes F a ops = Small2.closedBytes F b ops'
    rw [X.closedIsSnap, X.closedIsSnap]; exact X.snapFn a b ops ops' h
  · intro st ops _ he
    obtain ⟨ops', e1, e2⟩ := hstore st ops he
    obtain ⟨hdr, h1, h2⟩ := X.snapForm st ops'
    exact ⟨hdr, [], h1, by show (Small2.run F (Small2.openW F st) ops).bytes = _; rw [e1, h2, e2]; simp⟩
  · intro st ops hg he
    obtain ⟨ops', e1, e2⟩ := hstore st ops he
    obtain ⟨i, h1, h2, h3, h4, _⟩ := X.snapParse st ops' (X.Gdata ops ops' e2.symm hg)
    exact ⟨i, by show parse (Small2.run F (Small2.openW F st) ops).bytes = _; rw [e1]; exact h1, by rw [h2, e2]; rfl, h3, h4⟩

/-- facts of the session machine alone, for a lawful container whose close function rewrites the header -/
theorem small2_machine_facts (F : Small2.Fmt) (L : Small2.Lawful F) (hc : F.closeRewrites = true) :
    (∀ st ops, ∃ hdr, hdr.length = F.hdrLen ∧ Small2.snapshotBytes F st ops = hdr ++ Small2.opsData ops) ∧
    (∀ st ops, Small2.closedBytes F st ops = Small2.snapshotBytes F st ops) ∧
    (∀ a b ops ops', Small2.opsData ops = Small2.opsData ops' → Small2.snapshotBytes F a ops = Small2.snapshotBytes F b ops') := by
  refine ⟨fun st ops => ⟨_, L.hlen _, Small2.snapshotBytes_eq F L st ops⟩, fun st ops => Small2.closed_is_snapshot F hc st ops, ?_⟩
  intro a b ops ops' h
  rw [Small2.snapshotBytes_eq F L, Small2.snapshotBytes_eq F L, h]

end Sf.AbsWriteBridge.Small
