/-
  SfProofs.AbsRefineRun — one accepted line of an RDWR history against the abstract file (`line_refines`), and every
  accepted history by induction (`run_refines`).
-/
import SfProofs.AbsRefine
import SfProofs.RdwrRun
namespace Sf.Abs
open Sf

/-- the nine whence values of the C08 statement -/
def whenceOf (whence : Int) : Option (Whence × Ptr) :=
  if whence = 0 then some (.set, .both) else if whence = 0x10 then some (.set, .rd) else if whence = 0x20 then some (.set, .wr)
  else if whence = 1 then some (.cur, .both) else if whence = 0x11 then some (.cur, .rd) else if whence = 0x21 then some (.cur, .wr)
  else if whence = 2 then some (.fromEnd, .both) else if whence = 0x12 then some (.fromEnd, .rd)
  else if whence = 0x22 then some (.fromEnd, .wr) else none

theorem whenceOf_code (w : Whence) (p : Ptr) : whenceOf (whenceCode w p) = some (w, p) := by
  cases w <;> cases p <;> decide

theorem whenceOf_some (whence : Int) (w : Whence) (p : Ptr) (h : whenceOf whence = some (w, p)) : whence = whenceCode w p := by
  unfold whenceOf at h
  repeat' split at h
  all_goals first
    | (injection h with h; injection h with h1 h2; subst h1; subst h2; subst_vars; rfl)
    | exact absurd h (by simp)

/-- the abstract operation an accepted line stands for, in the item view of `ty` (none: the line changes nothing — an
    invalid or zero-length request, a refused seek or truncate, a query, a command) -/
def lineAOp (g : Geom) (ty : Ty) : Op × Out → Option (AOp Item)
  | (.read _ fc n, _) => if validReq g fc n then some (.read (reqFrames g fc n * g.cpf ty)) else none
  | (.write _ fc n data, _) =>
    if validReq g fc n then some (.write (data.extract 0 (reqItems g fc n * cells ty)).toList) else none
  | (.seek off whence, o) =>
    if o.ret = -1 then none else (whenceOf whence).map fun wp => .seek wp.1 wp.2 (off * (g.cpf ty : Int))
  | (.trunc n, _) => if g.canTrunc = true ∧ 0 ≤ n then some (.truncate (n.toNat * g.cpf ty)) else none
  | _ => none

/-- the alphabet of the C08 statement, through one caller type: typed reads and writes of `ty`, seeks with the nine
    whence values, SFC_FILE_TRUNCATE, queries, commands, close -/
def Alpha (ty : Ty) : Op → Prop
  | .read t _ _ => t = ty
  | .write t _ _ _ => t = ty
  | .seek _ whence => whenceOf whence ≠ none
  | .rawRead _ | .rawWrite _ _ | .reopen _ => False
  | _ => True

/-- what the line answered is what the abstract file `f` answers -/
def LineOk (g : Geom) (ty : Ty) (st : St) (f : AbsFile Item) : Op × Out → Prop
  | (.read _ fc n, o) => validReq g fc n = true → st.valid ty = true →
      (o.data.extract 0 (retItems g fc o.ret * cells ty)).toList = (f.read (reqFrames g fc n * g.cpf ty)).1
  | (.write _ fc n _, o) => validReq g fc n = true → o.ret = n
  | (.seek off whence, o) => o.ret ≠ -1 → ∀ w p, whenceOf whence = some (w, p) →
      (f.seek w p (off * (g.cpf ty : Int))).1 = o.ret * (g.cpf ty : Int)
  | (.trunc n, o) => g.canTrunc = true → 0 ≤ n → o.ret = 0
  | _ => True

theorem size_max_mul (a b c : Nat) : max (a * c) (b * c) = max a b * c := by
  rcases Nat.le_total a b with h | h
  · rw [Nat.max_eq_right h, Nat.max_eq_right (Nat.mul_le_mul_right _ h)]
  · rw [Nat.max_eq_left h, Nat.max_eq_left (Nat.mul_le_mul_right _ h)]

/-- ONE LINE of an accepted RDWR history -/
theorem line_refines (g : Geom) (ty : Ty) (st st1 : St) (op : Op) (o : Out) (hch : 0 < g.ch) (hio : g.ioMayFail = false)
    (hm : st.mode = .rw) (hs : (st.ref ty).size = st.frames * g.cpf ty) (ha : Alpha ty op)
    (hc : check g st op o = .ok st1) :
    LineOk g ty st (view g st ty) (op, o) ∧
    view g st1 ty = (view g st ty).stepOpt 0 (lineAOp g ty (op, o)) ∧
    st1.mode = .rw ∧ (st1.ref ty).size = st1.frames * g.cpf ty := by
  have hmw : st.mode ≠ .w := by rw [hm]; decide
  have hmr : st.mode ≠ .r := by rw [hm]; decide
  cases op with
  | read t fc n =>
    simp only [Alpha] at ha; subst ha
    simp only [check] at hc
    by_cases hn : n = 0
    · subst hn
      obtain ⟨_, hst⟩ := readOk_zero g st t fc o st1 hc
      subst hst
      have hv : validReq g fc 0 = false := by simp [validReq]
      simp only [LineOk, lineAOp, hv, AbsFile.stepOpt]
      exact ⟨fun hx => absurd hx (by simp), rfl, hm, hs⟩
    · by_cases hv : validReq g fc n = true
      · obtain ⟨a, b, f1, f2, _, f4⟩ := read_refines g st t fc n o st1 hch ⟨hv, hmw⟩ hs hc
        simp only [LineOk, lineAOp, hv, if_true, AbsFile.stepOpt, AbsFile.step]
        exact ⟨fun _ hval => a hval, b, by rw [f4]; exact hm, by rw [f2, f1]; exact hs⟩
      · have hr : ¬ ReadReq g st fc n := fun hx => hv hx.1
        obtain ⟨_, _, hst⟩ := readOk_invalid g st t fc n o st1 hn hr hc
        subst hst
        have hv' : validReq g fc n = false := by simpa using hv
        simp only [LineOk, lineAOp, hv', AbsFile.stepOpt]
        exact ⟨fun hx => absurd hx (by simp), rfl, hm, hs⟩
  | write t fc n data =>
    simp only [Alpha] at ha; subst ha
    simp only [check] at hc
    by_cases hv : validReq g fc n = true
    · obtain ⟨a, b, f1, f2, f3, _⟩ := write_refines g st t fc n data o st1 hch ⟨hv, hmr⟩ hio hc
      simp only [LineOk, lineAOp, hv, if_true, AbsFile.stepOpt, AbsFile.step]
      refine ⟨fun _ => a, b, by rw [f2]; exact hm, ?_⟩
      rw [f3, f1, hs, ← Nat.add_mul, size_max_mul]
    · have hv' : validReq g fc n = false := by simpa using hv
      have hst : st1 = st ∨ st1 = { st with err := true } := by
        unfold writeOk at hc
        by_cases hn : n = 0
        · simp only [hn, if_true] at hc
          split at hc
          · injection hc with hc; exact Or.inl hc.symm
          · exact Res.noConfusion hc
        · simp only [hn, if_false, hv', Bool.not_false, Bool.true_or, if_true] at hc
          split at hc
          · injection hc with hc; exact Or.inr hc.symm
          · exact Res.noConfusion hc
      simp only [LineOk, lineAOp, hv', AbsFile.stepOpt]
      rcases hst with hst | hst <;> subst hst <;> exact ⟨fun hx => absurd hx (by simp), rfl, hm, hs⟩
  | seek off whence =>
    simp only [Alpha] at ha
    simp only [check] at hc
    by_cases hk : o.ret = -1
    · rcases seekOk_ok g st off whence o st1 hc with ⟨_, _, hst⟩ | ⟨t, _, _, hr, _, _⟩
      · subst hst
        simp only [LineOk, lineAOp, hk, if_true, AbsFile.stepOpt]
        exact ⟨fun hx => absurd rfl hx, rfl, hm, hs⟩
      · omega
    · cases hwo : whenceOf whence with
      | none => exact absurd hwo ha
      | some wp =>
        obtain ⟨w, p⟩ := wp
        have hwc := whenceOf_some whence w p hwo
        subst hwc
        obtain ⟨a, b, f1, f2, _, f4⟩ := seek_refines g st ty w p off o st1 hm hch hs hc hk
        simp only [LineOk, lineAOp, hk, if_false, hwo, Option.map, AbsFile.stepOpt, AbsFile.step]
        refine ⟨fun _ w' p' hx => ?_, b, by rw [f4]; exact hm, by rw [f2, f1]; exact hs⟩
        injection hx with hx; injection hx with h1 h2; subst h1; subst h2; exact a
  | trunc n =>
    simp only [check] at hc
    by_cases hx : g.canTrunc = true ∧ 0 ≤ n
    · obtain ⟨a, b, f1, f2, f3, _⟩ := trunc_refines g st ty n o st1 hmr hx.1 hx.2 hc
      simp only [LineOk, lineAOp, hx, and_self, if_true, AbsFile.stepOpt, AbsFile.step]
      exact ⟨fun _ _ => a, b, by rw [f2]; exact hm, by rw [f3, f1]⟩
    · have hrefuse : st.mode = .r ∨ (!g.canTrunc) = true ∨ n < 0 := by
        by_cases hc1 : g.canTrunc = true
        · right; right
          by_cases h0 : 0 ≤ n
          · exact absurd ⟨hc1, h0⟩ hx
          · omega
        · right; left; simpa using hc1
      unfold truncOk at hc
      rw [if_pos hrefuse] at hc
      split at hc
      · injection hc with hc; subst hc
        simp only [LineOk, lineAOp, hx, if_false, AbsFile.stepOpt]
        exact ⟨fun h1 h2 => absurd ⟨h1, h2⟩ hx, rfl, hm, hs⟩
      · exact Res.noConfusion hc
  | rawRead n => exact absurd ha (by simp [Alpha])
  | rawWrite n d => exact absurd ha (by simp [Alpha])
  | reopen m => exact absurd ha (by simp [Alpha])
  | info =>
    simp only [check, infoOk] at hc
    split at hc
    · injection hc with hc; subst hc; exact ⟨trivial, rfl, hm, hs⟩
    · exact Res.noConfusion hc
  | close =>
    simp only [check, closeOk] at hc
    split at hc
    · injection hc with hc; subst hc; exact ⟨trivial, rfl, hm, hs⟩
    · exact Res.noConfusion hc
  | other =>
    simp only [check] at hc
    injection hc with hc; subst hc; exact ⟨trivial, rfl, hm, hs⟩

/-- the abstract file after the abstract counterparts of the lines of a transcript -/
def absRunLines (g : Geom) (ty : Ty) : AbsFile Item → List (Op × Out) → AbsFile Item
  | f, [] => f
  | f, l :: tr => absRunLines g ty (f.stepOpt 0 (lineAOp g ty l)) tr

/-- every answer along an accepted transcript is the abstract one -/
def AnswersRefine (g : Geom) (ty : Ty) : St → List (Op × Out) → Prop
  | _, [] => True
  | st, l :: tr => LineOk g ty st (view g st ty) l ∧ ∀ st1, check g st l.1 l.2 = .ok st1 → AnswersRefine g ty st1 tr

/-- EVERY accepted RDWR history, by induction over the transcript -/
theorem run_refines (g : Geom) (ty : Ty) (hch : 0 < g.ch) (hio : g.ioMayFail = false) :
    ∀ (tr : List (Op × Out)) (st st' : St), st.mode = .rw → (st.ref ty).size = st.frames * g.cpf ty →
      (∀ l ∈ tr, Alpha ty l.1) → accepts g st tr = some st' →
      AnswersRefine g ty st tr ∧ view g st' ty = absRunLines g ty (view g st ty) tr ∧
      st'.mode = .rw ∧ (st'.ref ty).size = st'.frames * g.cpf ty := by
  intro tr
  induction tr with
  | nil =>
    intro st st' hm hs _ h
    simp only [accepts] at h
    injection h with h; subst h
    exact ⟨trivial, rfl, hm, hs⟩
  | cons l tr ih =>
    intro st st' hm hs ha h
    obtain ⟨op, o⟩ := l
    simp only [accepts] at h
    split at h
    · rename_i st1 hc
      obtain ⟨a, b, m1, s1⟩ := line_refines g ty st st1 op o hch hio hm hs (ha (op, o) (by simp)) hc
      obtain ⟨a', b', m', s'⟩ := ih st1 st' m1 s1 (fun x hx => ha x (by simp [hx])) h
      refine ⟨⟨a, fun st2 hc2 => ?_⟩, ?_, m', s'⟩
      · simp only at hc2
        rw [hc] at hc2
        injection hc2 with hc2; subst hc2; exact a'
      · simp only [absRunLines]; rw [← b]; exact b'
    · exact absurd h (by simp)

end Sf.Abs
