/-
  Helper lemmas for the block-codec property files (C01Block / C06Block / C07Block): the sample packings of PAF24
  and SDS, the DPCM running sums, the OKI step.
-/
import Mathlib.Tactic.NormNum
import SfModel.Paf24
import SfModel.Sds
import SfModel.Dpcm
import SfModel.Oki
namespace Sf.Block.Proofs
open Sf

/-! ### PAF24: three bytes hold bits 8..31 -/

theorem paf24_sampleBytes (x : Int) :
    Paf24.sampleBytes x = [wrapU 24 (asr x 8) % 256, wrapU 24 (asr x 8) / 256 % 256, wrapU 24 (asr x 8) / 256 / 256 % 256] := rfl

theorem paf24_sample (x : Int) (h1 : -2147483648 ≤ x) (h2 : x ≤ 2147483647) :
    Paf24.unpackSample (wrapU 24 (asr x 8) % 256) (wrapU 24 (asr x 8) / 256 % 256) (wrapU 24 (asr x 8) / 256 / 256 % 256)
      = x / 256 * 256 := by
  unfold Paf24.unpackSample sext wrapU asr
  norm_num
  split <;> omega

/-! ### SDS: w seven-bit groups hold the top 7w bits (offset binary) -/

theorem sds_sample2 (x : Int) (h1 : -2147483648 ≤ x) (h2 : x ≤ 2147483647) :
    Sds.decSample (Sds.encSample 2 x) = x / 262144 * 262144 := by
  simp only [Sds.decSample, Sds.encSample, wrapU, wrapS, List.take, List.getD_cons_zero, List.getD_cons_succ, List.getD_nil]
  norm_num
  split <;> omega

theorem sds_sample3 (x : Int) (h1 : -2147483648 ≤ x) (h2 : x ≤ 2147483647) :
    Sds.decSample (Sds.encSample 3 x) = x / 2048 * 2048 := by
  simp only [Sds.decSample, Sds.encSample, wrapU, wrapS, List.take, List.getD_cons_zero, List.getD_cons_succ, List.getD_nil]
  norm_num
  split <;> omega

theorem sds_sample4 (x : Int) (h1 : -2147483648 ≤ x) (h2 : x ≤ 2147483647) :
    Sds.decSample (Sds.encSample 4 x) = x / 16 * 16 := by
  simp only [Sds.decSample, Sds.encSample, wrapU, wrapS, List.take, List.getD_cons_zero, List.getD_cons_succ, List.getD_nil]
  norm_num
  split <;> omega

/-! ### DPCM: the running sum undoes the differences modulo 2^16 / 2^8 -/

theorem wrap16_undo (l x : Int) (hx1 : -32768 ≤ x) (hx2 : x ≤ 32767) : wrapS 16 (l + wrapS 16 (x - l)) = x := by
  simp only [wrapS]
  norm_num
  split <;> split <;> omega

theorem wrap8_undo (l x : Int) (hx1 : -128 ≤ x) (hx2 : x ≤ 127) : wrapS 8 (l + wrapS 8 (x - l)) = x := by
  simp only [wrapS]
  norm_num
  split <;> split <;> omega

theorem undelta16_delta16 (xs : List Int) : ∀ (l : Int), (∀ x ∈ xs, -32768 ≤ x ∧ x ≤ 32767) →
    (Dpcm.undelta16 l (Dpcm.delta16 l xs).2).2 = xs := by
  induction xs with
  | nil => intro l _; rfl
  | cons x xs ih =>
    intro l h
    have hx := h x (by simp)
    simp only [Dpcm.delta16, Dpcm.undelta16]
    rw [wrap16_undo l x hx.1 hx.2, ih x (fun y hy => h y (by simp [hy]))]

theorem undelta8_delta8 (xs : List Int) : ∀ (l : Int), (∀ x ∈ xs, -128 ≤ x ∧ x ≤ 127) →
    (Dpcm.undelta8 l (Dpcm.delta8 l xs).2).2 = xs := by
  induction xs with
  | nil => intro l _; rfl
  | cons x xs ih =>
    intro l h
    have hx := h x (by simp)
    simp only [Dpcm.delta8, Dpcm.undelta8]
    rw [wrap8_undo l x hx.1 hx.2, ih x (fun y hy => h y (by simp [hy]))]

/-- the state the two directions end in is the same: the last sample -/
theorem undelta16_delta16_state (xs : List Int) : ∀ (l : Int), (∀ x ∈ xs, -32768 ≤ x ∧ x ≤ 32767) →
    (Dpcm.undelta16 l (Dpcm.delta16 l xs).2).1 = (Dpcm.delta16 l xs).1 := by
  induction xs with
  | nil => intro l _; rfl
  | cons x xs ih =>
    intro l h
    have hx := h x (by simp)
    simp only [Dpcm.delta16, Dpcm.undelta16]
    rw [wrap16_undo l x hx.1 hx.2, ih x (fun y hy => h y (by simp [hy]))]

/-! ### OKI: one decode step keeps the state in range -/

theorem oki_decode_bounds (st : Oki.St) (code : Nat) :
    (Oki.decode st code).1.idx ≤ 48 ∧ -32768 ≤ (Oki.decode st code).2 ∧ (Oki.decode st code).2 ≤ 32767 ∧
      (Oki.decode st code).1.last = (Oki.decode st code).2 := by
  simp only [Oki.decode, Oki.maxStepIndex]
  refine ⟨?_, ?_, ?_, ?_⟩
  · generalize (st.idx : Int) + Oki.stepChanges.getD (code % 8) 0 = v
    by_cases h0 : v < 0
    · simp [h0]
    · by_cases h1 : v > 48
      · simp [h0, h1]
      · simp only [h0, h1, if_false]; omega
  · split
    · omega
    · split <;> omega
  · split
    · omega
    · split <;> omega
  · trivial

/-- `vox_write_block` before the repair of KF-VOX-ODD: on an even count it reported exactly that count (no pad sample) -/
theorem vox_writeBlock_even : ∀ (fuel : Nat) (st : Oki.St) (xs : List Int) (n : Nat), n % 2 = 0 → n < fuel →
    (Oki.writeBlockOld fuel st xs n).2.2 = n := by
  intro fuel
  induction fuel with
  | zero => intro st xs n _ h; omega
  | succ fuel ih =>
    intro st xs n he hf
    unfold Oki.writeBlockOld
    by_cases hn : n = 0
    · simp [hn]
    · simp only [hn, if_false]
      have hpc : min 512 n % 2 = 0 := by omega
      simp only [hpc]
      simp only [Nat.zero_ne_one, if_false]
      have := ih (Oki.encPairs st (List.take (min 512 n) xs)).1 (List.drop (min 512 n) xs) (n - min 512 n) (by omega) (by omega)
      simp only [this]
      omega

end Sf.Block.Proofs
