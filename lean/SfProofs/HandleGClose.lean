/-
  SfProofs.HandleGClose — the closed file of a container described by a `Spec` (SfModel/HandleG.lean): after `<x>_close`
  the store is the header computed from the FINAL state (the `calc_length` block applied to the handle the tailer leaves and the
  final file length) followed by everything that lay behind the header after the tailer — the encoded samples and what the
  tailer appended.  One law is needed: the position-restore rule moves the file position only (`RestoreKeeps`); the four
  rules of the instances satisfy it.
-/
import SfProofs.HandleGInv2
namespace Sf.HandleG
open Sf

/-- the restore rule of a `Spec` moves the position only -/
def RestoreKeeps (sp : Spec) : Prop := ∀ cur h0 h2 s, (sp.restore cur h0 h2 s).bytes = s.bytes

theorem restoreCur_keeps (cur : Nat) (h0 h2 : H) (s : Store) : (restoreCur cur h0 h2 s).bytes = s.bytes := by
  unfold restoreCur; split <;> rfl
theorem restoreHasData_keeps (cur : Nat) (h0 h2 : H) (s : Store) : (restoreHasData cur h0 h2 s).bytes = s.bytes := by
  unfold restoreHasData; repeat' split
  all_goals rfl
theorem restoreCaf_keeps (cur : Nat) (h0 h2 : H) (s : Store) : (restoreCaf cur h0 h2 s).bytes = s.bytes := by
  unfold restoreCaf; repeat' split
  all_goals rfl
theorem restoreNone_keeps (cur : Nat) (h0 h2 : H) (s : Store) : (restoreNone cur h0 h2 s).bytes = s.bytes := rfl

theorem writeAt_zero (bs d : List Byte) : writeAt bs 0 d = d ++ bs.drop d.length := by
  simp [writeAt]

/-- the bytes a header (re)write leaves: the header over the front of the store -/
theorem Spec.writeHeader_bytes (sp : Spec) (K : RestoreKeeps sp) (h : H) (s : Store) (b : Bool)
    (hh : sp.hasHeader = true) (hs : sp.skipAt s.pos = false) :
    (sp.writeHeader h s b).2.bytes =
      sp.hdr (if b then sp.recalc h s.bytes.length else h) ++ s.bytes.drop (sp.hdr (if b then sp.recalc h s.bytes.length else h)).length := by
  unfold Spec.writeHeader
  simp only [hh, hs, Bool.not_true, Bool.false_eq_true, if_false]
  rw [K]
  simp only [Store.write, Store.seekSet, writeAt_zero]
  generalize sp.hdr (if b = true then sp.recalc h s.bytes.length else h) = d
  cases d with
  | nil => simp
  | cons x xs => simp

/-- closed-bytes theorem: `<x>_close` on a handle that can write leaves header (final state) ++ what lay behind the header
    after the tailer (encoded samples ++ tailer bytes) -/
theorem Spec.closeStore_bytes (sp : Spec) (K : RestoreKeeps sp) (h : H) (s : Store) (hm : h.mode ≠ .r)
    (hh : sp.hasHeader = true) (hc : sp.closeHdr = true) (hs : sp.skipAt (sp.tailer h s).2.pos = false) :
    (sp.closeStore h s).bytes =
      sp.hdr (sp.recalc (sp.tailer h s).1 (sp.tailer h s).2.bytes.length) ++
        (sp.tailer h s).2.bytes.drop (sp.hdr (sp.recalc (sp.tailer h s).1 (sp.tailer h s).2.bytes.length)).length := by
  unfold Spec.closeStore
  have hm' : (h.mode == Mode.r) = false := by cases hmm : h.mode <;> simp_all
  simp only [hm', hh, hc, Bool.not_true, Bool.false_eq_true, if_false, if_true]
  have := Spec.writeHeader_bytes sp K (sp.tailer h s).1 (sp.tailer h s).2 true hh hs
  simpa using this

/-- a container whose close does not rewrite the header (IRCAM, PAF, PVF) leaves what the tailer leaves -/
theorem Spec.closeStore_noHdr (sp : Spec) (h : H) (s : Store) (hm : h.mode ≠ .r) (hh : sp.hasHeader = true) (hc : sp.closeHdr = false) :
    sp.closeStore h s = (sp.tailer h s).2 := by
  unfold Spec.closeStore
  have hm' : (h.mode == Mode.r) = false := by cases hmm : h.mode <;> simp_all
  simp [hm', hh, hc]

end Sf.HandleG
