/-
  SfProofs.FloatRound — what `toDy ∘ ofDy` computes: the sign is kept and the magnitude is
  `min (rnd magnitude) huge`, where `rnd` rounds m·2^e to a multiple of 2^quantum (ties to even).
-/
import SfProofs.FloatFmt
namespace Sf.Float

/-! ### powers of two in ℚ -/

theorem natpow_cast (n : Nat) : ((2 ^ n : Nat) : ℚ) = (2 : ℚ) ^ (n : ℤ) := by
  push_cast; rw [zpow_natCast]

theorem zpow2_le {a b : Int} (h : a ≤ b) : (2 : ℚ) ^ a ≤ 2 ^ b := zpow_le_zpow_right₀ (by norm_num) h
theorem zpow2_lt {a b : Int} (h : a < b) : (2 : ℚ) ^ a < 2 ^ b := zpow_lt_zpow_right₀ (by norm_num) h
theorem zpow2_lt_iff {a b : Int} : (2 : ℚ) ^ a < 2 ^ b ↔ a < b := zpow_lt_zpow_iff_right₀ (by norm_num)
theorem zpow2_add (a b : Int) : (2 : ℚ) ^ (a + b) = 2 ^ a * 2 ^ b := zpow_add₀ (by norm_num) a b

theorem mul_zpow_lt (n k : Nat) (q : Int) (h : n < 2 ^ k) : (n : ℚ) * 2 ^ q < 2 ^ ((k : ℤ) + q) := by
  rw [zpow2_add, ← natpow_cast]
  exact mul_lt_mul_of_pos_right (by exact_mod_cast h) (two_zpow_pos q)

theorem mul_zpow_le (n k : Nat) (q : Int) (h : n ≤ 2 ^ k) : (n : ℚ) * 2 ^ q ≤ 2 ^ ((k : ℤ) + q) := by
  rw [zpow2_add, ← natpow_cast]
  exact mul_le_mul_of_nonneg_right (by exact_mod_cast h) (le_of_lt (two_zpow_pos q))

theorem le_mul_zpow (n k : Nat) (q : Int) (h : 2 ^ k ≤ n) : (2 : ℚ) ^ ((k : ℤ) + q) ≤ (n : ℚ) * 2 ^ q := by
  rw [zpow2_add, ← natpow_cast]
  exact mul_le_mul_of_nonneg_right (by exact_mod_cast h) (le_of_lt (two_zpow_pos q))

/-- 2^(e+L−1) ≤ m·2^e < 2^(e+L) for L = bitLen m -/
theorem Dy.mag_bounds (d : Dy) (h : d.m ≠ 0) :
    (2 : ℚ) ^ (d.e + (bitLen d.m : ℤ) - 1) ≤ d.mag ∧ d.mag < (2 : ℚ) ^ (d.e + (bitLen d.m : ℤ)) := by
  obtain ⟨b1, b2, b3⟩ := bitLen_bounds d.m h
  unfold Dy.mag
  constructor
  · have := le_mul_zpow d.m (bitLen d.m - 1) d.e b1
    have e : ((bitLen d.m - 1 : Nat) : ℤ) + d.e = d.e + (bitLen d.m : ℤ) - 1 := by omega
    rwa [e] at this
  · have := mul_zpow_lt d.m (bitLen d.m) d.e b2
    rwa [add_comm] at this

theorem Dy.mag_eq_zero_iff (d : Dy) : d.mag = 0 ↔ d.m = 0 := by
  unfold Dy.mag
  constructor
  · intro h
    rcases mul_eq_zero.mp h with h | h
    · exact_mod_cast h
    · exact absurd h (ne_of_gt (two_zpow_pos _))
  · intro h; simp [h]

/-! ### the rounding performed by `ofDy` with unbounded exponent range -/

def Fmt.rnd (f : Fmt) (d : Dy) : Dy := ⟨d.neg, rneScale d.m (d.e - f.quantum d), f.quantum d⟩

/-- the magnitude of an Inf/NaN pattern under `toDy` (2^128 resp. 2^1024): the overflow threshold -/
def Fmt.huge (f : Fmt) : ℚ := (2 : ℚ) ^ ((f.emax : ℤ) - 1 + f.qmin + f.mbits)

theorem qmin_le_quantum (f : Fmt) (d : Dy) : f.qmin ≤ f.quantum d := by unfold Fmt.quantum; omega

/-- the rounded significand is the nearest integer (ties to even) to mag / 2^quantum -/
theorem rnd_isRNE (f : Fmt) (d : Dy) : IsRNE (d.mag * 2 ^ (-(f.quantum d))) (f.rnd d).m := by
  have := rneScale_isRNE d.m (d.e - f.quantum d)
  unfold Dy.mag Fmt.rnd
  simp only
  rw [mul_assoc, ← zpow2_add]
  have e : d.e + -f.quantum d = d.e - f.quantum d := by omega
  rw [e]; exact this

theorem rnd_mant_le (f : Fmt) (d : Dy) (h : d.m ≠ 0) : (f.rnd d).m ≤ 2 ^ (f.mbits + 1) := by
  have hb := (Dy.mag_bounds d h).2
  have hq : d.e + (bitLen d.m : ℤ) - 1 - f.mbits ≤ f.quantum d := by unfold Fmt.quantum; omega
  have h1 : d.mag * 2 ^ (-(f.quantum d)) ≤ ((2 ^ (f.mbits + 1) : Nat) : ℤ) := by
    push_cast
    rw [← zpow_natCast]
    calc d.mag * 2 ^ (-(f.quantum d)) ≤ 2 ^ (d.e + (bitLen d.m : ℤ)) * 2 ^ (-(f.quantum d)) :=
          mul_le_mul_of_nonneg_right (le_of_lt hb) (le_of_lt (two_zpow_pos _))
      _ = 2 ^ (d.e + (bitLen d.m : ℤ) + -(f.quantum d)) := (zpow2_add _ _).symm
      _ ≤ 2 ^ (((f.mbits + 1 : Nat) : ℤ)) := zpow2_le (by push_cast; omega)
  have := (rnd_isRNE f d).le_int _ h1
  exact_mod_cast this

theorem rnd_mant_ge (f : Fmt) (d : Dy) (h : d.m ≠ 0) (hq : f.quantum d ≠ f.qmin) : 2 ^ f.mbits ≤ (f.rnd d).m := by
  have hb := (Dy.mag_bounds d h).1
  have hq : d.e + (bitLen d.m : ℤ) - 1 - f.mbits = f.quantum d := by unfold Fmt.quantum at *; omega
  have h1 : (((2 ^ f.mbits : Nat) : ℤ) : ℚ) ≤ d.mag * 2 ^ (-(f.quantum d)) := by
    push_cast
    rw [← zpow_natCast]
    calc (2 : ℚ) ^ ((f.mbits : ℤ)) = 2 ^ (d.e + (bitLen d.m : ℤ) - 1 + -(f.quantum d)) := by congr 1; omega
      _ = 2 ^ (d.e + (bitLen d.m : ℤ) - 1) * 2 ^ (-(f.quantum d)) := zpow2_add _ _
      _ ≤ d.mag * 2 ^ (-(f.quantum d)) := mul_le_mul_of_nonneg_right hb (le_of_lt (two_zpow_pos _))
  have := (rnd_isRNE f d).ge_int _ h1
  exact_mod_cast this


/-! ### decoding what `ofDy` packs -/

theorem std_consts (f : Fmt) (hf : f.Std) :
    1 ≤ f.mbits ∧ f.emax + 1 = 2 ^ f.ebits ∧ 2 ≤ f.emax ∧ f.width = 1 + f.ebits + f.mbits := by
  rcases hf with rfl | rfl <;> simp [Fmt.emax, Fmt.width, f32, f64]

theorem toDy_pack (f : Fmt) (hf : f.Std) (s : Bool) (mant : Nat) (q : Int)
    (h1 : mant < 2 ^ (f.mbits + 1)) (h2 : f.qmin ≤ q) :
    f.toDy (f.pack s mant q) =
      if mant < 2 ^ f.mbits then ⟨s, mant, f.qmin⟩
      else if q - f.qmin + 1 ≥ f.emax then ⟨s, 2 ^ f.mbits, (f.emax : ℤ) - 1 + f.qmin⟩
      else ⟨s, mant, q⟩ := by
  obtain ⟨c1, c2, c3, _⟩ := std_consts f hf
  have hp := two_pow_pos' f.mbits
  unfold Fmt.pack
  split
  · rename_i hlt
    have := toDy_packed f hf s 0 mant (by omega) hlt
    simpa using this
  · split
    · have := toDy_packed f hf s f.emax 0 (by omega) hp
      simp only [Nat.add_zero] at this
      rw [this]
      have : f.emax ≠ 0 := by omega
      simp [this]
    · rename_i hge hlt
      have e2 : 2 ^ (f.mbits + 1) = 2 * 2 ^ f.mbits := by rw [Nat.pow_succ]; omega
      have := toDy_packed f hf s (q - f.qmin + 1).toNat (mant - 2 ^ f.mbits) (by omega) (by omega)
      rw [this]
      have h0 : (q - f.qmin + 1).toNat ≠ 0 := by omega
      simp only [h0, if_false]
      congr 1
      · omega
      · omega

theorem huge_eq (f : Fmt) : f.huge = 2 ^ (f.mbits : ℤ) * 2 ^ ((f.emax : ℤ) - 1 + f.qmin) := by
  unfold Fmt.huge; rw [← zpow2_add]; congr 1; omega

/-- decoding the packed pattern: sign kept, magnitude mant·2^q capped at `huge` -/
theorem toDy_pack_mag (f : Fmt) (hf : f.Std) (s : Bool) (mant : Nat) (q : Int)
    (h1 : mant < 2 ^ (f.mbits + 1)) (h2 : f.qmin ≤ q) (h3 : mant < 2 ^ f.mbits → q = f.qmin) :
    (f.toDy (f.pack s mant q)).neg = s ∧ (f.toDy (f.pack s mant q)).mag = min ((mant : ℚ) * 2 ^ q) f.huge := by
  obtain ⟨c1, c2, c3, _⟩ := std_consts f hf
  rw [toDy_pack f hf s mant q h1 h2]
  split
  · rename_i hlt
    refine ⟨rfl, ?_⟩
    unfold Dy.mag; simp only
    rw [h3 hlt, min_eq_left]
    have := mul_zpow_lt mant f.mbits f.qmin hlt
    unfold Fmt.huge
    exact le_of_lt (lt_of_lt_of_le this (zpow2_le (by omega)))
  · split
    · rename_i hge hov
      refine ⟨rfl, ?_⟩
      unfold Dy.mag; simp only
      rw [natpow_cast, ← huge_eq, min_eq_right]
      have := le_mul_zpow mant f.mbits q (by omega)
      unfold Fmt.huge
      exact le_trans (zpow2_le (by omega)) this
    · rename_i hge hov
      refine ⟨rfl, ?_⟩
      unfold Dy.mag; simp only
      rw [min_eq_left]
      have := mul_zpow_lt mant (f.mbits + 1) q h1
      unfold Fmt.huge
      exact le_of_lt (lt_of_lt_of_le this (zpow2_le (by push_cast; omega)))

theorem toDy_enc_mag (f : Fmt) (hf : f.Std) (s : Bool) (mant0 : Nat) (q : Int)
    (h1 : mant0 ≤ 2 ^ (f.mbits + 1)) (h2 : f.qmin ≤ q) (h3 : mant0 < 2 ^ f.mbits → q = f.qmin) :
    (f.toDy (f.enc s mant0 q)).neg = s ∧ (f.toDy (f.enc s mant0 q)).mag = min ((mant0 : ℚ) * 2 ^ q) f.huge := by
  have e2 : 2 ^ (f.mbits + 1) = 2 * 2 ^ f.mbits := by rw [Nat.pow_succ]; omega
  have hp := two_pow_pos' f.mbits
  unfold Fmt.enc
  split
  · have hm : mant0 = 2 ^ (f.mbits + 1) := by omega
    have hh : mant0 / 2 = 2 ^ f.mbits := by omega
    rw [hh]
    have := toDy_pack_mag f hf s (2 ^ f.mbits) (q + 1) (by omega) (by omega) (by omega)
    refine ⟨this.1, ?_⟩
    rw [this.2, hm]
    congr 1
    rw [natpow_cast, natpow_cast, ← zpow2_add, ← zpow2_add]; congr 1; push_cast; omega
  · exact toDy_pack_mag f hf s mant0 q (by omega) h2 h3

/-- **what `toDy ∘ ofDy` is**: the sign is kept, the magnitude is rounded at the quantum and capped at `huge` -/
theorem toDy_ofDy (f : Fmt) (hf : f.Std) (d : Dy) :
    (f.toDy (f.ofDy d)).neg = d.neg ∧ (f.toDy (f.ofDy d)).mag = min (f.rnd d).mag f.huge := by
  rw [ofDy_eq]
  split
  · rename_i h0
    have := toDy_pack_mag f hf d.neg 0 f.qmin (two_pow_pos' _) (le_refl _) (fun _ => rfl)
    have e : f.pack d.neg 0 f.qmin = f.sgnBit d.neg := by
      unfold Fmt.pack; simp
    rw [e] at this
    refine ⟨this.1, ?_⟩
    rw [this.2]
    unfold Fmt.rnd Dy.mag
    simp [h0, rneScale, rneShr]
  · rename_i h0
    have := toDy_enc_mag f hf d.neg (f.rnd d).m (f.quantum d) (rnd_mant_le f d h0) (qmin_le_quantum f d)
      (fun hlt => by
        by_contra hne
        have := rnd_mant_ge f d h0 hne
        omega)
    exact this


/-! ### representable magnitudes: exactness and bounds -/

/-- v = n·2^q with an (mbits+1)-bit significand and q at or above the subnormal quantum
    (no upper bound on the exponent: overflow is `v ≥ huge`) -/
def Fmt.RepMag (f : Fmt) (v : ℚ) : Prop :=
  ∃ (n : Nat) (q : Int), n < 2 ^ (f.mbits + 1) ∧ f.qmin ≤ q ∧ v = (n : ℚ) * 2 ^ q

theorem rnd_mag (f : Fmt) (d : Dy) : (f.rnd d).mag = ((f.rnd d).m : ℚ) * 2 ^ (f.quantum d) := rfl

theorem rnd_mag_zero (f : Fmt) (d : Dy) (h : d.m = 0) : (f.rnd d).mag = 0 := by
  unfold Fmt.rnd Dy.mag; simp [h, rneScale, rneShr]

/-- a representable bound at or above mag is an integer multiple of the quantum -/
theorem rep_multiple_of_quantum (f : Fmt) (d : Dy) (h : d.m ≠ 0) (B : ℚ) (hB : f.RepMag B) (hle : d.mag ≤ B) :
    ∃ N : Nat, B = (N : ℚ) * 2 ^ (f.quantum d) := by
  obtain ⟨n, qB, hn, hqB, rfl⟩ := hB
  have hpos : 0 < d.mag := lt_of_lt_of_le (two_zpow_pos _) (Dy.mag_bounds d h).1
  have hn0 : n ≠ 0 := by
    rintro rfl; simp at hle; linarith
  obtain ⟨b1, b2, b3⟩ := bitLen_bounds n hn0
  have hL : bitLen n ≤ f.mbits + 1 := by
    by_contra hc
    have : 2 ^ (f.mbits + 1) ≤ 2 ^ (bitLen n - 1) := Nat.pow_le_pow_right (by omega) (by omega)
    omega
  have hlt : (2 : ℚ) ^ (d.e + (bitLen d.m : ℤ) - 1) < 2 ^ ((bitLen n : ℤ) + qB) :=
    lt_of_le_of_lt (le_trans (Dy.mag_bounds d h).1 hle) (mul_zpow_lt n (bitLen n) qB b2)
  have hE := zpow2_lt_iff.mp hlt
  have hq : f.quantum d ≤ qB := by unfold Fmt.quantum; omega
  refine ⟨n * 2 ^ (qB - f.quantum d).toNat, ?_⟩
  push_cast
  rw [mul_assoc, ← zpow_natCast, ← zpow2_add]
  congr 2; omega

theorem rnd_le_of_le_rep (f : Fmt) (d : Dy) (B : ℚ) (hB : f.RepMag B) (hle : d.mag ≤ B) : (f.rnd d).mag ≤ B := by
  by_cases h : d.m = 0
  · rw [rnd_mag_zero f d h]; exact le_trans (Dy.mag_nonneg d) hle
  · obtain ⟨N, hN⟩ := rep_multiple_of_quantum f d h B hB hle
    have h1 : d.mag * 2 ^ (-(f.quantum d)) ≤ ((N : ℤ) : ℚ) := by
      have := mul_le_mul_of_nonneg_right hle (le_of_lt (two_zpow_pos (-(f.quantum d))))
      rw [hN, mul_assoc, ← zpow2_add] at this
      simpa using this
    have h2 := (rnd_isRNE f d).le_int _ h1
    rw [rnd_mag, hN]
    exact mul_le_mul_of_nonneg_right (by exact_mod_cast h2) (le_of_lt (two_zpow_pos _))

theorem rnd_exact (f : Fmt) (d : Dy) (hB : f.RepMag d.mag) : (f.rnd d).mag = d.mag := by
  by_cases h : d.m = 0
  · rw [rnd_mag_zero f d h, (Dy.mag_eq_zero_iff d).mpr h]
  · obtain ⟨N, hN⟩ := rep_multiple_of_quantum f d h d.mag hB (le_refl _)
    have h1 : d.mag * 2 ^ (-(f.quantum d)) = ((N : ℤ) : ℚ) := by
      rw [hN, mul_assoc, ← zpow2_add]; simp
    have h2 := (rnd_isRNE f d).eq_int _ h1
    rw [rnd_mag, hN]
    congr 1
    exact_mod_cast h2

/-- the value of any pattern is representable -/
theorem toDy_rep (f : Fmt) (b : Nat) : f.RepMag (f.toDy b).mag := by
  unfold Fmt.toDy
  simp only
  have hfr : f.frac b < 2 ^ f.mbits := Nat.mod_lt _ (two_pow_pos' _)
  have e2 : 2 ^ (f.mbits + 1) = 2 * 2 ^ f.mbits := by rw [Nat.pow_succ]; omega
  split
  · exact ⟨f.frac b, f.qmin, by omega, le_refl _, rfl⟩
  · exact ⟨2 ^ f.mbits + f.frac b, (f.expo b : ℤ) - 1 + f.qmin, by omega, by omega, rfl⟩

/-- rounding error: at most half a quantum -/
theorem rnd_err (f : Fmt) (d : Dy) : |(f.rnd d).mag - d.mag| ≤ 2 ^ (f.quantum d - 1) := by
  have h := (rnd_isRNE f d).abs_le
  have hp := two_zpow_pos (f.quantum d)
  have e : (f.rnd d).mag - d.mag = (((f.rnd d).m : ℤ) - d.mag * 2 ^ (-(f.quantum d))) * 2 ^ (f.quantum d) := by
    rw [rnd_mag, sub_mul, mul_assoc, ← zpow2_add]; simp
  rw [e, abs_mul, abs_of_pos hp]
  have e2 : (2 : ℚ) ^ (f.quantum d - 1) = 1 / 2 * 2 ^ (f.quantum d) := by
    rw [sub_eq_add_neg, zpow2_add]; simp; ring
  rw [e2]
  exact mul_le_mul_of_nonneg_right h (le_of_lt hp)


/-! ### finiteness, pattern round trip, dependence on the value only -/

theorem finite_iff_mag_lt (f : Fmt) (hf : f.Std) (b : Nat) : f.isFinite b = true ↔ (f.toDy b).mag < f.huge := by
  obtain ⟨c1, c2, c3, _⟩ := std_consts f hf
  have hex : f.expo b < 2 ^ f.ebits := Nat.mod_lt _ (two_pow_pos' _)
  have hfr : f.frac b < 2 ^ f.mbits := Nat.mod_lt _ (two_pow_pos' _)
  have e2 : 2 ^ (f.mbits + 1) = 2 * 2 ^ f.mbits := by rw [Nat.pow_succ]; omega
  unfold Fmt.isFinite Fmt.toDy
  simp only [bne_iff_ne, ne_eq]
  split
  · rename_i h0
    have := mul_zpow_lt (f.frac b) f.mbits f.qmin hfr
    have h2 : (f.frac b : ℚ) * 2 ^ f.qmin < f.huge :=
      lt_of_lt_of_le this (by unfold Fmt.huge; exact zpow2_le (by omega))
    constructor
    · intro _; exact h2
    · intro _; omega
  · rename_i h0
    by_cases hem : f.expo b = f.emax
    · constructor
      · intro h; exact absurd hem h
      · intro h
        exfalso
        have := le_mul_zpow (2 ^ f.mbits + f.frac b) f.mbits ((f.expo b : ℤ) - 1 + f.qmin) (by omega)
        unfold Dy.mag Fmt.huge at h
        simp only at h
        rw [hem] at this h
        have e : (f.mbits : ℤ) + ((f.emax : ℤ) - 1 + f.qmin) = (f.emax : ℤ) - 1 + f.qmin + f.mbits := by omega
        rw [e] at this
        exact absurd h (not_lt.mpr this)
    · constructor
      · intro _
        have := mul_zpow_lt (2 ^ f.mbits + f.frac b) (f.mbits + 1) ((f.expo b : ℤ) - 1 + f.qmin) (by omega)
        unfold Dy.mag Fmt.huge
        simp only
        exact lt_of_lt_of_le this (zpow2_le (by push_cast; omega))
      · intro _; exact hem

theorem ofDy_finite_iff (f : Fmt) (hf : f.Std) (d : Dy) : f.isFinite (f.ofDy d) = true ↔ (f.rnd d).mag < f.huge := by
  rw [finite_iff_mag_lt f hf, (toDy_ofDy f hf d).2]
  simp

theorem pack_lt_width (f : Fmt) (hf : f.Std) (s : Bool) (mant : Nat) (q : Int) (h1 : mant < 2 ^ (f.mbits + 1)) :
    f.pack s mant q < 2 ^ f.width := by
  obtain ⟨c1, c2, c3, c4⟩ := std_consts f hf
  have e2 : 2 ^ (f.mbits + 1) = 2 * 2 ^ f.mbits := by rw [Nat.pow_succ]; omega
  have ew : 2 ^ f.width = 2 * (2 ^ f.ebits * 2 ^ f.mbits) := by
    rw [c4, Nat.add_assoc, Nat.pow_add, Nat.pow_add]
  have es : f.sgnBit s ≤ 2 ^ f.ebits * 2 ^ f.mbits := by
    unfold Fmt.sgnBit; split
    · rw [Nat.pow_add]
    · exact Nat.zero_le _
  have key : ∀ ex fr : Nat, ex ≤ f.emax → fr < 2 ^ f.mbits → f.sgnBit s + ex * 2 ^ f.mbits + fr < 2 ^ f.width := by
    intro ex fr hex hfr
    have : ex * 2 ^ f.mbits + 2 ^ f.mbits ≤ 2 ^ f.ebits * 2 ^ f.mbits := by
      rw [← c2, Nat.add_mul, Nat.one_mul]
      exact Nat.add_le_add_right (Nat.mul_le_mul_right _ hex) _
    omega
  unfold Fmt.pack
  split
  · have := key 0 mant (by omega) (by assumption); simpa using this
  · split
    · have := key f.emax 0 (le_refl _) (two_pow_pos' _); simpa using this
    · exact key _ _ (by omega) (by omega)

theorem ofDy_lt_width (f : Fmt) (hf : f.Std) (d : Dy) : f.ofDy d < 2 ^ f.width := by
  have e2 : 2 ^ (f.mbits + 1) = 2 * 2 ^ f.mbits := by rw [Nat.pow_succ]; omega
  have hp := two_pow_pos' f.mbits
  rw [ofDy_eq]
  split
  · have := pack_lt_width f hf d.neg 0 0 (two_pow_pos' _)
    unfold Fmt.pack at this; simpa using this
  · rename_i h0
    have := rnd_mant_le f d h0
    unfold Fmt.rnd at this; simp only at this
    unfold Fmt.enc
    split
    · exact pack_lt_width f hf _ _ _ (by omega)
    · exact pack_lt_width f hf _ _ _ (by omega)

/-- the exponent of the leading bit is determined by the magnitude -/
theorem quantum_congr (f : Fmt) (d₁ d₂ : Dy) (h1 : d₁.m ≠ 0) (h2 : d₂.m ≠ 0) (h : d₁.mag = d₂.mag) :
    f.quantum d₁ = f.quantum d₂ := by
  have a := Dy.mag_bounds d₁ h1
  have b := Dy.mag_bounds d₂ h2
  rw [h] at a
  have x := zpow2_lt_iff.mp (lt_of_le_of_lt a.1 b.2)
  have y := zpow2_lt_iff.mp (lt_of_le_of_lt b.1 a.2)
  unfold Fmt.quantum; omega

/-- `ofDy` depends only on the sign and the magnitude -/
theorem ofDy_congr (f : Fmt) (d₁ d₂ : Dy) (hn : d₁.neg = d₂.neg) (h : d₁.mag = d₂.mag) : f.ofDy d₁ = f.ofDy d₂ := by
  rw [ofDy_eq, ofDy_eq, hn]
  have hz : d₁.m = 0 ↔ d₂.m = 0 := by rw [← Dy.mag_eq_zero_iff, ← Dy.mag_eq_zero_iff, h]
  by_cases h1 : d₁.m = 0
  · simp [h1, hz.mp h1]
  · have h2 : d₂.m ≠ 0 := fun c => h1 (hz.mpr c)
    simp only [h1, h2, if_false]
    have hq := quantum_congr f d₁ d₂ h1 h2 h
    have r1 := rnd_isRNE f d₁
    have r2 := rnd_isRNE f d₂
    rw [h, hq] at r1
    have := r1.unique r2
    unfold Fmt.rnd at this
    simp only at this
    rw [hq] at this ⊢
    congr 1
    exact_mod_cast this

theorem rneScale_zero_exp (m : Nat) : rneScale m 0 = m := by simp [rneScale]

/-- re-encoding the value of a finite pattern gives the pattern back -/
theorem ofDy_toDy (f : Fmt) (hf : f.Std) (b : Nat) (hb : b < 2 ^ f.width) (hfin : f.isFinite b = true) :
    f.ofDy (f.toDy b) = b := by
  obtain ⟨c1, c2, c3, _⟩ := std_consts f hf
  obtain ⟨hdec, hex, hfr⟩ := pattern_decomp f hf b hb
  have hne : f.expo b ≠ f.emax := by simpa [Fmt.isFinite] using hfin
  have e2 : 2 ^ (f.mbits + 1) = 2 * 2 ^ f.mbits := by rw [Nat.pow_succ]; omega
  have hp := two_pow_pos' f.mbits
  rw [ofDy_eq]
  unfold Fmt.toDy
  simp only
  by_cases h0 : f.expo b = 0
  · simp only [h0, if_true]
    by_cases hz : f.frac b = 0
    · simp only [hz, if_true]; rw [h0, hz] at hdec; omega
    · simp only [hz, if_false]
      obtain ⟨b1, b2, b3⟩ := bitLen_bounds _ hz
      have hL : bitLen (f.frac b) ≤ f.mbits := by
        by_contra hc
        have : 2 ^ f.mbits ≤ 2 ^ (bitLen (f.frac b) - 1) := Nat.pow_le_pow_right (by omega) (by omega)
        omega
      have hq : f.quantum ⟨f.sign b, f.frac b, f.qmin⟩ = f.qmin := by
        unfold Fmt.quantum; simp only; omega
      rw [hq, Int.sub_self, rneScale_zero_exp]
      unfold Fmt.enc Fmt.pack
      have : ¬ (f.frac b ≥ 2 ^ (f.mbits + 1)) := by omega
      simp only [this, if_false, hfr, if_true]
      rw [h0] at hdec; omega
  · simp only [h0, if_false]
    have hm0 : 2 ^ f.mbits + f.frac b ≠ 0 := by omega
    simp only [hm0, if_false]
    have hL : bitLen (2 ^ f.mbits + f.frac b) = f.mbits + 1 := bitLen_unique _ _ (by simp) (by omega) (by omega)
    have hq : f.quantum ⟨f.sign b, 2 ^ f.mbits + f.frac b, (f.expo b : ℤ) - 1 + f.qmin⟩ = (f.expo b : ℤ) - 1 + f.qmin := by
      unfold Fmt.quantum; simp only; rw [hL]; push_cast; omega
    rw [hq, Int.sub_self, rneScale_zero_exp]
    unfold Fmt.enc Fmt.pack
    have n1 : ¬ (2 ^ f.mbits + f.frac b ≥ 2 ^ (f.mbits + 1)) := by omega
    have n2 : ¬ (2 ^ f.mbits + f.frac b < 2 ^ f.mbits) := by omega
    have n3 : ¬ ((f.expo b : ℤ) - 1 + f.qmin - f.qmin + 1 ≥ f.emax) := by omega
    simp only [n1, n2, n3, if_false]
    have : ((f.expo b : ℤ) - 1 + f.qmin - f.qmin + 1).toNat = f.expo b := by omega
    rw [this]
    omega

end Sf.Float
