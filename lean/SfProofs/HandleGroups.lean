/-
  `groups` (SfModel/Basic.lean, fuel based) — recursion equations, length, append / take / drop laws,
  and their consequences for `Enc.decodeAll` / `Enc.encodeAll`.
-/
import SfModel.Basic
import SfModel.Pcm
import SfProofs.Bytes
namespace Sf

/-! ## fuel independence and recursion equations -/

theorem groupsAux_fuel {α} (n : Nat) (hn : 0 < n) :
    ∀ (f1 f2 : Nat) (l : List α), l.length ≤ f1 → l.length ≤ f2 → groupsAux n f1 l = groupsAux n f2 l := by
  intro f1
  induction f1 with
  | zero =>
    intro f2 l h1 h2
    have hl : l = [] := List.eq_nil_of_length_eq_zero (by omega)
    subst hl
    cases f2 with
    | zero => rfl
    | succ f2 =>
      simp only [groupsAux, List.take_nil, List.length_nil]
      rw [if_pos (Or.inl hn)]
  | succ f1 ih =>
    intro f2 l h1 h2
    cases f2 with
    | zero =>
      have hl : l = [] := List.eq_nil_of_length_eq_zero (by omega)
      subst hl
      simp only [groupsAux, List.take_nil, List.length_nil]
      rw [if_pos (Or.inl hn)]
    | succ f2 =>
      simp only [groupsAux]
      by_cases hc : (List.take n l).length < n ∨ n = 0
      · rw [if_pos hc, if_pos hc]
      · rw [if_neg hc, if_neg hc]
        have hlen : n ≤ l.length := by
          simp only [List.length_take, not_or] at hc
          omega
        have hd : (l.drop n).length ≤ f1 ∧ (l.drop n).length ≤ f2 := by
          simp only [List.length_drop]; omega
        rw [ih f2 (l.drop n) hd.1 hd.2]

theorem groups_short {α} (n : Nat) (l : List α) (h : l.length < n) : groups n l = [] := by
  unfold groups
  cases hl : l.length with
  | zero => rfl
  | succ k =>
    simp only [groupsAux]
    rw [if_pos]
    left
    simp only [List.length_take]; omega

theorem groups_zero {α} (l : List α) : groups 0 l = [] := by
  unfold groups
  cases hl : l.length with
  | zero => rfl
  | succ k => simp [groupsAux]

theorem groups_cons {α} (n : Nat) (hn : 0 < n) (l : List α) (h : n ≤ l.length) :
    groups n l = l.take n :: groups n (l.drop n) := by
  unfold groups
  cases hl : l.length with
  | zero => omega
  | succ k =>
    simp only [groupsAux]
    rw [if_neg]
    · congr 1
      apply groupsAux_fuel n hn
      · simp only [List.length_drop]; omega
      · exact Nat.le_refl _
    · simp only [List.length_take, not_or]; omega

theorem groups_length {α} (n : Nat) (hn : 0 < n) : ∀ (k : Nat) (l : List α), l.length / n = k → (groups n l).length = k := by
  intro k
  induction k with
  | zero =>
    intro l h
    have : l.length < n := by
      rcases Nat.div_eq_zero_iff.mp h with h | h
      · omega
      · exact h
    rw [groups_short n l this]; rfl
  | succ k ih =>
    intro l h
    have hge : n ≤ l.length := by
      apply Nat.le_of_not_lt
      intro hc
      have : l.length / n = 0 := Nat.div_eq_of_lt hc
      omega
    rw [groups_cons n hn l hge, List.length_cons, ih]
    simp only [List.length_drop]
    have := Nat.div_eq_sub_div hn hge
    omega

theorem groups_length' {α} (n : Nat) (hn : 0 < n) (l : List α) : (groups n l).length = l.length / n :=
  groups_length n hn _ l rfl

/-! ## append / drop / take -/

theorem groups_append {α} (n : Nat) (hn : 0 < n) :
    ∀ (k : Nat) (x y : List α), x.length = k * n → groups n (x ++ y) = groups n x ++ groups n y := by
  intro k
  induction k with
  | zero =>
    intro x y h
    have hx : x = [] := List.eq_nil_of_length_eq_zero (by omega)
    subst hx
    rw [groups_short n [] (by simpa using hn)]; rfl
  | succ k ih =>
    intro x y h
    have hxn : n ≤ x.length := by rw [h, Nat.succ_mul]; omega
    have hxy : n ≤ (x ++ y).length := by rw [List.length_append]; omega
    rw [groups_cons n hn x hxn, groups_cons n hn (x ++ y) hxy]
    rw [List.take_append_of_le_length hxn, List.drop_append_of_le_length hxn]
    rw [ih (x.drop n) y (by rw [List.length_drop, h, Nat.succ_mul]; omega)]
    rfl

theorem groups_drop {α} (n : Nat) (hn : 0 < n) :
    ∀ (k : Nat) (l : List α), groups n (l.drop (k * n)) = (groups n l).drop k := by
  intro k
  induction k with
  | zero => intro l; simp
  | succ k ih =>
    intro l
    by_cases hl : n ≤ l.length
    · rw [groups_cons n hn l hl, List.drop_succ_cons, ← ih (l.drop n), List.drop_drop]
      congr 2
      rw [Nat.succ_mul]; omega
    · rw [groups_short n l (by omega), List.drop_nil]
      apply groups_short
      rw [List.length_drop]; omega

theorem groups_take {α} (n : Nat) (hn : 0 < n) :
    ∀ (k m : Nat) (l : List α), m / n = k → groups n (l.take m) = (groups n l).take k := by
  intro k
  induction k with
  | zero =>
    intro m l h
    have hm : m < n := by
      rcases Nat.div_eq_zero_iff.mp h with h | h
      · omega
      · exact h
    rw [List.take_zero]
    apply groups_short
    rw [List.length_take]; omega
  | succ k ih =>
    intro m l h
    have hmn : n ≤ m := by
      apply Nat.le_of_not_lt
      intro hc
      have : m / n = 0 := Nat.div_eq_of_lt hc
      omega
    by_cases hl : n ≤ l.length
    · have hl' : n ≤ (l.take m).length := by rw [List.length_take]; omega
      rw [groups_cons n hn l hl, groups_cons n hn (l.take m) hl', List.take_succ_cons]
      have h1 : (l.take m).take n = l.take n := by rw [List.take_take]; congr 1; omega
      have h2 : (l.take m).drop n = (l.drop n).take (m - n) := by rw [List.drop_take]
      rw [h1, h2, ih (m - n) (l.drop n)]
      have := Nat.div_eq_sub_div hn hmn
      omega
    · rw [groups_short n l (by omega), List.take_nil]
      apply groups_short
      rw [List.length_take]; omega

theorem groups_take' {α} (n : Nat) (hn : 0 < n) (m : Nat) (l : List α) :
    groups n (l.take m) = (groups n l).take (m / n) := groups_take n hn _ m l rfl

/-! ## the sample codecs over whole buffers -/

theorem Enc.decodeAll_length (e : Enc) (c : Conv) (ty : Ty) (hn : 0 < e.nbytes) (bs : List Byte) :
    (e.decodeAll c ty bs).length = bs.length / e.nbytes := by
  simp [Enc.decodeAll, groups_length' _ hn]

theorem Enc.decodeAll_append (e : Enc) (c : Conv) (ty : Ty) (hn : 0 < e.nbytes) (k : Nat) (x y : List Byte)
    (hx : x.length = k * e.nbytes) :
    e.decodeAll c ty (x ++ y) = e.decodeAll c ty x ++ e.decodeAll c ty y := by
  simp [Enc.decodeAll, groups_append _ hn k x y hx]

theorem Enc.decodeAll_drop (e : Enc) (c : Conv) (ty : Ty) (hn : 0 < e.nbytes) (k : Nat) (l : List Byte) :
    e.decodeAll c ty (l.drop (k * e.nbytes)) = (e.decodeAll c ty l).drop k := by
  simp [Enc.decodeAll, groups_drop _ hn k l]

theorem Enc.decodeAll_take (e : Enc) (c : Conv) (ty : Ty) (hn : 0 < e.nbytes) (m : Nat) (l : List Byte) :
    e.decodeAll c ty (l.take m) = (e.decodeAll c ty l).take (m / e.nbytes) := by
  simp [Enc.decodeAll, groups_take' _ hn m l]

theorem Enc.encode_length (e : Enc) (c : Conv) (ty : Ty) (v : Int) : (e.encode c ty v).length = e.nbytes := by
  cases e with
  | pcm p =>
    simp only [Enc.encode, Enc.nbytes, PcmFmt.encCode]
    split <;> simp [leBytes_length, beBytes_length]
  | flt big => simp only [Enc.encode, Enc.nbytes]; split <;> simp [leBytes_length, beBytes_length]
  | dbl big => simp only [Enc.encode, Enc.nbytes]; split <;> simp [leBytes_length, beBytes_length]
  | ulaw => simp [Enc.encode, Enc.nbytes]
  | alaw => simp [Enc.encode, Enc.nbytes]

theorem Enc.encodeAll_length (e : Enc) (c : Conv) (ty : Ty) (vs : List Int) :
    (e.encodeAll c ty vs).length = vs.length * e.nbytes := by
  induction vs with
  | nil => simp [Enc.encodeAll]
  | cons v vs ih =>
    simp only [Enc.encodeAll, List.flatMap_cons, List.length_append, List.length_cons] at *
    rw [ih, Enc.encode_length, Nat.succ_mul]; omega

end Sf
