/-
  SfProofs.AbsWriteLemmas — the write / truncate side of the abstract model: what an accepted write line means, and the
  algebra of `writeAt` (what was written is there, what was not overwritten is preserved).
-/
import SfProofs.AbsMeaning
namespace Sf.Abs

theorem size_upTo (hole : Item) (a : Array Item) (p : Nat) : (upTo hole a p).size = p := by
  unfold upTo; simp only [Array.size_append, Array.size_extract, Array.size_replicate]; omega

theorem size_writeAt (hole : Item) (a : Array Item) (p : Nat) (d : Array Item) :
    (writeAt hole a p d).size = max a.size (p + d.size) := by
  unfold writeAt; simp only [Array.size_append, size_upTo, Array.size_extract]; omega

/-- what was written is there -/
theorem writeAt_mid (hole : Item) (a : Array Item) (p : Nat) (d : Array Item) :
    (writeAt hole a p d).extract p (p + d.size) = d := by
  unfold writeAt
  rw [Array.extract_append, Array.extract_append]
  simp only [size_upTo, Array.size_append, Nat.sub_self, Nat.add_sub_cancel_left]
  rw [Array.extract_eq_empty_of_le (by rw [size_upTo]; omega)]
  have h3 : p - (p + d.size) = 0 := by omega
  rw [h3]
  simp

/-- what lies in front of the write position is preserved -/
theorem writeAt_prefix (hole : Item) (a : Array Item) (p : Nat) (d : Array Item) (hp : p ≤ a.size) :
    (writeAt hole a p d).extract 0 p = a.extract 0 p := by
  unfold writeAt
  rw [Array.extract_append, Array.extract_append]
  simp only [size_upTo, Array.size_append, Nat.zero_sub, Nat.sub_self]
  have h1 : p - (p + d.size) = 0 := by omega
  rw [h1, Array.extract_eq_empty_of_le (i := 0) (j := 0) (by omega), Array.extract_eq_empty_of_le (i := 0) (j := 0) (by omega)]
  unfold upTo
  have h2 : p - a.size = 0 := by omega
  rw [h2]
  simp

/-- an accepted answer to a valid write request -/
theorem writeOk_valid (g : Geom) (st : St) (ty : Ty) (fc : Bool) (n : Int) (data : Array Item) (o : Out) (st' : St)
    (hr : WriteReq g st fc n) (h : writeOk g st ty fc n data o = .ok st') :
    0 ≤ o.ret ∧ o.ret ≤ n ∧ retItems g fc o.ret % g.ch = 0 ∧ reqItems g fc n * cells ty ≤ data.size ∧
    (g.ioMayFail = false → o.ret = n) ∧ (o.ret = n → o.err = false) ∧
    st'.rpos = st.rpos ∧ st'.mode = st.mode ∧
    st'.wpos = st.wpos + retItems g fc o.ret / g.ch ∧
    (retItems g fc o.ret / g.ch = 0 → st'.frames = st.frames ∧ st'.ref = st.ref) ∧
    (0 < retItems g fc o.ret / g.ch →
      st'.frames = max st.frames st'.wpos ∧
      st'.ref ty = writeAt 0 (st.ref ty) (st.wpos * g.cpf ty) (data.extract 0 (retItems g fc o.ret * cells ty)) ∧
      st'.valid ty = (g.lossless ty && st.valid ty && (decide (st.wpos ≤ st.frames) || g.holeZero ty))) := by
  obtain ⟨hv, hm⟩ := hr
  have hn0 : ¬ n = 0 := by have := validReq_pos hv; omega
  unfold writeOk at h
  simp only [hn0, if_false, hv, hm, Bool.not_true, Bool.false_or, decide_false, Bool.false_eq_true] at h
  repeat' split at h
  all_goals first | (exact Res.noConfusion h) | skip
  all_goals (rename_i hsz hrng hwh hsh her hk; injection h with h; subst h)
  · refine ⟨by omega, by omega, by omega, by omega, ?_, ?_, rfl, rfl, by simp only; omega, fun _ => ⟨rfl, rfl⟩,
      fun hx => absurd hx (by omega)⟩
    · intro hio
      by_cases hx : o.ret = n
      · exact hx
      · exact absurd ⟨by omega, by simp [hio]⟩ hsh
    · intro hx
      cases he : o.err
      · rfl
      · exact absurd ⟨hx, he⟩ her
  · refine ⟨by omega, by omega, by omega, by omega, ?_, ?_, rfl, rfl, rfl, fun hx => absurd hx hk, fun _ => ⟨rfl, by simp, by simp⟩⟩
    · intro hio
      by_cases hx : o.ret = n
      · exact hx
      · exact absurd ⟨by omega, by simp [hio]⟩ hsh
    · intro hx
      cases he : o.err
      · rfl
      · exact absurd ⟨hx, he⟩ her

/-- C08 `whence_moves_only_that_pointer` / `plain_whence_moves_both` on accepted lines -/
theorem seek_accepted_pointers (g : Geom) (st : St) (off whence : Int) (o : Out) (st' : St) (hm : st.mode = .rw)
    (h : seekOk g st off whence o = .ok st') (hk : o.ret ≠ -1) :
    (seekQual whence = 0x10 → (st'.rpos : Int) = o.ret ∧ st'.wpos = st.wpos) ∧
    (seekQual whence = 0x20 → (st'.wpos : Int) = o.ret ∧ st'.rpos = st.rpos) ∧
    (seekQual whence = 0 → (st'.rpos : Int) = o.ret ∧ (st'.wpos : Int) = o.ret) ∧
    st'.frames = st.frames ∧ st'.ref = st.ref := by
  rcases seekOk_ok g st off whence o st' h with ⟨a, _, _⟩ | ⟨t, _, _, hr, _, hs⟩
  · exact absurd a hk
  · obtain ⟨f1, _, f3, _⟩ := seekMove_frames st whence t
    subst hs
    refine ⟨fun hq => ?_, fun hq => ?_, fun hq => ?_, f1, f3⟩
    · rw [seekMove_rd st whence t hq]; exact ⟨by simp only; omega, rfl⟩
    · rw [seekMove_wr st whence t hq]; exact ⟨by simp only; omega, rfl⟩
    · rw [seekMove_plain_rw st whence t hq hm]; exact ⟨by simp only; omega, by simp only; omega⟩

/-- C08 `truncate_shortens` on accepted lines: where the route truncates, the answer is 0 and the file has exactly `n`
    frames, both pointers at `n`; the frames in front of `n` are the old ones.  Otherwise (read mode, no `ftruncate`,
    negative count) the answer is non-zero and no position or count changes. -/
theorem truncOk_ok (g : Geom) (st : St) (n : Int) (o : Out) (st' : St) (h : truncOk g st n o = .ok st') :
    ((st.mode = .r ∨ g.canTrunc = false ∨ n < 0) → o.ret ≠ 0 ∧ st'.frames = st.frames ∧ st'.rpos = st.rpos ∧
      st'.wpos = st.wpos ∧ st'.ref = st.ref) ∧
    (st.mode ≠ .r → g.canTrunc = true → 0 ≤ n → o.ret = 0 ∧ o.err = false ∧ st'.frames = n.toNat ∧ st'.rpos = n.toNat ∧
      st'.wpos = n.toNat ∧ ∀ t, st'.ref t = upTo 0 ((st.ref t).extract 0 (n.toNat * g.cpf t)) (n.toNat * g.cpf t)) := by
  unfold truncOk at h
  split at h
  · rename_i hc
    split at h
    · rename_i hr; injection h with h; subst h
      refine ⟨fun _ => ⟨hr, rfl, rfl, rfl, rfl⟩, fun h1 h2 h3 => ?_⟩
      rcases hc with hc | hc | hc
      · exact absurd hc h1
      · simp [h2] at hc
      · omega
    · exact Res.noConfusion h
  · rename_i hc
    simp only at h
    split at h
    · exact Res.noConfusion h
    · rename_i hr; injection h with h; subst h
      refine ⟨fun hx => absurd ?_ hc, fun _ _ _ => ⟨by omega, ?_, rfl, rfl, rfl, fun _ => rfl⟩⟩
      · rcases hx with hx | hx | hx
        · exact Or.inl hx
        · exact Or.inr (Or.inl (by simp [hx]))
        · exact Or.inr (Or.inr hx)
      · cases he : o.err <;> simp_all

end Sf.Abs
