/-
  WAVEX: header length, and the write session invariant "store = some header of the right length ++ the audio so far";
  every header written with recomputed lengths is `hdrSnap`, wav_close leaves `image` (helpers for SfProps/C04Wavex.lean).
-/
import SfModel.Wavex
import SfProofs.Bytes
namespace Sf.Wavex
open Sf
set_option linter.unusedSimpArgs false

theorem u_length (big : Bool) (n : Nat) (v : Int) : (u big n v).length = n := by
  unfold u; split <;> simp [beBytes_length, leBytes_length]

theorem mk_lengths : (mk "RIFF").length = 4 ∧ (mk "RIFX").length = 4 ∧ (mk "WAVE").length = 4 ∧ (mk "fmt ").length = 4 ∧
    (mk "fact").length = 4 ∧ (mk "PEAK").length = 4 ∧ (mk "data").length = 4 := by decide

theorem fmtChunk_length (big : Bool) (codec ch sr : Nat) : (fmtChunk big codec ch sr).length = 48 := by
  simp [fmtChunk, guid, u_length, mk_lengths.2.2.2.1]

theorem peakEntries_length (big : Bool) (pk : List Peak) : (pk.flatMap (peakEntry big)).length = 8 * pk.length := by
  induction pk with
  | nil => rfl
  | cons p ps ih => simp [List.flatMap_cons, peakEntry, u_length, ih]; omega

theorem hdrRaw_length (c : Cfg) (fl dl fr : Int) (pk : List Peak) (hpk : isFloat c.codec = true → pk.length = c.ch) :
    (hdrRaw c fl dl fr pk).length = hdrLen c := by
  obtain ⟨g1, g2, g3, g4, g5, g6, g7⟩ := mk_lengths
  unfold hdrRaw hdrLen
  have hm : (if c.big = true then mk "RIFX" else mk "RIFF").length = 4 := by split <;> assumption
  by_cases hf : isFloat c.codec = true
  · simp only [hf, if_true, List.length_append, hm, u_length, fmtChunk_length, factChunk, peakChunk, peakEntries_length, hpk hf, g3, g5, g6, g7]
  · simp only [hf, Bool.false_eq_true, if_false, List.length_append, List.length_nil, hm, u_length, fmtChunk_length, factChunk, g3, g5, g7]

theorem writeAt_head (h0 rest h : List Byte) (hl : h.length = h0.length) : writeAt (h0 ++ rest) 0 h = h ++ rest := by
  simp [writeAt, hl]
theorem writeAt_end (bs d : List Byte) : writeAt bs bs.length d = bs ++ d := by simp [writeAt]

structure Inv (c : Cfg) (s : St) (D : List Byte) (w : Nat) (pk : List Peak) : Prop where
  hdr0 : ∃ h0 : List Byte, h0.length = hdrLen c ∧ s.bytes = h0 ++ D
  pos : s.pos = s.bytes.length
  off : s.dataoffset = hdrLen c
  wpos : s.wpos = w
  frames : s.frames = w
  dlen : D.length = w * c.bw
  dend : s.dataend = 0
  peaks : s.peaks = pk
  pklen : isFloat c.codec = true → pk.length = c.ch

theorem hdrLen_pos (c : Cfg) : 80 ≤ hdrLen c := by unfold hdrLen; omega

theorem frames_bytes (c : Cfg) (w : Nat) : (w : Int) * (bytewidth c.codec : Int) * (c.ch : Int) = ((w * c.bw : Nat) : Int) := by
  rw [Int.mul_assoc]; simp [Cfg.bw]

theorem writeHeader_inv {c : Cfg} {s : St} {D : List Byte} {w : Nat} {pk : List Peak} (i : Inv c s D w pk) (b : Bool) :
    Inv c (writeHeader c s b) D w pk ∧ (b = true → (writeHeader c s b).bytes = hdrSnap c w pk ++ D) ∧ (writeHeader c s b).auto = s.auto := by
  obtain ⟨h0, hl, hb⟩ := i.hdr0
  have hp := hdrLen_pos c
  have hlen : s.bytes.length = hdrLen c + w * c.bw := by rw [hb]; simp [hl, i.dlen]
  have hpos2 : s.pos > 0 := by rw [i.pos, hlen]; omega
  have hlenH : ∀ fl dl fr, (hdrRaw c fl dl fr s.peaks).length = hdrLen c := fun fl dl fr => hdrRaw_length c _ _ _ _ (by rw [i.peaks]; exact i.pklen)
  -- the position after the header write is the end of the store in both branches
  have hposEnd : ∀ L : Nat, L = hdrLen c →
      (if (!decide ((s.pos : Int) > s.dataoffset)) = true then L else if s.pos > 0 then s.pos else L) = hdrLen c + w * c.bw := by
    intro L hL
    by_cases hw : w * c.bw = 0
    · have h1 : ¬ ((s.pos : Int) > s.dataoffset) := by rw [i.off, i.pos, hlen]; omega
      have h2 : (!decide ((s.pos : Int) > s.dataoffset)) = true := by simp [h1]
      rw [h2, if_pos rfl, hL, hw]; rfl
    · have h1 : (s.pos : Int) > s.dataoffset := by rw [i.off, i.pos, hlen]; omega
      have h2 : (!decide ((s.pos : Int) > s.dataoffset)) = false := by simp [h1]
      rw [h2]; simp only [Bool.false_eq_true, if_false, hpos2, if_true]; rw [i.pos, hlen]
  cases b with
  | false =>
    refine ⟨⟨⟨hdrRaw c s.filelength s.datalength s.frames s.peaks, hlenH _ _ _, ?_⟩, ?_, ?_, ?_, ?_, i.dlen, ?_, ?_, i.pklen⟩, by simp, rfl⟩
    · simp only [writeHeader, Bool.false_eq_true, if_false]; rw [hb]; exact writeAt_head h0 D _ (by rw [hlenH, hl])
    · simp only [writeHeader, Bool.false_eq_true, if_false]
      rw [hposEnd _ (hlenH _ _ _), hb, writeAt_head h0 D _ (by rw [hlenH, hl])]; simp [hlenH, i.dlen]
    · simp only [writeHeader, Bool.false_eq_true, if_false]; exact congrArg _ (hlenH _ _ _)
    · simp only [writeHeader, Bool.false_eq_true, if_false]; exact i.wpos
    · simp only [writeHeader, Bool.false_eq_true, if_false]; exact i.frames
    · simp only [writeHeader, Bool.false_eq_true, if_false]; exact i.dend
    · simp only [writeHeader, Bool.false_eq_true, if_false]; exact i.peaks
  | true =>
    have hde : (s.dataend != 0) = false := by rw [i.dend]; rfl
    have hdl : s.frames * (bytewidth c.codec : Int) * (c.ch : Int) = ((w * c.bw : Nat) : Int) := by rw [i.frames]; exact frames_bytes c w
    have hfl : (s.bytes.length : Int) = ((hdrLen c + w * c.bw : Nat) : Int) := by rw [hlen]
    have hsl : (hdrSnap c w pk).length = hdrLen c := hdrRaw_length c _ _ _ _ i.pklen
    have hbytes : (writeHeader c s true).bytes = hdrSnap c w pk ++ D := by
      have e : (writeHeader c s true).bytes = writeAt s.bytes 0 (hdrRaw c (s.bytes.length : Int) (s.frames * (bytewidth c.codec : Int) * (c.ch : Int)) s.frames s.peaks) := by
        simp only [writeHeader, if_true, hde, Bool.false_eq_true, if_false]
      rw [e, hdl, hfl, i.frames, i.peaks, hb]
      exact writeAt_head h0 D (hdrSnap c w pk) (by rw [hl]; exact hsl)
    refine ⟨⟨⟨hdrSnap c w pk, hsl, hbytes⟩, ?_, ?_, ?_, ?_, i.dlen, ?_, ?_, i.pklen⟩, fun _ => hbytes, rfl⟩
    · have : (writeHeader c s true).pos = hdrLen c + w * c.bw := by
        simp only [writeHeader, if_true, hde, Bool.false_eq_true, if_false]
        exact hposEnd _ (hlenH _ _ _)
      rw [this, hbytes]; simp [hsl, i.dlen]
    · simp only [writeHeader, if_true, hde, Bool.false_eq_true, if_false]; exact congrArg _ (hlenH _ _ _)
    · simp only [writeHeader, if_true]; exact i.wpos
    · simp only [writeHeader, if_true]; exact i.frames
    · simp only [writeHeader, if_true]; exact i.dend
    · simp only [writeHeader, if_true]; exact i.peaks

theorem openW_inv (c : Cfg) (stale : Int) : Inv c (openW c stale) [] 0 (initPeaks c) := by
  have hhl : ∀ fl dl fr, (hdrRaw c fl dl fr (initPeaks c)).length = hdrLen c := fun _ _ _ => hdrRaw_length c _ _ _ _ (by intro h; simp [initPeaks, h])
  have hp := hdrLen_pos c
  have e : (if isFloat c.codec = true then List.replicate c.ch ({} : Peak) else []) = initPeaks c := rfl
  refine ⟨⟨hdrRaw c 0 0 0 (initPeaks c), hhl _ _ _, ?_⟩, ?_, ?_, rfl, rfl, by simp, rfl, rfl, by intro h; simp [initPeaks, h]⟩
  · simp [openW, writeHeader, writeAt, e]
  · simp [openW, writeHeader, writeAt, e, hhl]
  · simp [openW, writeHeader, e, hhl]

theorem step_inv {c : Cfg} {s : St} {D : List Byte} {w : Nat} {pk : List Peak} (i : Inv c s D w pk) (op : Op) (hv : op.valid c) :
    Inv c (step c s op) (D ++ op.data) (w + op.frames) (nextPeaks c pk op) ∧
    (∀ k data p, op = .write k data p → k ≠ 0 → s.auto = true →
      (step c s op).bytes = hdrSnap c (w + k) (nextPeaks c pk op) ++ (D ++ data)) := by
  cases op with
  | update =>
    refine ⟨by simpa [step, Op.data, Op.frames, nextPeaks] using (writeHeader_inv i true).1, ?_⟩
    intro k data p h; cases h
  | auto on =>
    refine ⟨?_, by intro k data p h; cases h⟩
    simp only [step, Op.data, Op.frames, List.append_nil, Nat.add_zero, nextPeaks]
    exact ⟨i.hdr0, i.pos, i.off, i.wpos, i.frames, i.dlen, i.dend, i.peaks, i.pklen⟩
  | write k data p =>
    obtain ⟨hk, hpl⟩ : data.length = k * c.bw ∧ p.length = c.ch := hv
    by_cases h0 : k = 0
    · subst h0
      refine ⟨by simpa [step, Op.data, Op.frames, nextPeaks] using i, ?_⟩
      intro k' d' p' h hk'; cases h; exact absurd rfl hk'
    · have hkb : (k == 0) = false := by simpa using h0
      simp only [step, hkb, Bool.false_eq_true, if_false, Op.data, Op.frames, nextPeaks, false_or]
      generalize hs1 : (if (!s.written) = true then writeHeader c s false else s) = s1
      have i1 : Inv c s1 D w pk ∧ s1.auto = s.auto := by
        rw [← hs1]; split
        · exact ⟨(writeHeader_inv i false).1, (writeHeader_inv i false).2.2⟩
        · exact ⟨i, rfl⟩
      obtain ⟨i1, ha1⟩ := i1
      obtain ⟨h0', hl, hb⟩ := i1.hdr0
      let pk' : List Peak := if (!isFloat c.codec) = true then pk else p
      have hpk' : (if isFloat c.codec = true then p else s1.peaks) = pk' := by
        simp only [pk']; rw [i1.peaks]; cases isFloat c.codec <;> simp
      let s2 : St := { s1 with written := true, peaks := pk', bytes := writeAt s1.bytes s1.pos data, pos := s1.pos + data.length, wpos := s1.wpos + k }
      let s3 : St := if s2.wpos > s2.frames then { s2 with frames := s2.wpos, dataend := 0 } else s2
      have hb2 : s2.bytes = h0' ++ (D ++ data) := by
        show writeAt s1.bytes s1.pos data = _
        rw [i1.pos, writeAt_end, hb, List.append_assoc]
      have hgt : s2.wpos > s2.frames := by
        show s1.wpos + (k : Int) > s1.frames
        rw [i1.wpos, i1.frames]; omega
      have e3 : s3 = { s2 with frames := s2.wpos, dataend := 0 } := by simp only [s3, hgt, if_true]
      have i3 : Inv c s3 (D ++ data) (w + k) pk' := by
        rw [e3]
        refine ⟨⟨h0', hl, hb2⟩, ?_, i1.off, ?_, ?_, ?_, rfl, rfl, ?_⟩
        · show s1.pos + data.length = (writeAt s1.bytes s1.pos data).length
          rw [i1.pos, writeAt_end]; simp
        · show s1.wpos + (k : Int) = ((w + k : Nat) : Int)
          rw [i1.wpos]; push_cast; rfl
        · show s1.wpos + (k : Int) = ((w + k : Nat) : Int)
          rw [i1.wpos]; push_cast; rfl
        · simp [i1.dlen, hk, Nat.add_mul]
        · intro hf; simp only [pk', hf]; simpa using hpl
      have hshape : (let s := { s1 with written := true, peaks := if isFloat c.codec = true then p else s1.peaks }
          let s := { s with bytes := writeAt s.bytes s.pos data, pos := s.pos + data.length, wpos := s.wpos + ↑k }
          let s := if s.wpos > s.frames then { s with frames := s.wpos, dataend := 0 } else s
          if s.auto = true then writeHeader c s true else s) = (if s3.auto = true then writeHeader c s3 true else s3) := by
        simp only [s3, s2, hpk']
      rw [hshape]
      constructor
      · split
        · exact (writeHeader_inv i3 true).1
        · exact i3
      · intro k' d' p' h hk' ha
        cases h
        have ha3 : s3.auto = true := by rw [e3]; show s1.auto = true; rw [ha1]; exact ha
        rw [if_pos ha3]
        exact (writeHeader_inv i3 true).2.1 rfl

theorem run_inv {c : Cfg} (ops : List Op) : ∀ {s : St} {D : List Byte} {w : Nat} {pk : List Peak}, Inv c s D w pk → (∀ op ∈ ops, op.valid c) →
    Inv c (run c s ops) (D ++ sessData ops) (w + sessFrames ops) (ops.foldl (nextPeaks c) pk) := by
  induction ops with
  | nil => intro s D w pk i _; simpa [run, sessData, sessFrames] using i
  | cons op ops ih =>
    intro s D w pk i hv
    have i1 := (step_inv i op (hv op (by simp))).1
    have := ih i1 (fun o ho => hv o (by simp [ho]))
    simpa [run, sessData, sessFrames, List.flatMap_cons, Nat.add_assoc] using this

/-- wav_close: tailer and final header -/
theorem close_bytes {c : Cfg} {s : St} {D : List Byte} {w : Nat} {pk : List Peak} (i : Inv c s D w pk) :
    (close c s).bytes = image c w pk D := by
  obtain ⟨h0, hl, hb⟩ := i.hdr0
  have hp := hdrLen_pos c
  have hlen : s.bytes.length = hdrLen c + w * c.bw := by rw [hb]; simp [hl, i.dlen]
  have hdl : s.frames * (bytewidth c.codec : Int) * (c.ch : Int) = ((w * c.bw : Nat) : Int) := by rw [i.frames]; exact frames_bytes c w
  have hde : s.dataoffset + s.frames * (bytewidth c.codec : Int) * (c.ch : Int) = ((hdrLen c + w * c.bw : Nat) : Int) := by
    rw [hdl, i.off]; push_cast; rfl
  have hhl : ∀ fl dl fr, (hdrRaw c fl dl fr pk).length = hdrLen c := fun _ _ _ => hdrRaw_length c _ _ _ _ i.pklen
  unfold close
  simp only [hde]
  have hpos : ((hdrLen c + w * c.bw : Nat) : Int) > 0 := by omega
  simp only [hpos, if_true, Int.toNat_natCast]
  have hne : ((((hdrLen c + w * c.bw : Nat) : Int) != 0) = true) := by simp; omega
  by_cases hodd : (hdrLen c + w * c.bw) % 2 = 1
  · have h1 : ((((hdrLen c + w * c.bw : Nat) : Int) % 2 == 1) = true) := by
      have : ((hdrLen c + w * c.bw : Nat) : Int) % 2 = 1 := by omega
      rw [this]; rfl
    simp only [h1, if_true]
    have hw : writeAt s.bytes (hdrLen c + w * c.bw) [0] = h0 ++ (D ++ [0]) := by
      rw [← hlen, writeAt_end, hb, List.append_assoc]
    simp only [writeHeader, if_true, hw, hne]
    have hfl : ((h0 ++ (D ++ [0])).length : Int) = ((hdrLen c + w * c.bw + (tail c w).length : Nat) : Int) := by
      simp [hl, i.dlen, tail, hodd]; omega
    have hdl2 : ((hdrLen c + w * c.bw + (tail c w).length : Nat) : Int) - s.dataoffset - (((hdrLen c + w * c.bw + (tail c w).length : Nat) : Int) - ((hdrLen c + w * c.bw : Nat) : Int)) = ((w * c.bw : Nat) : Int) := by
      rw [i.off]; push_cast; omega
    rw [hfl, hdl2, i.frames, i.peaks, writeAt_head h0 (D ++ [0]) _ (by rw [hl]; exact hhl _ _ _)]
    simp [image, tail, hodd, hdr]
  · have h1 : ((((hdrLen c + w * c.bw : Nat) : Int) % 2 == 1) = false) := by
      have : ((hdrLen c + w * c.bw : Nat) : Int) % 2 = 0 := by omega
      rw [this]; rfl
    simp only [h1, Bool.false_eq_true, if_false]
    simp only [writeHeader, if_true, hne]
    have hfl : (s.bytes.length : Int) = ((hdrLen c + w * c.bw + (tail c w).length : Nat) : Int) := by
      rw [hlen]; simp [tail, hodd]
    have hdl2 : ((hdrLen c + w * c.bw + (tail c w).length : Nat) : Int) - s.dataoffset - (((hdrLen c + w * c.bw + (tail c w).length : Nat) : Int) - ((hdrLen c + w * c.bw : Nat) : Int)) = ((w * c.bw : Nat) : Int) := by
      rw [i.off]; push_cast; omega
    rw [hfl, hdl2, i.frames, i.peaks, hb, writeAt_head h0 D _ (by rw [hl]; exact hhl _ _ _)]
    simp [image, tail, hodd, hdr]

end Sf.Wavex
