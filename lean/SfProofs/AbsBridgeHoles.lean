/-
  SfProofs.AbsBridgeHoles — HOLES on the read side of the bridge Sf.Handle → Sf.Abs: a write beyond the end of the data
  (the store zero-fills the gap: `Sf.writeAt`) and an extending SFC_FILE_TRUNCATE (`truncBytes`).

  * `holeZeroFor e ty`: the (encoding, caller type) pairs for which a sample of all-zero bytes IS the value 0 — signed PCM of
    every width read as short / int, float data read as float, double data read as double or float.  NOT unsigned 8-bit PCM
    (0x00 is −128), µ-law (0x00 is −32124) or A-law (0x00 is −5504): `hole_not_zero_u8 / _ulaw / _alaw`.
  * `decode_zeros`, `decodeAll_zeros`: zero bytes decode to zero items for those pairs, whatever the conversion settings.
  * `decode_after_write_hole`: the decoded data region after a write of lossless samples at frame W ≥ F is the old stream,
    (W − F)·ch zero items, the samples.
  * `writeAt_encBuf_hole`: `Abs.writeAt 0` (what the predicate goes on judging with when the geometry claims `holeZero`) on cell
    arrays is that list surgery.
  * `write_ref_hole`: THE BRIDGE STEP for a write past the end on a read/write handle: the decoded data region of the store
    after the call IS `Abs.writeAt 0 (absRef before) (wpos·cpf) cells`.
-/
import SfProofs.AbsBridgeLossless
namespace Sf.AbsBridge
open Sf

/-- does a sample of all-zero bytes decode to the value 0 for this caller type (conversion-free pairs only) -/
def holeZeroFor : Enc → Ty → Bool
  | .pcm p, .s16 => !p.unsigned
  | .pcm p, .s32 => !p.unsigned
  | .flt _, .f32 => true
  | .dbl _, .f64 => true
  | .dbl _, .f32 => true
  | _, _ => false

theorem ofLE_zeros : ∀ n : Nat, ofLE (zeros n) = 0
  | 0 => rfl
  | n + 1 => by
    have : zeros (n + 1) = 0 :: zeros n := rfl
    rw [this, ofLE, ofLE_zeros n]

theorem ofBE_zeros (n : Nat) : ofBE (zeros n) = 0 := by
  unfold ofBE
  have : (zeros n).reverse = zeros n := by simp [zeros]
  rw [this, ofLE_zeros]

theorem sext_zero (w : Nat) : sext w 0 = 0 := by
  unfold sext
  have : (0 : Nat) < 2 ^ (w - 1) := Nat.pow_pos (by decide)
  simp [this]

/-- one sample of zero bytes is the value 0 -/
theorem decode_zeros (e : Enc) (ty : Ty) (h : holeZeroFor e ty = true) (c : Conv) : e.decode c ty (zeros e.nbytes) = 0 := by
  cases e with
  | pcm p =>
    have hu : p.unsigned = false := by cases ty <;> simp [holeZeroFor] at h <;> exact h
    have hcode : p.decCode (zeros p.nbytes) = 0 := by
      unfold PcmFmt.decCode
      simp only [ofBE_zeros, ofLE_zeros, ite_self, hu, Bool.false_eq_true, if_false, sext_zero]
    cases ty with
    | s16 =>
      show p.toS16 (p.decCode (zeros p.nbytes)) = 0
      rw [hcode]; unfold PcmFmt.toS16
      split
      · decide
      · simp [asr]
    | s32 =>
      show p.toS32 (p.decCode (zeros p.nbytes)) = 0
      rw [hcode]; unfold PcmFmt.toS32; simp [wrapS]
    | f32 => simp [holeZeroFor] at h
    | f64 => simp [holeZeroFor] at h
  | flt big =>
    cases ty <;> simp [holeZeroFor] at h
    show ((if big then ofBE (zeros 4) else ofLE (zeros 4) : Nat) : Int) = 0
    simp [ofBE_zeros, ofLE_zeros]
  | dbl big =>
    cases ty <;> simp [holeZeroFor] at h
    · show ((Float.f64to32 (if big then ofBE (zeros 8) else ofLE (zeros 8)) : Nat) : Int) = 0
      simp only [ofBE_zeros, ofLE_zeros, ite_self]; decide
    · show ((if big then ofBE (zeros 8) else ofLE (zeros 8) : Nat) : Int) = 0
      simp [ofBE_zeros, ofLE_zeros]
  | ulaw => cases ty <;> simp [holeZeroFor] at h
  | alaw => cases ty <;> simp [holeZeroFor] at h

theorem zeros_mul (k n : Nat) : zeros (k * n) = (List.replicate k ()).flatMap (fun _ => zeros n) := by
  induction k with
  | zero => simp [zeros]
  | succ k ih =>
    rw [List.replicate_succ, List.flatMap_cons, ← ih]
    unfold zeros
    rw [Nat.succ_mul, Nat.add_comm, List.replicate_append_replicate]

/-- `k` samples of zero bytes are `k` zero items -/
theorem decodeAll_zeros (e : Enc) (ty : Ty) (h : holeZeroFor e ty = true) (c : Conv) (hnb : 0 < e.nbytes) (k : Nat) :
    e.decodeAll c ty (zeros (k * e.nbytes)) = List.replicate k 0 := by
  unfold Enc.decodeAll
  rw [zeros_mul, groups_flatMap e.nbytes hnb _ _ (fun _ _ => by simp [zeros])]
  simp [decode_zeros e ty h c]

/-- what zero bytes are for the encodings outside `holeZeroFor` -/
theorem hole_not_zero_u8 : (Enc.pcm ⟨8, true, false⟩).decode {} .s16 (zeros 1) = -32768 := by decide
theorem hole_not_zero_ulaw : Enc.ulaw.decode {} .s16 (zeros 1) = -32124 := by decide
theorem hole_not_zero_alaw : Enc.alaw.decode {} .s16 (zeros 1) = -5504 := by decide

/-! ## a write past the end -/

/-- the decoded data region after a write of whole frames of lossless samples at frame `W ≥ F`: a gap of zero items -/
theorem decode_after_write_hole (hw : WidenExact) (e : Enc) (he : e.wf) (hnb : 0 < e.nbytes) (c c' : Conv) (ty : Ty) (chn : Nat)
    (D : List Byte) (F W : Nat) (vals : List Int) (hD : D.length = F * (e.nbytes * chn)) (hFW : F ≤ W)
    (hv : ∀ v ∈ vals, ty.inRange v) (hl : ∀ v ∈ vals, lossless e ty v) (hz : holeZeroFor e ty = true) :
    e.decodeAll c' ty (Sf.writeAt D (W * (e.nbytes * chn)) (e.encodeAll c ty vals)) =
      e.decodeAll c' ty D ++ List.replicate ((W - F) * chn) 0 ++ vals := by
  have e1 : ∀ x : Nat, x * (e.nbytes * chn) = (x * chn) * e.nbytes := by
    intro x; rw [Nat.mul_comm e.nbytes, Nat.mul_assoc]
  have hpos : D.length ≤ W * (e.nbytes * chn) := by rw [hD]; exact Nat.mul_le_mul_right _ hFW
  have hgap : W * (e.nbytes * chn) - D.length = ((W - F) * chn) * e.nbytes := by
    rw [hD, ← Nat.sub_mul, e1]
  have hpre : (if W * (e.nbytes * chn) ≤ D.length then D.take (W * (e.nbytes * chn)) else D ++ zeros (W * (e.nbytes * chn) - D.length)) =
      D ++ zeros (((W - F) * chn) * e.nbytes) := by
    split
    · rename_i hle
      have heq : W * (e.nbytes * chn) = D.length := Nat.le_antisymm hle hpos
      have h0 : (W - F) * chn * e.nbytes = 0 := by rw [← hgap, heq, Nat.sub_self]
      rw [heq, List.take_length, h0]; simp [zeros]
    · rw [hgap]
  have hdrop : D.drop (W * (e.nbytes * chn) + (e.encodeAll c ty vals).length) = [] :=
    List.drop_eq_nil_of_le (by omega)
  unfold Sf.writeAt
  simp only []
  rw [hpre, hdrop, List.append_nil, List.append_assoc,
    Enc.decodeAll_append e c' ty hnb (F * chn) D _ (by rw [hD, e1]),
    Enc.decodeAll_append e c' ty hnb ((W - F) * chn) _ _ (by simp [zeros]),
    decodeAll_zeros e ty hz c' hnb,
    Enc.decodeAll_encodeAll_of e hnb c c' ty vals (fun v hm => Enc.sample_roundtrip hw e he c c' ty v (hv v hm) (hl v hm)),
    List.append_assoc]

theorem encBuf_replicate_zero (ty : Ty) (n : Nat) : encBuf ty (List.replicate n 0) = Array.replicate (n * Abs.cells ty) 0 := by
  apply Array.ext
  · rw [encBuf_size, List.length_replicate, Array.size_replicate]
  · intro i h1 h2
    rw [Array.getElem_replicate]
    have key : ∀ (l : List Abs.Item) (j : Nat) (hj : j < l.toArray.size), (∀ c ∈ l, c = 0) → l.toArray[j] = 0 := by
      intro l j hj hall
      apply hall
      rw [List.getElem_toArray]
      exact List.getElem_mem _
    exact key _ _ h1 (cellList_replicate_zero ty n)

/-- `Abs.writeAt 0` on cell arrays for a write position at or beyond the end of the stream: zero items fill the gap -/
theorem writeAt_encBuf_hole (ty : Ty) (items vals : List Int) (p : Nat) (hp : items.length ≤ p) :
    Abs.writeAt 0 (encBuf ty items) (p * Abs.cells ty) (encBuf ty vals) =
      encBuf ty (items ++ List.replicate (p - items.length) 0 ++ vals) := by
  unfold Abs.writeAt Abs.upTo
  have hsz : (encBuf ty items).size ≤ p * Abs.cells ty := by rw [encBuf_size]; exact Nat.mul_le_mul_right _ hp
  have h1 : (encBuf ty items).extract 0 (p * Abs.cells ty) = encBuf ty items := Array.extract_eq_self_of_le hsz
  have h2 : (encBuf ty items).extract (p * Abs.cells ty + (encBuf ty vals).size) (encBuf ty items).size = #[] := by
    apply Array.extract_empty_of_size_le_start; omega
  rw [h1, h2, encBuf_size, ← Nat.sub_mul, ← encBuf_replicate_zero, encBuf_append, encBuf_append]
  simp

/-- THE BRIDGE STEP FOR A WRITE PAST THE END: after a write of lossless in-range samples at a write position beyond the
    frame count of a read/write handle, for a pair whose zero bytes decode to zero, the decoded data region of the store is
    `Abs.writeAt 0` of the cells handed over — with the zero-filled gap — the stream the predicate goes on judging with
    when the geometry claims `holeZero` -/
theorem write_ref_hole (hw : WidenExact) (h : H) (s : Store) (inv : RwInv h s) (ty : Ty) (fc : Bool) (vals : List Int)
    (m : Nat) (hm0 : 0 < m) (hvl : vals.length = m * h.ch) (he : h.enc.wf) (hv : ∀ v ∈ vals, ty.inRange v)
    (hl : ∀ v ∈ vals, lossless h.enc ty v) (hFW : h.frames ≤ h.wpos) (hz : holeZeroFor h.enc ty = true) :
    absRef (stepAny h s ((ROp.write ty fc vals).toOp h)).1 (stepAny h s ((ROp.write ty fc vals).toOp h)).2.1 ty =
      Abs.writeAt 0 (absRef h s ty) (h.wpos.toNat * (h.ch * Abs.cells ty)) (encBuf ty vals) := by
  obtain ⟨R, W, F, hdr, D, v⟩ := inv
  have hch := v.ch_pos
  have hnb := v.nb_pos
  have hbw := v.bw_pos
  have hmod : vals.length % h.ch = 0 := by rw [hvl]; exact Nat.mul_mod_left _ _
  have hdiv : vals.length / h.ch = m := by rw [hvl]; exact Nat.mul_div_cancel _ hch
  obtain ⟨_, inv', habs⟩ := rdwr_step h s (.write ty fc vals) ⟨R, W, F, hdr, D, v⟩ hmod
  have hn : 0 < callCount h fc m := by
    unfold callCount; cases fc
    · simp only [Bool.false_eq_true, if_false]; exact Int.ofNat_lt.mpr (Nat.mul_pos hm0 hch)
    · simp only [if_true]; exact Int.ofNat_lt.mpr hm0
  have ha : fc = true ∨ callCount h fc m % (h.ch : Int) = 0 := by
    cases fc
    · right; simp [callCount]
    · left; rfl
  simp only [ROp.toOp, stepAny, hdiv] at inv' habs ⊢
  obtain ⟨fl, dl, off, de, pk, e, _, _⟩ := stepWrite_fields h s ty fc (callCount h fc m) vals hn (by rw [v.mode]; decide) ha
  have henc : (stepWrite h s ty fc (callCount h fc m) vals).1.enc = h.enc := by rw [e]
  have hconv : (stepWrite h s ty fc (callCount h fc m) vals).1.conv = h.conv := by rw [e]
  have hbw' : (stepWrite h s ty fc (callCount h fc m) vals).1.bw = h.bw := by rw [e]; rfl
  have hWn : F ≤ W := by have := v.wpos; have := v.frames; omega
  have hel : (h.enc.encodeAll h.conv ty vals).length = m * h.bw := by
    rw [Enc.encodeAll_length, hvl]; unfold H.bw; rw [Nat.mul_assoc, Nat.mul_comm h.ch]
  have hX : (Sf.writeAt D (W * h.bw) (h.enc.encodeAll h.conv ty vals)).length = max F (W + m) * h.bw := by
    rw [writeAt_length, v.dlen, hel, ← Nat.add_mul]
    rcases Nat.le_total F (W + m) with hle | hle
    · rw [Nat.max_eq_right hle, Nat.max_eq_right (Nat.mul_le_mul_right _ hle)]
    · rw [Nat.max_eq_left hle, Nat.max_eq_left (Nat.mul_le_mul_right _ hle)]
  have hfl : (writtenFrames h ty vals).length = m := by
    rw [(writtenFrames_facts h ty vals hch hnb hmod).1, hdiv]
  have hne : writtenFrames h ty vals ≠ [] := by
    intro hx; rw [hx] at hfl; simp at hfl; omega
  have hD' : dataRegion (stepWrite h s ty fc (callCount h fc m) vals).1 (stepWrite h s ty fc (callCount h fc m) vals).2.1 =
      Sf.writeAt D (W * h.bw) (h.enc.encodeAll h.conv ty vals) := by
    apply dataRegion_of_frames _ _ inv' _ (max F (W + m)) (by rw [hbw']; exact hX)
    rw [habs, hbw']
    simp only [ROp.toAOp, AbsFile.stepOpt, AbsFile.step]
    rw [AbsFile.write_frames _ _ _ hne, v.abs, groups_writeAt _ hbw D _ F W m v.dlen hel, hfl]
    rfl
  unfold absRef
  rw [hD', henc, hconv, v.dataRegion]
  have hdec := decode_after_write_hole hw h.enc he hnb h.conv h.conv ty h.ch D F W vals v.dlen hWn hv hl hz
  unfold H.bw
  rw [hdec]
  have hwn : h.wpos.toNat = W := by rw [v.wpos]; exact Int.toNat_natCast W
  have hil : (h.enc.decodeAll h.conv ty D).length = F * h.ch := by
    rw [Enc.decodeAll_length _ _ _ hnb, v.dlen]
    unfold H.bw; rw [Nat.mul_comm h.enc.nbytes, ← Nat.mul_assoc, Nat.mul_div_cancel _ hnb]
  rw [hwn, ← Nat.mul_assoc, writeAt_encBuf_hole ty _ vals (W * h.ch) (by rw [hil]; exact Nat.mul_le_mul_right _ hWn), hil,
    ← Nat.sub_mul]

end Sf.AbsBridge
