/-
  SfProofs.SdsFileLemmas — the SDS write session of SfModel/SdsFile.lean:

  * `Sim`: two session states that agree on what the closed file is made of (complete packets, packet counter, the
    fresh part of the staging buffer) — whatever the stale tail of the buffer, the flushed partial packet, the header
    bytes and psf->sf.frames hold.  Every operation preserves it (`push_sim`, `emit_sim`), so any session is similar to
    the plain run of its samples (`run_sim`), and similar states close to the same bytes (`close_sim`).
  * `Shape`: the layout invariant (every packet 127 bytes, `write_block * spb + write_count` samples consumed).
  * the header bytes read back (`dec3_enc3`, `header_reads`).
-/
import SfModel.SdsFile
import SfProofs.Small2Session
namespace Sf.SdsFile
open Sf Sf.Sds

/-! ### lists -/

theorem take_set_succ (l : List Int) (i : Nat) (x : Int) (h : i < l.length) : (l.set i x).take (i + 1) = l.take i ++ [x] := by
  induction l generalizing i with
  | nil => simp at h
  | cons a t ih =>
    cases i with
    | zero => simp
    | succ j => simp at h; simp [ih j h]

theorem take_full (l : List Int) (n : Nat) (h : l.length = n) : l.take n = l := by subst h; simp

/-! ### records: `push`, `flush`, `emit` leave `total` alone and commute with setting it -/

theorem flush_total (c : Cfg) (s : St) : (flush c s).total = s.total := rfl
theorem push_total (c : Cfg) (s : St) (x : Int) : (push c s x).total = s.total := by
  unfold push; split <;> rfl
theorem emit_total (c : Cfg) (s : St) (b : Bool) : (emit c s b).total = s.total := rfl
theorem foldl_push_total (c : Cfg) (xs : List Int) : ∀ s : St, (xs.foldl (push c) s).total = s.total := by
  induction xs with
  | nil => intro s; rfl
  | cons x r ih => intro s; rw [List.foldl_cons, ih, push_total]

/-! ### similarity -/

structure Sim (c : Cfg) (s t : St) : Prop where
  pk : s.pkts = t.pkts
  wb : s.wblock = t.wblock
  wc : s.wcount = t.wcount
  fresh : s.buf.take s.wcount = t.buf.take t.wcount
  ls : s.buf.length = c.spb
  lt : t.buf.length = c.spb
  small : s.wcount < c.spb
  ps : s.wcount = 0 → s.pending = []
  pt : t.wcount = 0 → t.pending = []

theorem Sim.refl (c : Cfg) (s : St) (h1 : s.buf.length = c.spb) (h2 : s.wcount < c.spb) (h3 : s.wcount = 0 → s.pending = []) : Sim c s s :=
  ⟨rfl, rfl, rfl, rfl, h1, h1, h2, h3, h3⟩

theorem push_sim (c : Cfg) (s t : St) (x : Int) (h : Sim c s t) : Sim c (push c s x) (push c t x) := by
  obtain ⟨pk, wb, wc, fresh, ls, lt, small, ps, pt⟩ := h
  have e1 : (s.buf.set s.wcount x).take (s.wcount + 1) = (t.buf.set t.wcount x).take (t.wcount + 1) := by
    rw [take_set_succ _ _ _ (by omega), take_set_succ _ _ _ (by omega), fresh]
  unfold push
  by_cases hfull : s.wcount + 1 ≥ c.spb
  · have hfull' : t.wcount + 1 ≥ c.spb := by omega
    rw [if_pos hfull, if_pos hfull']
    have a := take_full (s.buf.set s.wcount x) (s.wcount + 1) (by simp [ls]; omega)
    have b := take_full (t.buf.set t.wcount x) (t.wcount + 1) (by simp [lt]; omega)
    have eb : s.buf.set s.wcount x = t.buf.set t.wcount x := a.symm.trans (e1.trans b)
    refine ⟨?_, ?_, rfl, rfl, ?_, ?_, ?_, fun _ => rfl, fun _ => rfl⟩
    · simp only [flush, pk, wb, eb]
    · simp only [flush, wb]
    · simp [flush, ls]
    · simp [flush, lt]
    · show 0 < c.spb; omega
  · have hfull' : ¬ (t.wcount + 1 ≥ c.spb) := by omega
    rw [if_neg hfull, if_neg hfull']
    refine ⟨pk, wb, by simp only [wc], e1, by simp [ls], by simp [lt], by show s.wcount + 1 < c.spb; omega, ?_, ?_⟩
    · intro h0; exact absurd h0 (by simp)
    · intro h0; exact absurd h0 (by simp)

theorem foldl_push_sim (c : Cfg) (xs : List Int) : ∀ s t : St, Sim c s t → Sim c (xs.foldl (push c) s) (xs.foldl (push c) t) := by
  induction xs with
  | nil => intro s t h; exact h
  | cons x r ih => intro s t h; exact ih _ _ (push_sim c s t x h)

/-- a header write changes only the header bytes, psf->sf.frames and the flushed copy of the partial packet -/
theorem emit_sim_left (c : Cfg) (s t : St) (b : Bool) (h : Sim c s t) : Sim c (emit c s b) t := by
  obtain ⟨pk, wb, wc, fresh, ls, lt, small, ps, pt⟩ := h
  refine ⟨pk, wb, wc, fresh, ls, lt, small, ?_, pt⟩
  intro h0
  have h0' : s.wcount = 0 := h0
  show (if s.wcount > 0 then _ else s.pending) = []
  rw [if_neg (by omega)]; exact ps h0'

theorem setTotal_sim_left (c : Cfg) (s t : St) (n : Nat) (h : Sim c s t) : Sim c { s with total := n } t :=
  ⟨h.pk, h.wb, h.wc, h.fresh, h.ls, h.lt, h.small, h.ps, h.pt⟩

theorem Sim.symm {c : Cfg} {s t : St} (h : Sim c s t) : Sim c t s :=
  ⟨h.pk.symm, h.wb.symm, h.wc.symm, h.fresh.symm, h.lt, h.ls, by rw [← h.wc]; exact h.small, h.pt, h.ps⟩

theorem Sim.trans {c : Cfg} {s t u : St} (h1 : Sim c s t) (h2 : Sim c t u) : Sim c s u :=
  ⟨h1.pk.trans h2.pk, h1.wb.trans h2.wb, h1.wc.trans h2.wc, h1.fresh.trans h2.fresh, h1.ls, h2.lt, h1.small, h1.ps, h2.pt⟩

/-- one write call is similar to pushing its samples -/
theorem write_sim (c : Cfg) (s t : St) (xs : List Int) (auto first : Bool) (h : Sim c s t) :
    Sim c (write c s xs auto first) (xs.foldl (push c) t) := by
  unfold write
  simp only []
  have h1 : Sim c (if first then emit c s false else s) t := by
    cases first
    · exact h
    · exact emit_sim_left c s t false h
  have h2 := setTotal_sim_left c _ t ((if first then emit c s false else s).total + xs.length) h1
  have h3 := foldl_push_sim c xs _ _ h2
  cases auto
  · exact h3
  · exact emit_sim_left c _ _ true h3

/-- **any session is similar to the plain run of its samples** -/
theorem run_sim (c : Cfg) (ops : List WOp) : ∀ (s t : St) (b : Bool), Sim c s t →
    Sim c (ops.foldl (stepOp c) (s, b)).1 ((opsData ops).foldl (push c) t) := by
  induction ops with
  | nil => intro s t b h; exact h
  | cons op r ih =>
    intro s t b h
    cases op with
    | write xs auto =>
      rw [List.foldl_cons]
      by_cases he : xs.isEmpty = true
      · have : xs = [] := List.isEmpty_iff.mp he
        subst this
        simp only [stepOp, List.isEmpty_nil, if_true, opsData, List.nil_append]
        exact ih s t b h
      · simp only [stepOp, he, opsData, List.foldl_append]
        exact ih _ _ false (write_sim c s t xs auto b h)
    | update =>
      rw [List.foldl_cons]
      simp only [stepOp, opsData, update]
      exact ih _ _ b (emit_sim_left c s t true h)

/-- the total a session has accumulated -/
theorem run_total (c : Cfg) (ops : List WOp) : ∀ (s : St) (b : Bool),
    (ops.foldl (stepOp c) (s, b)).1.total = s.total + (opsData ops).length := by
  induction ops with
  | nil => intro s b; simp [opsData]
  | cons op r ih =>
    intro s b
    cases op with
    | write xs auto =>
      rw [List.foldl_cons]
      by_cases he : xs.isEmpty = true
      · have : xs = [] := List.isEmpty_iff.mp he
        subst this
        simp only [stepOp, List.isEmpty_nil, if_true, opsData, List.nil_append]
        exact ih s b
      · have : (write c s xs auto b).total = s.total + xs.length := by
          unfold write; simp only []
          cases auto <;> cases b <;> simp [emit_total, foldl_push_total]
        simp only [stepOp, he, opsData, List.length_append, Bool.false_eq_true, if_false]
        rw [ih, this]; omega
    | update =>
      rw [List.foldl_cons]
      simp only [stepOp, opsData, update]
      rw [ih, emit_total]

/-- **similar states with the same total close to the same file** -/
theorem close_sim (c : Cfg) (s t : St) (h : Sim c s t) (ht : s.total = t.total) : (close c s).bytes = (close c t).bytes := by
  obtain ⟨pk, wb, wc, fresh, ls, lt, small, ps, pt⟩ := h
  unfold close
  by_cases h0 : s.wcount > 0
  · have h0' : t.wcount > 0 := by omega
    simp only [h0, h0', if_true]
    have fresh' : List.take t.wcount s.buf = List.take t.wcount t.buf := by have := fresh; rw [wc] at this; exact this
    simp [emit, flush, St.bytes, pk, wb, wc, fresh', ht]
  · have h0' : ¬ t.wcount > 0 := by omega
    simp only [h0, h0', if_false]
    have e1 := ps (by omega)
    have e2 := pt (by omega)
    simp [emit, h0, h0', St.bytes, pk, e1, e2, ht]

theorem open_sim (c : Cfg) (a : Nat) (hspb : 0 < c.spb) : Sim c (openW c a) (openW c a) :=
  Sim.refl c _ (by simp [openW]) (by simp [openW]; exact hspb) (fun _ => rfl)

theorem spb_pos (c : Cfg) (hwf : c.wf) : 0 < c.spb := by
  obtain ⟨hc, _⟩ := hwf
  rcases hc with h | h | h <;> (unfold Cfg.spb Cfg.w Cfg.bitwidth; rw [h]; decide)

/-! ### the header bytes read back -/

theorem dec3_enc3 (x : Nat) : dec3 (enc3 x) = x % 2 ^ 21 := by
  unfold dec3 enc3; simp only [List.getD_cons_zero, List.getD_cons_succ]; omega

theorem header_length (bw sr n : Nat) : (header bw sr n).length = 21 := by simp [header, enc3]

/-- what sds_read_header looks at, on `header ++ rest` -/
theorem header_reads (bw sr n : Nat) (rest : List Byte) :
    let bs := header bw sr n ++ rest
    bs.getD 0 0 = 0xF0 ∧ bs.getD 1 0 = 0x7E ∧ bs.getD 3 0 = 1 ∧ bs.getD 6 0 = bw ∧
    (bs.drop 7).take 3 = enc3 (1000000000 / sr) ∧ (bs.drop 10).take 3 = enc3 n ∧ bs.length = 21 + rest.length := by
  refine ⟨rfl, rfl, rfl, rfl, rfl, rfl, ?_⟩
  simp [header, enc3]; omega

theorem guess_sds (bw sr n : Nat) (rest : List Byte) : Small2.guess (header bw sr n ++ rest) = some (.fmt 0x110000) := by
  rfl

/-! ### the layout of a plain run -/

theorem encSample_length (w : Nat) (hw : w ≤ 4) (x : Int) : (encSample w x).length = w := by
  unfold encSample; simp; omega

theorem flatMap_enc_length (w : Nat) (hw : w ≤ 4) (buf : List Int) : (buf.flatMap (encSample w)).length = buf.length * w := by
  induction buf with
  | nil => simp
  | cons a r ih => simp [List.flatMap_cons, encSample_length w hw, ih, Nat.add_mul]; omega

theorem encBlock_length (c : Cfg) (hwf : c.wf) (k : Nat) (buf : List Int) (hb : buf.length = c.spb) :
    (encBlock c.w k buf).2.length = 127 := by
  have hw : c.w ≤ 4 ∧ c.spb * c.w = 120 := by
    obtain ⟨hc, _⟩ := hwf
    rcases hc with h | h | h <;> (unfold Cfg.spb Cfg.w Cfg.bitwidth; rw [h]; decide)
  unfold encBlock
  simp [flatMap_enc_length c.w hw.1, hb, hw.2]

/-- the state of a plain run after `n` samples -/
structure Shape (c : Cfg) (n : Nat) (s : St) : Prop where
  lb : s.buf.length = c.spb
  small : s.wcount < c.spb
  cnt : s.wblock * c.spb + s.wcount = n
  np : s.pkts.length = s.wblock
  plen : ∀ p ∈ s.pkts, p.length = 127
  pend : s.pending = []

theorem open_shape (c : Cfg) (hwf : c.wf) (a : Nat) : Shape c 0 (openW c a) :=
  ⟨by simp [openW], by simp [openW]; exact spb_pos c hwf, by simp [openW], rfl, by simp [openW], rfl⟩

theorem push_shape (c : Cfg) (hwf : c.wf) (n : Nat) (s : St) (x : Int) (h : Shape c n s) : Shape c (n + 1) (push c s x) := by
  obtain ⟨lb, small, cnt, np, plen, pend⟩ := h
  unfold push
  by_cases hfull : s.wcount + 1 ≥ c.spb
  · rw [if_pos hfull]
    refine ⟨by simp [flush, lb], by show 0 < c.spb; omega, ?_, by simp [flush, np], ?_, rfl⟩
    · show (s.wblock + 1) * c.spb + 0 = n + 1
      rw [Nat.add_mul]; omega
    · intro p hp
      simp only [flush, List.mem_cons] at hp
      rcases hp with h | h
      · rw [h]; exact encBlock_length c hwf _ _ (by simp [lb])
      · exact plen p h
  · rw [if_neg hfull]
    exact ⟨by simp [lb], by show s.wcount + 1 < c.spb; omega, by show s.wblock * c.spb + (s.wcount + 1) = n + 1; omega, np, plen, pend⟩

theorem foldl_push_shape (c : Cfg) (hwf : c.wf) (xs : List Int) : ∀ (n : Nat) (s : St), Shape c n s →
    Shape c (n + xs.length) (xs.foldl (push c) s) := by
  induction xs with
  | nil => intro n s h; exact h
  | cons x r ih =>
    intro n s h
    have := ih (n + 1) _ (push_shape c hwf n s x h)
    simpa [Nat.add_assoc, Nat.add_comm 1] using this

/-- the plain run of `xs`, with the total the write calls have accumulated -/
def canon (c : Cfg) (xs : List Int) : St := { (xs.foldl (push c) (openW c 0)) with total := xs.length }

theorem flatten_length_127 (l : List (List Byte)) (h : ∀ p ∈ l, p.length = 127) : l.flatten.length = 127 * l.length := by
  induction l with
  | nil => rfl
  | cons a r ih =>
    have h1 := h a (List.mem_cons_self ..)
    have h2 := ih (fun p hp => h p (List.mem_cons_of_mem _ hp))
    simp [h1, h2]; omega

/-- **the closed file of a plain run**: the header for `N` samples and `⌈N / spb⌉` packets of 127 bytes -/
theorem close_canon (c : Cfg) (hwf : c.wf) (xs : List Int) :
    ∃ body : List Byte, (close c (canon c xs)).bytes = header c.bitwidth c.sr xs.length ++ body ∧
      body.length = 127 * ((xs.length + c.spb - 1) / c.spb) := by
  have hs := foldl_push_shape c hwf xs 0 _ (open_shape c hwf 0)
  rw [Nat.zero_add] at hs
  generalize hS : xs.foldl (push c) (openW c 0) = S at hs
  obtain ⟨lb, small, cnt, np, plen, pend⟩ := hs
  have hspb := spb_pos c hwf
  unfold close canon
  rw [hS]
  by_cases h0 : S.wcount > 0
  · simp only [h0, if_true]
    refine ⟨_, rfl, ?_⟩
    simp only [emit, flush, Nat.lt_irrefl, if_false, List.append_nil, List.reverse_cons, List.flatten_append, List.length_append,
      List.flatten_cons, List.flatten_nil, gt_iff_lt]
    rw [flatten_length_127 _ (by intro p hp; exact plen p (List.mem_reverse.mp hp)), List.length_reverse, np,
      encBlock_length c hwf _ _ (by simp [lb]; omega)]
    have : (xs.length + c.spb - 1) / c.spb = S.wblock + 1 := by
      rw [← cnt]
      have : S.wblock * c.spb + S.wcount + c.spb - 1 = (S.wcount - 1) + (S.wblock + 1) * c.spb := by rw [Nat.add_mul]; omega
      rw [this, Nat.add_mul_div_right _ _ hspb, Nat.div_eq_of_lt (by omega)]; omega
    rw [this]; omega
  · simp only [h0, if_false]
    refine ⟨_, rfl, ?_⟩
    have hw0 : S.wcount = 0 := by omega
    simp only [emit, hw0, Nat.lt_irrefl, if_false, pend, List.append_nil, gt_iff_lt]
    rw [flatten_length_127 _ (by intro p hp; exact plen p (List.mem_reverse.mp hp)), List.length_reverse, np]
    have : (xs.length + c.spb - 1) / c.spb = S.wblock := by
      rw [← cnt, hw0, Nat.add_zero]
      have : S.wblock * c.spb + c.spb - 1 = (c.spb - 1) + S.wblock * c.spb := by omega
      rw [this, Nat.add_mul_div_right _ _ hspb, Nat.div_eq_of_lt (by omega)]; omega
    rw [this]

/-- **every session closes to the file of the plain run of its samples** -/
theorem closed_eq_canon (c : Cfg) (hwf : c.wf) (stale : Nat) (ops : List WOp) :
    closedBytes c stale ops = (close c (canon c (opsData ops))).bytes := by
  unfold closedBytes run
  have h := run_sim c ops (openW c stale) (openW c 0) true (open_sim c 0 (spb_pos c hwf))
  have ht := run_total c ops (openW c stale) true
  apply close_sim c _ _ (setTotal_sim_left c _ _ _ h.symm).symm
  rw [ht]; simp [canon, openW]

/-- the store after a header update: similar to the plain run, so it has the same complete packets -/
theorem snapshot_parts (c : Cfg) (hwf : c.wf) (stale : Nat) (ops : List WOp) :
    ∃ S : St, S = (ops.foldl (stepOp c) (openW c stale, true)).1 ∧
      snapshotBytes c stale ops = header c.bitwidth c.sr (opsData ops).length ++
        (((opsData ops).foldl (push c) (openW c 0)).pkts.reverse.flatten ++ (if S.wcount > 0 then (encBlock c.w S.wblock S.buf).2 else [])) ∧
      S.wcount = ((opsData ops).foldl (push c) (openW c 0)).wcount ∧
      S.buf.take S.wcount = (((opsData ops).foldl (push c) (openW c 0)).buf).take S.wcount := by
  have h := run_sim c ops (openW c stale) (openW c 0) true (open_sim c 0 (spb_pos c hwf))
  have ht := run_total c ops (openW c stale) true
  refine ⟨_, rfl, ?_, h.wc, ?_⟩
  · unfold snapshotBytes run update St.bytes
    simp only [emit, ht, h.pk]
    have : (openW c stale).total = 0 := rfl
    rw [this, Nat.zero_add]
    by_cases h0 : (ops.foldl (stepOp c) (openW c stale, true)).1.wcount > 0
    · simp only [h0, if_true]
    · simp only [h0, if_false]
      rw [h.ps (by omega)]
  · have := h.fresh; rw [← h.wc] at this; exact this

end Sf.SdsFile
