/-
  CAF: `parse` applied to the files the writer produces (helpers for SfProps/C04Caf.lean: caf_reopen_info).
-/
import SfProofs.CafImage
import SfProofs.HdrReadLemmas
namespace Sf.Caf
open Sf Sf.HdrRd Sf.CafW64
set_option linter.unusedSimpArgs false

theorem sext64_be8 (v : Nat) (h : v < 2 ^ 63) : sext 64 (ofBE (beBytes 8 v)) = v := by
  rw [ofBE_beBytes]
  have e : (256 : Nat) ^ 8 = 2 ^ 64 := by decide
  have : v % 256 ^ 8 = v := Nat.mod_eq_of_lt (by rw [e]; omega)
  rw [this]; unfold sext
  rw [if_pos (by omega)]

theorem ofBE_be4 (v : Nat) (h : v < 2 ^ 32) : ofBE (beBytes 4 v) = v := by
  have e : (256 : Nat) ^ 4 = 2 ^ 32 := by decide
  rw [ofBE_beBytes, e]; exact Nat.mod_eq_of_lt h

theorem mk_cmp : (mk "free" == [0, 0, 0, 0]) = false ∧ (mk "free" == mk "peak") = false ∧ (mk "free" == mk "chan") = false ∧
    (mk "free" == mk "info") = false ∧ (mk "free" == mk "pakt") = false ∧ (mk "free" == mk "data") = false ∧
    (mk "data" == [0, 0, 0, 0]) = false ∧ (mk "data" == mk "peak") = false ∧ (mk "data" == mk "chan") = false ∧
    (mk "data" == mk "info") = false ∧ (mk "data" == mk "pakt") = false ∧ (mk "peak" == [0, 0, 0, 0]) = false := by decide

/-- the last two iterations of the chunk walk: 'free', then 'data' -/
theorem walk_free_data (pre data tl : List Byte) (ch F fuel : Nat) (hF : F < 4096)
    (hlim : pre.length + 12 + F ≤ cacheLimit) (hD : data.length ≤ 0x7FFFFFFF) (htl : tl.length ≤ 1) :
    walk (pre ++ (mk "free" ++ (beBytes 8 F ++ (zeros F ++ (mk "data" ++ (beBytes 8 (wrapU 64 ((data.length : Int) + 4)) ++ (beBytes 4 0 ++ (data ++ tl))))))))
      ch (fuel + 2) ⟨pre.length, pre.length, false⟩ {} =
    .done { haveData := true, dataoffset := pre.length + 12 + F + 16, datalength := data.length,
            dataend := if tl.length = 0 then 0 else ((pre.length + 12 + F + 16 + data.length : Nat) : Int) } := by
  obtain ⟨c1, c2, c3, c4, c5, c6, d1, d2, d3, d4, d5, _⟩ := mk_cmp
  obtain ⟨_, _, _, g4, g5, _⟩ := mk_lengths
  generalize hbs : pre ++ (mk "free" ++ (beBytes 8 F ++ (zeros F ++ (mk "data" ++ (beBytes 8 (wrapU 64 ((data.length : Int) + 4)) ++ (beBytes 4 0 ++ (data ++ tl))))))) = bs
  have hlen : bs.length = pre.length + 12 + F + 16 + data.length + tl.length := by
    rw [← hbs]; simp [beBytes_length, zeros, g4, g5]; omega
  -- first iteration: 'free'
  have h1 : rdSeq bs [4, 8] ⟨pre.length, pre.length, false⟩ = ([mk "free", beBytes 8 F], ⟨pre.length + 12, pre.length + 12, false⟩) := by
    rw [rdSeq_at [mk "free", beBytes 8 F] (pre := pre) (by rw [← hbs]; simp only [List.flatten_cons, List.flatten_nil, List.append_nil, List.append_assoc]; rfl) (by simp [beBytes_length, g4]) (Nat.le_refl _)]
    simp [beBytes_length, g4]
  have hw : wrapU 64 ((data.length : Int) + 4) = data.length + 4 := by
    have := wrapU_nat 64 (data.length + 4) (by omega)
    simpa using this
  have h2 : rdSeq bs [4, 8] ⟨pre.length + 12 + F, pre.length + 12 + F, false⟩ =
      ([mk "data", beBytes 8 (data.length + 4)], ⟨pre.length + 12 + F + 12, pre.length + 12 + F + 12, false⟩) := by
    have hpl : pre.length + 12 + F = (pre ++ (mk "free" ++ (beBytes 8 F ++ zeros F))).length := by simp [beBytes_length, zeros, g4]; omega
    rw [hpl, rdSeq_at [mk "data", beBytes 8 (data.length + 4)] (pre := pre ++ (mk "free" ++ (beBytes 8 F ++ zeros F)))
      (by rw [← hbs, hw]; simp only [List.flatten_cons, List.flatten_nil, List.append_nil, List.append_assoc]; rfl) (by simp [beBytes_length, g5]) (Nat.le_refl _)]
    simp [beBytes_length, g5]
  have h3 : rdBE bs ⟨pre.length + 12 + F + 12, pre.length + 12 + F + 12, false⟩ 4 = (0, ⟨pre.length + 12 + F + 16, pre.length + 12 + F + 16, false⟩) := by
    have hpl : pre.length + 12 + F + 12 = (pre ++ (mk "free" ++ (beBytes 8 F ++ (zeros F ++ (mk "data" ++ beBytes 8 (data.length + 4)))))).length := by
      simp [beBytes_length, zeros, g4, g5]; omega
    rw [hpl, rdBE_at (fld := beBytes 4 0) (pre := pre ++ (mk "free" ++ (beBytes 8 F ++ (zeros F ++ (mk "data" ++ beBytes 8 (data.length + 4))))))
      (by rw [← hbs, hw]; simp only [List.append_assoc]; rfl) (by simp [beBytes_length])]
    have : ofBE (beBytes 4 0) = 0 := by decide
    rw [this]; simp [beBytes_length, zeros, g4, g5]; omega
  have hs1 := sext64_be8 F (by omega)
  have hs2 := sext64_be8 (data.length + 4) (by omega)
  rw [walk, h1]
  simp only [c1, Bool.false_eq_true, if_false, hs1, c2, c3, c4, c5, c6, false_or]
  have e1 : ¬ ((F : Int) < 0) := by omega
  have e2 : ¬ ((F : Int) > (bs.length : Int)) := by rw [hlen]; omega
  have e3 : ¬ (((pre.length + 12 : Nat) : Int) + (F : Int) > (cacheLimit : Int)) := by omega
  have e4 : ¬ ((F : Int) ≥ 0xffffff00) := by omega
  simp only [e1, e2, e3, e4, if_false]
  rw [skip_fwd bs (pre.length + 12) (pre.length + 12) F (by rw [hlen]; omega) (by rw [hlen]; omega)]
  have hm : max (pre.length + 12) (pre.length + 12 + F) = pre.length + 12 + F := by omega
  rw [hm, ftell_ok]
  have e5 : ¬ (((pre.length + 12 + F : Nat) : Int) ≥ (bs.length : Int) - 8) := by rw [hlen]; omega
  simp only [e5, if_false]
  -- second iteration: 'data'
  rw [walk, h2]
  simp only [d1, Bool.false_eq_true, if_false, hs2, d2, d3, d4, d5, false_or]
  have f1 : ¬ (((data.length + 4 : Nat) : Int) < 0) := by omega
  have f2 : ¬ (((data.length + 4 : Nat) : Int) > (bs.length : Int)) := by rw [hlen]; omega
  simp only [f1, f2, if_false, beq_self_eq_true, if_true, h3]
  have f3 : ¬ ((bs.length : Int) > 0 ∧ ((data.length + 4 : Nat) : Int) > (bs.length : Int) - ((pre.length + 12 + F + 16 : Nat) : Int) + 10) := by
    rw [hlen]; omega
  simp only [f3, if_false]
  have f4 : ((data.length + 4 : Nat) : Int) - 4 = (data.length : Int) := by omega
  rw [f4]
  have f5 : ¬ ((data.length : Int) < -0x80000000 ∨ (data.length : Int) > 0x7FFFFFFF) := by omega
  simp only [f5, if_false]
  rw [skip_fwd bs _ _ data.length (by rw [hlen]; omega) (by rw [hlen]; omega), ftell_ok]
  have f6 : ((max (pre.length + 12 + F + 16) (pre.length + 12 + F + 16 + data.length) : Nat) : Int) ≥ (bs.length : Int) - 8 := by
    rw [hlen]; omega
  simp only [f6, if_true, Int.toNat_natCast]
  by_cases ht : tl.length = 0
  · simp [ht]; intro h; exfalso; rw [hlen] at h; push_cast at h; omega
  · simp [ht]; rw [hlen]; push_cast; omega

theorem rdPeaks_at (pk : List Peak) : ∀ (pre rest : List Byte),
    rdPeaks (pre ++ (pk.flatMap peakEntry ++ rest)) pk.length ⟨pre.length, pre.length, false⟩ =
      ⟨pre.length + 12 * pk.length, pre.length + 12 * pk.length, false⟩ := by
  induction pk with
  | nil => intro pre rest; simp [rdPeaks]
  | cons p ps ih =>
    intro pre rest
    simp only [List.length_cons, rdPeaks]
    have hb1 : pre ++ ((p :: ps).flatMap peakEntry ++ rest) =
        pre ++ (beBytes 4 (Float.f64to32 p.value) ++ (beBytes 8 (wrapU 64 p.position) ++ (ps.flatMap peakEntry ++ rest))) := by
      simp [List.flatMap_cons, peakEntry]
    have hb2 : pre ++ ((p :: ps).flatMap peakEntry ++ rest) =
        (pre ++ beBytes 4 (Float.f64to32 p.value)) ++ (beBytes 8 (wrapU 64 p.position) ++ (ps.flatMap peakEntry ++ rest)) := by
      simp [List.flatMap_cons, peakEntry]
    have hb3 : pre ++ ((p :: ps).flatMap peakEntry ++ rest) =
        (pre ++ beBytes 4 (Float.f64to32 p.value) ++ beBytes 8 (wrapU 64 p.position)) ++ (ps.flatMap peakEntry ++ rest) := by
      simp [List.flatMap_cons, peakEntry]
    rw [rdBE_at hb1 (by simp [beBytes_length])]
    simp only
    have m1 : max pre.length (pre.length + 4) = pre.length + 4 := by omega
    have l1 : pre.length + 4 = (pre ++ beBytes 4 (Float.f64to32 p.value)).length := by simp [beBytes_length]
    rw [m1, l1, rdBE_at hb2 (by simp [beBytes_length])]
    simp only
    have m2 : max (pre ++ beBytes 4 (Float.f64to32 p.value)).length ((pre ++ beBytes 4 (Float.f64to32 p.value)).length + 8) =
        (pre ++ beBytes 4 (Float.f64to32 p.value) ++ beBytes 8 (wrapU 64 p.position)).length := by simp [beBytes_length]
    have l2 : (pre ++ beBytes 4 (Float.f64to32 p.value)).length + 8 = (pre ++ beBytes 4 (Float.f64to32 p.value) ++ beBytes 8 (wrapU 64 p.position)).length := by
      simp [beBytes_length]
    rw [m2, l2, hb3, ih]
    simp [beBytes_length]; omega

/-- one iteration over the 'peak' chunk of a float / double file -/
theorem walk_peak (c : Cfg) (pk : List Peak) (pre rest : List Byte) (fuel : Nat) (s : Scan) (hpk : pk.length = c.ch) (hch : c.ch ≤ 1024)
    (hrest : 28 ≤ rest.length) :
    walk (pre ++ (peakChunk c pk ++ rest)) c.ch (fuel + 1) ⟨pre.length, pre.length, false⟩ s =
    walk (pre ++ (peakChunk c pk ++ rest)) c.ch fuel ⟨pre.length + 16 + 12 * c.ch, pre.length + 16 + 12 * c.ch, false⟩ s := by
  obtain ⟨_, _, g3, _⟩ := mk_lengths
  have hp0 := mk_cmp.2.2.2.2.2.2.2.2.2.2.2
  generalize hbs : pre ++ (peakChunk c pk ++ rest) = bs
  have hlen : bs.length = pre.length + 16 + 12 * c.ch + rest.length := by
    rw [← hbs]; simp [peakChunk_length, hpk]; omega
  have h1 : rdSeq bs [4, 8] ⟨pre.length, pre.length, false⟩ = ([mk "peak", beBytes 8 (4 + 12 * c.ch)], ⟨pre.length + 12, pre.length + 12, false⟩) := by
    rw [rdSeq_at [mk "peak", beBytes 8 (4 + 12 * c.ch)] (pre := pre)
      (by rw [← hbs]; simp only [peakChunk, List.flatten_cons, List.flatten_nil, List.append_nil, List.append_assoc]; rfl) (by simp [beBytes_length, g3]) (Nat.le_refl _)]
    simp [beBytes_length, g3]
  have h2 : rdBE bs ⟨pre.length + 12, pre.length + 12, false⟩ 4 = (0, ⟨pre.length + 16, pre.length + 16, false⟩) := by
    have hpl : pre.length + 12 = (pre ++ (mk "peak" ++ beBytes 8 (4 + 12 * c.ch))).length := by simp [beBytes_length, g3]
    rw [hpl, rdBE_at (fld := beBytes 4 0) (pre := pre ++ (mk "peak" ++ beBytes 8 (4 + 12 * c.ch)))
      (by rw [← hbs]; simp only [peakChunk, List.append_assoc]; rfl) (by simp [beBytes_length])]
    have : ofBE (beBytes 4 0) = 0 := by decide
    rw [this]; simp [beBytes_length, g3]
  have h3 : rdPeaks bs c.ch ⟨pre.length + 16, pre.length + 16, false⟩ = ⟨pre.length + 16 + 12 * c.ch, pre.length + 16 + 12 * c.ch, false⟩ := by
    have hpl : pre.length + 16 = (pre ++ (mk "peak" ++ (beBytes 8 (4 + 12 * c.ch) ++ beBytes 4 0))).length := by simp [beBytes_length, g3]
    have hb : bs = (pre ++ (mk "peak" ++ (beBytes 8 (4 + 12 * c.ch) ++ beBytes 4 0))) ++ (pk.flatMap peakEntry ++ rest) := by
      rw [← hbs]; simp only [peakChunk, List.append_assoc]
    rw [hpl, hb, ← hpk, rdPeaks_at]
  have hs := sext64_be8 (4 + 12 * c.ch) (by omega)
  rw [walk, h1]
  simp only [hp0, Bool.false_eq_true, if_false, hs, beq_self_eq_true, if_true]
  have e1 : ¬ (((4 + 12 * c.ch : Nat) : Int) < 0) := by omega
  have e2 : ¬ (((4 + 12 * c.ch : Nat) : Int) > (bs.length : Int)) := by rw [hlen]; omega
  have e3 : ¬ (((4 + 12 * c.ch : Nat) : Int) ≠ 4 + 12 * (c.ch : Int)) := by push_cast; omega
  have e4 : ¬ (((4 + 12 * c.ch : Nat) : Int) ≥ 0xffffff00) := by omega
  simp only [e1, e2, e3, e4, if_false, h2, h3, ftell_ok]
  have e5 : ¬ (((pre.length + 16 + 12 * c.ch : Nat) : Int) ≥ (bs.length : Int) - 8) := by rw [hlen]; omega
  simp only [e5, if_false]

/-! ### the whole file -/

def flds52 (c : Cfg) : List (List Byte) :=
  [mk "caff", beBytes 2 1, beBytes 2 0, mk "desc", beBytes 8 32, beBytes 8 (Float.f64.ofInt c.sr), fmtId c.codec, beBytes 4 (fmtFlags c),
   beBytes 4 c.bw, beBytes 4 1, beBytes 4 c.ch, beBytes 4 (8 * bytewidth c.codec)]

/-- everything after the 52 fixed bytes -/
def body (c : Cfg) (n : Nat) (pk : List Peak) (data : List Byte) : List Byte :=
  peakPart c pk ++ (mk "free" ++ (beBytes 8 (freeLen c) ++ (zeros (freeLen c) ++ (mk "data" ++
    (beBytes 8 (wrapU 64 (((n * c.bw : Nat) : Int) + 4)) ++ (beBytes 4 0 ++ (data ++ tail c n)))))))

theorem image_shape (c : Cfg) (n : Nat) (pk : List Peak) (data : List Byte) :
    image c n pk data = [] ++ ((flds52 c).flatten ++ body c n pk data) := by
  simp only [image, hdr, hdrRaw_eq, descChunk_eq, descRest, flds52, body, List.flatten_cons, List.flatten_nil, List.append_assoc,
    List.append_nil, List.nil_append]

theorem flds52_lengths (c : Cfg) : (flds52 c).map List.length = [4, 2, 2, 4, 8, 8, 4, 4, 4, 4, 4, 4] ∧ (flds52 c).flatten.length = 52 := by
  obtain ⟨g1, g2, _⟩ := mk_lengths
  simp [flds52, beBytes_length, fmtId_length, g1, g2]

theorem decodeDesc_cfg (c : Cfg) (hwf : c.wf) :
    decodeDesc { fmtId := fmtId c.codec, flags := fmtFlags c, pktBytes := c.bw, fpp := 1, ch := c.ch, bits := 8 * bytewidth c.codec } =
      some (c.codec, bytewidth c.codec) ∧ (fmtId c.codec == mk "alac") = false ∧
    (if fmtFlags c / 2 % 2 == 1 then 0x10000000 else 0) = (if c.little then 0x10000000 else 0) := by
  obtain ⟨hc, _, h1, h2, _⟩ := hwf
  have hm : ∀ k : Nat, k ≤ 8 → k * c.ch % 4294967296 = k * c.ch := fun k hk => Nat.mod_eq_of_lt (by
    have : k * c.ch ≤ 8 * 1024 := Nat.mul_le_mul hk h2
    omega)
  have m1 : c.ch % 4294967296 = c.ch := by have := hm 1 (by omega); simpa using this
  have m2 := hm 2 (by omega); have m3 := hm 3 (by omega); have m4 := hm 4 (by omega); have m8 := hm 8 (by omega)
  have q1 : mk "lpcm" ≠ mk "alaw" := by decide
  have q2 : mk "lpcm" ≠ mk "ulaw" := by decide
  have q3 : mk "lpcm" ≠ mk "alac" := by decide
  have q4 : mk "alaw" ≠ mk "lpcm" := by decide
  have q5 : mk "alaw" ≠ mk "alac" := by decide
  have q6 : mk "ulaw" ≠ mk "lpcm" := by decide
  have q7 : mk "ulaw" ≠ mk "alaw" := by decide
  have q8 : mk "ulaw" ≠ mk "alac" := by decide
  simp [codecs] at hc
  rcases hc with h | h | h | h | h | h | h | h <;> cases hl : c.little <;>
    simp [decodeDesc, fmtId, fmtFlags, isFloat, Cfg.bw, bytewidth, h, hl, m1, m2, m3, m4, m8, q1, q2, q3, q4, q5, q6, q7, q8]

/-- `caf_read_header` + codec init on a closed file of the writer: every parameter and the frame count come back.
    Guards: the audio is at most 2^31 − 1 bytes (the parser hands `datalength` to a conversion that takes an `int`). -/
theorem parse_image (c : Cfg) (hwf : c.wf) (n : Nat) (pk : List Peak) (data : List Byte)
    (hpk : isFloat c.codec = true → pk.length = c.ch) (hd : data.length = n * c.bw) (hsz : n * c.bw ≤ 0x7FFFFFFF) :
    parse (image c n pk data) =
      .ok { fmtWord := (if c.little then 0x10000000 else 0) + 0x180000 + c.codec, ch := c.ch, sr := c.sr, frames := n,
            dataoffset := dataOffset c, datalength := n * c.bw } := by
  obtain ⟨g1, g2, g3, g4, g5, _⟩ := mk_lengths
  obtain ⟨hcodec, _, hch1, hch2, hsr1, hsr2⟩ := hwf
  have hwf' : c.wf := ⟨hcodec, by assumption, hch1, hch2, hsr1, hsr2⟩
  have hbw : 0 < c.bw := by
    have : 0 < bytewidth c.codec := by
      simp [codecs] at hcodec
      rcases hcodec with h | h | h | h | h | h | h | h <;> rw [h] <;> decide
    exact Nat.mul_pos this (by omega)
  have hal := dataOffset_aligned c
  have hpl := peakPart_length c pk hpk
  have hfl : freeLen c < 4096 := by unfold freeLen; omega
  have hoff : preLen c + 12 + freeLen c + 16 = dataOffset c := rfl
  have hpre : preLen c ≤ 12356 := by unfold preLen; split <;> omega
  have hoff2 : dataOffset c ≤ 16384 := by
    have : (preLen c + 28 + freeLen c) % 4096 = 0 := by have := hal.1; unfold dataOffset at this; omega
    unfold dataOffset; omega
  have htl : (tail c n).length ≤ 1 := by unfold tail; split <;> simp
  generalize hbs : image c n pk data = bs
  have hshape : bs = [] ++ ((flds52 c).flatten ++ body c n pk data) := by rw [← hbs]; exact image_shape c n pk data
  have hlen : bs.length = dataOffset c + data.length + (tail c n).length := by rw [← hbs]; exact image_length c n pk data hpk
  obtain ⟨fl1, fl2⟩ := flds52_lengths c
  -- the 52 fixed bytes
  have h52 : rdSeq bs [4, 2, 2, 4, 8, 8, 4, 4, 4, 4, 4, 4] {} = (flds52 c, ⟨52, 52, false⟩) := by
    have := rdSeq_at (flds52 c) (pre := []) (e := 12) hshape fl1.symm (by simp)
    rw [fl2] at this
    simpa using this
  have t1 : bs.take 4 = mk "caff" := by
    rw [hshape]; simp [flds52, g1]
  have t2 : (bs.drop 8).take 4 = mk "desc" := by
    have hb : bs = (mk "caff" ++ beBytes 2 1 ++ beBytes 2 0) ++ (mk "desc" ++ ((flds52 c).drop 4).flatten ++ body c n pk data) := by
      rw [hshape]; simp [flds52]
    have := slice_mid (mk "caff" ++ beBytes 2 1 ++ beBytes 2 0) (mk "desc") (((flds52 c).drop 4).flatten ++ body c n pk data)
    rw [hb]; simpa [beBytes_length, g1, g2] using this
  -- the chunk walk
  have hwalk : walk bs c.ch bs.length ⟨52, 52, false⟩ {} =
      .done { haveData := true, dataoffset := dataOffset c, datalength := data.length,
              dataend := if (tail c n).length = 0 then 0 else ((dataOffset c + data.length : Nat) : Int) } := by
    have hbl : 3 ≤ bs.length := by rw [hlen]; omega
    obtain ⟨fuel, hf⟩ : ∃ fuel, bs.length = fuel + 3 := ⟨bs.length - 3, by omega⟩
    have hw : wrapU 64 (((n * c.bw : Nat) : Int) + 4) = wrapU 64 ((data.length : Int) + 4) := by rw [hd]
    by_cases hfloat : isFloat c.codec = true
    · have hpp : peakPart c pk = peakChunk c pk := by simp [peakPart, hfloat]
      have hb : bs = (flds52 c).flatten ++ (peakChunk c pk ++ (mk "free" ++ (beBytes 8 (freeLen c) ++ (zeros (freeLen c) ++ (mk "data" ++
          (beBytes 8 (wrapU 64 ((data.length : Int) + 4)) ++ (beBytes 4 0 ++ (data ++ tail c n)))))))) := by
        rw [hshape, body, hpp, hw]; simp
      have hb2 : bs = ((flds52 c).flatten ++ peakChunk c pk) ++ (mk "free" ++ (beBytes 8 (freeLen c) ++ (zeros (freeLen c) ++ (mk "data" ++
          (beBytes 8 (wrapU 64 ((data.length : Int) + 4)) ++ (beBytes 4 0 ++ (data ++ tail c n))))))) := by
        rw [hb]; simp
      have hpl2 : ((flds52 c).flatten ++ peakChunk c pk).length = preLen c := by
        simp [fl2, peakChunk_length, hpk hfloat, preLen, hfloat]
      rw [hf]
      have := walk_peak c pk (flds52 c).flatten (mk "free" ++ (beBytes 8 (freeLen c) ++ (zeros (freeLen c) ++ (mk "data" ++
          (beBytes 8 (wrapU 64 ((data.length : Int) + 4)) ++ (beBytes 4 0 ++ (data ++ tail c n))))))) (fuel + 2) {} (hpk hfloat) hch2
          (by simp [beBytes_length, zeros, g4, g5]; omega)
      rw [← hb, fl2] at this
      rw [this]
      have h2 := walk_free_data ((flds52 c).flatten ++ peakChunk c pk) data (tail c n) c.ch (freeLen c) fuel hfl
        (by rw [hpl2]; unfold cacheLimit; omega) (by rw [hd]; exact hsz) htl
      rw [← hb2, hpl2] at h2
      have e0 : 52 + 16 + 12 * c.ch = preLen c := by simp [preLen, hfloat]; omega
      rw [e0, h2, hoff]
    · have hpp : peakPart c pk = [] := by simp [peakPart, hfloat]
      have hb : bs = (flds52 c).flatten ++ (mk "free" ++ (beBytes 8 (freeLen c) ++ (zeros (freeLen c) ++ (mk "data" ++
          (beBytes 8 (wrapU 64 ((data.length : Int) + 4)) ++ (beBytes 4 0 ++ (data ++ tail c n))))))) := by
        rw [hshape, body, hpp, hw]; simp
      have hpl2 : (flds52 c).flatten.length = preLen c := by simp [fl2, preLen, hfloat]
      have hf' : bs.length = (fuel + 1) + 2 := by omega
      rw [hf']
      have h2 := walk_free_data (flds52 c).flatten data (tail c n) c.ch (freeLen c) (fuel + 1) hfl
        (by rw [hpl2]; unfold cacheLimit; omega) (by rw [hd]; exact hsz) htl
      rw [← hb, hpl2] at h2
      have e0 : (52 : Nat) = preLen c := by simp [preLen, hfloat]
      rw [e0, h2]
      rfl
  -- values of the fixed fields
  have hR : Float.f64.ofInt (c.sr : Int) < 2 ^ 64 := Float.ofDy_lt_width Float.f64 (Or.inr rfl) _
  have hfin : Float.f64.isFinite (Float.f64.ofInt (c.sr : Int)) = true :=
    (Float.ofInt_exact_gen Float.f64 (Or.inr rfl) (c.sr : Int) c.sr 0 (by simp) (by show c.sr < 2 ^ 53; omega) (by omega)).2.2.2
  have hrint := rate_roundtrip c.sr (by omega)
  have e64 : (256 : Nat) ^ 8 = 2 ^ 64 := by decide
  have v1 : ofBE (beBytes 8 32) = 32 := by decide
  have v2 : ofBE (beBytes 8 (Float.f64.ofInt (c.sr : Int))) = Float.f64.ofInt (c.sr : Int) := by
    rw [ofBE_beBytes, e64]; exact Nat.mod_eq_of_lt hR
  have hbwle : c.bw ≤ 8192 := by
    have : bytewidth c.codec ≤ 8 := by unfold bytewidth; split <;> omega
    calc c.bw = bytewidth c.codec * c.ch := rfl
      _ ≤ 8 * 1024 := Nat.mul_le_mul this hch2
  have v3 := ofBE_be4 (fmtFlags c) (by unfold fmtFlags; split <;> split <;> omega)
  have v4 := ofBE_be4 c.bw (by omega)
  have v5 : ofBE (beBytes 4 1) = 1 := by decide
  have v6 := ofBE_be4 c.ch (by omega)
  have hb8 : bytewidth c.codec ≤ 8 := by unfold bytewidth; split <;> omega
  have v7 := ofBE_be4 (8 * bytewidth c.codec) (by omega)
  obtain ⟨dd1, dd2, dd3⟩ := decodeDesc_cfg c hwf'
  have hinit : initData (dataOffset c) (if (tail c n).length = 0 then 0 else ((dataOffset c + data.length : Nat) : Int)) bs.length = (data.length : Int) := by
    unfold initData
    rw [hlen]
    by_cases ht : (tail c n).length = 0
    · simp only [ht, if_true]
      by_cases h0 : data.length = 0
      · simp [h0]
      · have h1 : dataOffset c + data.length + 0 > dataOffset c := by omega
        have k : ¬ ((0 : Int) > 0) := by omega
        rw [if_pos h1, if_neg k]; push_cast; omega
    · have h1 : dataOffset c + data.length + (tail c n).length > dataOffset c := by omega
      have h2 : ((dataOffset c + data.length : Nat) : Int) > 0 := by omega
      simp only [ht, if_false, h1, if_true, h2]
      push_cast; omega
  have hl12 : ¬ bs.length < 12 := by rw [hlen]; omega
  unfold parse
  simp only [hl12, if_false, t1, t2, bne_self_eq_false, Bool.false_eq_true, or_self, h52, flds52, v1, v2, v3, v4, v5, v6, v7]
  unfold parseDesc
  have s32 : sext 64 32 = 32 := by decide
  have k1 : ¬ ((32 : Int) < 32) := by omega
  have k2 : ¬ ((c.sr : Int) < -0x80000000 ∨ (c.sr : Int) > 0x7FFFFFFF) := by omega
  have k3 : ¬ (c.ch > 1024) := by omega
  have k4 : ¬ ((32 : Int) - 32 > (cacheLimit : Int)) := by unfold cacheLimit; omega
  have k5 : ¬ ((32 : Int) > 32) := by omega
  have k6 : (c.ch == 0) = false := by simp; omega
  have k7 : ¬ ((c.sr : Int) < 1) := by omega
  have k8 : ¬ ((data.length : Int) < 0) := by omega
  simp only [s32, k1, if_false, hfin, Bool.not_true, Bool.false_eq_true, hrint, k2, k3, k4, k5, hwalk, dd1, dd2, k6, hinit, k7, k8, dd3,
    Int.toNat_natCast]
  have hdiv : data.length / (bytewidth c.codec * c.ch) = n := by
    rw [hd]; exact Nat.mul_div_cancel n hbw
  rw [hdiv, hd]

end Sf.Caf
