/-
  SfProofs.AlacGolombLoop — `dyn_decomp (dyn_comp (r)) = r`: the adaptive loop (mean tracking, zero-run mode) of ag_dec.c
  reads back what the loop of ag_enc.c wrote, for the parameters the encoder uses (MB0 10, PB0 40, KB0 14).
-/
import SfProofs.AlacGolomb
namespace Sf.AlacCore

theorem exists_lead (m : Nat) (h1 : 1 ≤ m) (h2 : m < 4294967296) : lead m = 31 - m.log2 ∧ m.log2 ≤ 31 := by
  have hne : m ≠ 0 := by omega
  have hlo := Nat.log2_self_le hne
  have hhi := Nat.lt_log2_self (n := m)
  have h31 : m.log2 ≤ 31 := by
    by_contra hc
    have : 2 ^ 32 ≤ 2 ^ m.log2 := Nat.pow_le_pow_right (by decide) (by omega)
    have e : (2 : Nat) ^ 32 = 4294967296 := by norm_num
    omega
  refine ⟨?_, h31⟩
  apply lead_eq m (31 - m.log2) (by omega)
  · rw [show 31 - (31 - m.log2) = m.log2 by omega]; exact hlo
  · rw [show 32 - (31 - m.log2) = m.log2 + 1 by omega]; exact hhi

theorem lg3a_pos (x : Nat) (h : x + 3 < 4294967296) : 1 ≤ lg3a x := by
  unfold lg3a
  obtain ⟨e, h31⟩ := exists_lead (x + 3) (by omega) h
  rw [e]
  have : 1 ≤ (x + 3).log2 := (Nat.le_log2 (by omega)).mpr (by omega)
  omega

/-- the Golomb parameter of a zero run: 1 … 8, so the `& wb` of KB0 = 14 keeps it -/
theorem zrun_k (mb1 : Nat) (h : mb1 < 128) :
    1 ≤ lead mb1 - 24 + (mb1 + 16) / 64 ∧ (2 ^ (lead mb1 - 24 + (mb1 + 16) / 64) - 1) &&& (2 ^ 14 - 1) = 2 ^ (lead mb1 - 24 + (mb1 + 16) / 64) - 1 := by
  interval_cases mb1 <;> decide

/-- the sample comes back from its code: `n = 2|del| - [del < 0] - zmode`, decoded with the same zmode -/
theorem delOf_code (del : Int) (z : Nat) (h1 : -2147483648 < del) (h2 : del < 2147483648) (hz : z ≤ 1) (hnz : z = 1 → del ≠ 0) :
    delOf ((u32 ((2 * del.natAbs : Nat) - (if del < 0 then 1 else 0) - (z : Int)) + z) % 4294967296) = del := by
  have hz0 : del = 0 → z = 0 := fun h => by
    by_contra hc
    exact hnz (by omega) h
  by_cases hneg : del < 0
  · have hu : ∃ N : Nat, u32 ((2 * del.natAbs : Nat) - (if del < 0 then 1 else 0) - (z : Int)) = N ∧ (N + z + 1 : Int) = -2 * del := by
      refine ⟨_, rfl, ?_⟩
      unfold u32 wrapU
      simp only [Int.reducePow, hneg, if_true]
      omega
    obtain ⟨N, hN, e⟩ := hu
    rw [hN, Nat.mod_eq_of_lt (by omega)]
    unfold delOf w32 wrapS
    simp only [Int.reducePow]
    have ho : (N + z) % 2 = 1 := by omega
    simp only [ho, if_true]
    rw [Nat.mod_eq_of_lt (by omega)]
    split <;> omega
  · have hu : ∃ N : Nat, u32 ((2 * del.natAbs : Nat) - (if del < 0 then 1 else 0) - (z : Int)) = N ∧ (N + z : Int) = 2 * del := by
      refine ⟨_, rfl, ?_⟩
      unfold u32 wrapU
      simp only [Int.reducePow, hneg, if_false]
      omega
    obtain ⟨N, hN, e⟩ := hu
    rw [hN, Nat.mod_eq_of_lt (by omega)]
    unfold delOf w32 wrapS
    simp only [Int.reducePow]
    have ho : ¬ ((N + z) % 2 = 1) := by omega
    simp only [ho, if_false]
    rw [Nat.mod_eq_of_lt (by omega)]
    split <;> omega

theorem takeZeros_spec : ∀ (l : List Int) (a : Nat), a < 65535 →
    l = List.replicate ((takeZeros l a).1 - a) 0 ++ (takeZeros l a).2 ∧ a ≤ (takeZeros l a).1 ∧ (takeZeros l a).1 ≤ 65535 ∧
    ((takeZeros l a).1 < 65535 → (takeZeros l a).2.head? ≠ some 0)
  | [], a, h => by simp [takeZeros]; omega
  | x :: rest, a, h => by
    by_cases hx : x = 0
    · subst hx
      rw [takeZeros]
      by_cases hc : a + 1 ≥ 65535
      · simp only [hc, if_true]
        refine ⟨by simp, by omega, by omega, by omega⟩
      · simp only [hc, if_false]
        obtain ⟨h1, h2, h3, h4⟩ := takeZeros_spec rest (a + 1) (by omega)
        refine ⟨?_, by omega, h3, h4⟩
        conv => lhs; rw [h1]
        rw [show (takeZeros rest (a + 1)).1 - a = ((takeZeros rest (a + 1)).1 - (a + 1)) + 1 by omega, List.replicate_succ]
        rfl
    · have : takeZeros (x :: rest) a = (a, x :: rest) := by
        unfold takeZeros
        split
        · rename_i h0; simp at h0; exact absurd h0.1 hx
        · rfl
      rw [this]
      refine ⟨by simp, by omega, by omega, ?_⟩
      intro _; simp [hx]

theorem dynCode32_length_pos (maxbits m k n : Nat) (hk : 1 ≤ k) : 1 ≤ (dynCode32 maxbits m k n).length := by
  unfold dynCode32
  simp only []
  generalize n / m = d
  by_cases h1 : d < 9
  · simp only [h1, if_true]
    by_cases h2 : d + k + 1 - (if n - m * d = 0 then 1 else 0) > 25
    · simp only [h2, if_true, List.length_append, bitsOf_length]; omega
    · simp only [h2, if_false, bitsOf_length]; split <;> omega
  · simp only [h1, if_false, List.length_append, bitsOf_length]; omega

/-- the code number of a residual that fits `b` bits is below 2^b -/
theorem code_lt (del : Int) (z b : Nat) (hb1 : 1 ≤ b) (hb : b ≤ 31) (h1 : -(2 : Int) ^ (b - 1) ≤ del) (h2 : del < (2 : Int) ^ (b - 1)) (hz : z ≤ 1)
    (hnz : z = 1 → del ≠ 0) : u32 ((2 * del.natAbs : Nat) - (if del < 0 then 1 else 0) - (z : Int)) < 2 ^ b := by
  have hp : (2 : Int) ^ (b - 1) ≤ 1073741824 := by
    have : (2 : Nat) ^ (b - 1) ≤ 2 ^ 30 := Nat.pow_le_pow_right (by decide) (by omega)
    have e30 : (2 : Nat) ^ 30 = 1073741824 := by norm_num
    rw [e30] at this
    exact_mod_cast this
  have e : (2 : Nat) ^ b = 2 * 2 ^ (b - 1) := by rw [← Nat.pow_succ']; congr 1; omega
  have ec : ((2 ^ (b - 1) : Nat) : Int) = (2 : Int) ^ (b - 1) := by push_cast; rfl
  have hz0 : del = 0 → z = 0 := fun h => by
    by_contra hc
    exact hnz (by omega) h
  unfold u32 wrapU
  simp only [Int.reducePow]
  rw [e]
  split <;> omega

theorem mbNext_le (n nz mb : Nat) (hmb : mb ≤ 67108864) (hnz : nz ≤ n + 1) : mbNext 40 n nz mb ≤ 67108864 := by
  unfold mbNext
  split
  · omega
  · rename_i hc
    have h1 : 40 * nz % 4294967296 = 40 * nz := Nat.mod_eq_of_lt (by omega)
    have h2 : 40 * mb % 4294967296 = 40 * mb := Nat.mod_eq_of_lt (by omega)
    rw [h1, h2]
    have hB : 40 * mb / 512 ≤ 40 * nz + mb := by omega
    have hX : 40 * nz + mb - 40 * mb / 512 ≤ 67108864 := by omega
    have e : ((40 * nz + mb : Nat) : Int) - ((40 * mb / 512 : Nat) : Int) = ((40 * nz + mb - 40 * mb / 512 : Nat) : Int) := by omega
    unfold u32 wrapU
    rw [e]
    have : ((40 * nz + mb - 40 * mb / 512 : Nat) : Int) % (2 ^ 32 : Int) = ((40 * nz + mb - 40 * mb / 512 : Nat) : Int) :=
      Int.emod_eq_of_lt (by omega) (by norm_num; omega)
    rw [this, Int.toNat_natCast]
    exact hX

/-- `dyn_decomp (dyn_comp (r)) = r`: the decoder's loop on the bits of the encoder's loop (standard parameters), whatever
    follows them: every residual that fits `bitSize` ≤ 31 bits, every starting mean and zero-run state both sides share -/
theorem dynLoop_dynCompLoop (bitSize : Nat) (hb1 : 1 ≤ bitSize) (hb : bitSize ≤ 31) (off0 maxPos : Nat) (hoff : off0 < 8) :
    ∀ (fuel : Nat) (pc : List Int) (fuelD q mb zmode : Nat) (acc : List Int) (rest : Bits),
      pc.length ≤ fuel → pc.length ≤ fuelD → mb ≤ 67108864 → zmode ≤ 1 → (zmode = 1 → pc.head? ≠ some 0) →
      (∀ x ∈ pc, -(2 : Int) ^ (bitSize - 1) ≤ x ∧ x < (2 : Int) ^ (bitSize - 1)) →
      off0 + q + (dynCompLoop stdAg bitSize fuel pc mb zmode).length ≤ maxPos →
      dynLoop stdAg bitSize off0 maxPos fuelD pc.length (dynCompLoop stdAg bitSize fuel pc mb zmode ++ rest) q mb zmode acc =
        ⟨true, acc.reverse ++ pc, q + (dynCompLoop stdAg bitSize fuel pc mb zmode).length⟩ := by
  intro fuel
  induction fuel with
  | zero =>
    intro pc fuelD q mb zmode acc rest h1 _ _ _ _ _ _
    have : pc = [] := List.eq_nil_of_length_eq_zero (by omega)
    subst this
    cases fuelD <;> simp [dynCompLoop, dynLoop]
  | succ fuel ih =>
    intro pc fuelD q mb zmode acc rest hf hfd hmb hz hzh hfit hpos
    cases pc with
    | nil => cases fuelD <;> simp [dynCompLoop, dynLoop]
    | cons del pcs =>
      obtain ⟨fuelD, rfl⟩ : ∃ g, fuelD = g + 1 := ⟨fuelD - 1, by simp at hfd; omega⟩
      have hdel := hfit del (by simp)
      have hpcs : ∀ x ∈ pcs, -(2 : Int) ^ (bitSize - 1) ≤ x ∧ x < (2 : Int) ^ (bitSize - 1) := fun x hx => hfit x (by simp [hx])
      have hp30 : (2 : Int) ^ (bitSize - 1) ≤ 1073741824 := by
        have : (2 : Nat) ^ (bitSize - 1) ≤ 2 ^ 30 := Nat.pow_le_pow_right (by decide) (by omega)
        have e30 : (2 : Nat) ^ 30 = 1073741824 := by norm_num
        rw [e30] at this
        exact_mod_cast this
      have hnz : zmode = 1 → del ≠ 0 := fun h0 hd => by
        have := hzh h0; simp [hd] at this
      -- the parameters of this round
      have hk1 : 1 ≤ min (lg3a (mb / 512)) stdAg.kb := by
        have := lg3a_pos (mb / 512) (by omega)
        simp only [stdAg, setAgParams]; omega
      generalize hk : min (lg3a (mb / 512)) stdAg.kb = k at hk1
      have hn := code_lt del zmode bitSize hb1 hb hdel.1 hdel.2 hz hnz
      have hdl := delOf_code del zmode (by omega) (by omega) hz hnz
      generalize hnn : u32 ((2 * del.natAbs : Nat) - (if del < 0 then 1 else 0) - (zmode : Int)) = n at hn hdl
      have hmb1 := mbNext_le n ((n + zmode) % 4294967296) mb hmb (by omega)
      have hpb : stdAg.pb = 40 := rfl
      have hcl := dynCode32_length_pos bitSize (2 ^ k - 1) k n hk1
      have hget := dynGet32_dynCode32 bitSize k n ((off0 + q) % 8)
      rw [dynCompLoop] at hpos ⊢
      simp only [hk, hnn, hpb] at hpos ⊢
      generalize hmbn : mbNext 40 n ((n + zmode) % 4294967296) mb = mb1 at hmb1 hpos ⊢
      rw [dynLoop]
      simp only [List.length_cons, Nat.succ_ne_zero, if_false, hk, Nat.add_sub_cancel]
      have hroom : ¬ (off0 + q ≥ maxPos) := by simp only [List.length_append] at hpos; omega
      simp only [hroom, if_false, List.append_assoc]
      rw [hget _ hk1 (Nat.mod_lt _ (by decide)) hn]
      simp only [List.drop_left' rfl, hdl, hpb, hmbn]
      by_cases hzr : mb1 * 4 % 4294967296 < 512 ∧ pcs ≠ []
      · -- a zero run follows
        have hzr' : mb1 * 4 % 4294967296 < 512 ∧ pcs.length > 0 := ⟨hzr.1, List.length_pos_iff.mpr hzr.2⟩
        simp only [if_pos hzr, if_pos hzr'] at hpos ⊢
        have hm128 : mb1 < 128 := by omega
        obtain ⟨hk2, hmz⟩ := zrun_k mb1 hm128
        have hwb : stdAg.wb = 2 ^ 14 - 1 := rfl
        rw [hwb, hmz] at hpos ⊢
        obtain ⟨ht1, ht2, ht3, ht4⟩ := takeZeros_spec pcs 0 (by decide)
        generalize htz : takeZeros pcs 0 = tz at ht1 ht2 ht3 ht4 hpos ⊢
        obtain ⟨nzr, pcs1⟩ := tz
        simp only [Nat.sub_zero] at ht1 ht2 ht3 ht4 hpos ⊢
        have hlen : pcs.length = nzr + pcs1.length := by
          have := congrArg List.length ht1; simpa using this
        simp only [List.append_assoc]
        rw [dynGet_dynCode _ nzr _ _ hk2 (Nat.mod_lt _ (by decide)) (by omega)]
        have hle : ¬ (nzr > pcs.length) := by omega
        simp only [hle, if_false, List.drop_left' rfl]
        have := ih pcs1 fuelD (q + (dynCode32 bitSize (2 ^ k - 1) k n).length + (dynCode (2 ^ (lead mb1 - 24 + (mb1 + 16) / 64) - 1) (lead mb1 - 24 + (mb1 + 16) / 64) nzr).length)
          0 (if nzr ≥ 65535 then 0 else 1) (List.replicate nzr 0 ++ del :: acc) rest
          (by simp at hf; omega) (by simp at hfd; omega) (by omega) (by split <;> omega)
          (by intro h0; apply ht4; by_contra hc; simp [show nzr ≥ 65535 by omega] at h0)
          (fun x hx => hpcs x (by rw [ht1]; simp [hx]))
          (by simp only [List.length_append] at hpos ⊢; omega)
        rw [show pcs.length - nzr = pcs1.length by omega, this]
        simp only [List.length_append, List.reverse_append, List.reverse_cons, List.reverse_replicate, List.append_assoc,
          List.singleton_append, AgRes.mk.injEq, true_and]
        refine ⟨?_, by omega⟩
        conv => rhs; rw [ht1]
        simp
      · -- the next residual follows
        have hzr' : ¬ (mb1 * 4 % 4294967296 < 512 ∧ pcs.length > 0) := by
          intro h; exact hzr ⟨h.1, List.length_pos_iff.mp h.2⟩
        simp only [if_neg hzr, if_neg hzr'] at hpos ⊢
        have := ih pcs fuelD (q + (dynCode32 bitSize (2 ^ k - 1) k n).length) mb1 0 (del :: acc) rest
          (by simp at hf; omega) (by simp at hfd; omega) hmb1 (by omega) (by intro h; omega) hpcs
          (by simp only [List.length_append] at hpos ⊢; omega)
        rw [this]
        simp only [List.length_append, List.reverse_cons, List.append_assoc, List.singleton_append, AgRes.mk.injEq, true_and]
        omega

/-- a value fits `cb` bits (two's complement) -/
def Fits (cb : Nat) (y : Int) : Prop := -(2 : Int) ^ (cb - 1) ≤ y ∧ y < (2 : Int) ^ (cb - 1)

/-- `dyn_decomp (dyn_comp (r)) = r` at the level of the two entry points -/
theorem dynDecomp_dynComp (bitSize : Nat) (hb1 : 1 ≤ bitSize) (hb : bitSize ≤ 31) (pc : List Int)
    (hfit : ∀ x ∈ pc, Fits bitSize x) (rest : Bits) (pos byteSize : Nat)
    (hroom : pos + (dynComp stdAg pc bitSize).length ≤ byteSize * 8) :
    dynDecomp stdAg ⟨dynComp stdAg pc bitSize ++ rest, pos⟩ byteSize pc.length bitSize =
      (⟨true, pc, (dynComp stdAg pc bitSize).length⟩, ⟨rest, pos + (dynComp stdAg pc bitSize).length⟩) := by
  have h := dynLoop_dynCompLoop bitSize hb1 hb (pos % 8) (byteSize * 8) (Nat.mod_lt _ (by decide)) pc.length pc pc.length 0 10 0 [] rest
    (Nat.le_refl _) (Nat.le_refl _) (by decide) (by decide) (by intro h; omega) hfit
    (by have := Nat.mod_le pos 8; simp only [dynComp, show stdAg.mb0 = 10 from rfl] at hroom; omega)
  unfold dynDecomp
  simp only [show stdAg.mb0 = 10 from rfl]
  unfold dynComp at hroom ⊢
  simp only [show stdAg.mb0 = 10 from rfl] at hroom ⊢
  rw [h]
  simp only [List.reverse_nil, List.nil_append, Nat.zero_add, Rd.advance, List.drop_left' rfl, Rd.curByte, Bool.true_and, Prod.mk.injEq,
    AgRes.mk.injEq, and_true, true_and, decide_eq_true_eq]
  omega

end Sf.AlacCore
