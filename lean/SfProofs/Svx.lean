/-
  Helper lemmas for the SVX container theorems (SfProps/C04Svx.lean): length of the header, its size fields.
-/
import SfModel.Svx
import SfProofs.SmallSession
namespace Sf.Svx
open Sf Sf.Small

theorem mk4_len (s : String) (h : s.length = 4) : (mk4 s).length = 4 := by
  unfold mk4; rw [List.length_map]; exact h

theorem strField_length (s : List Byte) : (strField s).length = 4 + (s.length + 1 + (s.length + 1) % 2) := by
  unfold strField
  simp only [List.length_append, be32_length, List.length_replicate]
  omega

theorem annotation_length : annotation.length = 33 := by decide

theorem hdr_length (c : Cfg) (hch : c.ch ≤ 1) (f : Nat) (fl dl : Int) : (hdr c f fl dl).length = hdrLen c := by
  unfold hdr hdrLen
  have h2 : ¬ c.ch = 2 := by omega
  have ht : (if c.bytewidth = 1 then mk4 "8SVX" else mk4 "16SV").length = 4 := by split <;> decide
  simp only [h2, if_false, List.length_append, be32_length, be16_length, strField_length, annotation_length, ht,
    List.length_cons, List.length_nil, mk4_len "FORM" rfl, mk4_len "VHDR" rfl, mk4_len "NAME" rfl, mk4_len "ANNO" rfl, mk4_len "BODY" rfl]
  omega

theorem cfg_facts (c : Cfg) (h : c.wf) : (c.codec = 0x01 ∨ c.codec = 0x02) ∧ c.ch = 1 ∧ c.name.length ≤ 255 := by
  obtain ⟨ha, h1, _, _⟩ := h
  unfold accepted at ha
  simp only [Bool.decide_and, Bool.decide_or, Bool.and_eq_true, Bool.or_eq_true, decide_eq_true_eq] at ha
  exact ⟨ha.1, by omega, ha.2.2.2.1⟩

theorem spec_lenOk (c : Cfg) (h : c.wf) : (spec c).LenOk := fun f fl dl => hdr_length c (by have := (cfg_facts c h).2.1; omega) f fl dl

theorem bw_pos (c : Cfg) (h : c.wf) : 0 < c.bw := by
  obtain ⟨hc, h1, _⟩ := cfg_facts c h
  unfold Cfg.bw Cfg.bytewidth; rcases hc with h | h <;> rw [h, h1] <;> decide

end Sf.Svx
