/-
  CAF: the write session keeps "store = some header of the right length ++ the audio written so far", every header
  written with recomputed lengths is `hdr c N pk`, and caf_close leaves `image c N pk data`
  (helpers for SfProps/C04Caf.lean, C11).
-/
import SfProofs.CafImage
namespace Sf.Caf
open Sf Sf.CafW64

theorem writeAt_head (h0 rest h : List Byte) (hl : h.length = h0.length) : writeAt (h0 ++ rest) 0 h = h ++ rest := by
  simp [writeAt, hl]

theorem writeAt_end (bs d : List Byte) : writeAt bs bs.length d = bs ++ d := by simp [writeAt]

/-- the session invariant: `D` is the audio written so far, `w` the frames, `pk` the peak table -/
structure Inv (c : Cfg) (s : St) (D : List Byte) (w : Nat) (pk : List Peak) : Prop where
  hdr0 : ∃ h0 : List Byte, h0.length = dataOffset c ∧ s.bytes = h0 ++ D
  pos : s.pos = s.bytes.length
  off : s.dataoffset = dataOffset c
  wpos : s.wpos = w
  frames : s.frames = w
  dlen : D.length = w * c.bw
  dend : s.dataend = 0
  peaks : s.peaks = pk
  pklen : isFloat c.codec = true → pk.length = c.ch

theorem tdiv_frames (w bw : Nat) (h : 0 < bw) : Int.tdiv (((w * bw : Nat) : Int)) (bw : Int) = w := by
  have : ((w * bw : Nat) : Int) = (w : Int) * (bw : Int) := by simp
  rw [this, Int.mul_tdiv_cancel _ (by omega)]

theorem writeHeader_inv {c : Cfg} {s : St} {D : List Byte} {w : Nat} {pk : List Peak} (i : Inv c s D w pk) (hbw : 0 < c.bw) (b : Bool) :
    Inv c (writeHeader c s b) D w pk ∧ (b = true → (writeHeader c s b).bytes = hdr c w pk ++ D) ∧ (writeHeader c s b).auto = s.auto := by
  obtain ⟨h0, hl, hb⟩ := i.hdr0
  have hal := dataOffset_aligned c
  have hlen : s.bytes.length = dataOffset c + w * c.bw := by rw [hb]; simp [hl, i.dlen]
  have hpos1 : ¬ ((s.pos : Int) < (dataOffset c : Int)) := by rw [i.pos, hlen]; omega
  have hpos2 : s.pos > 0 := by rw [i.pos, hlen]; omega
  cases b with
  | false =>
    have hhl : (hdrRaw c s.datalength s.peaks).length = dataOffset c := hdrRaw_length c _ _ (by rw [i.peaks]; exact i.pklen)
    refine ⟨⟨⟨hdrRaw c s.datalength s.peaks, hhl, ?_⟩, ?_, ?_, ?_, ?_, i.dlen, ?_, ?_, i.pklen⟩, by simp, rfl⟩
    · simp only [writeHeader, Bool.false_eq_true, if_false]; rw [hb]; exact writeAt_head h0 D _ (by rw [hhl, hl])
    · simp only [writeHeader, Bool.false_eq_true, if_false, hhl, hpos1, hpos2, if_true]
      rw [hb, writeAt_head h0 D _ (by rw [hhl, hl]), i.pos, hb]; simp [hhl, hl]
    · simp [writeHeader, hhl]
    · simp [writeHeader, i.wpos]
    · simp [writeHeader, i.frames]
    · simp [writeHeader, i.dend]
    · simp [writeHeader, i.peaks]
  | true =>
    have hde : (s.dataend != 0) = false := by rw [i.dend]; rfl
    have hdl : (s.bytes.length : Int) - s.dataoffset = ((w * c.bw : Nat) : Int) := by rw [i.off, hlen]; push_cast; omega
    have hfr : Int.tdiv ((s.bytes.length : Int) - s.dataoffset) (c.bw : Int) = w := by rw [hdl]; exact tdiv_frames w c.bw hbw
    have hhl : (hdr c w pk).length = dataOffset c := hdrRaw_length c _ _ i.pklen
    have hbytes : (writeHeader c s true).bytes = hdr c w pk ++ D := by
      simp only [writeHeader, if_true, hde, Bool.false_eq_true, if_false]
      rw [hdl, i.peaks, hb]; exact writeAt_head h0 D _ (by rw [hl]; exact hhl)
    refine ⟨⟨⟨hdr c w pk, hhl, hbytes⟩, ?_, ?_, ?_, ?_, i.dlen, ?_, ?_, i.pklen⟩, fun _ => hbytes, rfl⟩
    · have : (writeHeader c s true).pos = s.pos := by
        simp only [writeHeader, if_true, hde, Bool.false_eq_true, if_false, hdl, i.peaks]
        have : (hdrRaw c ((w * c.bw : Nat) : Int) pk).length = dataOffset c := hhl
        simp only [this, hpos1, hpos2, if_false, if_true]
      rw [this, hbytes, i.pos, hb]; simp [hhl, hl]
    · simp only [writeHeader, if_true, hde, Bool.false_eq_true, if_false, hdl, i.peaks]; exact congrArg _ hhl
    · simp [writeHeader, i.wpos]
    · simp only [writeHeader, if_true, hde, Bool.false_eq_true, if_false]; exact hfr
    · simp [writeHeader, i.dend]
    · simp [writeHeader, i.peaks]

def initPeaks (c : Cfg) : List Peak := if isFloat c.codec then List.replicate c.ch {} else []

theorem openW_inv (c : Cfg) (stale : Int) : Inv c (openW c stale) [] 0 (initPeaks c) := by
  have hhl : (hdrRaw c 0 (initPeaks c)).length = dataOffset c := hdrRaw_length c _ _ (by intro h; simp [initPeaks, h])
  refine ⟨⟨hdrRaw c 0 (initPeaks c), hhl, ?_⟩, ?_, ?_, rfl, rfl, by simp, rfl, rfl, by intro h; simp [initPeaks, h]⟩
  · simp [openW, writeHeader, writeAt, initPeaks]
  · have := dataOffset_aligned c
    have h2 : (hdrRaw c 0 (if isFloat c.codec = true then List.replicate c.ch {} else [])).length = dataOffset c := hhl
    simp [openW, writeHeader, writeAt, h2]
  · have h2 : (hdrRaw c 0 (if isFloat c.codec = true then List.replicate c.ch {} else [])).length = dataOffset c := hhl
    simp [openW, writeHeader, h2]

def nextPeaks (c : Cfg) (pk : List Peak) : Op → List Peak
  | .write k _ p => if k == 0 ∨ !isFloat c.codec then pk else p
  | _ => pk

theorem step_inv {c : Cfg} {s : St} {D : List Byte} {w : Nat} {pk : List Peak} (i : Inv c s D w pk) (hbw : 0 < c.bw) (op : Op) (hv : op.valid c) :
    Inv c (step c s op) (D ++ op.data) (w + op.frames) (nextPeaks c pk op) ∧
    (∀ k data p, op = .write k data p → k ≠ 0 → s.auto = true →
      (step c s op).bytes = hdr c (w + k) (nextPeaks c pk op) ++ (D ++ data)) := by
  cases op with
  | update =>
    refine ⟨by simpa [step, Op.data, Op.frames, nextPeaks] using (writeHeader_inv i hbw true).1, ?_⟩
    intro k data p h; cases h
  | auto on =>
    refine ⟨?_, by intro k data p h; cases h⟩
    simp only [step, Op.data, Op.frames, List.append_nil, Nat.add_zero, nextPeaks]
    exact ⟨i.hdr0, i.pos, i.off, i.wpos, i.frames, i.dlen, i.dend, i.peaks, i.pklen⟩
  | write k data p =>
    obtain ⟨hk, hpl⟩ : data.length = k * c.bw ∧ p.length = c.ch := hv
    by_cases h0 : k = 0
    · subst h0
      refine ⟨by simpa [step, Op.data, Op.frames, nextPeaks] using i, ?_⟩
      intro k' d' p' h hk'; cases h; exact absurd rfl hk'
    · have hkb : (k == 0) = false := by simpa using h0
      simp only [step, hkb, Bool.false_eq_true, if_false, Op.data, Op.frames, nextPeaks, false_or]
      generalize hs1 : (if (!s.written) = true then writeHeader c s false else s) = s1
      have i1 : Inv c s1 D w pk ∧ s1.auto = s.auto := by
        rw [← hs1]; split
        · exact ⟨(writeHeader_inv i hbw false).1, (writeHeader_inv i hbw false).2.2⟩
        · exact ⟨i, rfl⟩
      obtain ⟨i1, ha1⟩ := i1
      obtain ⟨h0', hl, hb⟩ := i1.hdr0
      let pk' : List Peak := if (!isFloat c.codec) = true then pk else p
      have hpk' : (if isFloat c.codec = true then p else s1.peaks) = pk' := by
        simp only [pk']; rw [i1.peaks]; cases isFloat c.codec <;> simp
      let s2 : St := { s1 with written := true, peaks := pk', bytes := writeAt s1.bytes s1.pos data, pos := s1.pos + data.length, wpos := s1.wpos + k }
      let s3 : St := if s2.wpos > s2.frames then { s2 with frames := s2.wpos, dataend := 0 } else s2
      have hb2 : s2.bytes = h0' ++ (D ++ data) := by
        show writeAt s1.bytes s1.pos data = _
        rw [i1.pos, writeAt_end, hb, List.append_assoc]
      have hgt : s2.wpos > s2.frames := by
        show s1.wpos + (k : Int) > s1.frames
        rw [i1.wpos, i1.frames]; omega
      have e3 : s3 = { s2 with frames := s2.wpos, dataend := 0 } := by simp only [s3, hgt, if_true]
      have i3 : Inv c s3 (D ++ data) (w + k) pk' := by
        rw [e3]
        refine ⟨⟨h0', hl, hb2⟩, ?_, i1.off, ?_, ?_, ?_, rfl, rfl, ?_⟩
        · show s1.pos + data.length = (writeAt s1.bytes s1.pos data).length
          rw [i1.pos, writeAt_end]; simp
        · show s1.wpos + (k : Int) = ((w + k : Nat) : Int)
          rw [i1.wpos]; push_cast; rfl
        · show s1.wpos + (k : Int) = ((w + k : Nat) : Int)
          rw [i1.wpos]; push_cast; rfl
        · simp [i1.dlen, hk, Nat.add_mul]
        · intro hf; simp only [pk', hf]; simpa using hpl
      have hshape : (let s := { s1 with written := true, peaks := if isFloat c.codec = true then p else s1.peaks }
          let s := { s with bytes := writeAt s.bytes s.pos data, pos := s.pos + data.length, wpos := s.wpos + ↑k }
          let s := if s.wpos > s.frames then { s with frames := s.wpos, dataend := 0 } else s
          if s.auto = true then writeHeader c s true else s) = (if s3.auto = true then writeHeader c s3 true else s3) := by
        simp only [s3, s2, hpk']
      rw [hshape]
      constructor
      · split
        · exact (writeHeader_inv i3 hbw true).1
        · exact i3
      · intro k' d' p' h hk' ha
        cases h
        have ha3 : s3.auto = true := by rw [e3]; show s1.auto = true; rw [ha1]; exact ha
        rw [if_pos ha3]
        exact (writeHeader_inv i3 hbw true).2.1 rfl

theorem sessPeaks_eq (c : Cfg) (ops : List Op) : sessPeaks c ops = ops.foldl (nextPeaks c) (initPeaks c) := by
  unfold sessPeaks initPeaks
  congr 1

theorem run_inv {c : Cfg} (hbw : 0 < c.bw) (ops : List Op) : ∀ {s : St} {D : List Byte} {w : Nat} {pk : List Peak}, Inv c s D w pk → (∀ op ∈ ops, op.valid c) →
    Inv c (run c s ops) (D ++ sessData ops) (w + sessFrames ops) (ops.foldl (nextPeaks c) pk) := by
  induction ops with
  | nil => intro s D w pk i _; simpa [run, sessData, sessFrames] using i
  | cons op ops ih =>
    intro s D w pk i hv
    have i1 := (step_inv i hbw op (hv op (by simp))).1
    have := ih i1 (fun o ho => hv o (by simp [ho]))
    simpa [run, sessData, sessFrames, List.flatMap_cons, Nat.add_assoc] using this

theorem wf_bw_pos {c : Cfg} (h : c.wf) : 0 < c.bw := by
  obtain ⟨hc, _, h1, _⟩ := h
  have : 0 < bytewidth c.codec := by
    simp [codecs] at hc
    rcases hc with h | h | h | h | h | h | h | h <;> rw [h] <;> decide
  exact Nat.mul_pos this (by omega)

/-- caf_close: tailer and final header -/
theorem close_bytes {c : Cfg} {s : St} {D : List Byte} {w : Nat} {pk : List Peak} (i : Inv c s D w pk) :
    (close c s).bytes = image c w pk D := by
  obtain ⟨h0, hl, hb⟩ := i.hdr0
  have hal := dataOffset_aligned c
  have hlen : s.bytes.length = dataOffset c + w * c.bw := by rw [hb]; simp [hl, i.dlen]
  have hdl : s.frames * (bytewidth c.codec : Int) * (c.ch : Int) = ((w * c.bw : Nat) : Int) := by
    rw [i.frames, Int.mul_assoc]; simp [Cfg.bw]
  have hde : s.dataoffset + s.frames * (bytewidth c.codec : Int) * (c.ch : Int) = ((dataOffset c + w * c.bw : Nat) : Int) := by
    rw [hdl, i.off]; push_cast; rfl
  have hhl : (hdr c w pk).length = dataOffset c := hdrRaw_length c _ _ i.pklen
  unfold close
  simp only [hde]
  have hpos : ((dataOffset c + w * c.bw : Nat) : Int) > 0 := by omega
  simp only [hpos, if_true, Int.toNat_natCast]
  by_cases hodd : (dataOffset c + w * c.bw) % 2 = 1
  · have h1 : ((((dataOffset c + w * c.bw : Nat) : Int) % 2 == 1) = true) := by
      have : ((dataOffset c + w * c.bw : Nat) : Int) % 2 = 1 := by omega
      rw [this]; rfl
    simp only [h1, if_true]
    have hw : writeAt s.bytes (dataOffset c + w * c.bw) [0] = h0 ++ (D ++ [0]) := by
      rw [← hlen, writeAt_end, hb, List.append_assoc]
    simp only [writeHeader, if_true, hw]
    have hne : ((((dataOffset c + w * c.bw : Nat) : Int) != 0) = true) := by simp; omega
    simp only [hne, if_true]
    have hdl2 : ((h0 ++ (D ++ [0])).length : Int) - s.dataoffset - (((h0 ++ (D ++ [0])).length : Int) - ((dataOffset c + w * c.bw : Nat) : Int)) = ((w * c.bw : Nat) : Int) := by
      rw [i.off]; push_cast; omega
    rw [hdl2, i.peaks, writeAt_head h0 (D ++ [0]) _ (by rw [hl]; exact hhl)]
    simp [image, tail, hodd, hdr]
  · have h1 : ((((dataOffset c + w * c.bw : Nat) : Int) % 2 == 1) = false) := by
      have : ((dataOffset c + w * c.bw : Nat) : Int) % 2 = 0 := by omega
      rw [this]; rfl
    simp only [h1, Bool.false_eq_true, if_false]
    simp only [writeHeader, if_true]
    have hne : ((((dataOffset c + w * c.bw : Nat) : Int) != 0) = true) := by simp; omega
    simp only [hne, if_true]
    have hdl2 : (s.bytes.length : Int) - s.dataoffset - ((s.bytes.length : Int) - ((dataOffset c + w * c.bw : Nat) : Int)) = ((w * c.bw : Nat) : Int) := by
      rw [i.off]; push_cast; omega
    rw [hdl2, i.peaks, hb, writeAt_head h0 D _ (by rw [hl]; exact hhl)]
    simp [image, tail, hodd, hdr]

end Sf.Caf
