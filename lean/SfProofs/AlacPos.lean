/-
  SfProofs.AlacPos — the bit position of the reader only grows: every function of the ALAC decoder model leaves the
  reader at or behind the position it found it (used for: the element loop of `alac_decode` needs at most one round per
  3 bits of the packet).
-/
import SfModel.AlacDec
namespace Sf.AlacCore

theorem read_eq (r : Rd) (n : Nat) : r.read n = ((rdBits n r.rest 0).1, ⟨(rdBits n r.rest 0).2, r.pos + n⟩) := by
  unfold Rd.read
  generalize rdBits n r.rest 0 = y at *

  obtain ⟨v, rest⟩ := y
  rfl

theorem byteAlign_pos (r : Rd) : r.pos ≤ r.byteAlign.pos := by
  unfold Rd.byteAlign Rd.advance
  split <;> simp

theorem rdEscSample_pos (cb : Nat) (r : Rd) : r.pos ≤ (rdEscSample cb r).2.pos := by
  simp only [rdEscSample, read_eq]
  split <;> simp <;> omega

theorem rdEscSampleVOld_pos (cb : Nat) (r : Rd) : r.pos ≤ (rdEscSampleVOld cb r).2.pos := by
  simp only [rdEscSampleVOld]
  split
  · exact rdEscSample_pos cb r
  · simp [read_eq]; omega

theorem rdMonoEsc_pos (cb : Nat) : ∀ (n : Nat) (r : Rd), r.pos ≤ (rdMonoEsc cb n r).2.pos
  | 0, _ => by simp [rdMonoEsc]
  | n + 1, r => by
    have h1 := rdEscSample_pos cb r
    have h2 := rdMonoEsc_pos cb n (rdEscSample cb r).2
    have e : (rdMonoEsc cb (n + 1) r).2 = (rdMonoEsc cb n (rdEscSample cb r).2).2 := by rw [rdMonoEsc]
    rw [e]; omega

theorem rdPairEsc_pos (ru : Rules) (cb : Nat) : ∀ (n : Nat) (r : Rd), r.pos ≤ (rdPairEsc ru cb n r).2.2.pos
  | 0, _ => by simp [rdPairEsc]
  | n + 1, r => by
    let r1 := (rdEscSample cb r).2
    have h1 : r.pos ≤ r1.pos := rdEscSample_pos cb r
    let r2 := (if ru.decPairVShift = true then rdEscSample cb r1 else rdEscSampleVOld cb r1).2
    have h2 : r1.pos ≤ r2.pos := by
      show r1.pos ≤ (if ru.decPairVShift = true then rdEscSample cb r1 else rdEscSampleVOld cb r1).2.pos
      split
      · exact rdEscSample_pos cb r1
      · exact rdEscSampleVOld_pos cb r1
    have h3 := rdPairEsc_pos ru cb n r2
    have e : (rdPairEsc ru cb (n + 1) r).2.2 = (rdPairEsc ru cb n r2).2.2 := by rw [rdPairEsc]
    rw [e]; omega

theorem rdHeader_pos (n : Nat) (r : Rd) : r.pos ≤ (rdHeader n r).2.pos := by
  simp only [rdHeader, read_eq]
  repeat' split
  all_goals (simp; try omega)

theorem rdCoefs_pos : ∀ (n : Nat) (r : Rd), r.pos ≤ (rdCoefs n r).2.pos
  | 0, _ => by simp [rdCoefs]
  | n + 1, r => by
    have h := rdCoefs_pos n (r.read 16).2
    have e : (rdCoefs (n + 1) r).2 = (rdCoefs n (r.read 16).2).2 := by rw [rdCoefs]
    rw [e]
    simp only [read_eq] at h ⊢; omega

theorem rdChanParams_pos (r : Rd) : r.pos ≤ (rdChanParams r).2.pos := by
  have e : (rdChanParams r).2 = (rdCoefs (((r.read 8).2.read 8).1 % 32) ((r.read 8).2.read 8).2).2 := by rw [rdChanParams]
  rw [e]
  have h := rdCoefs_pos (((r.read 8).2.read 8).1 % 32) ((r.read 8).2.read 8).2
  simp only [read_eq] at h ⊢; omega

theorem dynDecomp_pos (p : AgParams) (r : Rd) (b n m : Nat) : r.pos ≤ (dynDecomp p r b n m).2.pos := by
  simp [dynDecomp, Rd.advance]

theorem decChan_pos (cfg : Config) (b n cb : Nat) (pr : Nat × Nat × Nat × List Int) (r : Rd) : r.pos ≤ (decChan cfg b n cb pr r).2.pos := by
  obtain ⟨mode, den, pbf, coefs⟩ := pr
  have h := dynDecomp_pos (setAgParams cfg.mb (cfg.pb * pbf / 4) cfg.kb) r b n cb
  have e : (decChan cfg b n cb (mode, den, pbf, coefs) r).2 = (dynDecomp (setAgParams cfg.mb (cfg.pb * pbf / 4) cfg.kb) r b n cb).2 := by
    simp only [decChan]; split <;> rfl
  rw [e]; exact h

theorem compMono_pos (ru : Rules) (b : Nat) (cfg : Config) (h : Hdr) (r : Rd) : r.pos ≤ (compMono ru b cfg h r).2.pos := by
  simp only [compMono]
  have h1 : r.pos ≤ (rdChanParams ((r.read 8).2.read 8).2).2.pos := by
    have := rdChanParams_pos ((r.read 8).2.read 8).2
    simp only [read_eq] at this ⊢; omega
  generalize (rdChanParams ((r.read 8).2.read 8).2) = pr at h1
  obtain ⟨pr, r1⟩ := pr
  simp only [read_eq] at h1 ⊢
  have h2 : r1.pos ≤ (if h.bytesShifted ≠ 0 then r1.advance (8 * h.bytesShifted * h.numSamples) else r1).pos := by
    split <;> simp [Rd.advance]
  generalize (if h.bytesShifted ≠ 0 then r1.advance (8 * h.bytesShifted * h.numSamples) else r1) = r2 at h2
  split
  · simp only; omega
  · have h3 := decChan_pos cfg b h.numSamples (cfg.bitDepth - 8 * h.bytesShifted) pr r2
    split
    · rename_i r3 he; rw [he] at h3; simp only at h3 ⊢; omega
    · rename_i mix r3 he; rw [he] at h3; simp only at h3 ⊢; omega

theorem compPair_pos (b : Nat) (cfg : Config) (h : Hdr) (r : Rd) : r.pos ≤ (compPair b cfg h r).2.pos := by
  simp only [compPair]
  have h1 : r.pos ≤ (rdChanParams ((r.read 8).2.read 8).2).2.pos := by
    have := rdChanParams_pos ((r.read 8).2.read 8).2
    simp only [read_eq] at this ⊢; omega
  generalize (rdChanParams ((r.read 8).2.read 8).2) = pu at h1
  obtain ⟨pu, r1⟩ := pu
  have h1b := rdChanParams_pos r1
  generalize rdChanParams r1 = pv at h1b
  obtain ⟨pv, r1b⟩ := pv
  simp only [read_eq] at h1 h1b ⊢
  have h2 : r1b.pos ≤ (if h.bytesShifted ≠ 0 then r1b.advance (8 * h.bytesShifted * 2 * h.numSamples) else r1b).pos := by
    split <;> simp [Rd.advance]
  generalize (if h.bytesShifted ≠ 0 then r1b.advance (8 * h.bytesShifted * 2 * h.numSamples) else r1b) = r2 at h2
  split
  · simp only; omega
  · have h3 := decChan_pos cfg b h.numSamples (cfg.bitDepth - 8 * h.bytesShifted + 1) pu r2
    split
    · rename_i r3 he; rw [he] at h3; simp only at h3 ⊢; omega
    · rename_i u r3 he
      rw [he] at h3
      have h4 := decChan_pos cfg b h.numSamples (cfg.bitDepth - 8 * h.bytesShifted + 1) pv r3
      split
      · rename_i r4 he2; rw [he2] at h4; simp only at h3 h4 ⊢; omega
      · rename_i v r4 he2; rw [he2] at h4; simp only at h3 h4 ⊢; split <;> (simp only; omega)

/-- the reader an audio element leaves behind -/
def ElemRes.rd : ElemRes → Rd
  | .done _ _ r => r
  | .fail _ r => r

theorem decMono_pos (ru : Rules) (b : Nat) (cfg : Config) (n : Nat) (r : Rd) : r.pos ≤ (decMono (comp ru b) ru cfg n r).rd.pos := by
  unfold decMono
  have h1 := rdHeader_pos n r
  split
  · rename_i st r1 he; rw [he] at h1; exact h1
  · rename_i h r1 he
    rw [he] at h1
    simp only at h1
    split
    · have h2 := rdMonoEsc_pos (cfg.bitDepth - 8 * h.bytesShifted) h.numSamples r1
      dsimp only
      generalize rdMonoEsc (cfg.bitDepth - 8 * h.bytesShifted) h.numSamples r1 = y at h2
      obtain ⟨mix, r2⟩ := y
      simp only [ElemRes.rd] at h2 ⊢; omega
    · have h2 := compMono_pos ru b cfg h r1
      simp only [comp]
      split
      · rename_i st r2 he2; rw [he2] at h2; simp only [ElemRes.rd] at h2 ⊢; omega
      · rename_i o r2 he2; rw [he2] at h2; simp only [ElemRes.rd] at h2 ⊢; omega

theorem decPair_pos (ru : Rules) (b : Nat) (cfg : Config) (n : Nat) (r : Rd) : r.pos ≤ (decPair (comp ru b) ru cfg n r).rd.pos := by
  unfold decPair
  have h1 := rdHeader_pos n r
  split
  · rename_i st r1 he; rw [he] at h1; exact h1
  · rename_i h r1 he
    rw [he] at h1
    simp only at h1
    split
    · have h2 := rdPairEsc_pos ru cfg.bitDepth h.numSamples r1
      generalize rdPairEsc ru cfg.bitDepth h.numSamples r1 = y at h2
      obtain ⟨u, v, r2⟩ := y
      simp only at h2 ⊢
      split <;> (simp only [ElemRes.rd]; omega)
    · have h2 := compPair_pos b cfg h r1
      simp only [comp]
      split
      · rename_i st r2 he2; rw [he2] at h2; simp only [ElemRes.rd] at h2 ⊢; omega
      · rename_i a c r2 he2; rw [he2] at h2; simp only [ElemRes.rd] at h2 ⊢; omega
      · rename_i r2 he2; rw [he2] at h2; simp only [ElemRes.rd] at h2 ⊢; omega

theorem decFill_pos (b : Nat) (r : Rd) : r.pos ≤ (decFill b r).2.pos := by
  simp only [decFill, read_eq]
  split <;> simp [Rd.advance] <;> omega

theorem decDse_pos (b : Nat) (r : Rd) : r.pos ≤ (decDse b r).2.pos := by
  simp only [decDse, read_eq]
  split <;> split <;> simp [Rd.advance] <;>
    first
      | omega
      | (refine Nat.le_trans (Nat.le_trans ?_ (byteAlign_pos _)) (Nat.le_add_right _ _); dsimp only; omega)

end Sf.AlacCore
