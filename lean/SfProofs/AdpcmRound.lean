/-
  Helper lemmas for SfProps/C07Adpcm.lean, part 2: the IMA decoders of SfModel/Adpcm.lean track the IMA encoder of
  SfModel/AdpcmEnc.lean — the quantiser's `vpdiff` is the decoder's `diff` for the code it emits (`imaQuant_diff`), one decoder
  update lands on the encoder's new state (`ima_decoder_step`), a whole run of one channel (`ima_decoder_run`), and for the WAV
  layout with one channel the block decoder on the encoder's block (`ima_wav_mono_decode_encode`: header parse, unpack ∘ pack).
-/
import SfProofs.AdpcmEnc
import SfProofs.Adpcm
namespace Sf.AdpcmEnc.Proofs
open Sf Sf.Adpcm Sf.AdpcmEnc Sf.Generated

theorem quantBit_ex (mask : Nat) (t : Nat × Int × Int × Int) :
    ∃ b : Nat, b ≤ 1 ∧ quantBit mask t = (t.1 + b * mask, t.2.1 - b * t.2.2.2, t.2.2.1 + b * t.2.2.2, asr t.2.2.2 1) := by
  unfold quantBit
  by_cases h : t.2.1 ≥ t.2.2.2
  · exact ⟨1, by omega, by simp [h]⟩
  · exact ⟨0, by omega, by simp [h]⟩

/-- the three passes of the quantiser: code bits b4 b2 b1, `vpdiff` grows by step, step/2, step/4 for the bits set -/
theorem quant3 (t : Nat × Int × Int × Int) : ∃ b4 b2 b1 : Nat, b4 ≤ 1 ∧ b2 ≤ 1 ∧ b1 ≤ 1 ∧
    (quantBit 1 (quantBit 2 (quantBit 4 t))).1 = t.1 + 4 * b4 + 2 * b2 + b1 ∧
    (quantBit 1 (quantBit 2 (quantBit 4 t))).2.2.1 = t.2.2.1 + b4 * t.2.2.2 + b2 * asr t.2.2.2 1 + b1 * asr (asr t.2.2.2 1) 1 := by
  obtain ⟨b4, h4, e4⟩ := quantBit_ex 4 t
  obtain ⟨b2, h2, e2⟩ := quantBit_ex 2 (quantBit 4 t)
  obtain ⟨b1, h1, e1⟩ := quantBit_ex 1 (quantBit 2 (quantBit 4 t))
  refine ⟨b4, b2, b1, h4, h2, h1, ?_, ?_⟩
  · rw [e1]; simp only; rw [e2]; simp only; rw [e4]; simp only; omega
  · rw [e1]; simp only; rw [e2]; simp only; rw [e4]

theorem imaQuant_diff (step diff : Int) :
    (if (imaQuant step diff).1 / 8 % 2 = 1 then -(imaQuant step diff).2 else (imaQuant step diff).2) = imaDiff step (imaQuant step diff).1 := by
  unfold imaQuant
  simp only
  by_cases h0 : diff < 0
  · simp only [h0, if_true]
    obtain ⟨b4, b2, b1, h4, h2, h1, e1, e2⟩ := quant3 (8, -diff, asr step 3, step)
    rw [e1, e2]
    simp only
    rcases (by omega : b4 = 0 ∨ b4 = 1) with rfl | rfl <;> rcases (by omega : b2 = 0 ∨ b2 = 1) with rfl | rfl <;>
      rcases (by omega : b1 = 0 ∨ b1 = 1) with rfl | rfl <;> simp [imaDiff, asr] <;> omega
  · simp only [h0, if_false]
    obtain ⟨b4, b2, b1, h4, h2, h1, e1, e2⟩ := quant3 (0, diff, asr step 3, step)
    rw [e1, e2]
    simp only
    rcases (by omega : b4 = 0 ∨ b4 = 1) with rfl | rfl <;> rcases (by omega : b2 = 0 ∨ b2 = 1) with rfl | rfl <;>
      rcases (by omega : b1 = 0 ∨ b1 = 1) with rfl | rfl <;> simp [imaDiff, asr] <;> omega

theorem imaIndxAdjust_range : ∀ c, c < 16 → -1 ≤ imaIndxAdjust c ∧ imaIndxAdjust c ≤ 8 := by decide

/-- **the decoder tracks the encoder**: fed the code the encoder emitted for a sample, the decoder's update (of either layout)
    lands on the encoder's new predictor and step index -/
theorem ima_decoder_step (c : Ch) (h : IdxOk c) (x : Int) :
    clamp16 (c.prev + imaDiff (imaStepSize c.idx) (imaStep c x).2) = (imaStep c x).1.prev ∧
    clampImaStepIndex (wrapS 16 (c.idx + imaIndxAdjust (imaStep c x).2)) = (imaStep c x).1.idx ∧
    wrapS 16 (imaStep c x).1.prev = (imaStep c x).1.prev := by
  have hq := imaQuant_diff (imaStepSize c.idx) (x - c.prev)
  have hc := imaQuant_code_lt (imaStepSize c.idx) (x - c.prev)
  obtain ⟨a1, a2⟩ := imaIndxAdjust_range _ hc
  have hl := h.lo
  have hh := h.hi
  unfold imaStep
  simp only
  refine ⟨?_, ?_, ?_⟩
  · rw [← hq]
    split <;> congr 1 <;> omega
  · rw [Sf.Adpcm.wrapS16_id _ (by omega) (by omega)]
  · exact Sf.Adpcm.wrapS16_id _ (clamp16_range _).1 (clamp16_range _).2

/-- the encoder's reconstruction: the predictor after every sample -/
def imaRecon : Ch → List Int → List Int
  | _, [] => []
  | c, x :: xs => (imaStep c x).1.prev :: imaRecon (imaStep c x).1 xs

/-- a whole run of one channel: the AIFF-layout decode loop, started from the encoder's state, reproduces the encoder's
    reconstruction sample for sample -/
theorem ima_decoder_run : ∀ (xs : List Int) (c : Ch), IdxOk c →
    aiffDecodeLoop (imaRun c xs).2 c.prev c.idx = imaRecon c xs := by
  intro xs
  induction xs with
  | nil => intro c _; rfl
  | cons x xs ih =>
    intro c h
    obtain ⟨d1, d2, d3⟩ := ima_decoder_step c h x
    simp only [imaRun, aiffDecodeLoop, imaRecon]
    rw [d1, d2, d3, ih _ (imaStep_ok c x).1]

/-! ## WAV layout, one channel: decode (encode block) -/

theorem wavEncLoop_mono : ∀ (xs : List Int) (k : Nat) (c c2 : Ch),
    wavEncLoop 1 k xs (c, c2) = (((imaRun c xs).1, c2), (imaRun c xs).2) := by
  intro xs
  induction xs with
  | nil => intro k c c2; rfl
  | cons x xs ih =>
    intro k c c2
    simp only [wavEncLoop, imaRun, Nat.lt_irrefl, gt_iff_lt, if_false, if_true]
    rw [ih]

theorem wavDecodeLoop_mono_tracks : ∀ (xs : List Int) (k : Nat) (c : Ch) (i2 : Int) (hist : List Int), IdxOk c →
    wavDecodeLoop 1 k (imaRun c xs).2 (c.idx, i2) (c.prev :: hist) = imaRecon c xs := by
  intro xs
  induction xs with
  | nil => intro k c i2 hist _; rfl
  | cons x xs ih =>
    intro k c i2 hist h
    obtain ⟨d1, d2, d3⟩ := ima_decoder_step c h x
    have hc := (imaStep_ok c x).2.2
    simp only [imaRun, wavDecodeLoop, imaRecon, Nat.lt_irrefl, gt_iff_lt, if_false, if_true, Nat.sub_self, List.getD_cons_zero,
      Nat.mod_eq_of_lt hc]
    rw [d1, d2, d3]
    have := ih (k + 1) (imaStep c x).1 i2 (c.prev :: hist) (imaStep_ok c x).1
    rw [this]

theorem nibPair_lo (a b : Nat) (ha : a < 16) : nibLo (nibPair a b) = a := by unfold nibLo nibPair; omega
theorem nibPair_hi (a b : Nat) (hb : b < 16) : nibHi (nibPair a b) = b := by unfold nibHi nibPair; omega

theorem exists8 {α : Type} (l : List α) (h : 8 ≤ l.length) :
    ∃ a0 a1 a2 a3 a4 a5 a6 a7 rest, l = a0 :: a1 :: a2 :: a3 :: a4 :: a5 :: a6 :: a7 :: rest := by
  match l, h with
  | a0 :: a1 :: a2 :: a3 :: a4 :: a5 :: a6 :: a7 :: rest, _ => exact ⟨a0, a1, a2, a3, a4, a5, a6, a7, rest, rfl⟩
  | [], h | [_], h | [_, _], h | [_, _, _], h | [_, _, _, _], h | [_, _, _, _, _], h | [_, _, _, _, _, _], h
  | [_, _, _, _, _, _, _], h => simp at h

theorem wavUnpack1_pack1 : ∀ (m : Nat) (codes : List Nat), codes.length = 8 * m → (∀ c ∈ codes, c < 16) →
    wavUnpack1 (wavPack1 codes) = codes := by
  intro m
  induction m with
  | zero =>
    intro codes h _
    have : codes = [] := List.length_eq_zero_iff.mp (by simpa using h)
    subst this; rfl
  | succ m ih =>
    intro codes h hc
    obtain ⟨a0, a1, a2, a3, a4, a5, a6, a7, rest, rfl⟩ := exists8 codes (by omega)
    simp only [List.length_cons] at h
    have hr : ∀ c ∈ rest, c < 16 := fun c hm => hc c (by simp [hm])
    have h0 := hc a0 (by simp); have h1 := hc a1 (by simp); have h2 := hc a2 (by simp); have h3 := hc a3 (by simp)
    have h4 := hc a4 (by simp); have h5 := hc a5 (by simp); have h6 := hc a6 (by simp); have h7 := hc a7 (by simp)
    simp only [wavPack1, wavUnpack1, nibPair_lo _ _ h0, nibPair_hi _ _ h1, nibPair_lo _ _ h2, nibPair_hi _ _ h3, nibPair_lo _ _ h4,
      nibPair_hi _ _ h5, nibPair_lo _ _ h6, nibPair_hi _ _ h7, ih rest (by omega) hr]
    rfl

theorem wavHeader_bytes (s idx : Int) (hs0 : -32768 ≤ s) (hs1 : s ≤ 32767) (hi0 : 0 ≤ idx) (hi1 : idx ≤ 88) (rest : List Byte) :
    wavHeader (wavHeaderBytes s idx ++ rest) 0 = (s, idx) := by
  unfold wavHeader wavHeaderBytes
  simp only [Nat.zero_mul, Nat.zero_add, List.cons_append, List.getD_cons_zero, List.getD_cons_succ]
  have e0 : ((wrapU 8 s : Nat) : Int) = s % 256 := by
    unfold wrapU; have : (2 : Int) ^ 8 = 256 := by decide
    rw [this]; omega
  have e1 : ((wrapU 8 (asr s 8) : Nat) : Int) = (s / 256) % 256 := by
    unfold wrapU asr; have : (2 : Int) ^ 8 = 256 := by decide
    rw [this]; omega
  have e2 : ((wrapU 8 idx : Nat) : Int) = idx := by
    unfold wrapU; have : (2 : Int) ^ 8 = 256 := by decide
    rw [this]; omega
  rw [e0, e1, e2, wrapS16_id idx (by omega) (by omega)]
  have hidx : clampImaStepIndex idx = idx := by
    unfold clampImaStepIndex
    rw [if_neg (by omega), if_neg (by omega)]
  rw [hidx]
  have hp : (if (s % 256 + s / 256 % 256 * 256) / 32768 % 2 = 1 then s % 256 + s / 256 % 256 * 256 - 65536
      else s % 256 + s / 256 % 256 * 256) = s := by
    split <;> omega
  rw [hp, wrapS16_id s hs0 hs1]

/-- **decode (encode block), WAV layout, one channel**: the block decoder run on the encoder's block delivers the header
    sample verbatim followed by the encoder's own reconstruction — for every block size 4(m+1), every carried step index,
    every buffer of shorts -/
theorem ima_wav_mono_decode_encode (m : Nat) (st : Ch × Ch) (h1 : IdxOk st.1) (buf : List Int) (hb : buf.length = 8 * m + 1)
    (hs0 : -32768 ≤ buf.getD 0 0) (hs1 : buf.getD 0 0 ≤ 32767) :
    imaWavDecodeBlock 1 (8 * m + 1) (imaWavEncodeBlock 1 (8 * m + 1) st buf).2.1 =
      buf.getD 0 0 :: imaRecon ⟨buf.getD 0 0, st.1.idx⟩ (buf.drop 1) := by
  have hbody : (buf.drop 1).take ((8 * m + 1 - 1) * 1) = buf.drop 1 :=
    List.take_of_length_le (by rw [List.length_drop, hb]; omega)
  have hok : IdxOk (⟨buf.getD 0 0, st.1.idx⟩ : Ch) := ⟨h1.lo, h1.hi⟩
  obtain ⟨_, r2, r3⟩ := imaRun_ok (buf.drop 1) ⟨buf.getD 0 0, st.1.idx⟩ hok
  have hlen : (imaRun ⟨buf.getD 0 0, st.1.idx⟩ (buf.drop 1)).2.length = 8 * m := by rw [r3, List.length_drop, hb]; omega
  unfold imaWavEncodeBlock
  simp only [Nat.lt_irrefl, gt_iff_lt, if_false, hbody, wavEncLoop_mono, wavPack, if_true]
  unfold imaWavDecodeBlock
  simp only [Nat.lt_irrefl, gt_iff_lt, if_false, wavHeader_bytes _ _ hs0 hs1 h1.lo h1.hi, wavUnpack, if_true, Nat.mul_one]
  have hdrop : (wavHeaderBytes (buf.getD 0 0) st.1.idx ++ wavPack1 (imaRun ⟨buf.getD 0 0, st.1.idx⟩ (buf.drop 1)).2).drop 4 =
      wavPack1 (imaRun ⟨buf.getD 0 0, st.1.idx⟩ (buf.drop 1)).2 := by
    simp [wavHeaderBytes]
  rw [hdrop, wavUnpack1_pack1 m _ hlen r2, List.take_of_length_le (by rw [hlen]; omega)]
  simp only [List.reverse_cons, List.reverse_nil, List.nil_append, List.cons_append]
  rw [show ([buf.getD 0 0] : List Int) = (⟨buf.getD 0 0, st.1.idx⟩ : Ch).prev :: [] from rfl]
  exact congrArg _ (wavDecodeLoop_mono_tracks (buf.drop 1) 1 ⟨buf.getD 0 0, st.1.idx⟩ 0 [] hok)

end Sf.AdpcmEnc.Proofs
