/-
  W64: the write session keeps "store = some header of the right length ++ the audio written so far", and every
  header written with recomputed lengths is `hdr c N` (helpers for SfProps/C04W64.lean, C11).
-/
import SfProofs.W64Image
namespace Sf.W64
open Sf Sf.CafW64

theorem writeAt_head (h0 rest h : List Byte) (hl : h.length = h0.length) : writeAt (h0 ++ rest) 0 h = h ++ rest := by
  simp [writeAt, hl]

theorem writeAt_end (bs d : List Byte) : writeAt bs bs.length d = bs ++ d := by simp [writeAt]

/-- the session invariant: `D` is the audio written so far, `w` the frames -/
structure Inv (c : Cfg) (s : St) (D : List Byte) (w : Nat) : Prop where
  hdr0 : ∃ h0 : List Byte, h0.length = hdrLen c ∧ s.bytes = h0 ++ D
  pos : s.pos = s.bytes.length
  off : s.dataoffset = hdrLen c
  wpos : s.wpos = w
  frames : s.frames = w
  dlen : D.length = w * c.bw

theorem tdiv_frames (w bw : Nat) (h : 0 < bw) : Int.tdiv (((w * bw : Nat) : Int)) (bw : Int) = w := by
  have : ((w * bw : Nat) : Int) = (w : Int) * (bw : Int) := by simp
  rw [this, Int.mul_tdiv_cancel _ (by omega)]

theorem writeHeader_inv {c : Cfg} {s : St} {D : List Byte} {w : Nat} (i : Inv c s D w) (hbw : 0 < c.bw) (b : Bool) :
    Inv c (writeHeader c s b) D w ∧ (b = true → (writeHeader c s b).bytes = hdr c w ++ D) ∧ (writeHeader c s b).auto = s.auto ∧
      (writeHeader c s b).written = s.written := by
  obtain ⟨h0, hl, hb⟩ := i.hdr0
  have hlen : s.bytes.length = hdrLen c + w * c.bw := by rw [hb]; simp [hl, i.dlen]
  have hpos : s.pos > 0 := by rw [i.pos, hlen]; have := hdrLen_cases c; omega
  cases b with
  | false =>
    refine ⟨⟨⟨hdrRaw c s.filelength s.datalength s.frames, hdrRaw_length c _ _ _, ?_⟩, ?_, ?_, ?_, ?_, i.dlen⟩, by simp, rfl, rfl⟩
    · simp only [writeHeader, Bool.false_eq_true, if_false]; rw [hb]; exact writeAt_head h0 D _ (by rw [hdrRaw_length, hl])
    · simp only [writeHeader, Bool.false_eq_true, if_false, hpos, if_true]
      rw [hb, writeAt_head h0 D _ (by rw [hdrRaw_length, hl]), i.pos, hb]; simp [hdrRaw_length, hl]
    · simp [writeHeader, hdrRaw_length]
    · simp [writeHeader, i.wpos]
    · simp [writeHeader, i.frames]
  | true =>
    have hdl : (s.bytes.length : Int) - s.dataoffset = ((w * c.bw : Nat) : Int) := by rw [i.off, hlen]; push_cast; omega
    have hfr : Int.tdiv ((s.bytes.length : Int) - s.dataoffset) (c.bw : Int) = w := by rw [hdl]; exact tdiv_frames w c.bw hbw
    have hh : hdrRaw c (s.bytes.length : Int) ((s.bytes.length : Int) - s.dataoffset) (Int.tdiv ((s.bytes.length : Int) - s.dataoffset) (c.bw : Int)) = hdr c w := by
      rw [hfr, hdl, hlen]; rfl
    have hbytes : (writeHeader c s true).bytes = hdr c w ++ D := by
      simp only [writeHeader, if_true]; rw [hh, hb]; exact writeAt_head h0 D _ (by rw [hdr_length, hl])
    refine ⟨⟨⟨hdr c w, hdr_length c w, hbytes⟩, ?_, ?_, ?_, ?_, i.dlen⟩, fun _ => hbytes, rfl, rfl⟩
    · have : (writeHeader c s true).pos = s.pos := by simp only [writeHeader, if_true, hpos]
      rw [this, hbytes, i.pos, hb]; simp [hdr_length, hl]
    · simp only [writeHeader, if_true]; rw [hh]; simp [hdr_length]
    · simp [writeHeader, i.wpos]
    · simp only [writeHeader, if_true]; exact hfr

theorem openW_inv (c : Cfg) (stale : Int) : Inv c (openW c stale) [] 0 := by
  refine ⟨⟨hdrRaw c 0 0 0, hdrRaw_length c _ _ _, ?_⟩, ?_, ?_, rfl, rfl, by simp⟩
  · simp [openW, writeHeader, writeAt]
  · simp [openW, writeHeader, writeAt, hdrRaw_length]
  · simp [openW, writeHeader, hdrRaw_length]

theorem step_inv {c : Cfg} {s : St} {D : List Byte} {w : Nat} (i : Inv c s D w) (hbw : 0 < c.bw) (op : Op) (hv : op.valid c) :
    Inv c (step c s op) (D ++ op.data) (w + op.frames) := by
  cases op with
  | update => simpa [step, Op.data, Op.frames] using (writeHeader_inv i hbw true).1
  | auto on =>
    simp only [step, Op.data, Op.frames, List.append_nil, Nat.add_zero]
    exact ⟨i.hdr0, i.pos, i.off, i.wpos, i.frames, i.dlen⟩
  | write k data =>
    have hk : data.length = k * c.bw := hv
    by_cases h0 : k = 0
    · subst h0; simpa [step, Op.data, Op.frames] using i
    · have hkb : (k == 0) = false := by simpa using h0
      simp only [step, hkb, Bool.false_eq_true, if_false, Op.data, Op.frames]
      -- the header written before the first data
      generalize hs1 : (if (!s.written) = true then writeHeader c s false else s) = s1
      have i1 : Inv c s1 D w := by
        rw [← hs1]; split
        · exact (writeHeader_inv i hbw false).1
        · exact i
      obtain ⟨h0', hl, hb⟩ := i1.hdr0
      -- the data lands at the end of the store
      let s2 : St := { s1 with written := true, bytes := writeAt s1.bytes s1.pos data, pos := s1.pos + data.length, wpos := s1.wpos + k }
      let s3 : St := if s2.wpos > s2.frames then { s2 with frames := s2.wpos } else s2
      have hb2 : s2.bytes = h0' ++ (D ++ data) := by
        show writeAt s1.bytes s1.pos data = _
        rw [i1.pos, writeAt_end, hb, List.append_assoc]
      have hgt : s2.wpos > s2.frames := by
        show s1.wpos + (k : Int) > s1.frames
        rw [i1.wpos, i1.frames]; omega
      have i3 : Inv c s3 (D ++ data) (w + k) := by
        have e3 : s3 = { s2 with frames := s2.wpos } := by simp only [s3, hgt, if_true]
        rw [e3]
        refine ⟨⟨h0', hl, hb2⟩, ?_, i1.off, ?_, ?_, ?_⟩
        · show s1.pos + data.length = (writeAt s1.bytes s1.pos data).length
          rw [i1.pos, writeAt_end]; simp
        · show s1.wpos + (k : Int) = ((w + k : Nat) : Int)
          rw [i1.wpos]; push_cast; rfl
        · show s1.wpos + (k : Int) = ((w + k : Nat) : Int)
          rw [i1.wpos]; push_cast; rfl
        · simp [i1.dlen, hk, Nat.add_mul]
      show Inv c (if s3.auto = true then writeHeader c s3 true else s3) (D ++ data) (w + k)
      split
      · exact (writeHeader_inv i3 hbw true).1
      · exact i3

/-- in auto mode the store after a write call that transferred something is the updated image -/
theorem step_write_auto {c : Cfg} {s : St} {D : List Byte} {w : Nat} (i : Inv c s D w) (hbw : 0 < c.bw) (k : Nat) (data : List Byte)
    (h0 : k ≠ 0) (hk : data.length = k * c.bw) (ha : s.auto = true) :
    (step c s (.write k data)).bytes = hdr c (w + k) ++ (D ++ data) := by
  have hkb : (k == 0) = false := by simpa using h0
  simp only [step, hkb, Bool.false_eq_true, if_false]
  generalize hs1 : (if (!s.written) = true then writeHeader c s false else s) = s1
  have i1 : Inv c s1 D w ∧ s1.auto = true := by
    rw [← hs1]; split
    · exact ⟨(writeHeader_inv i hbw false).1, by rw [(writeHeader_inv i hbw false).2.2.1]; exact ha⟩
    · exact ⟨i, ha⟩
  obtain ⟨i1, ha1⟩ := i1
  obtain ⟨h0', hl, hb⟩ := i1.hdr0
  let s2 : St := { s1 with written := true, bytes := writeAt s1.bytes s1.pos data, pos := s1.pos + data.length, wpos := s1.wpos + k }
  let s3 : St := if s2.wpos > s2.frames then { s2 with frames := s2.wpos } else s2
  have hb2 : s2.bytes = h0' ++ (D ++ data) := by
    show writeAt s1.bytes s1.pos data = _
    rw [i1.pos, writeAt_end, hb, List.append_assoc]
  have hgt : s2.wpos > s2.frames := by
    show s1.wpos + (k : Int) > s1.frames
    rw [i1.wpos, i1.frames]; omega
  have e3 : s3 = { s2 with frames := s2.wpos } := by simp only [s3, hgt, if_true]
  have i3 : Inv c s3 (D ++ data) (w + k) := by
    rw [e3]
    refine ⟨⟨h0', hl, hb2⟩, ?_, i1.off, ?_, ?_, ?_⟩
    · show s1.pos + data.length = (writeAt s1.bytes s1.pos data).length
      rw [i1.pos, writeAt_end]; simp
    · show s1.wpos + (k : Int) = ((w + k : Nat) : Int)
      rw [i1.wpos]; push_cast; rfl
    · show s1.wpos + (k : Int) = ((w + k : Nat) : Int)
      rw [i1.wpos]; push_cast; rfl
    · simp [i1.dlen, hk, Nat.add_mul]
  have ha3 : s3.auto = true := by rw [e3]; exact ha1
  show (if s3.auto = true then writeHeader c s3 true else s3).bytes = _
  rw [if_pos ha3]
  exact (writeHeader_inv i3 hbw true).2.1 rfl

theorem run_inv {c : Cfg} (hbw : 0 < c.bw) (ops : List Op) : ∀ {s : St} {D : List Byte} {w : Nat}, Inv c s D w → (∀ op ∈ ops, op.valid c) →
    Inv c (run c s ops) (D ++ sessData ops) (w + sessFrames ops) := by
  induction ops with
  | nil => intro s D w i _; simpa [run, sessData, sessFrames] using i
  | cons op ops ih =>
    intro s D w i hv
    have i1 := step_inv i hbw op (hv op (by simp))
    have := ih i1 (fun o ho => hv o (by simp [ho]))
    simpa [run, sessData, sessFrames, List.flatMap_cons, Nat.add_assoc] using this

theorem wf_bw_pos {c : Cfg} (h : c.wf) : 0 < c.bw := by
  obtain ⟨hc, h1, _⟩ := h
  have : 0 < bytewidth c.codec := by
    simp [codecs] at hc
    rcases hc with h | h | h | h | h | h | h | h <;> rw [h] <;> decide
  exact Nat.mul_pos this (by omega)

end Sf.W64
