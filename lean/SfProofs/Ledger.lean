/-
  Helper lemmas for SfProps/C16: the primitives of Sf.Ledger cell by cell, the invariant of an open handle,
  its preservation by every call, and what psf_close's release program does to a handle that satisfies it.
-/
import SfModel.Ledger
namespace Sf.Ledger

/-! ### primitives, cell by cell -/

theorem setCell_cell (h : Handle) (c x : Cell) (p : Ptr) :
    (setCell h c p).cell x = if x = c then p else h.cell x := rfl

theorem alloc_cell (c x : Cell) (s : S) : (alloc c s).1.cell x = if x = c then .live else s.1.cell x := rfl
theorem alloc_acct (c : Cell) (s : S) : (alloc c s).2 = if s.1.cell c = .live then s.2.leak c.kind else s.2 := rfl

def freed : Ptr → Ptr
  | .null => .null
  | _ => .dangling

theorem free_cell (c x : Cell) (s : S) : (free c s).1.cell x = if x = c then freed (s.1.cell c) else s.1.cell x := by
  unfold free
  split <;> rename_i h <;> by_cases hx : x = c <;> simp [setCell_cell, hx, h, freed]

theorem free_acct (c : Cell) (s : S) (h : s.1.cell c ≠ .dangling) : (free c s).2 = s.2 := by
  unfold free
  split <;> simp_all

theorem free_acct_dfree (c : Cell) (s : S) (h : s.1.cell c = .dangling) : (free c s).2.dfree = s.2.dfree + 1 := by
  unfold free
  simp [h]

theorem clear_cell (c x : Cell) (s : S) : (clear c s).1.cell x = if x = c then .null else s.1.cell x := rfl
theorem clear_acct (c : Cell) (s : S) (h : s.1.cell c ≠ .live) : (clear c s).2 = s.2 := by
  simp [clear, h]

theorem freeNull_cell (c x : Cell) (s : S) : (freeNull c s).1.cell x = if x = c then .null else s.1.cell x := by
  by_cases hx : x = c <;> simp [freeNull, clear_cell, free_cell, hx]

theorem freed_ne_live (p : Ptr) : freed p ≠ .live := by cases p <;> simp [freed]

theorem freeNull_acct (c : Cell) (s : S) (h : s.1.cell c ≠ .dangling) : (freeNull c s).2 = s.2 := by
  unfold freeNull
  rw [clear_acct, free_acct c s h]
  rw [free_cell]; simp [freed_ne_live]

theorem allocIfNull_cell (c x : Cell) (s : S) :
    (allocIfNull c s).1.cell x = if x = c ∧ s.1.cell c = .null then .live else s.1.cell x := by
  unfold allocIfNull
  by_cases h : s.1.cell c = .null <;> by_cases hx : x = c <;> simp [h, hx, alloc_cell]

theorem allocIfNull_acct (c : Cell) (s : S) : (allocIfNull c s).2 = s.2 := by
  unfold allocIfNull
  by_cases h : s.1.cell c = .null <;> simp [h, alloc_acct]

theorem replace_cell (c x : Cell) (s : S) : (replace c s).1.cell x = if x = c then .live else s.1.cell x := by
  by_cases hx : x = c <;> simp [replace, alloc_cell, free_cell, hx]

theorem replace_acct (c : Cell) (s : S) (h : s.1.cell c ≠ .dangling) : (replace c s).2 = s.2 := by
  unfold replace
  rw [alloc_acct, free_acct c s h, free_cell]; simp [freed_ne_live]

/-! ### the invariant of an open handle -/

/-- what must be in place for a live cell to be released by psf_close -/
def Guarded (h : Handle) : Cell → Prop
  | .nested .gsmState => h.codecClose = some .gsm610
  | .nested .g72xState => h.codecClose = some .g72x
  | .nested .alacPakt => h.codecClose = some .alac
  | .nested .alacTmp => h.codecClose = some .alac ∧ h.mode = .w
  | .tmpFd => h.codecClose = some .alac ∧ h.mode = .w
  | .tmpDisk => h.codecClose = some .alac ∧ h.mode = .w
  | .nested .aiffMarkstr => h.contClose = some .aiff
  | .fileFd => h.vio = false ∧ h.doNotClose = false
  | .rsrcFd => True
  | .psf => True
  | .owner _ => True

structure Inv (s : S) : Prop where
  nodang : ∀ c, s.1.cell c ≠ .dangling
  acct : s.2 = {}
  pay : s.1.payloads = s.1.wused
  payW : 0 < s.1.wused → s.1.cell (.owner .wchunks) = .live
  guard : ∀ c, s.1.cell c = .live → Guarded s.1 c

/-- the part of a handle `Guarded` and the payload loop read -/
def sameMeta (h k : Handle) : Prop :=
  h.codecClose = k.codecClose ∧ h.contClose = k.contClose ∧ h.mode = k.mode ∧ h.vio = k.vio ∧ h.doNotClose = k.doNotClose ∧
  h.payloads = k.payloads ∧ h.wused = k.wused

theorem Guarded_congr {h k : Handle} (m : sameMeta h k) (c : Cell) : Guarded h c ↔ Guarded k c := by
  obtain ⟨h1, h2, h3, h4, h5, _, _⟩ := m
  cases c with
  | nested n => cases n <;> simp [Guarded, h1, h2, h3]
  | _ => simp [Guarded, h1, h3, h4, h5]

/-- a change confined to one cell keeps the invariant -/
theorem Inv_local {s t : S} (c0 : Cell) (hI : Inv s)
    (hcell : ∀ x, x ≠ c0 → t.1.cell x = s.1.cell x)
    (hc : t.1.cell c0 ≠ .dangling)
    (ha : t.2 = s.2) (hm : sameMeta t.1 s.1)
    (hg : t.1.cell c0 = .live → Guarded s.1 c0)
    (hw : c0 = .owner .wchunks → 0 < s.1.wused → t.1.cell (.owner .wchunks) = .live) : Inv t := by
  refine ⟨?_, ?_, ?_, ?_, ?_⟩
  · intro c
    by_cases h : c = c0
    · subst h; exact hc
    · rw [hcell c h]; exact hI.nodang c
  · rw [ha]; exact hI.acct
  · rw [hm.2.2.2.2.2.1, hm.2.2.2.2.2.2]; exact hI.pay
  · intro h0
    rw [hm.2.2.2.2.2.2] at h0
    by_cases h : c0 = .owner .wchunks
    · exact hw h h0
    · rw [hcell _ (fun e => h e.symm)]; exact hI.payW h0
  · intro c hl
    rw [Guarded_congr hm]
    by_cases h : c = c0
    · subst h; exact hg hl
    · rw [hcell c h] at hl; exact hI.guard c hl

theorem Inv_local_owner {s t : S} (sl : Slot) (hI : Inv s)
    (hcell : ∀ x, x ≠ .owner sl → t.1.cell x = s.1.cell x)
    (hc : t.1.cell (.owner sl) ≠ .dangling)
    (ha : t.2 = s.2) (hm : sameMeta t.1 s.1)
    (hw : sl = .wchunks → 0 < s.1.wused → t.1.cell (.owner .wchunks) = .live) : Inv t :=
  Inv_local (.owner sl) hI hcell hc ha hm (fun _ => trivial) (fun e => hw (by injection e))

theorem sameMeta_refl (h : Handle) : sameMeta h h := ⟨rfl, rfl, rfl, rfl, rfl, rfl, rfl⟩

theorem Inv_allocIfNull (sl : Slot) {s : S} (hI : Inv s) : Inv (allocIfNull (.owner sl) s) := by
  apply Inv_local_owner sl hI
  · intro x hx; simp [allocIfNull_cell, hx]
  · rw [allocIfNull_cell]; split
    · simp
    · exact hI.nodang _
  · exact allocIfNull_acct _ _
  · unfold allocIfNull; split <;> exact sameMeta_refl _
  · intro h h0; subst h
    rw [allocIfNull_cell]; simp [hI.payW h0]

theorem Inv_replace (sl : Slot) (hne : sl ≠ .wchunks) {s : S} (hI : Inv s) : Inv (replace (.owner sl) s) := by
  apply Inv_local_owner sl hI
  · intro x hx; simp [replace_cell, hx]
  · simp [replace_cell]
  · exact replace_acct _ _ (hI.nodang _)
  · exact sameMeta_refl _ |> fun h => by
      unfold replace alloc free; split <;> exact h
  · intro h; exact absurd h hne

theorem Inv_freeNull (sl : Slot) (hne : sl ≠ .wchunks) {s : S} (hI : Inv s) : Inv (freeNull (.owner sl) s) := by
  apply Inv_local_owner sl hI
  · intro x hx; simp [freeNull_cell, hx]
  · simp [freeNull_cell]
  · exact freeNull_acct _ _ (hI.nodang _)
  · unfold freeNull clear free; split <;> exact sameMeta_refl _
  · intro h; exact absurd h hne

theorem Inv_alloc_null (sl : Slot) {s : S} (hI : Inv s) (hn : s.1.cell (.owner sl) = .null) : Inv (alloc (.owner sl) s) := by
  have : alloc (.owner sl) s = allocIfNull (.owner sl) s := by simp [allocIfNull, hn]
  rw [this]; exact Inv_allocIfNull sl hI

theorem Inv_refresh (sl : Slot) (hne : sl ≠ .wchunks) {s : S} (hI : Inv s) :
    Inv (alloc (.owner sl) (freeNull (.owner sl) s)) :=
  Inv_alloc_null sl (Inv_freeNull sl hne hI) (by simp [freeNull_cell])

/-- changes of fields the invariant does not read -/
theorem Inv_meta {s : S} (hI : Inv s) (h' : Handle) (hc : h'.cell = s.1.cell) (hm : sameMeta h' s.1) : Inv (h', s.2) := by
  refine ⟨?_, hI.acct, ?_, ?_, ?_⟩
  · intro c; show h'.cell c ≠ _; rw [hc]; exact hI.nodang c
  · show h'.payloads = h'.wused; rw [hm.2.2.2.2.2.1, hm.2.2.2.2.2.2]; exact hI.pay
  · intro h0; show h'.cell _ = _; rw [hc]; apply hI.payW; rw [← hm.2.2.2.2.2.2]; exact h0
  · intro c hl; rw [Guarded_congr hm]; apply hI.guard; show s.1.cell c = _; rw [← hc]; exact hl


/-! ### every call on an open handle keeps the invariant -/

theorem sameMeta_replace (c : Cell) (s : S) : sameMeta (replace c s).1 s.1 := by
  unfold replace alloc free; split <;> exact sameMeta_refl _

theorem Inv_replace_cell (c : Cell) {s : S} (hI : Inv s) (hg : Guarded s.1 c) (hne : c ≠ .owner .wchunks) : Inv (replace c s) := by
  apply Inv_local c hI
  · intro x hx; simp [replace_cell, hx]
  · simp [replace_cell]
  · exact replace_acct _ _ (hI.nodang _)
  · exact sameMeta_replace c s
  · intro _; exact hg
  · intro h; exact absurd h hne

theorem Inv_setChunk {s : S} (hI : Inv s) :
    Inv ({ (allocIfNull (.owner .wchunks) s).1 with payloads := s.1.payloads + 1, wused := s.1.wused + 1 },
         (allocIfNull (.owner .wchunks) s).2) := by
  have hT := Inv_allocIfNull .wchunks hI
  refine ⟨hT.nodang, hT.acct, ?_, ?_, ?_⟩
  · show s.1.payloads + 1 = s.1.wused + 1
    rw [hI.pay]
  · intro _
    show (allocIfNull (.owner .wchunks) s).1.cell (.owner .wchunks) = .live
    rw [allocIfNull_cell]
    by_cases h : s.1.cell (.owner .wchunks) = .null
    · simp [h]
    · have := hI.nodang (.owner .wchunks)
      simp [h]
      cases hc : s.1.cell (.owner .wchunks) <;> simp_all
  · intro c hl
    have := hT.guard c hl
    cases c with
    | nested n => cases n <;> exact this
    | _ => exact this

theorem Inv_stepOpen {s : S} (hI : Inv s) (op : Op) : Inv (stepOpen s op).1 := by
  cases op <;> simp only [stepOpen] <;> (repeat' split) <;>
    first
    | exact hI
    | exact Inv_allocIfNull _ hI
    | exact Inv_replace _ (by decide) hI
    | exact Inv_freeNull _ (by decide) hI
    | exact Inv_setChunk hI
    | exact Inv_meta (Inv_allocIfNull _ hI) _ rfl ⟨rfl, rfl, rfl, rfl, rfl, rfl, rfl⟩
    | exact Inv_meta hI _ rfl ⟨rfl, rfl, rfl, rfl, rfl, rfl, rfl⟩

theorem Inv_applyEv {s : S} (hI : Inv s) (e : Ev) (ha : evAllowed s.1 e = true) : Inv (applyEv e s) := by
  cases e <;> simp only [applyEv]
  case mark =>
    exact Inv_replace_cell _ hI (by simpa [evAllowed, Guarded] using ha) (by decide)
  case str => exact Inv_meta (Inv_allocIfNull _ hI) _ rfl ⟨rfl, rfl, rfl, rfl, rfl, rfl, rfl⟩
  case chunkRec => exact Inv_meta (Inv_allocIfNull _ hI) _ rfl ⟨rfl, rfl, rfl, rfl, rfl, rfl, rfl⟩
  all_goals first
    | exact Inv_refresh _ (by decide) hI
    | exact Inv_allocIfNull _ hI
    | exact Inv_replace _ (by decide) hI


/-! ### psf_close's release program -/

def RAct.target : RAct → Option Cell
  | .free c => some c
  | .freeNull c => some c
  | .clear c => some c
  | .payloads => none

def runProg (prog : List RAct) (s : S) : S := prog.foldl (fun s a => runR a s) s

theorem runProg_cons (a : RAct) (prog : List RAct) (s : S) : runProg (a :: prog) s = runProg prog (runR a s) := rfl
theorem runProg_append (p q : List RAct) (s : S) : runProg (p ++ q) s = runProg q (runProg p s) := by
  simp [runProg, List.foldl_append]

theorem runR_cell_other (a : RAct) (s : S) (x : Cell) (h : a.target ≠ some x) : (runR a s).1.cell x = s.1.cell x := by
  cases a with
  | free c => have : x ≠ c := fun e => h (by simp [RAct.target, e]); simp [runR, free_cell, this]
  | freeNull c => have : x ≠ c := fun e => h (by simp [RAct.target, e]); simp [runR, freeNull_cell, this]
  | clear c => have : x ≠ c := fun e => h (by simp [RAct.target, e]); simp [runR, clear_cell, this]
  | payloads => simp only [runR]; split <;> rfl

theorem runR_target_not_live (a : RAct) (s : S) (c : Cell) (h : a.target = some c) : (runR a s).1.cell c ≠ .live := by
  cases a <;> simp [RAct.target] at h <;> subst h
  · simp [runR, free_cell, freed_ne_live]
  · simp [runR, freeNull_cell]
  · simp [runR, clear_cell]

theorem runR_live_mono (a : RAct) (s : S) (x : Cell) (h : (runR a s).1.cell x = .live) : s.1.cell x = .live := by
  by_cases ht : a.target = some x
  · exact absurd h (runR_target_not_live a s x ht)
  · rwa [runR_cell_other a s x ht] at h

theorem runProg_live (prog : List RAct) (s : S) (x : Cell) (h : (runProg prog s).1.cell x = .live) :
    s.1.cell x = .live ∧ ∀ a ∈ prog, a.target ≠ some x := by
  induction prog generalizing s with
  | nil => exact ⟨h, by simp⟩
  | cons a rest ih =>
    rw [runProg_cons] at h
    have ⟨h1, h2⟩ := ih _ h
    refine ⟨runR_live_mono a s x h1, ?_⟩
    intro b hb
    rcases List.mem_cons.mp hb with e | e
    · subst e; intro ht; exact runR_target_not_live b s x ht h1
    · exact h2 b e

theorem runProg_cell_other (prog : List RAct) (s : S) (x : Cell) (h : ∀ a ∈ prog, a.target ≠ some x) :
    (runProg prog s).1.cell x = s.1.cell x := by
  induction prog generalizing s with
  | nil => rfl
  | cons a rest ih =>
    rw [runProg_cons, ih _ (fun b hb => h b (List.mem_cons_of_mem _ hb)), runR_cell_other a s x (h a (List.mem_cons_self ..))]

theorem runR_acct (a : RAct) (s : S) (h1 : ∀ c, a.target = some c → s.1.cell c ≠ .dangling)
    (h2 : ∀ c, a = .clear c → s.1.cell c ≠ .live) : (runR a s).2 = s.2 := by
  cases a with
  | free c => exact free_acct c s (h1 c rfl)
  | freeNull c => exact freeNull_acct c s (h1 c rfl)
  | clear c => exact clear_acct c s (h2 c rfl)
  | payloads => simp only [runR]; split <;> rfl

theorem runProg_acct (prog : List RAct) (s : S) (hn : (prog.filterMap RAct.target).Nodup)
    (h1 : ∀ a ∈ prog, ∀ c, a.target = some c → s.1.cell c ≠ .dangling)
    (h2 : ∀ c, RAct.clear c ∈ prog → s.1.cell c ≠ .live) : (runProg prog s).2 = s.2 := by
  induction prog generalizing s with
  | nil => rfl
  | cons a rest ih =>
    rw [runProg_cons]
    have hnr : (rest.filterMap RAct.target).Nodup := by
      cases ht : a.target with
      | none => simpa [List.filterMap_cons, ht] using hn
      | some c => simp [List.filterMap_cons, ht] at hn; exact hn.2
    have hdis : ∀ b ∈ rest, ∀ c, b.target = some c → a.target ≠ some c := by
      intro b hb c hbc hac
      simp [List.filterMap_cons, hac] at hn
      exact hn.1 b hb hbc
    rw [ih (runR a s) hnr, runR_acct a s (h1 a (List.mem_cons_self ..)) (fun c e => h2 c (e ▸ List.mem_cons_self ..))]
    · intro b hb c hbc
      rw [runR_cell_other a s c (hdis b hb c hbc)]
      exact h1 b (List.mem_cons_of_mem _ hb) c hbc
    · intro c hc
      rw [runR_cell_other a s c (hdis _ hc c rfl)]
      exact h2 c (List.mem_cons_of_mem _ hc)

theorem runR_wused (a : RAct) (s : S) : (runR a s).1.wused = s.1.wused := by
  cases a <;> simp only [runR]
  · unfold free; split <;> rfl
  · unfold freeNull clear free; split <;> rfl
  · rfl
  · split <;> rfl

theorem runR_payloads (a : RAct) (s : S) (h : a ≠ .payloads) : (runR a s).1.payloads = s.1.payloads := by
  cases a <;> simp only [runR]
  · unfold free; split <;> rfl
  · unfold freeNull clear free; split <;> rfl
  · rfl
  · exact absurd rfl h

theorem runProg_payloads (prog : List RAct) (s : S) (h : RAct.payloads ∉ prog) :
    (runProg prog s).1.payloads = s.1.payloads ∧ (runProg prog s).1.wused = s.1.wused := by
  induction prog generalizing s with
  | nil => exact ⟨rfl, rfl⟩
  | cons a rest ih =>
    rw [runProg_cons]
    have hr : RAct.payloads ∉ rest := fun e => h (List.mem_cons_of_mem _ e)
    have ha : a ≠ .payloads := fun e => h (e ▸ List.mem_cons_self ..)
    rw [(ih (runR a s) hr).1, (ih (runR a s) hr).2, runR_payloads a s ha, runR_wused]
    exact ⟨rfl, rfl⟩

theorem releaseProg_nodup (cc : Option CodecHook) (kc : Option ContHook) (vio dnc : Bool) (m : Mode) :
    ((releaseHead cc kc vio dnc m ++ [RAct.payloads] ++ releaseTail).filterMap RAct.target).Nodup := by
  cases cc with
  | none => cases kc with
    | none => cases vio <;> cases dnc <;> cases m <;> decide
    | some k => cases k <;> cases vio <;> cases dnc <;> cases m <;> decide
  | some c => cases kc with
    | none => cases c <;> cases vio <;> cases dnc <;> cases m <;> decide
    | some k => cases c <;> cases k <;> cases vio <;> cases dnc <;> cases m <;> decide


theorem releaseAll_eq (s : S) : releaseAll s = runProg (releaseProg s.1) s := rfl

theorem clear_mem (cc : Option CodecHook) (kc : Option ContHook) (vio dnc : Bool) (m : Mode) (c : Cell)
    (h : RAct.clear c ∈ releaseHead cc kc vio dnc m ++ [RAct.payloads] ++ releaseTail) : c = .fileFd ∧ vio = false ∧ dnc = true := by
  cases cc with
  | none => cases kc with
    | none => cases vio <;> cases dnc <;> cases m <;>
        simp [releaseHead, releaseTail, fcloseProg, Slot.closeFirst, Slot.closeLast] at h ⊢ <;> exact h
    | some k => cases k <;> cases vio <;> cases dnc <;> cases m <;>
        simp [releaseHead, releaseTail, fcloseProg, contHookProg, Slot.closeFirst, Slot.closeLast] at h ⊢ <;> exact h
  | some k0 => cases kc with
    | none => cases k0 <;> cases vio <;> cases dnc <;> cases m <;>
        simp [releaseHead, releaseTail, fcloseProg, codecHookProg, Slot.closeFirst, Slot.closeLast] at h ⊢ <;> exact h
    | some k => cases k0 <;> cases k <;> cases vio <;> cases dnc <;> cases m <;>
        simp [releaseHead, releaseTail, fcloseProg, codecHookProg, contHookProg, Slot.closeFirst, Slot.closeLast] at h ⊢ <;> exact h

/-- every live cell of a handle satisfying the invariant is the target of some action of psf_close -/
theorem covers (h : Handle) (x : Cell) (hg : Guarded h x) : x ∈ (releaseProg h).filterMap RAct.target := by
  unfold releaseProg
  cases x with
  | psf => simp [releaseTail, RAct.target, List.filterMap_append]
  | owner sl => cases sl <;> simp [releaseHead, releaseTail, RAct.target, List.filterMap_append, Slot.closeFirst, Slot.closeLast]
  | nested n =>
    cases n <;> simp [Guarded] at hg <;>
      simp [releaseHead, releaseTail, RAct.target, List.filterMap_append, codecHookProg, contHookProg, hg]
  | fileFd => simp [Guarded] at hg; simp [releaseHead, fcloseProg, RAct.target, List.filterMap_append, hg.1, hg.2]
  | rsrcFd => simp [releaseHead, RAct.target, List.filterMap_append]
  | tmpFd => simp [Guarded] at hg; simp [releaseHead, RAct.target, List.filterMap_append, codecHookProg, hg]
  | tmpDisk => simp [Guarded] at hg; simp [releaseHead, RAct.target, List.filterMap_append, codecHookProg, hg]

theorem releaseAll_acct {s : S} (hI : Inv s) : (releaseAll s).2 = {} := by
  rw [releaseAll_eq]
  unfold releaseProg
  rw [runProg_acct _ _ (releaseProg_nodup _ _ _ _ _) (fun _ _ c _ => hI.nodang c), hI.acct]
  intro c hc hl
  have ⟨e, hv, hd⟩ := clear_mem _ _ _ _ _ c hc
  subst e
  have := hI.guard _ hl
  simp [Guarded, hd] at this

theorem releaseAll_no_live {s : S} (hI : Inv s) (x : Cell) : (releaseAll s).1.cell x ≠ .live := by
  intro hl
  rw [releaseAll_eq] at hl
  have ⟨h1, h2⟩ := runProg_live _ _ _ hl
  have hm := covers s.1 x (hI.guard x h1)
  rcases List.mem_filterMap.mp hm with ⟨a, ha, ht⟩
  exact h2 a ha ht

theorem head_no_payloads (cc : Option CodecHook) (kc : Option ContHook) (vio dnc : Bool) (m : Mode) :
    RAct.payloads ∉ releaseHead cc kc vio dnc m ∧ ∀ a ∈ releaseHead cc kc vio dnc m, a.target ≠ some (.owner .wchunks) := by
  cases cc with
  | none => cases kc with
    | none => cases vio <;> cases dnc <;> cases m <;> decide
    | some k => cases k <;> cases vio <;> cases dnc <;> cases m <;> decide
  | some c => cases kc with
    | none => cases c <;> cases vio <;> cases dnc <;> cases m <;> decide
    | some k => cases c <;> cases k <;> cases vio <;> cases dnc <;> cases m <;> decide

theorem releaseAll_payloads {s : S} (hI : Inv s) : (releaseAll s).1.payloads = 0 := by
  rw [releaseAll_eq]
  unfold releaseProg
  rw [runProg_append, runProg_append]
  have hh := head_no_payloads s.1.codecClose s.1.contClose s.1.vio s.1.doNotClose s.1.mode
  generalize releaseHead s.1.codecClose s.1.contClose s.1.vio s.1.doNotClose s.1.mode = hd at hh
  have hp := runProg_payloads hd s hh.1
  have hc := runProg_cell_other hd s (.owner .wchunks) hh.2
  have ht : RAct.payloads ∉ releaseTail := by decide
  rw [(runProg_payloads releaseTail _ ht).1]
  show (runR RAct.payloads (runProg hd s)).1.payloads = 0
  simp only [runR]
  split
  · rename_i hn
    rw [hc] at hn
    show (runProg hd s).1.payloads = 0
    rw [hp.1, hI.pay]
    cases hw : s.1.wused with
    | zero => rfl
    | succ n => have := hI.payW (by omega); rw [hn] at this; cases this
  · show (runProg hd s).1.payloads - (runProg hd s).1.wused = 0
    rw [hp.1, hp.2, hI.pay]; omega

/-- psf_close on a handle that satisfies the invariant: nothing is lost, nothing is released twice -/
theorem retire_releaseAll {s : S} (hI : Inv s) : retire (releaseAll s) = {} := by
  unfold retire
  have hl : liveCells (releaseAll s).1 = [] := by
    unfold liveCells
    rw [List.filter_eq_nil_iff]
    intro c _
    simpa using releaseAll_no_live hI c
  rw [hl, releaseAll_payloads hI, releaseAll_acct hI]
  rfl


/-! ### the open programs: a static check, sound for every prefix -/

def codecNested : List Cell :=
  [.nested .gsmState, .nested .g72xState, .nested .alacPakt, .nested .alacTmp, .tmpFd, .tmpDisk]

def evCells : List Cell :=
  [.owner .peakInfo, .owner .cues, .nested .aiffMarkstr, .owner .instrument, .owner .loopInfo, .owner .broadcast, .owner .cart,
   .owner .channelMap, .owner .strings, .owner .rchunks, .owner .iterator]

structure Ck where
  dirty : List Cell
  cc : Option CodecHook
  kc : Option ContHook

def fresh (k : Ck) (xs : List Cell) : Bool := xs.all (fun x => !k.dirty.contains x)

def stepOk (m : Mode) (k : Ck) : Step → Option Ck
  | .contData => if fresh k [.owner .containerData] then some { k with dirty := .owner .containerData :: k.dirty } else none
  | .contHook h => if fresh k [.nested .aiffMarkstr] then some { k with kc := some h } else none
  | .flags => some k
  | .chunkHook => some k
  | .parse => some { k with dirty := evCells ++ k.dirty }
  | .peakW => if fresh k [.owner .peakInfo] then some { k with dirty := .owner .peakInfo :: k.dirty } else none
  | .codecData => if fresh k [.owner .codecData] then some { k with dirty := .owner .codecData :: k.dirty } else none
  | .codecHook h => if fresh k codecNested then some { k with cc := some h } else none
  | .gsmInit => if fresh k codecNested then some { k with dirty := .nested .gsmState :: k.dirty, cc := some .gsm610 } else none
  | .g72xInit => if fresh k codecNested then some { k with dirty := .nested .g72xState :: k.dirty, cc := some .g72x } else none
  | .alacPakt => if k.cc = some .alac then some { k with dirty := .nested .alacPakt :: k.dirty } else none
  | .alacTmp => if k.cc = some .alac && m = .w && fresh k [.nested .alacTmp, .tmpFd, .tmpDisk]
      then some { k with dirty := .nested .alacTmp :: .tmpFd :: .tmpDisk :: k.dirty } else none

def progOk (m : Mode) (k : Ck) : List Step → Bool
  | [] => true
  | st :: rest => match stepOk m k st with
    | none => false
    | some k' => progOk m k' rest

structure StInv (m : Mode) (s : S) (k : Ck) : Prop where
  inv : Inv s
  clean : ∀ x, k.dirty.contains x = false → s.1.cell x = .null
  cc : s.1.codecClose = k.cc
  kc : s.1.contClose = k.kc
  mode : s.1.mode = m

theorem fresh_null {m : Mode} {s : S} {k : Ck} (h : StInv m s k) {xs : List Cell} (hf : fresh k xs = true) :
    ∀ x ∈ xs, s.1.cell x = .null := by
  intro x hx
  apply h.clean
  have := List.all_eq_true.mp hf x hx
  simpa using this

theorem Inv_alloc_fresh (x : Cell) {s : S} (hI : Inv s) (hn : s.1.cell x = .null) (hg : Guarded s.1 x) : Inv (alloc x s) := by
  apply Inv_local x hI
  · intro y hy; simp [alloc_cell, hy]
  · simp [alloc_cell]
  · simp [alloc_acct, hn]
  · exact sameMeta_refl _
  · intro _; exact hg
  · intro e _; subst e; simp [alloc_cell]

theorem Inv_setCodecHook {s : S} (hI : Inv s) (k : Option CodecHook) (hn : ∀ x ∈ codecNested, s.1.cell x = .null) :
    Inv ({ s.1 with codecClose := k }, s.2) := by
  refine ⟨hI.nodang, hI.acct, hI.pay, hI.payW, ?_⟩
  intro c hl
  have hl' : s.1.cell c = .live := hl
  have hg := hI.guard c hl'
  have hnot : c ∉ codecNested := fun hm => by rw [hn c hm] at hl'; cases hl'
  cases c with
  | nested n => cases n <;> first | exact hg | (exfalso; apply hnot; simp [codecNested])
  | tmpFd => exfalso; apply hnot; simp [codecNested]
  | tmpDisk => exfalso; apply hnot; simp [codecNested]
  | _ => exact hg

theorem Inv_setContHook {s : S} (hI : Inv s) (k : Option ContHook) (hn : s.1.cell (.nested .aiffMarkstr) = .null) :
    Inv ({ s.1 with contClose := k }, s.2) := by
  refine ⟨hI.nodang, hI.acct, hI.pay, hI.payW, ?_⟩
  intro c hl
  have hl' : s.1.cell c = .live := hl
  have hg := hI.guard c hl'
  cases c with
  | nested n => cases n <;> first | exact hg | (rw [hn] at hl'; cases hl')
  | _ => exact hg

theorem applyEv_other (e : Ev) (s : S) (x : Cell) (hx : x ∉ evCells) : (applyEv e s).1.cell x = s.1.cell x := by
  simp [evCells] at hx
  cases e <;> simp [applyEv, alloc_cell, freeNull_cell, allocIfNull_cell, replace_cell, hx]

theorem applyEv_hooks (e : Ev) (s : S) :
    (applyEv e s).1.codecClose = s.1.codecClose ∧ (applyEv e s).1.contClose = s.1.contClose ∧ (applyEv e s).1.mode = s.1.mode := by
  cases e <;> simp only [applyEv] <;>
    first
    | (have h := sameMeta_replace (.nested .aiffMarkstr) s; exact ⟨h.1, h.2.1, h.2.2.1⟩)
    | (have h := sameMeta_replace (.owner .channelMap) s; exact ⟨h.1, h.2.1, h.2.2.1⟩)
    | (unfold allocIfNull; split <;> exact ⟨rfl, rfl, rfl⟩)
    | (unfold freeNull clear free alloc; split <;> exact ⟨rfl, rfl, rfl⟩)

theorem applyEvs_spec (evs : List Ev) (s : S) (hI : Inv s) :
    Inv (applyEvs evs s) ∧ (∀ x, x ∉ evCells → (applyEvs evs s).1.cell x = s.1.cell x) ∧
    (applyEvs evs s).1.codecClose = s.1.codecClose ∧ (applyEvs evs s).1.contClose = s.1.contClose ∧ (applyEvs evs s).1.mode = s.1.mode := by
  induction evs generalizing s with
  | nil => exact ⟨hI, fun _ _ => rfl, rfl, rfl, rfl⟩
  | cons e rest ih =>
    unfold applyEvs
    simp only [List.foldl_cons]
    by_cases ha : evAllowed s.1 e = true
    · simp only [ha, if_true]
      have ⟨h1, h2, h3, h4, h5⟩ := ih (applyEv e s) (Inv_applyEv hI e ha)
      have hh := applyEv_hooks e s
      refine ⟨h1, ?_, ?_, ?_, ?_⟩
      · intro x hx; rw [show (List.foldl _ (applyEv e s) rest) = applyEvs rest (applyEv e s) from rfl, h2 x hx, applyEv_other e s x hx]
      · rw [show (List.foldl _ (applyEv e s) rest) = applyEvs rest (applyEv e s) from rfl, h3, hh.1]
      · rw [show (List.foldl _ (applyEv e s) rest) = applyEvs rest (applyEv e s) from rfl, h4, hh.2.1]
      · rw [show (List.foldl _ (applyEv e s) rest) = applyEvs rest (applyEv e s) from rfl, h5, hh.2.2]
    · simp only [ha]
      exact ih s hI


theorem clean_cons {s t : S} {d : List Cell} (xs : List Cell)
    (hc : ∀ y, d.contains y = false → s.1.cell y = .null) (ho : ∀ y, y ∉ xs → t.1.cell y = s.1.cell y) :
    ∀ y, (xs ++ d).contains y = false → t.1.cell y = .null := by
  intro y hy
  have h1 : y ∉ xs ∧ d.contains y = false := by
    simp only [List.contains_eq_mem, List.mem_append, decide_eq_false_iff_not, not_or] at hy
    exact ⟨hy.1, by simpa using hy.2⟩
  rw [ho y h1.1]; exact hc y h1.2

theorem step_sound (c : OpenCfg) (st : Step) {s : S} {k k' : Ck} (h : StInv c.mode s k) (hk : stepOk c.mode k st = some k') :
    StInv c.mode (applyStep c st s) k' := by
  cases st <;> simp only [stepOk] at hk
  case contData =>
    split at hk <;> simp at hk; subst hk; rename_i hf
    have hn := fresh_null h hf
    refine ⟨Inv_alloc_fresh _ h.inv (hn _ (by simp)) trivial, ?_, h.cc, h.kc, h.mode⟩
    exact clean_cons [_] h.clean (fun y hy => by simp at hy; simp [applyStep, alloc_cell, hy])
  case contHook hk0 =>
    split at hk <;> simp at hk; subst hk; rename_i hf
    have hn := fresh_null h hf
    exact ⟨Inv_setContHook h.inv _ (hn _ (by simp)), h.clean, h.cc, rfl, h.mode⟩
  case flags =>
    simp at hk; subst hk
    exact ⟨Inv_meta h.inv _ rfl ⟨rfl, rfl, rfl, rfl, rfl, rfl, rfl⟩, h.clean, h.cc, h.kc, h.mode⟩
  case chunkHook =>
    simp at hk; subst hk
    exact ⟨Inv_meta h.inv _ rfl ⟨rfl, rfl, rfl, rfl, rfl, rfl, rfl⟩, h.clean, h.cc, h.kc, h.mode⟩
  case parse =>
    simp at hk; subst hk
    have ⟨h1, h2, h3, h4, h5⟩ := applyEvs_spec c.evs s h.inv
    refine ⟨h1, clean_cons evCells h.clean (fun y hy => h2 y hy), ?_, ?_, ?_⟩
    · show (applyEvs c.evs s).1.codecClose = _; rw [h3]; exact h.cc
    · show (applyEvs c.evs s).1.contClose = _; rw [h4]; exact h.kc
    · show (applyEvs c.evs s).1.mode = _; rw [h5]; exact h.mode
  case peakW =>
    split at hk <;> simp at hk; subst hk; rename_i hf
    have hn := fresh_null h hf
    refine ⟨Inv_alloc_fresh _ h.inv (hn _ (by simp)) trivial, ?_, h.cc, h.kc, h.mode⟩
    exact clean_cons [_] h.clean (fun y hy => by simp at hy; simp [applyStep, alloc_cell, hy])
  case codecData =>
    split at hk <;> simp at hk; subst hk; rename_i hf
    have hn := fresh_null h hf
    refine ⟨Inv_alloc_fresh _ h.inv (hn _ (by simp)) trivial, ?_, h.cc, h.kc, h.mode⟩
    exact clean_cons [_] h.clean (fun y hy => by simp at hy; simp [applyStep, alloc_cell, hy])
  case codecHook hk0 =>
    split at hk <;> simp at hk; subst hk; rename_i hf
    exact ⟨Inv_setCodecHook h.inv _ (fresh_null h hf), h.clean, rfl, h.kc, h.mode⟩
  case gsmInit =>
    split at hk <;> simp at hk; subst hk; rename_i hf
    have hn := fresh_null h hf
    have h1 := Inv_setCodecHook h.inv (some .gsm610) hn
    have h2 := Inv_alloc_fresh (.nested .gsmState) h1 (hn _ (by simp [codecNested])) rfl
    refine ⟨h2, ?_, rfl, h.kc, h.mode⟩
    exact clean_cons [_] h.clean (fun y hy => by simp at hy; simp [applyStep, alloc_cell, hy])
  case g72xInit =>
    split at hk <;> simp at hk; subst hk; rename_i hf
    have hn := fresh_null h hf
    have h1 := Inv_setCodecHook h.inv (some .g72x) hn
    have h2 := Inv_alloc_fresh (.nested .g72xState) h1 (hn _ (by simp [codecNested])) rfl
    refine ⟨h2, ?_, rfl, h.kc, h.mode⟩
    exact clean_cons [_] h.clean (fun y hy => by simp at hy; simp [applyStep, alloc_cell, hy])
  case alacPakt =>
    split at hk <;> simp at hk; subst hk; rename_i hf
    have hg : Guarded s.1 (.nested .alacPakt) := by simp [Guarded, h.cc, hf]
    refine ⟨Inv_replace_cell _ h.inv hg (by decide), ?_, ?_, ?_, ?_⟩
    · exact clean_cons [_] h.clean (fun y hy => by simp at hy; simp [applyStep, replace_cell, hy])
    · show (replace _ s).1.codecClose = _; rw [(sameMeta_replace _ s).1]; exact h.cc
    · show (replace _ s).1.contClose = _; rw [(sameMeta_replace _ s).2.1]; exact h.kc
    · show (replace _ s).1.mode = _; rw [(sameMeta_replace _ s).2.2.1]; exact h.mode
  case alacTmp =>
    split at hk <;> simp at hk; subst hk; rename_i hf
    simp only [Bool.and_eq_true, decide_eq_true_eq] at hf
    obtain ⟨⟨hcc, hm⟩, hf⟩ := hf
    have hn := fresh_null h hf
    have hmode : s.1.mode = .w := by rw [h.mode]; exact hm
    have hg : s.1.codecClose = some .alac ∧ s.1.mode = .w := ⟨by rw [h.cc]; exact hcc, hmode⟩
    have h1 := Inv_alloc_fresh (.nested .alacTmp) h.inv (hn _ (by simp)) hg
    have h2 := Inv_alloc_fresh .tmpFd h1 (by rw [alloc_cell]; simp [hn .tmpFd (by simp)]) hg
    have h3 := Inv_alloc_fresh .tmpDisk h2 (by rw [alloc_cell, alloc_cell]; simp [hn .tmpDisk (by simp)]) hg
    refine ⟨h3, ?_, h.cc, h.kc, h.mode⟩
    exact clean_cons [_, _, _] h.clean (fun y hy => by simp at hy; simp [applyStep, alloc_cell, hy])

theorem runSteps_cons (c : OpenCfg) (st : Step) (l : List Step) (s : S) :
    runSteps c (st :: l) s = runSteps c l (applyStep c st s) := rfl

/-- every prefix of a checked program keeps the invariant: an open may fail after any number of steps -/
theorem prog_sound (c : OpenCfg) (sts : List Step) {s : S} {k : Ck} (h : StInv c.mode s k) (hp : progOk c.mode k sts = true) (n : Nat) :
    Inv (runSteps c (sts.take n) s) := by
  induction sts generalizing s k n with
  | nil => simpa [runSteps] using h.inv
  | cons st rest ih =>
    cases n with
    | zero => simpa [runSteps] using h.inv
    | succ n =>
      simp only [List.take_succ_cons, runSteps_cons]
      unfold progOk at hp
      split at hp
      · cases hp
      · rename_i k' hk
        exact ih (step_sound c st h hk) hp n

def k0 : Ck := { dirty := [.psf, .owner .header, .fileFd], cc := none, kc := none }

theorem openSteps_ok (cont : Cont) (mode : Mode) (ex fl : Bool) (codec : Codec) :
    progOk mode k0 (openSteps { cont := cont, mode := mode, existing := ex, isFloat := fl, codec := codec }) = true := by
  cases cont <;> cases mode <;> cases ex <;> cases fl <;> cases codec <;> rfl

theorem openSteps_congr (c : OpenCfg) :
    openSteps c = openSteps { cont := c.cont, mode := c.mode, existing := c.existing, isFloat := c.isFloat, codec := c.codec } := rfl


/-! ### sf_open*, and the world -/

theorem Inv_blank (m : Mode) (ct : Cont) (f : Bool) : Inv (({ mode := m, cont := ct, isFloat := f } : Handle), ({} : Acct)) :=
  ⟨fun _ => by simp, rfl, rfl, fun h => by simp at h, fun _ h => by simp at h⟩

theorem Inv_setRouteFlags {s : S} (hI : Inv s) (v d : Bool) (hn : s.1.cell .fileFd = .null) :
    Inv ({ s.1 with vio := v, doNotClose := d }, s.2) := by
  refine ⟨hI.nodang, hI.acct, hI.pay, hI.payW, ?_⟩
  intro c hl
  have hl' : s.1.cell c = .live := hl
  have hg := hI.guard c hl'
  cases c with
  | nested n => cases n <;> exact hg
  | fileFd => rw [hn] at hl'; cases hl'
  | _ => exact hg

theorem allocate_spec (c : OpenCfg) : StInv c.mode (allocate c {}) k0 := by
  have hb := Inv_blank c.mode c.cont c.isFloat
  have h1 := Inv_alloc_fresh .psf hb rfl trivial
  have h2 := Inv_alloc_fresh (.owner .header) h1 (by simp [alloc_cell]) trivial
  have hfd : (alloc (.owner .header) (alloc .psf (({ mode := c.mode, cont := c.cont, isFloat := c.isFloat } : Handle), ({} : Acct)))).1.cell .fileFd = .null := by
    simp [alloc_cell]
  have hclean : ∀ (t : S), (∀ y, y ∉ [Cell.psf, .owner .header, .fileFd] → t.1.cell y = .null) → ∀ x, k0.dirty.contains x = false → t.1.cell x = .null := by
    intro t ht x hx
    apply ht
    simpa [k0] using hx
  unfold allocate
  cases hr : c.route with
  | path ok =>
    cases ok
    · exact ⟨h2, hclean _ (fun y hy => by simp at hy; simp [alloc_cell, hy]), rfl, rfl, rfl⟩
    · refine ⟨Inv_alloc_fresh .fileFd h2 hfd ⟨rfl, rfl⟩, hclean _ (fun y hy => by simp at hy; simp [alloc_cell, hy]), rfl, rfl, rfl⟩
  | fd cd =>
    cases cd
    · exact ⟨Inv_setRouteFlags h2 false true hfd, hclean _ (fun y hy => by simp at hy; simp [alloc_cell, hy]), rfl, rfl, rfl⟩
    · refine ⟨Inv_alloc_fresh .fileFd h2 hfd ⟨rfl, rfl⟩, hclean _ (fun y hy => by simp at hy; simp [alloc_cell, hy]), rfl, rfl, rfl⟩
  | vio => exact ⟨Inv_setRouteFlags h2 true false hfd, hclean _ (fun y hy => by simp at hy; simp [alloc_cell, hy]), rfl, rfl, rfl⟩

theorem open_prefix_inv (c : OpenCfg) (n : Nat) : Inv (runSteps c ((openSteps c).take n) (allocate c {})) := by
  apply prog_sound c (openSteps c) (allocate_spec c)
  rw [openSteps_congr]; exact openSteps_ok _ _ _ _ _

theorem open_full_inv (c : OpenCfg) : Inv (runSteps c (openSteps c) (allocate c {})) := by
  have := open_prefix_inv c (openSteps c).length
  rwa [List.take_length] at this

/-- the invariant of a world: nothing lost, nothing released twice, and the open handle (if any) satisfies `Inv` -/
def WInv (w : World) : Prop := w.a = {} ∧ ∀ h, w.h = some h → Inv (h, ({} : Acct))

theorem doOpen_spec (c : OpenCfg) : WInv (doOpen c {}).1 := by
  unfold doOpen
  simp only
  split
  · exact ⟨retire_releaseAll (allocate_spec c).inv, fun _ h => by cases h⟩
  · exact ⟨retire_releaseAll (open_prefix_inv c _), fun _ h => by cases h⟩
  · have hI := open_full_inv c
    refine ⟨hI.acct, ?_⟩
    intro h hh
    simp at hh; subst hh
    have := Inv_meta hI { (runSteps c (openSteps c) (allocate c {})).1 with haveWritten := c.mode = .rw && c.existing && c.hasFrames } rfl
      ⟨rfl, rfl, rfl, rfl, rfl, rfl, rfl⟩
    rw [hI.acct] at this
    exact this

theorem doOpen_fail_closed (c : OpenCfg) (a : Acct) (k : Nat) (h : c.failAt = some k) : (doOpen c a).1.h = none := by
  unfold doOpen
  simp only [h]
  split <;> first | rfl | (rename_i h1 h2; cases h2) | skip
  all_goals simp_all

theorem step_some_WInv (h : Handle) (hI : Inv (h, ({} : Acct))) (op : Op) :
    WInv ({ h := some (stepOpen (h, {}) op).1.1, a := (stepOpen (h, {}) op).1.2 } : World) := by
  have hs := Inv_stepOpen hI op
  refine ⟨hs.acct, ?_⟩
  intro h' e
  simp at e; subst e
  have e2 : ((stepOpen (h, {}) op).1.1, ({} : Acct)) = (stepOpen (h, {}) op).1 := Prod.ext rfl hs.acct.symm
  rw [e2]; exact hs

theorem step_WInv {w : World} (hw : WInv w) (op : Op) : WInv (step w op).1 := by
  obtain ⟨ha, hh⟩ := hw
  cases hw' : w.h with
  | none =>
    cases op <;> simp only [step, hw'] <;> first | exact ⟨ha, hh⟩ | (rw [ha]; exact doOpen_spec _)
  | some h =>
    have hI := hh h hw'
    cases op <;> simp only [step, hw']
    case «open» => exact ⟨ha, hh⟩
    case close => rw [ha]; exact ⟨retire_releaseAll hI, fun _ e => by cases e⟩
    all_goals
      rw [ha]
      exact step_some_WInv h hI _

theorem run_WInv {w : World} (hw : WInv w) (ops : List Op) : WInv (run w ops) := by
  induction ops generalizing w with
  | nil => exact hw
  | cons op rest ih => exact ih (step_WInv hw op)

theorem WInv_init : WInv {} := ⟨rfl, fun _ h => by cases h⟩


/-! ### several handles -/

def WsInv (w : Worlds) : Prop := w.a = {} ∧ ∀ p ∈ w.hs, Inv (p.2, ({} : Acct))

theorem get_mem {w : Worlds} {i : Nat} {h : Handle} (e : w.get i = some h) : ∃ p ∈ w.hs, p.2 = h := by
  unfold Worlds.get at e
  cases hf : w.hs.find? (fun p => p.1 == i) with
  | none => simp [hf] at e
  | some p =>
    simp [hf] at e
    exact ⟨p, List.mem_of_find?_eq_some hf, e⟩

theorem stepAt_WsInv {w : Worlds} (hw : WsInv w) (i : Nat) (op : Op) : WsInv (stepAt w i op).1 := by
  obtain ⟨ha, hh⟩ := hw
  have h1 : WInv ({ h := w.get i, a := w.a } : World) := by
    refine ⟨ha, ?_⟩
    intro h e
    obtain ⟨p, hp, e2⟩ := get_mem e
    subst e2
    exact hh p hp
  have h2 := step_WInv h1 op
  unfold stepAt Worlds.set
  refine ⟨h2.1, ?_⟩
  intro p hp
  simp only at hp
  cases hr : (step { h := w.get i, a := w.a } op).1.h with
  | none =>
    rw [hr] at hp
    exact hh p ((List.mem_filter.mp hp).1)
  | some h' =>
    rw [hr] at hp
    rcases List.mem_cons.mp hp with e | e
    · subst e; exact h2.2 h' hr
    · exact hh p ((List.mem_filter.mp e).1)

theorem runAt_WsInv {w : Worlds} (hw : WsInv w) (ops : List (Nat × Op)) : WsInv (runAt w ops) := by
  induction ops generalizing w with
  | nil => exact hw
  | cons p rest ih => exact ih (stepAt_WsInv hw p.1 p.2)

theorem WsInv_init : WsInv {} := ⟨rfl, fun _ h => by cases h⟩

theorem get_set_other (w : Worlds) (i j : Nat) (h : Option Handle) (a : Acct) (hne : j ≠ i) : (w.set i h a).get j = w.get j := by
  unfold Worlds.get Worlds.set
  have hf : ∀ l : List (Nat × Handle), (l.filter (fun p => p.1 != i)).find? (fun p => p.1 == j) = l.find? (fun p => p.1 == j) := by
    intro l
    induction l with
    | nil => rfl
    | cons q rest ih =>
      by_cases hq : q.1 = i
      · have hij : (i == j) = false := by simp; exact fun e => hne e.symm
        simp [List.filter_cons, hq, List.find?_cons, hij, ih]
      · simp [List.filter_cons, hq, List.find?_cons, ih]
  cases h with
  | none => simp only; rw [hf]
  | some h' =>
    simp only
    have : ((i, h').1 == j) = false := by simp; exact fun e => hne e.symm
    rw [List.find?_cons, this, hf]

end Sf.Ledger
