/-
  ALAC wrapper (SfModel/AlacFile.lean): the write side as a list of packets (helpers of SfProps/C01AlacFile.lean).
  `encSeq cd e blocks` = the encoder run over consecutive packets with its state threaded; `WInv cd w blocks`: the temporary
  file of the writer state `w` is the concatenation of `encSeq cd cd.init blocks`, the packet table lists their sizes, every
  block has 4096 frames and fewer than 4096 frames are staged.  `writeLoop_inv`: the staging loop of alac_write_* keeps the
  invariant and `blocks.flatten ++ staged` grows by exactly the frames handed over; `finish_inv`: alac_close adds the short
  final packet.  For every codec.
-/
import SfModel.AlacFile
import SfProps.C07Alac
namespace Sf.AlacWriter
open Sf Sf.Alac Sf.C07Alac

variable {σ α : Type}

def encSeq (cd : Codec σ α) : σ → List (List α) → List (List Byte)
  | _, [] => []
  | e, b :: bs => (cd.enc e b).2 :: encSeq cd (cd.enc e b).1 bs

def encEnd (cd : Codec σ α) : σ → List (List α) → σ
  | e, [] => e
  | e, b :: bs => encEnd cd (cd.enc e b).1 bs

theorem encSeq_append (cd : Codec σ α) : ∀ (bs : List (List α)) (e : σ) (b : List α),
    encSeq cd e (bs ++ [b]) = encSeq cd e bs ++ [(cd.enc (encEnd cd e bs) b).2]
  | [], _, _ => rfl
  | x :: bs, e, b => by simp [encSeq, encEnd, encSeq_append cd bs]

theorem encEnd_append (cd : Codec σ α) : ∀ (bs : List (List α)) (e : σ) (b : List α),
    encEnd cd e (bs ++ [b]) = (cd.enc (encEnd cd e bs) b).1
  | [], _, _ => rfl
  | x :: bs, e, b => by simp [encEnd, encEnd_append cd bs]

theorem encSeq_length (cd : Codec σ α) : ∀ (bs : List (List α)) (e : σ), (encSeq cd e bs).length = bs.length
  | [], _ => rfl
  | x :: bs, e => by simp [encSeq, encSeq_length cd bs]

structure WInv (cd : Codec σ α) (w : W σ α) (blocks : List (List α)) : Prop where
  tmp : w.tmp = (encSeq cd cd.init blocks).flatten
  sizes : w.sizes = (encSeq cd cd.init blocks).map List.length
  e : w.e = encEnd cd cd.init blocks
  full : ∀ b ∈ blocks, b.length = fpb
  staged : w.staged.length < fpb

theorem init_inv (cd : Codec σ α) : WInv cd (W.init cd) [] :=
  ⟨rfl, rfl, rfl, by simp, by simp [W.init, fpb]⟩

/-- `alac_encode_block` on a state that satisfies the invariant up to the staged count -/
theorem encodeBlock_inv (cd : Codec σ α) (w : W σ α) (blocks : List (List α)) (ht : w.tmp = (encSeq cd cd.init blocks).flatten)
    (hs : w.sizes = (encSeq cd cd.init blocks).map List.length) (he : w.e = encEnd cd cd.init blocks) :
    (encodeBlock cd w).tmp = (encSeq cd cd.init (blocks ++ [w.staged])).flatten ∧
    (encodeBlock cd w).sizes = (encSeq cd cd.init (blocks ++ [w.staged])).map List.length ∧
    (encodeBlock cd w).e = encEnd cd cd.init (blocks ++ [w.staged]) ∧ (encodeBlock cd w).staged = [] ∧
    (encodeBlock cd w).frames = w.frames := by
  unfold encodeBlock
  simp only [encSeq_append, encEnd_append, ht, hs, he]
  simp

theorem writeLoop_inv (cd : Codec σ α) : ∀ (n : Nat) (xs : List α), xs.length = n → ∀ (w : W σ α) (blocks : List (List α)),
    WInv cd w blocks → ∃ blocks', WInv cd (writeLoop cd w xs) blocks' ∧
      blocks'.flatten ++ (writeLoop cd w xs).staged = blocks.flatten ++ w.staged ++ xs := by
  intro n
  induction n using Nat.strongRecOn with
  | _ n ih =>
    intro xs hn w blocks hw
    by_cases hx : xs = []
    · subst hx; rw [writeLoop_nil]; exact ⟨blocks, hw, by simp⟩
    have hpos : 0 < xs.length := List.length_pos_iff.mpr hx
    have hst := hw.staged
    by_cases hsh : w.staged.length + xs.length < fpb
    · rw [writeLoop_short cd w xs hsh]
      exact ⟨blocks, ⟨hw.tmp, hw.sizes, hw.e, hw.full, by simp; omega⟩, by simp⟩
    · rw [writeLoop_step cd w xs hx]
      have hwc : wcOf w.staged.length xs.length = fpb - w.staged.length := by
        unfold wcOf; rw [if_neg (by omega)]
      have hlen1 : (w.staged ++ xs.take (fpb - w.staged.length)).length = fpb := by
        rw [List.length_append, List.length_take]; omega
      have hstep : writeStep cd w xs = encodeBlock cd { w with staged := w.staged ++ xs.take (fpb - w.staged.length) } := by
        unfold writeStep
        rw [hwc]
        simp only
        rw [if_pos (by rw [hlen1]; exact Nat.le_refl _)]
      obtain ⟨e1, e2, e3, e4, _⟩ := encodeBlock_inv cd { w with staged := w.staged ++ xs.take (fpb - w.staged.length) } blocks hw.tmp hw.sizes hw.e
      have hw' : WInv cd (writeStep cd w xs) (blocks ++ [w.staged ++ xs.take (fpb - w.staged.length)]) := by
        rw [hstep]
        refine ⟨e1, e2, e3, ?_, by rw [e4]; simp [fpb]⟩
        intro b hb
        rw [List.mem_append] at hb
        rcases hb with hb | hb
        · exact hw.full b hb
        · simp at hb; subst hb; exact hlen1
      rw [hwc]
      obtain ⟨blocks', hi, hfl⟩ := ih (xs.drop (fpb - w.staged.length)).length (by rw [List.length_drop, ← hn]; omega) _ rfl _ _ hw'
      refine ⟨blocks', hi, ?_⟩
      rw [hfl, hstep, e4]
      simp only [List.flatten_append, List.flatten_cons, List.flatten_nil, List.append_nil, List.append_assoc]
      rw [List.take_append_drop]

/-- all write calls, then the first half of alac_close: the packets of the closed file -/
theorem finish_inv (cd : Codec σ α) (calls : List (List α)) :
    ∃ blocks, (finish cd (writeCalls cd (W.init cd) calls)).tmp = (encSeq cd cd.init blocks).flatten ∧
      (finish cd (writeCalls cd (W.init cd) calls)).sizes = (encSeq cd cd.init blocks).map List.length ∧
      blocks.flatten = calls.flatten ∧ (∀ b ∈ blocks, 0 < b.length ∧ b.length ≤ fpb) ∧
      (writeCalls cd (W.init cd) calls).frames = calls.flatten.length := by
  have hw0 : (W.init cd : W σ α).staged.length < fpb := by simp [W.init, fpb]
  obtain ⟨blocks, hi, hfl⟩ := writeLoop_inv cd _ calls.flatten rfl (W.init cd) [] (init_inv cd)
  rw [writeCalls_loop cd calls _ hw0]
  have hfl' : blocks.flatten ++ (writeLoop cd (W.init cd) calls.flatten).staged = calls.flatten := by
    rw [hfl]; simp [W.init]
  generalize writeLoop cd (W.init cd) calls.flatten = w at hi hfl'
  unfold finish
  simp only
  by_cases hs : 0 < w.staged.length ∧ w.staged.length < fpb
  · rw [if_pos hs]
    obtain ⟨e1, e2, _, _, _⟩ := encodeBlock_inv cd { w with frames := (W.init cd : W σ α).frames + calls.flatten.length } blocks hi.tmp hi.sizes hi.e
    refine ⟨blocks ++ [w.staged], e1, e2, by simpa using hfl', ?_, by simp [W.init]⟩
    intro b hb
    rw [List.mem_append] at hb
    rcases hb with hb | hb
    · rw [hi.full b hb]; simp [fpb]
    · simp at hb; subst hb; exact ⟨hs.1, Nat.le_of_lt hs.2⟩
  · rw [if_neg hs]
    have h0 : w.staged = [] := by
      have := hi.staged
      cases hst : w.staged with
      | nil => rfl
      | cons a t => rw [hst] at hs this; simp at hs this; omega
    refine ⟨blocks, hi.tmp, hi.sizes, by rw [h0] at hfl'; simpa using hfl', ?_, by simp [W.init]⟩
    intro b hb
    rw [hi.full b hb]; simp [fpb]

end Sf.AlacWriter
