/-
  SfProofs.AbsWriteBridgeSamplePeak — the PEAK bookkeeping of a sample-level session (`Sf.AbsWriteBridge.Sample.SOp`) in terms
  of `Sf.Peak.run` (SfModel/Peak.lean: `Sf.peakUpdate` of the handle model, one update per staging-buffer chunk when the caller's
  type is not the file's), and its partition independence ON SAMPLES (`peak_partition`, from `Sf.Peak.run_partition` =
  C18 `peak_partition_independent`): two lists of well-formed write calls of one caller type that hand over the same samples
  end in the same PEAK table — values and positions.  `threadPeaks` is the table after every call, as the PEAK containers'
  models (AIFF, CAF) want it on their write operations.
-/
import SfProofs.AbsWriteBridgeSample
import SfProofs.PeakFile
namespace Sf.AbsWriteBridge.Sample
open Sf Sf.AbsWrite Sf.AbsWriteBridge

/-- the PEAK table after the write calls of `ops`, the first made at frame `wpos` with the table `pk` -/
def peakFrom (e : Enc) (ch : Nat) (ty : Ty) (pk : Option (List Sf.Peak)) (wpos : Int) (ops : List SOp) : Option (List Sf.Peak) :=
  Sf.Peak.run e {} ch pk wpos (sCalls ty ops)

/-- the PEAK table of a FLOAT / DOUBLE file after the session `ops` (all zero after open) -/
def peakAfter (e : Enc) (ch : Nat) (ty : Ty) (ops : List SOp) : Option (List Sf.Peak) :=
  peakFrom e ch ty (some (mkPeaks ch)) 0 ops

/-- what the PEAK theorems ask of the write calls: not empty, whole frames, finite in the file's type -/
def PeakOk (e : Enc) (ch : Nat) (ty : Ty) (ops : List SOp) : Prop :=
  ∀ call ∈ sCalls ty ops, Sf.Peak.WellFormed e {} ch call

theorem sCalls_append (ty : Ty) : ∀ (xs ys : List SOp), sCalls ty (xs ++ ys) = sCalls ty xs ++ sCalls ty ys
  | [], _ => rfl
  | .write _ _ :: xs, ys => by simp [sCalls, sCalls_append ty xs ys]
  | .update :: xs, ys => by simp [sCalls, sCalls_append ty xs ys]

theorem fileVals_sCalls (e : Enc) (ty : Ty) : ∀ (ops : List SOp),
    Sf.Peak.fileVals e {} (sCalls ty ops) = (sData ops).map (Sf.Peak.convVal e {} ty)
  | [] => rfl
  | .write xs _ :: r => by
    have ih := fileVals_sCalls e ty r
    simp only [Sf.Peak.fileVals, List.flatMap_cons, sCalls, sData, List.map_append] at ih ⊢
    rw [ih]
  | .update :: r => by simpa [sCalls, sData] using fileVals_sCalls e ty r

/-- **PEAK value and position are partition independent, on samples** -/
theorem peak_partition (e : Enc) (hfl : e.isFloatData = true) (ch : Nat) (hch : 0 < ch) (ty : Ty) (ops ops' : List SOp)
    (hg : PeakOk e ch ty ops) (hg' : PeakOk e ch ty ops') (h : sData ops = sData ops') :
    peakAfter e ch ty ops = peakAfter e ch ty ops' :=
  Sf.Peak.run_partition e hfl {} ch hch _ _ (by rw [fileVals_sCalls, fileVals_sCalls, h]) hg hg'

/-- the write position (in frames) after the calls of `ops` -/
def wposAfter (ch : Nat) (wpos : Int) : List SOp → Int
  | [] => wpos
  | .write xs _ :: r => wposAfter ch (wpos + (xs.length : Int) / ch) r
  | .update :: r => wposAfter ch wpos r

theorem peakFrom_append (e : Enc) (ch : Nat) (ty : Ty) : ∀ (xs ys : List SOp) (pk : Option (List Sf.Peak)) (wpos : Int),
    peakFrom e ch ty pk wpos (xs ++ ys) = peakFrom e ch ty (peakFrom e ch ty pk wpos xs) (wposAfter ch wpos xs) ys
  | [], _, _, _ => rfl
  | .write x _ :: xs, ys, pk, wpos => by
    simp only [peakFrom, List.cons_append, sCalls, Sf.Peak.run, wposAfter]
    exact peakFrom_append e ch ty xs ys _ _
  | .update :: xs, ys, pk, wpos => by
    simp only [peakFrom, List.cons_append, sCalls, wposAfter]
    exact peakFrom_append e ch ty xs ys _ _

theorem peakFrom_write (e : Enc) (ch : Nat) (ty : Ty) (pk : Option (List Sf.Peak)) (wpos : Int) (xs : List Int) (a : Bool) :
    peakFrom e ch ty pk wpos [.write xs a] = Sf.Peak.upd pk e {} ch wpos ty xs := rfl

theorem peakOk_prefix (e : Enc) (ch : Nat) (ty : Ty) (xs ys : List SOp) (h : PeakOk e ch ty (xs ++ ys)) : PeakOk e ch ty xs := by
  intro c hc; exact h c (by rw [sCalls_append]; exact List.mem_append_left _ hc)

/-- a PEAK table stays a table -/
theorem peakFrom_some (e : Enc) (ch : Nat) (ty : Ty) : ∀ (ops : List SOp) (ps : List Sf.Peak) (wpos : Int),
    ∃ ps', peakFrom e ch ty (some ps) wpos ops = some ps'
  | [], ps, _ => ⟨ps, rfl⟩
  | .write xs _ :: r, ps, wpos => by
    simp only [peakFrom, sCalls, Sf.Peak.run]
    have : ∃ q, Sf.Peak.upd (some ps) e {} ch wpos ty xs = some q := by
      unfold Sf.Peak.upd peakUpdate; exact ⟨_, rfl⟩
    obtain ⟨q, hq⟩ := this
    rw [hq]; exact peakFrom_some e ch ty r q _
  | .update :: r, ps, wpos => by
    simp only [peakFrom, sCalls]; exact peakFrom_some e ch ty r ps wpos

/-- no table, no bookkeeping (the integer and companded encodings) -/
theorem peakFrom_none (e : Enc) (ch : Nat) (ty : Ty) : ∀ (ops : List SOp) (wpos : Int), peakFrom e ch ty none wpos ops = none
  | [], _ => rfl
  | .write xs _ :: r, wpos => by
    simp only [peakFrom, sCalls, Sf.Peak.run]
    have : Sf.Peak.upd none e {} ch wpos ty xs = none := by unfold Sf.Peak.upd peakUpdate; rfl
    rw [this]; exact peakFrom_none e ch ty r _
  | .update :: r, wpos => by simp only [peakFrom, sCalls]; exact peakFrom_none e ch ty r wpos

end Sf.AbsWriteBridge.Sample
