/-
  SfProofs.PeakCalc — the scan loops of the SFC_CALC_* commands, and `stepCalc` on read-only handles.
-/
import SfProofs.Peak
import SfProofs.HandleSeek
namespace Sf.Peak
open Sf Sf.Float

/-! ## the scan returns the maximum magnitude -/

theorem gtD_iff (a b : Nat) : gtD a b = true ↔ V64 b < V64 a := by
  unfold gtD V64; exact Dy.lt_iff _ _

/-- one buffer: the result dominates the old value and every magnitude in the buffer, and is one of them -/
theorem foldMax_spec (xs : List Nat) : ∀ acc : Nat,
    V64 acc ≤ V64 (foldMax acc xs) ∧ (∀ x ∈ xs, V64 (absD x) ≤ V64 (foldMax acc xs)) ∧
    (foldMax acc xs = acc ∨ ∃ x ∈ xs, foldMax acc xs = absD x) := by
  induction xs with
  | nil => intro acc; exact ⟨le_refl _, fun _ h => absurd h List.not_mem_nil, Or.inl rfl⟩
  | cons x xs ih =>
    intro acc
    have hstep : foldMax acc (x :: xs) = foldMax (if gtD (absD x) acc then absD x else acc) xs := rfl
    rw [hstep]
    by_cases hg : gtD (absD x) acc = true
    · rw [if_pos hg]
      obtain ⟨h1, h2, h3⟩ := ih (absD x)
      have hlt := (gtD_iff _ _).mp hg
      refine ⟨le_trans (le_of_lt hlt) h1, ?_, ?_⟩
      · intro y hy
        rcases List.mem_cons.mp hy with rfl | hy
        · exact h1
        · exact h2 y hy
      · rcases h3 with h | ⟨y, hy, h⟩
        · exact Or.inr ⟨x, List.mem_cons_self, h⟩
        · exact Or.inr ⟨y, List.mem_cons_of_mem _ hy, h⟩
    · rw [if_neg hg]
      obtain ⟨h1, h2, h3⟩ := ih acc
      have hle : V64 (absD x) ≤ V64 acc := not_lt.mp (fun h => hg ((gtD_iff _ _).mpr h))
      refine ⟨h1, ?_, ?_⟩
      · intro y hy
        rcases List.mem_cons.mp hy with rfl | hy
        · exact le_trans hle h1
        · exact h2 y hy
      · rcases h3 with h | ⟨y, hy, h⟩
        · exact Or.inl h
        · exact Or.inr ⟨y, List.mem_cons_of_mem _ hy, h⟩

/-- buffering is irrelevant: scanning buffer after buffer = scanning their concatenation -/
theorem foldMax_flatten (bufs : List (List Nat)) : ∀ acc, bufs.foldl foldMax acc = foldMax acc bufs.flatten := by
  induction bufs with
  | nil => intro acc; rfl
  | cons b bs ih =>
    intro acc
    simp only [List.foldl_cons, List.flatten_cons]
    rw [ih]; unfold foldMax; rw [List.foldl_append]

/-! ## `stepCalc` on a read-only handle: nothing a later call can see is changed -/

theorem calcLoop_keeps (fuel : Nat) : ∀ (h : H) (s : Store) (a : Acc), HInv h s → h.mode = .r →
    SameFile h (calcLoop fuel h s a).1 ∧ (calcLoop fuel h s a).2.1.bytes = s.bytes ∧
    HInv (calcLoop fuel h s a).1 (calcLoop fuel h s a).2.1 := by
  induction fuel with
  | zero => intro h s a hi _; exact ⟨SameFile.refl h, rfl, hi⟩
  | succ n ih =>
    intro h s a hi hm
    have sf := stepRead_sameFile h s .f64 false (calcLen h.ch) hi
    have hi' := HInv_stepRead h s .f64 false (calcLen h.ch) hi
    have hb := (read_contract_any h s .f64 false (calcLen h.ch) hi).2.2.2.2.2
    unfold calcLoop
    simp only
    split
    · exact ⟨sf, hb, hi'⟩
    · have hm' : (stepRead h s .f64 false (calcLen h.ch)).1.mode = .r := by rw [← sf.mode]; exact hm
      obtain ⟨sf2, hb2, hi2⟩ := ih _ _ (a.step h.ch ((List.take (stepRead h s Ty.f64 false ↑(calcLen h.ch)).2.2.ret.toNat
        (stepRead h s Ty.f64 false ↑(calcLen h.ch)).2.2.data).map Int.toNat)) hi' hm'
      exact ⟨⟨sf.enc.trans sf2.enc, sf.conv.trans sf2.conv, sf.ch.trans sf2.ch, sf.frames.trans sf2.frames,
              sf.dataoffset.trans sf2.dataoffset, sf.mode.trans sf2.mode⟩, hb2.trans hb, hi2⟩


theorem seek_set_r (h : H) (s : Store) (k : Int) (hi : HInv h s) (hm : h.mode = .r) (hk0 : 0 ≤ k) (hk : k ≤ h.frames) :
    (stepSeek h s k 0).1.rpos = k ∧ SameFile h (stepSeek h s k 0).1 ∧ (stepSeek h s k 0).2.1.bytes = s.bytes ∧
    HInv (stepSeek h s k 0).1 (stepSeek h s k 0).2.1 := by
  have hok : (stepSeek h s k 0).2.2.err = 0 ∧ (stepSeek h s k 0).2.2.ret = k := by
    rw [stepSeek_eq_spec]
    have : ¬ (k < 0 ∨ k > h.frames) := by omega
    simp [seekSpec, seekWm, seekBase, seekIsTell, seekTell, hm, this]
  obtain ⟨p1, sf1, b1, _, _, _⟩ := seek_success_rmode h s k 0 hi hm hok.1
  exact ⟨by rw [p1, hok.2], sf1, b1, HInv_stepSeek h s k 0 hi⟩


/-! ## the per-channel scan -/

/-- the samples the per-channel scan credits to channel `c` when the channel counter stands at `k` -/
def chanSub (ch c : Nat) : Nat → List Nat → List Nat
  | _, [] => []
  | k, x :: xs => if k = c then x :: chanSub ch c ((k + 1) % ch) xs else chanSub ch c ((k + 1) % ch) xs

theorem foldMaxAll_cons (ch : Nat) (pk : List Nat) (k : Nat) (x : Nat) (xs : List Nat) :
    foldMaxAll ch (pk, k) (x :: xs) =
      foldMaxAll ch (pk.set k (if gtD (absD x) (pk.getD k 0) then absD x else pk.getD k 0), (k + 1) % ch) xs := rfl

theorem foldMaxAll_spec (ch c : Nat) (hch : 0 < ch) (xs : List Nat) : ∀ (pk : List Nat) (k : Nat), pk.length = ch → k < ch →
    (foldMaxAll ch (pk, k) xs).1.getD c 0 = foldMax (pk.getD c 0) (chanSub ch c k xs) ∧
    (foldMaxAll ch (pk, k) xs).1.length = ch := by
  induction xs with
  | nil => intro pk k hl _; exact ⟨rfl, hl⟩
  | cons x xs ih =>
    intro pk k hl hk
    rw [foldMaxAll_cons]
    have hk' : (k + 1) % ch < ch := Nat.mod_lt _ hch
    obtain ⟨h1, h2⟩ := ih (pk.set k (if gtD (absD x) (pk.getD k 0) then absD x else pk.getD k 0)) ((k + 1) % ch)
      (by rw [List.length_set]; exact hl) hk'
    rw [h1, h2]
    refine ⟨?_, rfl⟩
    have hkl : k < pk.length := by rw [hl]; exact hk
    by_cases hkc : k = c
    · subst hkc
      have e1 : (pk.set k (if gtD (absD x) (pk.getD k 0) then absD x else pk.getD k 0)).getD k 0 =
          (if gtD (absD x) (pk.getD k 0) then absD x else pk.getD k 0) := by
        simp [List.getD, hkl]
      have e2 : chanSub ch k k (x :: xs) = x :: chanSub ch k ((k + 1) % ch) xs := by simp [chanSub]
      rw [e1, e2]; rfl
    · have e1 : (pk.set k (if gtD (absD x) (pk.getD k 0) then absD x else pk.getD k 0)).getD c 0 = pk.getD c 0 := by
        simp [List.getD, List.getElem?_set, hkc]
      have e2 : chanSub ch c k (x :: xs) = chanSub ch c ((k + 1) % ch) xs := by simp [chanSub, hkc]
      rw [e1, e2]

/-- buffering is irrelevant for the per-channel scan too -/
theorem foldMaxAll_flatten (ch : Nat) (bufs : List (List Nat)) : ∀ st, bufs.foldl (foldMaxAll ch) st = foldMaxAll ch st bufs.flatten := by
  induction bufs with
  | nil => intro st; rfl
  | cons b bs ih =>
    intro st
    simp only [List.foldl_cons, List.flatten_cons]
    rw [ih]; unfold foldMaxAll; rw [List.foldl_append]

/-- the samples credited to channel `c`, starting with the counter at `k`, are exactly those at the offsets `i` with
    `(k + i) % ch = c` -/
theorem mem_chanSub (ch c : Nat) (hch : 0 < ch) (hc : c < ch) (xs : List Nat) : ∀ k, k < ch → ∀ x,
    x ∈ chanSub ch c k xs ↔ ∃ i, ∃ h : i < xs.length, xs[i] = x ∧ (k + i) % ch = c := by
  induction xs with
  | nil => intro k _ x; simp [chanSub]
  | cons y ys ih =>
    intro k hk x
    have hk' : (k + 1) % ch < ch := Nat.mod_lt _ hch
    have hshift : ∀ i, ((k + 1) % ch + i) % ch = (k + (i + 1)) % ch := by
      intro i; rw [Nat.add_mod, Nat.mod_mod, ← Nat.add_mod]; congr 1; omega
    unfold chanSub
    by_cases hkc : k = c
    · simp only [hkc, if_true, List.mem_cons]
      constructor
      · rintro (rfl | hx)
        · exact ⟨0, by simp, rfl, by simpa using Nat.mod_eq_of_lt hc⟩
        · obtain ⟨i, hi, hxi, hm⟩ := (ih ((c + 1) % ch) (hkc ▸ hk') x).mp hx
          refine ⟨i + 1, by simpa using hi, by simpa using hxi, ?_⟩
          rw [← hkc] at hm ⊢; rw [← hshift]; exact hm
      · rintro ⟨i, hi, hxi, hm⟩
        cases i with
        | zero => left; simpa using hxi.symm
        | succ i =>
          right
          apply (ih ((c + 1) % ch) (hkc ▸ hk') x).mpr
          refine ⟨i, by simpa using hi, by simpa using hxi, ?_⟩
          rw [← hkc] at hm ⊢; rw [hshift]; exact hm
    · simp only [hkc, if_false]
      constructor
      · intro hx
        obtain ⟨i, hi, hxi, hm⟩ := (ih ((k + 1) % ch) hk' x).mp hx
        exact ⟨i + 1, by simpa using hi, by simpa using hxi, by rw [← hshift]; exact hm⟩
      · rintro ⟨i, hi, hxi, hm⟩
        cases i with
        | zero => exfalso; apply hkc; simpa [Nat.mod_eq_of_lt hk] using hm
        | succ i =>
          apply (ih ((k + 1) % ch) hk' x).mpr
          exact ⟨i, by simpa using hi, by simpa using hxi, by rw [hshift]; exact hm⟩

/-! ## the assembled command on a read-only handle -/

theorem cmdNormD (g : H) (t : Store) (b : Bool) :
    stepCmdFlag g t 0x1012 (if b then 1 else 0) =
      ({ g with error := 0, conv := { g.conv with normD := b } }, t, { ret := if g.conv.normD then 1 else 0 }) := by
  cases b <;> simp [stepCmdFlag]

theorem calcPre_r (h : H) (s : Store) (normalize : Bool) (hi : HInv h s) (hm : h.mode = .r) :
    (calcPre h s normalize).2.2.1 = h.conv.normD ∧ (calcPre h s normalize).2.2.2.2 = h.rpos ∧
    (calcPre h s normalize).1.mode = .r ∧ HInv (calcPre h s normalize).1 (calcPre h s normalize).2.1 ∧
    (calcPre h s normalize).2.1.bytes = s.bytes ∧ (calcPre h s normalize).1.frames = h.frames ∧
    (calcPre h s normalize).1.conv = { h.conv with normD := normalize } := by
  let h1 : H := { h with error := 0, conv := { h.conv with normD := normalize } }
  have hm1 : h1.mode = .r := hm
  have hi1 : HInv h1 s := by
    have := HInv_stepCmdFlag { h with error := 0 } s 0x1012 (if normalize then 1 else 0) (hi.set_error 0)
    rw [cmdNormD] at this; exact this
  let h2 : H := { h1 with error := 0 }
  have hi2 : HInv h2 s := hi1.set_error 0
  have hm2 : h2.mode = .r := hm
  have hr := hi.rd hm
  obtain ⟨p3, sf3, b3, hi3⟩ := seek_set_r h2 s 0 hi2 hm2 (le_refl _) (by
    have := hr.rpos_le; have := hi.rpos_nn; show (0 : Int) ≤ h.frames; omega)
  have e : calcPre h s normalize = ((stepSeek h2 s 0 0).1, (stepSeek h2 s 0 0).2.1, h.conv.normD, h.rpos, h.rpos) := by
    unfold calcPre
    simp only [cmdNormD]
    have hnrw : (h.mode == Mode.rw) = false := by rw [hm]; decide
    simp only [hnrw, Bool.false_eq_true, if_false]
    rw [seek_cur_zero_r _ _ hm1]
  rw [e]
  refine ⟨rfl, rfl, by rw [← sf3.mode]; exact hm2, hi3, b3, by rw [← sf3.frames], by rw [← sf3.conv]⟩

theorem calcPost_r (h : H) (s : Store) (save : Bool) (rp pos : Int) (hi : HInv h s) (hm : h.mode = .r)
    (h0 : 0 ≤ pos) (h1 : pos ≤ h.frames) :
    (calcPost h s save rp pos).1.rpos = pos ∧ (calcPost h s save rp pos).2.bytes = s.bytes ∧
    (calcPost h s save rp pos).1.frames = h.frames ∧ (calcPost h s save rp pos).1.conv = { h.conv with normD := save } ∧
    (calcPost h s save rp pos).1.error = 0 := by
  obtain ⟨p5, sf5, b5, _⟩ := seek_set_r h s pos hi hm h0 h1
  have hnrw : (h.mode == Mode.rw) = false := by rw [hm]; decide
  unfold calcPost
  simp only [hnrw, Bool.false_eq_true, if_false, cmdNormD]
  exact ⟨p5, b5, by rw [← sf5.frames], by rw [← sf5.conv], trivial⟩

/-- SFC_CALC_SIGNAL_MAX / _NORM_ / _MAX_ALL_CHANNELS / _NORM_MAX_ALL_CHANNELS on a read-only handle leave the read
    position, every conversion setting (norm_double, norm_float, clipping, scale flags), the frame count and the file bytes
    as they were, and no error -/
theorem stepCalc_restores_r (h : H) (s : Store) (normalize : Bool) (hi : HInv h s) (hm : h.mode = .r) :
    (stepCalc h s normalize).1.rpos = h.rpos ∧ (stepCalc h s normalize).1.conv = h.conv ∧
    (stepCalc h s normalize).2.1.bytes = s.bytes ∧ (stepCalc h s normalize).1.frames = h.frames ∧
    (stepCalc h s normalize).1.error = 0 := by
  obtain ⟨e1, e2, pm, pi, pb, pf, pc⟩ := calcPre_r h s normalize hi hm
  obtain ⟨sf4, b4, hi4⟩ := calcLoop_keeps ((calcPre h s normalize).1.frames.toNat + 1) _ _
    { all := (List.replicate (calcPre h s normalize).1.ch 0, 0) } pi pm
  have hr := hi.rd hm
  have hm4 := sf4.mode.symm.trans pm
  have hf4 := sf4.frames.symm.trans pf
  obtain ⟨q1, q2, q3, q4, q5⟩ := calcPost_r _ _ (calcPre h s normalize).2.2.1 (calcPre h s normalize).2.2.2.1
    (calcPre h s normalize).2.2.2.2 hi4 hm4 (by rw [e2]; exact hi.rpos_nn) (by rw [e2, hf4]; exact hr.rpos_le)
  unfold stepCalc
  simp only []
  refine ⟨by rw [q1, e2], ?_, by rw [q2, b4, pb], by rw [q3, hf4], q5⟩
  rw [q4, e1, ← sf4.conv, pc]

end Sf.Peak
