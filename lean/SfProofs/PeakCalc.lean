/-
  SfProofs.PeakCalc — the scan loops of the SFC_CALC_* commands, and `stepCalc` on read-only handles.
-/
import SfProofs.Peak
import SfProofs.HandleSeek
namespace Sf.Peak
open Sf Sf.Float

/-! ## the scan returns the maximum magnitude -/

theorem gtD_iff (a b : Nat) : gtD a b = true ↔ V64 b < V64 a := by
  unfold gtD V64; exact Dy.lt_iff _ _

/-- one buffer: the result dominates the old value and every magnitude in the buffer, and is one of them -/
theorem foldMax_spec (xs : List Nat) : ∀ acc : Nat,
    V64 acc ≤ V64 (foldMax acc xs) ∧ (∀ x ∈ xs, V64 (absD x) ≤ V64 (foldMax acc xs)) ∧
    (foldMax acc xs = acc ∨ ∃ x ∈ xs, foldMax acc xs = absD x) := by
  induction xs with
  | nil => intro acc; exact ⟨le_refl _, fun _ h => absurd h List.not_mem_nil, Or.inl rfl⟩
  | cons x xs ih =>
    intro acc
    have hstep : foldMax acc (x :: xs) = foldMax (if gtD (absD x) acc then absD x else acc) xs := rfl
    rw [hstep]
    by_cases hg : gtD (absD x) acc = true
    · rw [if_pos hg]
      obtain ⟨h1, h2, h3⟩ := ih (absD x)
      have hlt := (gtD_iff _ _).mp hg
      refine ⟨le_trans (le_of_lt hlt) h1, ?_, ?_⟩
      · intro y hy
        rcases List.mem_cons.mp hy with rfl | hy
        · exact h1
        · exact h2 y hy
      · rcases h3 with h | ⟨y, hy, h⟩
        · exact Or.inr ⟨x, List.mem_cons_self, h⟩
        · exact Or.inr ⟨y, List.mem_cons_of_mem _ hy, h⟩
    · rw [if_neg hg]
      obtain ⟨h1, h2, h3⟩ := ih acc
      have hle : V64 (absD x) ≤ V64 acc := not_lt.mp (fun h => hg ((gtD_iff _ _).mpr h))
      refine ⟨h1, ?_, ?_⟩
      · intro y hy
        rcases List.mem_cons.mp hy with rfl | hy
        · exact le_trans hle h1
        · exact h2 y hy
      · rcases h3 with h | ⟨y, hy, h⟩
        · exact Or.inl h
        · exact Or.inr ⟨y, List.mem_cons_of_mem _ hy, h⟩

/-- buffering is irrelevant: scanning buffer after buffer = scanning their concatenation -/
theorem foldMax_flatten (bufs : List (List Nat)) : ∀ acc, bufs.foldl foldMax acc = foldMax acc bufs.flatten := by
  induction bufs with
  | nil => intro acc; rfl
  | cons b bs ih =>
    intro acc
    simp only [List.foldl_cons, List.flatten_cons]
    rw [ih]; unfold foldMax; rw [List.foldl_append]

/-! ## `stepCalc` on a read-only handle: nothing a later call can see is changed -/

theorem calcLoop_keeps (fuel : Nat) : ∀ (h : H) (s : Store) (a : Acc), HInv h s → h.mode = .r →
    SameFile h (calcLoop fuel h s a).1 ∧ (calcLoop fuel h s a).2.1.bytes = s.bytes ∧
    HInv (calcLoop fuel h s a).1 (calcLoop fuel h s a).2.1 := by
  induction fuel with
  | zero => intro h s a hi _; exact ⟨SameFile.refl h, rfl, hi⟩
  | succ n ih =>
    intro h s a hi hm
    have sf := stepRead_sameFile h s .f64 false (calcLen h.ch) hi
    have hi' := HInv_stepRead h s .f64 false (calcLen h.ch) hi
    have hb := (read_contract_any h s .f64 false (calcLen h.ch) hi).2.2.2.2.2
    unfold calcLoop
    simp only
    split
    · exact ⟨sf, hb, hi'⟩
    · have hm' : (stepRead h s .f64 false (calcLen h.ch)).1.mode = .r := by rw [← sf.mode]; exact hm
      obtain ⟨sf2, hb2, hi2⟩ := ih _ _ (a.step h.ch ((List.take (stepRead h s Ty.f64 false ↑(calcLen h.ch)).2.2.ret.toNat
        (stepRead h s Ty.f64 false ↑(calcLen h.ch)).2.2.data).map Int.toNat)) hi' hm'
      exact ⟨⟨sf.enc.trans sf2.enc, sf.conv.trans sf2.conv, sf.ch.trans sf2.ch, sf.frames.trans sf2.frames,
              sf.dataoffset.trans sf2.dataoffset, sf.mode.trans sf2.mode⟩, hb2.trans hb, hi2⟩


theorem seek_set_r (h : H) (s : Store) (k : Int) (hi : HInv h s) (hm : h.mode = .r) (hk0 : 0 ≤ k) (hk : k ≤ h.frames) :
    (stepSeek h s k 0).1.rpos = k ∧ SameFile h (stepSeek h s k 0).1 ∧ (stepSeek h s k 0).2.1.bytes = s.bytes ∧
    HInv (stepSeek h s k 0).1 (stepSeek h s k 0).2.1 := by
  have hok : (stepSeek h s k 0).2.2.err = 0 ∧ (stepSeek h s k 0).2.2.ret = k := by
    rw [stepSeek_eq_spec]
    have : ¬ (k < 0 ∨ k > h.frames) := by omega
    simp [seekSpec, seekWm, seekBase, seekIsTell, seekTell, hm, this]
  obtain ⟨p1, sf1, b1, _, _, _⟩ := seek_success_rmode h s k 0 hi hm hok.1
  exact ⟨by rw [p1, hok.2], sf1, b1, HInv_stepSeek h s k 0 hi⟩

end Sf.Peak
