/-
  SfProofs.PeakCalc — the scan loops of the SFC_CALC_* commands.
-/
import SfProofs.Peak
import SfProofs.HandleSeek
namespace Sf.Peak
open Sf Sf.Float

end Sf.Peak
