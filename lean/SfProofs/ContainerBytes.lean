/-
  Byte-level lemmas for the container theorems (C04, C11): fixed-width fields, reading a field at a
  known offset of a concatenation, the store operations, the length of encoded audio.
-/
import SfModel.Handle
import SfProofs.Bytes
namespace Sf

/-! ### fixed-width integers -/

theorem wrapU_lt (bits : Nat) (v : Int) : wrapU bits v < 2 ^ bits := by
  unfold wrapU
  have h : (0:Int) < 2 ^ bits := Int.pow_pos (by decide)
  have h1 := Int.emod_lt_of_pos v h
  have h2 := Int.emod_nonneg v (Int.ne_of_gt h)
  have : ((2 ^ bits : Nat) : Int) = (2:Int) ^ bits := by simp
  omega

theorem wrapU_of_range (bits : Nat) (v : Int) (h0 : 0 ≤ v) (h1 : v < 2 ^ bits) : (wrapU bits v : Int) = v := by
  unfold wrapU
  rw [Int.emod_eq_of_lt h0 h1]; omega

theorem sext32_wrapU (v : Int) (h0 : -0x80000000 ≤ v) (h1 : v ≤ 0x7FFFFFFF) : sext 32 (wrapU 32 v) = v := by
  unfold sext wrapU
  have e : ((2:Int) ^ 32) = 4294967296 := by decide
  simp only [e]
  have hm := Int.emod_emod_of_dvd v (Int.dvd_refl 4294967296)
  have h2 := Int.emod_lt_of_pos v (show (0:Int) < 4294967296 by decide)
  have h3 := Int.emod_nonneg v (show (4294967296:Int) ≠ 0 by decide)
  have h4 := Int.emod_add_mul_ediv v 4294967296
  split <;> omega

theorem u32_length_ct (b : Bool) (v : Int) : (u32 b v).length = 4 := by
  unfold u32; split <;> simp [beBytes_length, leBytes_length]
theorem u16_length_ct (b : Bool) (v : Int) : (u16 b v).length = 2 := by
  unfold u16; split <;> simp [beBytes_length, leBytes_length]

/-! ### a segment at an offset -/

/-- `seg` occupies `bs[off ..< off + seg.length]` -/
def At (bs : List Byte) (off : Nat) (seg : List Byte) : Prop := (bs.drop off).take seg.length = seg

theorem At.here (seg rest : List Byte) : At (seg ++ rest) 0 seg := by simp [At]
theorem At.skip {rest : List Byte} {off : Nat} {seg : List Byte} (pre : List Byte) (h : At rest off seg) :
    At (pre ++ rest) (pre.length + off) seg := by
  unfold At at *; simpa using h
theorem At.cast {bs : List Byte} {m n : Nat} {seg : List Byte} (h : At bs m seg) (e : m = n) : At bs n seg := e ▸ h

theorem rd32_of_At {big : Bool} {bs : List Byte} {off : Nat} {v : Int} (h : At bs off (u32 big v)) :
    rd32 big bs off = wrapU 32 v := by
  unfold At at h; rw [u32_length_ct] at h
  unfold rd32; simp only [h]
  have := wrapU_lt 32 v
  unfold u32; cases big <;> simp [ofBE_beBytes, ofLE_leBytes] <;> omega

theorem rd16_of_At {big : Bool} {bs : List Byte} {off : Nat} {v : Int} (h : At bs off (u16 big v)) :
    rd16 big bs off = wrapU 16 v := by
  unfold At at h; rw [u16_length_ct] at h
  unfold rd16; simp only [h]
  have := wrapU_lt 16 v
  unfold u16; cases big <;> simp [ofBE_beBytes, ofLE_leBytes] <;> omega

theorem take4_of_At {bs : List Byte} {off : Nat} {m : List Byte} (hm : m.length = 4) (h : At bs off m) :
    (bs.drop off).take 4 = m := by
  unfold At at h; rw [hm] at h; exact h

/-! ### markers as literals -/

@[simp] theorem marker_snd : marker ".snd" = [46, 115, 110, 100] := by decide
@[simp] theorem marker_dns : marker "dns." = [100, 110, 115, 46] := by decide
@[simp] theorem marker_RIFF : marker "RIFF" = [82, 73, 70, 70] := by decide
@[simp] theorem marker_RIFX : marker "RIFX" = [82, 73, 70, 88] := by decide
@[simp] theorem marker_WAVE : marker "WAVE" = [87, 65, 86, 69] := by decide
@[simp] theorem marker_fmt : marker "fmt " = [102, 109, 116, 32] := by decide
@[simp] theorem marker_fact : marker "fact" = [102, 97, 99, 116] := by decide
@[simp] theorem marker_PEAK : marker "PEAK" = [80, 69, 65, 75] := by decide
@[simp] theorem marker_data : marker "data" = [100, 97, 116, 97] := by decide
@[simp] theorem marker_PAD : marker "PAD " = [80, 65, 68, 32] := by decide

/-! ### the store -/

theorem writeAt_end_ct (bs d : List Byte) : writeAt bs bs.length d = bs ++ d := by
  simp [writeAt]

/-- overwriting the first `hdr.length` bytes -/
theorem writeAt_head (hdr rest hdr' : List Byte) (hl : hdr'.length = hdr.length) :
    writeAt (hdr ++ rest) 0 hdr' = hdr' ++ rest := by
  simp [writeAt, hl]

theorem writeAt_nil (d : List Byte) : writeAt [] 0 d = d := by simp [writeAt]

/-! ### encoded audio -/

theorem encode_length (e : Enc) (c : Conv) (ty : Ty) (v : Int) : (e.encode c ty v).length = e.nbytes := by
  cases e with
  | pcm p => simp only [Enc.encode, Enc.nbytes, PcmFmt.encCode]; split <;> simp [beBytes_length, leBytes_length]
  | flt b => simp only [Enc.encode, Enc.nbytes]; split <;> simp [beBytes_length, leBytes_length]
  | dbl b => simp only [Enc.encode, Enc.nbytes]; split <;> simp [beBytes_length, leBytes_length]
  | ulaw => simp [Enc.encode, Enc.nbytes]
  | alaw => simp [Enc.encode, Enc.nbytes]

theorem encodeAll_length (e : Enc) (c : Conv) (ty : Ty) (vs : List Int) :
    (e.encodeAll c ty vs).length = vs.length * e.nbytes := by
  unfold Enc.encodeAll
  induction vs with
  | nil => simp
  | cons v vs ih => simp [List.flatMap_cons, encode_length, ih, Nat.add_mul, Nat.add_comm]

end Sf
